//go:build verif

package state

// C18 harness, state-store half (see /verif/DESIGN.md section 5, C18; spec/TMStore.tla).
//
// Drives the REAL dbStore (Save / SaveABCIResponses / Bootstrap / PruneStates) over a
// journalling dbm.DB with State values produced by the real updateState, for chains that the
// block-level harness in package store cannot afford: > 1000 heights (the flush interval of
// PruneStates), windows containing a validator-set checkpoint (height % 100000 == 0),
// incremental partial prunes, restored (state-synced) stores.  Every prefix of the journal
// of an audited operation is rebuilt in a fresh MemDB, the store is reopened on it and
// LoadValidators / LoadConsensusParams / LoadABCIResponses are called for every height; the
// results are projected (TMStore!Proj, block-store half empty) and written as NDJSON for
// TLC (spec/trace/TMStoreTrace.tla).  No judgements here.
//
// The block store is virtual: its range descriptor is what the node's block store would
// hold at that moment - base = the retain height of the last prune (PruneStates runs after
// the block store moved its base), height = persisted State.LastBlockHeight + 1 (SaveBlock(h+1)
// may already have happened), or the initial height right after the genesis save.

import (
	"crypto/sha256"
	"encoding/hex"
	"encoding/json"
	"fmt"
	"math/rand"
	"os"
	"sort"
	"strconv"
	"strings"
	"testing"
	"time"

	dbm "github.com/tendermint/tm-db"

	abci "github.com/tendermint/tendermint/abci/types"
	"github.com/tendermint/tendermint/crypto/ed25519"
	tmstate "github.com/tendermint/tendermint/proto/tendermint/state"
	tmproto "github.com/tendermint/tendermint/proto/tendermint/types"
	"github.com/tendermint/tendermint/types"
)

type c18sEntry struct {
	del bool
	key []byte
	val []byte
}

type c18sDB struct {
	dbm.DB
	on      bool
	entries []c18sEntry
}

func (d *c18sDB) rec(del bool, k, v []byte) {
	if d.on {
		d.entries = append(d.entries, c18sEntry{del, append([]byte{}, k...), append([]byte{}, v...)})
	}
}
func (d *c18sDB) Set(k, v []byte) error {
	if err := d.DB.Set(k, v); err != nil {
		return err
	}
	d.rec(false, k, v)
	return nil
}
func (d *c18sDB) SetSync(k, v []byte) error { return d.Set(k, v) }
func (d *c18sDB) Delete(k []byte) error {
	if err := d.DB.Delete(k); err != nil {
		return err
	}
	d.rec(true, k, nil)
	return nil
}
func (d *c18sDB) DeleteSync(k []byte) error { return d.Delete(k) }
func (d *c18sDB) NewBatch() dbm.Batch       { return &c18sBatch{d: d} }

type c18sBatch struct {
	d      *c18sDB
	ops    []c18sEntry
	closed bool
}

func (b *c18sBatch) Set(k, v []byte) error {
	if b.closed {
		return fmt.Errorf("batch has been written or closed")
	}
	b.ops = append(b.ops, c18sEntry{false, append([]byte{}, k...), append([]byte{}, v...)})
	return nil
}
func (b *c18sBatch) Delete(k []byte) error {
	if b.closed {
		return fmt.Errorf("batch has been written or closed")
	}
	b.ops = append(b.ops, c18sEntry{true, append([]byte{}, k...), nil})
	return nil
}

// not atomic: one journalled write per operation, in order
func (b *c18sBatch) Write() error {
	if b.closed {
		return fmt.Errorf("batch has been written or closed")
	}
	for _, o := range b.ops {
		var err error
		if o.del {
			err = b.d.Delete(o.key)
		} else {
			err = b.d.Set(o.key, o.val)
		}
		if err != nil {
			return err
		}
	}
	b.ops, b.closed = nil, true
	return nil
}
func (b *c18sBatch) WriteSync() error { return b.Write() }
func (b *c18sBatch) Close() error     { b.closed, b.ops = true, nil; return nil }

func c18sClone(src dbm.DB) *dbm.MemDB {
	dst := dbm.NewMemDB()
	it, err := src.Iterator(nil, nil)
	if err != nil {
		panic(err)
	}
	defer it.Close()
	for ; it.Valid(); it.Next() {
		if err := dst.Set(append([]byte{}, it.Key()...), append([]byte{}, it.Value()...)); err != nil {
			panic(err)
		}
	}
	return dst
}

// ---------------------------------------------------------------------------------------
// chain of states (real updateState), real heights

type c18sCfg struct {
	Initial int64   `json:"initial"` // real initial height
	N       int64   `json:"n"`       // number of heights
	ValChg  []int64 `json:"valchg"`  // real heights whose EndBlock changes the validator set
	ParChg  []int64 `json:"parchg"`
	Boot    int64   `json:"boot"` // 0 or real height restored by state sync
	NVals   int     `json:"nvals"`
}

type c18sChain struct {
	cfg      c18sCfg
	states   map[int64]State // after block h; [Initial-1] = genesis
	first    int64
	last     int64
	off      int64 // model height = real - off
	lo, hi   int64 // model domain
	vs, ps   []int
	valsetID map[string]int
	paramsID map[string]int
	pubs     []ed25519.PubKey
}

func c18sHas(s []int64, x int64) bool {
	for _, y := range s {
		if y == x {
			return true
		}
	}
	return false
}

func c18sParamsKey(p tmproto.ConsensusParams) string {
	bz, err := p.Marshal()
	if err != nil {
		panic(err)
	}
	s := sha256.Sum256(bz)
	return hex.EncodeToString(s[:])
}

func (ch *c18sChain) valsAt(real int64) *types.ValidatorSet {
	if st, ok := ch.states[real-1]; ok {
		return st.Validators
	}
	if st, ok := ch.states[real-2]; ok {
		return st.NextValidators
	}
	return nil
}

func c18sMakeChain(cfg c18sCfg) *c18sChain {
	if cfg.NVals == 0 {
		cfg.NVals = 3
	}
	ch := &c18sChain{cfg: cfg, states: map[int64]State{}, valsetID: map[string]int{}, paramsID: map[string]int{}}
	genVals := make([]types.GenesisValidator, cfg.NVals)
	for i := 0; i < cfg.NVals; i++ {
		pk := ed25519.GenPrivKeyFromSecret([]byte(fmt.Sprintf("c18-validator-%d", i)))
		pub := pk.PubKey()
		ch.pubs = append(ch.pubs, pub.(ed25519.PubKey))
		genVals[i] = types.GenesisValidator{Address: pub.Address(), PubKey: pub, Power: 10, Name: fmt.Sprintf("v%d", i)}
	}
	genTime := time.Date(2020, 1, 1, 0, 0, 0, 0, time.UTC)
	ch.first, ch.last = cfg.Initial, cfg.Initial+cfg.N-1
	ch.off = cfg.Initial - 1
	genDoc := &types.GenesisDoc{GenesisTime: genTime, ChainID: "c18-chain", InitialHeight: cfg.Initial,
		ConsensusParams: types.DefaultConsensusParams(), Validators: genVals}
	st, err := MakeGenesisState(genDoc)
	if err != nil {
		panic(err)
	}
	ch.states[ch.first-1] = st.Copy()
	nv, np := 0, 0
	for h := ch.first; h <= ch.last; h++ {
		hdr := &types.Header{ChainID: st.ChainID, Height: h, Time: genTime.Add(time.Duration(h-ch.first+1) * time.Second)}
		resp := &tmstate.ABCIResponses{BeginBlock: &abci.ResponseBeginBlock{}, EndBlock: &abci.ResponseEndBlock{}}
		var updates []*types.Validator
		if c18sHas(cfg.ValChg, h) {
			updates = []*types.Validator{types.NewValidator(ch.pubs[nv%len(ch.pubs)], int64(11+nv))}
			nv++
		}
		if c18sHas(cfg.ParChg, h) {
			np++
			resp.EndBlock.ConsensusParamUpdates = &abci.ConsensusParams{
				Block: &abci.BlockParams{MaxBytes: 22020096 - int64(np)*4096, MaxGas: -1}}
		}
		bid := types.BlockID{Hash: []byte(fmt.Sprintf("c18-block-hash-%020d-pad-pad", h))[:32],
			PartSetHeader: types.PartSetHeader{Total: 1, Hash: make([]byte, 32)}}
		nst, err := updateState(st, bid, hdr, resp, updates)
		if err != nil {
			panic(err)
		}
		nst.AppHash = []byte("c18-app-hash")
		ch.states[h] = nst.Copy()
		st = nst
	}
	ch.lo = 0 // model height of first - 1
	if cfg.Boot > 0 {
		ch.lo = cfg.Boot - ch.off - 1
	}
	ch.hi = ch.last - ch.off + 2
	for mh := ch.lo; mh <= ch.hi; mh++ {
		real := mh + ch.off
		v := ch.valsAt(real)
		if v == nil {
			v = ch.valsAt(ch.first)
		}
		k := hex.EncodeToString(v.Hash())
		if _, ok := ch.valsetID[k]; !ok {
			ch.valsetID[k] = len(ch.valsetID)
		}
		ch.vs = append(ch.vs, ch.valsetID[k])
		var p tmproto.ConsensusParams
		if s, ok := ch.states[real-1]; ok {
			p = s.ConsensusParams
		} else if real-1 > ch.last {
			p = ch.states[ch.last].ConsensusParams
		} else {
			p = ch.states[ch.first-1].ConsensusParams
		}
		pk := c18sParamsKey(p)
		if _, ok := ch.paramsID[pk]; !ok {
			ch.paramsID[pk] = len(ch.paramsID)
		}
		ch.ps = append(ch.ps, ch.paramsID[pk])
	}
	return ch
}

func (ch *c18sChain) model(real int64) int64 {
	if real == 0 {
		return 0
	}
	return real - ch.off
}

func (ch *c18sChain) resetEvent(run int, full bool, label string) map[string]interface{} {
	nparts, ckpt := []int{}, []int64{}
	for mh := ch.lo; mh <= ch.hi; mh++ {
		nparts = append(nparts, 1)
		if real := mh + ch.off; real > 0 && real%valSetCheckpointInterval == 0 {
			ckpt = append(ckpt, mh)
		}
	}
	boot := int64(0)
	if ch.cfg.Boot > 0 {
		boot = ch.model(ch.cfg.Boot)
	}
	nn := func(x []int64) []int64 {
		if x == nil {
			return []int64{}
		}
		return x
	}
	hcfg := map[string]interface{}{"initial": ch.cfg.Initial, "n": ch.cfg.N, "valchg": nn(ch.cfg.ValChg),
		"parchg": nn(ch.cfg.ParChg), "boot": ch.cfg.Boot, "nvals": ch.cfg.NVals}
	return map[string]interface{}{"ev": "Reset", "run": run, "label": label, "hcfg": hcfg, "cfg": map[string]interface{}{
		"lo": ch.lo, "hi": ch.hi, "initial": int64(1), "boot": boot, "batch": 1000, "ckpt": ckpt,
		"nparts": nparts, "vs": ch.vs, "ps": ch.ps, "chk": []string{"state"}, "full": full, "offset": ch.off}}
}

type c18sWrite struct {
	K   string `json:"k"`
	H   int64  `json:"h"`
	I   int64  `json:"i"`
	A   int64  `json:"a"`
	B   int64  `json:"b"`
	Del bool   `json:"del"`
	MB  int64  `json:"mb"`
	MH  int64  `json:"mh"`
}

func c18sAtoi(s string) (int64, bool) {
	n, err := strconv.ParseInt(s, 10, 64)
	return n, err == nil
}

func (ch *c18sChain) decodeValsInfo(bz []byte) (int64, int64) {
	v := new(tmstate.ValidatorsInfo)
	if err := v.Unmarshal(bz); err != nil {
		return -2, -2
	}
	id := int64(-1)
	if v.ValidatorSet != nil {
		id = -2
		if vs, err := types.ValidatorSetFromProto(v.ValidatorSet); err == nil {
			if x, ok := ch.valsetID[hex.EncodeToString(vs.Hash())]; ok {
				id = int64(x)
			}
		}
	}
	return ch.model(v.LastHeightChanged), id
}

func (ch *c18sChain) decodeParamsInfo(bz []byte) (int64, int64) {
	p := new(tmstate.ConsensusParamsInfo)
	if err := p.Unmarshal(bz); err != nil {
		return -2, -2
	}
	id := int64(-1)
	if !p.ConsensusParams.Equal(&tmproto.ConsensusParams{}) {
		id = -2
		if x, ok := ch.paramsID[c18sParamsKey(p.ConsensusParams)]; ok {
			id = int64(x)
		}
	}
	return ch.model(p.LastHeightChanged), id
}

func (ch *c18sChain) abstractEntry(e c18sEntry, mb, mh int64) c18sWrite {
	w := c18sWrite{K: "other", A: -1, B: -1, Del: e.del, MB: mb, MH: mh}
	key := string(e.key)
	switch {
	case key == string(stateKey):
		w.K = "state"
		if !e.del {
			w.B = 0
			sp := new(tmstate.State)
			if err := sp.Unmarshal(e.val); err == nil {
				w.A = ch.model(sp.LastBlockHeight)
			}
		}
	case key == string(lastABCIResponseKey):
		w.K = "lastabci"
		if !e.del {
			w.B = 0
			info := new(tmstate.ABCIResponsesInfo)
			if err := info.Unmarshal(e.val); err == nil {
				w.A = ch.model(info.Height)
			}
		}
	case strings.HasPrefix(key, "validatorsKey:"):
		if h, ok := c18sAtoi(key[len("validatorsKey:"):]); ok {
			w.K, w.H = "vals", ch.model(h)
			if !e.del {
				w.A, w.B = ch.decodeValsInfo(e.val)
			}
		}
	case strings.HasPrefix(key, "consensusParamsKey:"):
		if h, ok := c18sAtoi(key[len("consensusParamsKey:"):]); ok {
			w.K, w.H = "params", ch.model(h)
			if !e.del {
				w.A, w.B = ch.decodeParamsInfo(e.val)
			}
		}
	case strings.HasPrefix(key, "abciResponsesKey:"):
		if h, ok := c18sAtoi(key[len("abciResponsesKey:"):]); ok {
			w.K, w.H = "abci", ch.model(h)
			if !e.del {
				w.A, w.B = 1, 0
			}
		}
	}
	return w
}

// ---------------------------------------------------------------------------------------
// projection

type c18sProj struct {
	Meta   int64  `json:"meta"`
	Total  int64  `json:"total"`
	Parts  int64  `json:"parts"`
	Block  string `json:"block"`
	Hidx   int64  `json:"hidx"`
	ByHash string `json:"byhash"`
	Cblk   int64  `json:"cblk"`
	Cver   bool   `json:"cver"`
	Sblk   int64  `json:"sblk"`
	Sver   bool   `json:"sver"`
	Vlhc   int64  `json:"vlhc"`
	Vfull  int64  `json:"vfull"`
	Vload  int64  `json:"vload"`
	Plhc   int64  `json:"plhc"`
	Pfull  int64  `json:"pfull"`
	Pload  int64  `json:"pload"`
	Abci   bool   `json:"abci"`
}

type c18sRange struct {
	Lo int64    `json:"lo"`
	Hi int64    `json:"hi"`
	P  c18sProj `json:"p"`
}

type c18sAuditor struct {
	ch     *c18sChain
	cache  map[int64]*c18sProj
	vtgt   map[int64]int64
	ptgt   map[int64]int64
	prio   int
	panics int
}

func (a *c18sAuditor) safe(f func()) (panicked bool) {
	defer func() {
		if r := recover(); r != nil {
			panicked = true
			a.panics++
		}
	}()
	f()
	return false
}

func (a *c18sAuditor) stateHalf(ss Store, sdb dbm.DB, mh int64, p *c18sProj) {
	ch := a.ch
	real := mh + ch.off
	*p = c18sProj{Meta: -1000001, Block: "nil", Hidx: -1000001, ByHash: "nil", Cblk: -1000001, Sblk: -1000001,
		Vlhc: -1, Vfull: -1, Vload: -1, Plhc: -1, Pfull: -1, Pload: -1}
	a.vtgt[mh], a.ptgt[mh] = mh, mh
	if real <= 0 {
		return
	}
	rawV, _ := sdb.Get(calcValidatorsKey(real))
	if len(rawV) > 0 {
		lhc, id := ch.decodeValsInfo(rawV)
		p.Vlhc, p.Vfull = lhc, id
		if id == -1 {
			v := new(tmstate.ValidatorsInfo)
			if err := v.Unmarshal(rawV); err == nil {
				a.vtgt[mh] = ch.model(lastStoredHeightFor(real, v.LastHeightChanged))
			}
		}
	}
	var vs *types.ValidatorSet
	var err error
	if a.safe(func() { vs, err = ss.LoadValidators(real) }) {
		p.Vload = -5
	} else if err == nil && vs != nil {
		p.Vload = -2
		if x, ok := ch.valsetID[hex.EncodeToString(vs.Hash())]; ok {
			p.Vload = int64(x)
		}
		if tv := ch.valsAt(real); tv != nil && string(tv.Hash()) == string(vs.Hash()) {
			if tp, lp := tv.GetProposer(), vs.GetProposer(); tp != nil && lp != nil && string(tp.Address) != string(lp.Address) {
				a.prio++
			}
		}
	}
	rawP, _ := sdb.Get(calcConsensusParamsKey(real))
	if len(rawP) > 0 {
		lhc, id := ch.decodeParamsInfo(rawP)
		p.Plhc, p.Pfull = lhc, id
		if id == -1 {
			a.ptgt[mh] = lhc
		}
	}
	var cp tmproto.ConsensusParams
	if a.safe(func() { cp, err = ss.LoadConsensusParams(real) }) {
		p.Pload = -5
	} else if err == nil {
		if cp.Equal(&tmproto.ConsensusParams{}) {
			p.Pload = -2
		} else if x, ok := ch.paramsID[c18sParamsKey(cp)]; ok {
			p.Pload = int64(x)
		} else {
			p.Pload = -4
		}
	}
	a.safe(func() {
		if _, err := ss.LoadABCIResponses(real); err == nil {
			p.Abci = true
		}
	})
}

// virtual block store range for a disk image (see the file comment)
func (a *c18sAuditor) virtualRange(ss Store, vbase int64) (int64, int64) {
	st, err := ss.Load()
	if err != nil || st.IsEmpty() {
		return 0, 0
	}
	if st.LastBlockHeight == 0 {
		return a.ch.model(st.InitialHeight), a.ch.model(st.InitialHeight)
	}
	h := st.LastBlockHeight + 1
	if h > a.ch.last {
		h = a.ch.last
	}
	return vbase, a.ch.model(h)
}

func (a *c18sAuditor) audit(sdb dbm.DB, dirty map[int64]bool) (ranges []c18sRange) {
	ss := NewStore(sdb, StoreOptions{})
	for mh := a.ch.lo; mh <= a.ch.hi; mh++ {
		p, ok := a.cache[mh]
		if !ok {
			p = &c18sProj{}
			a.cache[mh] = p
		}
		if !ok || dirty == nil || dirty[mh] || dirty[a.vtgt[mh]] || dirty[a.ptgt[mh]] {
			a.stateHalf(ss, sdb, mh, p)
		}
		if n := len(ranges); n > 0 && ranges[n-1].P == *p {
			ranges[n-1].Hi = mh
		} else {
			ranges = append(ranges, c18sRange{Lo: mh, Hi: mh, P: *p})
		}
	}
	return
}

// ---------------------------------------------------------------------------------------
// histories

type c18sOp struct {
	Op    string `json:"op"`    // Genesis, Save, SaveABCI, Bootstrap, PruneStates, Reopen, Push, Pop, Load
	A     int64  `json:"a"`     // real heights
	B     int64  `json:"b"`
	Crash int    `json:"crash"` // -1 none, k, -2 random
	Audit string `json:"audit"` // "", "none", "sample", "silent"
	// audit only the prefixes AuditFrom..AuditTo (0 = no bound)
	AuditFrom int `json:"audit_from"`
	AuditTo   int `json:"audit_to"`
}

type c18sReplay struct {
	Cfg         c18sCfg  `json:"cfg"`
	Ops         []c18sOp `json:"ops"`
	Incremental bool     `json:"incremental"`
}

type c18sOut struct {
	enc                *json.Encoder
	lines, audits, ops int
	runs               int
	prio, panics       int
}

func (o *c18sOut) emit(v interface{}) {
	if err := o.enc.Encode(v); err != nil {
		panic(err)
	}
	o.lines++
}

type c18sRunner struct {
	out *c18sOut
	rng *rand.Rand
}

func (rr *c18sRunner) run(ch *c18sChain, label string, incremental bool, sampleEvery int, ops []c18sOp) {
	out := rr.out
	out.runs++
	out.emit(ch.resetEvent(out.runs, !incremental, label))
	cur := dbm.NewMemDB()
	jdb := &c18sDB{DB: cur}
	ss := NewStore(jdb, StoreOptions{})
	aud := &c18sAuditor{ch: ch, cache: map[int64]*c18sProj{}, vtgt: map[int64]int64{}, ptgt: map[int64]int64{}}
	vbase := int64(1) // model
	if ch.cfg.Boot > 0 {
		vbase = ch.model(ch.cfg.Boot) + 1
	}
	var stack []*dbm.MemDB
	var vstack []int64
	for _, op := range ops {
		out.ops++
		if op.Op == "Push" { // branch point: remember the disk
			stack, vstack = append(stack, c18sClone(cur)), append(vstack, vbase)
			out.emit(map[string]interface{}{"ev": "Push"})
			continue
		}
		if op.Op == "Pop" { // back to the remembered disk, store reopened on it
			cur, vbase = stack[len(stack)-1], vstack[len(vstack)-1]
			stack, vstack = stack[:len(stack)-1], vstack[:len(vstack)-1]
			jdb = &c18sDB{DB: cur}
			ss = NewStore(jdb, StoreOptions{})
			b, h := aud.virtualRange(NewStore(cur, StoreOptions{}), vbase)
			out.emit(map[string]interface{}{"ev": "Pop"})
			out.emit(map[string]interface{}{"ev": "Reopen", "k": -1, "mbase": b, "mheight": h})
			continue
		}
		if op.Op == "Reopen" {
			cur = c18sClone(cur)
			jdb = &c18sDB{DB: cur}
			ss = NewStore(jdb, StoreOptions{})
			b, h := aud.virtualRange(NewStore(cur, StoreOptions{}), vbase)
			out.emit(map[string]interface{}{"ev": "Reopen", "k": -1, "mbase": b, "mheight": h})
			continue
		}
		if op.Op == "Load" {
			// install the abstraction of the whole database (after operations run "silent")
			journal := []c18sWrite{}
			b, h := aud.virtualRange(NewStore(cur, StoreOptions{}), vbase)
			it, err := cur.Iterator(nil, nil)
			if err != nil {
				panic(err)
			}
			for ; it.Valid(); it.Next() {
				journal = append(journal, ch.abstractEntry(c18sEntry{key: it.Key(), val: it.Value()}, b, h))
			}
			it.Close()
			out.emit(map[string]interface{}{"ev": "Op", "op": "Load", "a": 0, "b": 0, "c": 0, "res": "ok", "n": len(journal),
				"journal": journal, "mem0": map[string]int64{"base": b, "height": h}, "audited": false})
			continue
		}
		silent := op.Audit == "silent"
		auditing := op.Audit != "none" && !silent
		var pre *dbm.MemDB
		if auditing || op.Crash != -1 {
			pre = c18sClone(cur)
		}
		if op.Op == "PruneStates" && op.A < op.B {
			// the block store moved its base to the retain height before PruneStates is called
			if nb := ch.model(op.B); nb > vbase {
				vbase = nb
			}
		}
		m0b, m0h := aud.virtualRange(NewStore(cur, StoreOptions{}), vbase)
		jdb.entries, jdb.on = nil, true
		res, a, b, c := "ok", ch.model(op.A), ch.model(op.B), int64(0)
		func() {
			defer func() {
				if r := recover(); r != nil {
					res = "panic"
				}
			}()
			var err error
			switch op.Op {
			case "Genesis":
				st := ch.states[ch.first-1].Copy()
				a, b, c = 0, ch.model(st.LastHeightValidatorsChanged), ch.model(st.LastHeightConsensusParamsChanged)
				err = ss.Save(st)
			case "Save":
				st := ch.states[op.A].Copy()
				if ch.cfg.Boot > 0 {
					// a restored node keeps the change heights the state provider gave it
					if x := ch.cfg.Boot + 2; st.LastHeightValidatorsChanged < x {
						st.LastHeightValidatorsChanged = x
					}
					if x := ch.cfg.Boot + 1; st.LastHeightConsensusParamsChanged < x {
						st.LastHeightConsensusParamsChanged = x
					}
				}
				b, c = ch.model(st.LastHeightValidatorsChanged), ch.model(st.LastHeightConsensusParamsChanged)
				err = ss.Save(st)
			case "SaveABCI":
				err = ss.SaveABCIResponses(op.A, &tmstate.ABCIResponses{BeginBlock: &abci.ResponseBeginBlock{},
					EndBlock: &abci.ResponseEndBlock{}, DeliverTxs: []*abci.ResponseDeliverTx{{Code: 0}}})
			case "Bootstrap":
				st := ch.states[op.A].Copy()
				st.LastHeightValidatorsChanged = op.A + 2
				st.LastHeightConsensusParamsChanged = op.A + 1
				b = ch.model(st.LastHeightConsensusParamsChanged)
				err = ss.Bootstrap(st)
			case "PruneStates":
				err = ss.PruneStates(op.A, op.B)
			default:
				res = "unknown-op"
			}
			if err != nil {
				res = "err"
			}
		}()
		jdb.on = false
		entries := jdb.entries
		journal := make([]c18sWrite, len(entries))
		for i, e := range entries {
			journal[i] = ch.abstractEntry(e, m0b, m0h)
		}
		crashAt := op.Crash
		if crashAt == -2 {
			crashAt = rr.rng.Intn(len(entries) + 1)
		}
		if crashAt > len(entries) {
			crashAt = len(entries)
		}
		if !silent {
			out.emit(map[string]interface{}{"ev": "Op", "op": op.Op, "a": a, "b": b, "c": c, "res": res, "n": len(journal),
				"journal": journal, "mem0": map[string]int64{"base": m0b, "height": m0h}, "audited": auditing})
		}
		var crashImg *dbm.MemDB
		if crashAt == 0 {
			crashImg = c18sClone(pre)
		}
		apply := func(db *dbm.MemDB, e c18sEntry) {
			var err error
			if e.del {
				err = db.Delete(e.key)
			} else {
				err = db.Set(e.key, e.val)
			}
			if err != nil {
				panic(err)
			}
		}
		if auditing {
			img := pre
			if incremental {
				aud.audit(img, nil)
			}
			dirty := map[int64]bool{}
			lastLogged := 0
			for k := 1; k <= len(entries); k++ {
				apply(img, entries[k-1])
				dirty[journal[k-1].H] = true
				if crashAt == k {
					crashImg = c18sClone(img)
				}
				if op.Audit == "sample" && sampleEvery > 1 &&
					!(k%sampleEvery == 0 || k <= 4 || k >= len(entries)-3 || k == crashAt || (k%3000 >= 2996 || k%3000 <= 4)) {
					continue
				}
				if (op.AuditFrom > 0 && k < op.AuditFrom) || (op.AuditTo > 0 && k > op.AuditTo) {
					continue
				}
				var ranges []c18sRange
				if incremental {
					ranges = aud.audit(img, dirty)
				} else {
					ranges = aud.audit(img, nil)
				}
				vb, vh := aud.virtualRange(NewStore(img, StoreOptions{}), vbase)
				ev := map[string]interface{}{"ev": "A", "k": k, "dbase": vb, "dheight": vh, "mbase": vb, "mheight": vh, "ranges": ranges}
				if incremental {
					win := map[int64]bool{}
					for x := lastLogged; x < k; x++ {
						for d := int64(-1); d <= 1; d++ {
							win[journal[x].H+d] = true
						}
					}
					for _, x := range []int64{vb - 1, vb, vb + 1, vh, vh + 1, ch.lo, ch.hi, (ch.lo + ch.hi) / 2} {
						win[x] = true
					}
					wl := []int64{}
					for x := range win {
						if x >= ch.lo && x <= ch.hi {
							wl = append(wl, x)
						}
					}
					sort.Slice(wl, func(i, j int) bool { return wl[i] < wl[j] })
					ev["win"] = wl
				}
				out.emit(ev)
				out.audits++
				lastLogged = k
				dirty = map[int64]bool{}
			}
		} else if crashAt > 0 {
			crashImg = c18sClone(pre)
			for k := 1; k <= crashAt; k++ {
				apply(crashImg, entries[k-1])
			}
		}
		if crashAt >= 0 {
			cur = crashImg
			jdb = &c18sDB{DB: cur}
			ss = NewStore(jdb, StoreOptions{})
			vb, vh := aud.virtualRange(NewStore(cur, StoreOptions{}), vbase)
			out.emit(map[string]interface{}{"ev": "Reopen", "k": crashAt, "mbase": vb, "mheight": vh})
		}
	}
	out.prio += aud.prio
	out.panics += aud.panics
}

func c18sBuild(ch *c18sChain, upto int64, audit string) []c18sOp {
	ops := []c18sOp{}
	if ch.cfg.Boot > 0 {
		ops = append(ops, c18sOp{Op: "Bootstrap", A: ch.cfg.Boot, Crash: -1, Audit: audit})
		for h := ch.cfg.Boot + 1; h <= upto; h++ {
			ops = append(ops, c18sOp{Op: "SaveABCI", A: h, Crash: -1, Audit: audit}, c18sOp{Op: "Save", A: h, Crash: -1, Audit: audit})
		}
		return ops
	}
	ops = append(ops, c18sOp{Op: "Genesis", Crash: -1, Audit: audit})
	for h := ch.first; h <= upto; h++ {
		ops = append(ops, c18sOp{Op: "SaveABCI", A: h, Crash: -1, Audit: audit}, c18sOp{Op: "Save", A: h, Crash: -1, Audit: audit})
	}
	return ops
}

type c18sInput struct {
	Tier   string       `json:"tier"`
	Random int          `json:"random"`
	Replay []c18sReplay `json:"replay"` // if set: run exactly these histories instead of the scenarios
}

func TestVerifC18State(t *testing.T) {
	inPath, outDir := os.Getenv("VERIF_IN"), os.Getenv("VERIF_OUT")
	if inPath == "" || outDir == "" {
		t.Skip("VERIF_IN / VERIF_OUT not set")
	}
	seed, _ := strconv.ParseInt(os.Getenv("VERIF_SEED"), 10, 64)
	raw, err := os.ReadFile(inPath)
	if err != nil {
		t.Fatal(err)
	}
	var in c18sInput
	if err := json.Unmarshal(raw, &in); err != nil {
		t.Fatal(err)
	}
	f, err := os.Create(outDir + "/state.ndjson")
	if err != nil {
		t.Fatal(err)
	}
	defer f.Close()
	rr := &c18sRunner{out: &c18sOut{enc: json.NewEncoder(f)}, rng: rand.New(rand.NewSource(seed*104729 + 18))}
	quick := in.Tier != "thorough"
	if in.Replay != nil {
		for _, r := range in.Replay {
			rr.run(c18sMakeChain(r.Cfg), "replay", r.Incremental, 1, r.Ops)
		}
		t.Logf("C18STAT runs=%d ops=%d lines=%d audits=%d prio_mismatch=%d loader_panics=%d",
			rr.out.runs, rr.out.ops, rr.out.lines, rr.out.audits, rr.out.prio, rr.out.panics)
		return
	}

	// (1) long chain: one PruneStates crossing the 1000-height flush interval (twice in thorough)
	{
		n, every := int64(1012), 30
		if !quick {
			n, every = 2110, 1
		}
		cfg := c18sCfg{Initial: 1, N: n, ValChg: []int64{2, 700, 999, n - 6}, ParChg: []int64{3, 800, 1000, n - 5}, NVals: 3}
		ch := c18sMakeChain(cfg)
		mode := "sample"
		if every == 1 {
			mode = ""
		}
		if !quick {
			// every prefix of the big prune, audited by several runs (parallel trace validation)
			total := int(n-4) * 3
			for from := 1; from <= total; from += 1600 {
				o := c18sBuild(ch, n, "silent")
				o = append(o, c18sOp{Op: "Load"}, c18sOp{Op: "PruneStates", A: 1, B: n - 3, Crash: -1, AuditFrom: from, AuditTo: from + 1599})
				rr.run(ch, "long-slice", true, 1, o)
			}
			mode, every = "sample", 200
		}
		ops := c18sBuild(ch, n, "silent")
		ops = append(ops, c18sOp{Op: "Load"},
			c18sOp{Op: "Push"}, c18sOp{Op: "PruneStates", A: 1, B: n - 3, Crash: -1, Audit: mode}, c18sOp{Op: "Pop"},
			// the same prune interrupted in its second batch, then continued from the retained base
			c18sOp{Op: "PruneStates", A: 1, B: n - 3, Crash: 3000 + 17, Audit: "none"},
			c18sOp{Op: "SaveABCI", A: n, Crash: -1, Audit: "none"},
			c18sOp{Op: "PruneStates", A: n - 3, B: n - 1, Crash: -1, Audit: ""})
		rr.run(ch, "long", true, every, ops)
	}

	// (2) windows around a validator-set checkpoint: every (change position, retain height)
	{
		const ck = int64(valSetCheckpointInterval)
		firsts := []int64{ck - 6, ck - 3}
		if quick {
			firsts = firsts[:1]
		}
		for _, first := range firsts {
			for _, chg := range [][]int64{{}, {first}, {first + 1}, {ck - 3}, {ck - 2}, {ck - 1}, {ck + 1}, {first, ck}} {
				ok := true
				for _, c := range chg {
					if c < first {
						ok = false
					}
				}
				if !ok {
					continue
				}
				cfg := c18sCfg{Initial: first, N: 11, ValChg: chg, ParChg: []int64{first + 2}, NVals: 3}
				ch := c18sMakeChain(cfg)
				// the chain is saved once; every retain height is tried from that disk (Push / Pop)
				ops := c18sBuild(ch, ch.last, "none")
				for to := first + 1; to <= ch.last; to++ {
					if quick && (to-first)%2 == 1 && to != ck && to != ck+1 {
						continue
					}
					ops = append(ops, c18sOp{Op: "Push"}, c18sOp{Op: "PruneStates", A: first, B: to, Crash: -1})
					if to+2 <= ch.last {
						ops = append(ops, c18sOp{Op: "PruneStates", A: to, B: to + 2, Crash: -1})
					}
					ops = append(ops, c18sOp{Op: "Pop"})
				}
				rr.run(ch, fmt.Sprintf("ckpt first=%d chg=%v", first, chg), false, 1, ops)
			}
		}
	}

	// (3) saves audited at every prefix, small chains with and without InitialHeight > 1, restored stores
	for _, cfg := range []c18sCfg{
		{Initial: 1, N: 7, ValChg: []int64{2, 3}, ParChg: []int64{1, 4}},
		{Initial: 5, N: 6, ValChg: []int64{5}, ParChg: []int64{6}},
		{Initial: 1, N: 8, ValChg: []int64{2, 4}, ParChg: []int64{3}, Boot: 3},
		{Initial: 1, N: 8, ValChg: []int64{3}, ParChg: []int64{2, 5}, Boot: 3},
	} {
		ch := c18sMakeChain(cfg)
		ops := c18sBuild(ch, ch.last, "")
		start := ch.first
		if cfg.Boot > 0 {
			start = cfg.Boot + 1
		}
		ops = append(ops, c18sOp{Op: "PruneStates", A: start, B: ch.last - 2, Crash: -1},
			c18sOp{Op: "PruneStates", A: ch.last - 2, B: ch.last - 1, Crash: -1},
			// calls that must be refused
			c18sOp{Op: "PruneStates", A: ch.last, B: ch.last, Crash: -1},
			c18sOp{Op: "PruneStates", A: ch.last - 1, B: ch.last + 5, Crash: -1})
		rr.run(ch, fmt.Sprintf("small %+v", cfg), false, 1, ops)
	}

	// (4) random: chain shape, incremental partial prunes, crashes anywhere
	for i := 0; i < in.Random; i++ {
		first := []int64{1, 1, 3, valSetCheckpointInterval - 4, 2*valSetCheckpointInterval - 2}[rr.rng.Intn(5)]
		n := int64(6 + rr.rng.Intn(8))
		cfg := c18sCfg{Initial: first, N: n, NVals: 2 + rr.rng.Intn(3)}
		for h := first; h < first+n; h++ {
			if rr.rng.Intn(4) == 0 {
				cfg.ValChg = append(cfg.ValChg, h)
			}
			if rr.rng.Intn(4) == 0 {
				cfg.ParChg = append(cfg.ParChg, h)
			}
		}
		if rr.rng.Intn(5) == 0 {
			cfg.Boot = first + int64(rr.rng.Intn(3))
		}
		ch := c18sMakeChain(cfg)
		ops := []c18sOp{}
		crash := func() int {
			if rr.rng.Intn(5) == 0 {
				return -2
			}
			return -1
		}
		base := first
		h := first
		if cfg.Boot > 0 {
			ops = append(ops, c18sOp{Op: "Bootstrap", A: cfg.Boot, Crash: -1})
			base, h = cfg.Boot+1, cfg.Boot+1
		} else {
			ops = append(ops, c18sOp{Op: "Genesis", Crash: -1})
		}
		for ; h <= ch.last; h++ {
			// a crash inside SaveABCI/Save is followed by the same calls again (block re-applied)
			if c := crash(); c != -1 {
				ops = append(ops, c18sOp{Op: "SaveABCI", A: h, Crash: c})
			}
			ops = append(ops, c18sOp{Op: "SaveABCI", A: h, Crash: -1})
			if c := crash(); c != -1 {
				ops = append(ops, c18sOp{Op: "Save", A: h, Crash: c}, c18sOp{Op: "SaveABCI", A: h, Crash: -1})
			}
			ops = append(ops, c18sOp{Op: "Save", A: h, Crash: -1})
			if h > base && rr.rng.Intn(3) == 0 {
				to := base + 1 + int64(rr.rng.Intn(int(h-base)))
				ops = append(ops, c18sOp{Op: "PruneStates", A: base, B: to, Crash: crash()})
				base = to // an interrupted prune is not resumed: the next one starts at the new base
			}
		}
		rr.run(ch, "random", false, 1, ops)
	}
	t.Logf("C18STAT runs=%d ops=%d lines=%d audits=%d prio_mismatch=%d loader_panics=%d",
		rr.out.runs, rr.out.ops, rr.out.lines, rr.out.audits, rr.out.prio, rr.out.panics)
}
