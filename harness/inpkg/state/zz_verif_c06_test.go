//go:build verif

package state_test

// C06 harness (see /verif/DESIGN.md section 5, C06; spec/TMBlockValidity.tla, TMBlockPerturb.tla,
// TMBlockChain.tla; trace spec spec/trace/TMBlockValidityTrace.tla).
//
// Replays histories exported by TLC (and random ones seeded by VERIF_SEED) on TWO independently
// constructed replicas of the real block machinery (state store, evidence pool, v0 mempool,
// BlockExecutor, an ABCI application fed the abstract responses):
//   make    - replica A proposes with BlockExecutor.CreateProposalBlock (real mempool reap, real
//             evidence pool, a commit made by a real VoteSet from signed precommits); the block goes
//             to replica B through its part set (serialise / split / reassemble / BlockFromProto)
//   perturb - an operation of TMBlockPerturb is applied to the protobuf block, which is decoded
//             again and offered to BlockExecutor.ValidateBlock of replica B
//   apply   - both replicas ApplyBlock their copy
// After every step the real objects are projected to the abstract state of the specification and
// written as NDJSON.  The harness makes no judgement about the property: TLC does, on the trace.

import (
	"bytes"
	"crypto/sha256"
	"encoding/hex"
	"encoding/json"
	"errors"
	"fmt"
	"io"
	"math/rand"
	"os"
	"reflect"
	"sort"
	"strconv"
	"strings"
	"testing"
	"time"

	"github.com/gogo/protobuf/proto"
	dbm "github.com/tendermint/tm-db"

	abcicli "github.com/tendermint/tendermint/abci/client"
	abci "github.com/tendermint/tendermint/abci/types"
	cfg "github.com/tendermint/tendermint/config"
	"github.com/tendermint/tendermint/consensus"
	"github.com/tendermint/tendermint/crypto"
	"github.com/tendermint/tendermint/crypto/ed25519"
	"github.com/tendermint/tendermint/evidence"
	"github.com/tendermint/tendermint/libs/log"
	mempl "github.com/tendermint/tendermint/mempool"
	mempoolmock "github.com/tendermint/tendermint/mempool/mock"
	mempoolv0 "github.com/tendermint/tendermint/mempool/v0"
	tmstate "github.com/tendermint/tendermint/proto/tendermint/state"
	tmproto "github.com/tendermint/tendermint/proto/tendermint/types"
	"github.com/tendermint/tendermint/proxy"
	sm "github.com/tendermint/tendermint/state"
	"github.com/tendermint/tendermint/store"
	"github.com/tendermint/tendermint/types"
)

// ------------------------------------------------------------------ input format

type c06Val struct {
	ID    string `json:"id"`
	Power int64  `json:"power"`
}

type c06Params struct {
	MaxBytes       int64 `json:"maxBytes"`
	MaxGas         int64 `json:"maxGas"`
	EvMaxAgeBlocks int64 `json:"evMaxAgeBlocks"`
	EvMaxAgeDur    int64 `json:"evMaxAgeDur"`
	EvMaxBytes     int64 `json:"evMaxBytes"`
	AppVersion     int64 `json:"appVersion"`
}

type c06Genesis struct {
	Chain   string    `json:"chain"`
	IH      int64     `json:"ih"`
	Vals    []c06Val  `json:"vals"`
	Params  c06Params `json:"params"`
	AppHash string    `json:"appHash"`
	AppVer  int64     `json:"appVer"`
}

type c06Vote struct {
	Flag string `json:"flag"`
	Ts   int64  `json:"ts"`
}

type c06PUBlock struct {
	Has      bool  `json:"has"`
	MaxBytes int64 `json:"maxBytes"`
	MaxGas   int64 `json:"maxGas"`
}
type c06PUEvidence struct {
	Has          bool  `json:"has"`
	MaxAgeBlocks int64 `json:"maxAgeBlocks"`
	MaxAgeDur    int64 `json:"maxAgeDur"`
	MaxBytes     int64 `json:"maxBytes"`
}
type c06PUVersion struct {
	Has bool  `json:"has"`
	App int64 `json:"app"`
}
type c06PU struct {
	Any      bool          `json:"any"`
	Block    c06PUBlock    `json:"block"`
	Evidence c06PUEvidence `json:"evidence"`
	Version  c06PUVersion  `json:"version"`
}

type c06Op struct {
	F string `json:"f"`
	K string `json:"k"`
	I int    `json:"i"`
	J int    `json:"j"`
}

type c06Fill struct {
	Txs    int `json:"txs"`    // number of generated transactions put into the mempool (overfull)
	MinLen int `json:"minLen"` // their lengths are drawn from [minLen, maxLen] ...
	MaxLen int `json:"maxLen"`
	Tiny   int `json:"tiny"` // ... followed by this many 1-byte transactions (so that the reap ends close to the budget)
	Ev     int `json:"ev"`   // number of distinct duplicate-vote evidences offered to the pool
}

type c06Step struct {
	T string `json:"t"` // make | apply
	// make
	Txs      []string  `json:"txs"`
	Ev       string    `json:"ev"`
	Proposer string    `json:"proposer"`
	Votes    []c06Vote `json:"votes"`
	Ops      []c06Op   `json:"ops"`
	Fill     *c06Fill  `json:"fill"`
	RandOps  int       `json:"randOps"`  // number of random perturbations (random driver)
	RandVote bool      `json:"randVote"` // votes chosen by the harness (random driver)
	// apply
	ValUpdates []c06Val `json:"valUpdates"`
	Pu         c06PU    `json:"pu"`
	Rc         string   `json:"rc"`
	AppHash    string   `json:"appHash"`
	RandUpd    bool     `json:"randUpd"` // validator updates chosen by the harness (random driver)
}

type c06Run struct {
	ID      string     `json:"id"`
	Genesis c06Genesis `json:"genesis"`
	Steps   []c06Step  `json:"steps"`
	Seed    int64      `json:"seed"`
}

type c06Input struct {
	Runs []c06Run `json:"runs"`
}

// ------------------------------------------------------------------ keys and naming tables

const c06NKeys = 24
const c06ZeroTime = -999999

var c06Base = time.Date(2020, 1, 1, 0, 0, 0, 0, time.UTC)

type c06Key struct {
	id   string
	priv ed25519.PrivKey
	pub  crypto.PubKey
	addr []byte
}

var c06Keys []c06Key // sorted by address: id v1 < v2 < ... like the addresses

func c06InitKeys() {
	if c06Keys != nil {
		return
	}
	ks := make([]c06Key, c06NKeys)
	for i := range ks {
		pk := ed25519.GenPrivKeyFromSecret([]byte(fmt.Sprintf("verif-c06-key-%d", i)))
		ks[i] = c06Key{priv: pk, pub: pk.PubKey(), addr: pk.PubKey().Address()}
	}
	sort.Slice(ks, func(i, j int) bool { return bytes.Compare(ks[i].addr, ks[j].addr) < 0 })
	for i := range ks {
		ks[i].id = "v" + strconv.Itoa(i+1)
	}
	c06Keys = ks
}

func c06KeyByID(id string) *c06Key {
	for i := range c06Keys {
		if c06Keys[i].id == id {
			return &c06Keys[i]
		}
	}
	return nil
}

func c06KeyByAddr(addr []byte) *c06Key {
	for i := range c06Keys {
		if bytes.Equal(c06Keys[i].addr, addr) {
			return &c06Keys[i]
		}
	}
	return nil
}

func c06Sum(s string) []byte { h := sha256.Sum256([]byte(s)); return h[:] }

// per-run naming of concrete byte strings (an injective renaming, first registration wins)
type c06Names struct {
	byHex   map[string]string
	nBlocks int
	nPS     int
}

func newC06Names() *c06Names {
	n := &c06Names{byHex: map[string]string{}}
	n.reg("X1", c06Sum("X1"))
	return n
}

func (n *c06Names) reg(name string, b []byte) {
	k := hex.EncodeToString(b)
	if _, ok := n.byHex[k]; !ok {
		n.byHex[k] = name
	}
}

// name of a hash-like byte string: "" empty, registered name, or X(..)
func (n *c06Names) hash(b []byte) string {
	if len(b) == 0 {
		return ""
	}
	if s, ok := n.byHex[hex.EncodeToString(b)]; ok {
		return s
	}
	return "X(" + hex.EncodeToString(b[:c06Min(len(b), 6)]) + ")"
}

// a field checked by types.ValidateHash
func (n *c06Names) hash32(b []byte) string {
	if len(b) != 0 && len(b) != 32 {
		return "BADLEN"
	}
	return n.hash(b)
}

func (n *c06Names) blockHash(b []byte) string {
	if len(b) == 0 {
		return ""
	}
	if len(b) != 32 {
		return "BADLEN"
	}
	k := hex.EncodeToString(b)
	if s, ok := n.byHex[k]; ok {
		return s
	}
	n.nBlocks++
	s := "b" + strconv.Itoa(n.nBlocks)
	n.byHex[k] = s
	return s
}

func (n *c06Names) psHash(b []byte) string {
	if len(b) == 0 {
		return ""
	}
	if len(b) != 32 {
		return "BADLEN"
	}
	k := hex.EncodeToString(b)
	if s, ok := n.byHex[k]; ok {
		return s
	}
	n.nPS++
	s := "ps" + strconv.Itoa(n.nPS)
	n.byHex[k] = s
	return s
}

func (n *c06Names) addr(b []byte) string {
	if len(b) == 0 {
		return ""
	}
	if len(b) != crypto.AddressSize {
		return "BADLEN"
	}
	if k := c06KeyByAddr(b); k != nil {
		return k.id
	}
	if s, ok := n.byHex[hex.EncodeToString(b)]; ok {
		return s
	}
	return "a?" + hex.EncodeToString(b[:4])
}

func c06Min(a, b int) int {
	if a < b {
		return a
	}
	return b
}

func c06AbsTime(t time.Time) int64 {
	if t.IsZero() {
		return c06ZeroTime
	}
	d := t.Sub(c06Base)
	if d > time.Hour || d < -time.Hour {
		return 999999999
	}
	return d.Nanoseconds()
}

func c06ConcTime(ts int64) time.Time {
	if ts == c06ZeroTime {
		return time.Time{}
	}
	return c06Base.Add(time.Duration(ts))
}

// ------------------------------------------------------------------ the ABCI application of a replica

type c06Resp struct {
	valUpdates []abci.ValidatorUpdate
	pu         *abci.ConsensusParams
	results    []abci.ResponseDeliverTx
	appHash    []byte
}

type c06App struct {
	abci.BaseApplication
	replica   string
	next      c06Resp
	k         int
	begin     abci.RequestBeginBlock // what the application was told about the block
	delivered [][]byte
}

func (a *c06App) CheckTx(req abci.RequestCheckTx) abci.ResponseCheckTx {
	return abci.ResponseCheckTx{Code: abci.CodeTypeOK, GasWanted: 1}
}

func (a *c06App) BeginBlock(req abci.RequestBeginBlock) abci.ResponseBeginBlock {
	a.k = 0
	a.begin = req
	a.delivered = nil
	return abci.ResponseBeginBlock{}
}

// the deterministic fields are the ones the harness was told; everything the header does not
// commit to (log, info, events, codespace) differs between the replicas
func (a *c06App) DeliverTx(req abci.RequestDeliverTx) abci.ResponseDeliverTx {
	a.delivered = append(a.delivered, req.Tx)
	var r abci.ResponseDeliverTx
	if a.k < len(a.next.results) {
		r = a.next.results[a.k]
	}
	a.k++
	r.Log = "log of replica " + a.replica
	r.Info = a.replica
	r.Codespace = "cs" + a.replica
	r.Events = []abci.Event{{Type: "replica", Attributes: []abci.EventAttribute{{Key: []byte("r"), Value: []byte(a.replica)}}}}
	return r
}

func (a *c06App) EndBlock(req abci.RequestEndBlock) abci.ResponseEndBlock {
	return abci.ResponseEndBlock{ValidatorUpdates: a.next.valUpdates, ConsensusParamUpdates: a.next.pu}
}

func (a *c06App) Commit() abci.ResponseCommit {
	return abci.ResponseCommit{Data: a.next.appHash}
}

// ------------------------------------------------------------------ block store seen by the evidence pool

type c06BlockStore struct {
	metas   map[int64]*types.BlockMeta
	commits map[int64]*types.Commit
	height  int64
}

func (s *c06BlockStore) LoadBlockMeta(h int64) *types.BlockMeta { return s.metas[h] }
func (s *c06BlockStore) LoadBlockCommit(h int64) *types.Commit  { return s.commits[h] }
func (s *c06BlockStore) Height() int64                          { return s.height }

// ------------------------------------------------------------------ a replica

type c06Replica struct {
	name       string
	stateDB    dbm.DB
	stateStore sm.Store
	blockStore *c06BlockStore
	evpool     *evidence.Pool
	mempool    *mempoolv0.CListMempool
	app        *c06App
	client     abcicli.Client
	blockExec  *sm.BlockExecutor
	state      sm.State
}

func c06ConcParams(p c06Params) tmproto.ConsensusParams {
	cp := *types.DefaultConsensusParams()
	cp.Block.MaxBytes = p.MaxBytes
	cp.Block.MaxGas = p.MaxGas
	cp.Evidence.MaxAgeNumBlocks = p.EvMaxAgeBlocks
	cp.Evidence.MaxAgeDuration = time.Duration(p.EvMaxAgeDur)
	cp.Evidence.MaxBytes = p.EvMaxBytes
	cp.Version.AppVersion = uint64(p.AppVersion)
	return cp
}

func c06AbsParams(cp tmproto.ConsensusParams) c06Params {
	return c06Params{MaxBytes: cp.Block.MaxBytes, MaxGas: cp.Block.MaxGas, EvMaxAgeBlocks: cp.Evidence.MaxAgeNumBlocks,
		EvMaxAgeDur: int64(cp.Evidence.MaxAgeDuration), EvMaxBytes: cp.Evidence.MaxBytes, AppVersion: int64(cp.Version.AppVersion)}
}

func c06AppHashBytes(name string) []byte {
	if name == "" {
		return nil
	}
	return c06Sum("apphash:" + name)
}

func newC06Replica(name string, g c06Genesis) (*c06Replica, error) {
	gvals := make([]types.GenesisValidator, len(g.Vals))
	for i, v := range g.Vals {
		k := c06KeyByID(v.ID)
		if k == nil {
			return nil, fmt.Errorf("unknown validator id %q", v.ID)
		}
		gvals[i] = types.GenesisValidator{Address: k.addr, PubKey: k.pub, Power: v.Power, Name: v.ID}
	}
	cp := c06ConcParams(g.Params)
	gd := &types.GenesisDoc{GenesisTime: c06Base, ChainID: g.Chain, InitialHeight: g.IH, ConsensusParams: &cp,
		Validators: gvals, AppHash: c06AppHashBytes(g.AppHash)}
	st, err := sm.MakeGenesisState(gd)
	if err != nil {
		return nil, err
	}
	// what the ABCI handshake does with the application's Info response
	st.Version.Consensus.App = uint64(g.AppVer)
	r := &c06Replica{name: name, stateDB: dbm.NewMemDB(), state: st}
	r.stateStore = sm.NewStore(r.stateDB, sm.StoreOptions{DiscardABCIResponses: false})
	if err := r.stateStore.Save(st); err != nil {
		return nil, err
	}
	r.blockStore = &c06BlockStore{metas: map[int64]*types.BlockMeta{}, commits: map[int64]*types.Commit{}}
	r.evpool, err = evidence.NewPool(dbm.NewMemDB(), r.stateStore, r.blockStore)
	if err != nil {
		return nil, err
	}
	r.app = &c06App{replica: name}
	r.client = abcicli.NewLocalClient(nil, r.app)
	if err := r.client.Start(); err != nil {
		return nil, err
	}
	mcfg := cfg.DefaultMempoolConfig()
	mcfg.Size = 100000
	r.mempool = mempoolv0.NewCListMempool(mcfg, proxy.NewAppConnMempool(r.client), st.LastBlockHeight)
	r.blockExec = sm.NewBlockExecutor(r.stateStore, log.NewNopLogger(), proxy.NewAppConnConsensus(r.client), r.mempool, r.evpool)
	return r, nil
}

func (r *c06Replica) close() {
	_ = r.client.Stop()
	_ = r.stateDB.Close()
}

// ------------------------------------------------------------------ recovery nodes
//
// A recovery node applies EVERY block the way a node does that crashed between the application's
// Commit and stateStore.Save (the last fail point of BlockExecutor.ApplyBlock): the live ApplyBlock
// runs on the real state store with a Save that fails ("the crash"), then the node "restarts":
// the state is loaded from the store and consensus.Handshaker.ReplayBlocks - store one ahead of the
// state, application at the store's height - replays the block through the mock application built
// from LoadLastABCIResponse.  One node runs with DiscardABCIResponses = false, one with true.

type c06CrashStore struct {
	sm.Store
	armed bool
	hit   bool
}

var errC06Crash = errors.New("c06: crash before the state is saved")

func (s *c06CrashStore) Save(st sm.State) error {
	if s.armed {
		s.hit = true
		return errC06Crash
	}
	return s.Store.Save(st)
}

type c06RecNode struct {
	variant    string
	stateDB    dbm.DB
	realStore  sm.Store
	crash      *c06CrashStore
	blockStore *store.BlockStore
	app        *c06App
	client     abcicli.Client
	blockExec  *sm.BlockExecutor
	genDoc     *types.GenesisDoc
	state      sm.State
}

func c06GenesisDoc(g c06Genesis) (*types.GenesisDoc, error) {
	gvals := make([]types.GenesisValidator, len(g.Vals))
	for i, v := range g.Vals {
		k := c06KeyByID(v.ID)
		if k == nil {
			return nil, fmt.Errorf("unknown validator id %q", v.ID)
		}
		gvals[i] = types.GenesisValidator{Address: k.addr, PubKey: k.pub, Power: v.Power, Name: v.ID}
	}
	cp := c06ConcParams(g.Params)
	return &types.GenesisDoc{GenesisTime: c06Base, ChainID: g.Chain, InitialHeight: g.IH, ConsensusParams: &cp,
		Validators: gvals, AppHash: c06AppHashBytes(g.AppHash)}, nil
}

func newC06RecNode(variant string, discard bool, g c06Genesis) (*c06RecNode, error) {
	gd, err := c06GenesisDoc(g)
	if err != nil {
		return nil, err
	}
	st, err := sm.MakeGenesisState(gd)
	if err != nil {
		return nil, err
	}
	st.Version.Consensus.App = uint64(g.AppVer)
	n := &c06RecNode{variant: variant, stateDB: dbm.NewMemDB(), genDoc: gd, state: st}
	n.realStore = sm.NewStore(n.stateDB, sm.StoreOptions{DiscardABCIResponses: discard})
	if err := n.realStore.Save(st); err != nil {
		return nil, err
	}
	n.crash = &c06CrashStore{Store: n.realStore}
	n.blockStore = store.NewBlockStore(dbm.NewMemDB())
	n.app = &c06App{replica: variant}
	n.client = abcicli.NewLocalClient(nil, n.app)
	if err := n.client.Start(); err != nil {
		return nil, err
	}
	n.blockExec = sm.NewBlockExecutor(n.crash, log.NewNopLogger(), proxy.NewAppConnConsensus(n.client), mempoolmock.Mempool{}, sm.EmptyEvidencePool{})
	return n, nil
}

func (n *c06RecNode) close() {
	_ = n.client.Stop()
	_ = n.stateDB.Close()
}

// ------------------------------------------------------------------ the run context

type c06H struct {
	t     *testing.T
	w     *json.Encoder
	run   c06Run
	nm    *c06Names
	A, B  *c06Replica
	R     []*c06RecNode
	rng   *rand.Rand
	valsH map[int64]*types.ValidatorSet // validators of every committed height (for evidence construction)
	timeH map[int64]time.Time
	evTag map[string]string // hex(VoteA.BlockID.Hash)+hex(VoteB..) -> tag
	evcom []types.Evidence  // committed evidence, in order
	n     int
	skips int
}

func (h *c06H) emit(m map[string]interface{}) {
	m["run"] = h.run.ID
	if err := h.w.Encode(m); err != nil {
		h.t.Fatal(err)
	}
	h.n++
}

// ---- projections

func (h *c06H) absVals(vs *types.ValidatorSet) []c06Val {
	out := []c06Val{}
	if vs == nil {
		return out
	}
	for _, v := range vs.Validators {
		out = append(out, c06Val{ID: h.nm.addr(v.Address), Power: v.VotingPower})
	}
	return out
}

func c06ValsName(vs []c06Val) string {
	if len(vs) == 0 {
		return "EMPTY"
	}
	parts := make([]string, len(vs))
	for i, v := range vs {
		parts[i] = v.ID + ":" + strconv.FormatInt(v.Power, 10)
	}
	return "V[" + strings.Join(parts, ",") + "]"
}

func (h *c06H) regVals(vs *types.ValidatorSet) {
	if vs == nil {
		return
	}
	h.nm.reg(c06ValsName(h.absVals(vs)), vs.Hash())
}

func (h *c06H) absBID(b types.BlockID) map[string]interface{} {
	return map[string]interface{}{"hash": h.nm.blockHash(b.Hash), "pstotal": int64(b.PartSetHeader.Total), "pshash": h.nm.psHash(b.PartSetHeader.Hash)}
}

func (h *c06H) absBIDpb(b tmproto.BlockID) map[string]interface{} {
	return map[string]interface{}{"hash": h.nm.blockHash(b.Hash), "pstotal": int64(b.PartSetHeader.Total), "pshash": h.nm.psHash(b.PartSetHeader.Hash)}
}

func c06BIDStr(m map[string]interface{}) string {
	return m["hash"].(string) + "#" + strconv.FormatInt(m["pstotal"].(int64), 10) + "#" + m["pshash"].(string)
}

func (h *c06H) projectState(st sm.State) map[string]interface{} {
	h.regVals(st.Validators)
	h.regVals(st.NextValidators)
	h.regVals(st.LastValidators)
	p := c06AbsParams(st.ConsensusParams)
	h.nm.reg(fmt.Sprintf("P[%d,%d]", p.MaxBytes, p.MaxGas), types.HashConsensusParams(st.ConsensusParams))
	return map[string]interface{}{
		"version":                 map[string]interface{}{"block": int64(st.Version.Consensus.Block), "app": int64(st.Version.Consensus.App)},
		"chainID":                 st.ChainID,
		"initialHeight":           st.InitialHeight,
		"lastHeight":              st.LastBlockHeight,
		"lastBlockID":             h.absBID(st.LastBlockID),
		"lastTime":                c06AbsTime(st.LastBlockTime),
		"vals":                    h.absVals(st.Validators),
		"nextVals":                h.absVals(st.NextValidators),
		"lastVals":                h.absVals(st.LastValidators),
		"lastHeightValsChanged":   st.LastHeightValidatorsChanged,
		"params":                  p,
		"lastHeightParamsChanged": st.LastHeightConsensusParamsChanged,
		"lastResultsHash":         h.nm.hash32(st.LastResultsHash),
		"appHash":                 h.nm.hash(st.AppHash),
	}
}

func (h *c06H) txName(tx []byte) string {
	s := string(tx)
	if i := strings.IndexByte(s, '#'); i > 0 {
		return s[:i]
	}
	if len(s) <= 8 {
		return s
	}
	return "x" + strconv.Itoa(len(tx)) + "_" + hex.EncodeToString(c06Sum(s)[:3])
}

func (h *c06H) txBytes(name string, height int64) []byte {
	return []byte(name + "#" + strconv.FormatInt(height, 10))
}

func (h *c06H) absEvidence(ev types.Evidence) map[string]interface{} {
	d, ok := ev.(*types.DuplicateVoteEvidence)
	if !ok {
		return map[string]interface{}{"val": "?", "h": ev.Height(), "ts": c06AbsTime(ev.Time()), "vp": int64(0), "tvp": int64(0), "tag": "?", "sg": "?"}
	}
	sg := "bad"
	if k := c06KeyByAddr(d.VoteA.ValidatorAddress); k != nil {
		chain := h.run.Genesis.Chain
		if k.pub.VerifySignature(types.VoteSignBytes(chain, d.VoteA.ToProto()), d.VoteA.Signature) &&
			k.pub.VerifySignature(types.VoteSignBytes(chain, d.VoteB.ToProto()), d.VoteB.Signature) {
			sg = "ok"
		}
	}
	tag := h.evTag[hex.EncodeToString(d.VoteA.BlockID.Hash)+hex.EncodeToString(d.VoteB.BlockID.Hash)]
	if tag == "" {
		tag = "?"
	}
	return map[string]interface{}{"val": h.nm.addr(d.VoteA.ValidatorAddress), "h": d.VoteA.Height, "ts": c06AbsTime(d.Timestamp),
		"vp": d.ValidatorPower, "tvp": d.TotalVotingPower, "tag": tag, "sg": sg}
}

func c06EvStr(e map[string]interface{}) string {
	return fmt.Sprintf("dup:%s:%d:%d:%d:%d:%s:%s", e["val"], e["h"], e["ts"], e["vp"], e["tvp"], e["tag"], e["sg"])
}

var c06FlagNames = map[tmproto.BlockIDFlag]string{tmproto.BlockIDFlagAbsent: "absent", tmproto.BlockIDFlagCommit: "commit", tmproto.BlockIDFlagNil: "nil"}

// projection of a protobuf block; registers the names of the hashes of ITS OWN content as the real
// code computes them (so a header hash that matches the content gets the canonical name)
func (h *c06H) projectBlock(pb *tmproto.Block) map[string]interface{} {
	hd := pb.Header
	// transactions
	txs := []string{}
	ttx := make(types.Txs, len(pb.Data.Txs))
	for i, tx := range pb.Data.Txs {
		txs = append(txs, h.txName(tx))
		ttx[i] = tx
	}
	dname := "EMPTY"
	if len(txs) > 0 {
		dname = "D[" + strings.Join(txs, ",") + "]"
	}
	h.nm.reg(dname, ttx.Hash())
	// evidence
	evs := []map[string]interface{}{}
	evl := types.EvidenceList{}
	evstrs := []string{}
	for i := range pb.Evidence.Evidence {
		ev, err := types.EvidenceFromProto(&pb.Evidence.Evidence[i])
		if err != nil {
			evs = append(evs, map[string]interface{}{"val": "?", "h": int64(0), "ts": int64(0), "vp": int64(0), "tvp": int64(0), "tag": "invalid", "sg": "?"})
			evstrs = append(evstrs, "invalid")
			continue
		}
		evl = append(evl, ev)
		a := h.absEvidence(ev)
		evs = append(evs, a)
		evstrs = append(evstrs, c06EvStr(a))
	}
	ename := "EMPTY"
	if len(evs) > 0 {
		ename = "E[" + strings.Join(evstrs, ",") + "]"
	}
	if len(evl) == len(pb.Evidence.Evidence) {
		h.nm.reg(ename, evl.Hash())
	}
	evBytes := int64(0)
	if len(pb.Evidence.Evidence) > 0 {
		evBytes = int64(pb.Evidence.Size())
	}
	// last commit
	commit := map[string]interface{}{"height": int64(0), "round": int64(0), "blockID": h.absBIDpb(tmproto.BlockID{}), "sigs": []map[string]interface{}{}}
	cname := "EMPTY"
	if pb.LastCommit != nil {
		sigs := []map[string]interface{}{}
		strs := []string{}
		csigs := make([]types.CommitSig, len(pb.LastCommit.Signatures))
		for i, s := range pb.LastCommit.Signatures {
			_ = csigs[i].FromProto(s)
			fl, ok := c06FlagNames[s.BlockIdFlag]
			if !ok {
				fl = "flag" + strconv.Itoa(int(s.BlockIdFlag))
			}
			sn := h.nm.hash(s.Signature)
			if len(s.Signature) > types.MaxSignatureSize {
				sn = "BADLEN"
			}
			a := map[string]interface{}{"flag": fl, "addr": h.nm.addr(s.ValidatorAddress), "ts": c06AbsTime(s.Timestamp), "sig": sn}
			sigs = append(sigs, a)
			strs = append(strs, fmt.Sprintf("%s:%s:%d:%s", a["flag"], a["addr"], a["ts"], a["sig"]))
		}
		if len(sigs) > 0 {
			cname = "C[" + strings.Join(strs, ",") + "]"
		}
		h.nm.reg(cname, (&types.Commit{Signatures: csigs}).Hash())
		commit = map[string]interface{}{"height": pb.LastCommit.Height, "round": int64(pb.LastCommit.Round),
			"blockID": h.absBIDpb(pb.LastCommit.BlockID), "sigs": sigs}
	}
	return map[string]interface{}{
		"version":         map[string]interface{}{"block": int64(hd.Version.Block), "app": int64(hd.Version.App)},
		"chainID":         hd.ChainID,
		"height":          hd.Height,
		"time":            c06AbsTime(hd.Time),
		"lastBlockID":     h.absBIDpb(hd.LastBlockId),
		"lastCommitHash":  h.nm.hash32(hd.LastCommitHash),
		"dataHash":        h.nm.hash32(hd.DataHash),
		"valsHash":        h.nm.hash32(hd.ValidatorsHash),
		"nextValsHash":    h.nm.hash32(hd.NextValidatorsHash),
		"consHash":        h.nm.hash32(hd.ConsensusHash),
		"appHash":         h.nm.hash(hd.AppHash),
		"lastResultsHash": h.nm.hash32(hd.LastResultsHash),
		"evidenceHash":    h.nm.hash32(hd.EvidenceHash),
		"proposer":        h.nm.addr(hd.ProposerAddress),
		"txs":             txs,
		"evidence":        evs,
		"evBytes":         evBytes,
		"lastCommit":      commit,
	}
}

// Header.Hash of the real code over the header fields of a protobuf block (BlockFromProto may refuse it)
func c06HeaderHash(pb *tmproto.Block) []byte {
	hd := pb.Header
	th := types.Header{Version: hd.Version, ChainID: hd.ChainID, Height: hd.Height, Time: hd.Time,
		LastBlockID:    types.BlockID{Hash: hd.LastBlockId.Hash, PartSetHeader: types.PartSetHeader{Total: hd.LastBlockId.PartSetHeader.Total, Hash: hd.LastBlockId.PartSetHeader.Hash}},
		LastCommitHash: hd.LastCommitHash, DataHash: hd.DataHash, ValidatorsHash: hd.ValidatorsHash, NextValidatorsHash: hd.NextValidatorsHash,
		ConsensusHash: hd.ConsensusHash, AppHash: hd.AppHash, LastResultsHash: hd.LastResultsHash, EvidenceHash: hd.EvidenceHash,
		ProposerAddress: hd.ProposerAddress}
	return th.Hash()
}

// the check that refused the block, named after the branch of validateBlock / BlockFromProto;
// whatever is not one of validateBlock's own messages comes from evpool.CheckEvidence
func c06ErrCode(stage string, err error) string {
	if err == nil {
		return "ok"
	}
	if stage == "decode" {
		return "basic"
	}
	s := err.Error()
	switch {
	case strings.HasPrefix(s, "wrong Block.Header.Version"):
		return "version"
	case strings.HasPrefix(s, "wrong Block.Header.ChainID"):
		return "chainid"
	case strings.HasPrefix(s, "wrong Block.Header.Height"):
		return "height"
	case strings.HasPrefix(s, "wrong Block.Header.LastBlockID"):
		return "lastblockid"
	case strings.HasPrefix(s, "wrong Block.Header.AppHash"):
		return "apphash"
	case strings.HasPrefix(s, "wrong Block.Header.ConsensusHash"):
		return "conshash"
	case strings.HasPrefix(s, "wrong Block.Header.LastResultsHash"):
		return "lastresults"
	case strings.HasPrefix(s, "wrong Block.Header.ValidatorsHash"):
		return "valshash"
	case strings.HasPrefix(s, "wrong Block.Header.NextValidatorsHash"):
		return "nextvalshash"
	case strings.HasPrefix(s, "initial block can't have LastCommit signatures"):
		return "commit_initial"
	case strings.HasPrefix(s, "expected ProposerAddress size"):
		return "proposer_size"
	case strings.HasPrefix(s, "block.Header.ProposerAddress"):
		return "proposer"
	case strings.HasPrefix(s, "block time") && strings.Contains(s, "not greater than last block time"):
		return "time_notafter"
	case strings.HasPrefix(s, "invalid block time"):
		return "time_median"
	case strings.HasPrefix(s, "block time") && strings.Contains(s, "is not equal to genesis time"):
		return "time_genesis"
	case strings.HasPrefix(s, "block height") && strings.Contains(s, "lower than initial height"):
		return "height_low"
	case strings.HasPrefix(s, "Too much evidence"):
		return "evidence_bytes"
	case strings.HasPrefix(s, "wrong LastCommit signature #"):
		return "commit_addr"
	case strings.HasPrefix(s, "invalid commit -- ") || strings.HasPrefix(s, "Invalid commit -- ") || strings.HasPrefix(s, "wrong signature (#"):
		return "commit"
	case strings.HasPrefix(s, "invalid header:") || strings.HasPrefix(s, "wrong LastCommit") || strings.HasPrefix(s, "wrong Header.") ||
		strings.HasPrefix(s, "invalid evidence (#") || strings.HasPrefix(s, "nil "):
		return "basic"
	}
	return "evidence"
}

// ---- the calls into the real block machinery, with panics turned into observations
func c06Validate(r *c06Replica, st sm.State, b *types.Block) (err error, panicked string) {
	defer func() {
		if x := recover(); x != nil {
			panicked = c06Min1(fmt.Sprint(x), 160)
			err = fmt.Errorf("panic: %s", panicked)
		}
	}()
	return r.blockExec.ValidateBlock(st, b), ""
}

func c06Apply(r *c06Replica, bid types.BlockID, b *types.Block) (st sm.State, err error, panicked string) {
	defer func() {
		if x := recover(); x != nil {
			panicked = c06Min1(fmt.Sprint(x), 160)
			err = fmt.Errorf("panic: %s", panicked)
			st = r.state
		}
	}()
	st, _, err = r.blockExec.ApplyBlock(r.state, bid, b)
	return st, err, ""
}

func c06LoadVals(r *c06Replica, q int64) (vs *types.ValidatorSet, err error) {
	defer func() {
		if x := recover(); x != nil {
			err = fmt.Errorf("panic: %v", x)
		}
	}()
	return r.stateStore.LoadValidators(q)
}

// ---- signing

func (h *c06H) signVote(k *c06Key, height int64, round int32, bid types.BlockID, ts time.Time, idx int32) *types.Vote {
	v := &types.Vote{Type: tmproto.PrecommitType, Height: height, Round: round, BlockID: bid, Timestamp: ts,
		ValidatorAddress: k.addr, ValidatorIndex: idx}
	sig, err := k.priv.Sign(types.VoteSignBytes(h.run.Genesis.Chain, v.ToProto()))
	if err != nil {
		h.t.Fatal(err)
	}
	v.Signature = sig
	h.nm.reg(fmt.Sprintf("S(%s|%s|%d|%d|%s|%d)", k.id, h.run.Genesis.Chain, height, round, c06BIDStr(h.absBID(bid)), c06AbsTime(ts)), sig)
	return v
}

// a duplicate-vote evidence of the first validator of height eh, tagged
func (h *c06H) makeEvidence(eh int64, tag string) *types.DuplicateVoteEvidence {
	vs := h.valsH[eh]
	if vs == nil {
		return nil
	}
	val := vs.Validators[0]
	k := c06KeyByAddr(val.Address)
	b1 := types.BlockID{Hash: c06Sum("evblock1:" + tag), PartSetHeader: types.PartSetHeader{Total: 1, Hash: c06Sum("evps1:" + tag)}}
	b2 := types.BlockID{Hash: c06Sum("evblock2:" + tag), PartSetHeader: types.PartSetHeader{Total: 1, Hash: c06Sum("evps2:" + tag)}}
	v1 := h.signVote(k, eh, 0, b1, c06Base, 0)
	v2 := h.signVote(k, eh, 0, b2, c06Base, 0)
	ev := types.NewDuplicateVoteEvidence(v1, v2, h.timeH[eh], vs)
	h.evTag[hex.EncodeToString(ev.VoteA.BlockID.Hash)+hex.EncodeToString(ev.VoteB.BlockID.Hash)] = tag
	return ev
}

// ------------------------------------------------------------------ steps

func (h *c06H) reset() {
	g := h.run.Genesis
	var err error
	if h.A, err = newC06Replica("A", g); err != nil {
		h.t.Fatalf("run %s: %v", h.run.ID, err)
	}
	if h.B, err = newC06Replica("B", g); err != nil {
		h.t.Fatalf("run %s: %v", h.run.ID, err)
	}
	h.R = nil
	for _, v := range []struct {
		name    string
		discard bool
	}{{"stored", false}, {"stored_discard", true}} {
		n, err := newC06RecNode(v.name, v.discard, g)
		if err != nil {
			h.t.Fatalf("run %s: %v", h.run.ID, err)
		}
		h.R = append(h.R, n)
	}
	if g.AppHash != "" {
		h.nm.reg(g.AppHash, c06AppHashBytes(g.AppHash))
	}
	h.emit(map[string]interface{}{"ev": "Reset", "genesis": g, "seed": h.run.Seed, "post": h.projectState(h.A.state),
		"sA": hex.EncodeToString(c06Sum(string(h.A.state.Bytes()))), "sB": hex.EncodeToString(c06Sum(string(h.B.state.Bytes())))})
}

type c06Made struct {
	block   *types.Block
	parts   *types.PartSet
	blockB  *types.Block
	pb      *tmproto.Block
	proj    map[string]interface{}
	blockID types.BlockID
}

// the precommits the harness chooses itself (random driver): quorum guaranteed; one validator with
// less than a third of the power may stamp anything
func (h *c06H) randomVotes(st sm.State) []c06Vote {
	lv := st.LastValidators
	n := lv.Size()
	total := lv.TotalVotingPower()
	lt := c06AbsTime(st.LastBlockTime)
	votes := make([]c06Vote, n)
	for i := range votes {
		votes[i] = c06Vote{Flag: "commit", Ts: lt + 1 + int64(h.rng.Intn(8))}
	}
	// drop / nil some while the quorum holds
	tallied := total
	for _, i := range h.rng.Perm(n) {
		p := lv.Validators[i].VotingPower
		if h.rng.Intn(3) == 0 && tallied-p > total*2/3 {
			tallied -= p
			if h.rng.Intn(2) == 0 {
				votes[i].Flag = "absent"
			} else {
				votes[i].Flag = "nil"
			}
		}
	}
	if h.rng.Intn(2) == 0 {
		cands := []int{}
		for i, v := range lv.Validators {
			if 3*v.VotingPower < total && votes[i].Flag != "absent" {
				cands = append(cands, i)
			}
		}
		if len(cands) > 0 {
			i := cands[h.rng.Intn(len(cands))]
			votes[i].Ts = []int64{0, lt, lt - 3, lt + 1000}[h.rng.Intn(4)]
			if votes[i].Ts < 0 {
				votes[i].Ts = 0
			}
		}
	}
	return votes
}

func (h *c06H) makeCommit(st sm.State, votes []c06Vote) (c *types.Commit, err error) {
	if st.LastBlockHeight == 0 {
		return types.NewCommit(0, 0, types.BlockID{}, nil), nil
	}
	if len(votes) != st.LastValidators.Size() {
		return nil, fmt.Errorf("%d votes for %d validators", len(votes), st.LastValidators.Size())
	}
	defer func() {
		if r := recover(); r != nil {
			err = fmt.Errorf("MakeCommit: %v", r)
		}
	}()
	vs := types.NewVoteSet(st.ChainID, st.LastBlockHeight, 0, tmproto.PrecommitType, st.LastValidators)
	for i, v := range votes {
		if v.Flag == "absent" {
			continue
		}
		val := st.LastValidators.Validators[i]
		bid := st.LastBlockID
		if v.Flag == "nil" {
			bid = types.BlockID{}
		}
		vote := h.signVote(c06KeyByAddr(val.Address), st.LastBlockHeight, 0, bid, c06ConcTime(v.Ts), int32(i))
		if added, err := vs.AddVote(vote); !added || err != nil {
			return nil, fmt.Errorf("AddVote %d: added=%v err=%v", i, added, err)
		}
	}
	return vs.MakeCommit(), nil
}

func (h *c06H) gossip(parts *types.PartSet) (*types.Block, error) {
	ps := types.NewPartSetFromHeader(parts.Header())
	for i := 0; i < int(parts.Total()); i++ {
		if added, err := ps.AddPart(parts.GetPart(i)); !added || err != nil {
			return nil, fmt.Errorf("AddPart %d: added=%v err=%v", i, added, err)
		}
	}
	bz, err := io.ReadAll(ps.GetReader())
	if err != nil {
		return nil, err
	}
	pbb := new(tmproto.Block)
	if err := proto.Unmarshal(bz, pbb); err != nil {
		return nil, err
	}
	return types.BlockFromProto(pbb)
}

func (h *c06H) stepMake(s c06Step) *c06Made {
	A, B := h.A, h.B
	st := A.state
	height := st.LastBlockHeight + 1
	if st.LastBlockHeight == 0 {
		height = st.InitialHeight
	}
	// mempool content
	for _, name := range s.Txs {
		if err := A.mempool.CheckTx(h.txBytes(name, height), nil, mempl.TxInfo{}); err != nil {
			h.t.Fatalf("run %s: CheckTx: %v", h.run.ID, err)
		}
	}
	nfill := 0
	if s.Fill != nil {
		for k := 0; k < s.Fill.Txs+s.Fill.Tiny; k++ {
			l := 1
			if k < s.Fill.Txs {
				l = s.Fill.MinLen + h.rng.Intn(s.Fill.MaxLen-s.Fill.MinLen+1)
			}
			tx := make([]byte, l)
			h.rng.Read(tx)
			for i := range tx { // keep '#' out of generated transactions
				if tx[i] == '#' {
					tx[i] = '$'
				}
			}
			if err := A.mempool.CheckTx(tx, nil, mempl.TxInfo{}); err == nil {
				nfill++
			}
		}
	}
	// evidence known to the proposer's pool
	reqEv := []map[string]interface{}{}
	evTags := []string{}
	if s.Ev == "one" {
		evTags = append(evTags, "a")
	}
	if s.Fill != nil {
		for k := 0; k < s.Fill.Ev; k++ {
			evTags = append(evTags, "f"+strconv.Itoa(k))
		}
	}
	for _, tag := range evTags {
		if ev := h.makeEvidence(st.LastBlockHeight, tag); ev != nil {
			err := func() (err error) {
				defer func() {
					if x := recover(); x != nil {
						err = fmt.Errorf("panic: %v", x)
					}
				}()
				return A.evpool.AddEvidence(ev)
			}()
			a := h.absEvidence(ev)
			a["added"] = err == nil
			reqEv = append(reqEv, a)
		}
	}
	votes := s.Votes
	if s.RandVote {
		votes = h.randomVotes(st)
	}
	if votes == nil {
		votes = []c06Vote{}
	}
	commit, err := h.makeCommit(st, votes)
	if err != nil {
		h.skips++
		h.emit(map[string]interface{}{"ev": "Skip", "why": "commit: " + err.Error()})
		return nil
	}
	if s.Proposer == "" { // random driver: any current validator
		s.Proposer = h.nm.addr(st.Validators.Validators[h.rng.Intn(st.Validators.Size())].Address)
	}
	pk := c06KeyByID(s.Proposer)
	if pk == nil {
		h.t.Fatalf("run %s: unknown proposer %q", h.run.ID, s.Proposer)
	}
	var block *types.Block
	var parts *types.PartSet
	panicked := ""
	func() {
		defer func() {
			if r := recover(); r != nil {
				panicked = fmt.Sprint(r)
			}
		}()
		block, parts = A.blockExec.CreateProposalBlock(height, st, commit, pk.addr)
	}()
	nLast, nVals := st.LastValidators.Size(), st.Validators.Size()
	if panicked != "" {
		h.emit(map[string]interface{}{"ev": "MakePanic", "why": c06Min1(panicked, 120), "maxBytes": st.ConsensusParams.Block.MaxBytes,
			"nVals": nVals, "nLastVals": nLast, "evReq": len(evTags)})
		return nil
	}
	pb, err := block.ToProto()
	if err != nil {
		h.t.Fatal(err)
	}
	blockB, gerr := h.gossip(parts)
	errA, panA := c06Validate(A, st, block)
	var errB error
	panB := ""
	hashB := "none"
	if gerr == nil {
		errB, panB = c06Validate(B, B.state, blockB)
		hashB = h.nm.blockHash(blockB.Hash())
	} else {
		errB = gerr
	}
	// the nodes that applied every block so far through the recovery path judge the proposal too
	accR := []map[string]interface{}{}
	for _, n := range h.R {
		e := map[string]interface{}{"variant": n.variant, "accepted": false, "err": "gossip"}
		if blk, err := h.gossip(parts); err == nil {
			verr := func() (err error) {
				defer func() {
					if x := recover(); x != nil {
						err = fmt.Errorf("panic: %v", x)
					}
				}()
				return n.blockExec.ValidateBlock(n.state, blk)
			}()
			e["accepted"], e["err"] = verr == nil, c06ErrCode("validate", verr)
		}
		accR = append(accR, e)
	}
	proj := h.projectBlock(pb)
	m := &c06Made{block: block, parts: parts, blockB: blockB, pb: pb, proj: proj,
		blockID: types.BlockID{Hash: block.Hash(), PartSetHeader: parts.Header()}}
	classify := func(err error) string { return c06ErrCode("validate", err) }
	h.emit(map[string]interface{}{"ev": "Make",
		"req":      map[string]interface{}{"txs": c06StrList(s.Txs), "ev": reqEv, "proposer": s.Proposer, "votes": votes, "fill": nfill},
		"block":    proj,
		"accepted": errA == nil, "err": classify(errA),
		"acceptedB": errB == nil, "errB": classify(errB), "panic": panA + panB, "accR": accR,
		"hashA": h.nm.blockHash(block.Hash()), "hashB": hashB,
		"bid":   h.absBID(m.blockID),
		"bytes": int64(pb.Size()), "partsBytes": parts.ByteSize(), "maxBytes": st.ConsensusParams.Block.MaxBytes,
		"nVals": nVals, "nLastVals": nLast, "ntx": len(block.Txs), "mempoolLeft": A.mempool.Size() - len(block.Txs),
		"appHashLen": len(st.AppHash), "chainLen": len(st.ChainID),
	})
	if gerr != nil {
		return nil
	}
	return m
}

func c06Min1(s string, n int) string {
	if len(s) > n {
		return s[:n]
	}
	return s
}

func c06StrList(s []string) []string {
	if s == nil {
		return []string{}
	}
	return s
}

func c06ClonePB(pb *tmproto.Block) *tmproto.Block {
	bz, err := proto.Marshal(pb)
	if err != nil {
		panic(err)
	}
	out := new(tmproto.Block)
	if err := proto.Unmarshal(bz, out); err != nil {
		panic(err)
	}
	return out
}

// recompute the header hashes that commit to the content, with the real code
func (h *c06H) rehash(pb *tmproto.Block) {
	ttx := make(types.Txs, len(pb.Data.Txs))
	for i, tx := range pb.Data.Txs {
		ttx[i] = tx
	}
	pb.Header.DataHash = ttx.Hash()
	evl := types.EvidenceList{}
	for i := range pb.Evidence.Evidence {
		if ev, err := types.EvidenceFromProto(&pb.Evidence.Evidence[i]); err == nil {
			evl = append(evl, ev)
		}
	}
	pb.Header.EvidenceHash = evl.Hash()
	csigs := make([]types.CommitSig, len(pb.LastCommit.Signatures))
	for i, s := range pb.LastCommit.Signatures {
		_ = csigs[i].FromProto(s)
	}
	pb.Header.LastCommitHash = (&types.Commit{Signatures: csigs}).Hash()
}

// the time a (Byzantine) proposer computes for the commit in the block, with the real MedianTime
func (h *c06H) retime(pb *tmproto.Block, st sm.State) {
	if pb.Header.Height <= st.InitialHeight {
		return
	}
	csigs := make([]types.CommitSig, len(pb.LastCommit.Signatures))
	for i, s := range pb.LastCommit.Signatures {
		_ = csigs[i].FromProto(s)
	}
	pb.Header.Time = sm.MedianTime(&types.Commit{Signatures: csigs}, st.LastValidators)
}

func (h *c06H) resign(pb *tmproto.Block, st sm.State, i int) bool {
	c := pb.LastCommit
	if i >= len(c.Signatures) || i >= st.LastValidators.Size() || c.Signatures[i].BlockIdFlag == tmproto.BlockIDFlagAbsent {
		return false
	}
	k := c06KeyByAddr(st.LastValidators.Validators[i].Address)
	bid := types.BlockID{}
	if c.Signatures[i].BlockIdFlag == tmproto.BlockIDFlagCommit {
		b, err := types.BlockIDFromProto(&c.BlockID)
		if err != nil {
			return false
		}
		bid = *b
	}
	v := h.signVote(k, c.Height, c.Round, bid, c.Signatures[i].Timestamp, int32(i))
	c.Signatures[i].Signature = v.Signature
	return true
}

func (h *c06H) appendEvidence(pb *tmproto.Block, ev types.Evidence) bool {
	if ev == nil || reflect.ValueOf(ev).IsNil() {
		return false
	}
	p, err := types.EvidenceToProto(ev)
	if err != nil {
		return false
	}
	pb.Evidence.Evidence = append(pb.Evidence.Evidence, *p)
	return true
}

var c06AbsentSig = tmproto.CommitSig{BlockIdFlag: tmproto.BlockIDFlagAbsent}

// applies op to pb; false if the operation does not apply to this block
func (h *c06H) applyOp(pb *tmproto.Block, op c06Op, st sm.State) bool {
	hd := &pb.Header
	x1 := c06Sum("X1")
	hashPert := func(f *[]byte) bool {
		switch op.K {
		case "other":
			*f = x1
		case "empty":
			*f = nil
		case "badlen":
			*f = x1[:31]
		default:
			return false
		}
		return true
	}
	sigs := pb.LastCommit.Signatures
	i := op.I - 1
	sigOK := func() bool { return i >= 0 && i < len(sigs) }
	lastH := st.LastBlockHeight
	switch op.F {
	case "version_block":
		hd.Version.Block++
	case "version_app":
		hd.Version.App++
	case "chainID":
		if op.K == "other" {
			hd.ChainID = "c9"
		} else {
			hd.ChainID = strings.Repeat("c", 51)
		}
	case "height":
		if op.K == "inc" {
			hd.Height++
		} else {
			hd.Height--
		}
	case "time":
		switch op.K {
		case "inc":
			hd.Time = hd.Time.Add(1)
		case "dec":
			hd.Time = hd.Time.Add(-1)
		case "last":
			hd.Time = st.LastBlockTime
		default:
			hd.Time = time.Time{}
		}
	case "lastBlockID_hash":
		return hashPert(&hd.LastBlockId.Hash)
	case "lastBlockID_pstotal":
		hd.LastBlockId.PartSetHeader.Total++
	case "lastBlockID_pshash":
		return hashPert(&hd.LastBlockId.PartSetHeader.Hash)
	case "lastCommitHash":
		return hashPert(&hd.LastCommitHash)
	case "dataHash":
		return hashPert(&hd.DataHash)
	case "evidenceHash":
		return hashPert(&hd.EvidenceHash)
	case "valsHash":
		if op.K == "swap" {
			hd.ValidatorsHash = hd.NextValidatorsHash
			return true
		}
		return hashPert(&hd.ValidatorsHash)
	case "nextValsHash":
		if op.K == "swap" {
			hd.NextValidatorsHash = hd.ValidatorsHash
			return true
		}
		return hashPert(&hd.NextValidatorsHash)
	case "consHash":
		return hashPert(&hd.ConsensusHash)
	case "lastResultsHash":
		return hashPert(&hd.LastResultsHash)
	case "appHash":
		if op.K == "extend" {
			name := h.nm.hash(hd.AppHash)
			hd.AppHash = append(append([]byte{}, hd.AppHash...), 1)
			h.nm.reg(name+"+", hd.AppHash)
			return true
		}
		return hashPert(&hd.AppHash)
	case "proposer":
		switch op.K {
		case "id":
			if op.I < 1 || op.I > len(c06Keys) {
				return false
			}
			hd.ProposerAddress = c06Keys[op.I-1].addr
		case "unknown":
			a := c06Sum("a9")[:crypto.AddressSize]
			h.nm.reg("a9", a)
			hd.ProposerAddress = a
		case "badlen":
			hd.ProposerAddress = c06Sum("a9")[:crypto.AddressSize-1]
		default:
			hd.ProposerAddress = nil
		}
	case "txs":
		switch op.K {
		case "add":
			pb.Data.Txs = append(pb.Data.Txs, h.txBytes("t9", hd.Height))
		case "drop":
			if len(pb.Data.Txs) < 1 {
				return false
			}
			pb.Data.Txs = pb.Data.Txs[:len(pb.Data.Txs)-1]
		default:
			if len(pb.Data.Txs) < 2 {
				return false
			}
			pb.Data.Txs[0], pb.Data.Txs[1] = pb.Data.Txs[1], pb.Data.Txs[0]
		}
	case "evidence":
		if op.K == "add" {
			return h.appendEvidence(pb, h.makeEvidence(lastH, "b"))
		}
		if len(pb.Evidence.Evidence) < 1 {
			return false
		}
		pb.Evidence.Evidence = pb.Evidence.Evidence[:len(pb.Evidence.Evidence)-1]
	case "commit_height":
		pb.LastCommit.Height++
	case "commit_round":
		pb.LastCommit.Round++
	case "commit_bid_hash":
		pb.LastCommit.BlockID.Hash = x1
	case "commit_bid_pstotal":
		pb.LastCommit.BlockID.PartSetHeader.Total++
	case "sig":
		if !sigOK() {
			return false
		}
		switch op.K {
		case "flag_nil":
			sigs[i].BlockIdFlag = tmproto.BlockIDFlagNil
		case "flag_absent":
			sigs[i].BlockIdFlag = tmproto.BlockIDFlagAbsent
		case "ts_inc":
			sigs[i].Timestamp = sigs[i].Timestamp.Add(1)
		case "sig_other":
			sigs[i].Signature = x1
		default:
			if op.J < 1 || op.J > st.LastValidators.Size() {
				return false
			}
			sigs[i].ValidatorAddress = st.LastValidators.Validators[op.J-1].Address
		}
	case "R":
		ok := h.rebuild(pb, op, st)
		if !ok {
			return false
		}
		h.rehash(pb)
		if strings.HasSuffix(op.K, "_rt") {
			h.retime(pb, st)
		}
	default:
		return false
	}
	return true
}

func (h *c06H) rebuild(pb *tmproto.Block, op c06Op, st sm.State) bool {
	c := pb.LastCommit
	sigs := c.Signatures
	i := op.I - 1
	sigOK := func() bool { return i >= 0 && i < len(sigs) && sigs[i].BlockIdFlag != tmproto.BlockIDFlagAbsent }
	lastH := st.LastBlockHeight
	k := strings.TrimSuffix(op.K, "_rt")
	switch k {
	case "txs":
		pb.Data.Txs = [][]byte{h.txBytes("t8", pb.Header.Height), h.txBytes("t9", pb.Header.Height)}
	case "sig_absent":
		if !sigOK() {
			return false
		}
		sigs[i] = c06AbsentSig
	case "sig_nil_unsigned":
		if !sigOK() {
			return false
		}
		sigs[i].BlockIdFlag = tmproto.BlockIDFlagNil
	case "sig_nil":
		if !sigOK() {
			return false
		}
		sigs[i].BlockIdFlag = tmproto.BlockIDFlagNil
		return h.resign(pb, st, i)
	case "sig_ts":
		if !sigOK() {
			return false
		}
		sigs[i].Timestamp = sigs[i].Timestamp.Add(1)
	case "sig_ts_signed":
		if !sigOK() {
			return false
		}
		sigs[i].Timestamp = sigs[i].Timestamp.Add(1)
		return h.resign(pb, st, i)
	case "sig_bad":
		if !sigOK() {
			return false
		}
		sigs[i].Signature = c06Sum("X1")
	case "sig_addr":
		if !sigOK() || op.J < 1 || op.J > st.LastValidators.Size() {
			return false
		}
		sigs[i].ValidatorAddress = st.LastValidators.Validators[op.J-1].Address
	case "sig_extra":
		c.Signatures = append(c.Signatures, c06AbsentSig)
	case "sig_fewer":
		if len(sigs) < 1 {
			return false
		}
		c.Signatures = sigs[:len(sigs)-1]
	case "round":
		c.Round++
		for n := range sigs {
			h.resign(pb, st, n)
		}
	case "height_skip":
		if len(sigs) < 1 {
			return false
		}
		pb.Header.Height++
		c.Height++
		for n := range sigs {
			h.resign(pb, st, n)
		}
	case "all_ts_last":
		for n := range sigs {
			if sigs[n].BlockIdFlag != tmproto.BlockIDFlagAbsent {
				sigs[n].Timestamp = st.LastBlockTime
				h.resign(pb, st, n)
			}
		}
	case "ev_valid":
		return h.appendEvidence(pb, h.makeEvidence(lastH, "b"))
	case "ev_old":
		return h.appendEvidence(pb, h.makeEvidence(st.InitialHeight, "o"+strconv.FormatInt(lastH, 10)))
	case "ev_badpower":
		ev := h.makeEvidence(lastH, "b")
		if ev == nil {
			return false
		}
		ev.ValidatorPower++
		return h.appendEvidence(pb, ev)
	case "ev_badtotal":
		ev := h.makeEvidence(lastH, "b")
		if ev == nil {
			return false
		}
		ev.TotalVotingPower++
		return h.appendEvidence(pb, ev)
	case "ev_badsig":
		ev := h.makeEvidence(lastH, "b")
		if ev == nil {
			return false
		}
		ev.VoteB.Signature = append([]byte{}, ev.VoteB.Signature...)
		ev.VoteB.Signature[0] ^= 0xff
		return h.appendEvidence(pb, ev)
	case "ev_wrongtime":
		ev := h.makeEvidence(lastH, "b")
		if ev == nil {
			return false
		}
		ev.Timestamp = ev.Timestamp.Add(1)
		return h.appendEvidence(pb, ev)
	case "ev_dup":
		return h.appendEvidence(pb, h.makeEvidence(lastH, "b")) && h.appendEvidence(pb, h.makeEvidence(lastH, "b"))
	case "ev_oversize":
		return h.appendEvidence(pb, h.makeEvidence(lastH, "b")) && h.appendEvidence(pb, h.makeEvidence(lastH, "c")) &&
			h.appendEvidence(pb, h.makeEvidence(lastH, "d"))
	case "ev_committed":
		if len(h.evcom) == 0 {
			return false
		}
		return h.appendEvidence(pb, h.evcom[0])
	case "initial_commit":
		val := st.Validators.Validators[0]
		bid, _ := types.BlockIDFromProto(&c.BlockID)
		v := h.signVote(c06KeyByAddr(val.Address), c.Height, c.Round, *bid, c06ConcTime(1), 0)
		c.Signatures = []tmproto.CommitSig{{BlockIdFlag: tmproto.BlockIDFlagCommit, ValidatorAddress: val.Address, Timestamp: v.Timestamp, Signature: v.Signature}}
	default:
		return false
	}
	return true
}

// one perturbed variant offered to replica B the way a block arrives from a peer
func (h *c06H) stepPerturb(m *c06Made, op c06Op) {
	st := h.B.state
	pb := c06ClonePB(m.pb)
	if !h.applyOp(pb, op, st) {
		h.skips++
		h.emit(map[string]interface{}{"ev": "Skip", "why": fmt.Sprintf("op %v not applicable", op)})
		return
	}
	bz, err := proto.Marshal(pb)
	if err != nil {
		h.t.Fatal(err)
	}
	pb2 := new(tmproto.Block)
	stage, code, pan := "", "ok", ""
	var blk *types.Block
	if err = proto.Unmarshal(bz, pb2); err == nil {
		blk, err = types.BlockFromProto(pb2)
	}
	if err != nil {
		stage, code = "decode", "basic"
	} else if err, pan = c06Validate(h.B, st, blk); err != nil {
		stage = "validate"
		code = c06ErrCode(stage, err)
		if pan != "" {
			code = "panic"
		}
	}
	proj := h.projectBlock(pb)
	delta := map[string]interface{}{"_": int64(0)}
	for k, v := range proj {
		if !reflect.DeepEqual(v, m.proj[k]) {
			delta[k] = v
		}
	}
	h.emit(map[string]interface{}{"ev": "Perturb", "op": op, "delta": delta, "accepted": err == nil, "err": code, "stage": stage, "panic": pan,
		"hash": h.nm.blockHash(c06HeaderHash(pb)), "hash0": h.nm.blockHash(m.block.Hash())})
}

// the operation alphabet of TMBlockPerturb for the random driver
func (h *c06H) randomOp(m *c06Made) c06Op {
	n := len(m.pb.LastCommit.Signatures)
	ri := func() int {
		if n == 0 {
			return 1
		}
		return 1 + h.rng.Intn(n)
	}
	single := []c06Op{{F: "version_block", K: "inc"}, {F: "version_app", K: "inc"}, {F: "chainID", K: "other"}, {F: "chainID", K: "toolong"},
		{F: "height", K: "inc"}, {F: "height", K: "dec"}, {F: "time", K: "inc"}, {F: "time", K: "dec"}, {F: "time", K: "last"}, {F: "time", K: "zero"},
		{F: "lastBlockID_hash", K: "other"}, {F: "lastBlockID_hash", K: "empty"}, {F: "lastBlockID_pstotal", K: "inc"},
		{F: "lastBlockID_pshash", K: "other"}, {F: "lastBlockID_pshash", K: "empty"}, {F: "valsHash", K: "swap"}, {F: "nextValsHash", K: "swap"},
		{F: "appHash", K: "other"}, {F: "appHash", K: "empty"}, {F: "appHash", K: "extend"},
		{F: "proposer", K: "unknown"}, {F: "proposer", K: "badlen"}, {F: "proposer", K: "empty"}, {F: "proposer", K: "id", I: 1 + h.rng.Intn(8)},
		{F: "txs", K: "add"}, {F: "txs", K: "drop"}, {F: "txs", K: "swap"}, {F: "evidence", K: "add"}, {F: "evidence", K: "drop"},
		{F: "commit_height", K: "inc"}, {F: "commit_round", K: "inc"}, {F: "commit_bid_hash", K: "other"}, {F: "commit_bid_pstotal", K: "inc"},
		{F: "sig", K: "flag_nil", I: ri()}, {F: "sig", K: "flag_absent", I: ri()}, {F: "sig", K: "ts_inc", I: ri()}, {F: "sig", K: "sig_other", I: ri()},
		{F: "sig", K: "addr_other", I: ri(), J: ri()}}
	for _, f := range []string{"lastCommitHash", "dataHash", "evidenceHash", "valsHash", "nextValsHash", "consHash", "lastResultsHash"} {
		for _, k := range []string{"other", "empty", "badlen"} {
			single = append(single, c06Op{F: f, K: k})
		}
	}
	rk := []string{"txs", "sig_absent", "sig_absent_rt", "sig_nil_unsigned", "sig_nil", "sig_ts", "sig_ts_signed", "sig_ts_signed_rt", "sig_bad",
		"sig_addr", "sig_addr_rt", "sig_extra", "sig_fewer", "round", "height_skip", "all_ts_last_rt", "ev_valid", "ev_old", "ev_badpower", "ev_badtotal",
		"ev_badsig", "ev_wrongtime", "ev_dup", "ev_oversize", "ev_committed", "initial_commit"}
	if h.rng.Intn(2) == 0 {
		return single[h.rng.Intn(len(single))]
	}
	op := c06Op{F: "R", K: rk[h.rng.Intn(len(rk))], I: ri(), J: ri()}
	if op.K == "initial_commit" && m.pb.Header.Height != h.B.state.InitialHeight {
		op.K = "sig_addr_rt"
	}
	if (op.K == "sig_addr" || op.K == "sig_addr_rt") && op.I == op.J {
		op.J = op.I%c06Max(n, 1) + 1
	}
	return op
}

func c06Max(a, b int) int {
	if a > b {
		return a
	}
	return b
}

func (h *c06H) randomUpdates(st sm.State) []c06Val {
	nv := st.NextValidators
	out := []c06Val{}
	switch h.rng.Intn(6) {
	case 0: // add a new validator
		for _, k := range c06Keys[:12] {
			if !nv.HasAddress(k.addr) {
				out = append(out, c06Val{ID: k.id, Power: 1 + int64(h.rng.Intn(9))})
				break
			}
		}
	case 1: // remove one (maybe the only one)
		v := nv.Validators[h.rng.Intn(nv.Size())]
		out = append(out, c06Val{ID: h.nm.addr(v.Address), Power: 0})
	case 2: // change a power
		v := nv.Validators[h.rng.Intn(nv.Size())]
		out = append(out, c06Val{ID: h.nm.addr(v.Address), Power: 1 + int64(h.rng.Intn(9))})
	case 3: // several at once
		for _, v := range nv.Validators {
			if h.rng.Intn(2) == 0 {
				out = append(out, c06Val{ID: h.nm.addr(v.Address), Power: int64(h.rng.Intn(4))})
			}
		}
		out = append(out, c06Val{ID: c06Keys[12+h.rng.Intn(4)].id, Power: 2})
	case 4: // removal of an unknown validator
		out = append(out, c06Val{ID: "v20", Power: 0})
	}
	return out
}

func (h *c06H) stepApply(m *c06Made, s c06Step) bool {
	A, B := h.A, h.B
	pre := A.state
	ups := s.ValUpdates
	if s.RandUpd {
		ups = h.randomUpdates(pre)
	}
	if ups == nil {
		ups = []c06Val{}
	}
	// the application's responses
	var vu []abci.ValidatorUpdate
	for _, u := range ups {
		k := c06KeyByID(u.ID)
		if k == nil {
			h.t.Fatalf("run %s: unknown validator %q in update", h.run.ID, u.ID)
		}
		vu = append(vu, types.TM2PB.NewValidatorUpdate(k.pub, u.Power))
	}
	var pu *abci.ConsensusParams
	if s.Pu.Any {
		pu = &abci.ConsensusParams{}
		if s.Pu.Block.Has {
			pu.Block = &abci.BlockParams{MaxBytes: s.Pu.Block.MaxBytes, MaxGas: s.Pu.Block.MaxGas}
		}
		if s.Pu.Evidence.Has {
			pu.Evidence = &tmproto.EvidenceParams{MaxAgeNumBlocks: s.Pu.Evidence.MaxAgeBlocks,
				MaxAgeDuration: time.Duration(s.Pu.Evidence.MaxAgeDur), MaxBytes: s.Pu.Evidence.MaxBytes}
		}
		if s.Pu.Version.Has {
			pu.Version = &tmproto.VersionParams{AppVersion: uint64(s.Pu.Version.App)}
		}
	}
	results := []map[string]interface{}{}
	var res []abci.ResponseDeliverTx
	rstrs := []string{}
	for i := range m.block.Txs {
		r := abci.ResponseDeliverTx{}
		data := ""
		switch s.Rc {
		case "fail1":
			if i == 0 {
				r.Code = 1
			}
		case "data":
			data = "d" + strconv.Itoa(i+1)
			r.Data = []byte(data)
			r.GasUsed = int64(i + 1)
		}
		res = append(res, r)
		results = append(results, map[string]interface{}{"code": int64(r.Code), "data": data, "gw": r.GasWanted, "gu": r.GasUsed})
		rstrs = append(rstrs, fmt.Sprintf("%d/%s/%d/%d", r.Code, data, r.GasWanted, r.GasUsed))
	}
	appHash := c06AppHashBytes(s.AppHash)
	if s.AppHash != "" {
		h.nm.reg(s.AppHash, appHash)
	}
	// the name of the results hash, by the real hashing code over the deterministic fields
	rname := "EMPTY"
	if len(res) > 0 {
		rname = "R[" + strings.Join(rstrs, ",") + "]"
	}
	ptrs := make([]*abci.ResponseDeliverTx, len(res))
	for i := range res {
		r := res[i]
		ptrs[i] = &r
	}
	h.nm.reg(rname, sm.ABCIResponsesResultsHash(&tmstate.ABCIResponses{DeliverTxs: ptrs}))
	for _, r := range []*c06Replica{A, B} {
		r.app.next = c06Resp{valUpdates: vu, pu: pu, results: res, appHash: appHash}
	}
	for _, n := range h.R {
		n.app.next = c06Resp{valUpdates: vu, pu: pu, results: res, appHash: appHash}
	}
	bidB := types.BlockID{Hash: m.blockB.Hash(), PartSetHeader: m.blockB.MakePartSet(types.BlockPartSizeBytes).Header()}
	stA, errA, panA := c06Apply(A, m.blockID, m.block)
	stB, errB, panB := c06Apply(B, bidB, m.blockB)
	digest := func(st sm.State) string { return hex.EncodeToString(c06Sum(string(st.Bytes()))[:8]) }
	ev := map[string]interface{}{"ev": "Apply",
		"resp": map[string]interface{}{"valUpdates": ups, "pu": s.Pu, "results": results, "appHash": s.AppHash},
		"bid":  h.absBID(m.blockID), "bidB": h.absBID(bidB),
		"ok": errA == nil, "okB": errB == nil, "err": "", "panic": panA + panB, "lv": []interface{}{}, "lp": []interface{}{},
		"rec": []interface{}{}}
	if errA != nil {
		ev["err"] = c06Min1(errA.Error(), 160)
	}
	// what the applications were shown (BeginBlock request and the delivered transactions)
	reqDigest := func(r *c06Replica) string {
		bz, _ := proto.Marshal(&r.app.begin)
		hh := sha256.New()
		hh.Write(bz)
		for _, tx := range r.app.delivered {
			hh.Write([]byte{0})
			hh.Write(tx)
		}
		return hex.EncodeToString(hh.Sum(nil)[:8])
	}
	bvotes := []map[string]interface{}{}
	for _, v := range A.app.begin.LastCommitInfo.Votes {
		bvotes = append(bvotes, map[string]interface{}{"id": h.nm.addr(v.Validator.Address), "power": v.Validator.Power, "signed": v.SignedLastBlock})
	}
	bbyz := []map[string]interface{}{}
	for _, b := range A.app.begin.ByzantineValidators {
		bbyz = append(bbyz, map[string]interface{}{"id": h.nm.addr(b.Validator.Address), "power": b.Validator.Power, "h": b.Height,
			"ts": c06AbsTime(b.Time), "tvp": b.TotalVotingPower})
	}
	dtx := []string{}
	for _, tx := range A.app.delivered {
		dtx = append(dtx, h.txName(tx))
	}
	ev["bb"] = map[string]interface{}{"round": int64(A.app.begin.LastCommitInfo.Round), "votes": bvotes, "byz": bbyz,
		"hash": h.nm.blockHash(A.app.begin.Hash), "height": A.app.begin.Header.Height, "txs": dtx}
	ev["rqA"], ev["rqB"] = reqDigest(A), reqDigest(B)
	if errA == nil && errB == nil {
		A.state, B.state = stA, stB
		height := m.block.Height
		for _, r := range []*c06Replica{A, B} {
			blk, parts := m.block, m.parts
			if r == B {
				blk = m.blockB
				parts = blk.MakePartSet(types.BlockPartSizeBytes)
			}
			r.blockStore.metas[height] = types.NewBlockMeta(blk, parts)
			r.blockStore.height = height
		}
		h.valsH[height] = pre.Validators.Copy()
		h.timeH[height] = m.block.Time
		h.evcom = append(h.evcom, m.block.Evidence.Evidence...)
		// what the state store hands out for the heights validation, evidence verification and
		// BeginBlock ask for
		lv := []interface{}{}
		for q := stA.InitialHeight; q <= stA.LastBlockHeight+2; q++ {
			vs, err := c06LoadVals(A, q)
			e := map[string]interface{}{"h": q, "ok": err == nil, "vals": []c06Val{}}
			if err == nil {
				e["vals"] = h.absVals(vs)
			}
			lv = append(lv, e)
		}
		lp := []interface{}{}
		for q := stA.InitialHeight; q <= stA.LastBlockHeight+1; q++ {
			cp, err := A.stateStore.LoadConsensusParams(q)
			lp = append(lp, map[string]interface{}{"h": q, "ok": err == nil, "params": c06AbsParams(cp)})
		}
		ev["lv"], ev["lp"] = lv, lp
		// the state that was persisted, read back
		ldA, _ := A.stateStore.Load()
		ldB, _ := B.stateStore.Load()
		ev["sA"], ev["sB"], ev["ldA"], ev["ldB"] = digest(stA), digest(stB), digest(ldA), digest(ldB)
		// the same block on the nodes that crash before the state is saved and recover from their stores
		rec := []interface{}{}
		for _, n := range h.R {
			rec = append(rec, h.crashAndRecover(n, m, pre, appHash))
		}
		ev["rec"] = rec
	} else {
		ev["sA"], ev["sB"], ev["ldA"], ev["ldB"] = digest(A.state), digest(B.state), digest(A.state), digest(B.state)
	}
	ev["post"] = h.projectState(A.state)
	h.emit(ev)
	return errA == nil && errB == nil
}

// SaveBlock, live ApplyBlock up to the failing Save, restart, Handshaker.ReplayBlocks
func (h *c06H) crashAndRecover(n *c06RecNode, m *c06Made, pre sm.State, appHash []byte) (out map[string]interface{}) {
	digest := func(st sm.State) string { return hex.EncodeToString(c06Sum(string(st.Bytes()))[:8]) }
	out = map[string]interface{}{"variant": n.variant, "mode": "crash_replay", "ok": false, "err": "", "s": ""}
	defer func() {
		if x := recover(); x != nil {
			out["ok"], out["err"] = false, c06Min1(fmt.Sprintf("panic: %v", x), 200)
		}
		out["post"] = h.projectState(n.state)
	}()
	blk, err := h.gossip(m.parts)
	if err != nil {
		out["err"] = "gossip: " + err.Error()
		return out
	}
	parts := blk.MakePartSet(types.BlockPartSizeBytes)
	bid := types.BlockID{Hash: blk.Hash(), PartSetHeader: parts.Header()}
	// the commit the node saw for this block (finalizeCommit saves it with the block)
	sigs := make([]types.CommitSig, pre.Validators.Size())
	for i, val := range pre.Validators.Validators {
		sigs[i] = h.signVote(c06KeyByAddr(val.Address), blk.Height, 0, bid, blk.Time.Add(1), int32(i)).CommitSig()
	}
	n.blockStore.SaveBlock(blk, parts, types.NewCommit(blk.Height, 0, bid, sigs))
	if pre.LastBlockHeight == 0 && pre.InitialHeight > 1 {
		// Handshaker.ReplayBlocks refuses "store height > state height + 1" for the first block of a chain
		// whose initial height is not 1 (state height 0): no recovery path to compare there
		out["mode"] = "live_first_block_of_initial_height_gt_1"
		st, _, err := n.blockExec.ApplyBlock(n.state, bid, blk)
		if err != nil {
			out["err"] = c06Min1(err.Error(), 200)
			return out
		}
		n.state = st
	} else {
		n.crash.armed, n.crash.hit = true, false
		_, _, err = n.blockExec.ApplyBlock(n.state, bid, blk)
		n.crash.armed = false
		if !n.crash.hit {
			out["err"] = c06Min1(fmt.Sprintf("live ApplyBlock ended before the state save: %v", err), 200)
			return out
		}
		st0, err := n.realStore.Load() // what the restarting node finds
		if err != nil {
			out["err"] = "load: " + err.Error()
			return out
		}
		hs := consensus.NewHandshaker(n.realStore, st0, n.blockStore, n.genDoc)
		if _, err := hs.ReplayBlocks(st0, appHash, blk.Height, nil); err != nil {
			out["err"] = c06Min1("ReplayBlocks: "+err.Error(), 200)
			return out
		}
		st1, err := n.realStore.Load()
		if err != nil {
			out["err"] = "load after replay: " + err.Error()
			return out
		}
		n.state = st1
	}
	out["ok"], out["s"] = true, digest(n.state)
	return out
}

func (h *c06H) execute() {
	h.reset()
	defer h.A.close()
	defer h.B.close()
	defer func() {
		for _, n := range h.R {
			n.close()
		}
	}()
	var made *c06Made
	for _, s := range h.run.Steps {
		switch s.T {
		case "make":
			made = h.stepMake(s)
			if made == nil {
				return
			}
			for _, op := range s.Ops {
				h.stepPerturb(made, op)
			}
			for k := 0; k < s.RandOps; k++ {
				h.stepPerturb(made, h.randomOp(made))
			}
		case "apply":
			if made == nil {
				return
			}
			ok := h.stepApply(made, s)
			made = nil
			if !ok {
				return
			}
		}
	}
}

func TestVerifC06(t *testing.T) {
	inPath, outPath := os.Getenv("VERIF_IN"), os.Getenv("VERIF_OUT")
	if inPath == "" || outPath == "" {
		t.Skip("VERIF_IN / VERIF_OUT not set")
	}
	c06InitKeys()
	raw, err := os.ReadFile(inPath)
	if err != nil {
		t.Fatal(err)
	}
	var in c06Input
	if err := json.Unmarshal(raw, &in); err != nil {
		t.Fatal(err)
	}
	f, err := os.Create(outPath)
	if err != nil {
		t.Fatal(err)
	}
	defer f.Close()
	enc := json.NewEncoder(f)
	total, skips := 0, 0
	for _, run := range in.Runs {
		h := &c06H{t: t, w: enc, run: run, nm: newC06Names(), rng: rand.New(rand.NewSource(run.Seed)),
			valsH: map[int64]*types.ValidatorSet{}, timeH: map[int64]time.Time{}, evTag: map[string]string{}}
		h.execute()
		total += h.n
		skips += h.skips
	}
	t.Logf("C06 harness: %d runs, %d events, %d skipped steps", len(in.Runs), total, skips)
}
