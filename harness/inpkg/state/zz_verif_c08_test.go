//go:build verif

package state

// C08 harness, part 2 (see /verif/DESIGN.md section 5, C08): the real state store
// (dbStore over a MemDB) under a history of real State values.
//
// A history is: MakeGenesisState (or a statesync-style Bootstrap), then blocks applied with
// the real updateState (validator updates as the ABCI application would return them) and
// saved with the real Save, interleaved with the real PruneStates(base, to).  After every
// step the harness reads back every "validatorsKey:<h>" record and calls the real
// LoadValidators for EVERY retained height, and logs all of it together with the sets the
// State values themselves carry (the sets in force).  Heights are placed around the real
// valSetCheckpointInterval (100000) by choosing the chain's InitialHeight.  TLC validates
// the NDJSON (spec/trace/TMValSetTrace.tla); the harness gives no verdicts.

import (
	"bytes"
	"encoding/json"
	"fmt"
	"math/rand"
	"os"
	"sort"
	"strconv"
	"testing"
	"time"

	dbm "github.com/tendermint/tm-db"

	abci "github.com/tendermint/tendermint/abci/types"
	"github.com/tendermint/tendermint/crypto"
	"github.com/tendermint/tendermint/crypto/ed25519"
	tmstate "github.com/tendermint/tendermint/proto/tendermint/state"
	"github.com/tendermint/tendermint/types"
)

type c08Change struct {
	A int   `json:"a"`
	P int64 `json:"p"`
}

type c08Val struct {
	A  int   `json:"a"`
	P  int64 `json:"p"`
	Pr int64 `json:"pr"`
}

type c08View struct {
	Vals []c08Val `json:"vals"`
	Prop c08Val   `json:"prop"`
}

type c08Op struct {
	Op    string      `json:"op"`
	Batch []c08Change `json:"batch"`
	To    int64       `json:"to"`
	Crash bool        `json:"crash"` // the node dies between the app's Commit and store.Save; the handshake recovers
}

type c08Sched struct {
	Genesis []c08Change `json:"genesis"`
	IH      int64       `json:"ih"`   // real initial height
	Mode    string      `json:"mode"` // genesis | bootstrap
	Discard bool        `json:"discard"` // StoreOptions.DiscardABCIResponses
	Ops     []c08Op     `json:"ops"`
}

type c08Input struct {
	Scheds []c08Sched `json:"scheds"`
	Random int        `json:"random"`
}

type c08M = map[string]interface{}

type c08Pool struct {
	keys []crypto.PubKey
	ids  map[string]int
}

func newC08Pool(seed int64, n int) *c08Pool {
	ks := make([]crypto.PubKey, n)
	for i := range ks {
		ks[i] = ed25519.GenPrivKeyFromSecret([]byte(fmt.Sprintf("verif-c08-%d-%d", seed, i))).PubKey()
	}
	sort.Slice(ks, func(i, j int) bool { return bytes.Compare(ks[i].Address(), ks[j].Address()) < 0 })
	p := &c08Pool{keys: ks, ids: map[string]int{}}
	for i, k := range ks {
		p.ids[string(k.Address())] = i + 1
	}
	return p
}

func (p *c08Pool) vals(cs []c08Change) []*types.Validator {
	out := make([]*types.Validator, len(cs))
	for i, c := range cs {
		k := p.keys[c.A-1]
		out[i] = &types.Validator{Address: k.Address(), PubKey: k, VotingPower: c.P}
	}
	return out
}

func (p *c08Pool) projVal(v *types.Validator) c08Val {
	if v == nil {
		return c08Val{}
	}
	id, ok := p.ids[string(v.Address)]
	if !ok {
		id = 99
	}
	return c08Val{A: id, P: v.VotingPower, Pr: v.ProposerPriority}
}

func (p *c08Pool) view(vs *types.ValidatorSet) c08View {
	out := c08View{Vals: []c08Val{}}
	if vs == nil {
		return out
	}
	for _, v := range vs.Validators {
		out.Vals = append(out.Vals, p.projVal(v))
	}
	out.Prop = p.projVal(vs.Proposer)
	return out
}

type c08Writer struct {
	f   *os.File
	enc *json.Encoder
	n   int
}

func (w *c08Writer) emit(v interface{}) {
	if err := w.enc.Encode(v); err != nil {
		panic(err)
	}
	w.n++
}

// one store under test
type c08Run struct {
	w     *c08Writer
	run   int
	pool  *c08Pool
	db    dbm.DB
	store Store
	st    State
	disc  bool // StoreOptions.DiscardABCIResponses
	base  int64
	lo    int64 // lowest height ever written
	top   int64 // highest height with a set in force
}

func c08ErrClass(err error) string {
	if err == nil {
		return "none"
	}
	if _, ok := err.(ErrNoValSetForHeight); ok {
		return "novalset"
	}
	return "error"
}

// every validators record between lo and top, as stored
func (r *c08Run) records() []c08M {
	out := []c08M{}
	for h := r.lo; h <= r.top; h++ {
		vi, err := loadValidatorsInfo(r.db, h)
		if err != nil {
			continue
		}
		rec := c08M{"h": h, "lhc": vi.LastHeightChanged, "set": c08View{Vals: []c08Val{}}}
		if vi.ValidatorSet != nil {
			vs, err := types.ValidatorSetFromProto(vi.ValidatorSet)
			if err != nil {
				rec["set"] = c08View{Vals: []c08Val{}, Prop: c08Val{A: -1}}
			} else {
				rec["set"] = r.pool.view(vs)
			}
		}
		out = append(out, rec)
	}
	return out
}

func (r *c08Run) load(h int64) (out c08M) {
	defer func() {
		if x := recover(); x != nil {
			out = c08M{"h": h, "err": "panic", "set": c08View{Vals: []c08Val{}}}
		}
	}()
	vs, err := r.store.LoadValidators(h)
	return c08M{"h": h, "err": c08ErrClass(err), "set": r.pool.view(vs)}
}

// LoadValidators for every retained height
func (r *c08Run) loads() []c08M {
	out := []c08M{}
	for h := r.base; h <= r.top; h++ {
		out = append(out, r.load(h))
	}
	return out
}

func c08Changes(cs []c08Change) []c08Change {
	if cs == nil {
		return []c08Change{}
	}
	return cs
}

func (r *c08Run) genesis(gen []c08Change, ih int64, mode string) bool {
	gvals := make([]types.GenesisValidator, len(gen))
	for i, v := range r.pool.vals(gen) {
		gvals[i] = types.GenesisValidator{Address: v.Address, PubKey: v.PubKey, Power: v.VotingPower, Name: fmt.Sprintf("v%d", gen[i].A)}
	}
	st, err := MakeGenesisState(&types.GenesisDoc{ChainID: "verif-c08", InitialHeight: ih, Validators: gvals,
		GenesisTime: time.Unix(1600000000, 0).UTC()})
	if err != nil {
		r.w.emit(c08M{"ev": "Genesis", "run": r.run, "err": "error", "ih": ih})
		return false
	}
	r.db = dbm.NewMemDB()
	r.store = NewStore(r.db, StoreOptions{DiscardABCIResponses: r.disc})
	r.st = st
	if mode == "bootstrap" {
		// the state a state-syncing node is handed two blocks later (statesync/stateprovider.go State())
		for i := 0; i < 2; i++ {
			if !r.advance(nil) {
				return false
			}
		}
		r.st.LastHeightValidatorsChanged = r.st.LastBlockHeight + 2
		err := r.store.Bootstrap(r.st)
		r.base, r.lo, r.top = r.st.LastBlockHeight, r.st.LastBlockHeight, r.st.LastBlockHeight+2
		r.w.emit(c08M{"ev": "Bootstrap", "run": r.run, "err": c08ErrClass(err), "ih": ih, "h": r.st.LastBlockHeight,
			"lhc": r.st.LastHeightValidatorsChanged, "lvals": r.pool.view(r.st.LastValidators),
			"vals": r.pool.view(r.st.Validators), "nvals": r.pool.view(r.st.NextValidators),
			"base": r.base, "db": r.records(), "loads": r.loads()})
		return err == nil
	}
	err = r.store.Save(st)
	r.base, r.lo, r.top = ih, ih, ih+1
	r.w.emit(c08M{"ev": "Genesis", "run": r.run, "err": c08ErrClass(err), "ih": ih, "h": 0, "genesis": c08Changes(gen),
		"lhc": st.LastHeightValidatorsChanged, "vals": r.pool.view(st.Validators), "nvals": r.pool.view(st.NextValidators),
		"base": r.base, "db": r.records(), "loads": r.loads()})
	return err == nil
}

// the real updateState for the next block with the given responses and validator updates; no save
func (r *c08Run) advanceWith(resp *tmstate.ABCIResponses, updates []*types.Validator) bool {
	height := r.st.LastBlockHeight + 1
	if r.st.LastBlockHeight == 0 {
		height = r.st.InitialHeight
	}
	hdr := &types.Header{ChainID: r.st.ChainID, Height: height, Time: r.st.LastBlockTime.Add(time.Second)}
	bid := types.BlockID{Hash: bytes.Repeat([]byte{byte(height)}, 32)}
	ns, err := updateState(r.st, bid, hdr, resp, updates)
	if err != nil {
		return false
	}
	r.st = ns
	return true
}

func (r *c08Run) advance(batch []c08Change) bool {
	resp := &tmstate.ABCIResponses{BeginBlock: &abci.ResponseBeginBlock{}, EndBlock: &abci.ResponseEndBlock{}}
	return r.advanceWith(resp, r.pool.vals(batch))
}

// the ABCI responses an application would return for a block with this batch of validator
// updates (and, now and then, a consensus-parameter update)
func (r *c08Run) responses(height int64, batch []c08Change, cpu int64) *tmstate.ABCIResponses {
	ev := []abci.Event{{Type: "verif", Attributes: []abci.EventAttribute{{Key: []byte("h"), Value: []byte(strconv.FormatInt(height, 10))}}}}
	resp := &tmstate.ABCIResponses{
		DeliverTxs: []*abci.ResponseDeliverTx{{Code: 0, Data: []byte{byte(height)}, Events: ev}, {Code: 1, Log: "x"}},
		BeginBlock: &abci.ResponseBeginBlock{Events: ev},
		EndBlock:   &abci.ResponseEndBlock{Events: ev},
	}
	for _, v := range r.pool.vals(batch) {
		resp.EndBlock.ValidatorUpdates = append(resp.EndBlock.ValidatorUpdates, types.TM2PB.ValidatorUpdate(v))
	}
	if cpu > 0 {
		resp.EndBlock.ConsensusParamUpdates = &abci.ConsensusParams{Block: &abci.BlockParams{MaxBytes: cpu, MaxGas: -1}}
	}
	return resp
}

func (r *c08Run) changesOf(vus []abci.ValidatorUpdate) ([]c08Change, []*types.Validator, string) {
	out := []c08Change{}
	vals, err := types.PB2TM.ValidatorUpdates(vus)
	if err != nil {
		return out, nil, "error"
	}
	for _, v := range vals {
		id, ok := r.pool.ids[string(v.Address)]
		if !ok {
			id = 99
		}
		out = append(out, c08Change{A: id, P: v.VotingPower})
	}
	return out, vals, "none"
}

func c08CPU(resp *tmstate.ABCIResponses) int64 {
	if resp == nil || resp.EndBlock == nil || resp.EndBlock.ConsensusParamUpdates == nil || resp.EndBlock.ConsensusParamUpdates.Block == nil {
		return 0
	}
	return resp.EndBlock.ConsensusParamUpdates.Block.MaxBytes
}

// one block through the real persistence path (BlockExecutor.ApplyBlock order):
// SaveABCIResponses(height, responses); then either updateState on the responses in memory,
// or - crash between the application's Commit and Save - the handshake's recovery
// (consensus/replay.go): LoadLastABCIResponse(height), updateState on what it returns; then Save.
// The recovery copy is read back and logged after every SaveABCIResponses.
func (r *c08Run) apply(batch []c08Change, crash bool, cpu int64) {
	height := r.st.LastBlockHeight + 1
	if r.st.LastBlockHeight == 0 {
		height = r.st.InitialHeight
	}
	cls, lerr := "none", "none"
	loaded, used := []c08Change{}, c08Changes(batch)
	lcpu := int64(0)
	func() {
		defer func() {
			if x := recover(); x != nil {
				cls = "panic"
			}
		}()
		resp := r.responses(height, batch, cpu)
		if err := r.store.SaveABCIResponses(height, resp); err != nil {
			cls = "error"
			return
		}
		last, err := r.store.LoadLastABCIResponse(height)
		var lvals []*types.Validator
		if err != nil || last == nil || last.EndBlock == nil {
			lerr = "error"
		} else {
			loaded, lvals, lerr = r.changesOf(last.EndBlock.ValidatorUpdates)
			lcpu = c08CPU(last)
		}
		ok := false
		if crash {
			if lerr != "none" {
				cls = "error"
				return
			}
			used = loaded
			ok = r.advanceWith(last, lvals)
		} else {
			ok = r.advanceWith(resp, r.pool.vals(batch))
		}
		if !ok {
			cls = "error"
		}
	}()
	ev := c08M{"ev": "Apply", "run": r.run, "height": height, "batch": c08Changes(batch), "crash": crash, "discard": r.disc,
		"cpu": cpu, "lcpu": lcpu, "loaded": loaded, "lerr": lerr, "used": used, "pcpu": int64(0)}
	if cls == "none" {
		cls = c08ErrClass(r.store.Save(r.st))
		r.top = height + 2
	}
	ev["err"] = cls
	ev["h"], ev["lhc"] = r.st.LastBlockHeight, r.st.LastHeightValidatorsChanged
	ev["vals"], ev["nvals"] = r.pool.view(r.st.Validators), r.pool.view(r.st.NextValidators)
	ev["pcpu"] = r.st.ConsensusParams.Block.MaxBytes
	ev["base"], ev["db"], ev["loads"] = r.base, r.records(), r.loads()
	r.w.emit(ev)
}

func (r *c08Run) prune(to int64) {
	cls := "none"
	func() {
		defer func() {
			if x := recover(); x != nil {
				cls = "panic"
			}
		}()
		if err := r.store.PruneStates(r.base, to); err != nil {
			cls = "error"
		}
	}()
	from := r.base
	if cls == "none" {
		r.base = to
	}
	r.w.emit(c08M{"ev": "Prune", "run": r.run, "from": from, "to": to, "err": cls, "base": r.base,
		"db": r.records(), "loads": r.loads()})
}

func TestVerifC08Store(t *testing.T) {
	inPath, outDir := os.Getenv("VERIF_IN"), os.Getenv("VERIF_OUT")
	if inPath == "" || outDir == "" {
		t.Skip("VERIF_IN / VERIF_OUT not set")
	}
	seed, _ := strconv.ParseInt(os.Getenv("VERIF_SEED"), 10, 64)
	raw, err := os.ReadFile(inPath)
	if err != nil {
		t.Fatal(err)
	}
	var in c08Input
	if err := json.Unmarshal(raw, &in); err != nil {
		t.Fatal(err)
	}
	f, err := os.Create(outDir + "/store.ndjson")
	if err != nil {
		t.Fatal(err)
	}
	w := &c08Writer{f: f, enc: json.NewEncoder(f)}
	pool := newC08Pool(seed, 10)
	rng := rand.New(rand.NewSource(seed))
	run := 0
	for _, s := range in.Scheds {
		run++
		w.emit(c08M{"ev": "Reset", "run": run, "kind": "store", "ckpt": int64(valSetCheckpointInterval), "ih": s.IH, "mode": s.Mode,
			"discard": s.Discard})
		r := &c08Run{w: w, run: run, pool: pool, disc: s.Discard}
		if !r.genesis(s.Genesis, s.IH, s.Mode) {
			continue
		}
		for _, op := range s.Ops {
			switch op.Op {
			case "Apply":
				r.apply(op.Batch, op.Crash, 0)
			case "Prune":
				r.prune(op.To)
			}
		}
	}
	for k := 0; k < in.Random; k++ {
		run++
		c08RandomStore(w, run, pool, rng)
	}
	f.Close()
	t.Logf("C08 store harness: %d events, %d runs", w.n, run)
}

var c08StorePowers = []int64{1, 1, 2, 3, 5, 10, 10, 50, 100, 1000}

func c08RandomStore(w *c08Writer, run int, pool *c08Pool, rng *rand.Rand) {
	ckpt := int64(valSetCheckpointInterval)
	ih := int64(1)
	switch rng.Intn(6) {
	case 0:
		ih = 1
	case 1:
		ih = 1 + int64(rng.Intn(5))
	case 2:
		ih = ckpt
	case 3:
		ih = 2*ckpt - 1 - int64(rng.Intn(3))
	default:
		ih = ckpt - 1 - int64(rng.Intn(12))
	}
	mode := "genesis"
	if rng.Intn(6) == 0 {
		mode = "bootstrap"
	}
	npool := 3 + rng.Intn(5)
	var gen []c08Change
	for _, a := range rng.Perm(npool)[:1+rng.Intn(3)] {
		gen = append(gen, c08Change{A: a + 1, P: c08StorePowers[rng.Intn(len(c08StorePowers))]})
	}
	disc := rng.Intn(2) == 0
	w.emit(c08M{"ev": "Reset", "run": run, "kind": "store-random", "ckpt": ckpt, "ih": ih, "mode": mode, "discard": disc})
	r := &c08Run{w: w, run: run, pool: pool, disc: disc}
	if !r.genesis(gen, ih, mode) {
		return
	}
	steps := 4 + rng.Intn(22)
	pChange := []int{2, 4, 10}[rng.Intn(3)]
	for s := 0; s < steps; s++ {
		if r.st.LastBlockHeight > r.base && rng.Intn(5) == 0 {
			to := r.base + 1 + rng.Int63n(r.st.LastBlockHeight-r.base)
			r.prune(to)
			continue
		}
		var batch []c08Change
		if rng.Intn(pChange) == 0 {
			used := map[int]bool{}
			for n := 1 + rng.Intn(3); n > 0; n-- {
				a := 1 + rng.Intn(npool)
				if used[a] {
					continue
				}
				used[a] = true
				p := c08StorePowers[rng.Intn(len(c08StorePowers))]
				if rng.Intn(3) == 0 {
					p = 0
				}
				batch = append(batch, c08Change{A: a, P: p})
			}
		}
		cpu := int64(0)
		if rng.Intn(6) == 0 {
			cpu = 2000000 + int64(rng.Intn(1000))
		}
		r.apply(batch, rng.Intn(3) == 0, cpu)
	}
}
