//go:build verif

package light_test

// C09 harness (see /verif/DESIGN.md section 5, C09; specification spec/TMLight.tla).
//
// Builds real signed light blocks from abstract descriptions (a TLC-exported world or a
// randomly generated one), drives a real light.Client (real light/store/db over memdb)
// against scripted provider.Provider implementations, forces the order in which witness
// replies are consumed with per-reply gates, and writes NDJSON traces of what happened:
// every request and answer, the returned error class, the evidence reported to each
// provider, the content of the trusted store and the provider lists after each call, plus
// the abstract FACTS of every block (who signed, powers, times, hash names) derived from
// the real objects.  TLC (spec/trace/TMLightTrace.tla) judges; this file never does.

import (
	"bytes"
	"context"
	"encoding/hex"
	"encoding/json"
	"errors"
	"fmt"
	"math/rand"
	"os"
	"sort"
	"strconv"
	"strings"
	"sync"
	"testing"
	"time"

	dbm "github.com/tendermint/tm-db"

	"github.com/tendermint/tendermint/crypto"
	"github.com/tendermint/tendermint/crypto/ed25519"
	"github.com/tendermint/tendermint/crypto/tmhash"
	"github.com/tendermint/tendermint/libs/log"
	tmmath "github.com/tendermint/tendermint/libs/math"
	"github.com/tendermint/tendermint/light"
	"github.com/tendermint/tendermint/light/provider"
	"github.com/tendermint/tendermint/light/store"
	dbs "github.com/tendermint/tendermint/light/store/db"
	tmproto "github.com/tendermint/tendermint/proto/tendermint/types"
	tmversion "github.com/tendermint/tendermint/proto/tendermint/version"
	"github.com/tendermint/tendermint/types"
	"github.com/tendermint/tendermint/version"
)

const c09ChainID = "c09-chain"

var c09Base = time.Date(2026, 1, 1, 0, 0, 0, 0, time.UTC)

func c09Time(t int64) time.Time { return c09Base.Add(time.Duration(t) * time.Millisecond) }

// ---------------------------------------------------------------------------- input

type c09Val struct {
	V string `json:"v"`
	P int64  `json:"p"`
}

type c09Sig struct {
	V  string `json:"v"`
	F  string `json:"f"`
	Ok bool   `json:"ok"`
}

// abstract description / facts of a light block (same shape in both directions)
type c09Block struct {
	ID   string   `json:"id"`
	Hid  string   `json:"hid"`
	H    int64    `json:"h"`
	T    int64    `json:"t"`
	Vh   string   `json:"vh"`
	Nvh  string   `json:"nvh"`
	Vsh  string   `json:"vsh"`
	Vals []c09Val `json:"vals"`
	Sigs []c09Sig `json:"sigs"`
	Last string   `json:"last"`
	Wf   bool     `json:"wf"`
	Hwf  bool     `json:"hwf"`
}

type c09Cfg struct {
	Period int64  `json:"period"`
	Drift  int64  `json:"drift"`
	Num    int64  `json:"num"`
	Den    int64  `json:"den"`
	Mode   string `json:"mode"`
}

type c09WorldIn struct {
	VSets  map[string][]c09Val `json:"vsets"`
	Blocks map[string]c09Block `json:"blocks"`
}

type c09Step struct {
	Op    string   `json:"op"` // "Verify" | "Update"
	H     int64    `json:"h"`
	Now   int64    `json:"now"`
	Sched []string `json:"sched"`
}

type c09Run struct {
	Prov       map[string][][]string `json:"prov"` // name -> table (index height+1 -> answers)
	Primary    string                `json:"primary"`
	Wits       []string              `json:"wits"`
	Cfg        c09Cfg                `json:"cfg"`
	Root       int64                 `json:"root"`
	RootHid    string                `json:"root_hid"`
	StartSched []string              `json:"start_sched"`
	Steps      []c09Step             `json:"steps"`
	Src        string                `json:"src"`
}

type c09Case struct {
	Tb  string `json:"tb"`
	Nb  string `json:"nb"`
	Now int64  `json:"now"`
	Cfg c09Cfg `json:"cfg"`
}

type c09Input struct {
	World  c09WorldIn `json:"world"`
	Cases  []c09Case  `json:"cases"`
	Runs   []c09Run   `json:"runs"`
	Random int        `json:"random"`
}

// ---------------------------------------------------------------------------- world (real objects)

type c09World struct {
	keys     map[string]crypto.PrivKey // validator name -> key
	nameOf   map[string]string         // address hex -> validator name
	vsets    map[string]*types.ValidatorSet
	vsetName map[string]string // hash hex -> name
	desc     map[string]c09Block
	headers  map[string]*types.Header     // hid -> header
	hidOf    map[string]string            // header hash hex -> hid
	blocks   map[string]*types.LightBlock // id -> block
	idOf     map[string]string            // full key -> id
	facts    map[string]c09Block          // id -> facts derived from the real object
}

// validator names v1..vn are assigned in ADDRESS order, so that the order of
// types.ValidatorSet (power desc, address asc) is (power desc, name asc)
func c09Keys(n int) (map[string]crypto.PrivKey, map[string]string) {
	ks := make([]crypto.PrivKey, n)
	for i := range ks {
		ks[i] = ed25519.GenPrivKeyFromSecret([]byte("c09-validator-" + strconv.Itoa(i)))
	}
	sort.Slice(ks, func(i, j int) bool {
		return bytes.Compare(ks[i].PubKey().Address(), ks[j].PubKey().Address()) < 0
	})
	keys, names := map[string]crypto.PrivKey{}, map[string]string{}
	for i, k := range ks {
		name := "v" + strconv.Itoa(i+1)
		keys[name] = k
		names[hex.EncodeToString(k.PubKey().Address())] = name
	}
	return keys, names
}

func c09BlockKey(lb *types.LightBlock) string {
	return hex.EncodeToString(lb.Header.Hash()) + "|" + hex.EncodeToString(lb.Commit.Hash()) + "|" +
		hex.EncodeToString(lb.ValidatorSet.Hash())
}

func newC09World(in c09WorldIn) (*c09World, error) {
	w := &c09World{vsets: map[string]*types.ValidatorSet{}, vsetName: map[string]string{},
		desc: in.Blocks, headers: map[string]*types.Header{}, hidOf: map[string]string{},
		blocks: map[string]*types.LightBlock{}, idOf: map[string]string{}, facts: map[string]c09Block{}}
	w.keys, w.nameOf = c09Keys(9)
	for name, vs := range in.VSets {
		vals := make([]*types.Validator, len(vs))
		for i, v := range vs {
			k, ok := w.keys[v.V]
			if !ok {
				return nil, fmt.Errorf("unknown validator %q", v.V)
			}
			vals[i] = types.NewValidator(k.PubKey(), v.P)
		}
		var set *types.ValidatorSet
		dup, seenV := false, map[string]bool{}
		for _, v := range vs {
			dup = dup || seenV[v.V]
			seenV[v.V] = true
		}
		if dup {
			// the same validator in several slots: NewValidatorSet refuses that, but a set decoded from
			// the wire (ValidatorSetFromProto / ValidateBasic) is not checked for it -- hand-built,
			// in the order given
			set = &types.ValidatorSet{Validators: vals, Proposer: vals[0].Copy()}
		} else {
			set = types.NewValidatorSet(vals)
		}
		set.TotalVotingPower()
		w.vsets[name] = set
		w.vsetName[hex.EncodeToString(set.Hash())] = name
	}
	ids := make([]string, 0, len(in.Blocks))
	for id := range in.Blocks {
		ids = append(ids, id)
	}
	sort.Strings(ids)
	for _, id := range ids {
		if _, err := w.build(id, 0); err != nil {
			return nil, err
		}
	}
	for _, id := range ids {
		w.facts[id] = w.factsOf(id, w.blocks[id])
	}
	return w, nil
}

func (w *c09World) header(d c09Block, depth int) (*types.Header, error) {
	if h, ok := w.headers[d.Hid]; ok {
		return h, nil
	}
	if depth > 64 {
		return nil, errors.New("cyclic last-block links")
	}
	vh, ok1 := w.vsets[d.Vh]
	nvh, ok2 := w.vsets[d.Nvh]
	if !ok1 || !ok2 {
		return nil, fmt.Errorf("block %s: unknown validator set %q/%q", d.ID, d.Vh, d.Nvh)
	}
	var last types.BlockID
	if d.Last != "nil" {
		// find some block description with that header id
		var ld *c09Block
		for _, x := range w.desc {
			if x.Hid == d.Last {
				xx := x
				ld = &xx
				break
			}
		}
		if ld == nil {
			last = types.BlockID{Hash: tmhash.Sum([]byte("unknown-last-" + d.Last)),
				PartSetHeader: types.PartSetHeader{Total: 1, Hash: tmhash.Sum([]byte("parts-" + d.Last))}}
		} else {
			lh, err := w.header(*ld, depth+1)
			if err != nil {
				return nil, err
			}
			last = types.BlockID{Hash: lh.Hash(),
				PartSetHeader: types.PartSetHeader{Total: 1, Hash: tmhash.Sum([]byte("parts-" + d.Last))}}
		}
	}
	chain := c09ChainID
	if !d.Wf {
		chain = "c09-other-chain" // SignedHeader.ValidateBasic(chainID) and VerifyBackwards both reject
	}
	h := &types.Header{
		Version:            tmversion.Consensus{Block: version.BlockProtocol, App: 0},
		ChainID:            chain,
		Height:             d.H,
		Time:               c09Time(d.T),
		LastBlockID:        last,
		LastCommitHash:     tmhash.Sum([]byte("last-commit")),
		DataHash:           tmhash.Sum([]byte("data-" + d.Hid)),
		ValidatorsHash:     vh.Hash(),
		NextValidatorsHash: nvh.Hash(),
		ConsensusHash:      tmhash.Sum([]byte("cons")),
		AppHash:            tmhash.Sum([]byte("app")),
		LastResultsHash:    tmhash.Sum([]byte("res")),
		EvidenceHash:       tmhash.Sum([]byte("evidence")),
		ProposerAddress:    vh.Validators[0].Address,
	}
	w.headers[d.Hid] = h
	w.hidOf[hex.EncodeToString(h.Hash())] = d.Hid
	return h, nil
}

func (w *c09World) build(id string, depth int) (*types.LightBlock, error) {
	if lb, ok := w.blocks[id]; ok {
		return lb, nil
	}
	d, ok := w.desc[id]
	if !ok {
		return nil, fmt.Errorf("unknown block %q", id)
	}
	h, err := w.header(d, depth)
	if err != nil {
		return nil, err
	}
	vals, ok := w.vsets[d.Vsh]
	if !ok {
		return nil, fmt.Errorf("block %s: unknown supplied validator set %q", id, d.Vsh)
	}
	blockID := types.BlockID{Hash: h.Hash(),
		PartSetHeader: types.PartSetHeader{Total: 1, Hash: tmhash.Sum([]byte("parts-" + d.Hid))}}
	sigs := make([]types.CommitSig, len(d.Sigs))
	for i, s := range d.Sigs {
		if s.F == "absent" {
			sigs[i] = types.NewCommitSigAbsent()
			continue
		}
		key, ok := w.keys[s.V]
		if !ok {
			return nil, fmt.Errorf("block %s: unknown signer %q", id, s.V)
		}
		vote := &types.Vote{
			Type:             tmproto.PrecommitType,
			Height:           d.H,
			Round:            1,
			BlockID:          blockID,
			Timestamp:        c09Time(d.T),
			ValidatorAddress: key.PubKey().Address(),
			ValidatorIndex:   int32(i),
		}
		flag := types.BlockIDFlagCommit
		if s.F == "nil" {
			vote.BlockID = types.BlockID{}
			flag = types.BlockIDFlagNil
		}
		sig, err := key.Sign(types.VoteSignBytes(h.ChainID, vote.ToProto()))
		if err != nil {
			return nil, err
		}
		if !s.Ok {
			sig = tmhash.Sum([]byte("forged-signature-" + id + s.V))
			sig = append(sig, sig...)
		}
		sigs[i] = types.CommitSig{BlockIDFlag: flag, ValidatorAddress: key.PubKey().Address(),
			Timestamp: c09Time(d.T), Signature: sig}
	}
	commit := types.NewCommit(d.H, 1, blockID, sigs)
	lb := &types.LightBlock{SignedHeader: &types.SignedHeader{Header: h, Commit: commit}, ValidatorSet: vals}
	w.blocks[id] = lb
	w.idOf[c09BlockKey(lb)] = id
	return lb, nil
}

func (w *c09World) vsName(hash []byte) string {
	if n, ok := w.vsetName[hex.EncodeToString(hash)]; ok {
		return n
	}
	return "?" + hex.EncodeToString(hash[:c09min(len(hash), 4)])
}

func c09min(a, b int) int {
	if a < b {
		return a
	}
	return b
}

func (w *c09World) hidName(hash []byte) string {
	if len(hash) == 0 {
		return "nil"
	}
	if n, ok := w.hidOf[hex.EncodeToString(hash)]; ok {
		return n
	}
	return "?" + hex.EncodeToString(hash[:c09min(len(hash), 4)])
}

func (w *c09World) idName(lb *types.LightBlock) string {
	if lb == nil || lb.SignedHeader == nil || lb.Header == nil || lb.Commit == nil || lb.ValidatorSet == nil {
		return "?nilblock"
	}
	if n, ok := w.idOf[c09BlockKey(lb)]; ok {
		return n
	}
	return "?" + w.hidName(lb.Header.Hash())
}

// abstract facts of a REAL light block (nothing is taken from the description)
func (w *c09World) factsOf(id string, lb *types.LightBlock) c09Block {
	f := c09Block{ID: id, Hid: w.hidName(lb.Header.Hash()), H: lb.Height,
		T:   int64(lb.Time.Sub(c09Base) / time.Millisecond),
		Vh:  w.vsName(lb.Header.ValidatorsHash), Nvh: w.vsName(lb.Header.NextValidatorsHash),
		Vsh: w.vsName(lb.ValidatorSet.Hash()), Last: w.hidName(lb.Header.LastBlockID.Hash),
		Wf:  lb.SignedHeader.ValidateBasic(c09ChainID) == nil,
		Hwf: lb.Header.ValidateBasic() == nil && lb.Header.ChainID == c09ChainID}
	pub := map[string]crypto.PubKey{}
	for _, v := range lb.ValidatorSet.Validators {
		name := w.nameOf[hex.EncodeToString(v.Address)]
		f.Vals = append(f.Vals, c09Val{V: name, P: v.VotingPower})
	}
	for n, k := range w.keys {
		pub[n] = k.PubKey()
	}
	for i, s := range lb.Commit.Signatures {
		cs := c09Sig{V: "-", F: "absent"}
		switch s.BlockIDFlag {
		case types.BlockIDFlagCommit:
			cs.F = "commit"
		case types.BlockIDFlagNil:
			cs.F = "nil"
		}
		if cs.F != "absent" {
			cs.V = w.nameOf[hex.EncodeToString(s.ValidatorAddress)]
			if pk, ok := pub[cs.V]; ok {
				cs.Ok = pk.VerifySignature(lb.Commit.VoteSignBytes(c09ChainID, int32(i)), s.Signature)
			}
		}
		f.Sigs = append(f.Sigs, cs)
	}
	return f
}

// ---------------------------------------------------------------------------- recording

type c09Req struct {
	P    string `json:"p"`
	H    int64  `json:"h"`
	R    string `json:"r"`
	Ph   string `json:"ph"`
	done bool
}

type c09Evid struct {
	To     string `json:"to"`
	Conf   string `json:"conf"`
	Common int64  `json:"common"`
}

// shared state of one run: request log, phase marker, gates
type c09Session struct {
	mu       sync.Mutex
	w        *c09World
	provs    map[string]*c09Provider
	client   *light.Client
	initWits []string
	log      []*c09Req
	evid     []c09Evid
	pending  int // requests that arrived and have not been answered yet (gated ones included)
	phase    string
	inflight int
	lastAct  time.Time
	epoch    int
	armCh    chan int
	sleepDur time.Duration
	sawTooHi bool
	fanout   bool // the current epoch was armed right before a fan-out that certainly happens
}

func (s *c09Session) touch() { s.lastAct = time.Now() }

type c09Provider struct {
	s     *c09Session
	name  string
	table [][]string
	cnt   []int
	// gate of the current epoch (nil = never armed)
	gate      chan struct{}
	gateEpoch int
	gateOpen  bool // the scheduler has opened it
	gateUsed  bool // a request has taken it
	returned  int  // epoch of the last gated request that returned
	lastResp  string
}

var _ provider.Provider = (*c09Provider)(nil)

func (p *c09Provider) ChainID() string { return c09ChainID }
func (p *c09Provider) String() string  { return "c09{" + p.name + "}" }

func (p *c09Provider) LightBlock(ctx context.Context, height int64) (*types.LightBlock, error) {
	s := p.s
	s.mu.Lock()
	resp := "TooHigh"
	if height >= 0 && int(height) < len(p.table) {
		row := p.table[height]
		k := p.cnt[height]
		p.cnt[height]++
		if len(row) == 0 {
			resp = "NotFound"
		} else if k < len(row) {
			resp = row[k]
		} else {
			resp = row[len(row)-1]
		}
	}
	entry := &c09Req{P: p.name, H: height, R: "Pending", Ph: s.phase}
	s.log = append(s.log, entry)
	s.pending++
	s.touch()
	var gate chan struct{}
	ep := 0
	if p.gate != nil && !p.gateUsed {
		gate, ep = p.gate, p.gateEpoch
		p.gateUsed = true
	}
	s.mu.Unlock()

	active := false
	finish := func(r string) {
		s.mu.Lock()
		entry.R = r
		entry.done = true
		s.pending--
		if active {
			s.inflight--
		}
		if ep != 0 {
			p.returned = ep
			p.lastResp = r
		}
		if r == "TooHigh" {
			s.sawTooHi = true
		}
		s.touch()
		s.mu.Unlock()
	}
	if gate != nil {
		select {
		case <-gate:
		case <-ctx.Done():
			finish("Canceled")
			return nil, ctx.Err()
		}
	}
	if err := ctx.Err(); err != nil {
		finish("Canceled")
		return nil, err
	}
	s.mu.Lock()
	s.inflight++ // past the gate: counts as activity until answered
	active = true
	s.touch()
	s.mu.Unlock()
	switch resp {
	case "NotFound":
		finish(resp)
		return nil, provider.ErrLightBlockNotFound
	case "NoResponse":
		finish(resp)
		return nil, provider.ErrNoResponse
	case "TooHigh":
		finish(resp)
		return nil, provider.ErrHeightTooHigh
	case "BadBlock":
		finish(resp)
		return nil, provider.ErrBadLightBlock{Reason: errors.New("scripted bad block")}
	}
	lb, ok := s.w.blocks[resp]
	if !ok {
		finish("BadBlock")
		return nil, provider.ErrBadLightBlock{Reason: fmt.Errorf("script names unknown block %q", resp)}
	}
	// what light/provider/http does with every answer
	if err := lb.ValidateBasic(c09ChainID); err != nil {
		finish("BadBlock")
		return nil, provider.ErrBadLightBlock{Reason: err}
	}
	finish(resp)
	cp := &types.LightBlock{SignedHeader: &types.SignedHeader{Header: lb.Header, Commit: lb.Commit},
		ValidatorSet: lb.ValidatorSet}
	return cp, nil
}

func (p *c09Provider) ReportEvidence(_ context.Context, ev types.Evidence) error {
	s := p.s
	s.mu.Lock()
	defer s.mu.Unlock()
	e := c09Evid{To: p.name, Conf: "?", Common: -1}
	if lca, ok := ev.(*types.LightClientAttackEvidence); ok {
		e.Conf = s.w.idName(lca.ConflictingBlock)
		e.Common = lca.CommonHeight
	}
	s.evid = append(s.evid, e)
	s.touch()
	return nil
}

// logger used as an observation device: marks the start of the cross-check and arms the
// witness gates before every concurrent fan-out of requests
type c09Logger struct{ s *c09Session }

func (l c09Logger) Debug(msg string, kv ...interface{}) { l.s.onLog(msg) }
func (l c09Logger) Info(msg string, kv ...interface{})  { l.s.onLog(msg) }
func (l c09Logger) Error(msg string, kv ...interface{}) { l.s.onLog(msg) }
func (l c09Logger) With(kv ...interface{}) log.Logger   { return l }

func (s *c09Session) onLog(msg string) {
	arm := false
	switch {
	case msg == "Running detector against trace":
		s.mu.Lock()
		s.phase = "det"
		s.mu.Unlock()
		arm = true
	case msg == "Downloading trusted light block using options",
		strings.HasPrefix(msg, "error from light block request from primary"),
		strings.HasPrefix(msg, "primary sent invalid header"),
		strings.HasPrefix(msg, "backwards verification failed"):
		arm = true
	}
	s.mu.Lock()
	s.touch()
	s.mu.Unlock()
	if arm {
		s.arm(msg != "Downloading trusted light block using options")
	}
}

// arm a fresh gate on every current witness (never on the primary)
func (s *c09Session) arm(fanout bool) {
	var names []string
	if s.client != nil {
		prim := s.client.Primary()
		for _, w := range s.client.Witnesses() {
			if w == prim {
				continue
			}
			if cp, ok := w.(*c09Provider); ok {
				names = append(names, cp.name)
			}
		}
	} else {
		names = s.initWits
	}
	s.mu.Lock()
	s.epoch++
	ep := s.epoch
	s.fanout = fanout
	for _, p := range s.provs {
		// gates of an older epoch are released
		if p.gate != nil && !p.gateOpen {
			close(p.gate)
			p.gateOpen = true
		}
	}
	for _, n := range names {
		p := s.provs[n]
		p.gate = make(chan struct{})
		p.gateEpoch = ep
		p.gateOpen = false
		p.gateUsed = false
	}
	s.mu.Unlock()
	select {
	case s.armCh <- ep:
	default:
	}
}

func (s *c09Session) openGate(p *c09Provider, ep int) {
	s.mu.Lock()
	if p.gate != nil && p.gateEpoch == ep && !p.gateOpen {
		close(p.gate)
		p.gateOpen = true
	}
	s.mu.Unlock()
}

func (s *c09Session) openAll() {
	s.mu.Lock()
	for _, p := range s.provs {
		if p.gate != nil && !p.gateOpen {
			close(p.gate)
			p.gateOpen = true
		}
	}
	s.mu.Unlock()
}

// the driver side of the scheduler: runs call() in a goroutine and opens the witness gates
// of every fan-out in the order of sched, each after the previous reply has been digested
func (s *c09Session) schedule(sched []string, call func()) {
	done := make(chan struct{})
	go func() {
		defer close(done)
		call()
	}()
	isDone := func() bool {
		select {
		case <-done:
			return true
		default:
			return false
		}
	}
	quietFor := func(d time.Duration, limit time.Duration) {
		deadline := time.Now().Add(limit)
		for time.Now().Before(deadline) && !isDone() {
			s.mu.Lock()
			idle := time.Since(s.lastAct)
			busy := s.inflight
			s.mu.Unlock()
			if idle >= d && busy == 0 {
				return
			}
			time.Sleep(200 * time.Microsecond)
		}
	}
	for {
		select {
		case <-done:
			s.finishCall()
			return
		case ep := <-s.armCh:
		epoch:
			for {
				order := append([]string{}, sched...)
				for n := range s.provs {
					found := false
					for _, o := range order {
						if o == n {
							found = true
						}
					}
					if !found {
						order = append(order, n)
					}
				}
				sort.Strings(order[len(sched):])
				for _, n := range order {
					p, ok := s.provs[n]
					if !ok {
						continue
					}
					s.mu.Lock()
					armed := p.gate != nil && p.gateEpoch == ep && !p.gateOpen
					cur := s.epoch
					s.mu.Unlock()
					if cur != ep {
						break
					}
					if !armed {
						continue
					}
					s.openGate(p, ep)
					// wait for the request to arrive and be answered
					deadline := time.Now().Add(300 * time.Millisecond)
					for time.Now().Before(deadline) && !isDone() {
						s.mu.Lock()
						ret := p.returned == ep
						cur = s.epoch
						s.mu.Unlock()
						if ret || cur != ep {
							break
						}
						time.Sleep(100 * time.Microsecond)
					}
					s.mu.Lock()
					q := 1500 * time.Microsecond
					if p.lastResp == "TooHigh" {
						q = s.sleepDur + 3*time.Millisecond
					}
					s.mu.Unlock()
					quietFor(q, 400*time.Millisecond)
				}
				// a newer epoch may have been armed meanwhile
				select {
				case ep = <-s.armCh:
					continue epoch
				default:
				}
				break
			}
		}
	}
}

// after the client call returned: release everything, let straggling goroutines finish
func (s *c09Session) finishCall() {
	s.openAll()
	// goroutines of the last fan-out that have not even issued their request yet
	deadline := time.Now().Add(300 * time.Millisecond)
	for time.Now().Before(deadline) {
		s.mu.Lock()
		missing := false
		if s.fanout {
			for _, p := range s.provs {
				if p.gate != nil && p.gateEpoch == s.epoch && !p.gateUsed {
					missing = true
				}
			}
		}
		s.mu.Unlock()
		if !missing {
			break
		}
		time.Sleep(100 * time.Microsecond)
	}
	s.mu.Lock()
	s.fanout = false
	s.mu.Unlock()
	for round := 0; round < 3; round++ {
		deadline := time.Now().Add(500 * time.Millisecond)
		for time.Now().Before(deadline) {
			s.mu.Lock()
			busy := s.pending
			idle := time.Since(s.lastAct)
			s.mu.Unlock()
			if busy == 0 && idle > 1500*time.Microsecond {
				break
			}
			time.Sleep(200 * time.Microsecond)
		}
		s.mu.Lock()
		hi := s.sawTooHi
		s.sawTooHi = false
		s.mu.Unlock()
		if !hi {
			break
		}
		time.Sleep(s.sleepDur + 3*time.Millisecond)
	}
	s.openAll()
	// drain a stale arm notification
	select {
	case <-s.armCh:
	default:
	}
}

func (s *c09Session) takeLog() ([]c09Req, []c09Evid) {
	s.mu.Lock()
	defer s.mu.Unlock()
	l := make([]c09Req, 0, len(s.log))
	for _, r := range s.log {
		l = append(l, *r)
	}
	e := s.evid
	s.log, s.evid = nil, nil
	s.phase = "pri"
	if e == nil {
		e = []c09Evid{}
	}
	return l, e
}

// ---------------------------------------------------------------------------- error classes

func c09ProvErr(err error) (string, bool) {
	switch {
	case err == provider.ErrLightBlockNotFound:
		return "NotFound", true
	case err == provider.ErrNoResponse:
		return "NoResponse", true
	case err == provider.ErrHeightTooHigh:
		return "TooHigh", true
	case err == light.ErrNoWitnesses:
		return "NoWitnesses", true
	}
	if _, ok := err.(provider.ErrBadLightBlock); ok {
		return "BadBlock", true
	}
	return "", false
}

func c09ErrClass(err error) string {
	if err == nil {
		return "nil"
	}
	switch err {
	case light.ErrLightClientAttack:
		return "Attack"
	case light.ErrFailedHeaderCrossReferencing:
		return "FailedCrossRef"
	}
	if c, ok := c09ProvErr(err); ok {
		return c
	}
	switch e := err.(type) {
	case light.ErrVerificationFailed:
		r := e.Reason
		if c, ok := c09ProvErr(r); ok {
			return "VF:" + c
		}
		switch r.(type) {
		case light.ErrInvalidHeader:
			return "VF:invalid"
		case light.ErrOldHeaderExpired:
			return "VF:expired"
		case light.ErrNewValSetCantBeTrusted:
			return "VF:cantTrust"
		}
		if strings.HasPrefix(r.Error(), "expected old header next validators") {
			return "VF:nextvals"
		}
		return "VF:other"
	case light.ErrInvalidHeader:
		return "invalid"
	case light.ErrOldHeaderExpired:
		return "expired"
	case light.ErrNewValSetCantBeTrusted:
		return "cantTrust"
	}
	msg := err.Error()
	switch {
	case msg == "nil or single block primary trace":
		return "NilTrace"
	case strings.HasPrefix(msg, "header hash (") && strings.Contains(msg, "does not match primary"):
		return "ConflictingFirst"
	}
	return "other"
}

func c09VerifyClass(err error) string {
	if err == nil {
		return "ok"
	}
	switch err.(type) {
	case light.ErrInvalidHeader:
		return "invalid"
	case light.ErrOldHeaderExpired:
		return "expired"
	case light.ErrNewValSetCantBeTrusted:
		return "cantTrust"
	}
	if strings.HasPrefix(err.Error(), "expected old header next validators") {
		return "nextvals"
	}
	return "other"
}

// ---------------------------------------------------------------------------- output

type c09Writer struct {
	f   *os.File
	enc *json.Encoder
	n   int
}

func newC09Writer(path string) *c09Writer {
	f, err := os.Create(path)
	if err != nil {
		panic(err)
	}
	return &c09Writer{f: f, enc: json.NewEncoder(f)}
}

func (w *c09Writer) emit(v interface{}) {
	if err := w.enc.Encode(v); err != nil {
		panic(err)
	}
	w.n++
}

func c09StoreIDs(w *c09World, st store.Store) []string {
	out := []string{}
	first, err := st.FirstLightBlockHeight()
	if err != nil || first <= 0 {
		return out
	}
	last, _ := st.LastLightBlockHeight()
	for h := first; h <= last; h++ {
		lb, err := st.LightBlock(h)
		if err != nil {
			continue
		}
		out = append(out, w.idName(lb))
	}
	return out
}

func c09ProvNames(ps []provider.Provider) []string {
	out := []string{}
	for _, p := range ps {
		if cp, ok := p.(*c09Provider); ok {
			out = append(out, cp.name)
		} else {
			out = append(out, "?")
		}
	}
	return out
}

// ---------------------------------------------------------------------------- one run

func c09ExecRun(t *testing.T, out *c09Writer, w *c09World, runNo int, r c09Run) {
	sess := &c09Session{w: w, provs: map[string]*c09Provider{}, phase: "pri", armCh: make(chan int, 8),
		initWits: r.Wits, sleepDur: time.Duration(2*r.Cfg.Drift+1) * time.Millisecond, lastAct: time.Now()}
	names := make([]string, 0, len(r.Prov))
	for n := range r.Prov {
		names = append(names, n)
	}
	sort.Strings(names)
	hmax := 0
	for _, n := range names {
		tab := r.Prov[n]
		sess.provs[n] = &c09Provider{s: sess, name: n, table: tab, cnt: make([]int, len(tab))}
		if len(tab)-1 > hmax {
			hmax = len(tab) - 1
		}
	}
	// the blocks this run can see
	used := map[string]bool{}
	for _, n := range names {
		for _, row := range r.Prov[n] {
			for _, a := range row {
				if _, ok := w.blocks[a]; ok {
					used[a] = true
				}
			}
		}
	}
	facts := map[string]c09Block{}
	for id := range used {
		facts[id] = w.facts[id]
	}
	if len(facts) == 0 {
		return
	}
	out.emit(map[string]interface{}{"ev": "Reset", "run": runNo, "src": r.Src, "blocks": facts, "prov": r.Prov,
		"cfg": r.Cfg, "primary": r.Primary, "wits": r.Wits, "root": map[string]interface{}{"h": r.Root, "hid": r.RootHid},
		"hmax": hmax})

	rootHash := []byte{}
	if h, ok := w.headers[r.RootHid]; ok {
		rootHash = h.Hash()
	} else {
		rootHash = tmhash.Sum([]byte("unknown-root"))
	}
	wits := make([]provider.Provider, len(r.Wits))
	for i, n := range r.Wits {
		wits[i] = sess.provs[n]
	}
	st := dbs.New(dbm.NewMemDB(), c09ChainID)
	opts := []light.Option{
		light.Logger(c09Logger{sess}),
		light.MaxClockDrift(time.Duration(r.Cfg.Drift) * time.Millisecond),
		light.MaxBlockLag(1 * time.Millisecond),
		light.Option(func(c *light.Client) { sess.client = c }),
	}
	if r.Cfg.Mode == "seq" {
		opts = append(opts, light.SequentialVerification())
	} else {
		opts = append(opts, light.SkippingVerification(tmmath.Fraction{Numerator: uint64(r.Cfg.Num), Denominator: uint64(r.Cfg.Den)}))
	}
	var cl *light.Client
	var cerr error
	sess.schedule(r.StartSched, func() {
		cl, cerr = light.NewClient(context.Background(), c09ChainID,
			light.TrustOptions{Period: time.Duration(r.Cfg.Period) * time.Millisecond, Height: r.Root, Hash: rootHash},
			sess.provs[r.Primary], wits, st, opts...)
	})
	obs, evid := sess.takeLog()
	post := map[string]interface{}{"store": c09StoreIDs(w, st), "primary": r.Primary, "wits": r.Wits}
	if cerr == nil && cl != nil {
		post["primary"] = c09ProvNames([]provider.Provider{cl.Primary()})[0]
		post["wits"] = c09ProvNames(cl.Witnesses())
	} else if sess.client != nil {
		post["primary"] = c09ProvNames([]provider.Provider{sess.client.Primary()})[0]
		post["wits"] = c09ProvNames(sess.client.Witnesses())
	}
	out.emit(map[string]interface{}{"ev": "NewClient", "run": runNo, "sched": r.StartSched, "res": c09ErrClass(cerr),
		"obs": obs, "evid": evid, "post": post, "h": r.Root, "now": 0})
	if cerr != nil || cl == nil {
		return
	}
	for _, stp := range r.Steps {
		if stp.Op != "Verify" && stp.Op != "Update" {
			continue
		}
		stp := stp
		var verr error
		sess.schedule(stp.Sched, func() {
			if stp.Op == "Update" {
				_, verr = cl.Update(context.Background(), c09Time(stp.Now))
			} else {
				_, verr = cl.VerifyLightBlockAtHeight(context.Background(), stp.H, c09Time(stp.Now))
			}
		})
		obs, evid := sess.takeLog()
		out.emit(map[string]interface{}{"ev": stp.Op, "run": runNo, "h": stp.H, "now": stp.Now, "sched": stp.Sched,
			"res": c09ErrClass(verr), "obs": obs, "evid": evid,
			"post": map[string]interface{}{"store": c09StoreIDs(w, st),
				"primary": c09ProvNames([]provider.Provider{cl.Primary()})[0], "wits": c09ProvNames(cl.Witnesses())}})
	}
}

// ---------------------------------------------------------------------------- verifier cases

func c09ExecCase(out *c09Writer, w *c09World, c c09Case) error {
	tb, ok1 := w.blocks[c.Tb]
	nb, ok2 := w.blocks[c.Nb]
	if !ok1 || !ok2 {
		return fmt.Errorf("case names unknown block %q/%q", c.Tb, c.Nb)
	}
	period := time.Duration(c.Cfg.Period) * time.Millisecond
	drift := time.Duration(c.Cfg.Drift) * time.Millisecond
	now := c09Time(c.Now)
	lvl := tmmath.Fraction{Numerator: uint64(c.Cfg.Num), Denominator: uint64(c.Cfg.Den)}
	guard := func(f func() error) (cls string) {
		defer func() {
			if r := recover(); r != nil {
				cls = "panic"
			}
		}()
		return c09VerifyClass(f())
	}
	v := guard(func() error {
		return light.Verify(tb.SignedHeader, tb.ValidatorSet, nb.SignedHeader, nb.ValidatorSet, period, now, drift, lvl)
	})
	adj := guard(func() error {
		return light.VerifyAdjacent(tb.SignedHeader, nb.SignedHeader, nb.ValidatorSet, period, now, drift)
	})
	non := guard(func() error {
		return light.VerifyNonAdjacent(tb.SignedHeader, tb.ValidatorSet, nb.SignedHeader, nb.ValidatorSet, period, now, drift, lvl)
	})
	back := guard(func() error { return light.VerifyBackwards(nb.Header, tb.Header) })
	out.emit(map[string]interface{}{"ev": "Case", "tb": w.facts[c.Tb], "nb": w.facts[c.Nb], "now": c.Now, "cfg": c.Cfg,
		"verify": v, "adj": adj, "nonadj": non, "back": back == "ok"})
	return nil
}

// ---------------------------------------------------------------------------- random worlds and runs

func c09RandomWorld(rng *rand.Rand) (c09WorldIn, int) {
	H := 4 + rng.Intn(6)
	nv := 5 + rng.Intn(4)
	names := make([]string, nv)
	for i := range names {
		names[i] = "v" + strconv.Itoa(i+1)
	}
	in := c09WorldIn{VSets: map[string][]c09Val{}, Blocks: map[string]c09Block{}}
	mkset := func(name string, members []string, powers []int64) {
		vs := make([]c09Val, len(members))
		for i := range members {
			vs[i] = c09Val{V: members[i], P: powers[i]}
		}
		// order of types.ValidatorSet: power desc, address (= name index) asc
		sort.SliceStable(vs, func(i, j int) bool {
			if vs[i].P != vs[j].P {
				return vs[i].P > vs[j].P
			}
			a, _ := strconv.Atoi(vs[i].V[1:])
			b, _ := strconv.Atoi(vs[j].V[1:])
			return a < b
		})
		in.VSets[name] = vs
	}
	sigs := func(set []c09Val, signers map[string]bool, bad map[string]bool) []c09Sig {
		out := make([]c09Sig, len(set))
		for i, v := range set {
			if signers[v.V] {
				out[i] = c09Sig{V: v.V, F: "commit", Ok: !bad[v.V]}
			} else {
				out[i] = c09Sig{V: v.V, F: "absent"}
			}
		}
		return out
	}
	all := func(set []c09Val) map[string]bool {
		m := map[string]bool{}
		for _, v := range set {
			m[v.V] = true
		}
		return m
	}
	// reference chain with churn: a sliding window over the validator names
	setAt := make([]string, H+2)
	lo := 0
	size := 3 + rng.Intn(2)
	nset := 0
	newSet := func() string {
		nset++
		name := "S" + strconv.Itoa(nset)
		members, powers := []string{}, []int64{}
		for i := 0; i < size; i++ {
			members = append(members, names[(lo+i)%nv])
			powers = append(powers, int64(1+rng.Intn(3)))
		}
		mkset(name, members, powers)
		return name
	}
	cur := newSet()
	for h := 1; h <= H+1; h++ {
		setAt[h] = cur
		if rng.Intn(3) == 0 {
			lo += 1 + rng.Intn(2)
			cur = newSet()
		}
	}
	for h := 1; h <= H; h++ {
		id := "R" + strconv.Itoa(h)
		last := "nil"
		if h > 1 {
			last = "R" + strconv.Itoa(h-1)
		}
		set := in.VSets[setAt[h]]
		in.Blocks[id] = c09Block{ID: id, Hid: id, H: int64(h), T: int64(10 * h), Vh: setAt[h], Nvh: setAt[h+1], Vsh: setAt[h],
			Sigs: sigs(set, all(set), nil), Last: last, Wf: true}
	}
	// a forged fork from height fh on, by a coalition with its own validator set
	fh := 2 + rng.Intn(H-1)
	csize := 1 + rng.Intn(3)
	members, powers := []string{}, []int64{}
	start := rng.Intn(nv)
	for i := 0; i < csize; i++ {
		members = append(members, names[(start+i)%nv])
		powers = append(powers, int64(1+rng.Intn(3)))
	}
	mkset("X", members, powers)
	for h := fh; h <= H; h++ {
		id := "L" + strconv.Itoa(h)
		last := "R" + strconv.Itoa(h-1)
		if h > fh {
			last = "L" + strconv.Itoa(h-1)
		}
		set := in.VSets["X"]
		in.Blocks[id] = c09Block{ID: id, Hid: id, H: int64(h), T: int64(10*h + 1), Vh: "X", Nvh: "X", Vsh: "X",
			Sigs: sigs(set, all(set), nil), Last: last, Wf: true}
	}
	// equivocation on the genuine set by a random subset of it
	eh := 2 + rng.Intn(H-1)
	eset := in.VSets[setAt[eh]]
	signers := map[string]bool{}
	for _, v := range eset {
		if rng.Intn(4) != 0 {
			signers[v.V] = true
		}
	}
	in.Blocks["E"] = c09Block{ID: "E", Hid: "E", H: int64(eh), T: int64(10*eh + 2), Vh: setAt[eh], Nvh: setAt[eh+1], Vsh: setAt[eh],
		Sigs: sigs(eset, signers, nil), Last: "R" + strconv.Itoa(eh-1), Wf: true}
	// variants of one height
	vh := 2 + rng.Intn(H-1)
	vset := in.VSets[setAt[vh]]
	thin := map[string]bool{vset[0].V: true}
	rid := "R" + strconv.Itoa(vh)
	in.Blocks["Rx"] = c09Block{ID: "Rx", Hid: rid, H: int64(vh), T: int64(10 * vh), Vh: setAt[vh], Nvh: setAt[vh+1], Vsh: setAt[vh],
		Sigs: sigs(vset, thin, nil), Last: in.Blocks[rid].Last, Wf: true}
	in.Blocks["T"] = c09Block{ID: "T", Hid: "T", H: int64(vh), T: int64(100000), Vh: "X", Nvh: "X", Vsh: "X",
		Sigs: sigs(in.VSets["X"], all(in.VSets["X"]), nil), Last: "R" + strconv.Itoa(vh-1), Wf: true}
	in.Blocks["S"] = c09Block{ID: "S", Hid: "S", H: int64(vh), T: int64(10*vh + 3), Vh: setAt[vh], Nvh: setAt[vh+1], Vsh: setAt[vh],
		Sigs: sigs(vset, all(vset), map[string]bool{vset[0].V: true}), Last: "R" + strconv.Itoa(vh-1), Wf: true}
	in.Blocks["M"] = c09Block{ID: "M", Hid: "M", H: int64(vh), T: int64(10*vh + 4), Vh: setAt[vh], Nvh: setAt[vh+1], Vsh: setAt[vh],
		Sigs: sigs(vset, all(vset), nil), Last: "R" + strconv.Itoa(vh-1), Wf: false}
	in.Blocks["G"] = c09Block{ID: "G", Hid: "G", H: int64(vh), T: int64(10*vh - 1), Vh: "X", Nvh: "X", Vsh: "X",
		Sigs: sigs(in.VSets["X"], all(in.VSets["X"]), nil), Last: "R" + strconv.Itoa(vh-1), Wf: true}
	// a forged header at the top height that PASSES light verification from height 1: its set
	// is the strongest validators of the first set holding more than 1/3 of its power
	{
		first := in.VSets[setAt[1]]
		var tot, acc int64
		for _, v := range first {
			tot += v.P
		}
		members, powers := []string{}, []int64{}
		for _, v := range first {
			if acc*3 > tot {
				break
			}
			members = append(members, v.V)
			powers = append(powers, v.P)
			acc += v.P
		}
		mkset("Ks", members, powers)
		in.Blocks["K"] = c09Block{ID: "K", Hid: "K", H: int64(H), T: int64(10*H + 4), Vh: "Ks", Nvh: "Ks", Vsh: "Ks",
			Sigs: sigs(in.VSets["Ks"], all(in.VSets["Ks"]), nil), Last: "R" + strconv.Itoa(H-1), Wf: true}
		// forward lunatic family: the same forgery with a CHOSEN time relative to the genuine head
		// R(H-1) that a lagging honest witness still has: one tick before, equal, one tick after
		for id, off := range map[string]int{"Km": -1, "Ke": 0, "Kp": 1} {
			in.Blocks[id] = c09Block{ID: id, Hid: id, H: int64(H), T: int64(10*(H-1) + off), Vh: "Ks", Nvh: "Ks", Vsh: "Ks",
				Sigs: sigs(in.VSets["Ks"], all(in.VSets["Ks"]), nil), Last: "R" + strconv.Itoa(H-1), Wf: true}
		}
	}
	// duplicate-slot family: the weakest validator of the first set (below the trust level on its
	// own) listed in as many slots as it would take to pass the trust level of that set if every
	// slot counted, the commit repeating its precommit per slot
	{
		first := in.VSets[setAt[1]]
		var tot int64
		for _, v := range first {
			tot += v.P
		}
		wk := first[len(first)-1]
		k := int(tot/(3*wk.P)) + 1
		if k < 2 {
			k = 2
		}
		ds := make([]c09Val, k)
		for i := range ds {
			ds[i] = c09Val{V: wk.V, P: wk.P}
		}
		in.VSets["Ds"] = ds
		in.Blocks["D"] = c09Block{ID: "D", Hid: "D", H: int64(H), T: int64(10*H + 3), Vh: "Ds", Nvh: "Ds", Vsh: "Ds",
			Sigs: sigs(ds, all(ds), nil), Last: "R" + strconv.Itoa(H-1), Wf: true}
	}
	// a forged header at the top height whose only validator (v9) is in no set of the chain:
	// it can never reach the trust level of any trusted set
	mkset("Zs", []string{"v9"}, []int64{1})
	in.Blocks["Z"] = c09Block{ID: "Z", Hid: "Z", H: int64(H), T: int64(10*H + 5), Vh: "Zs", Nvh: "Zs", Vsh: "Zs",
		Sigs: sigs(in.VSets["Zs"], all(in.VSets["Zs"]), nil), Last: "R" + strconv.Itoa(H-1), Wf: true}
	return in, H
}

func c09RandomRun(rng *rand.Rand, in c09WorldIn, H int) c09Run {
	honest := func() [][]string {
		t := make([][]string, H+1)
		t[0] = []string{"R" + strconv.Itoa(H)}
		for h := 1; h <= H; h++ {
			t[h] = []string{"R" + strconv.Itoa(h)}
		}
		return t
	}
	at := func(id string) int { return int(in.Blocks[id].H) }
	root := 1 + rng.Intn(H)
	if rng.Intn(2) == 0 {
		root = 1
	}
	holeTarget := false
	persona := func(primary bool) [][]string {
		t := honest()
		k := rng.Intn(15)
		if primary && rng.Intn(8) == 0 {
			k = 15
		}
		if !primary && rng.Intn(3) == 0 {
			k = 0
		}
		switch k {
		case 0, 1: // honest
		case 2: // forged fork
			for h := 1; h <= H; h++ {
				if _, ok := in.Blocks["L"+strconv.Itoa(h)]; ok {
					t[h] = []string{"L" + strconv.Itoa(h)}
				}
			}
			t[0] = t[H]
		case 3: // equivocation, nothing above
			e := at("E")
			t[e] = []string{"E"}
			for h := e + 1; h <= H; h++ {
				t[h] = []string{"TooHigh"}
			}
			t[0] = []string{"E"}
		case 4:
			for h := 0; h <= H; h++ {
				t[h] = []string{"NoResponse"}
			}
		case 5:
			for h := 0; h <= H; h++ {
				t[h] = []string{"NotFound"}
			}
		case 6:
			for h := 0; h <= H; h++ {
				t[h] = []string{"BadBlock"}
			}
		case 7: // lagging, maybe catching up
			k := 1 + rng.Intn(H)
			for h := k + 1; h <= H; h++ {
				t[h] = []string{"TooHigh"}
				if rng.Intn(2) == 0 {
					t[h] = append(t[h], "R"+strconv.Itoa(h))
				}
			}
			t[0] = []string{"R" + strconv.Itoa(k)}
			if rng.Intn(2) == 0 {
				t[0] = append(t[0], "R"+strconv.Itoa(H))
			}
		case 8: // answers differently the second time
			g := at("G")
			t[g] = []string{"G", "R" + strconv.Itoa(g)}
		case 9: // holes
			for h := 1; h <= H; h++ {
				if rng.Intn(3) == 0 {
					t[h] = []string{[]string{"NotFound", "NoResponse", "BadBlock"}[rng.Intn(3)]}
				}
			}
		case 10: // one variant block
			id := []string{"Rx", "T", "S", "M", "G", "E"}[rng.Intn(6)]
			t[at(id)] = []string{id}
		case 11: // fork from a random height, lagging head with a future block
			tt := at("T")
			t[tt] = []string{"T"}
			for h := tt + 1; h <= H; h++ {
				t[h] = []string{"TooHigh"}
			}
			t[0] = []string{"T"}
		case 12: // fork, but genuine answers the second time
			for h := 1; h <= H; h++ {
				if _, ok := in.Blocks["L"+strconv.Itoa(h)]; ok && rng.Intn(2) == 0 {
					t[h] = []string{"L" + strconv.Itoa(h), "R" + strconv.Itoa(h)}
				}
			}
		case 14: // fork (or genuine chain) with an invalid header at one intermediate height
			if rng.Intn(2) == 0 {
				for h := 1; h <= H; h++ {
					if _, ok := in.Blocks["L"+strconv.Itoa(h)]; ok {
						t[h] = []string{"L" + strconv.Itoa(h)}
					}
				}
				t[0] = t[H]
			}
			id := []string{"Rx", "S"}[rng.Intn(2)]
			t[at(id)] = []string{id}
		case 15: // untrustable forged target, honest first pivot, nothing at the following pivots
			tgt := H
			p1 := root + (tgt-root)*9/16
			if tgt-root < 2 {
				break
			}
			t[tgt] = []string{"Z"}
			t[0] = []string{"Z"}
			kind := []string{"NotFound", "NoResponse", "TooHigh"}[rng.Intn(3)]
			for h := p1 + 1; h < tgt; h++ {
				t[h] = []string{kind}
			}
			holeTarget = true
		case 13: // fork with holes
			for h := 1; h <= H; h++ {
				if _, ok := in.Blocks["L"+strconv.Itoa(h)]; ok {
					t[h] = []string{"L" + strconv.Itoa(h)}
					if rng.Intn(3) == 0 {
						t[h] = []string{"NotFound"}
					}
				}
			}
			t[0] = t[H]
		}
		return t
	}
	nw := 1 + rng.Intn(3)
	r := c09Run{Prov: map[string][][]string{"p": persona(true)}, Primary: "p", Src: "random"}
	for i := 1; i <= nw; i++ {
		n := "w" + strconv.Itoa(i)
		r.Wits = append(r.Wits, n)
		r.Prov[n] = persona(false)
	}
	r.Cfg = c09Cfg{Period: int64(40 + rng.Intn(100)), Drift: 5, Num: 1, Den: 3, Mode: "skip"}
	if rng.Intn(3) == 0 {
		r.Cfg.Mode = "seq"
	}
	if rng.Intn(5) == 0 {
		r.Cfg.Num, r.Cfg.Den = 2, 3
	}
	// several witnesses return the SAME genuine header against a forged one of the primary, with
	// different abilities to back it: a relay (has only that height), an honest full node, and
	// (with three witnesses) an accomplice returning the primary's forged header
	if !holeTarget && nw >= 2 && H >= 3 && rng.Intn(6) == 0 {
		root = 1
		holeTarget = true // same forced top-height call below
		pt := honest()
		pt[H] = []string{"K"}
		pt[0] = []string{"K"}
		r.Prov["p"] = pt
		relay := make([][]string, H+1)
		for h := 0; h <= H; h++ {
			relay[h] = []string{"NotFound"}
		}
		relay[H] = []string{"R" + strconv.Itoa(H)}
		relay[0] = relay[H]
		roles := [][][]string{relay, honest()}
		if nw == 3 {
			acc := make([][]string, H+1)
			copy(acc, pt)
			roles = append(roles, acc)
		}
		rng.Shuffle(len(roles), func(i, j int) { roles[i], roles[j] = roles[j], roles[i] })
		for i, n := range r.Wits {
			r.Prov[n] = roles[i]
		}
		r.Cfg.Num, r.Cfg.Den = 1, 3
	}
	// forward lunatic attack with a chosen timestamp: the primary (and an accomplice witness) serve
	// a forged top header whose time is one tick before / equal to / one tick after the head of an
	// honest witness that lags one block behind; that witness advances during the wait or not, or
	// reaches that head only at its second look
	if !holeTarget && nw >= 2 && H >= 3 && rng.Intn(6) == 0 {
		root = 1
		holeTarget = true
		fid := []string{"Km", "Ke", "Kp", "Ke"}[rng.Intn(4)]
		pt := honest()
		pt[H] = []string{fid}
		pt[0] = []string{fid}
		r.Prov["p"] = pt
		lag := honest()
		lag[H] = []string{"TooHigh"}
		switch rng.Intn(4) {
		case 0: // advances during the wait
			lag[0] = []string{"R" + strconv.Itoa(H-1), "R" + strconv.Itoa(H)}
			lag[H] = []string{"TooHigh", "R" + strconv.Itoa(H)}
		case 1: // reaches the head only at the second look
			if H >= 3 {
				lag[0] = []string{"R" + strconv.Itoa(H-2), "R" + strconv.Itoa(H-1)}
			}
		default: // stays
			lag[0] = []string{"R" + strconv.Itoa(H-1)}
		}
		acc := make([][]string, H+1)
		copy(acc, pt)
		roles := [][][]string{lag, acc}
		if nw == 3 {
			roles = append(roles, persona(false))
		}
		rng.Shuffle(len(roles), func(i, j int) { roles[i], roles[j] = roles[j], roles[i] })
		for i, n := range r.Wits {
			r.Prov[n] = roles[i]
		}
		r.Cfg.Num, r.Cfg.Den = 1, 3
	}
	r.Root = int64(root)
	if holeTarget {
		r.Cfg.Mode = "skip"
	}
	r.RootHid = "R" + strconv.Itoa(int(r.Root))
	perm := func() []string {
		p := append([]string{}, r.Wits...)
		rng.Shuffle(len(p), func(i, j int) { p[i], p[j] = p[j], p[i] })
		return p
	}
	r.StartSched = perm()
	now := int64(10*int(r.Root) + 1 + rng.Intn(30))
	if holeTarget {
		// the target must be neither from the future nor beyond the trusting period
		now = int64(10*H + 6)
		if now >= int64(10*int(r.Root))+r.Cfg.Period {
			r.Cfg.Period = now - int64(10*int(r.Root)) + 20
		}
		op := "Verify"
		if rng.Intn(3) == 0 {
			op = "Update"
		}
		hh := int64(H)
		if op == "Update" {
			hh = 0
		}
		r.Steps = append(r.Steps, c09Step{Op: op, H: hh, Now: now, Sched: perm()})
	}
	for k := 0; k < 1+rng.Intn(3); k++ {
		if rng.Intn(3) == 0 {
			now += int64(rng.Intn(60))
		}
		if rng.Intn(6) == 0 {
			r.Steps = append(r.Steps, c09Step{Op: "Update", H: 0, Now: now, Sched: perm()})
			continue
		}
		r.Steps = append(r.Steps, c09Step{Op: "Verify", H: int64(1 + rng.Intn(H)), Now: now, Sched: perm()})
	}
	return r
}

// the duplicate-slot forgery D at the top height served by the primary and an accomplice witness
// (the other witnesses honest or silent), verified from height 1 -- built without the shared
// random stream
func c09DupRun(k int, H int) c09Run {
	honest := func() [][]string {
		t := make([][]string, H+1)
		t[0] = []string{"R" + strconv.Itoa(H)}
		for h := 1; h <= H; h++ {
			t[h] = []string{"R" + strconv.Itoa(h)}
		}
		return t
	}
	pt := honest()
	pt[H], pt[0] = []string{"D"}, []string{"D"}
	acc := make([][]string, H+1)
	copy(acc, pt)
	r := c09Run{Prov: map[string][][]string{"p": pt, "w1": acc}, Primary: "p", Wits: []string{"w1"}, Src: "random:dupslots",
		Cfg: c09Cfg{Period: int64(10*H + 40), Drift: 5, Num: 1, Den: 3, Mode: "skip"}, Root: 1, RootHid: "R1"}
	switch k % 3 {
	case 1:
		r.Prov["w2"] = honest()
		r.Wits = []string{"w1", "w2"}
	case 2:
		sil := make([][]string, H+1)
		for h := range sil {
			sil[h] = []string{"NoResponse"}
		}
		r.Prov["w2"] = sil
		r.Wits = []string{"w2", "w1"}
	}
	r.StartSched = append([]string{}, r.Wits...)
	op, hh := "Verify", int64(H)
	if k%2 == 1 {
		op, hh = "Update", 0
	}
	r.Steps = []c09Step{{Op: op, H: hh, Now: int64(10*H + 6), Sched: append([]string{}, r.Wits...)}}
	return r
}

// ---------------------------------------------------------------------------- entry point

func TestVerifC09(t *testing.T) {
	inPath, outDir := os.Getenv("VERIF_IN"), os.Getenv("VERIF_OUT")
	if inPath == "" || outDir == "" {
		t.Skip("VERIF_IN / VERIF_OUT not set")
	}
	seed, _ := strconv.ParseInt(os.Getenv("VERIF_SEED"), 10, 64)
	raw, err := os.ReadFile(inPath)
	if err != nil {
		t.Fatal(err)
	}
	var in c09Input
	if err := json.Unmarshal(raw, &in); err != nil {
		t.Fatal(err)
	}
	world, err := newC09World(in.World)
	if err != nil {
		t.Fatal(err)
	}
	// the facts of the whole world, for the runner's consistency check against the TLA+ world
	wf := newC09Writer(outDir + "/world.ndjson")
	wf.emit(map[string]interface{}{"ev": "World", "blocks": world.facts})
	wf.f.Close()

	wc := newC09Writer(outDir + "/cases.ndjson")
	for i, c := range in.Cases {
		if err := c09ExecCase(wc, world, c); err != nil {
			t.Fatalf("case %d: %v", i, err)
		}
	}
	wc.f.Close()

	wr := newC09Writer(outDir + "/runs.ndjson")
	runNo := 0
	for _, r := range in.Runs {
		runNo++
		c09ExecRun(t, wr, world, runNo, r)
	}
	rng := rand.New(rand.NewSource(seed*7919 + 17))
	for k := 0; k < in.Random; k++ {
		win, H := c09RandomWorld(rng)
		rw, err := newC09World(win)
		if err != nil {
			t.Fatalf("random world %d: %v", k, err)
		}
		for j := 0; j < 4; j++ {
			runNo++
			c09ExecRun(t, wr, rw, runNo, c09RandomRun(rng, win, H))
		}
		runNo++
		c09ExecRun(t, wr, rw, runNo, c09DupRun(k, H))
	}
	wr.f.Close()
	t.Logf("C09 harness: %d case events, %d run events", wc.n, wr.n)
}
