//go:build verif

package rpc

// C20 harness, part 3: case runner, served-proof observer, random driver, test entry.

import (
	"context"
	"encoding/json"
	"fmt"
	"math/rand"
	"os"
	"runtime/debug"
	"strconv"
	"strings"
	"testing"

	"github.com/tendermint/tendermint/light"
	"github.com/tendermint/tendermint/rpc/core"
	ctypes "github.com/tendermint/tendermint/rpc/core/types"
	rpcclient "github.com/tendermint/tendermint/rpc/client"
	"github.com/tendermint/tendermint/types"
)

type c20Writer struct {
	f   *os.File
	enc *json.Encoder
	n   int
}

func newC20Writer(path string) *c20Writer {
	f, err := os.Create(path)
	c20Must(err)
	return &c20Writer{f: f, enc: json.NewEncoder(f)}
}

func (w *c20Writer) emit(v interface{}) {
	c20Must(w.enc.Encode(v))
	w.n++
}

func c20Ptr(v int64) *int { // page / per_page pointers: 0 = not given
	if v == 0 {
		return nil
	}
	x := int(v)
	return &x
}

// run one case on a fresh real client; returns the trace event
func (ch *c20Chain) runCase(run int, src string, kase *c20Case) map[string]interface{} {
	a := kase.A
	ev := map[string]interface{}{"ev": "Call", "run": run, "src": src, "kind": kase.Kind, "a": a, "f": kase.F}
	provider := kase.Kind == "Commit" || kase.Kind == "Validators"
	var sentLB interface{}
	var lie func(int64, *types.LightBlock) *types.LightBlock
	if provider {
		lie = func(h int64, lb *types.LightBlock) *types.LightBlock {
			if h != a.H {
				return lb
			}
			x := c20LBFrom(lb)
			err := ch.falsify(kase.Kind, a, kase.F, func() c20Rec { return ch.lbN(x) },
				func(oh int64) (c20Rec, bool) {
					if oh < 1 || oh > ch.tip {
						return nil, false
					}
					return ch.lbN(c20LBFrom(ch.lightBlock(oh))), true
				}, func(p []string) { ch.cohereLB(x, p) })
			if err != nil {
				panic(c20HarnessErr{err})
			}
			out := x.build()
			sentLB = ch.absLB(out)
			return out
		}
	}
	lc := ch.newLC(lie, a.H, a.LC, a.PP)
	ev["have_before"] = ch.have(lc)
	be := &c20Backend{ch: ch, kase: kase}
	cl := NewClient(be, lc, KeyPathFn(DefaultMerkleKeyPathFn()))
	cl.RegisterOpDecoder(c20AbsentOp, c20AbsOpDecoder)
	ctx := context.Background()
	hp := &a.H // a.H = 0 stands for height = nil, "the latest"
	effH := a.H
	if a.H == 0 {
		hp = nil
		effH = ch.tip
	}
	var got interface{}
	var err error
	func() {
	// a panic inside the client (e.g. types.CanonicalizeBlockID on a malformed block id served by
	// the primary) is an observed outcome of the call, not a harness failure
	defer func() {
		if r := recover(); r != nil {
			if _, mine := r.(c20HarnessErr); mine {
				panic(r)
			}
			err = fmt.Errorf("panic: %v", r)
		}
	}()
	switch kase.Kind {
	case "Block":
		var r, e = cl.Block(ctx, hp)
		if err = e; e == nil {
			got = ch.absBlock(r)
		}
	case "BlockByHash":
		var r, e = cl.BlockByHash(ctx, ch.blockStore.LoadBlockMeta(a.H).BlockID.Hash)
		if err = e; e == nil {
			got = ch.absBlock(r)
		}
	case "Tx":
		var r, e = cl.Tx(ctx, ch.blockStore.LoadBlock(a.H).Data.Txs[a.I].Hash(), true)
		if err = e; e == nil {
			got = ch.absTx(r)
		}
	case "ABCIQuery":
		var r, e = cl.ABCIQueryWithOptions(ctx, c20QueryPath(a.Store), []byte(a.Key), rpcclient.ABCIQueryOptions{Height: a.H, Prove: true})
		if err = e; e == nil {
			got = ch.absQuery(&r.Response)
		}
	case "BlockResults":
		var r, e = cl.BlockResults(ctx, hp)
		if err = e; e == nil {
			got = ch.absResults(r)
		}
	case "ConsensusParams":
		var r, e = cl.ConsensusParams(ctx, &a.H)
		if err = e; e == nil {
			got = c20AbsParamsRes(r)
		}
	case "BlockchainInfo":
		var r, e = cl.BlockchainInfo(ctx, a.Lo, a.Hi)
		if err = e; e == nil {
			got = ch.absInfo(r)
		}
	case "Commit":
		var r, e = cl.Commit(ctx, hp)
		if err = e; e == nil {
			got = ch.absCommitRes(r)
		}
	case "Validators":
		var r, e = cl.Validators(ctx, hp, c20Ptr(a.Page), c20Ptr(a.Per))
		if err = e; e == nil {
			got = ch.absValsRes(r)
		}
	default:
		panic(c20HarnessErr{fmt.Errorf("unknown kind %s", kase.Kind)})
	}
	}()
	if provider {
		if sentLB == nil { // the primary was not asked (height already trusted): nothing was sent
			ev["asked"] = false
			sentLB = ch.absLB(ch.lightBlock(effH))
		} else {
			ev["asked"] = true
		}
		ev["sent"] = sentLB
		ev["changed"] = !c20SameJSON(sentLB, ch.absLB(ch.lightBlock(effH)))
	} else {
		ev["asked"] = be.calls > 0
		ev["sent"] = be.sent
		ev["changed"] = !c20SameJSON(be.sent, be.honest)
	}
	ev["relayed"] = err == nil
	ev["stage"] = c20Stage(err)
	if err != nil {
		ev["err"] = err.Error()
	} else {
		ev["err"] = ""
		ev["got"] = got
	}
	ev["have_after"] = ch.have(lc)
	ev["trusted"] = ch.trusted(lc)
	return ev
}

// one TxSearch(prove = true) over a height range, asked THROUGH the verifying client (a pass-through):
// every returned ResultTx is projected together with the outcome of the real
// TxProof.Validate against the DataHash of the block at the result's OWN height
func (ch *c20Chain) runSearch(run int, src string, a c20Arg) map[string]interface{} {
	ev := map[string]interface{}{"ev": "Search", "run": run, "src": src, "kind": "TxSearch", "a": a}
	be := &c20Backend{ch: ch, kase: &c20Case{Kind: "TxSearch", A: a}}
	cl := NewClient(be, ch.newLC(nil, 0, "fresh", ""), KeyPathFn(DefaultMerkleKeyPathFn()))
	query := fmt.Sprintf("tx.height >= %d AND tx.height <= %d", a.Lo, a.Hi)
	var res *ctypes.ResultTxSearch
	var err error
	func() {
		defer func() {
			if r := recover(); r != nil {
				err = fmt.Errorf("panic: %v", r)
			}
		}()
		res, err = cl.TxSearch(context.Background(), query, true, c20Ptr(a.Page), c20Ptr(a.Per), a.Ord)
	}()
	txs := []interface{}{}
	ev["ok"] = err == nil
	ev["err"] = ""
	ev["total"] = int64(0)
	if err != nil {
		ev["err"] = err.Error()
	} else {
		ev["total"] = int64(res.TotalCount)
		for _, r := range res.Txs {
			valid := false
			if r.Height >= 1 && r.Height <= ch.tip {
				valid = r.Proof.Validate(ch.blockStore.LoadBlockMeta(r.Height).Header.DataHash) == nil
			}
			txs = append(txs, map[string]interface{}{"h": r.Height, "i": int64(r.Index), "tx": c20TxName(r.Tx), "hash": ch.nm.hn(r.Hash),
				"proof": ch.nm.absTxProof(r.Proof), "validate_ok": valid})
		}
	}
	ev["txs"] = txs
	return ev
}

func (ch *c20Chain) randSearch(rng *rand.Rand) c20Arg {
	a := c20Arg{LC: "warm", Ord: []string{"asc", "desc", "desc", ""}[rng.Intn(4)]}
	a.Lo = 1 + rng.Int63n(ch.tip)
	a.Hi = a.Lo + rng.Int63n(ch.tip-a.Lo+1)
	if rng.Intn(2) == 0 {
		a.Lo, a.Hi = 1, ch.tip
	}
	a.Per = []int64{0, 1, 2, 3, 5}[rng.Intn(5)]
	n := int64(0)
	for h := a.Lo; h <= a.Hi; h++ {
		n += int64(len(ch.abs.Blocks[h-1].Txs))
	}
	per := a.Per
	if per == 0 {
		per = 30
	}
	pages := int64(1)
	if n > 0 {
		pages = (n-1)/per + 1
	}
	a.Page = rng.Int63n(pages + 1) // 0 = not given
	return a
}

// the inclusion proofs rpc/core serves (Tx and TxSearch) for every transaction of the chain
func (ch *c20Chain) served(run int, w *c20Writer) {
	for h := int64(1); h <= ch.tip; h++ {
		block := ch.blockStore.LoadBlock(h)
		for i, tx := range block.Data.Txs {
			r, err := core.Tx(c20RCtx, tx.Hash(), true)
			if err != nil {
				w.emit(map[string]interface{}{"ev": "ServedErr", "run": run, "via": "Tx", "h": h, "i": i, "err": err.Error()})
				continue
			}
			w.emit(map[string]interface{}{"ev": "Served", "run": run, "via": "Tx", "h": r.Height, "i": int64(r.Index), "tx": c20TxName(r.Tx),
				"proof": ch.nm.absTxProof(r.Proof), "validate_ok": r.Proof.Validate(block.DataHash) == nil})
		}
		if len(block.Data.Txs) == 0 {
			continue
		}
		one, many := 1, 30
		rs, err := core.TxSearch(c20RCtx, "tx.height="+strconv.FormatInt(h, 10), true, &one, &many, "asc")
		if err != nil {
			w.emit(map[string]interface{}{"ev": "ServedErr", "run": run, "via": "TxSearch", "h": h, "i": 0, "err": err.Error()})
			continue
		}
		for _, r := range rs.Txs {
			w.emit(map[string]interface{}{"ev": "Served", "run": run, "via": "TxSearch", "h": r.Height, "i": int64(r.Index), "tx": c20TxName(r.Tx),
				"proof": ch.nm.absTxProof(r.Proof), "validate_ok": r.Proof.Validate(block.DataHash) == nil})
		}
	}
}

// ---------------------------------------------------------------- random driver (VERIF_SEED)

func c20RandDesc(rng *rand.Rand, k int) *c20Desc {
	d := &c20Desc{ID: "c20rnd" + strconv.Itoa(k),
		Params0: c20Params{MaxBytes: 1048576, MaxGas: -1, Iota: 1000, EvAgeBlocks: 100000, EvAgeDur: 48, EvMaxBytes: 100000,
			PkTypes: []string{"ed25519"}, AppVersion: 0},
		KV0: []c20Store{{Store: "s1", KVs: []c20KV{{"k1", "v0"}, {"k2", "v0"}, {"k3", "v0"}}}, {Store: "s2", KVs: []c20KV{{"k1", "w0"}}}},
		TxInfo: []c20TxInfo{}, Blocks: []c20BlockDesc{}}
	nv := 3 + rng.Intn(3)
	for i := 1; i <= nv; i++ {
		d.Vals0 = append(d.Vals0, c20Val{Addr: "v" + strconv.Itoa(i), Pk: "pk" + strconv.Itoa(i), Power: 10, Prio: 0})
	}
	n := 3 + rng.Intn(4)
	ntx := 0
	valDone, parDone := false, false
	for h := 1; h <= n; h++ {
		b := c20BlockDesc{Txs: []string{}, BBE: []string{}, EBE: []string{}, ValUpd: []c20ValUpd{}, ParUpd: []c20ParUpd{}, Ev: []c20Ev{}}
		if h >= 3 && !valDone && rng.Intn(3) == 0 { // validator set still the genesis one: names and powers are known
			sh := strconv.Itoa(h)
			if rng.Intn(2) == 0 {
				b.Ev = append(b.Ev, c20Ev{Ty: "dup", ID: "dv" + sh, Byz: []string{}, TVP: int64(10 * nv), VPow: 10, Ts: int64(1000 + h - 2), CSigs: []string{}})
			}
			cs := []string{}
			for i := 1; i <= nv; i++ {
				cs = append(cs, "cs"+sh+"_"+strconv.Itoa(i))
			}
			b.Ev = append(b.Ev, c20Ev{Ty: "lca", ID: "cb" + sh, Common: int64(1 + rng.Intn(h-2)), CH: int64(h - 1), Byz: []string{"v1", "v2"}[:1+rng.Intn(2)],
				TVP: int64(10 * nv), Ts: int64(1000 + rng.Intn(3)), CSigs: cs})
		}
		for j := rng.Intn(5); j > 0 && h < n; j-- {
			ntx++
			name := "t" + strconv.Itoa(ntx)
			ti := c20TxInfo{Name: name, Code: int64(rng.Intn(4) / 3), Data: []string{"", "d" + name}[rng.Intn(2)], GW: int64(rng.Intn(4)),
				GU: int64(rng.Intn(3)), Log: []string{"", "l" + name}[rng.Intn(2)], Info: "", Events: []string{}, CS: "", Set: []string{}}
			for e := rng.Intn(3); e > 0; e-- {
				ti.Events = append(ti.Events, "e"+name+strconv.Itoa(e))
			}
			if rng.Intn(3) > 0 {
				st := d.KV0[rng.Intn(len(d.KV0))]
				ti.Set = []string{st.Store, st.KVs[rng.Intn(len(st.KVs))].K, "v" + name}
			}
			d.TxInfo = append(d.TxInfo, ti)
			b.Txs = append(b.Txs, name)
		}
		if rng.Intn(3) == 0 {
			b.BBE = append(b.BBE, "bb"+strconv.Itoa(h))
		}
		if rng.Intn(3) == 0 {
			b.EBE = append(b.EBE, "eb"+strconv.Itoa(h))
		}
		if !valDone && rng.Intn(4) == 0 && h+2 <= n {
			valDone = true
			i := 1 + rng.Intn(nv)
			b.ValUpd = append(b.ValUpd, c20ValUpd{Pk: "pk" + strconv.Itoa(i), Power: int64(11 + rng.Intn(5))})
		}
		if !parDone && rng.Intn(4) == 0 {
			parDone = true
			b.ParUpd = append(b.ParUpd, c20ParUpd{MaxBytes: int64(200000 + rng.Intn(1000)), MaxGas: int64(rng.Intn(1000))})
		}
		d.Blocks = append(d.Blocks, b)
	}
	if len(d.TxInfo) == 0 { // TLC needs a uniformly typed sequence; keep one unused entry
		d.TxInfo = append(d.TxInfo, c20TxInfo{Name: "unused", Events: []string{}, Set: []string{}})
	}
	return d
}

var c20Hows = map[string][]string{
	"idj": {"sjunk"}, "intx": {"inc", "zero", "neg"},
	"hash": {"hjunk", "hbad", "hempty", "other"}, "int": {"inc", "zero", "neg", "other"}, "uint": {"inc", "zero", "other"},
	"id": {"sjunk", "other"},
}

func c20SeqHows(ty string, n int) []string {
	var out []string
	switch ty {
	case "hseq":
		out = []string{"addh"}
	case "sseq":
		out = []string{"adds"}
	case "rseq":
		if n > 0 {
			out = append(out, "dup")
		}
	}
	if n > 0 {
		out = append(out, "drop")
	}
	if n > 1 && ty != "opt" {
		out = append(out, "swap")
	}
	return out
}

// honest root node of a kind, for path enumeration
func (ch *c20Chain) honestRoot(kind string, a c20Arg) (c20Rec, bool) {
	switch kind {
	case "Block", "BlockByHash":
		if r, err := ch.honestBlock(a); err == nil {
			return ch.blockN(r), true
		}
	case "Tx":
		if r, err := ch.honestTx(a); err == nil {
			return ch.txN(r), true
		}
	case "ABCIQuery":
		if r, err := ch.honestQuery(a); err == nil {
			return ch.queryN(&r.Response), true
		}
	case "BlockResults":
		if r, err := ch.honestResults(a); err == nil {
			return ch.resultsN(r), true
		}
	case "ConsensusParams":
		if r, err := ch.honestParams(a); err == nil {
			return ch.paramsN(r), true
		}
	case "BlockchainInfo":
		if r, err := ch.honestInfo(a); err == nil {
			return ch.infoN(r), true
		}
	case "Commit", "Validators":
		if a.H == 0 {
			a.H = ch.tip
		}
		if a.H >= 1 && a.H <= ch.tip {
			return ch.lbN(c20LBFrom(ch.lightBlock(a.H))), true
		}
	}
	return nil, false
}

func (ch *c20Chain) randArgs(rng *rand.Rand, kind string) (c20Arg, bool) {
	a := c20Arg{LC: []string{"fresh", "warm", "top", "top"}[rng.Intn(4)]}
	if (kind == "Commit" || kind == "Validators") && a.LC == "top" && rng.Intn(2) == 0 {
		a.PP = "break"
	}
	switch kind {
	case "Block", "BlockByHash", "ConsensusParams", "Commit", "Validators":
		a.H = 1 + rng.Int63n(ch.tip)
		if kind == "Validators" && rng.Intn(2) == 0 {
			a.Page, a.Per = 1, 2
		}
		if (kind == "Block" || kind == "Commit" || kind == "Validators") && rng.Intn(4) == 0 {
			a.H, a.PP = 0, "" // height = nil
		}
	case "BlockResults":
		a.H = 1 + rng.Int63n(ch.tip-1)
		if rng.Intn(5) == 0 {
			a.H = 0
		}
	case "Tx":
		var hs []int64
		for h := int64(1); h <= ch.tip; h++ {
			if len(ch.abs.Blocks[h-1].Txs) > 0 {
				hs = append(hs, h)
			}
		}
		if len(hs) == 0 {
			return a, false
		}
		a.H = hs[rng.Intn(len(hs))]
		a.I = rng.Int63n(int64(len(ch.abs.Blocks[a.H-1].Txs)))
	case "ABCIQuery":
		a.H = 1 + rng.Int63n(ch.tip-1)
		st := ch.desc.KV0[rng.Intn(len(ch.desc.KV0))]
		a.Store = st.Store
		a.Key = st.KVs[rng.Intn(len(st.KVs))].K
		if rng.Intn(5) == 0 {
			a.Key = "k9"
		}
	case "BlockchainInfo":
		a.Lo = 1 + rng.Int63n(ch.tip)
		a.Hi = a.Lo + rng.Int63n(3)
		if a.Hi > ch.tip {
			a.Hi = ch.tip
		}
	}
	return a, true
}

func (ch *c20Chain) randCase(rng *rand.Rand) (*c20Case, bool) {
	kinds := []string{"Block", "BlockByHash", "Tx", "Tx", "ABCIQuery", "ABCIQuery", "BlockResults", "BlockResults", "ConsensusParams",
		"BlockchainInfo", "Commit", "Validators"}
	kind := kinds[rng.Intn(len(kinds))]
	a, ok := ch.randArgs(rng, kind)
	if !ok {
		return nil, false
	}
	kase := &c20Case{Chain: ch.desc.ID, Kind: kind, A: a, F: c20Lie{Edits: []c20Edit{}}}
	nedits := []int{0, 1, 1, 2, 2, 2}[rng.Intn(6)]
	if nedits == 0 {
		return kase, true
	}
	root, ok := ch.honestRoot(kind, a)
	if !ok {
		return nil, false
	}
	var nodes [][2]interface{}
	c20Walk(root, nil, &nodes)
	used := map[string]bool{}
	for tries := 0; len(kase.F.Edits) < nedits && tries < 300; tries++ {
		nd := nodes[rng.Intn(len(nodes))]
		path, ty := nd[0].([]string), nd[1].(string)
		// edits of one lie touch disjoint fields and never restructure a sequence (paths stay valid)
		var hows []string
		if i := strings.Index(ty, ":"); i >= 0 {
			if len(kase.F.Edits) > 0 || nedits > 1 {
				continue
			}
			n, _ := strconv.Atoi(ty[i+1:])
			hows = c20SeqHows(ty[:i], n)
		} else {
			hows = c20Hows[ty]
		}
		key := strings.Join(path, ".")
		if len(hows) == 0 || used[key] {
			continue
		}
		used[key] = true
		e := c20Edit{Path: path, How: hows[rng.Intn(len(hows))]}
		if e.How == "other" {
			e.OH = 1 + rng.Int63n(ch.tip)
		}
		kase.F.Edits = append(kase.F.Edits, e)
	}
	switch kind {
	case "Block", "BlockByHash", "Tx", "BlockchainInfo", "Commit", "Validators":
		kase.F.Coh = rng.Intn(2) == 0
	}
	return kase, true
}

// ---------------------------------------------------------------- entry point

func TestVerifC20(t *testing.T) {
	inPath, outDir := os.Getenv("VERIF_IN"), os.Getenv("VERIF_OUT")
	if inPath == "" || outDir == "" {
		t.Skip("VERIF_IN / VERIF_OUT not set")
	}
	seed, _ := strconv.ParseInt(os.Getenv("VERIF_SEED"), 10, 64)
	raw, err := os.ReadFile(inPath)
	if err != nil {
		t.Fatal(err)
	}
	var in c20Input
	if err := json.Unmarshal(raw, &in); err != nil {
		t.Fatal(err)
	}
	defer func() {
		if r := recover(); r != nil {
			t.Fatalf("C20 harness died: %v\n%s", r, debug.Stack())
		}
	}()
	w := newC20Writer(outDir + "/c20.ndjson")
	run := 0
	doChain := func(desc *c20Desc, cases []*c20Case) {
		run++
		ch := c20BuildChain(desc)
		defer ch.stop()
		core.SetEnvironment(ch.env)
		w.emit(map[string]interface{}{"ev": "Reset", "run": run, "desc": desc, "chain": ch.abs})
		ch.served(run, w)
		for i, kase := range cases {
			if i > 0 && i%300 == 0 { // same chain, new run: lets TLC validate the chunks in parallel
				run++
				w.emit(map[string]interface{}{"ev": "Reset", "run": run, "desc": desc, "chain": ch.abs})
			}
			if kase.Kind == "TxSearch" {
				w.emit(ch.runSearch(run, "tlc", kase.A))
				continue
			}
			w.emit(ch.runCase(run, "tlc", kase))
		}
	}
	for di := range in.Descs {
		var cases []*c20Case
		for ci := range in.Cases {
			if in.Cases[ci].Chain == in.Descs[di].ID {
				cases = append(cases, &in.Cases[ci])
			}
		}
		doChain(&in.Descs[di], cases)
	}
	// random chains with random single and double lies
	rng := rand.New(rand.NewSource(seed))
	perChain := 60
	for k := 0; k*perChain < in.Random; k++ {
		desc := c20RandDesc(rng, k)
		run++
		ch := c20BuildChain(desc)
		core.SetEnvironment(ch.env)
		w.emit(map[string]interface{}{"ev": "Reset", "run": run, "desc": desc, "chain": ch.abs})
		ch.served(run, w)
		for j := 0; j < perChain; j++ {
			if j%6 == 5 {
				w.emit(ch.runSearch(run, "rand", ch.randSearch(rng)))
				continue
			}
			if kase, ok := ch.randCase(rng); ok {
				w.emit(ch.runCase(run, "rand", kase))
			}
		}
		ch.stop()
	}
	w.f.Close()
	t.Logf("C20 harness: %d events", w.n)
}

var _ = fmt.Sprintf
var _ light.Option

type c20HarnessErr struct{ err error }

func (e c20HarnessErr) String() string { return "harness: " + e.err.Error() }

func c20SameJSON(a, b interface{}) bool {
	x, _ := json.Marshal(a)
	y, _ := json.Marshal(b)
	return string(x) == string(y)
}
