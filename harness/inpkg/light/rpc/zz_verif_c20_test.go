//go:build verif

package rpc

// C20 harness (see /verif/DESIGN.md section 5, C20; spec/TMLightRPC.tla).
//
// A REAL chain is produced with the real block executor, block store, state store and tx
// indexer, driven by a small ABCI application that keeps a two-level Merkle map and answers
// queries with merkle.ValueOp proofs.  A real light/rpc.Client sits on a real light.Client
// (honest or lying primary + honest witness, both reading the real stores) and on a
// lying-capable in-process backend that answers with the actual rpc/core handler functions.
// Every TLC-enumerated case (kind, arguments, lie) is executed; what the backend sent and
// what the client handed to the caller is projected to the abstract values of the spec and
// logged as NDJSON.  The harness makes no judgement: TLC (spec/trace/TMLightRPCTrace.tla) does.

import (
	"bytes"
	"context"
	"crypto/sha256"
	"encoding/binary"
	"encoding/hex"
	"encoding/json"
	"errors"
	"fmt"
	"os"
	"sort"
	"strconv"
	"strings"
	"time"

	dbm "github.com/tendermint/tm-db"

	abci "github.com/tendermint/tendermint/abci/types"
	"github.com/tendermint/tendermint/crypto"
	"github.com/tendermint/tendermint/crypto/ed25519"
	cryptoenc "github.com/tendermint/tendermint/crypto/encoding"
	"github.com/tendermint/tendermint/crypto/merkle"
	"github.com/tendermint/tendermint/crypto/tmhash"
	"github.com/tendermint/tendermint/libs/log"
	mempoolmock "github.com/tendermint/tendermint/mempool/mock"
	tmcrypto "github.com/tendermint/tendermint/proto/tendermint/crypto"
	tmproto "github.com/tendermint/tendermint/proto/tendermint/types"
	"github.com/tendermint/tendermint/proxy"
	"github.com/tendermint/tendermint/rpc/core"
	sm "github.com/tendermint/tendermint/state"
	txkv "github.com/tendermint/tendermint/state/txindex/kv"
	"github.com/tendermint/tendermint/store"
	"github.com/tendermint/tendermint/types"
)

// ---------------------------------------------------------------- abstract values (JSON = TLA+ records)

type c20Bid struct {
	Hash string `json:"hash"`
	Pst  int64  `json:"pst"`
	Psh  string `json:"psh"`
}

type c20Header struct {
	VB     int64  `json:"vb"`
	VA     int64  `json:"va"`
	Chain  string `json:"chain"`
	Height int64  `json:"height"`
	Time   int64  `json:"time"`
	Last   c20Bid `json:"last"`
	LCH    string `json:"lch"`
	DH     string `json:"dh"`
	VH     string `json:"vh"`
	NVH    string `json:"nvh"`
	CH     string `json:"ch"`
	AH     string `json:"ah"`
	LRH    string `json:"lrh"`
	EH     string `json:"eh"`
	Prop   string `json:"prop"`
}

type c20Sig struct {
	Flag int64  `json:"flag"`
	Addr string `json:"addr"`
	Ts   int64  `json:"ts"`
	Sig  string `json:"sig"`
}

type c20Commit struct {
	Height int64    `json:"height"`
	Round  int64    `json:"round"`
	Bid    c20Bid   `json:"bid"`
	Sigs   []c20Sig `json:"sigs"`
}

type c20Val struct {
	Addr  string `json:"addr"`
	Pk    string `json:"pk"`
	Power int64  `json:"power"`
	Prio  int64  `json:"prio"`
}

type c20Result struct {
	Code   int64    `json:"code"`
	Data   string   `json:"data"`
	Log    string   `json:"log"`
	Info   string   `json:"info"`
	GW     int64    `json:"gw"`
	GU     int64    `json:"gu"`
	Events []string `json:"events"`
	CS     string   `json:"cs"`
}

type c20MProof struct {
	Total int64    `json:"total"`
	Index int64    `json:"index"`
	Leaf  string   `json:"leaf"`
	Aunts []string `json:"aunts"`
}

type c20TxProof struct {
	Root  string    `json:"root"`
	Data  string    `json:"data"`
	Proof c20MProof `json:"proof"`
}

type c20Op struct {
	Type  string    `json:"type"`
	Key   string    `json:"key"`
	DKey  string    `json:"dkey"`
	Proof c20MProof `json:"proof"`
	Wit   string    `json:"wit"`
	WitV  string    `json:"witv"`
}

type c20Params struct {
	MaxBytes    int64    `json:"max_bytes"`
	MaxGas      int64    `json:"max_gas"`
	Iota        int64    `json:"iota"`
	EvAgeBlocks int64    `json:"ev_age_blocks"`
	EvAgeDur    int64    `json:"ev_age_dur"` // hours
	EvMaxBytes  int64    `json:"ev_max_bytes"`
	PkTypes     []string `json:"pk_types"`
	AppVersion  int64    `json:"app_version"`
}

type c20KV struct {
	K string `json:"k"`
	V string `json:"v"`
}

type c20Store struct {
	Store string  `json:"store"`
	KVs   []c20KV `json:"kvs"`
}

type c20ValUpd struct {
	Pk    string `json:"pk"`
	Power int64  `json:"power"`
}

type c20ParUpd struct {
	MaxBytes int64 `json:"max_bytes"`
	MaxGas   int64 `json:"max_gas"`
}

// chain description (TMLightRPC!ModelChain input)
type c20TxInfo struct {
	Name   string   `json:"name"`
	Code   int64    `json:"code"`
	Data   string   `json:"data"`
	GW     int64    `json:"gw"`
	GU     int64    `json:"gu"`
	Log    string   `json:"log"`
	Info   string   `json:"info"`
	Events []string `json:"events"`
	CS     string   `json:"cs"`
	Set    []string `json:"set"`
}

type c20BlockDesc struct {
	Txs    []string    `json:"txs"`
	BBE    []string    `json:"bbe"`
	EBE    []string    `json:"ebe"`
	ValUpd []c20ValUpd `json:"valupd"`
	ParUpd []c20ParUpd `json:"parupd"`
	Ev     []c20Ev     `json:"ev"`
}

type c20Desc struct {
	ID      string         `json:"id"`
	Vals0   []c20Val       `json:"vals0"`
	Params0 c20Params      `json:"params0"`
	KV0     []c20Store     `json:"kv0"`
	TxInfo  []c20TxInfo    `json:"txinfo"`
	Blocks  []c20BlockDesc `json:"blocks"`
}

// observed chain (projection of the real stores)
type c20ABlock struct {
	Header     c20Header   `json:"header"`
	Bid        c20Bid      `json:"bid"`
	Txs        []string    `json:"txs"`
	Evidence   []c20Ev     `json:"evidence"`
	LastCommit c20Commit   `json:"last_commit"`
	Commit     c20Commit   `json:"commit"`
	Vals       []c20Val    `json:"vals"`
	Params     c20Params   `json:"params"`
	Results    []c20Result `json:"results"`
	BBE        []string    `json:"bbe"`
	EBE        []string    `json:"ebe"`
	ValUpd     []c20ValUpd `json:"valupd"`
	ParUpd     []c20ParUpd `json:"parupd"`
	KV         []c20Store  `json:"kv"`
	Size       int64       `json:"size"`
}

type c20AChain struct {
	ID     string      `json:"id"`
	Tip    int64       `json:"tip"`
	Blocks []c20ABlock `json:"blocks"`
}

// cases
type c20Arg struct {
	H     int64  `json:"h"`
	I     int64  `json:"i"`
	Store string `json:"store"`
	Key   string `json:"key"`
	Lo    int64  `json:"lo"`
	Hi    int64  `json:"hi"`
	Page  int64  `json:"page"`
	Per   int64  `json:"per"`
	LC    string `json:"lc"`
	Ord   string `json:"ord"` // order_by of a TxSearch
	PP    string `json:"pp"`  // persona of the light client's primary after its first answer ("" | "break")
}

type c20Edit struct {
	Path []string `json:"path"`
	How  string   `json:"how"`
	OH   int64    `json:"oh"`
}

type c20Lie struct {
	Edits []c20Edit `json:"edits"`
	Coh   bool      `json:"coh"`
}

type c20Case struct {
	Chain string `json:"chain"`
	Kind  string `json:"kind"`
	A     c20Arg `json:"a"`
	F     c20Lie `json:"f"`
}

type c20Input struct {
	Descs  []c20Desc `json:"descs"`
	Cases  []c20Case `json:"cases"`
	Random int       `json:"random"`
}

// ---------------------------------------------------------------- symbolic terms (mirror of TMLightRPC.tla / TMMerkle.tla)

func c20I2S(i int64) string { return strconv.FormatInt(i, 10) }

func c20Split(n int) int {
	k := 1
	for 2*k < n {
		k *= 2
	}
	return k
}

func c20SymRoot(items []string) string {
	switch len(items) {
	case 0:
		return "E()"
	case 1:
		return "L(" + items[0] + ")"
	}
	k := c20Split(len(items))
	return "I(" + c20SymRoot(items[:k]) + "," + c20SymRoot(items[k:]) + ")"
}

func c20TxHashT(tx string) string { return "T(" + tx + ")" }
func c20TxHashesT(txs []string) []string {
	out := make([]string, len(txs))
	for i, t := range txs {
		out[i] = c20TxHashT(t)
	}
	return out
}
func c20ResTerm(r c20Result) string {
	return "R(" + c20I2S(r.Code) + "," + r.Data + "," + c20I2S(r.GW) + "," + c20I2S(r.GU) + ")"
}
func c20ValTerm(v c20Val) string { return "VAL(" + v.Pk + "," + c20I2S(v.Power) + ")" }
func c20ParamsHashT(p c20Params) string {
	return "P(" + c20I2S(p.MaxBytes) + "," + c20I2S(p.MaxGas) + ")"
}
func c20SigTerm(s c20Sig) string {
	return "S(" + c20I2S(s.Flag) + "," + s.Addr + "," + c20I2S(s.Ts) + "," + s.Sig + ")"
}
func c20EvTerm(e string) string { return "EV(" + e + ")" }
func c20BidTerm(b c20Bid) string { return b.Hash + "/" + c20I2S(b.Pst) + "/" + b.Psh }
func c20HeaderTerm(h c20Header) string {
	return "H(" + strings.Join([]string{c20I2S(h.VB), c20I2S(h.VA), h.Chain, c20I2S(h.Height), c20I2S(h.Time),
		c20BidTerm(h.Last), h.LCH, h.DH, h.VH, h.NVH, h.CH, h.AH, h.LRH, h.EH, h.Prop}, ";") + ")"
}
func c20KVTerm(k, v string) string { return "K(" + k + ",V(" + v + "))" }

// ---------------------------------------------------------------- naming table: concrete bytes <-> abstract names

type c20Names struct {
	genesis  time.Time
	hashName map[string]string // hex -> term
	ids      map[string]map[string]string // space -> hex -> name
	idBytes  map[string]map[string][]byte // space -> name -> bytes
	hh       map[string]string // header term -> "HH<h>"
	pubkeys  map[string]crypto.PubKey // name -> key
	nfresh   int
}

func newC20Names(genesis time.Time) *c20Names {
	return &c20Names{genesis: genesis, hashName: map[string]string{}, ids: map[string]map[string]string{},
		idBytes: map[string]map[string][]byte{}, hh: map[string]string{}, pubkeys: map[string]crypto.PubKey{}}
}

func (nm *c20Names) reg(term string, h []byte) {
	k := hex.EncodeToString(h)
	if _, ok := nm.hashName[k]; !ok {
		nm.hashName[k] = term
	}
}

// hash bytes -> term; "" empty, "BAD" wrong length, X(..) unknown
func (nm *c20Names) hn(h []byte) string {
	if len(h) == 0 {
		return ""
	}
	if len(h) != tmhash.Size {
		return "BAD"
	}
	if t, ok := nm.hashName[hex.EncodeToString(h)]; ok {
		return t
	}
	return "X(" + hex.EncodeToString(h[:4]) + ")"
}

func (nm *c20Names) hns(hs [][]byte) []string {
	out := make([]string, len(hs))
	for i, h := range hs {
		out[i] = nm.hn(h)
	}
	return out
}

func (nm *c20Names) regID(space, name string, b []byte) {
	if nm.ids[space] == nil {
		nm.ids[space] = map[string]string{}
		nm.idBytes[space] = map[string][]byte{}
	}
	nm.ids[space][hex.EncodeToString(b)] = name
	nm.idBytes[space][name] = b
}

func (nm *c20Names) id(space string, b []byte) string {
	if len(b) == 0 {
		return ""
	}
	if n, ok := nm.ids[space][hex.EncodeToString(b)]; ok {
		return n
	}
	return "?" + hex.EncodeToString(b[:c20min(len(b), 4)])
}

func c20min(a, b int) int {
	if a < b {
		return a
	}
	return b
}

// deterministic junk bytes of a given length, named `name` in `space`
func (nm *c20Names) junk(space, name string, n int) []byte {
	if b, ok := nm.idBytes[space][name]; ok {
		return b
	}
	var out []byte
	for c := 0; len(out) < n; c++ {
		s := sha256.Sum256([]byte(fmt.Sprintf("c20junk/%s/%s/%d", space, name, c)))
		out = append(out, s[:]...)
	}
	out = out[:n]
	nm.regID(space, name, out)
	return out
}

func (nm *c20Names) junkHash() []byte {
	b := nm.junk("hash", "X1", 32)
	nm.reg("X1", b)
	return b
}

func (nm *c20Names) junkPubKey() crypto.PubKey {
	if pk, ok := nm.pubkeys["zz"]; ok {
		return pk
	}
	pk := ed25519.GenPrivKeyFromSecret([]byte("c20junkpk")).PubKey()
	nm.pubkeys["zz"] = pk
	nm.regID("pk", "zz", pk.Bytes())
	return pk
}

func (nm *c20Names) absTime(t time.Time) int64 {
	if t.IsZero() {
		return 0
	}
	return int64(t.Sub(nm.genesis)/time.Second) + 1000
}

func (nm *c20Names) concTime(a int64) time.Time {
	if a == 0 {
		return time.Time{}
	}
	return nm.genesis.Add(time.Duration(a-1000) * time.Second)
}

// register the root of every contiguous range of a Merkle tree over `terms` (what proofs
// of that tree can mention as leaf hash / aunts)
func (nm *c20Names) regTree(terms []string, leaves [][]byte) {
	n := len(terms)
	nm.reg("E()", merkle.HashFromByteSlices(nil))
	for a := 0; a < n; a++ {
		for b := a; b < n; b++ {
			nm.reg(c20SymRoot(terms[a:b+1]), merkle.HashFromByteSlices(leaves[a:b+1]))
		}
	}
}

func (nm *c20Names) headerHashTerm(h c20Header) string {
	if h.VH == "" {
		return ""
	}
	t := c20HeaderTerm(h)
	if s, ok := nm.hh[t]; ok {
		return s
	}
	return t
}

// ---------------------------------------------------------------- projections (concrete -> abstract)

func (nm *c20Names) absBid(b types.BlockID) c20Bid {
	return c20Bid{Hash: nm.hn(b.Hash), Pst: int64(b.PartSetHeader.Total), Psh: nm.hn(b.PartSetHeader.Hash)}
}

func (nm *c20Names) absHeader(h *types.Header) c20Header {
	return c20Header{VB: int64(h.Version.Block), VA: int64(h.Version.App), Chain: h.ChainID, Height: h.Height,
		Time: nm.absTime(h.Time), Last: nm.absBid(h.LastBlockID), LCH: nm.hn(h.LastCommitHash), DH: nm.hn(h.DataHash),
		VH: nm.hn(h.ValidatorsHash), NVH: nm.hn(h.NextValidatorsHash), CH: nm.hn(h.ConsensusHash), AH: nm.hn(h.AppHash),
		LRH: nm.hn(h.LastResultsHash), EH: nm.hn(h.EvidenceHash), Prop: nm.id("addr", h.ProposerAddress)}
}

func (nm *c20Names) absSig(s types.CommitSig) c20Sig {
	return c20Sig{Flag: int64(s.BlockIDFlag), Addr: nm.id("addr", s.ValidatorAddress), Ts: nm.absTime(s.Timestamp),
		Sig: nm.id("sig", s.Signature)}
}

func (nm *c20Names) absCommit(c *types.Commit) c20Commit {
	out := c20Commit{Height: c.Height, Round: int64(c.Round), Bid: nm.absBid(c.BlockID), Sigs: []c20Sig{}}
	for _, s := range c.Signatures {
		out.Sigs = append(out.Sigs, nm.absSig(s))
	}
	return out
}

func (nm *c20Names) absVals(vs []*types.Validator) []c20Val {
	out := []c20Val{}
	for _, v := range vs {
		pk := ""
		if v.PubKey != nil {
			pk = nm.id("pk", v.PubKey.Bytes())
		}
		out = append(out, c20Val{Addr: nm.id("addr", v.Address), Pk: pk, Power: v.VotingPower, Prio: v.ProposerPriority})
	}
	return out
}

func c20EventNames(evs []abci.Event) []string {
	out := []string{}
	for _, e := range evs {
		out = append(out, e.Type)
	}
	return out
}

func c20AbsResult(r *abci.ResponseDeliverTx) c20Result {
	return c20Result{Code: int64(r.Code), Data: string(r.Data), Log: r.Log, Info: r.Info, GW: r.GasWanted, GU: r.GasUsed,
		Events: c20EventNames(r.Events), CS: r.Codespace}
}

func c20TxName(tx []byte) string {
	s := string(tx)
	if strings.HasPrefix(s, "tx:") {
		return s[3:]
	}
	return "?" + hex.EncodeToString(tx[:c20min(len(tx), 4)])
}

func c20TxNames(txs types.Txs) []string {
	out := []string{}
	for _, t := range txs {
		out = append(out, c20TxName(t))
	}
	return out
}

func (nm *c20Names) absMProof(total, index int64, leaf []byte, aunts [][]byte) c20MProof {
	return c20MProof{Total: total, Index: index, Leaf: nm.hn(leaf), Aunts: nm.hns(aunts)}
}

func (nm *c20Names) absTxProof(p types.TxProof) c20TxProof {
	return c20TxProof{Root: nm.hn(p.RootHash), Data: c20TxName(p.Data),
		Proof: nm.absMProof(p.Proof.Total, p.Proof.Index, p.Proof.LeafHash, p.Proof.Aunts)}
}

func c20AbsParams(p tmproto.ConsensusParams) c20Params {
	return c20Params{MaxBytes: p.Block.MaxBytes, MaxGas: p.Block.MaxGas, Iota: p.Block.TimeIotaMs,
		EvAgeBlocks: p.Evidence.MaxAgeNumBlocks, EvAgeDur: int64(p.Evidence.MaxAgeDuration / time.Hour),
		EvMaxBytes: p.Evidence.MaxBytes, PkTypes: append([]string{}, p.Validator.PubKeyTypes...), AppVersion: int64(p.Version.AppVersion)}
}

func (nm *c20Names) absValUpd(us []abci.ValidatorUpdate) []c20ValUpd {
	out := []c20ValUpd{}
	for _, u := range us {
		name := "?"
		if pk, err := cryptoenc.PubKeyFromProto(u.PubKey); err == nil {
			name = nm.id("pk", pk.Bytes())
		}
		out = append(out, c20ValUpd{Pk: name, Power: u.Power})
	}
	return out
}

func c20AbsParUpd(p *abci.ConsensusParams) []c20ParUpd {
	if p == nil || p.Block == nil {
		return []c20ParUpd{}
	}
	return []c20ParUpd{{MaxBytes: p.Block.MaxBytes, MaxGas: p.Block.MaxGas}}
}

// ---------------------------------------------------------------- the application: a two-level Merkle map

func c20EncodeBS(bz *bytes.Buffer, b []byte) {
	var buf [binary.MaxVarintLen64]byte
	n := binary.PutUvarint(buf[:], uint64(len(b)))
	bz.Write(buf[:n])
	bz.Write(b)
}

// the byte string merkle.ValueOp.Run hashes for (key, value)
func c20KVLeaf(key, value []byte) []byte {
	vh := sha256.Sum256(value)
	bz := new(bytes.Buffer)
	c20EncodeBS(bz, key)
	c20EncodeBS(bz, vh[:])
	return bz.Bytes()
}

func c20LeafHash(leaf []byte) []byte { return tmhash.Sum(append([]byte{0}, leaf...)) }

const c20AbsentOp = "c20:absent"

// absence operator: stands for any registered absence op (IAVL's in the SDK).  It yields
// the store root from the proof of a witness leaf and takes NO value argument.
type c20AbsOp struct {
	key   []byte
	DKey  []byte          `json:"dkey"`
	Wit   []byte          `json:"wit"`
	WitV  []byte          `json:"witv"`
	Proof *tmcrypto.Proof `json:"proof"`
}

func (op c20AbsOp) GetKey() []byte { return op.key }
func (op c20AbsOp) ProofOp() tmcrypto.ProofOp {
	bz, _ := json.Marshal(op)
	return tmcrypto.ProofOp{Type: c20AbsentOp, Key: op.key, Data: bz}
}
func (op c20AbsOp) Run(args [][]byte) ([][]byte, error) {
	if len(args) != 0 {
		return nil, fmt.Errorf("expected 0 args, got %d", len(args))
	}
	if bytes.Equal(op.Wit, op.key) {
		return nil, errors.New("witness is the key itself")
	}
	p, err := merkle.ProofFromProto(op.Proof)
	if err != nil {
		return nil, err
	}
	if !bytes.Equal(c20LeafHash(c20KVLeaf(op.Wit, op.WitV)), p.LeafHash) {
		return nil, errors.New("leaf hash mismatch")
	}
	return [][]byte{p.ComputeRootHash()}, nil
}
func c20AbsOpDecoder(pop tmcrypto.ProofOp) (merkle.ProofOperator, error) {
	var op c20AbsOp
	if err := json.Unmarshal(pop.Data, &op); err != nil {
		return nil, err
	}
	if op.Proof == nil {
		return nil, errors.New("no proof")
	}
	if _, err := merkle.ProofFromProto(op.Proof); err != nil {
		return nil, err
	}
	op.key = pop.Key
	return op, nil
}

type c20App struct {
	abci.BaseApplication
	desc     *c20Desc
	txinfo   map[string]c20TxInfo
	pubkeys  map[string]crypto.PubKey
	cur      []c20Store
	versions map[int64][]c20Store
	height   int64
}

func c20CopyStores(s []c20Store) []c20Store {
	out := make([]c20Store, len(s))
	for i, st := range s {
		out[i] = c20Store{Store: st.Store, KVs: append([]c20KV{}, st.KVs...)}
	}
	return out
}

func newC20App(desc *c20Desc, pubkeys map[string]crypto.PubKey) *c20App {
	app := &c20App{desc: desc, txinfo: map[string]c20TxInfo{}, pubkeys: pubkeys, cur: c20CopyStores(desc.KV0),
		versions: map[int64][]c20Store{}}
	for _, ti := range desc.TxInfo {
		app.txinfo[ti.Name] = ti
	}
	app.versions[0] = c20CopyStores(app.cur)
	return app
}

func c20StoreTree(st c20Store) ([]byte, []*merkle.Proof, [][]byte) {
	leaves := make([][]byte, len(st.KVs))
	for i, kv := range st.KVs {
		leaves[i] = c20KVLeaf([]byte(kv.K), []byte(kv.V))
	}
	root, proofs := merkle.ProofsFromByteSlices(leaves)
	return root, proofs, leaves
}

func c20AppTree(sts []c20Store) ([]byte, []*merkle.Proof, [][]byte) {
	leaves := make([][]byte, len(sts))
	for i, st := range sts {
		r, _, _ := c20StoreTree(st)
		leaves[i] = c20KVLeaf([]byte(st.Store), r)
	}
	root, proofs := merkle.ProofsFromByteSlices(leaves)
	return root, proofs, leaves
}

func c20Events(names []string) []abci.Event {
	var out []abci.Event
	for _, n := range names {
		out = append(out, abci.Event{Type: n})
	}
	return out
}

func (app *c20App) BeginBlock(req abci.RequestBeginBlock) abci.ResponseBeginBlock {
	app.height = req.Header.Height
	return abci.ResponseBeginBlock{Events: c20Events(app.desc.Blocks[app.height-1].BBE)}
}

func (app *c20App) DeliverTx(req abci.RequestDeliverTx) abci.ResponseDeliverTx {
	ti, ok := app.txinfo[c20TxName(req.Tx)]
	if !ok {
		return abci.ResponseDeliverTx{Code: 99}
	}
	if ti.Code == 0 && len(ti.Set) == 3 {
		for si := range app.cur {
			if app.cur[si].Store != ti.Set[0] {
				continue
			}
			for ki := range app.cur[si].KVs {
				if app.cur[si].KVs[ki].K == ti.Set[1] {
					app.cur[si].KVs[ki].V = ti.Set[2]
				}
			}
		}
	}
	var data []byte
	if ti.Data != "" {
		data = []byte(ti.Data)
	}
	return abci.ResponseDeliverTx{Code: uint32(ti.Code), Data: data, Log: ti.Log, Info: ti.Info, GasWanted: ti.GW,
		GasUsed: ti.GU, Events: c20Events(ti.Events), Codespace: ti.CS}
}

func (app *c20App) EndBlock(req abci.RequestEndBlock) abci.ResponseEndBlock {
	bd := app.desc.Blocks[req.Height-1]
	res := abci.ResponseEndBlock{Events: c20Events(bd.EBE)}
	for _, u := range bd.ValUpd {
		pk, err := cryptoenc.PubKeyToProto(app.pubkeys[u.Pk])
		if err != nil {
			panic(err)
		}
		res.ValidatorUpdates = append(res.ValidatorUpdates, abci.ValidatorUpdate{PubKey: pk, Power: u.Power})
	}
	if len(bd.ParUpd) > 0 {
		res.ConsensusParamUpdates = &abci.ConsensusParams{Block: &abci.BlockParams{MaxBytes: bd.ParUpd[0].MaxBytes, MaxGas: bd.ParUpd[0].MaxGas}}
	}
	return res
}

func (app *c20App) Commit() abci.ResponseCommit {
	app.versions[app.height] = c20CopyStores(app.cur)
	root, _, _ := c20AppTree(app.cur)
	return abci.ResponseCommit{Data: root}
}

// Query: path "/store/<name>/key", data = key, height = version; always with proof
func (app *c20App) Query(req abci.RequestQuery) abci.ResponseQuery {
	parts := strings.Split(req.Path, "/")
	if len(parts) != 4 || parts[1] != "store" || parts[3] != "key" {
		return abci.ResponseQuery{Code: 1, Log: "bad path"}
	}
	h := req.Height
	if h == 0 {
		h = app.height
	}
	sts, ok := app.versions[h]
	if !ok {
		return abci.ResponseQuery{Code: 2, Log: "no such version"}
	}
	_, sproofs, _ := c20AppTree(sts)
	for si, st := range sts {
		if st.Store != parts[2] {
			continue
		}
		sop := merkle.NewValueOp([]byte(st.Store), sproofs[si]).ProofOp()
		_, kproofs, _ := c20StoreTree(st)
		for ki, kv := range st.KVs {
			if kv.K == string(req.Data) {
				kop := merkle.NewValueOp([]byte(kv.K), kproofs[ki]).ProofOp()
				return abci.ResponseQuery{Key: req.Data, Value: []byte(kv.V), Height: h,
					ProofOps: &tmcrypto.ProofOps{Ops: []tmcrypto.ProofOp{kop, sop}}}
			}
		}
		aop := c20AbsOp{key: req.Data, DKey: req.Data, Wit: []byte(st.KVs[0].K), WitV: []byte(st.KVs[0].V), Proof: kproofs[0].ToProto()}.ProofOp()
		return abci.ResponseQuery{Key: req.Data, Value: nil, Height: h,
			ProofOps: &tmcrypto.ProofOps{Ops: []tmcrypto.ProofOp{aop, sop}}}
	}
	return abci.ResponseQuery{Code: 3, Log: "no such store"}
}

// ---------------------------------------------------------------- the chain, made by the real executor

type c20Chain struct {
	desc       *c20Desc
	nm         *c20Names
	genesis    time.Time
	pvs        map[string]types.MockPV // validator name (v1..) -> key
	app        *c20App
	proxyApp   proxy.AppConns
	stateStore sm.Store
	blockStore *store.BlockStore
	txIndexer  *txkv.TxIndex
	state      sm.State
	tip        int64
	commits    map[int64]*types.Commit
	abs        c20AChain
	junkEv     types.Evidence
	env        *core.Environment
}

func c20Must(err error) {
	if err != nil {
		panic(err)
	}
}

func c20ConcParams(p c20Params) tmproto.ConsensusParams {
	return tmproto.ConsensusParams{
		Block:     tmproto.BlockParams{MaxBytes: p.MaxBytes, MaxGas: p.MaxGas, TimeIotaMs: p.Iota},
		Evidence:  tmproto.EvidenceParams{MaxAgeNumBlocks: p.EvAgeBlocks, MaxAgeDuration: time.Duration(p.EvAgeDur) * time.Hour, MaxBytes: p.EvMaxBytes},
		Validator: tmproto.ValidatorParams{PubKeyTypes: append([]string{}, p.PkTypes...)},
		Version:   tmproto.VersionParams{AppVersion: uint64(p.AppVersion)},
	}
}

func c20BuildChain(desc *c20Desc) *c20Chain {
	genesis := time.Now().Add(-time.Hour).Truncate(time.Second).UTC()
	ch := &c20Chain{desc: desc, nm: newC20Names(genesis), genesis: genesis, pvs: map[string]types.MockPV{},
		commits: map[int64]*types.Commit{}}
	nm := ch.nm
	// keys: 6 deterministic validators, named v1..v6 / pk1..pk6 in ADDRESS order (the
	// order types.ValidatorSet uses among equal powers)
	var pvs []types.MockPV
	for i := 0; i < 6; i++ {
		pvs = append(pvs, types.NewMockPVWithParams(ed25519.GenPrivKeyFromSecret([]byte(fmt.Sprintf("c20/%s/%d", desc.ID, i))), false, false))
	}
	sort.Slice(pvs, func(i, j int) bool {
		a, _ := pvs[i].GetPubKey()
		b, _ := pvs[j].GetPubKey()
		return bytes.Compare(a.Address(), b.Address()) < 0
	})
	pubkeys := map[string]crypto.PubKey{}
	for i, pv := range pvs {
		pk, _ := pv.GetPubKey()
		v, p := "v"+strconv.Itoa(i+1), "pk"+strconv.Itoa(i+1)
		ch.pvs[v] = pv
		pubkeys[p] = pk
		nm.pubkeys[p] = pk
		nm.regID("addr", v, pk.Address())
		nm.regID("pk", p, pk.Bytes())
	}
	nm.reg("E()", merkle.HashFromByteSlices(nil))

	ch.app = newC20App(desc, pubkeys)
	ch.proxyApp = proxy.NewAppConns(proxy.NewLocalClientCreator(ch.app))
	c20Must(ch.proxyApp.Start())
	ch.stateStore = sm.NewStore(dbm.NewMemDB(), sm.StoreOptions{DiscardABCIResponses: false})
	ch.blockStore = store.NewBlockStore(dbm.NewMemDB())
	ch.txIndexer = txkv.NewTxIndex(dbm.NewMemDB())

	appRoot, _, _ := c20AppTree(desc.KV0)
	cp := c20ConcParams(desc.Params0)
	gen := &types.GenesisDoc{ChainID: desc.ID, GenesisTime: genesis, InitialHeight: 1, ConsensusParams: &cp, AppHash: appRoot}
	for _, v := range desc.Vals0 {
		pk := pubkeys[v.Pk]
		gen.Validators = append(gen.Validators, types.GenesisValidator{Address: pk.Address(), PubKey: pk, Power: v.Power, Name: v.Addr})
	}
	state, err := sm.MakeGenesisState(gen)
	c20Must(err)
	c20Must(ch.stateStore.Save(state))
	exec := sm.NewBlockExecutor(ch.stateStore, log.NewNopLogger(), ch.proxyApp.Consensus(), mempoolmock.Mempool{}, sm.EmptyEvidencePool{})

	ch.regApp(desc.KV0)
	lastCommit := types.NewCommit(0, 0, types.BlockID{}, nil)
	for h := int64(1); h <= int64(len(desc.Blocks)); h++ {
		var txs []types.Tx
		for _, n := range desc.Blocks[h-1].Txs {
			txs = append(txs, types.Tx("tx:"+n))
		}
		var evidence []types.Evidence
		for _, e := range desc.Blocks[h-1].Ev {
			evidence = append(evidence, ch.makeEvidence(h, e))
		}
		nm.regEvidence(evidence)
		block, parts := state.MakeBlock(h, txs, lastCommit, evidence, state.Validators.Validators[0].Address)
		blockID := types.BlockID{Hash: block.Hash(), PartSetHeader: parts.Header()}
		vals := state.Validators.Copy()
		newState, _, err := exec.ApplyBlock(state, blockID, block)
		c20Must(err)
		// the commit for block h: every validator of height h signs, round 0, at genesis+h s
		vs := types.NewVoteSet(desc.ID, h, 0, tmproto.PrecommitType, vals)
		for i, val := range vals.Validators {
			pv := ch.pvs[nm.id("addr", val.Address)]
			vote := &types.Vote{ValidatorAddress: val.Address, ValidatorIndex: int32(i), Height: h, Round: 0,
				Type: tmproto.PrecommitType, BlockID: blockID, Timestamp: genesis.Add(time.Duration(h) * time.Second)}
			pb := vote.ToProto()
			c20Must(pv.SignVote(desc.ID, pb))
			vote.Signature = pb.Signature
			nm.regID("sig", "sg"+c20I2S(h)+nm.id("addr", val.Address), vote.Signature)
			if _, err := vs.AddVote(vote); err != nil {
				panic(err)
			}
		}
		commit := vs.MakeCommit()
		ch.blockStore.SaveBlock(block, parts, commit)
		ch.commits[h] = commit
		resps, err := ch.stateStore.LoadABCIResponses(h)
		c20Must(err)
		for i, tx := range txs {
			c20Must(ch.txIndexer.Index(&abci.TxResult{Height: h, Index: uint32(i), Tx: tx, Result: *resps.DeliverTxs[i]}))
		}
		ch.regBlock(block, blockID, vals, newState, commit, resps.DeliverTxs)
		state = newState
		lastCommit = commit
		ch.tip = h
	}
	ch.state = state
	ch.project()
	ch.env = &core.Environment{ProxyAppQuery: ch.proxyApp.Query(), StateStore: ch.stateStore, BlockStore: ch.blockStore,
		TxIndexer: ch.txIndexer, Logger: log.NewNopLogger(), GenDoc: gen}
	return ch
}

func (ch *c20Chain) stop() { _ = ch.proxyApp.Stop() }

func c20ResultLeaves(rs []*abci.ResponseDeliverTx) ([]string, [][]byte) {
	terms, leaves := []string{}, [][]byte{}
	for _, r := range rs {
		terms = append(terms, c20ResTerm(c20AbsResult(r)))
		bz, err := (&abci.ResponseDeliverTx{Code: r.Code, Data: r.Data, GasWanted: r.GasWanted, GasUsed: r.GasUsed}).Marshal()
		c20Must(err)
		leaves = append(leaves, bz)
	}
	return terms, leaves
}

func (nm *c20Names) regTxs(txs types.Txs) {
	terms, leaves := []string{}, [][]byte{}
	for _, tx := range txs {
		nm.reg(c20TxHashT(c20TxName(tx)), tx.Hash())
		terms = append(terms, c20TxHashT(c20TxName(tx)))
		leaves = append(leaves, tx.Hash())
	}
	nm.regTree(terms, leaves)
}

func (nm *c20Names) regResults(rs []*abci.ResponseDeliverTx) {
	terms, leaves := c20ResultLeaves(rs)
	nm.regTree(terms, leaves)
}

func (nm *c20Names) regVals(vs []*types.Validator) {
	terms, leaves := []string{}, [][]byte{}
	for _, a := range nm.absVals(vs) {
		terms = append(terms, c20ValTerm(a))
	}
	for _, v := range vs {
		leaves = append(leaves, v.Bytes())
	}
	nm.regTree(terms, leaves)
}

func (nm *c20Names) regSigs(sigs []types.CommitSig) {
	terms, leaves := []string{}, [][]byte{}
	for _, s := range sigs {
		terms = append(terms, c20SigTerm(nm.absSig(s)))
		bz, err := s.ToProto().Marshal()
		c20Must(err)
		leaves = append(leaves, bz)
	}
	nm.regTree(terms, leaves)
}

func (nm *c20Names) regParams(p tmproto.ConsensusParams) {
	nm.reg(c20ParamsHashT(c20AbsParams(p)), types.HashConsensusParams(p))
}

func (ch *c20Chain) regApp(sts []c20Store) {
	aterms := []string{}
	for _, st := range sts {
		terms := []string{}
		for _, kv := range st.KVs {
			terms = append(terms, c20KVTerm(kv.K, kv.V))
		}
		root, _, leaves := c20StoreTree(st)
		ch.nm.regTree(terms, leaves)
		_ = root
		aterms = append(aterms, c20KVTerm(st.Store, c20SymRoot(terms)))
	}
	_, _, aleaves := c20AppTree(sts)
	ch.nm.regTree(aterms, aleaves)
}

func (ch *c20Chain) regBlock(block *types.Block, blockID types.BlockID, vals *types.ValidatorSet, next sm.State,
	commit *types.Commit, results []*abci.ResponseDeliverTx) {
	nm := ch.nm
	nm.regTxs(block.Data.Txs)
	nm.regResults(results)
	nm.regVals(vals.Validators)
	nm.regVals(next.Validators.Validators)
	nm.regVals(next.NextValidators.Validators)
	nm.regParams(next.ConsensusParams)
	cp, err := ch.stateStore.LoadConsensusParams(block.Height)
	c20Must(err)
	nm.regParams(cp)
	nm.regSigs(block.LastCommit.Signatures)
	nm.regSigs(commit.Signatures)
	ch.regApp(ch.app.versions[block.Height])
	nm.reg("ps"+c20I2S(block.Height), blockID.PartSetHeader.Hash)
	ah := nm.absHeader(&block.Header)
	nm.hh[c20HeaderTerm(ah)] = "HH" + c20I2S(block.Height)
	nm.reg("HH"+c20I2S(block.Height), block.Hash())
}

// projection of the real stores to the spec's chain value
func (ch *c20Chain) project() {
	nm := ch.nm
	ch.abs = c20AChain{ID: ch.desc.ID, Tip: ch.tip}
	for h := int64(1); h <= ch.tip; h++ {
		block := ch.blockStore.LoadBlock(h)
		meta := ch.blockStore.LoadBlockMeta(h)
		vals, err := ch.stateStore.LoadValidators(h)
		c20Must(err)
		cp, err := ch.stateStore.LoadConsensusParams(h)
		c20Must(err)
		resps, err := ch.stateStore.LoadABCIResponses(h)
		c20Must(err)
		b := c20ABlock{Header: nm.absHeader(&block.Header), Bid: nm.absBid(meta.BlockID), Txs: c20TxNames(block.Data.Txs),
			Evidence: nm.absEvidence(block.Evidence.Evidence), LastCommit: nm.absCommit(block.LastCommit),
			Commit: nm.absCommit(ch.commits[h]), Vals: nm.absVals(vals.Validators), Params: c20AbsParams(cp),
			Results: []c20Result{}, BBE: c20EventNames(resps.BeginBlock.Events), EBE: c20EventNames(resps.EndBlock.Events),
			ValUpd: nm.absValUpd(resps.EndBlock.ValidatorUpdates), ParUpd: c20AbsParUpd(resps.EndBlock.ConsensusParamUpdates),
			KV: c20CopyStores(ch.app.versions[h]), Size: int64(meta.BlockSize)}
		for _, r := range resps.DeliverTxs {
			b.Results = append(b.Results, c20AbsResult(r))
		}
		ch.abs.Blocks = append(ch.abs.Blocks, b)
	}
}

func c20pkFrom(k tmcrypto.PublicKey) (crypto.PubKey, error) { return cryptoenc.PubKeyFromProto(k) }
func c20PubKeyToProto(k crypto.PubKey) tmcrypto.PublicKey {
	p, err := cryptoenc.PubKeyToProto(k)
	c20Must(err)
	return p
}

var _ = context.Background
var _ = os.Getenv
