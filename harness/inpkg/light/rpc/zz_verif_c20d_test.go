//go:build verif

package rpc

// C20 harness, part 4: evidence carried by blocks (DuplicateVoteEvidence, LightClientAttackEvidence):
// construction from the chain description, projection, registration of Merkle terms, field tree.

import (
	"bytes"
	"fmt"
	"strings"
	"time"

	"github.com/tendermint/tendermint/crypto/tmhash"
	tmproto "github.com/tendermint/tendermint/proto/tendermint/types"
	"github.com/tendermint/tendermint/types"
)

// abstract evidence (TMLightRPC.tla, one record shape for both kinds)
type c20Ev struct {
	Ty     string   `json:"ty"`     // "dup" | "lca"
	ID     string   `json:"id"`     // dup: the two votes; lca: hash of the conflicting header
	Common int64    `json:"common"` // lca: common height
	CH     int64    `json:"ch"`     // lca: height of the conflicting block
	Byz    []string `json:"byz"`    // lca: byzantine validators (addresses)
	TVP    int64    `json:"tvp"`
	VPow   int64    `json:"vpow"` // dup: validator power
	Ts     int64    `json:"ts"`
	CSigs  []string `json:"csigs"` // lca: signatures of the conflicting commit
}

func c20EvTermOf(e c20Ev) string {
	return "EV(" + strings.Join([]string{e.Ty, e.ID, c20I2S(e.Common), c20I2S(e.CH), strings.Join(e.Byz, ","), c20I2S(e.TVP),
		c20I2S(e.VPow), c20I2S(e.Ts), strings.Join(e.CSigs, ",")}, ";") + ")"
}

// identity of a DuplicateVoteEvidence: its two votes
func c20DupID(d *types.DuplicateVoteEvidence) []byte {
	a, err := d.VoteA.ToProto().Marshal()
	c20Must(err)
	b, err := d.VoteB.ToProto().Marshal()
	c20Must(err)
	return tmhash.Sum(append(a, b...))
}

func (nm *c20Names) absEv(e types.Evidence) c20Ev {
	switch ev := e.(type) {
	case *types.DuplicateVoteEvidence:
		return c20Ev{Ty: "dup", ID: nm.id("evid", c20DupID(ev)), Byz: []string{}, TVP: ev.TotalVotingPower, VPow: ev.ValidatorPower,
			Ts: nm.absTime(ev.Timestamp), CSigs: []string{}}
	case *types.LightClientAttackEvidence:
		out := c20Ev{Ty: "lca", ID: nm.id("evid", ev.ConflictingBlock.Header.Hash()), Common: ev.CommonHeight,
			CH: ev.ConflictingBlock.Header.Height, Byz: []string{}, TVP: ev.TotalVotingPower, Ts: nm.absTime(ev.Timestamp), CSigs: []string{}}
		for _, v := range ev.ByzantineValidators {
			out.Byz = append(out.Byz, nm.id("addr", v.Address))
		}
		for _, s := range ev.ConflictingBlock.Commit.Signatures {
			out.CSigs = append(out.CSigs, nm.id("sig", s.Signature))
		}
		return out
	}
	return c20Ev{Ty: "?", Byz: []string{}, CSigs: []string{}}
}

func (nm *c20Names) absEvidence(evs types.EvidenceList) []c20Ev {
	out := []c20Ev{}
	for _, e := range evs {
		out = append(out, nm.absEv(e))
	}
	return out
}

// Merkle terms of an evidence list: the leaves ARE evidence.Bytes() (types.EvidenceList.Hash)
func (nm *c20Names) regEvidence(evs types.EvidenceList) {
	terms, leaves := []string{}, [][]byte{}
	for _, e := range evs {
		terms = append(terms, c20EvTermOf(nm.absEv(e)))
		leaves = append(leaves, e.Bytes())
	}
	nm.regTree(terms, leaves)
}

func (ch *c20Chain) signVote(valName string, v *types.Vote) {
	pb := v.ToProto()
	c20Must(ch.pvs[valName].SignVote(ch.desc.ID, pb))
	v.Signature = pb.Signature
}

func c20FakeBlockID(tag string) types.BlockID {
	return types.BlockID{Hash: tmhash.Sum([]byte("c20bid/" + tag)), PartSetHeader: types.PartSetHeader{Total: 1, Hash: tmhash.Sum([]byte("c20psh/" + tag))}}
}

// real evidence for block h from its description; every abstract name of the description is
// bound to the concrete bytes created here
func (ch *c20Chain) makeEvidence(h int64, e c20Ev) types.Evidence {
	nm := ch.nm
	switch e.Ty {
	case "dup":
		val := "v1"
		pk, _ := ch.pvs[val].GetPubKey()
		mk := func(tag string) *types.Vote {
			v := &types.Vote{Type: tmproto.PrecommitType, Height: h - 1, Round: 0, BlockID: c20FakeBlockID(e.ID + tag),
				Timestamp: ch.genesis.Add(time.Duration(h-1) * time.Second), ValidatorAddress: pk.Address(), ValidatorIndex: 0}
			ch.signVote(val, v)
			return v
		}
		a, b := mk("/a"), mk("/b")
		if strings.Compare(a.BlockID.Key(), b.BlockID.Key()) >= 0 {
			a, b = b, a
		}
		d := &types.DuplicateVoteEvidence{VoteA: a, VoteB: b, TotalVotingPower: e.TVP, ValidatorPower: e.VPow, Timestamp: nm.concTime(e.Ts)}
		nm.regID("evid", e.ID, c20DupID(d))
		return d
	case "lca":
		hdr := ch.blockStore.LoadBlockMeta(e.CH).Header
		hdr.AppHash = tmhash.Sum([]byte("c20conflict/" + e.ID))
		vals, err := ch.stateStore.LoadValidators(e.CH)
		c20Must(err)
		bid := types.BlockID{Hash: hdr.Hash(), PartSetHeader: types.PartSetHeader{Total: 1, Hash: tmhash.Sum([]byte("c20cpsh/" + e.ID))}}
		sigs := []types.CommitSig{}
		for i, v := range vals.Validators {
			vote := &types.Vote{Type: tmproto.PrecommitType, Height: e.CH, Round: 0, BlockID: bid,
				Timestamp: ch.genesis.Add(time.Duration(e.CH) * time.Second), ValidatorAddress: v.Address, ValidatorIndex: int32(i)}
			ch.signVote(nm.id("addr", v.Address), vote)
			if i < len(e.CSigs) {
				nm.regID("sig", e.CSigs[i], vote.Signature)
			}
			sigs = append(sigs, vote.CommitSig())
		}
		if len(sigs) != len(e.CSigs) {
			panic(c20HarnessErr{fmt.Errorf("evidence %s: %d conflicting signatures described, %d validators at height %d", e.ID, len(e.CSigs), len(sigs), e.CH)})
		}
		cvals, err := ch.stateStore.LoadValidators(e.Common)
		c20Must(err)
		var byz []*types.Validator
		for _, name := range e.Byz {
			for _, v := range cvals.Validators {
				if nm.id("addr", v.Address) == name {
					byz = append(byz, v.Copy())
				}
			}
		}
		nm.regID("evid", e.ID, hdr.Hash())
		return &types.LightClientAttackEvidence{
			ConflictingBlock:    &types.LightBlock{SignedHeader: &types.SignedHeader{Header: &hdr, Commit: types.NewCommit(e.CH, 0, bid, sigs)}, ValidatorSet: vals},
			CommonHeight:        e.Common, ByzantineValidators: byz, TotalVotingPower: e.TVP, Timestamp: nm.concTime(e.Ts)}
	}
	panic(c20HarnessErr{fmt.Errorf("unknown evidence type %q", e.Ty)})
}

// ---- field tree of one piece of evidence (editing works on private copies)

func (ch *c20Chain) evN(evs *types.EvidenceList, i int) c20Rec {
	nm := ch.nm
	switch ev := (*evs)[i].(type) {
	case *types.DuplicateVoteEvidence:
		d := *ev
		(*evs)[i] = &d
		type votes struct{ a, b *types.Vote }
		return c20Rec{
			"id": c20Leaf{ty: "idj", get: func() interface{} { return votes{d.VoteA, d.VoteB} },
				set: func(v interface{}) { d.VoteA, d.VoteB = v.(votes).a, v.(votes).b },
				junk: func() interface{} {
					b := *d.VoteB
					b.Signature = nm.junk("sig", "zz", 64)
					x := types.DuplicateVoteEvidence{VoteA: d.VoteA, VoteB: &b}
					nm.regID("evid", "zz", c20DupID(&x))
					return votes{d.VoteA, &b}
				}},
			"tvp": c20X(c20I64L(&d.TotalVotingPower)), "vpow": c20X(c20I64L(&d.ValidatorPower)), "ts": c20X(nm.timeL(&d.Timestamp)),
		}
	case *types.LightClientAttackEvidence:
		l := *ev
		(*evs)[i] = &l
		cb := *l.ConflictingBlock
		sh := *cb.SignedHeader
		hdr := *sh.Header
		cm := *sh.Commit
		commit := types.NewCommit(cm.Height, cm.Round, cm.BlockID, append([]types.CommitSig{}, cm.Signatures...))
		sh.Header, sh.Commit = &hdr, commit
		cb.SignedHeader = &sh
		l.ConflictingBlock = &cb
		l.ByzantineValidators = append([]*types.Validator{}, l.ByzantineValidators...)
		sigs := &commit.Signatures
		return c20Rec{
			"id": c20Leaf{ty: "idj", get: func() interface{} { return l.ConflictingBlock },
				set: func(v interface{}) { l.ConflictingBlock = v.(*types.LightBlock) },
				junk: func() interface{} {
					h2 := hdr
					h2.AppHash = nm.junkHash()
					c2 := types.NewCommit(commit.Height, commit.Round, types.BlockID{Hash: h2.Hash(), PartSetHeader: commit.BlockID.PartSetHeader}, *sigs)
					nm.regID("evid", "zz", h2.Hash())
					return &types.LightBlock{SignedHeader: &types.SignedHeader{Header: &h2, Commit: c2}, ValidatorSet: cb.ValidatorSet}
				}},
			"common": c20X(c20I64L(&l.CommonHeight)), "tvp": c20X(c20I64L(&l.TotalVotingPower)), "ts": c20X(nm.timeL(&l.Timestamp)),
			"byz": c20SeqN{ty: "sseq", n: func() int { return len(l.ByzantineValidators) },
				drop: func() { l.ByzantineValidators = l.ByzantineValidators[:len(l.ByzantineValidators)-1] },
				add: func() {
					l.ByzantineValidators = append(l.ByzantineValidators,
						&types.Validator{Address: nm.junk("addr", "zz", 20), PubKey: nm.junkPubKey(), VotingPower: 1})
				},
				swap: func() {
					l.ByzantineValidators[0], l.ByzantineValidators[1] = l.ByzantineValidators[1], l.ByzantineValidators[0]
				}},
			"csigs": c20SeqN{ty: "sseq", n: func() int { return len(*sigs) },
				drop: func() { *sigs = (*sigs)[:len(*sigs)-1] },
				add: func() {
					*sigs = append(*sigs, types.CommitSig{BlockIDFlag: types.BlockIDFlagCommit, ValidatorAddress: nm.junk("addr", "zz", 20),
						Timestamp: (*sigs)[0].Timestamp, Signature: nm.junk("sig", "zz", 64)})
				},
				swap: func() { (*sigs)[0], (*sigs)[1] = (*sigs)[1], (*sigs)[0] }},
		}
	}
	return c20Rec{}
}

func c20X(l c20Leaf) c20Leaf { l.ty = "intx"; return l }

var _ = bytes.Equal
