//go:build verif

package rpc

// C20 harness, part 2: light-client providers, lying backend, field-level falsifier.

import (
	"context"
	"bytes"
	"encoding/json"
	"fmt"
	"strconv"
	"strings"
	"time"

	dbm "github.com/tendermint/tm-db"

	abci "github.com/tendermint/tendermint/abci/types"
	"github.com/tendermint/tendermint/crypto"
	"github.com/tendermint/tendermint/crypto/ed25519"
	"github.com/tendermint/tendermint/crypto/merkle"
	tmbytes "github.com/tendermint/tendermint/libs/bytes"
	"github.com/tendermint/tendermint/libs/log"
	"github.com/tendermint/tendermint/light"
	"github.com/tendermint/tendermint/light/provider"
	dbs "github.com/tendermint/tendermint/light/store/db"
	tmcrypto "github.com/tendermint/tendermint/proto/tendermint/crypto"
	tmproto "github.com/tendermint/tendermint/proto/tendermint/types"
	rpcclient "github.com/tendermint/tendermint/rpc/client"
	"github.com/tendermint/tendermint/rpc/core"
	ctypes "github.com/tendermint/tendermint/rpc/core/types"
	rpctypes "github.com/tendermint/tendermint/rpc/jsonrpc/types"
	"github.com/tendermint/tendermint/types"
)

// ---------------------------------------------------------------- light-client provider reading the real stores

// The provider stands for light/provider/http in front of a (possibly lying) node: what the node
// serves is validated the way http.LightBlock does (requested height, LightBlock.ValidateBasic) and
// a bad block is answered with ErrBadLightBlock.
//   lie     : applied to the node's FIRST answer for height lieH
//   persona : "break" = after that first answer the node serves, for height tip-1, a well-formed
//             header that does not chain to the trusted one (backwards verification fails there)
type c20Provider struct {
	ch      *c20Chain
	lie     func(h int64, lb *types.LightBlock) *types.LightBlock
	lieH    int64
	persona string
	served  int // answers given for lieH
	calls   int
}

var _ provider.Provider = (*c20Provider)(nil)

func (p *c20Provider) ChainID() string { return p.ch.desc.ID }

func (ch *c20Chain) lightBlock(h int64) *types.LightBlock {
	meta := ch.blockStore.LoadBlockMeta(h)
	vals, err := ch.stateStore.LoadValidators(h)
	c20Must(err)
	hdr := meta.Header
	c := ch.commits[h]
	commit := types.NewCommit(c.Height, c.Round, c.BlockID, append([]types.CommitSig{}, c.Signatures...))
	return &types.LightBlock{SignedHeader: &types.SignedHeader{Header: &hdr, Commit: commit}, ValidatorSet: vals}
}

func (p *c20Provider) LightBlock(_ context.Context, height int64) (*types.LightBlock, error) {
	p.calls++
	reqH := height // 0 = "the latest"
	if height == 0 {
		height = p.ch.tip
	}
	if height > p.ch.tip {
		return nil, provider.ErrHeightTooHigh
	}
	if height < 1 {
		return nil, provider.ErrLightBlockNotFound
	}
	lb := p.ch.lightBlock(height)
	switch {
	case p.lie != nil && reqH == p.lieH && p.served == 0:
		p.served++
		lb = p.lie(reqH, lb)
	case p.persona == "break" && p.lie != nil && height == p.ch.tip-1:
		// a header that is well formed but is not the parent of the trusted header
		x := c20LBFrom(lb)
		x.hdr.AppHash = p.ch.nm.junkHash()
		x.commit.BlockID.Hash = x.hdr.Hash()
		lb = x.build()
	}
	if reqH != 0 && lb.Height != height {
		return nil, provider.ErrBadLightBlock{Reason: fmt.Errorf("height %d responded doesn't match height %d requested", lb.Height, height)}
	}
	if err := lb.ValidateBasic(p.ch.desc.ID); err != nil {
		return nil, provider.ErrBadLightBlock{Reason: err}
	}
	return lb, nil
}

func (p *c20Provider) ReportEvidence(context.Context, types.Evidence) error { return nil }

// mode: "fresh" trusts height 1, "warm" every height, "top" only the tip (lower heights go backwards)
func (ch *c20Chain) newLC(lie func(int64, *types.LightBlock) *types.LightBlock, lieH int64, mode, persona string) *light.Client {
	th := int64(1)
	if mode == "top" {
		th = ch.tip
	}
	hdr := ch.blockStore.LoadBlockMeta(th).Header
	primary := &c20Provider{ch: ch}
	lc, err := light.NewClient(context.Background(), ch.desc.ID,
		light.TrustOptions{Period: 1000 * time.Hour, Height: th, Hash: hdr.Hash()},
		primary, []provider.Provider{&c20Provider{ch: ch}, &c20Provider{ch: ch}}, dbs.New(dbm.NewMemDB(), ""),
		light.Logger(log.NewNopLogger()), light.MaxRetryAttempts(1))
	c20Must(err)
	if mode == "warm" {
		for h := int64(2); h <= ch.tip; h++ {
			_, err := lc.VerifyLightBlockAtHeight(context.Background(), h, time.Now())
			c20Must(err)
		}
	}
	primary.lie, primary.lieH, primary.persona = lie, lieH, persona
	return lc
}

func (ch *c20Chain) have(lc *light.Client) []int64 {
	out := []int64{}
	for h := int64(1); h <= ch.tip+1; h++ {
		if _, err := lc.TrustedLightBlock(h); err == nil {
			out = append(out, h)
		}
	}
	return out
}

type c20Trusted struct {
	H    int64  `json:"h"`
	Hash string `json:"hash"`
}

func (ch *c20Chain) trusted(lc *light.Client) []c20Trusted {
	out := []c20Trusted{}
	for h := int64(1); h <= ch.tip+1; h++ {
		if lb, err := lc.TrustedLightBlock(h); err == nil {
			out = append(out, c20Trusted{H: h, Hash: ch.nm.hn(lb.Hash())})
		}
	}
	return out
}

// ---------------------------------------------------------------- generic field tree over concrete response objects

type c20Leaf struct {
	ty   string // hash | int | uint | id | bool
	get  func() interface{}
	set  func(interface{})
	junk func() interface{}
}

type c20SeqN struct {
	ty   string // hseq | sseq | rseq | opt
	n    func() int
	at   func(i int) interface{}
	drop func()
	dup  func()
	swap func()
	add  func()
	forge func()
}

type c20Rec map[string]interface{}

func c20HashL(p *[]byte) c20Leaf {
	return c20Leaf{ty: "hash", get: func() interface{} { return *p }, set: func(v interface{}) { *p = c20Bytes(v) }}
}
func c20HexL(p *tmbytes.HexBytes) c20Leaf { return c20HashL((*[]byte)(p)) }

func c20Bytes(v interface{}) []byte {
	switch x := v.(type) {
	case nil:
		return nil
	case []byte:
		return x
	case tmbytes.HexBytes:
		return []byte(x)
	case types.Tx:
		return []byte(x)
	}
	panic(fmt.Sprintf("c20Bytes: %T", v))
}

func c20IntL(ty string, get func() int64, set func(int64)) c20Leaf {
	return c20Leaf{ty: ty, get: func() interface{} { return get() }, set: func(v interface{}) { set(v.(int64)) }}
}
func c20I64L(p *int64) c20Leaf {
	return c20IntL("int", func() int64 { return *p }, func(v int64) { *p = v })
}
func c20StrL(p *string) c20Leaf {
	return c20Leaf{ty: "id", get: func() interface{} { return *p }, set: func(v interface{}) { *p = v.(string) },
		junk: func() interface{} { return "zz" }}
}

// literal byte strings (keys, values, result data): the abstract name is the string itself
func c20LitL(p *[]byte) c20Leaf {
	return c20Leaf{ty: "id", get: func() interface{} { return *p }, set: func(v interface{}) { *p = c20Bytes(v) },
		junk: func() interface{} { return []byte("zz") }}
}
func c20TxL(p *types.Tx) c20Leaf {
	return c20Leaf{ty: "id", get: func() interface{} { return []byte(*p) }, set: func(v interface{}) { *p = types.Tx(c20Bytes(v)) },
		junk: func() interface{} { return []byte("tx:zz") }}
}

func (nm *c20Names) addrL(p *[]byte) c20Leaf {
	return c20Leaf{ty: "id", get: func() interface{} { return *p }, set: func(v interface{}) { *p = c20Bytes(v) },
		junk: func() interface{} { return nm.junk("addr", "zz", 20) }}
}

func (nm *c20Names) timeL(p *time.Time) c20Leaf {
	return c20IntL("int", func() int64 { return nm.absTime(*p) }, func(v int64) { *p = nm.concTime(v) })
}

func (nm *c20Names) bidN(b *types.BlockID) c20Rec {
	return c20Rec{"hash": c20HexL(&b.Hash), "psh": c20HexL(&b.PartSetHeader.Hash),
		"pst": c20IntL("uint", func() int64 { return int64(b.PartSetHeader.Total) }, func(v int64) { b.PartSetHeader.Total = uint32(v) })}
}

func (nm *c20Names) headerN(h *types.Header) c20Rec {
	return c20Rec{
		"vb":     c20IntL("uint", func() int64 { return int64(h.Version.Block) }, func(v int64) { h.Version.Block = uint64(v) }),
		"va":     c20IntL("uint", func() int64 { return int64(h.Version.App) }, func(v int64) { h.Version.App = uint64(v) }),
		"chain":  c20StrL(&h.ChainID),
		"height": c20I64L(&h.Height),
		"time":   nm.timeL(&h.Time),
		"last":   nm.bidN(&h.LastBlockID),
		"lch":    c20HexL(&h.LastCommitHash), "dh": c20HexL(&h.DataHash), "vh": c20HexL(&h.ValidatorsHash),
		"nvh": c20HexL(&h.NextValidatorsHash), "ch": c20HexL(&h.ConsensusHash), "ah": c20HexL(&h.AppHash),
		"lrh": c20HexL(&h.LastResultsHash), "eh": c20HexL(&h.EvidenceHash),
		"prop": nm.addrL((*[]byte)(&h.ProposerAddress)),
	}
}

func (nm *c20Names) sigN(s *types.CommitSig) c20Rec {
	return c20Rec{
		"flag": c20IntL("uint", func() int64 { return int64(s.BlockIDFlag) }, func(v int64) { s.BlockIDFlag = types.BlockIDFlag(v) }),
		"addr": nm.addrL((*[]byte)(&s.ValidatorAddress)),
		"ts":   nm.timeL(&s.Timestamp),
		"sig": c20Leaf{ty: "id", get: func() interface{} { return s.Signature }, set: func(v interface{}) { s.Signature = c20Bytes(v) },
			junk: func() interface{} { return nm.junk("sig", "zz", 64) }},
	}
}

func (nm *c20Names) commitN(c *types.Commit) c20Rec {
	c.Signatures = append([]types.CommitSig{}, c.Signatures...)
	return c20Rec{
		"height": c20I64L(&c.Height),
		"round":  c20IntL("int", func() int64 { return int64(c.Round) }, func(v int64) { c.Round = int32(v) }),
		"bid":    nm.bidN(&c.BlockID),
		"sigs": c20SeqN{ty: "rseq", n: func() int { return len(c.Signatures) },
			at:   func(i int) interface{} { return nm.sigN(&c.Signatures[i]) },
			drop: func() { c.Signatures = c.Signatures[:len(c.Signatures)-1] },
			dup:  func() { c.Signatures = append(c.Signatures, c.Signatures[len(c.Signatures)-1]) },
			swap: func() { c.Signatures[0], c.Signatures[1] = c.Signatures[1], c.Signatures[0] }},
	}
}

func c20EventsN(p *[]abci.Event) c20SeqN {
	*p = append([]abci.Event{}, *p...)
	return c20SeqN{ty: "sseq", n: func() int { return len(*p) },
		drop: func() { *p = (*p)[:len(*p)-1] },
		add:  func() { *p = append(*p, abci.Event{Type: "zz"}) },
		swap: func() { (*p)[0], (*p)[1] = (*p)[1], (*p)[0] }}
}

func c20ResultN(r *abci.ResponseDeliverTx) c20Rec {
	return c20Rec{
		"code": c20IntL("uint", func() int64 { return int64(r.Code) }, func(v int64) { r.Code = uint32(v) }),
		"data": c20LitL(&r.Data), "log": c20StrL(&r.Log), "info": c20StrL(&r.Info), "cs": c20StrL(&r.Codespace),
		"gw": c20I64L(&r.GasWanted), "gu": c20I64L(&r.GasUsed), "events": c20EventsN(&r.Events),
	}
}

func (nm *c20Names) hashSeqN(p *[][]byte) c20SeqN {
	*p = append([][]byte{}, *p...)
	return c20SeqN{ty: "hseq", n: func() int { return len(*p) },
		drop: func() { *p = (*p)[:len(*p)-1] },
		add:  func() { *p = append(*p, nm.junkHash()) },
		swap: func() { (*p)[0], (*p)[1] = (*p)[1], (*p)[0] }}
}

func (nm *c20Names) mproofN(total, index *int64, leaf *[]byte, aunts *[][]byte) c20Rec {
	return c20Rec{"total": c20I64L(total), "index": c20I64L(index), "leaf": c20HashL(leaf), "aunts": nm.hashSeqN(aunts)}
}

func (nm *c20Names) valN(v *types.Validator) c20Rec {
	return c20Rec{
		"addr": nm.addrL((*[]byte)(&v.Address)),
		"pk": c20Leaf{ty: "id", get: func() interface{} { return v.PubKey }, set: func(x interface{}) { v.PubKey = x.(crypto.PubKey) },
			junk: func() interface{} { return nm.junkPubKey() }},
		"power": c20I64L(&v.VotingPower), "prio": c20I64L(&v.ProposerPriority),
	}
}

// proof op: Data is decoded, edited and re-encoded
type c20OpData struct {
	DKey  []byte
	Wit   []byte
	WitV  []byte
	Proof tmcrypto.Proof
}

func c20LoadOp(op *tmcrypto.ProofOp) c20OpData {
	var d c20OpData
	if len(op.Data) > 0 && op.Data[0] == '{' {
		var a c20AbsOp
		c20Must(json.Unmarshal(op.Data, &a))
		d.DKey, d.Wit, d.WitV = a.DKey, a.Wit, a.WitV
		if a.Proof != nil {
			d.Proof = *a.Proof
		}
		return d
	}
	var v tmcrypto.ValueOp
	if err := v.Unmarshal(op.Data); err == nil {
		d.DKey = v.Key
		if v.Proof != nil {
			d.Proof = *v.Proof
		}
	}
	return d
}

func c20StoreOp(op *tmcrypto.ProofOp, d c20OpData, absent bool) {
	if absent {
		bz, err := json.Marshal(c20AbsOp{DKey: d.DKey, Wit: d.Wit, WitV: d.WitV, Proof: &d.Proof})
		c20Must(err)
		op.Data = bz
		return
	}
	bz, err := (&tmcrypto.ValueOp{Key: d.DKey, Proof: &d.Proof}).Marshal()
	c20Must(err)
	op.Data = bz
}

func (nm *c20Names) opN(op *tmcrypto.ProofOp) c20Rec {
	absent := len(op.Data) > 0 && op.Data[0] == '{'
	d := c20LoadOp(op)
	wrap := func(l c20Leaf) c20Leaf {
		set := l.set
		l.set = func(v interface{}) { set(v); c20StoreOp(op, d, absent) }
		return l
	}
	pr := nm.mproofN(&d.Proof.Total, &d.Proof.Index, &d.Proof.LeafHash, &d.Proof.Aunts)
	au := pr["aunts"].(c20SeqN)
	for _, f := range []*func(){&au.drop, &au.add, &au.swap} {
		g := *f
		*f = func() { g(); c20StoreOp(op, d, absent) }
	}
	return c20Rec{"type": c20StrL(&op.Type), "key": c20LitL(&op.Key), "dkey": wrap(c20LitL(&d.DKey)),
		"proof": c20Rec{"total": wrap(pr["total"].(c20Leaf)), "index": wrap(pr["index"].(c20Leaf)),
			"leaf": wrap(pr["leaf"].(c20Leaf)), "aunts": au}}
}

func c20ParamsN(p *tmproto.ConsensusParams) c20Rec {
	p.Validator.PubKeyTypes = append([]string{}, p.Validator.PubKeyTypes...)
	kt := &p.Validator.PubKeyTypes
	return c20Rec{
		"max_bytes": c20I64L(&p.Block.MaxBytes), "max_gas": c20I64L(&p.Block.MaxGas), "iota": c20I64L(&p.Block.TimeIotaMs),
		"ev_age_blocks": c20I64L(&p.Evidence.MaxAgeNumBlocks),
		"ev_age_dur": c20IntL("int", func() int64 { return int64(p.Evidence.MaxAgeDuration / time.Hour) },
			func(v int64) { p.Evidence.MaxAgeDuration = time.Duration(v) * time.Hour }),
		"ev_max_bytes": c20I64L(&p.Evidence.MaxBytes),
		"app_version": c20IntL("uint", func() int64 { return int64(p.Version.AppVersion) }, func(v int64) { p.Version.AppVersion = uint64(v) }),
		"pk_types": c20SeqN{ty: "sseq", n: func() int { return len(*kt) },
			drop: func() { *kt = (*kt)[:len(*kt)-1] }, add: func() { *kt = append(*kt, "zz") },
			swap: func() { (*kt)[0], (*kt)[1] = (*kt)[1], (*kt)[0] }},
	}
}

// ---- roots per kind

func (ch *c20Chain) junkEvidence() types.Evidence {
	if ch.junkEv == nil {
		ch.junkEv = types.NewMockDuplicateVoteEvidence(1, ch.genesis, ch.desc.ID)
		ch.nm.regID("evid", "zz", c20DupID(ch.junkEv.(*types.DuplicateVoteEvidence)))
	}
	return ch.junkEv
}

func (ch *c20Chain) blockN(res *ctypes.ResultBlock) c20Rec {
	nm := ch.nm
	b := res.Block
	b.Data.Txs = append(types.Txs{}, b.Data.Txs...)
	b.Evidence.Evidence = append(types.EvidenceList{}, b.Evidence.Evidence...)
	txs, evs := &b.Data.Txs, &b.Evidence.Evidence
	return c20Rec{"block_id": nm.bidN(&res.BlockID), "block": c20Rec{
		"header": nm.headerN(&b.Header),
		"txs": c20SeqN{ty: "sseq", n: func() int { return len(*txs) },
			at:   func(i int) interface{} { return c20TxL(&(*txs)[i]) },
			drop: func() { *txs = (*txs)[:len(*txs)-1] }, add: func() { *txs = append(*txs, types.Tx("tx:zz")) },
			swap: func() { (*txs)[0], (*txs)[1] = (*txs)[1], (*txs)[0] }},
		"evidence": c20SeqN{ty: "eseq", n: func() int { return len(*evs) },
			at:   func(i int) interface{} { return ch.evN(evs, i) },
			drop: func() { *evs = (*evs)[:len(*evs)-1] }, add: func() { *evs = append(*evs, ch.junkEvidence()) },
			swap: func() { (*evs)[0], (*evs)[1] = (*evs)[1], (*evs)[0] }},
		"last_commit": nm.commitN(b.LastCommit),
	}}
}

func (ch *c20Chain) txN(res *ctypes.ResultTx) c20Rec {
	nm := ch.nm
	return c20Rec{"hash": c20HexL(&res.Hash), "height": c20I64L(&res.Height),
		"index":  c20IntL("uint", func() int64 { return int64(res.Index) }, func(v int64) { res.Index = uint32(v) }),
		"tx":     c20TxL(&res.Tx),
		"result": c20ResultN(&res.TxResult),
		"proof": c20Rec{"root": c20HexL(&res.Proof.RootHash), "data": c20TxL(&res.Proof.Data),
			"proof": nm.mproofN(&res.Proof.Proof.Total, &res.Proof.Proof.Index, &res.Proof.Proof.LeafHash, &res.Proof.Proof.Aunts)}}
}

func (ch *c20Chain) queryN(r *abci.ResponseQuery) c20Rec {
	nm := ch.nm
	if r.ProofOps == nil {
		r.ProofOps = &tmcrypto.ProofOps{}
	}
	ops := &r.ProofOps.Ops
	*ops = append([]tmcrypto.ProofOp{}, *ops...)
	return c20Rec{
		"code": c20IntL("uint", func() int64 { return int64(r.Code) }, func(v int64) { r.Code = uint32(v) }),
		"log":  c20StrL(&r.Log), "info": c20StrL(&r.Info), "index": c20I64L(&r.Index), "key": c20LitL(&r.Key),
		"value": c20LitL(&r.Value), "height": c20I64L(&r.Height), "cs": c20StrL(&r.Codespace),
		"ops": c20SeqN{ty: "rseq", n: func() int { return len(*ops) },
			at:   func(i int) interface{} { return nm.opN(&(*ops)[i]) },
			drop: func() { *ops = (*ops)[:len(*ops)-1] }, dup: func() { *ops = append(*ops, (*ops)[len(*ops)-1]) },
			swap: func() { (*ops)[0], (*ops)[1] = (*ops)[1], (*ops)[0] }},
	}
}

func (ch *c20Chain) resultsN(r *ctypes.ResultBlockResults) c20Rec {
	nm := ch.nm
	rs := make([]*abci.ResponseDeliverTx, len(r.TxsResults))
	for i, x := range r.TxsResults {
		c := *x
		rs[i] = &c
	}
	r.TxsResults = rs
	r.ValidatorUpdates = append([]abci.ValidatorUpdate{}, r.ValidatorUpdates...)
	vu := &r.ValidatorUpdates
	return c20Rec{"height": c20I64L(&r.Height),
		"results": c20SeqN{ty: "rseq", n: func() int { return len(r.TxsResults) },
			at:   func(i int) interface{} { return c20ResultN(r.TxsResults[i]) },
			drop: func() { r.TxsResults = r.TxsResults[:len(r.TxsResults)-1] },
			dup: func() {
				c := *r.TxsResults[len(r.TxsResults)-1]
				r.TxsResults = append(r.TxsResults, &c)
			},
			swap: func() { r.TxsResults[0], r.TxsResults[1] = r.TxsResults[1], r.TxsResults[0] }},
		"bbe": c20EventsN(&r.BeginBlockEvents), "ebe": c20EventsN(&r.EndBlockEvents),
		"valupd": c20SeqN{ty: "rseq", n: func() int { return len(*vu) },
			at: func(i int) interface{} {
				u := &(*vu)[i]
				return c20Rec{"power": c20I64L(&u.Power),
					"pk": c20Leaf{ty: "id", junk: func() interface{} { return nm.junkPubKey() },
						get: func() interface{} { pk, _ := c20PubKeyFromProto(u.PubKey); return pk },
						set: func(v interface{}) { u.PubKey = c20PubKeyToProto(v.(crypto.PubKey)) }}}
			},
			drop: func() { *vu = (*vu)[:len(*vu)-1] }, dup: func() { *vu = append(*vu, (*vu)[len(*vu)-1]) },
			swap: func() { (*vu)[0], (*vu)[1] = (*vu)[1], (*vu)[0] }},
		"parupd": c20SeqN{ty: "opt", n: func() int {
			if r.ConsensusParamUpdates == nil {
				return 0
			}
			return 1
		},
			at: func(i int) interface{} {
				bp := *r.ConsensusParamUpdates.Block
				cp := *r.ConsensusParamUpdates
				cp.Block = &bp
				r.ConsensusParamUpdates = &cp
				return c20Rec{"max_bytes": c20I64L(&bp.MaxBytes), "max_gas": c20I64L(&bp.MaxGas)}
			},
			drop: func() { r.ConsensusParamUpdates = nil }},
	}
}

func (ch *c20Chain) paramsN(r *ctypes.ResultConsensusParams) c20Rec {
	return c20Rec{"height": c20I64L(&r.BlockHeight), "params": c20ParamsN(&r.ConsensusParams)}
}

func (ch *c20Chain) infoN(r *ctypes.ResultBlockchainInfo) c20Rec {
	nm := ch.nm
	ms := make([]*types.BlockMeta, len(r.BlockMetas))
	for i, m := range r.BlockMetas {
		c := *m
		ms[i] = &c
	}
	r.BlockMetas = ms
	return c20Rec{"last_height": c20I64L(&r.LastHeight),
		"metas": c20SeqN{ty: "rseq", n: func() int { return len(r.BlockMetas) },
			at: func(i int) interface{} {
				m := r.BlockMetas[i]
				return c20Rec{"block_id": nm.bidN(&m.BlockID), "header": nm.headerN(&m.Header),
					"num_txs": c20IntL("uint", func() int64 { return int64(m.NumTxs) }, func(v int64) { m.NumTxs = int(v) }),
					"size":    c20IntL("uint", func() int64 { return int64(m.BlockSize) }, func(v int64) { m.BlockSize = int(v) })}
			},
			drop: func() { r.BlockMetas = r.BlockMetas[:len(r.BlockMetas)-1] },
			dup: func() {
				c := *r.BlockMetas[len(r.BlockMetas)-1]
				r.BlockMetas = append(r.BlockMetas, &c)
			},
			swap: func() { r.BlockMetas[0], r.BlockMetas[1] = r.BlockMetas[1], r.BlockMetas[0] }},
	}
}

// light block served by the primary; the validator set is rebuilt so that no cached
// total power survives the edit
type c20LB struct {
	hdr    types.Header
	commit *types.Commit
	vals   []*types.Validator
}

func c20LBFrom(lb *types.LightBlock) *c20LB {
	x := &c20LB{hdr: *lb.Header, commit: lb.Commit}
	for _, v := range lb.ValidatorSet.Validators {
		c := *v
		x.vals = append(x.vals, &c)
	}
	return x
}

func (x *c20LB) build() *types.LightBlock {
	h := x.hdr
	c := types.NewCommit(x.commit.Height, x.commit.Round, x.commit.BlockID, x.commit.Signatures)
	var prop *types.Validator
	if len(x.vals) > 0 {
		prop = x.vals[0]
	}
	return &types.LightBlock{SignedHeader: &types.SignedHeader{Header: &h, Commit: c},
		ValidatorSet: &types.ValidatorSet{Validators: x.vals, Proposer: prop}}
}

func (ch *c20Chain) lbN(x *c20LB) c20Rec {
	nm := ch.nm
	return c20Rec{"header": nm.headerN(&x.hdr), "commit": nm.commitN(x.commit),
		"vals": c20SeqN{ty: "rseq", n: func() int { return len(x.vals) },
			at:   func(i int) interface{} { return nm.valN(x.vals[i]) },
			drop: func() { x.vals = x.vals[:len(x.vals)-1] },
			dup: func() {
				c := *x.vals[len(x.vals)-1]
				x.vals = append(x.vals, &c)
			},
			swap: func() { x.vals[0], x.vals[1] = x.vals[1], x.vals[0] },
			// the attacker's own validator set (TMLightRPC!ForgedVals)
			forge: func() { x.vals = []*types.Validator{types.NewValidator(ch.attacker().PrivKey.PubKey(), 10)} }},
	}
}

// the attacker's key: validator "vz" / "pkz"
func (ch *c20Chain) attacker() types.MockPV {
	pv := types.NewMockPVWithParams(ed25519.GenPrivKeyFromSecret([]byte("c20/attacker")), false, false)
	pk := pv.PrivKey.PubKey()
	ch.nm.regID("addr", "vz", pk.Address())
	ch.nm.regID("pk", "pkz", pk.Bytes())
	ch.nm.pubkeys["pkz"] = pk
	return pv
}

func (ch *c20Chain) isForged(x *c20LB) bool {
	return len(x.vals) == 1 && x.vals[0].PubKey != nil && x.vals[0].PubKey.Equals(ch.attacker().PrivKey.PubKey()) &&
		x.vals[0].VotingPower == 10 && x.vals[0].ProposerPriority == 0 &&
		bytes.Equal(x.vals[0].Address, x.vals[0].PubKey.Address())
}

// ---- path resolution and edits

func c20Resolve(root interface{}, path []string) (interface{}, bool) {
	cur := root
	for _, k := range path {
		switch n := cur.(type) {
		case c20Rec:
			c, ok := n[k]
			if !ok {
				return nil, false
			}
			cur = c
		case c20SeqN:
			i, err := strconv.Atoi(k)
			if err != nil || n.at == nil || i < 1 || i > n.n() {
				return nil, false
			}
			cur = n.at(i - 1)
		default:
			return nil, false
		}
	}
	return cur, true
}

func (nm *c20Names) applyHow(node interface{}, how string, other interface{}, hasOther bool) error {
	switch n := node.(type) {
	case c20Leaf:
		switch how {
		case "hjunk":
			n.set(nm.junkHash())
		case "hbad":
			n.set([]byte{1, 2, 3, 4, 5})
		case "hempty":
			n.set([]byte(nil))
		case "sjunk":
			if n.junk == nil {
				return fmt.Errorf("no junk for leaf type %s", n.ty)
			}
			n.set(n.junk())
		case "other":
			if hasOther {
				n.set(other.(c20Leaf).get())
			}
		case "inc":
			n.set(n.get().(int64) + 1)
		case "dec":
			n.set(n.get().(int64) - 1)
		case "zero":
			n.set(int64(0))
		case "neg":
			n.set(int64(-1))
		default:
			return fmt.Errorf("how %q not applicable to a leaf", how)
		}
	case c20SeqN:
		var f func()
		switch how {
		case "drop":
			f = n.drop
		case "dup":
			f = n.dup
		case "swap":
			f = n.swap
		case "addh", "adds", "adde":
			f = n.add
		case "forge":
			f = n.forge
		}
		if f == nil {
			return fmt.Errorf("how %q not applicable to sequence type %s", how, n.ty)
		}
		f()
	default:
		return fmt.Errorf("cannot edit a record node")
	}
	return nil
}

// enumerate (path, type, len) of every editable node (used by the random driver)
func c20Walk(node interface{}, pfx []string, out *[][2]interface{}) {
	switch n := node.(type) {
	case c20Rec:
		keys := make([]string, 0, len(n))
		for k := range n {
			keys = append(keys, k)
		}
		sortStrings(keys)
		for _, k := range keys {
			c20Walk(n[k], append(append([]string{}, pfx...), k), out)
		}
	case c20Leaf:
		*out = append(*out, [2]interface{}{append([]string{}, pfx...), n.ty})
	case c20SeqN:
		*out = append(*out, [2]interface{}{append([]string{}, pfx...), n.ty + ":" + strconv.Itoa(n.n())})
		if n.at != nil {
			for i := 0; i < n.n(); i++ {
				c20Walk(n.at(i), append(append([]string{}, pfx...), strconv.Itoa(i+1)), out)
			}
		}
	}
}

func sortStrings(s []string) {
	for i := 1; i < len(s); i++ {
		for j := i; j > 0 && s[j] < s[j-1]; j-- {
			s[j], s[j-1] = s[j-1], s[j]
		}
	}
}

func c20Under(path []string, pfx ...string) bool {
	if len(path) < len(pfx) {
		return false
	}
	for i := range pfx {
		if path[i] != pfx[i] {
			return false
		}
	}
	return true
}

// what a consistent liar recomputes (TMLightRPC!Cohere), with the REAL hash functions
func (ch *c20Chain) regHeaderHash(h *types.Header) []byte {
	hash := h.Hash()
	if len(hash) > 0 {
		ch.nm.reg(ch.nm.headerHashTerm(ch.nm.absHeader(h)), hash)
	}
	return hash
}

func (ch *c20Chain) cohereBlock(res *ctypes.ResultBlock, path []string) {
	nm, b := ch.nm, res.Block
	if c20Under(path, "block", "txs") {
		nm.regTxs(b.Data.Txs)
		b.Header.DataHash = types.Txs(append(types.Txs{}, b.Data.Txs...)).Hash()
	}
	if c20Under(path, "block", "last_commit", "sigs") {
		nm.regSigs(b.LastCommit.Signatures)
		b.Header.LastCommitHash = types.NewCommit(0, 0, types.BlockID{}, b.LastCommit.Signatures).Hash()
	}
	if c20Under(path, "block", "evidence") {
		nm.regEvidence(b.Evidence.Evidence)
		b.Header.EvidenceHash = append(types.EvidenceList{}, b.Evidence.Evidence...).Hash()
	}
	if c20Under(path, "block") {
		res.BlockID.Hash = ch.regHeaderHash(&b.Header)
	}
}

func c20Refresh(b *types.Block) {
	b.Data = types.Data{Txs: b.Data.Txs}
	b.Evidence = types.EvidenceData{Evidence: b.Evidence.Evidence}
	c := b.LastCommit
	b.LastCommit = types.NewCommit(c.Height, c.Round, c.BlockID, c.Signatures)
}

func c20PathEq(p []string, q ...string) bool { return len(p) == len(q) && c20Under(p, q...) }

func (ch *c20Chain) cohereTx(res *ctypes.ResultTx, path []string) {
	var tx types.Tx
	switch {
	case c20PathEq(path, "tx"):
		ch.nm.regTxs(types.Txs{res.Tx})
		res.Hash = res.Tx.Hash()
		return
	case c20PathEq(path, "proof", "data"):
		tx = res.Proof.Data
	default:
		return
	}
	ch.nm.regTxs(types.Txs{tx})
	res.Tx, res.Proof.Data, res.Hash = tx, tx, tx.Hash()
	res.Proof.Proof.LeafHash = c20LeafHash(tx.Hash())
}

func (ch *c20Chain) cohereInfo(r *ctypes.ResultBlockchainInfo, path []string) {
	if len(path) >= 3 && path[0] == "metas" && path[2] == "header" {
		i, _ := strconv.Atoi(path[1])
		m := r.BlockMetas[i-1]
		m.BlockID.Hash = ch.regHeaderHash(&m.Header)
	}
}

func (ch *c20Chain) cohereLB(x *c20LB, path []string) {
	if c20Under(path, "vals") {
		ch.nm.regVals(x.vals)
		x.hdr.ValidatorsHash = (&types.ValidatorSet{Validators: x.vals}).Hash()
	}
	if c20Under(path, "vals") || c20Under(path, "header") {
		x.commit.BlockID.Hash = ch.regHeaderHash(&x.hdr)
	}
	// a forged validator set: the liar signs the commit himself (TMLightRPC!Cohere, ForgedSigTerm)
	if ch.isForged(x) && len(x.commit.Signatures) > 0 {
		pv := ch.attacker()
		ts := x.commit.Signatures[0].Timestamp
		vote := &types.Vote{Type: tmproto.PrecommitType, Height: x.commit.Height, Round: x.commit.Round, BlockID: x.commit.BlockID,
			Timestamp: ts, ValidatorAddress: x.vals[0].Address, ValidatorIndex: 0}
		pb := vote.ToProto()
		sig := []byte("unsignable")
		func() {
			defer func() { _ = recover() }() // a malformed block id cannot be signed either
			if err := pv.SignVote(x.hdr.ChainID, pb); err == nil {
				sig = pb.Signature
			}
		}()
		term := "SGZ(" + c20BidTerm(ch.nm.absBid(x.commit.BlockID)) + "," + c20I2S(int64(x.commit.Round)) + "," +
			c20I2S(x.commit.Height) + "," + c20I2S(ch.nm.absTime(ts)) + ")"
		ch.nm.regID("sig", term, sig)
		x.commit.Signatures = []types.CommitSig{{BlockIDFlag: types.BlockIDFlagCommit, ValidatorAddress: x.vals[0].Address,
			Timestamp: ts, Signature: sig}}
	}
}

func c20PubKeyFromProto(k tmcrypto.PublicKey) (crypto.PubKey, error) { return c20pkFrom(k) }

// ---------------------------------------------------------------- the backend (`next`): rpc/core handlers + the liar

type c20Backend struct {
	rpcclient.Client // nil: every method not overridden panics (none is reached)
	ch      *c20Chain
	kase    *c20Case
	sent    interface{} // abstract projection of what was sent
	honest  interface{} // abstract projection of the honest answer
	sentErr string
	calls   int
}

var c20RCtx = &rpctypes.Context{}

func (be *c20Backend) IsRunning() bool { return true }

// apply the case's lie to the concrete response `res` of kind `kind` asked with args a
func (ch *c20Chain) falsify(kind string, a c20Arg, f c20Lie, root func() c20Rec, otherRoot func(oh int64) (c20Rec, bool),
	cohere func(path []string)) (err error) {
	defer func() { // a panic of the falsifier is a harness failure, never an outcome of the call under test
		if r := recover(); r != nil {
			if he, ok := r.(c20HarnessErr); ok {
				panic(he)
			}
			panic(c20HarnessErr{fmt.Errorf("falsifier panicked on %s %+v: %v", kind, f, r)})
		}
	}()
	for _, e := range f.Edits {
		node, ok := c20Resolve(root(), e.Path)
		if !ok {
			return fmt.Errorf("%s: path %v not in the response", kind, e.Path)
		}
		var other interface{}
		hasOther := false
		if e.How == "other" {
			if or, ok := otherRoot(e.OH); ok {
				other, hasOther = c20Resolve(or, e.Path)
			}
		}
		if err := ch.nm.applyHow(node, e.How, other, hasOther); err != nil {
			return fmt.Errorf("%s %v: %w", kind, e.Path, err)
		}
		if f.Coh && cohere != nil {
			cohere(e.Path)
		}
	}
	return nil
}

func c20OtherArg(a c20Arg, oh int64) c20Arg {
	o := a
	if a.Lo == 0 {
		o.H = oh
	} else {
		o.Lo, o.Hi = oh, oh+(a.Hi-a.Lo)
	}
	return o
}

func (ch *c20Chain) honestBlock(a c20Arg) (*ctypes.ResultBlock, error) {
	if a.H == 0 {
		a.H = ch.tip
	}
	if a.H < 1 || a.H > ch.tip {
		return nil, fmt.Errorf("no block %d", a.H)
	}
	return core.Block(c20RCtx, &a.H)
}

func (be *c20Backend) block(byHash bool) (*ctypes.ResultBlock, error) {
	ch, a := be.ch, be.kase.A
	var res *ctypes.ResultBlock
	var err error
	if byHash {
		res, err = core.BlockByHash(c20RCtx, ch.blockStore.LoadBlockMeta(a.H).BlockID.Hash)
	} else if a.H == 0 {
		res, err = core.Block(c20RCtx, nil) // the latest
	} else {
		res, err = core.Block(c20RCtx, &a.H)
	}
	if err != nil {
		return nil, err
	}
	be.honest = ch.absBlock(res)
	err = ch.falsify(be.kase.Kind, a, be.kase.F, func() c20Rec { return ch.blockN(res) },
		func(oh int64) (c20Rec, bool) {
			o, err := ch.honestBlock(c20OtherArg(a, oh))
			if err != nil {
				return nil, false
			}
			return ch.blockN(o), true
		}, func(p []string) { ch.cohereBlock(res, p) })
	if err != nil {
		panic(c20HarnessErr{err})
	}
	c20Refresh(res.Block)
	be.sent = ch.absBlock(res)
	return res, nil
}

func (be *c20Backend) Block(_ context.Context, _ *int64) (*ctypes.ResultBlock, error) {
	be.calls++
	return be.block(false)
}
func (be *c20Backend) BlockByHash(_ context.Context, _ []byte) (*ctypes.ResultBlock, error) {
	be.calls++
	return be.block(true)
}

func (ch *c20Chain) honestTx(a c20Arg) (*ctypes.ResultTx, error) {
	if a.H < 1 || a.H > ch.tip {
		return nil, fmt.Errorf("no block %d", a.H)
	}
	txs := ch.blockStore.LoadBlock(a.H).Data.Txs
	if a.I < 0 || int(a.I) >= len(txs) {
		return nil, fmt.Errorf("no tx %d in block %d", a.I, a.H)
	}
	return core.Tx(c20RCtx, txs[a.I].Hash(), true)
}

func (be *c20Backend) Tx(_ context.Context, _ []byte, prove bool) (*ctypes.ResultTx, error) {
	be.calls++
	ch, a := be.ch, be.kase.A
	res, err := ch.honestTx(a)
	if err != nil {
		return nil, err
	}
	be.honest = ch.absTx(res)
	err = ch.falsify("Tx", a, be.kase.F, func() c20Rec { return ch.txN(res) },
		func(oh int64) (c20Rec, bool) {
			o, err := ch.honestTx(c20OtherArg(a, oh))
			if err != nil {
				return nil, false
			}
			return ch.txN(o), true
		}, func(p []string) { ch.cohereTx(res, p) })
	if err != nil {
		panic(c20HarnessErr{err})
	}
	be.sent = ch.absTx(res)
	return res, nil
}

func c20QueryPath(store string) string { return "/store/" + store + "/key" }

func (ch *c20Chain) honestQuery(a c20Arg) (*ctypes.ResultABCIQuery, error) {
	if a.H < 1 || a.H > ch.tip-1 {
		return nil, fmt.Errorf("no version %d", a.H)
	}
	return core.ABCIQuery(c20RCtx, c20QueryPath(a.Store), []byte(a.Key), a.H, true)
}

func (be *c20Backend) ABCIQueryWithOptions(_ context.Context, path string, data tmbytes.HexBytes,
	opts rpcclient.ABCIQueryOptions) (*ctypes.ResultABCIQuery, error) {
	be.calls++
	ch, a := be.ch, be.kase.A
	res, err := core.ABCIQuery(c20RCtx, path, data, opts.Height, opts.Prove)
	if err != nil {
		return nil, err
	}
	be.honest = ch.absQuery(&res.Response)
	err = ch.falsify("ABCIQuery", a, be.kase.F, func() c20Rec { return ch.queryN(&res.Response) },
		func(oh int64) (c20Rec, bool) {
			o, err := ch.honestQuery(c20OtherArg(a, oh))
			if err != nil {
				return nil, false
			}
			return ch.queryN(&o.Response), true
		}, nil)
	if err != nil {
		panic(c20HarnessErr{err})
	}
	be.sent = ch.absQuery(&res.Response)
	return res, nil
}

// Status: only what light/rpc Client.BlockResults(nil) reads
func (be *c20Backend) Status(context.Context) (*ctypes.ResultStatus, error) {
	return &ctypes.ResultStatus{SyncInfo: ctypes.SyncInfo{LatestBlockHeight: be.ch.tip}}, nil
}

func (ch *c20Chain) honestResults(a c20Arg) (*ctypes.ResultBlockResults, error) {
	if a.H == 0 {
		a.H = ch.tip - 1
	}
	if a.H < 1 || a.H > ch.tip-1 {
		return nil, fmt.Errorf("no block %d", a.H)
	}
	return core.BlockResults(c20RCtx, &a.H)
}

func (be *c20Backend) BlockResults(_ context.Context, height *int64) (*ctypes.ResultBlockResults, error) {
	be.calls++
	ch, a := be.ch, be.kase.A
	res, err := core.BlockResults(c20RCtx, height)
	if err != nil {
		return nil, err
	}
	be.honest = ch.absResults(res)
	err = ch.falsify("BlockResults", a, be.kase.F, func() c20Rec { return ch.resultsN(res) },
		func(oh int64) (c20Rec, bool) {
			o, err := ch.honestResults(c20OtherArg(a, oh))
			if err != nil {
				return nil, false
			}
			return ch.resultsN(o), true
		}, nil)
	if err != nil {
		panic(c20HarnessErr{err})
	}
	be.sent = ch.absResults(res)
	return res, nil
}

func (ch *c20Chain) honestParams(a c20Arg) (*ctypes.ResultConsensusParams, error) {
	if a.H < 1 || a.H > ch.tip {
		return nil, fmt.Errorf("no height %d", a.H)
	}
	cp, err := ch.stateStore.LoadConsensusParams(a.H)
	if err != nil {
		return nil, err
	}
	return &ctypes.ResultConsensusParams{BlockHeight: a.H, ConsensusParams: cp}, nil
}

func (be *c20Backend) ConsensusParams(_ context.Context, height *int64) (*ctypes.ResultConsensusParams, error) {
	be.calls++
	ch, a := be.ch, be.kase.A
	res, err := ch.honestParams(a)
	if err != nil {
		return nil, err
	}
	be.honest = c20AbsParamsRes(res)
	err = ch.falsify("ConsensusParams", a, be.kase.F, func() c20Rec { return ch.paramsN(res) },
		func(oh int64) (c20Rec, bool) {
			o, err := ch.honestParams(c20OtherArg(a, oh))
			if err != nil {
				return nil, false
			}
			return ch.paramsN(o), true
		}, nil)
	if err != nil {
		panic(c20HarnessErr{err})
	}
	be.sent = c20AbsParamsRes(res)
	return res, nil
}

func (ch *c20Chain) honestInfo(a c20Arg) (*ctypes.ResultBlockchainInfo, error) {
	if a.Lo < 1 || a.Hi > ch.tip || a.Lo > a.Hi {
		return nil, fmt.Errorf("bad range")
	}
	return core.BlockchainInfo(c20RCtx, a.Lo, a.Hi)
}

func (be *c20Backend) BlockchainInfo(_ context.Context, lo, hi int64) (*ctypes.ResultBlockchainInfo, error) {
	be.calls++
	ch, a := be.ch, be.kase.A
	res, err := core.BlockchainInfo(c20RCtx, lo, hi)
	if err != nil {
		return nil, err
	}
	be.honest = ch.absInfo(res)
	err = ch.falsify("BlockchainInfo", a, be.kase.F, func() c20Rec { return ch.infoN(res) },
		func(oh int64) (c20Rec, bool) {
			o, err := ch.honestInfo(c20OtherArg(a, oh))
			if err != nil {
				return nil, false
			}
			return ch.infoN(o), true
		}, func(p []string) { ch.cohereInfo(res, p) })
	if err != nil {
		panic(c20HarnessErr{err})
	}
	be.sent = ch.absInfo(res)
	return res, nil
}

// TxSearch is a pass-through in light/rpc (no verification); the backend answers with the real
// rpc/core handler, the honest full node whose served proofs the statement's last sentence is about
func (be *c20Backend) TxSearch(_ context.Context, query string, prove bool, page, perPage *int, orderBy string) (*ctypes.ResultTxSearch, error) {
	be.calls++
	return core.TxSearch(c20RCtx, query, prove, page, perPage, orderBy)
}

// ---------------------------------------------------------------- projections of responses

func (ch *c20Chain) absBlock(r *ctypes.ResultBlock) interface{} {
	nm := ch.nm
	return map[string]interface{}{"block_id": nm.absBid(r.BlockID), "block": map[string]interface{}{
		"header": nm.absHeader(&r.Block.Header), "txs": c20TxNames(r.Block.Data.Txs),
		"evidence": nm.absEvidence(r.Block.Evidence.Evidence), "last_commit": nm.absCommit(r.Block.LastCommit)}}
}

func (ch *c20Chain) absTx(r *ctypes.ResultTx) interface{} {
	return map[string]interface{}{"hash": ch.nm.hn(r.Hash), "height": r.Height, "index": int64(r.Index),
		"result": c20AbsResult(&r.TxResult), "tx": c20TxName(r.Tx), "proof": ch.nm.absTxProof(r.Proof)}
}

func c20Lit(b []byte) string { return string(b) }

func (ch *c20Chain) absQuery(r *abci.ResponseQuery) interface{} {
	ops := []c20Op{}
	if r.ProofOps != nil {
		for i := range r.ProofOps.Ops {
			op := &r.ProofOps.Ops[i]
			d := c20LoadOp(op)
			ops = append(ops, c20Op{Type: op.Type, Key: c20Lit(op.Key), DKey: c20Lit(d.DKey), Wit: c20Lit(d.Wit), WitV: c20Lit(d.WitV),
				Proof: ch.nm.absMProof(d.Proof.Total, d.Proof.Index, d.Proof.LeafHash, d.Proof.Aunts)})
		}
	}
	val := "nil"
	if r.Value != nil {
		val = c20Lit(r.Value)
	}
	return map[string]interface{}{"code": int64(r.Code), "log": r.Log, "info": r.Info, "index": r.Index, "key": c20Lit(r.Key),
		"value": val, "ops": ops, "height": r.Height, "cs": r.Codespace}
}

func (ch *c20Chain) absResults(r *ctypes.ResultBlockResults) interface{} {
	rs := []c20Result{}
	for _, x := range r.TxsResults {
		rs = append(rs, c20AbsResult(x))
	}
	return map[string]interface{}{"height": r.Height, "results": rs, "bbe": c20EventNames(r.BeginBlockEvents),
		"ebe": c20EventNames(r.EndBlockEvents), "valupd": ch.nm.absValUpd(r.ValidatorUpdates), "parupd": c20AbsParUpd(r.ConsensusParamUpdates)}
}

func c20AbsParamsRes(r *ctypes.ResultConsensusParams) interface{} {
	return map[string]interface{}{"height": r.BlockHeight, "params": c20AbsParams(r.ConsensusParams)}
}

func (ch *c20Chain) absInfo(r *ctypes.ResultBlockchainInfo) interface{} {
	ms := []interface{}{}
	for _, m := range r.BlockMetas {
		ms = append(ms, map[string]interface{}{"block_id": ch.nm.absBid(m.BlockID), "header": ch.nm.absHeader(&m.Header),
			"num_txs": int64(m.NumTxs), "size": int64(m.BlockSize)})
	}
	return map[string]interface{}{"last_height": r.LastHeight, "metas": ms}
}

func (ch *c20Chain) absLB(lb *types.LightBlock) interface{} {
	return map[string]interface{}{"header": ch.nm.absHeader(lb.Header), "commit": ch.nm.absCommit(lb.Commit),
		"vals": ch.nm.absVals(lb.ValidatorSet.Validators)}
}

func (ch *c20Chain) absCommitRes(r *ctypes.ResultCommit) interface{} {
	return map[string]interface{}{"header": ch.nm.absHeader(r.Header), "commit": ch.nm.absCommit(r.Commit), "canonical": r.CanonicalCommit}
}

func (ch *c20Chain) absValsRes(r *ctypes.ResultValidators) interface{} {
	return map[string]interface{}{"height": r.BlockHeight, "validators": ch.nm.absVals(r.Validators), "count": int64(r.Count), "total": int64(r.Total)}
}

func c20Stage(err error) string {
	if err == nil {
		return "none"
	}
	s := err.Error()
	switch {
	case strings.HasPrefix(s, "panic:"):
		return "panic"
	case strings.Contains(s, "failed to update light client"), strings.HasPrefix(s, "trusted header "):
		return "lc"
	case strings.Contains(s, "proof"):
		return "proof"
	case strings.Contains(s, "does not match"), strings.Contains(s, "mismatch"):
		return "hash"
	}
	return "basic"
}

var _ = merkle.ProofOpValue
