//go:build verif

package proxy

// ABCI harness, part 3 (proxy.multiAppConn and the four AppConn wrappers).
// See /verif/spec/TMAbciProxy.tla and /verif/spec/TMAbciLocal.tla.
//
//   multi  : the real multiAppConn over four real socket clients (each through its own byte
//            forwarder, so one connection can be cut) to one real abci/server.SocketServer
//            with a scripted application.  Steps: Start (optionally with the creation / the
//            start of one connection failing), calls through every wrapper method,
//            ClientError(conn) (the link is cut), Stop.  SIGTERM (tmos.Kill) is caught.
//   plocal : the real multiAppConn over proxy.NewLocalClientCreator(app); calls through the
//            wrappers, from one goroutine per connection, with the application blocking at
//            gates (step-controlled, schedules from TMAbciLocal).
// The harness gives no verdicts (spec/trace/TMAbciTrace.tla judges).

import (
	"encoding/json"
	"errors"
	"fmt"
	"net"
	"os"
	"os/signal"
	"path/filepath"
	"regexp"
	"runtime"
	"strconv"
	"strings"
	"sync"
	"syscall"
	"testing"
	"time"

	abcicli "github.com/tendermint/tendermint/abci/client"
	"github.com/tendermint/tendermint/abci/server"
	"github.com/tendermint/tendermint/abci/types"
)

type abciM = map[string]interface{}

type abciTrace struct {
	mu sync.Mutex
	f  *os.File
	n  int64
}

func (t *abciTrace) ev(ev string, kv abciM) {
	m := abciM{"ev": ev}
	for k, v := range kv {
		m[k] = v
	}
	t.mu.Lock()
	t.n++
	m["n"] = t.n
	b, err := json.Marshal(m)
	if err != nil {
		t.mu.Unlock()
		panic(err)
	}
	t.f.Write(append(b, '\n'))
	t.mu.Unlock()
}

var abciGoHdr = regexp.MustCompile(`^goroutine (\d+) \[([^\],]+)`)

type abciGor struct {
	id    int64
	state string
	text  string
}

func abciGid() int64 {
	var b [64]byte
	n := runtime.Stack(b[:], false)
	m := abciGoHdr.FindSubmatch(b[:n])
	if m == nil {
		return -1
	}
	id, _ := strconv.ParseInt(string(m[1]), 10, 64)
	return id
}

func abciGoroutines() []abciGor {
	buf := make([]byte, 1<<20)
	for {
		n := runtime.Stack(buf, true)
		if n < len(buf) {
			buf = buf[:n]
			break
		}
		buf = make([]byte, 2*len(buf))
	}
	var out []abciGor
	for _, blk := range strings.Split(string(buf), "\n\n") {
		m := abciGoHdr.FindStringSubmatch(blk)
		if m == nil {
			continue
		}
		id, _ := strconv.ParseInt(m[1], 10, 64)
		out = append(out, abciGor{id: id, state: m[2], text: blk})
	}
	return out
}

func abciQuiet(self int64) bool {
	for _, g := range abciGoroutines() {
		if g.id == self {
			continue
		}
		if !(strings.Contains(g.text, "tendermint/abci/") || strings.Contains(g.text, "tendermint/proxy") ||
			strings.Contains(g.text, "tendermint/libs/timer")) {
			continue
		}
		switch g.state {
		case "running", "runnable", "syscall", "copystack", "preempted":
			return false
		}
	}
	return true
}

func abciSettle(self int64) bool {
	deadline := time.Now().Add(20 * time.Second)
	ok := 0
	for time.Now().Before(deadline) {
		if abciQuiet(self) {
			ok++
			if ok >= 3 {
				return true
			}
		} else {
			ok = 0
		}
		time.Sleep(150 * time.Microsecond)
	}
	return false
}

func abciGoAlive(name string) bool {
	for _, g := range abciGoroutines() {
		if strings.Contains(g.text, name) {
			return true
		}
	}
	return false
}

// ---------------------------------------------------------------------------- scripted application

type abciApp struct {
	types.BaseApplication
	tr     *abciTrace
	mu     sync.Mutex
	gates  map[string]chan struct{}
	inGate []string
	seen   []string // application methods entered, in order
}

func (a *abciApp) enter(m, typ, lab string) {
	a.tr.ev("SrvGot", abciM{"r": lab, "rt": typ})
	a.tr.ev("AppS", abciM{"conn": lab, "m": m})
	a.mu.Lock()
	a.seen = append(a.seen, m)
	ch := a.gates[lab]
	if ch != nil {
		a.inGate = append(a.inGate, lab)
	}
	a.mu.Unlock()
	if ch != nil {
		<-ch
		a.mu.Lock()
		for i, x := range a.inGate {
			if x == lab {
				a.inGate = append(a.inGate[:i:i], a.inGate[i+1:]...)
				break
			}
		}
		a.mu.Unlock()
	}
}
func (a *abciApp) leave(m, lab string) { a.tr.ev("AppE", abciM{"conn": lab, "m": m}) }

func (a *abciApp) takeSeen() []string {
	a.mu.Lock()
	defer a.mu.Unlock()
	s := a.seen
	a.seen = nil
	if s == nil {
		s = []string{}
	}
	return s
}

func (a *abciApp) CheckTx(req types.RequestCheckTx) types.ResponseCheckTx {
	a.enter("CheckTx", "B", string(req.Tx))
	defer a.leave("CheckTx", string(req.Tx))
	return types.ResponseCheckTx{Data: req.Tx}
}
func (a *abciApp) DeliverTx(req types.RequestDeliverTx) types.ResponseDeliverTx {
	a.enter("DeliverTx", "D", string(req.Tx))
	defer a.leave("DeliverTx", string(req.Tx))
	return types.ResponseDeliverTx{Data: req.Tx}
}
func (a *abciApp) Query(req types.RequestQuery) types.ResponseQuery {
	a.enter("Query", "Q", string(req.Data))
	defer a.leave("Query", string(req.Data))
	return types.ResponseQuery{Value: req.Data}
}
func (a *abciApp) Info(req types.RequestInfo) types.ResponseInfo {
	a.enter("Info", "I", req.Version)
	defer a.leave("Info", req.Version)
	return types.ResponseInfo{Data: req.Version}
}
func (a *abciApp) InitChain(req types.RequestInitChain) types.ResponseInitChain {
	a.enter("InitChain", "N", req.ChainId)
	defer a.leave("InitChain", req.ChainId)
	return types.ResponseInitChain{}
}
func (a *abciApp) BeginBlock(req types.RequestBeginBlock) types.ResponseBeginBlock {
	a.enter("BeginBlock", "G", string(req.Hash))
	defer a.leave("BeginBlock", string(req.Hash))
	return types.ResponseBeginBlock{}
}
func (a *abciApp) EndBlock(req types.RequestEndBlock) types.ResponseEndBlock {
	lab := "c" + strconv.FormatInt(req.Height, 10)
	a.enter("EndBlock", "E", lab)
	defer a.leave("EndBlock", lab)
	return types.ResponseEndBlock{}
}
func (a *abciApp) Commit() types.ResponseCommit {
	a.enter("Commit", "C", "commit")
	defer a.leave("Commit", "commit")
	return types.ResponseCommit{Data: []byte("commit")}
}
func (a *abciApp) ListSnapshots(req types.RequestListSnapshots) types.ResponseListSnapshots {
	a.enter("ListSnapshots", "L", "list")
	defer a.leave("ListSnapshots", "list")
	return types.ResponseListSnapshots{}
}
func (a *abciApp) OfferSnapshot(req types.RequestOfferSnapshot) types.ResponseOfferSnapshot {
	a.enter("OfferSnapshot", "O", string(req.AppHash))
	defer a.leave("OfferSnapshot", string(req.AppHash))
	return types.ResponseOfferSnapshot{}
}
func (a *abciApp) LoadSnapshotChunk(req types.RequestLoadSnapshotChunk) types.ResponseLoadSnapshotChunk {
	lab := "c" + strconv.FormatUint(req.Height, 10)
	a.enter("LoadSnapshotChunk", "K", lab)
	defer a.leave("LoadSnapshotChunk", lab)
	return types.ResponseLoadSnapshotChunk{}
}
func (a *abciApp) ApplySnapshotChunk(req types.RequestApplySnapshotChunk) types.ResponseApplySnapshotChunk {
	a.enter("ApplySnapshotChunk", "P", req.Sender)
	defer a.leave("ApplySnapshotChunk", req.Sender)
	return types.ResponseApplySnapshotChunk{}
}

// ---------------------------------------------------------------------------- link forwarder (one per connection)

type abciLink struct {
	ln net.Listener
	up string
	mu sync.Mutex
	cs []net.Conn
}

func abciPump(dst, src net.Conn) {
	buf := make([]byte, 4096)
	for {
		n, err := src.Read(buf)
		if n > 0 {
			if _, werr := dst.Write(buf[:n]); werr != nil {
				break
			}
		}
		if err != nil {
			break
		}
	}
	src.Close()
	dst.Close()
}

func (l *abciLink) serve() {
	for {
		c, err := l.ln.Accept()
		if err != nil {
			return
		}
		u, err := net.Dial("unix", l.up)
		if err != nil {
			c.Close()
			continue
		}
		l.mu.Lock()
		l.cs = append(l.cs, c, u)
		l.mu.Unlock()
		go abciPump(u, c)
		go abciPump(c, u)
	}
}

func (l *abciLink) cut() {
	l.mu.Lock()
	defer l.mu.Unlock()
	for _, c := range l.cs {
		c.Close()
	}
}

// ---------------------------------------------------------------------------- scripted client creator

var abciOrder = []string{"query", "snapshot", "mempool", "consensus"}

type abciCreator struct {
	tr       *abciTrace
	inner    func(k int) (abcicli.Client, error)
	failAt   string
	failMode string
	n        int
	made     map[string]abcicli.Client
}

func (c *abciCreator) NewABCIClient() (abcicli.Client, error) {
	k := c.n
	c.n++
	conn := "?"
	if k < len(abciOrder) {
		conn = abciOrder[k]
	}
	if conn == c.failAt && c.failMode == "create" {
		c.tr.ev("Client", abciM{"id": conn, "what": "create_failed"})
		return nil, errors.New("scripted: cannot create client")
	}
	if conn == c.failAt && c.failMode == "start" {
		c.tr.ev("Client", abciM{"id": conn, "what": "start_will_fail"})
		return abcicli.NewSocketClient("unix:///nonexistent/abci-verif.sock", true), nil
	}
	cl, err := c.inner(k)
	if err == nil {
		c.made[conn] = cl
		c.tr.ev("Client", abciM{"id": conn, "what": "created"})
	}
	return cl, err
}

// ---------------------------------------------------------------------------- runs

type abciStep map[string]interface{}

func (s abciStep) str(k string) string {
	v, _ := s[k].(string)
	return v
}
func (s abciStep) num(k string) int {
	v, _ := s[k].(float64)
	return int(v)
}
func (s abciStep) flag(k string) bool {
	v, _ := s[k].(bool)
	return v
}

type abciRun struct {
	ID    string     `json:"id"`
	Kind  string     `json:"kind"` // "multi" | "plocal"
	Steps []abciStep `json:"steps"`
}

type abciInput struct {
	Runs []abciRun `json:"runs"`
}

type abciSig struct {
	mu    sync.Mutex
	kills int
	wake  int
	ch    chan os.Signal
}

func (s *abciSig) loop() {
	for sg := range s.ch {
		s.mu.Lock()
		if sg == syscall.SIGTERM {
			s.kills++
		} else {
			s.wake++
		}
		s.mu.Unlock()
	}
}
func (s *abciSig) get() (int, int) {
	s.mu.Lock()
	defer s.mu.Unlock()
	return s.kills, s.wake
}

// wait until a signal sent now has been delivered (twice): everything sent earlier has arrived
func (s *abciSig) drain() bool {
	for round := 0; round < 2; round++ {
		_, w0 := s.get()
		syscall.Kill(os.Getpid(), syscall.SIGWINCH)
		dl := time.Now().Add(30 * time.Second)
		for {
			_, w := s.get()
			if w > w0 {
				break
			}
			if time.Now().After(dl) {
				return false
			}
			time.Sleep(200 * time.Microsecond)
		}
		time.Sleep(2 * time.Millisecond)
	}
	return true
}

func abciPObs(tr *abciTrace, what string, cr *abciCreator, sig *abciSig, settled bool, startErr string) {
	running, errored := []string{}, []string{}
	for _, conn := range abciOrder {
		cl := cr.made[conn]
		if cl == nil {
			continue
		}
		if cl.IsRunning() {
			running = append(running, conn)
		}
		if cl.Error() != nil {
			errored = append(errored, conn)
		}
	}
	k, _ := sig.get()
	tr.ev("PObs", abciM{"what": what, "running": running, "errored": errored, "kills": k, "settled": settled,
		"startErr": startErr, "watcher": abciGoAlive("(*multiAppConn).killTMOnClientError")})
}

func abciMultiRun(tr *abciTrace, dir string, idx int, run abciRun, sig *abciSig) {
	self := abciGid()
	tr.ev("Reset", abciM{"run": run.ID, "family": "proxy", "qcap": 0})
	sig.mu.Lock()
	sig.kills = 0
	sig.mu.Unlock()
	app := &abciApp{tr: tr, gates: map[string]chan struct{}{}}
	sp := filepath.Join(dir, fmt.Sprintf("p%d-srv.sock", idx))
	os.Remove(sp)
	srv := server.NewSocketServer("unix://"+sp, app)
	if err := srv.Start(); err != nil {
		panic(err)
	}
	links := map[string]*abciLink{}
	cr := &abciCreator{tr: tr, made: map[string]abcicli.Client{}, failAt: "none"}
	cr.inner = func(k int) (abcicli.Client, error) {
		conn := abciOrder[k]
		fp := filepath.Join(dir, fmt.Sprintf("p%d-%s.sock", idx, conn))
		os.Remove(fp)
		ln, err := net.Listen("unix", fp)
		if err != nil {
			return nil, err
		}
		l := &abciLink{ln: ln, up: sp}
		links[conn] = l
		go l.serve()
		return abcicli.NewSocketClient("unix://"+fp, true), nil
	}
	var mac AppConns
	for _, st := range run.Steps {
		tr.ev("Env", abciM{"a": map[string]interface{}(st)})
		switch st.str("name") {
		case "Start":
			cr.failAt = st.str("failAt")
			cr.failMode = st.str("failMode")
			mac = NewAppConns(cr)
			err := mac.Start()
			settled := abciSettle(self) && sig.drain()
			if err != nil {
				abciPObs(tr, "start_failed", cr, sig, settled, "err")
			} else {
				abciPObs(tr, "started", cr, sig, settled, "nil")
			}
		case "Calls":
			if mac == nil || !mac.IsRunning() {
				tr.ev("Skip", abciM{"step": "Calls", "why": "not started"})
				continue
			}
			abciWrapperCalls(tr, app, mac)
			abciPObs(tr, "calls_done", cr, sig, abciSettle(self) && sig.drain(), "nil")
		case "ClientError":
			conn := st.str("conn")
			l := links[conn]
			cl := cr.made[conn]
			if l == nil || cl == nil {
				tr.ev("Skip", abciM{"step": "ClientError", "why": "no such connection"})
				continue
			}
			l.cut()
			// the client has to notice by itself; never judge on time
			dl := time.Now().Add(60 * time.Second)
			for cl.IsRunning() && time.Now().Before(dl) {
				time.Sleep(500 * time.Microsecond)
			}
			settled := !cl.IsRunning() && abciSettle(self) && sig.drain()
			abciPObs(tr, "after_error", cr, sig, settled, "nil")
		case "Stop":
			if mac == nil {
				continue
			}
			err := mac.Stop()
			what := "stopped"
			if err != nil {
				what = "stop_refused"
			}
			abciPObs(tr, what, cr, sig, abciSettle(self) && sig.drain(), "nil")
		}
	}
	// clean up: stop the clients first (no error, so the watcher does not signal), then the links;
	// every signal still on its way is consumed before the next run starts
	tr.ev("Cleanup", abciM{})
	if mac != nil && mac.IsRunning() {
		mac.Stop()
	}
	for _, cl := range cr.made {
		if cl.IsRunning() {
			cl.Stop()
		}
	}
	abciSettle(self)
	for _, l := range links {
		l.cut()
		l.ln.Close()
	}
	srv.Stop()
	abciSettle(self)
	sig.drain()
}

// one call through every method of the four wrappers; which application method it reached
func abciWrapperCalls(tr *abciTrace, app *abciApp, mac AppConns) {
	app.takeSeen()
	do := func(conn, api string, f func() error) {
		err := f()
		tr.ev("Deleg", abciM{"conn": conn, "api": api, "seen": app.takeSeen(), "ok": fmt.Sprint(err == nil)})
	}
	cons, mem, qry, snap := mac.Consensus(), mac.Mempool(), mac.Query(), mac.Snapshot()
	cons.SetResponseCallback(func(*types.Request, *types.Response) {})
	mem.SetResponseCallback(func(*types.Request, *types.Response) {})
	do("consensus", "InitChainSync", func() error { _, e := cons.InitChainSync(types.RequestInitChain{ChainId: "c1"}); return e })
	do("consensus", "BeginBlockSync", func() error { _, e := cons.BeginBlockSync(types.RequestBeginBlock{Hash: []byte("c2")}); return e })
	do("consensus", "DeliverTxAsync+EndBlockSync", func() error {
		cons.DeliverTxAsync(types.RequestDeliverTx{Tx: []byte("c3")})
		_, e := cons.EndBlockSync(types.RequestEndBlock{Height: 4})
		return e
	})
	do("consensus", "CommitSync", func() error { _, e := cons.CommitSync(); return e })
	do("mempool", "CheckTxAsync+FlushSync", func() error {
		mem.CheckTxAsync(types.RequestCheckTx{Tx: []byte("c5")})
		return mem.FlushSync()
	})
	do("mempool", "CheckTxSync", func() error { _, e := mem.CheckTxSync(types.RequestCheckTx{Tx: []byte("c6")}); return e })
	do("mempool", "FlushAsync", func() error { mem.FlushAsync(); return mem.FlushSync() })
	do("query", "EchoSync", func() error { _, e := qry.EchoSync("c7"); return e })
	do("query", "InfoSync", func() error { _, e := qry.InfoSync(types.RequestInfo{Version: "c8"}); return e })
	do("query", "QuerySync", func() error { _, e := qry.QuerySync(types.RequestQuery{Data: []byte("c9")}); return e })
	do("snapshot", "ListSnapshotsSync", func() error { _, e := snap.ListSnapshotsSync(types.RequestListSnapshots{}); return e })
	do("snapshot", "OfferSnapshotSync", func() error {
		_, e := snap.OfferSnapshotSync(types.RequestOfferSnapshot{AppHash: []byte("c10")})
		return e
	})
	do("snapshot", "LoadSnapshotChunkSync", func() error {
		_, e := snap.LoadSnapshotChunkSync(types.RequestLoadSnapshotChunk{Height: 11})
		return e
	})
	do("snapshot", "ApplySnapshotChunkSync", func() error {
		_, e := snap.ApplySnapshotChunkSync(types.RequestApplySnapshotChunk{Sender: "c12"})
		return e
	})
}

// ---------------------------------------------------------------------------- local creator, gated application

type abciPCall struct {
	call  int
	conn  string
	gid   int64
	done  chan struct{}
	label string
}

func abciPLocalRun(tr *abciTrace, run abciRun) {
	self := abciGid()
	tr.ev("Reset", abciM{"run": run.ID, "family": "local", "qcap": 0})
	tr.ev("Mode", abciM{"mutex": "shared"})
	app := &abciApp{tr: tr, gates: map[string]chan struct{}{}}
	mac := NewAppConns(NewLocalClientCreator(app))
	if err := mac.Start(); err != nil {
		panic(err)
	}
	var mu sync.Mutex
	ncbS, ncbE := 0, 0
	cbgates := map[string]chan struct{}{}
	inCb := []string{}
	cb := func(req *types.Request, res *types.Response) {
		lab := "?"
		switch r := req.Value.(type) {
		case *types.Request_CheckTx:
			lab = string(r.CheckTx.Tx)
		case *types.Request_DeliverTx:
			lab = string(r.DeliverTx.Tx)
		}
		mu.Lock()
		ncbS++
		ch := cbgates[lab]
		if ch != nil {
			inCb = append(inCb, lab)
		}
		mu.Unlock()
		tr.ev("CbS", abciM{"k": "g", "r": lab, "x": lab, "rt": "-", "xt": "-", "by": "caller"})
		if ch != nil {
			<-ch
		}
		mu.Lock()
		ncbE++
		mu.Unlock()
		tr.ev("CbE", abciM{"k": "g", "r": lab, "by": "caller"})
	}
	mac.Consensus().SetResponseCallback(cb)
	mac.Mempool().SetResponseCallback(cb)
	calls := []*abciPCall{}
	obs := func(final bool) {
		settled := abciSettle(self)
		gs := abciGoroutines()
		busy := []string{}
		infl := []interface{}{}
		for _, ci := range calls {
			select {
			case <-ci.done:
			default:
				busy = append(busy, ci.conn)
				st, where := "gone", "-"
				for _, g := range gs {
					if g.id == ci.gid {
						st = g.state
						switch {
						case strings.Contains(g.text, "(*abciApp).enter"):
							where = "app"
						case strings.Contains(g.text, "(*Mutex).Lock"):
							where = "Lock"
						}
					}
				}
				infl = append(infl, abciM{"call": ci.call, "t": ci.conn, "state": st, "where": where})
			}
		}
		app.mu.Lock()
		inapp := append([]string{}, app.inGate...)
		app.mu.Unlock()
		mu.Lock()
		s, e := ncbS, ncbE
		incb := append([]string{}, inCb...)
		mu.Unlock()
		tr.ev("LObs", abciM{"settled": settled, "final": final, "busy": busy, "inflight": infl, "inapp": inapp, "incb": incb, "ncbS": s, "ncbE": e})
	}
	obs(false)
	for _, st := range run.Steps {
		tr.ev("Env", abciM{"a": map[string]interface{}(st)})
		switch st.str("name") {
		case "StartCall":
			conn, kind, call := st.str("conn"), st.str("kind"), st.num("call")
			lab := "c" + strconv.Itoa(call)
			if st.str("gate") == "app" {
				app.mu.Lock()
				app.gates[lab] = make(chan struct{})
				app.mu.Unlock()
			}
			if st.str("gate") == "cb" {
				mu.Lock()
				cbgates[lab] = make(chan struct{})
				mu.Unlock()
			}
			ci := &abciPCall{call: call, conn: conn, done: make(chan struct{}), label: lab}
			calls = append(calls, ci)
			ready := make(chan struct{})
			go func() {
				ci.gid = abciGid()
				close(ready)
				defer close(ci.done)
				rl := lab
				if kind == "FlushSync" || kind == "FlushAsync" {
					rl = "F"
				}
				tr.ev("Call", abciM{"call": call, "t": conn, "kind": kind, "r": rl})
				errs, got := "nil", "-"
				e2s := func(e error) string {
					if e != nil {
						return "err"
					}
					return "nil"
				}
				switch conn + "/" + kind {
				case "consensus/AsyncD":
					mac.Consensus().DeliverTxAsync(types.RequestDeliverTx{Tx: []byte(lab)})
				case "consensus/SyncD": // no DeliverTxSync on this wrapper: BeginBlockSync
					_, err := mac.Consensus().BeginBlockSync(types.RequestBeginBlock{Hash: []byte(lab)})
					errs, got = e2s(err), lab
				case "mempool/AsyncB":
					mac.Mempool().CheckTxAsync(types.RequestCheckTx{Tx: []byte(lab)})
				case "mempool/SyncB":
					res, err := mac.Mempool().CheckTxSync(types.RequestCheckTx{Tx: []byte(lab)})
					errs, got = e2s(err), "nil"
					if res != nil {
						got = string(res.Data)
					}
				case "mempool/FlushSync":
					errs = e2s(mac.Mempool().FlushSync())
				case "mempool/FlushAsync":
					mac.Mempool().FlushAsync()
				case "query/SyncQ":
					res, err := mac.Query().QuerySync(types.RequestQuery{Data: []byte(lab)})
					errs, got = e2s(err), "nil"
					if res != nil {
						got = string(res.Value)
					}
				case "query/SyncA":
					res, err := mac.Query().EchoSync(lab)
					errs, got = e2s(err), "nil"
					if res != nil {
						got = res.Message
					}
				case "snapshot/SyncI":
					_, err := mac.Snapshot().OfferSnapshotSync(types.RequestOfferSnapshot{AppHash: []byte(lab)})
					errs, got = e2s(err), lab
				default:
					tr.ev("Skip", abciM{"step": "StartCall", "why": "no such wrapper method " + conn + "/" + kind})
				}
				tr.ev("Ret", abciM{"call": call, "t": conn, "kind": kind, "r": rl, "err": errs, "got": got})
			}()
			<-ready
		case "ReleaseApp":
			app.mu.Lock()
			var ch chan struct{}
			lab := ""
			if len(app.inGate) > 0 {
				lab = app.inGate[0]
				ch = app.gates[lab]
				delete(app.gates, lab)
			}
			app.mu.Unlock()
			if ch == nil {
				tr.ev("Skip", abciM{"step": "ReleaseApp", "why": "nobody in the application"})
			} else {
				tr.ev("ReleaseApp", abciM{"r": lab})
				close(ch)
			}
		case "ReleaseCb":
			mu.Lock()
			var ch chan struct{}
			lab := ""
			if len(inCb) > 0 {
				lab = inCb[0]
				inCb = inCb[1:]
				ch = cbgates[lab]
				delete(cbgates, lab)
			}
			mu.Unlock()
			if ch == nil {
				tr.ev("Skip", abciM{"step": "ReleaseCb", "why": "nobody in a callback"})
			} else {
				tr.ev("ReleaseCb", abciM{"r": lab})
				close(ch)
			}
		}
		obs(false)
	}
	obs(true)
	tr.ev("Cleanup", abciM{})
	app.mu.Lock()
	for _, ch := range app.gates {
		close(ch)
	}
	app.gates = map[string]chan struct{}{}
	app.mu.Unlock()
	mu.Lock()
	for _, ch := range cbgates {
		close(ch)
	}
	cbgates = map[string]chan struct{}{}
	mu.Unlock()
	abciSettle(self)
	mac.Stop()
	abciSettle(self)
}

func TestVerifABCIProxy(t *testing.T) {
	inp := os.Getenv("VERIF_IN")
	out := os.Getenv("VERIF_OUT")
	if inp == "" || out == "" {
		t.Skip("VERIF_IN / VERIF_OUT not set")
	}
	raw, err := os.ReadFile(inp)
	if err != nil {
		t.Fatal(err)
	}
	var in abciInput
	if err := json.Unmarshal(raw, &in); err != nil {
		t.Fatal(err)
	}
	dir, err := os.MkdirTemp("", "abcip")
	if err != nil {
		t.Fatal(err)
	}
	defer os.RemoveAll(dir)
	f, err := os.Create(filepath.Join(out, "proxy.ndjson"))
	if err != nil {
		t.Fatal(err)
	}
	tr := &abciTrace{f: f}
	sig := &abciSig{ch: make(chan os.Signal, 64)}
	signal.Notify(sig.ch, syscall.SIGTERM, syscall.SIGWINCH)
	defer signal.Stop(sig.ch)
	go sig.loop()
	for i, run := range in.Runs {
		if run.Kind == "plocal" {
			abciPLocalRun(tr, run)
		} else {
			abciMultiRun(tr, dir, i, run, sig)
		}
	}
	tr.ev("End", abciM{})
	f.Close()
}
