//go:build verif

package v1

// C12 harness for mempool/v1 (TxMempool, the priority mempool); see /verif/DESIGN.md
// section 5, C12 and /verif/spec/TMMempoolOps.tla.  Same trace format and the same rule as
// the v0 harness: execute schedules on the REAL object through the production entry points,
// project after every step, write NDJSON, judge nothing (TLC does: TMMempoolTrace.tla).
//
// v1 calls CheckTxSync outside every lock, from the caller's goroutine (first-time checks)
// and from a task group (rechecks).  The asynchronous client c12Client holds every such call
// on a gate; the schedule decides which outstanding call is answered next, in ANY order.
// Completion of a recheck is observed without touching product code: the RecheckTimes metric
// (first statement of handleRecheckResult) signals entry, and the goroutine dump no longer
// showing handleRecheckResult signals exit.

import (
	"bytes"
	"crypto/sha256"
	"encoding/binary"
	"encoding/json"
	"errors"
	"fmt"
	"math/rand"
	"os"
	"runtime"
	"sort"
	"strconv"
	"strings"
	"sync"
	"testing"
	"time"

	"github.com/go-kit/kit/metrics"

	abcicli "github.com/tendermint/tendermint/abci/client"
	abci "github.com/tendermint/tendermint/abci/types"
	"github.com/tendermint/tendermint/config"
	"github.com/tendermint/tendermint/libs/clist"
	"github.com/tendermint/tendermint/libs/log"
	"github.com/tendermint/tendermint/mempool"
	tmproto "github.com/tendermint/tendermint/proto/tendermint/types"
	"github.com/tendermint/tendermint/types"
)

// ---------------------------------------------------------------- input / trace format

type c12Cfg struct {
	Version     string         `json:"version"`
	Size        int            `json:"size"`
	MaxTxsBytes int64          `json:"maxTxsBytes"`
	MaxTxBytes  int            `json:"maxTxBytes"`
	CacheSize   int            `json:"cacheSize"`
	KeepInvalid bool           `json:"keepInvalid"`
	Recheck     bool           `json:"recheck"`
	TTL         int64          `json:"ttl"`
	TxSize      map[string]int `json:"txsize"`
}

type c12Verdict struct {
	Ok     bool   `json:"ok"`
	Gas    int64  `json:"gas"`
	Prio   int64  `json:"prio"`
	Sender string `json:"sender"`
}

type c12RV struct {
	Tx     string `json:"tx"`
	Ok     bool   `json:"ok"`
	Gas    int64  `json:"gas"`
	Prio   int64  `json:"prio"`
	Sender string `json:"sender"`
}

type c12Step struct {
	Op    string      `json:"op"`
	Tx    string      `json:"tx,omitempty"`
	Peer  int         `json:"peer,omitempty"`
	V     *c12Verdict `json:"v,omitempty"`
	H     int64       `json:"h,omitempty"`
	Txs   []string    `json:"txs,omitempty"`
	Oks   []bool      `json:"oks,omitempty"`
	NPre  int64       `json:"npre,omitempty"`
	NPost int64       `json:"npost,omitempty"`
	Rv    []c12RV     `json:"rv,omitempty"`
	N     int         `json:"n,omitempty"`
	B     int64       `json:"b,omitempty"`
	G     int64       `json:"g,omitempty"`
}

type c12Run struct {
	Cfg   c12Cfg    `json:"cfg"`
	Mode  string    `json:"mode"` // "async" | "sync"
	Steps []c12Step `json:"steps"`
}

type c12Input struct {
	Runs      []c12Run `json:"runs"`
	Random    int      `json:"random"`
	RandomLen int      `json:"randomLen"`
	Conc      int      `json:"conc"`
}

type c12M = map[string]interface{}

type c12Writer struct {
	f   *os.File
	enc *json.Encoder
	n   int
}

func (w *c12Writer) emit(v interface{}) {
	if err := w.enc.Encode(v); err != nil {
		panic(err)
	}
	w.n++
}

// ---------------------------------------------------------------- tx naming

func c12TxBytes(key string, size int) types.Tx {
	if size < len(key) {
		size = len(key)
	}
	b := make([]byte, size)
	copy(b, key)
	for i := len(key); i < size; i++ {
		b[i] = '.'
	}
	return types.Tx(b)
}

func c12TxName(tx []byte) string { return strings.TrimRight(string(tx), ".") }

type c12Names struct {
	cfg   c12Cfg
	keys  []string
	byKey map[[32]byte]string
}

func newC12Names(cfg c12Cfg) *c12Names {
	nm := &c12Names{cfg: cfg, byKey: map[[32]byte]string{}}
	for k := range cfg.TxSize {
		nm.keys = append(nm.keys, k)
	}
	sort.Strings(nm.keys)
	for _, k := range nm.keys {
		nm.byKey[sha256.Sum256(nm.tx(k))] = k
	}
	return nm
}

func (nm *c12Names) tx(key string) types.Tx { return c12TxBytes(key, nm.cfg.TxSize[key]) }

func (nm *c12Names) keyName(k types.TxKey) string {
	if n, ok := nm.byKey[k]; ok {
		return n
	}
	return "?" + fmt.Sprintf("%x", k[:3])
}

// ---------------------------------------------------------------- scripted ABCI side

func c12Response(v c12Verdict) *abci.ResponseCheckTx {
	code := abci.CodeTypeOK
	if !v.Ok {
		code = 1
	}
	return &abci.ResponseCheckTx{Code: code, GasWanted: v.Gas, Priority: v.Prio, Sender: v.Sender}
}

type c12Pending struct {
	tx   string
	kind string // "new" | "recheck"
	peer int
	h    int64
	resp chan c12Verdict
	done chan error // first-time checks: the CheckTx call returned
}

// c12Client: every CheckTxSync call waits on its own gate until the driver answers it.
type c12Client struct {
	arrivals chan *c12Pending
	mtx      sync.Mutex
	misuse   []string
}

func (c *c12Client) SetResponseCallback(cb abcicli.Callback) {}
func (c *c12Client) Error() error                            { return nil }

func (c *c12Client) CheckTxSync(req abci.RequestCheckTx) (*abci.ResponseCheckTx, error) {
	kind := "new"
	if req.Type == abci.CheckTxType_Recheck {
		kind = "recheck"
	}
	p := &c12Pending{tx: c12TxName(req.Tx), kind: kind, resp: make(chan c12Verdict, 1)}
	c.arrivals <- p
	return c12Response(<-p.resp), nil
}

func (c *c12Client) CheckTxAsync(req abci.RequestCheckTx) *abcicli.ReqRes {
	c.mtx.Lock()
	c.misuse = append(c.misuse, "CheckTxAsync called on the v1 mempool connection")
	c.mtx.Unlock()
	return abcicli.NewReqRes(abci.ToRequestCheckTx(req))
}

func (c *c12Client) FlushAsync() *abcicli.ReqRes { return abcicli.NewReqRes(abci.ToRequestFlush()) }
func (c *c12Client) FlushSync() error            { return nil }

// c12App: scripted application behind the real local client (sync mode and concurrent mode)
type c12App struct {
	abci.BaseApplication
	mtx  sync.Mutex
	next map[string]c12Verdict // verdict of the next first-time CheckTx of a tx
	rv   map[string]c12Verdict // verdicts of rechecks by tx name
	fn   func(tx string, recheck bool) c12Verdict
}

func (a *c12App) CheckTx(req abci.RequestCheckTx) abci.ResponseCheckTx {
	a.mtx.Lock()
	defer a.mtx.Unlock()
	name := c12TxName(req.Tx)
	if a.fn != nil {
		return *c12Response(a.fn(name, req.Type == abci.CheckTxType_Recheck))
	}
	m := a.next
	if req.Type == abci.CheckTxType_Recheck {
		m = a.rv
	}
	if v, ok := m[name]; ok {
		return *c12Response(v)
	}
	return *c12Response(c12Verdict{Ok: true, Gas: 1, Prio: 1})
}

// RecheckTimes metric: entry signal of handleRecheckResult
type c12Counter struct{ ch chan struct{} }

func (c *c12Counter) With(...string) metrics.Counter { return c }
func (c *c12Counter) Add(float64)                    { c.ch <- struct{}{} }

func c12Inside(fn string) bool {
	buf := make([]byte, 1<<20)
	n := runtime.Stack(buf, true)
	return bytes.Contains(buf[:n], []byte(fn))
}

// ---------------------------------------------------------------- the object under test

type c12Sys struct {
	cfg     c12Cfg
	mode    string
	nm      *c12Names
	mem     *TxMempool
	cl      *c12Client // async
	app     *c12App    // sync / conc
	rtimes  *c12Counter
	pending []*c12Pending // outstanding CheckTxSync calls (async), in the order of TMMempoolOps `inflight`
	rTotal  int           // rechecks of all rounds so far: issued by Update
	rSeen   int           // ... arrived at the client
	rDone   int           // ... answered
	pre     int64
	post    int64
	skips   int
}

func c12PreFn(limit int64) mempool.PreCheckFunc {
	if limit < 0 {
		return func(types.Tx) error { return nil }
	}
	return mempool.PreCheckMaxBytes(limit)
}

func newC12Sys(cfg c12Cfg, mode string) *c12Sys {
	s := &c12Sys{cfg: cfg, mode: mode, nm: newC12Names(cfg), pre: -1, post: -1}
	mc := config.DefaultMempoolConfig()
	mc.Version = config.MempoolV1
	mc.Size = cfg.Size
	mc.MaxTxsBytes = cfg.MaxTxsBytes
	mc.MaxTxBytes = cfg.MaxTxBytes
	mc.CacheSize = cfg.CacheSize
	mc.KeepInvalidTxsInCache = cfg.KeepInvalid
	mc.Recheck = cfg.Recheck
	mc.TTLNumBlocks = cfg.TTL
	mc.TTLDuration = 0
	m := mempool.NopMetrics()
	s.rtimes = &c12Counter{ch: make(chan struct{}, 1<<16)}
	m.RecheckTimes = s.rtimes
	if mode == "async" {
		s.cl = &c12Client{arrivals: make(chan *c12Pending, 1<<12)}
		s.mem = NewTxMempool(log.NewNopLogger(), mc, s.cl, 0, WithMetrics(m))
	} else {
		s.app = &c12App{next: map[string]c12Verdict{}, rv: map[string]c12Verdict{}}
		cli := abcicli.NewLocalClient(nil, s.app)
		if err := cli.Start(); err != nil {
			panic(err)
		}
		s.mem = NewTxMempool(log.NewNopLogger(), mc, cli, 0, WithMetrics(m))
	}
	return s
}

func (s *c12Sys) resetEvent(run int) c12M {
	return c12M{"ev": "Reset", "run": run, "mode": s.mode, "cfg": s.cfg, "h0": 0, "pre0": -1, "post0": -1}
}

// waitRechecksHandled: k more handleRecheckResult calls have been entered and all have returned
func (s *c12Sys) waitRechecksHandled(k int) {
	for i := 0; i < k; i++ {
		select {
		case <-s.rtimes.ch:
		case <-time.After(60 * time.Second):
			panic("harness: handleRecheckResult was not entered (RecheckTimes metric silent)")
		}
	}
	for c12Inside("handleRecheckResult") {
		runtime.Gosched()
	}
}

// project: the abstraction function (TMMempoolOps state record, non-ghost part)
func (s *c12Sys) project() c12M {
	mem := s.mem
	type ent struct {
		m  c12M
		ts time.Time
		e  *clist.CElement
	}
	ents := []ent{}
	for e := mem.txs.Front(); e != nil; e = e.Next() {
		w := e.Value.(*WrappedTx)
		peers := []int{}
		w.mtx.Lock()
		for p := range w.peers {
			peers = append(peers, int(p))
		}
		w.mtx.Unlock()
		sort.Ints(peers)
		ents = append(ents, ent{m: c12M{"tx": c12TxName(w.tx), "size": len(w.tx), "gas": w.GasWanted(), "prio": w.Priority(),
			"sender": w.Sender(), "height": w.height, "peers": peers}, ts: w.timestamp, e: e})
	}
	if s.mode == "conc" {
		// arrival = the timestamp taken before the lock; only under concurrency can it differ
		// from the list order
		sort.SliceStable(ents, func(a, b int) bool { return ents[a].ts.Before(ents[b].ts) })
	}
	pos := map[*clist.CElement]int{}
	pool := []c12M{}
	for i, x := range ents {
		pos[x.e] = i + 1
		pool = append(pool, x.m)
	}
	index := []c12M{}
	for k, e := range mem.txByKey {
		index = append(index, c12M{"k": s.nm.keyName(k), "p": pos[e]})
	}
	sort.Slice(index, func(a, b int) bool { return index[a]["k"].(string) < index[b]["k"].(string) })
	bysender := []string{}
	for k := range mem.txBySender {
		bysender = append(bysender, k)
	}
	sort.Strings(bysender)
	cache := []string{}
	if lru, ok := mem.cache.(*mempool.LRUTxCache); ok {
		for e := lru.GetList().Front(); e != nil; e = e.Next() {
			cache = append(cache, s.nm.keyName(e.Value.(types.TxKey)))
		}
	}
	has := []string{}
	for _, k := range s.nm.keys {
		if mem.cache.Has(s.nm.tx(k)) {
			has = append(has, k)
		}
	}
	inflight := []c12M{}
	for _, p := range s.pending {
		inflight = append(inflight, c12M{"tx": p.tx, "kind": p.kind, "peer": p.peer, "h": p.h})
	}
	reap := []string{}
	for _, tx := range mem.ReapMaxTxs(-1) {
		reap = append(reap, c12TxName(tx))
	}
	return c12M{"pool": pool, "index": index, "bytes": mem.SizeBytes(), "cache": cache, "has": has,
		"height": mem.height, "inflight": inflight, "rcur": 0, "rend": 0, "pre": s.pre, "post": s.post,
		"size": mem.Size(), "reap": reap, "bysender": bysender}
}

func c12ErrName(err error) string {
	switch {
	case err == nil:
		return "ok"
	case errors.Is(err, mempool.ErrTxInCache):
		return "incache"
	}
	switch err.(type) {
	case mempool.ErrMempoolIsFull:
		return "full"
	case mempool.ErrTxTooLarge:
		return "toolarge"
	case mempool.ErrPreCheck:
		return "precheck"
	}
	return "err:" + err.Error()
}

// c12Marshalled: the size of the reaped txs as the block's Data really encodes (the generated
// protobuf code, not the mempool's own accounting); an observation for TLC, not a verdict
func c12Marshalled(txs types.Txs) int {
	d := tmproto.Data{Txs: make([][]byte, len(txs))}
	for i, tx := range txs {
		d.Txs[i] = tx
	}
	return d.Size()
}

// c12EncLen: tag + varint(len) + len, used only to AIM byte limits at the encoded prefix sizes
func c12EncLen(n int) int64 {
	var buf [binary.MaxVarintLen64]byte
	return int64(1 + binary.PutUvarint(buf[:], uint64(n)) + n)
}

// c12TightLimit: a byte limit at the encoded size of a random prefix of the reap order, moved by
// 0, +-1, +-2 or -3
func c12TightLimit(rng *rand.Rand, all types.Txs) int64 {
	k := rng.Intn(len(all) + 1)
	var sum int64
	for _, tx := range all[:k] {
		sum += c12EncLen(len(tx))
	}
	b := sum + int64(rng.Intn(6)-3)
	if b < 0 {
		b = 0
	}
	return b
}

func c12Names2(txs types.Txs) []string {
	out := []string{}
	for _, tx := range txs {
		out = append(out, c12TxName(tx))
	}
	return out
}

// collectRechecks: the task group admits at most 2*NumCPU calls at a time; wait until every
// recheck that can have reached the client has done so, and file the new arrivals in list order
func (s *c12Sys) collectRechecks() {
	limit := 2 * runtime.NumCPU()
	want := s.rTotal
	if s.rDone+limit < want {
		want = s.rDone + limit
	}
	arrived := []*c12Pending{}
	for s.rSeen < want {
		select {
		case p := <-s.cl.arrivals:
			if p.kind != "recheck" {
				panic("harness: unexpected first-time CheckTxSync while collecting rechecks")
			}
			arrived = append(arrived, p)
			s.rSeen++
		case <-time.After(60 * time.Second):
			panic("harness: recheck requests did not reach the ABCI client")
		}
	}
	if len(arrived) == 0 {
		return
	}
	order := map[string]int{}
	i := 0
	for e := s.mem.txs.Front(); e != nil; e = e.Next() {
		i++
		n := c12TxName(e.Value.(*WrappedTx).tx)
		if _, ok := order[n]; !ok {
			order[n] = i
		}
	}
	sort.SliceStable(arrived, func(a, b int) bool { return order[arrived[a].tx] < order[arrived[b].tx] })
	s.pending = append(s.pending, arrived...)
}

func (s *c12Sys) find(kind, tx string) int {
	for i, p := range s.pending {
		if p.kind == kind && p.tx == tx {
			return i
		}
	}
	return -1
}

func (s *c12Sys) answer(i int, v c12Verdict) {
	p := s.pending[i]
	s.pending = append(s.pending[:i:i], s.pending[i+1:]...)
	p.resp <- v
	if p.kind == "new" {
		<-p.done
		return
	}
	s.rDone++
	s.waitRechecksHandled(1)
	s.collectRechecks()
}

// release every gate (end of a run)
func (s *c12Sys) releaseAll() {
	for len(s.pending) > 0 {
		s.answer(0, c12Verdict{Ok: false})
	}
}

func (s *c12Sys) exec(st c12Step) c12M {
	mem := s.mem
	if _, known := s.cfg.TxSize[st.Tx]; st.Tx != "" && !known {
		s.skips++
		return nil
	}
	switch st.Op {
	case "CheckTx_Admit", "CheckTx":
		if (st.Op == "CheckTx") != (s.mode != "async") {
			s.skips++
			return nil
		}
		v := c12Verdict{Ok: true, Gas: 1, Prio: 1}
		if st.V != nil {
			v = *st.V
		}
		tx := s.nm.tx(st.Tx)
		info := mempool.TxInfo{SenderID: uint16(st.Peer)}
		if s.cl == nil {
			s.app.next[st.Tx] = v
			err := mem.CheckTx(tx, nil, info)
			return c12M{"ev": "CheckTx", "tx": st.Tx, "peer": st.Peer, "res": c12ErrName(err), "v": v}
		}
		h := mem.height
		done := make(chan error, 1)
		go func() { done <- mem.CheckTx(tx, nil, info) }()
		select {
		case p := <-s.cl.arrivals:
			p.peer, p.h, p.done = st.Peer, h, done
			s.pending = append(s.pending, p)
			return c12M{"ev": st.Op, "tx": st.Tx, "peer": st.Peer, "res": "ok"}
		case err := <-done:
			return c12M{"ev": st.Op, "tx": st.Tx, "peer": st.Peer, "res": c12ErrName(err)}
		case <-time.After(60 * time.Second):
			panic("harness: CheckTx neither returned nor reached the application")
		}
	case "CheckTx_Response", "RecheckResponse":
		kind := "new"
		if st.Op == "RecheckResponse" {
			kind = "recheck"
		}
		i := -1
		if s.cl != nil && st.V != nil {
			i = s.find(kind, st.Tx)
		}
		if i < 0 {
			s.skips++
			return nil
		}
		s.answer(i, *st.V)
		return c12M{"ev": st.Op, "tx": st.Tx, "i": i + 1, "v": *st.V}
	case "Update":
		txs := types.Txs{}
		rs := []*abci.ResponseDeliverTx{}
		oks := []bool{}
		names := []string{}
		for i, k := range st.Txs {
			if _, known := s.cfg.TxSize[k]; !known {
				continue
			}
			ok := i < len(st.Oks) && st.Oks[i]
			code := abci.CodeTypeOK
			if !ok {
				code = 1
			}
			txs = append(txs, s.nm.tx(k))
			rs = append(rs, &abci.ResponseDeliverTx{Code: code})
			oks = append(oks, ok)
			names = append(names, k)
		}
		var pre mempool.PreCheckFunc
		var post mempool.PostCheckFunc
		if st.NPre != -2 {
			pre = c12PreFn(st.NPre)
			s.pre = st.NPre
		}
		if st.NPost != -2 {
			post = mempool.PostCheckMaxGas(st.NPost)
			s.post = st.NPost
		}
		if s.app != nil {
			s.app.rv = map[string]c12Verdict{}
			for _, r := range st.Rv {
				s.app.rv[r.Tx] = c12Verdict{Ok: r.Ok, Gas: r.Gas, Prio: r.Prio, Sender: r.Sender}
			}
		}
		h := mem.height + 1
		mem.Lock()
		_ = mem.FlushAppConn()
		_ = mem.Update(h, txs, rs, pre, post)
		n := 0
		rv := []c12RV{}
		if s.cfg.Recheck {
			n = mem.Size()
			if s.app != nil {
				for e := mem.txs.Front(); e != nil; e = e.Next() {
					k := c12TxName(e.Value.(*WrappedTx).tx)
					v, ok := s.app.rv[k]
					if !ok {
						v = c12Verdict{Ok: true, Gas: 1, Prio: 1}
					}
					rv = append(rv, c12RV{Tx: k, Ok: v.Ok, Gas: v.Gas, Prio: v.Prio, Sender: v.Sender})
				}
			}
		}
		mem.Unlock()
		if s.cl != nil {
			s.rTotal += n
			s.collectRechecks()
		} else {
			s.waitRechecksHandled(n) // answered by the application inside the task group, in any order
		}
		return c12M{"ev": "Update", "h": h, "txs": names, "oks": oks, "npre": st.NPre, "npost": st.NPost, "rv": rv}
	case "Flush":
		mem.Flush()
		return c12M{"ev": "Flush"}
	case "RemoveTxByKey":
		res := "ok"
		if err := mem.RemoveTxByKey(s.nm.tx(st.Tx).Key()); err != nil {
			res = "notfound"
		}
		return c12M{"ev": "RemoveTxByKey", "tx": st.Tx, "res": res}
	case "ReapMaxTxs":
		return c12M{"ev": "ReapMaxTxs", "n": st.N, "result": c12Names2(mem.ReapMaxTxs(st.N))}
	case "ReapMaxBytesMaxGas":
		res := mem.ReapMaxBytesMaxGas(st.B, st.G)
		return c12M{"ev": "ReapMaxBytesMaxGas", "b": st.B, "g": st.G, "result": c12Names2(res), "enc": c12Marshalled(res)}
	}
	s.skips++
	return nil
}

type c12Stats struct {
	Runs, Events, Skips int
	Panics              []string
	Misuse              []string
}

func (s *c12Sys) finish(stats *c12Stats, what string) {
	if p := recover(); p != nil {
		stats.Panics = append(stats.Panics, fmt.Sprintf("%s: %v", what, p))
		return // gates of a panicked run stay closed; the goroutines are abandoned
	}
	stats.Skips += s.skips
	if s.cl != nil {
		s.releaseAll()
		stats.Misuse = append(stats.Misuse, s.cl.misuse...)
	}
}

func c12RunOne(w *c12Writer, run int, r c12Run, stats *c12Stats) {
	s := newC12Sys(r.Cfg, r.Mode)
	w.emit(s.resetEvent(run))
	stats.Runs++
	defer s.finish(stats, fmt.Sprintf("run %d", run))
	for _, st := range r.Steps {
		ev := s.exec(st)
		if ev == nil {
			continue
		}
		ev["run"] = run
		ev["post"] = s.project()
		w.emit(ev)
		stats.Events++
	}
}

// ---------------------------------------------------------------- random driver

func c12RandomCfg(rng *rand.Rand) c12Cfg {
	nkeys := 3 + rng.Intn(4)
	cfg := c12Cfg{Version: "v1", TxSize: map[string]int{}}
	sizes := []int{1, 1, 2, 3, 5, 40, 130, 200}
	boundary := rng.Intn(3) == 0 // tx lengths around the varint steps of the protobuf length prefix
	if boundary {
		sizes = []int{1, 127, 128, 128, 129, 16383, 16384, 16384, 16385, 16511, 16512}
	}
	for i := 0; i < nkeys; i++ {
		cfg.TxSize[string(rune('a'+i))] = sizes[rng.Intn(len(sizes))]
	}
	cfg.Size = 1 + rng.Intn(4)
	sum := 0
	for _, v := range cfg.TxSize {
		sum += v
	}
	cfg.MaxTxsBytes = int64(1 + rng.Intn(sum+1))
	cfg.MaxTxBytes = []int{1, 2, 3, 50, 1000}[rng.Intn(5)]
	if boundary {
		cfg.MaxTxBytes = []int{20000, 20000, 20000, 16384}[rng.Intn(4)]
		cfg.Size = 2 + rng.Intn(3)
	}
	cfg.CacheSize = []int{0, 1, 1, 2, 2, 3, 100}[rng.Intn(7)]
	cfg.KeepInvalid = rng.Intn(3) == 0
	cfg.Recheck = rng.Intn(4) != 0
	cfg.TTL = []int64{0, 0, 1, 2}[rng.Intn(4)]
	return cfg
}

func c12RandVerdict(rng *rand.Rand) c12Verdict {
	return c12Verdict{Ok: rng.Intn(4) != 0, Gas: int64(rng.Intn(4)), Prio: int64(rng.Intn(4)),
		Sender: []string{"", "", "s", "t"}[rng.Intn(4)]}
}

func c12RandomRun(w *c12Writer, run int, rng *rand.Rand, n int, stats *c12Stats) {
	cfg := c12RandomCfg(rng)
	mode := "async"
	if rng.Intn(3) == 0 {
		mode = "sync"
	}
	s := newC12Sys(cfg, mode)
	w.emit(s.resetEvent(run))
	stats.Runs++
	defer s.finish(stats, fmt.Sprintf("random run %d", run))
	keys := s.nm.keys
	emit := func(st c12Step) {
		if ev := s.exec(st); ev != nil {
			ev["run"] = run
			ev["post"] = s.project()
			w.emit(ev)
			stats.Events++
		}
	}
	for k := 0; k < n; k++ {
		x := rng.Intn(100)
		switch {
		case x < 38:
			if len(s.pending) >= 6 {
				continue
			}
			v := c12RandVerdict(rng)
			op := "CheckTx_Admit"
			if mode == "sync" {
				op = "CheckTx"
			}
			emit(c12Step{Op: op, Tx: keys[rng.Intn(len(keys))], Peer: 1 + rng.Intn(3), V: &v})
		case x < 68:
			if len(s.pending) > 0 {
				p := s.pending[rng.Intn(len(s.pending))]
				v := c12RandVerdict(rng)
				op := "CheckTx_Response"
				if p.kind == "recheck" {
					op = "RecheckResponse"
				}
				emit(c12Step{Op: op, Tx: p.tx, V: &v})
			}
		case x < 80:
			st := c12Step{Op: "Update", NPre: -2, NPost: -2}
			perm := rng.Perm(len(keys))
			for _, j := range perm[:rng.Intn(3)] {
				st.Txs = append(st.Txs, keys[j])
				st.Oks = append(st.Oks, rng.Intn(4) != 0)
			}
			if rng.Intn(6) == 0 {
				st.NPre = []int64{-1, 3, 4, 7}[rng.Intn(4)]
			}
			if rng.Intn(6) == 0 {
				st.NPost = []int64{-1, 0, 1, 2}[rng.Intn(4)]
			}
			if mode == "sync" {
				for _, k := range keys {
					v := c12RandVerdict(rng)
					st.Rv = append(st.Rv, c12RV{Tx: k, Ok: v.Ok, Gas: v.Gas, Prio: v.Prio, Sender: v.Sender})
				}
			}
			emit(st)
		case x < 83:
			emit(c12Step{Op: "Flush"})
		case x < 87:
			emit(c12Step{Op: "RemoveTxByKey", Tx: keys[rng.Intn(len(keys))]})
		case x < 93:
			emit(c12Step{Op: "ReapMaxTxs", N: rng.Intn(5) - 1})
		default:
			if rng.Intn(2) == 0 {
				emit(c12Step{Op: "ReapMaxBytesMaxGas", B: c12TightLimit(rng, s.mem.ReapMaxTxs(-1)), G: -1})
			} else {
				emit(c12Step{Op: "ReapMaxBytesMaxGas", B: []int64{-1, 0, 3, 6, 7, 10, 50, 300}[rng.Intn(8)], G: int64(rng.Intn(7) - 1)})
			}
		}
	}
}

// ---------------------------------------------------------------- concurrent driver

// Goroutines submit repeats from many peers through the real local client while a block is
// committed and reaps run.  The block never contains a tx that is being submitted in the same
// round: v1 has no lock around the application's CheckTx, so a tx checked before and inserted
// after its own commit is the known "response after commit" race, which only the sequential
// driver can attribute.  Only the state at the quiescent point after each round is recorded.
func c12ConcRun(w *c12Writer, run int, rng *rand.Rand, stats *c12Stats) {
	cfg := c12Cfg{Version: "v1", TxSize: map[string]int{}, KeepInvalid: rng.Intn(2) == 0, Recheck: rng.Intn(3) != 0}
	nkeys := 6 + rng.Intn(4)
	for i := 0; i < nkeys; i++ {
		cfg.TxSize[string(rune('a'+i))] = 1 + rng.Intn(3)
	}
	cfg.Size = 2 + rng.Intn(4)
	cfg.MaxTxsBytes = int64(3 + rng.Intn(8))
	cfg.MaxTxBytes = 3
	cfg.CacheSize = []int{0, 1, 2, nkeys, 100}[rng.Intn(5)]
	judge := cfg.CacheSize == 0 || cfg.CacheSize >= nkeys
	s := newC12Sys(cfg, "conc")
	keys := s.nm.keys
	round := 0
	s.app.fn = func(tx string, recheck bool) c12Verdict {
		h := sha256.Sum256([]byte(fmt.Sprintf("%s/%d/%v/%d", tx, round, recheck, run)))
		sender := ""
		if h[3]%4 == 0 {
			sender = "s" + string(rune('0'+h[4]%2))
		}
		return c12Verdict{Ok: h[0]%5 != 0, Gas: int64(h[1] % 3), Prio: int64(h[2] % 4), Sender: sender}
	}
	w.emit(s.resetEvent(run))
	stats.Runs++
	defer func() {
		if p := recover(); p != nil {
			stats.Panics = append(stats.Panics, fmt.Sprintf("conc run %d: %v", run, p))
		}
	}()
	for round = 1; round <= 6; round++ {
		// split the alphabet: submitted this round / candidates for the block
		perm := rng.Perm(len(keys))
		cut := 2 + rng.Intn(len(keys)-3)
		submit, rest := []string{}, map[string]bool{}
		for i, j := range perm {
			if i < cut {
				submit = append(submit, keys[j])
			} else {
				rest[keys[j]] = true
			}
		}
		var wg sync.WaitGroup
		panics := make(chan string, 16)
		for g := 0; g < 6; g++ {
			seed := rng.Int63()
			wg.Add(1)
			go func(g int) {
				defer wg.Done()
				defer func() {
					if p := recover(); p != nil {
						panics <- fmt.Sprint(p)
					}
				}()
				r := rand.New(rand.NewSource(seed))
				for k := 0; k < 12; k++ {
					_ = s.mem.CheckTx(s.nm.tx(submit[r.Intn(len(submit))]), nil, mempool.TxInfo{SenderID: uint16(1 + g)})
					if r.Intn(4) == 0 {
						_ = s.mem.ReapMaxBytesMaxGas(int64(r.Intn(20)), -1)
					}
				}
			}(g)
		}
		block := []string{}
		nre := 0
		bseed := rng.Int63()
		wg.Add(1)
		go func() {
			defer wg.Done()
			defer func() {
				if p := recover(); p != nil {
					panics <- fmt.Sprint(p)
				}
			}()
			r := rand.New(rand.NewSource(bseed))
			var btxs types.Txs
			var rs []*abci.ResponseDeliverTx
			for _, tx := range s.mem.ReapMaxTxs(-1) {
				if n := c12TxName(tx); rest[n] && r.Intn(2) == 0 {
					block = append(block, n)
					btxs = append(btxs, tx)
					rs = append(rs, &abci.ResponseDeliverTx{Code: abci.CodeTypeOK})
					delete(rest, n)
				}
			}
			s.mem.Lock()
			defer s.mem.Unlock() // also when the mempool panics: the other goroutines must not hang
			_ = s.mem.FlushAppConn()
			_ = s.mem.Update(s.mem.height+1, btxs, rs, nil, nil)
			if cfg.Recheck {
				nre = s.mem.Size()
			}
		}()
		wg.Wait()
		close(panics)
		for p := range panics {
			stats.Panics = append(stats.Panics, fmt.Sprintf("conc run %d round %d: %s", run, round, p))
		}
		s.waitRechecksHandled(nre)
		w.emit(c12M{"ev": "Quiesce", "run": run, "round": round, "committed": block, "judge": judge, "post": s.project()})
		stats.Events++
	}
}

// ---------------------------------------------------------------- entry point

func TestVerifC12(t *testing.T) {
	inPath, outDir := os.Getenv("VERIF_IN"), os.Getenv("VERIF_OUT")
	if inPath == "" || outDir == "" {
		t.Skip("VERIF_IN / VERIF_OUT not set")
	}
	seed, _ := strconv.ParseInt(os.Getenv("VERIF_SEED"), 10, 64)
	raw, err := os.ReadFile(inPath)
	if err != nil {
		t.Fatal(err)
	}
	var in c12Input
	if err := json.Unmarshal(raw, &in); err != nil {
		t.Fatal(err)
	}
	f, err := os.Create(outDir + "/v1.ndjson")
	if err != nil {
		t.Fatal(err)
	}
	w := &c12Writer{f: f, enc: json.NewEncoder(f)}
	stats := &c12Stats{}
	run := 0
	for _, r := range in.Runs {
		run++
		c12RunOne(w, run, r, stats)
	}
	rng := rand.New(rand.NewSource(seed*7919 + 121))
	for k := 0; k < in.Random; k++ {
		run++
		c12RandomRun(w, run, rng, in.RandomLen, stats)
	}
	for k := 0; k < in.Conc; k++ {
		run++
		c12ConcRun(w, run, rng, stats)
	}
	f.Close()
	sb, _ := json.Marshal(stats)
	if err := os.WriteFile(outDir+"/v1.summary.json", sb, 0o644); err != nil {
		t.Fatal(err)
	}
	t.Logf("C12 v1 harness: %s", sb)
}
