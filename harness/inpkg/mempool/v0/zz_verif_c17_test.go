//go:build verif

package v0

// C17 harness, hostile half, mempool reactor (spec/TMReactorAlphabet.tla MemKinds/MemFC/MemPS).

import (
	"fmt"
	"os"
	"testing"
	"time"

	"github.com/gogo/protobuf/proto"

	"github.com/tendermint/tendermint/abci/example/kvstore"
	cfg "github.com/tendermint/tendermint/config"
	"github.com/tendermint/tendermint/mempool"
	"github.com/tendermint/tendermint/p2p"
	memproto "github.com/tendermint/tendermint/proto/tendermint/mempool"
	"github.com/tendermint/tendermint/proxy"
	"github.com/tendermint/tendermint/types"
)

type c17MemHooks struct {
	mp       map[string]*CListMempool
	cleanups []cleanupFunc
	n        int
}

func (h *c17MemHooks) envOf(ps string) string { return "node" }

func (h *c17MemHooks) newEnv(name string) *c17Env {
	conf := cfg.ResetTestRoot("c17_mempool")
	cc := proxy.NewLocalClientCreator(kvstore.NewApplication())
	mp, cleanup := newMempoolWithAppAndConfig(cc, conf)
	h.cleanups = append(h.cleanups, cleanup)
	h.mp[name] = mp
	r := NewReactor(conf.Mempool, mp)
	env := c17NewEnv(name, map[string]p2p.Reactor{"MEMPOOL": r}, []string{"MEMPOOL"})
	r.SetLogger(env.nlog)
	mp.SetLogger(env.nlog)
	return env
}

func (h *c17MemHooks) prepare(env *c17Env, ps string) {
	if ps == "known_height" {
		id := env.switches[1].NodeInfo().ID()
		if p := env.node().Peers().Get(id); p != nil {
			p.Set(types.PeerStateKey, peerState{1})
		}
	}
}

func c17MemWrap(txs [][]byte) []byte {
	b, err := proto.Marshal((&memproto.Txs{Txs: txs}).Wrap())
	if err != nil {
		panic(err)
	}
	return b
}

func (h *c17MemHooks) build(env *c17Env, c c17Case) (byte, []byte, bool) {
	h.n++
	tx := func(k int) []byte { return []byte(fmt.Sprintf("c17-%d-%d=v", h.n, k)) }
	switch c.Kind {
	case "Txs":
		switch c.FC {
		case "valid":
			return mempool.MempoolChannel, c17MemWrap([][]byte{tx(0)}), true
		case "list_empty":
			// Txs{} inside the oneof: two bytes (tag, length 0)
			return mempool.MempoolChannel, c17MemWrap(nil), true
		case "tx_empty":
			return mempool.MempoolChannel, c17MemWrap([][]byte{{}}), true
		case "tx_max":
			return mempool.MempoolChannel, c17MemWrap([][]byte{append(tx(0), make([]byte, 1048576-20)...)[:1048576]}), true
		case "tx_over_max":
			return mempool.MempoolChannel, c17MemWrap([][]byte{make([]byte, 1048576+1)}), true
		case "many_txs":
			var txs [][]byte
			for k := 0; k < 2000; k++ {
				txs = append(txs, tx(k))
			}
			return mempool.MempoolChannel, c17MemWrap(txs), true
		case "dup_txs":
			t := tx(0)
			return mempool.MempoolChannel, c17MemWrap([][]byte{t, t, t}), true
		case "tx_rejected":
			// kvstore accepts everything; a tx the mempool's own checks refuse (already in cache)
			t := tx(0)
			_ = h.mp[env.name].CheckTx(t, nil, mempool.TxInfo{})
			return mempool.MempoolChannel, c17MemWrap([][]byte{t}), true
		}
	case "Empty":
		return mempool.MempoolChannel, []byte{0x78, 0x01}, true
	}
	return 0, nil, false
}

func (h *c17MemHooks) probe(env *c17Env) string {
	mp := h.mp[env.name]
	if !c17WithTimeout(10*time.Second, func() { _ = mp.Size(); _ = mp.ReapMaxTxs(1) }) {
		return "mempool locked"
	}
	h.n++
	var err error
	if !c17WithTimeout(10*time.Second, func() {
		err = mp.CheckTx([]byte(fmt.Sprintf("c17-probe-%d=v", h.n)), nil, mempool.TxInfo{})
	}) {
		return "CheckTx hangs"
	}
	if err != nil && err != mempool.ErrTxInCache {
		if _, full := err.(mempool.ErrMempoolIsFull); !full {
			return "CheckTx: " + err.Error()
		}
		mp.Flush()
	}
	// keep the pool empty between cases: what one case put there is not re-broadcast in the next
	mp.Flush()
	return "ok"
}

func TestVerifC17Reactor(t *testing.T) {
	if os.Getenv("VERIF_IN") == "" || os.Getenv("VERIF_OUT") == "" {
		t.Skip("VERIF_IN / VERIF_OUT not set")
	}
	h := &c17MemHooks{mp: map[string]*CListMempool{}}
	c17Run(h, "mempool")
	for _, c := range h.cleanups {
		c()
	}
}
