//go:build verif

package v0

// C12 harness for mempool/v0 (CListMempool); see /verif/DESIGN.md section 5, C12 and
// /verif/spec/TMMempoolOps.tla.  It executes schedules (from TLC, or drawn by its own
// seeded random / concurrent drivers) on a REAL CListMempool through the production entry
// points (CheckTx, Lock/FlushAppConn/Update/Unlock, Flush, RemoveTxByKey, Reap*), projects
// the real object to the abstract state after every step and writes NDJSON.  It makes no
// judgement: TLC does (spec/trace/TMMempoolTrace.tla).
//
// Two ABCI clients:
//   async : c12Client, a scripted proxy.AppConnMempool with the semantics of the socket
//           client (FIFO request queue, global callback then request callback); the
//           response to a request is delivered when the schedule says so
//   sync  : the real abcicli.NewLocalClient over a scripted abci.Application (every
//           response is delivered inside the call that made the request)

import (
	"crypto/sha256"
	"encoding/binary"
	"encoding/json"
	"errors"
	"fmt"
	"math/rand"
	"os"
	"sort"
	"strconv"
	"strings"
	"sync"
	"testing"

	abcicli "github.com/tendermint/tendermint/abci/client"
	abci "github.com/tendermint/tendermint/abci/types"
	"github.com/tendermint/tendermint/config"
	"github.com/tendermint/tendermint/libs/clist"
	"github.com/tendermint/tendermint/mempool"
	tmproto "github.com/tendermint/tendermint/proto/tendermint/types"
	"github.com/tendermint/tendermint/types"
)

// ---------------------------------------------------------------- input / trace format

type c12Cfg struct {
	Version     string         `json:"version"`
	Size        int            `json:"size"`
	MaxTxsBytes int64          `json:"maxTxsBytes"`
	MaxTxBytes  int            `json:"maxTxBytes"`
	CacheSize   int            `json:"cacheSize"`
	KeepInvalid bool           `json:"keepInvalid"`
	Recheck     bool           `json:"recheck"`
	TTL         int64          `json:"ttl"`
	TxSize      map[string]int `json:"txsize"`
}

type c12Verdict struct {
	Ok     bool   `json:"ok"`
	Gas    int64  `json:"gas"`
	Prio   int64  `json:"prio"`
	Sender string `json:"sender"`
}

type c12RV struct {
	Tx     string `json:"tx"`
	Ok     bool   `json:"ok"`
	Gas    int64  `json:"gas"`
	Prio   int64  `json:"prio"`
	Sender string `json:"sender"`
}

type c12Step struct {
	Op    string      `json:"op"`
	Tx    string      `json:"tx,omitempty"`
	Peer  int         `json:"peer,omitempty"`
	V     *c12Verdict `json:"v,omitempty"`
	H     int64       `json:"h,omitempty"`
	Txs   []string    `json:"txs,omitempty"`
	Oks   []bool      `json:"oks,omitempty"`
	NPre  int64       `json:"npre,omitempty"`
	NPost int64       `json:"npost,omitempty"`
	Rv    []c12RV     `json:"rv,omitempty"`
	N     int         `json:"n,omitempty"`
	B     int64       `json:"b,omitempty"`
	G     int64       `json:"g,omitempty"`
}

type c12Run struct {
	Cfg   c12Cfg    `json:"cfg"`
	Mode  string    `json:"mode"` // "async" | "sync"
	Steps []c12Step `json:"steps"`
}

type c12Input struct {
	Runs      []c12Run `json:"runs"`
	Random    int      `json:"random"`
	RandomLen int      `json:"randomLen"`
	Conc      int      `json:"conc"`
}

type c12M = map[string]interface{}

type c12Writer struct {
	f   *os.File
	enc *json.Encoder
	n   int
}

func (w *c12Writer) emit(v interface{}) {
	if err := w.enc.Encode(v); err != nil {
		panic(err)
	}
	w.n++
}

// ---------------------------------------------------------------- tx naming

func c12TxBytes(key string, size int) types.Tx {
	if size < len(key) {
		size = len(key)
	}
	b := make([]byte, size)
	copy(b, key)
	for i := len(key); i < size; i++ {
		b[i] = '.'
	}
	return types.Tx(b)
}

func c12TxName(tx []byte) string { return strings.TrimRight(string(tx), ".") }

type c12Names struct {
	cfg   c12Cfg
	keys  []string            // sorted alphabet
	byKey map[[32]byte]string // sha256(tx bytes) -> name
}

func newC12Names(cfg c12Cfg) *c12Names {
	nm := &c12Names{cfg: cfg, byKey: map[[32]byte]string{}}
	for k := range cfg.TxSize {
		nm.keys = append(nm.keys, k)
	}
	sort.Strings(nm.keys)
	for _, k := range nm.keys {
		nm.byKey[sha256.Sum256(nm.tx(k))] = k
	}
	return nm
}

func (nm *c12Names) tx(key string) types.Tx { return c12TxBytes(key, nm.cfg.TxSize[key]) }

func (nm *c12Names) keyName(k types.TxKey) string {
	if n, ok := nm.byKey[k]; ok {
		return n
	}
	return "?" + fmt.Sprintf("%x", k[:3])
}

// ---------------------------------------------------------------- scripted ABCI side

type c12Req struct {
	rr   *abcicli.ReqRes
	tx   string
	kind string // "new" | "recheck"
	peer int
}

// c12Client: asynchronous client with the observable semantics of abcicli.socketClient
// (requests answered in FIFO order; on a response: global callback, then the request's own
// callback), but the response is produced when the driver calls deliver.
type c12Client struct {
	cb       abcicli.Callback
	queue    []*c12Req
	nextPeer int
	misuse   []string
}

func (c *c12Client) SetResponseCallback(cb abcicli.Callback) { c.cb = cb }
func (c *c12Client) Error() error                            { return nil }

func (c *c12Client) CheckTxAsync(req abci.RequestCheckTx) *abcicli.ReqRes {
	rr := abcicli.NewReqRes(abci.ToRequestCheckTx(req))
	kind, peer := "new", c.nextPeer
	if req.Type == abci.CheckTxType_Recheck {
		kind, peer = "recheck", 0
	}
	c.queue = append(c.queue, &c12Req{rr: rr, tx: c12TxName(req.Tx), kind: kind, peer: peer})
	return rr
}

func (c *c12Client) CheckTxSync(req abci.RequestCheckTx) (*abci.ResponseCheckTx, error) {
	c.misuse = append(c.misuse, "CheckTxSync called on the v0 mempool connection")
	return &abci.ResponseCheckTx{Code: 1}, nil
}

func (c *c12Client) FlushAsync() *abcicli.ReqRes {
	return abcicli.NewReqRes(abci.ToRequestFlush())
}

// FlushSync returns when every earlier request has been answered; the driver only calls
// FlushAppConn with an empty queue (it delivers the outstanding responses first).
func (c *c12Client) FlushSync() error {
	if len(c.queue) != 0 {
		c.misuse = append(c.misuse, "FlushSync with outstanding requests")
	}
	return nil
}

func c12Response(v c12Verdict) *abci.ResponseCheckTx {
	code := abci.CodeTypeOK
	if !v.Ok {
		code = 1
	}
	return &abci.ResponseCheckTx{Code: code, GasWanted: v.Gas, Priority: v.Prio, Sender: v.Sender}
}

// deliver answers the oldest outstanding request.
func (c *c12Client) deliver(v c12Verdict) {
	rq := c.queue[0]
	c.queue = c.queue[1:]
	rq.rr.Response = abci.ToResponseCheckTx(*c12Response(v))
	rq.rr.Done()
	if c.cb != nil {
		c.cb(rq.rr.Request, rq.rr.Response)
	}
	rq.rr.InvokeCallback()
}

// c12App: scripted application behind the real local client (sync mode and concurrent mode)
type c12App struct {
	abci.BaseApplication
	mtx   sync.Mutex
	next  c12Verdict            // verdict of the next first-time CheckTx
	rv    map[string]c12Verdict // verdicts of rechecks by tx name
	fn    func(tx string, recheck bool) c12Verdict
	calls int
}

func (a *c12App) CheckTx(req abci.RequestCheckTx) abci.ResponseCheckTx {
	a.mtx.Lock()
	defer a.mtx.Unlock()
	a.calls++
	name := c12TxName(req.Tx)
	if a.fn != nil {
		return *c12Response(a.fn(name, req.Type == abci.CheckTxType_Recheck))
	}
	if req.Type == abci.CheckTxType_Recheck {
		if v, ok := a.rv[name]; ok {
			return *c12Response(v)
		}
		return *c12Response(c12Verdict{Ok: true, Gas: 1})
	}
	return *c12Response(a.next)
}

// ---------------------------------------------------------------- the object under test

type c12Sys struct {
	cfg   c12Cfg
	mode  string
	nm    *c12Names
	mem   *CListMempool
	cl    *c12Client // async
	app   *c12App    // sync / conc
	pre   int64
	post  int64
	skips int
}

func c12PreFn(limit int64) mempool.PreCheckFunc {
	if limit < 0 {
		return func(types.Tx) error { return nil }
	}
	return mempool.PreCheckMaxBytes(limit)
}

func newC12Sys(cfg c12Cfg, mode string) *c12Sys {
	s := &c12Sys{cfg: cfg, mode: mode, nm: newC12Names(cfg), pre: -1, post: -1}
	mc := config.DefaultMempoolConfig()
	mc.Version = config.MempoolV0
	mc.Size = cfg.Size
	mc.MaxTxsBytes = cfg.MaxTxsBytes
	mc.MaxTxBytes = cfg.MaxTxBytes
	mc.CacheSize = cfg.CacheSize
	mc.KeepInvalidTxsInCache = cfg.KeepInvalid
	mc.Recheck = cfg.Recheck
	mc.TTLNumBlocks = cfg.TTL
	mc.TTLDuration = 0
	if mode == "async" {
		s.cl = &c12Client{}
		s.mem = NewCListMempool(mc, s.cl, 0)
	} else {
		s.app = &c12App{rv: map[string]c12Verdict{}}
		cli := abcicli.NewLocalClient(nil, s.app)
		if err := cli.Start(); err != nil {
			panic(err)
		}
		s.mem = NewCListMempool(mc, cli, 0)
	}
	return s
}

func (s *c12Sys) resetEvent(run int) c12M {
	return c12M{"ev": "Reset", "run": run, "mode": s.mode, "cfg": s.cfg, "h0": 0, "pre0": -1, "post0": -1}
}

// project: the abstraction function (TMMempoolOps state record, non-ghost part)
func (s *c12Sys) project() c12M {
	mem := s.mem
	pos := map[*clist.CElement]int{}
	pool := []c12M{}
	i := 0
	for e := mem.txs.Front(); e != nil; e = e.Next() {
		i++
		pos[e] = i
		mt := e.Value.(*mempoolTx)
		peers := []int{}
		mt.senders.Range(func(k, _ interface{}) bool {
			peers = append(peers, int(k.(uint16)))
			return true
		})
		sort.Ints(peers)
		pool = append(pool, c12M{"tx": c12TxName(mt.tx), "size": len(mt.tx), "gas": mt.gasWanted, "prio": 0,
			"sender": "", "height": mt.height, "peers": peers})
	}
	index := []c12M{}
	mem.txsMap.Range(func(k, v interface{}) bool {
		index = append(index, c12M{"k": s.nm.keyName(k.(types.TxKey)), "p": pos[v.(*clist.CElement)]})
		return true
	})
	sort.Slice(index, func(a, b int) bool { return index[a]["k"].(string) < index[b]["k"].(string) })
	cache := []string{}
	if lru, ok := mem.cache.(*mempool.LRUTxCache); ok {
		for e := lru.GetList().Front(); e != nil; e = e.Next() {
			cache = append(cache, s.nm.keyName(e.Value.(types.TxKey)))
		}
	}
	has := []string{}
	for _, k := range s.nm.keys {
		if mem.cache.Has(s.nm.tx(k)) {
			has = append(has, k)
		}
	}
	rcur, rend := 0, 0
	if mem.recheckCursor != nil {
		rcur, rend = pos[mem.recheckCursor], pos[mem.recheckEnd]
	}
	inflight := []c12M{}
	if s.cl != nil {
		for _, rq := range s.cl.queue {
			inflight = append(inflight, c12M{"tx": rq.tx, "kind": rq.kind, "peer": rq.peer, "h": 0})
		}
	}
	reap := []string{}
	for _, tx := range mem.ReapMaxTxs(-1) {
		reap = append(reap, c12TxName(tx))
	}
	return c12M{"pool": pool, "index": index, "bytes": mem.SizeBytes(), "cache": cache, "has": has,
		"height": mem.height, "inflight": inflight, "rcur": rcur, "rend": rend, "pre": s.pre, "post": s.post,
		"size": mem.Size(), "reap": reap, "bysender": []string{}}
}

func c12ErrName(err error) string {
	switch {
	case err == nil:
		return "ok"
	case errors.Is(err, mempool.ErrTxInCache):
		return "incache"
	}
	switch err.(type) {
	case mempool.ErrMempoolIsFull:
		return "full"
	case mempool.ErrTxTooLarge:
		return "toolarge"
	case mempool.ErrPreCheck:
		return "precheck"
	}
	return "err:" + err.Error()
}

// c12Marshalled: the size of the reaped txs as the block's Data really encodes (the generated
// protobuf code, not the mempool's own accounting); an observation for TLC, not a verdict
func c12Marshalled(txs types.Txs) int {
	d := tmproto.Data{Txs: make([][]byte, len(txs))}
	for i, tx := range txs {
		d.Txs[i] = tx
	}
	return d.Size()
}

// c12EncLen: tag + varint(len) + len, used only to AIM byte limits at the encoded prefix sizes
func c12EncLen(n int) int64 {
	var buf [binary.MaxVarintLen64]byte
	return int64(1 + binary.PutUvarint(buf[:], uint64(n)) + n)
}

// c12TightLimit: a byte limit at the encoded size of a random prefix of the reap order, moved by
// 0, +-1, +-2 or -3
func c12TightLimit(rng *rand.Rand, all types.Txs) int64 {
	k := rng.Intn(len(all) + 1)
	var sum int64
	for _, tx := range all[:k] {
		sum += c12EncLen(len(tx))
	}
	b := sum + int64(rng.Intn(6)-3)
	if b < 0 {
		b = 0
	}
	return b
}

func c12Names2(txs types.Txs) []string {
	out := []string{}
	for _, tx := range txs {
		out = append(out, c12TxName(tx))
	}
	return out
}

// exec performs one schedule step on the real mempool; returns the event (nil = the step
// is not executable on the real object in its current state and was skipped).
func (s *c12Sys) exec(st c12Step) c12M {
	mem := s.mem
	if _, known := s.cfg.TxSize[st.Tx]; st.Tx != "" && !known {
		s.skips++
		return nil
	}
	switch st.Op {
	case "CheckTx_Admit", "CheckTx":
		if (st.Op == "CheckTx") != (s.mode != "async") {
			s.skips++
			return nil
		}
		v := c12Verdict{Ok: true, Gas: 1}
		if st.V != nil {
			v = *st.V
		}
		if s.cl != nil {
			s.cl.nextPeer = st.Peer
		} else {
			s.app.next = v
		}
		err := mem.CheckTx(s.nm.tx(st.Tx), nil, mempool.TxInfo{SenderID: uint16(st.Peer)})
		ev := c12M{"ev": st.Op, "tx": st.Tx, "peer": st.Peer, "res": c12ErrName(err)}
		if st.Op == "CheckTx" {
			ev["v"] = v
		}
		return ev
	case "CheckTx_Response", "RecheckResponse":
		kind := "new"
		if st.Op == "RecheckResponse" {
			kind = "recheck"
		}
		if s.cl == nil || len(s.cl.queue) == 0 || s.cl.queue[0].kind != kind || s.cl.queue[0].tx != st.Tx || st.V == nil {
			s.skips++
			return nil
		}
		s.cl.deliver(*st.V)
		return c12M{"ev": st.Op, "tx": st.Tx, "i": 1, "v": *st.V}
	case "Update":
		if s.cl != nil && len(s.cl.queue) != 0 {
			s.skips++
			return nil
		}
		txs := types.Txs{}
		rs := []*abci.ResponseDeliverTx{}
		oks := []bool{}
		names := []string{}
		for i, k := range st.Txs {
			if _, known := s.cfg.TxSize[k]; !known {
				continue
			}
			ok := i < len(st.Oks) && st.Oks[i]
			code := abci.CodeTypeOK
			if !ok {
				code = 1
			}
			txs = append(txs, s.nm.tx(k))
			rs = append(rs, &abci.ResponseDeliverTx{Code: code})
			oks = append(oks, ok)
			names = append(names, k)
		}
		var pre mempool.PreCheckFunc
		var post mempool.PostCheckFunc
		if st.NPre != -2 {
			pre = c12PreFn(st.NPre)
			s.pre = st.NPre
		}
		if st.NPost != -2 {
			post = mempool.PostCheckMaxGas(st.NPost)
			s.post = st.NPost
		}
		rv := []c12RV{}
		if s.app != nil {
			s.app.rv = map[string]c12Verdict{}
			for _, r := range st.Rv {
				s.app.rv[r.Tx] = c12Verdict{Ok: r.Ok, Gas: r.Gas, Prio: r.Prio, Sender: r.Sender}
			}
		}
		h := mem.height + 1
		mem.Lock()
		_ = mem.FlushAppConn()
		if s.app != nil && s.cfg.Recheck {
			// the rechecks are answered inside Update, in list order, for the txs that survive
			// the block: log the verdict each of them gets
			inBlock := map[string]bool{}
			for _, k := range names {
				inBlock[k] = true
			}
			for e := mem.txs.Front(); e != nil; e = e.Next() {
				k := c12TxName(e.Value.(*mempoolTx).tx)
				if em, ok := mem.txsMap.Load(types.Tx(e.Value.(*mempoolTx).tx).Key()); ok && em.(*clist.CElement) == e && inBlock[k] {
					continue // this element is removed by the block
				}
				v, ok := s.app.rv[k]
				if !ok {
					v = c12Verdict{Ok: true, Gas: 1}
				}
				rv = append(rv, c12RV{Tx: k, Ok: v.Ok, Gas: v.Gas, Prio: v.Prio, Sender: v.Sender})
			}
		}
		_ = mem.Update(h, txs, rs, pre, post)
		mem.Unlock()
		return c12M{"ev": "Update", "h": h, "txs": names, "oks": oks, "npre": st.NPre, "npost": st.NPost, "rv": rv}
	case "Flush":
		if mem.recheckCursor != nil {
			s.skips++
			return nil
		}
		mem.Flush()
		return c12M{"ev": "Flush"}
	case "RemoveTxByKey":
		if mem.recheckCursor != nil {
			s.skips++
			return nil
		}
		res := "ok"
		if err := mem.RemoveTxByKey(s.nm.tx(st.Tx).Key()); err != nil {
			res = "notfound"
		}
		return c12M{"ev": "RemoveTxByKey", "tx": st.Tx, "res": res}
	case "ReapMaxTxs":
		return c12M{"ev": "ReapMaxTxs", "n": st.N, "result": c12Names2(mem.ReapMaxTxs(st.N))}
	case "ReapMaxBytesMaxGas":
		res := mem.ReapMaxBytesMaxGas(st.B, st.G)
		return c12M{"ev": "ReapMaxBytesMaxGas", "b": st.B, "g": st.G, "result": c12Names2(res), "enc": c12Marshalled(res)}
	}
	s.skips++
	return nil
}

type c12Stats struct {
	Runs, Events, Skips int
	Panics              []string
	Misuse              []string
}

func c12RunOne(w *c12Writer, run int, r c12Run, stats *c12Stats) {
	s := newC12Sys(r.Cfg, r.Mode)
	w.emit(s.resetEvent(run))
	stats.Runs++
	defer func() {
		if p := recover(); p != nil {
			stats.Panics = append(stats.Panics, fmt.Sprintf("run %d: %v", run, p))
		}
		stats.Skips += s.skips
		if s.cl != nil {
			stats.Misuse = append(stats.Misuse, s.cl.misuse...)
		}
	}()
	for _, st := range r.Steps {
		ev := s.exec(st)
		if ev == nil {
			continue
		}
		ev["run"] = run
		ev["post"] = s.project()
		w.emit(ev)
		stats.Events++
	}
}

// ---------------------------------------------------------------- random driver

func c12RandomCfg(rng *rand.Rand) c12Cfg {
	nkeys := 3 + rng.Intn(4)
	cfg := c12Cfg{Version: "v0", TxSize: map[string]int{}}
	sizes := []int{1, 1, 2, 3, 5, 40, 130, 200}
	boundary := rng.Intn(3) == 0 // tx lengths around the varint steps of the protobuf length prefix
	if boundary {
		sizes = []int{1, 127, 128, 128, 129, 16383, 16384, 16384, 16385, 16511, 16512}
	}
	for i := 0; i < nkeys; i++ {
		cfg.TxSize[string(rune('a'+i))] = sizes[rng.Intn(len(sizes))]
	}
	cfg.Size = 1 + rng.Intn(4)
	sum := 0
	for _, v := range cfg.TxSize {
		sum += v
	}
	cfg.MaxTxsBytes = int64(1 + rng.Intn(sum+1))
	cfg.MaxTxBytes = []int{1, 2, 3, 50, 1000}[rng.Intn(5)]
	if boundary {
		cfg.MaxTxBytes = []int{20000, 20000, 20000, 16384}[rng.Intn(4)]
		cfg.Size = 2 + rng.Intn(3)
	}
	cfg.CacheSize = []int{0, 1, 1, 2, 2, 3, 100}[rng.Intn(7)]
	cfg.KeepInvalid = rng.Intn(3) == 0
	cfg.Recheck = rng.Intn(4) != 0
	return cfg
}

func c12RandVerdict(rng *rand.Rand) c12Verdict {
	return c12Verdict{Ok: rng.Intn(4) != 0, Gas: int64(rng.Intn(4)), Prio: 0, Sender: ""}
}

// c12RandomRun draws the next step from the current state of the real object (only which
// steps are executable is read from it, never whether their outcome is right).
func c12RandomRun(w *c12Writer, run int, rng *rand.Rand, n int, stats *c12Stats) {
	cfg := c12RandomCfg(rng)
	mode := "async"
	if rng.Intn(3) == 0 {
		mode = "sync"
	}
	s := newC12Sys(cfg, mode)
	w.emit(s.resetEvent(run))
	stats.Runs++
	defer func() {
		if p := recover(); p != nil {
			stats.Panics = append(stats.Panics, fmt.Sprintf("random run %d: %v", run, p))
		}
		stats.Skips += s.skips
	}()
	keys := s.nm.keys
	emit := func(st c12Step) {
		if ev := s.exec(st); ev != nil {
			ev["run"] = run
			ev["post"] = s.project()
			w.emit(ev)
			stats.Events++
		}
	}
	drain := func() {
		for s.cl != nil && len(s.cl.queue) > 0 {
			v := c12RandVerdict(rng)
			op := "CheckTx_Response"
			if s.cl.queue[0].kind == "recheck" {
				op = "RecheckResponse"
			}
			emit(c12Step{Op: op, Tx: s.cl.queue[0].tx, V: &v})
		}
	}
	for k := 0; k < n; k++ {
		x := rng.Intn(100)
		switch {
		case x < 40:
			v := c12RandVerdict(rng)
			op := "CheckTx_Admit"
			if mode == "sync" {
				op = "CheckTx"
			}
			emit(c12Step{Op: op, Tx: keys[rng.Intn(len(keys))], Peer: 1 + rng.Intn(3), V: &v})
		case x < 65:
			if s.cl != nil && len(s.cl.queue) > 0 {
				v := c12RandVerdict(rng)
				op := "CheckTx_Response"
				if s.cl.queue[0].kind == "recheck" {
					op = "RecheckResponse"
				}
				emit(c12Step{Op: op, Tx: s.cl.queue[0].tx, V: &v})
			}
		case x < 78:
			drain()
			st := c12Step{Op: "Update", NPre: -2, NPost: -2}
			perm := rng.Perm(len(keys))
			for _, j := range perm[:rng.Intn(3)] {
				st.Txs = append(st.Txs, keys[j])
				st.Oks = append(st.Oks, rng.Intn(4) != 0)
			}
			if rng.Intn(6) == 0 {
				st.NPre = []int64{-1, 3, 4, 7}[rng.Intn(4)]
			}
			if rng.Intn(6) == 0 {
				st.NPost = []int64{-1, 0, 1, 2}[rng.Intn(4)]
			}
			if mode == "sync" {
				for _, k := range keys {
					v := c12RandVerdict(rng)
					st.Rv = append(st.Rv, c12RV{Tx: k, Ok: v.Ok, Gas: v.Gas})
				}
			}
			emit(st)
		case x < 82:
			emit(c12Step{Op: "Flush"})
		case x < 86:
			emit(c12Step{Op: "RemoveTxByKey", Tx: keys[rng.Intn(len(keys))]})
		case x < 93:
			emit(c12Step{Op: "ReapMaxTxs", N: rng.Intn(5) - 1})
		default:
			if rng.Intn(2) == 0 {
				emit(c12Step{Op: "ReapMaxBytesMaxGas", B: c12TightLimit(rng, s.mem.ReapMaxTxs(-1)), G: -1})
			} else {
				emit(c12Step{Op: "ReapMaxBytesMaxGas", B: []int64{-1, 0, 3, 6, 7, 10, 50, 300}[rng.Intn(8)], G: int64(rng.Intn(7) - 1)})
			}
		}
	}
}

// ---------------------------------------------------------------- concurrent driver

// Goroutines submit repeats from many peers through the real local client while blocks are
// committed under Lock/FlushAppConn/Update/Unlock and reaps run.  Only the state at the
// quiescent point after each round is recorded (validated at level 2).
func c12ConcRun(w *c12Writer, run int, rng *rand.Rand, stats *c12Stats) {
	cfg := c12Cfg{Version: "v0", TxSize: map[string]int{}, KeepInvalid: rng.Intn(2) == 0, Recheck: rng.Intn(3) != 0}
	nkeys := 6 + rng.Intn(4)
	for i := 0; i < nkeys; i++ {
		cfg.TxSize[string(rune('a'+i))] = 1 + rng.Intn(3)
	}
	cfg.Size = 2 + rng.Intn(4)
	cfg.MaxTxsBytes = int64(3 + rng.Intn(8))
	cfg.MaxTxBytes = 3
	cfg.CacheSize = []int{0, 1, 2, nkeys, 100}[rng.Intn(5)]
	judge := cfg.CacheSize == 0 || cfg.CacheSize >= nkeys
	s := newC12Sys(cfg, "conc")
	keys := s.nm.keys
	round := 0
	s.app.fn = func(tx string, recheck bool) c12Verdict {
		h := sha256.Sum256([]byte(fmt.Sprintf("%s/%d/%v/%d", tx, round, recheck, run)))
		return c12Verdict{Ok: h[0]%5 != 0, Gas: int64(h[1] % 3)}
	}
	w.emit(s.resetEvent(run))
	stats.Runs++
	defer func() {
		if p := recover(); p != nil {
			stats.Panics = append(stats.Panics, fmt.Sprintf("conc run %d: %v", run, p))
		}
	}()
	for round = 1; round <= 6; round++ {
		var wg sync.WaitGroup
		panics := make(chan string, 16)
		for g := 0; g < 6; g++ {
			seed := rng.Int63()
			wg.Add(1)
			go func(g int) {
				defer wg.Done()
				defer func() {
					if p := recover(); p != nil {
						panics <- fmt.Sprint(p)
					}
				}()
				r := rand.New(rand.NewSource(seed))
				for k := 0; k < 12; k++ {
					_ = s.mem.CheckTx(s.nm.tx(keys[r.Intn(len(keys))]), nil, mempool.TxInfo{SenderID: uint16(1 + g)})
					if r.Intn(4) == 0 {
						_ = s.mem.ReapMaxBytesMaxGas(int64(r.Intn(20)), -1)
					}
				}
			}(g)
		}
		block := []string{}
		bseed := rng.Int63()
		wg.Add(1)
		go func() {
			defer wg.Done()
			defer func() {
				if p := recover(); p != nil {
					panics <- fmt.Sprint(p)
				}
			}()
			r := rand.New(rand.NewSource(bseed))
			txs := s.mem.ReapMaxTxs(1 + r.Intn(3))
			if r.Intn(3) == 0 {
				txs = append(txs, s.nm.tx(keys[r.Intn(len(keys))]))
			}
			seen := map[string]bool{}
			var btxs types.Txs
			var rs []*abci.ResponseDeliverTx
			for _, tx := range txs {
				if n := c12TxName(tx); !seen[n] {
					seen[n] = true
					block = append(block, n)
					btxs = append(btxs, tx)
					rs = append(rs, &abci.ResponseDeliverTx{Code: abci.CodeTypeOK})
				}
			}
			s.mem.Lock()
			defer s.mem.Unlock() // also when the mempool panics: the other goroutines must not hang
			_ = s.mem.FlushAppConn()
			_ = s.mem.Update(s.mem.height+1, btxs, rs, nil, nil)
		}()
		wg.Wait()
		close(panics)
		for p := range panics {
			stats.Panics = append(stats.Panics, fmt.Sprintf("conc run %d round %d: %s", run, round, p))
		}
		w.emit(c12M{"ev": "Quiesce", "run": run, "round": round, "committed": block, "judge": judge, "post": s.project()})
		stats.Events++
	}
}

// ---------------------------------------------------------------- entry point

func TestVerifC12(t *testing.T) {
	inPath, outDir := os.Getenv("VERIF_IN"), os.Getenv("VERIF_OUT")
	if inPath == "" || outDir == "" {
		t.Skip("VERIF_IN / VERIF_OUT not set")
	}
	seed, _ := strconv.ParseInt(os.Getenv("VERIF_SEED"), 10, 64)
	raw, err := os.ReadFile(inPath)
	if err != nil {
		t.Fatal(err)
	}
	var in c12Input
	if err := json.Unmarshal(raw, &in); err != nil {
		t.Fatal(err)
	}
	f, err := os.Create(outDir + "/v0.ndjson")
	if err != nil {
		t.Fatal(err)
	}
	w := &c12Writer{f: f, enc: json.NewEncoder(f)}
	stats := &c12Stats{}
	run := 0
	for _, r := range in.Runs {
		run++
		c12RunOne(w, run, r, stats)
	}
	rng := rand.New(rand.NewSource(seed*7919 + 12))
	for k := 0; k < in.Random; k++ {
		run++
		c12RandomRun(w, run, rng, in.RandomLen, stats)
	}
	for k := 0; k < in.Conc; k++ {
		run++
		c12ConcRun(w, run, rng, stats)
	}
	f.Close()
	sb, _ := json.Marshal(stats)
	if err := os.WriteFile(outDir+"/v0.summary.json", sb, 0o644); err != nil {
		t.Fatal(err)
	}
	t.Logf("C12 v0 harness: %s", sb)
}
