//go:build verif

package pubsub

// C19 harness, pub-sub half (see /verif/DESIGN.md section 5, C19).
//
// Executes schedules (API calls of several clients + reads of buffered subscriptions) on
// a REAL pubsub.Server whose REAL loop goroutine is running, with REAL query.Query
// objects.  After every API call the harness waits until the loop has processed every
// queued command (by pushing no-op commands through Server.cmds) and then projects the
// observable state of every subscription object (Out() backlog, Cancelled(), Err(), what
// the client has read so far) plus the API-side registry.  Output is NDJSON validated by
// TLC (spec/trace/TMPubSubTrace.tla).  The harness gives no verdicts.

import (
	"context"
	"crypto/sha1"
	"encoding/json"
	"fmt"
	"os"
	"runtime"
	"sort"
	"strconv"
	"strings"
	"sync"
	"testing"
	"time"

	"github.com/tendermint/tendermint/libs/pubsub/query"
)

type c19Cond struct {
	Key  string `json:"key"`
	Op   string `json:"op"`
	Kind string `json:"kind"`
	Arg  string `json:"arg"`
}

type c19KV struct {
	K string   `json:"k"`
	V []string `json:"v"`
}

type c19Step struct {
	Op     string  `json:"op"`
	C      string  `json:"c"`
	Q      int     `json:"q"` // 1-based index into the run's queries
	Cap    int     `json:"cap"`
	Sid    int     `json:"sid"` // 1-based index into the run's subscription objects
	Events []c19KV `json:"events"`
}

type c19Sched struct {
	Clients []string    `json:"clients"`
	Queries [][]c19Cond `json:"queries"`
	Spell   []int       `json:"spell"` // per query: how the text is spelled (see c19RenderSpelled); optional
	CmdCap  int         `json:"cmdcap"`
	Steps   []c19Step   `json:"steps"`
	Reps    int         `json:"reps"`
	Tag     string      `json:"tag"`
}

type c19EvalCase struct {
	Spell  int       `json:"spell"`
	Q      []c19Cond `json:"q"`
	Events []c19KV   `json:"events"`
}

type c19Input struct {
	Scheds []c19Sched    `json:"scheds"`
	Evals  []c19EvalCase `json:"evals"`
}

// c19Render writes the abstract conditions in the concrete syntax of query.peg
func c19Render(conds []c19Cond) string { return c19RenderSpelled(conds, 0) }

// c19RenderSpelled: the same conditions in textually different but equivalent spellings
// (query.peg allows any number of blanks around an operator and between conditions; the
// operand inside the quotes is NEVER touched):
//
//	0  a.s = 'x' AND b.n > 5        1  a.s='x' AND b.n>5        2  a.s  =  'x'  AND  b.n  >  5
func c19RenderSpelled(conds []c19Cond, spell int) string {
	sp, and := " ", " AND "
	switch spell {
	case 1:
		sp = ""
	case 2:
		sp, and = "  ", "  AND  "
	}
	parts := make([]string, 0, len(conds))
	for _, c := range conds {
		pre := sp
		if pre == "" && (c.Op == "EXISTS" || c.Op == "CONTAINS") {
			pre = " " // a word operator must be separated from the tag
		}
		switch {
		case c.Op == "EXISTS":
			parts = append(parts, c.Key+pre+"EXISTS")
		case c.Kind == "str":
			parts = append(parts, c.Key+pre+c.Op+sp+"'"+c.Arg+"'")
		default:
			parts = append(parts, c.Key+pre+c.Op+sp+c.Arg)
		}
	}
	return strings.Join(parts, and)
}

func c19OpName(op query.Operator) string {
	switch op {
	case query.OpLessEqual:
		return "<="
	case query.OpGreaterEqual:
		return ">="
	case query.OpLess:
		return "<"
	case query.OpGreater:
		return ">"
	case query.OpEqual:
		return "="
	case query.OpContains:
		return "CONTAINS"
	case query.OpExists:
		return "EXISTS"
	}
	return "?"
}

// c19Parsed projects what the REAL parser made of the query text (conformance data)
func c19Parsed(q *query.Query) []c19Cond {
	out := []c19Cond{}
	conds, err := q.Conditions()
	if err != nil {
		return []c19Cond{{Key: "error", Op: "?", Kind: "error", Arg: err.Error()}}
	}
	for _, c := range conds {
		pc := c19Cond{Key: c.CompositeKey, Op: c19OpName(c.Op)}
		switch v := c.Operand.(type) {
		case nil:
			pc.Kind, pc.Arg = "none", ""
		case int64:
			pc.Kind, pc.Arg = "int", strconv.FormatInt(v, 10)
		case float64:
			pc.Kind, pc.Arg = "float", strconv.FormatFloat(v, 'f', -1, 64)
			if !strings.Contains(pc.Arg, ".") {
				pc.Arg += "."
			}
		case string:
			pc.Kind, pc.Arg = "str", v
		default:
			pc.Kind, pc.Arg = "other", fmt.Sprintf("%v", v)
		}
		out = append(out, pc)
	}
	return out
}

func c19EventMap(kvs []c19KV) map[string][]string {
	m := make(map[string][]string, len(kvs))
	for _, kv := range kvs {
		m[kv.K] = append([]string{}, kv.V...)
	}
	return m
}

type c19Writer struct {
	f   *os.File
	enc *json.Encoder
	n   int
	// run buffering: the lines of one run are held back until the run is complete, so that a
	// run whose content (apart from its number) was already written for the same schedule
	// is only counted (pure compression: Go map order makes most repetitions identical)
	buffering bool
	lines     [][]byte
}

func (w *c19Writer) begin() { w.buffering, w.lines = true, nil }

// end writes the buffered run unless seen[hash of its content] is set; reports whether it wrote
func (w *c19Writer) end(seen map[[20]byte]bool, force bool) bool {
	w.buffering = false
	h := sha1.New()
	for _, l := range w.lines {
		h.Write(l)
	}
	var key [20]byte
	copy(key[:], h.Sum(nil))
	if seen[key] && !force {
		w.lines = nil
		return false
	}
	seen[key] = true
	for _, l := range w.lines {
		if _, err := w.f.Write(l); err != nil {
			panic(err)
		}
		w.n++
	}
	w.lines = nil
	return true
}

func newC19Writer(path string) *c19Writer {
	f, err := os.Create(path)
	if err != nil {
		panic(err)
	}
	return &c19Writer{f: f, enc: json.NewEncoder(f)}
}

func (w *c19Writer) emit(v interface{}) {
	if w.buffering {
		if m, ok := v.(map[string]interface{}); ok {
			run := m["run"]
			m["run"] = 0 // the run number is not part of the content
			b, err := json.Marshal(m)
			if err != nil {
				panic(err)
			}
			m["run"] = run
			w.lines = append(w.lines, append(b, '\n'))
			return
		}
	}
	if err := w.enc.Encode(v); err != nil {
		panic(err)
	}
	w.n++
}

// one subscription object held by a client
type c19Sub struct {
	sub    *Subscription
	c      string
	q      int
	cap    int
	mu     sync.Mutex
	recv   []int
	syncCh chan chan struct{}
	stop   chan struct{}
}

// eager reader of an unbuffered subscription (what IndexerService does)
func (s *c19Sub) reader() {
	for {
		select {
		case m := <-s.sub.Out():
			s.mu.Lock()
			s.recv = append(s.recv, m.Data().(int))
			s.mu.Unlock()
		case ack := <-s.syncCh:
			close(ack)
		case <-s.stop:
			return
		}
	}
}

func (s *c19Sub) project() map[string]interface{} {
	cancelled := false
	select {
	case <-s.sub.Cancelled():
		cancelled = true
	default:
	}
	errName := "nil"
	switch err := s.sub.Err(); err {
	case nil:
	case ErrUnsubscribed:
		errName = "Unsubscribed"
	case ErrOutOfCapacity:
		errName = "OutOfCapacity"
	default:
		errName = "other:" + err.Error()
	}
	s.mu.Lock()
	recv := append([]int{}, s.recv...)
	s.mu.Unlock()
	return map[string]interface{}{"c": s.c, "q": s.q, "cap": s.cap, "nbuf": len(s.sub.out),
		"chcap": cap(s.sub.out), "cancelled": cancelled, "err": errName, "recv": recv}
}

type c19Run struct {
	srv     *Server
	cmdcap  int
	clients []string
	queries []*query.Query
	subs    []*c19Sub
	npub    int
	stuck   bool
}

// generous: on a starved machine a goroutine hand-over may take long; a loop that has not
// taken a command for this long is reported as not coming back
const c19FlushTimeout = 15 * time.Second

// number of runs whose wait for the effect of Server.Stop ran out
var c19StopTimeouts = 0

// c19LoopBlockedInSend reports whether some goroutine sits in a channel send inside
// (*state).send -- an observation of where the loop goroutine is, taken from the runtime
func c19LoopBlockedInSend() bool {
	buf := make([]byte, 1<<20)
	n := runtime.Stack(buf, true)
	for _, g := range strings.Split(string(buf[:n]), "\n\n") {
		if strings.Contains(g, "pubsub.(*state).send") && strings.Contains(g, "[chan send") {
			return true
		}
	}
	return false
}

// flush waits until the loop has taken every command queued before the call: it pushes
// cmdcap+1 no-op commands (removeClient of a client nobody uses) through the channel; when
// the last one has been accepted the first one has been taken, i.e. everything before it
// has been processed completely.  Returns false if the loop does not take commands.
func (r *c19Run) flush() bool {
	t := time.NewTimer(c19FlushTimeout)
	defer t.Stop()
	for i := 0; i < r.cmdcap+1; i++ {
		select {
		case r.srv.cmds <- cmd{op: unsub, clientID: "zz-verif-flush"}:
		case <-t.C:
			return false
		}
	}
	for _, s := range r.subs {
		if s.cap == 0 {
			ack := make(chan struct{})
			select {
			case s.syncCh <- ack:
				<-ack
			case <-t.C:
				return false
			}
		}
	}
	return true
}

func (r *c19Run) project() map[string]interface{} {
	subs := make([]interface{}, 0, len(r.subs))
	for _, s := range r.subs {
		subs = append(subs, s.project())
	}
	reg := make([]interface{}, 0, len(r.clients))
	for _, c := range r.clients {
		qs := []int{}
		r.srv.mtx.RLock()
		for qi, q := range r.queries {
			if _, ok := r.srv.subscriptions[c][q.String()]; ok {
				qs = append(qs, qi+1)
			}
		}
		r.srv.mtx.RUnlock()
		sort.Ints(qs)
		reg = append(reg, map[string]interface{}{"c": c, "qs": qs, "n": r.srv.NumClientSubscriptions(c)})
	}
	return map[string]interface{}{"subs": subs, "reg": reg, "nclients": r.srv.NumClients()}
}

func c19ErrName(err error) string {
	switch err {
	case nil:
		return "ok"
	case ErrAlreadySubscribed:
		return "AlreadySubscribed"
	case ErrSubscriptionNotFound:
		return "SubscriptionNotFound"
	}
	return "other:" + err.Error()
}

func c19RunSched(t *testing.T, w *c19Writer, run int, sc c19Sched) (stuck bool) {
	r := &c19Run{cmdcap: sc.CmdCap, clients: sc.Clients}
	r.srv = NewServer(BufferCapacity(sc.CmdCap))
	qstrs := []string{}
	parsed := []interface{}{}
	spell := make([]int, len(sc.Queries))
	copy(spell, sc.Spell)
	for qi, conds := range sc.Queries {
		qs := c19RenderSpelled(conds, spell[qi])
		q, err := query.New(qs)
		if err != nil {
			t.Fatalf("run %d: query %q does not parse: %v", run, qs, err)
		}
		r.queries = append(r.queries, q)
		qstrs = append(qstrs, qs)
		parsed = append(parsed, c19Parsed(q))
	}
	if err := r.srv.Start(); err != nil {
		t.Fatal(err)
	}
	w.emit(map[string]interface{}{"ev": "Reset", "run": run, "tag": sc.Tag, "clients": sc.Clients,
		"queries": sc.Queries, "spell": spell, "parsed": parsed, "qstrs": qstrs, "cmdcap": sc.CmdCap,
		"chancap": r.srv.BufferCapacity()})
	ctx := context.Background()
	emit := func(st c19Step, res string, m int, stuck, inSend bool) {
		evs := st.Events
		if evs == nil {
			evs = []c19KV{}
		}
		c := st.C
		if c == "" {
			c = "-"
		}
		w.emit(map[string]interface{}{"ev": st.Op, "run": run, "c": c, "q": st.Q, "cap": st.Cap, "sid": st.Sid,
			"events": evs, "m": m, "res": res, "stuck": stuck, "insend": inSend, "post": r.project()})
	}
	for _, st := range sc.Steps {
		res, m := "ok", 0
		switch st.Op {
		case "Subscribe":
			var sub *Subscription
			var err error
			if st.Cap == 0 {
				sub, err = r.srv.SubscribeUnbuffered(ctx, st.C, r.queries[st.Q-1])
			} else {
				sub, err = r.srv.Subscribe(ctx, st.C, r.queries[st.Q-1], st.Cap)
			}
			res = c19ErrName(err)
			if err == nil {
				cs := &c19Sub{sub: sub, c: st.C, q: st.Q, cap: st.Cap, recv: []int{},
					syncCh: make(chan chan struct{}), stop: make(chan struct{})}
				r.subs = append(r.subs, cs)
				if st.Cap == 0 {
					go cs.reader()
				}
			}
		case "Unsubscribe":
			res = c19ErrName(r.srv.Unsubscribe(ctx, st.C, r.queries[st.Q-1]))
		case "UnsubscribeAll":
			res = c19ErrName(r.srv.UnsubscribeAll(ctx, st.C))
		case "Publish":
			r.npub++
			m = r.npub
			pctx, cancel := context.WithTimeout(ctx, c19FlushTimeout)
			err := r.srv.PublishWithEvents(pctx, m, c19EventMap(st.Events))
			cancel()
			if err != nil {
				res = "other:" + err.Error()
			}
		case "Consume":
			if st.Sid < 1 || st.Sid > len(r.subs) || r.subs[st.Sid-1].cap == 0 {
				res = "skipped"
			} else {
				s := r.subs[st.Sid-1]
				select {
				case msg := <-s.sub.Out():
					s.mu.Lock()
					s.recv = append(s.recv, msg.Data().(int))
					s.mu.Unlock()
					m = msg.Data().(int)
				default:
					res = "empty"
				}
			}
		default:
			t.Fatalf("run %d: unknown op %q", run, st.Op)
		}
		if st.Op == "Consume" {
			emit(st, res, m, false, false)
			continue
		}
		if !r.flush() {
			// the loop does not come back: record where it is and abandon this server
			inSend := c19LoopBlockedInSend()
			emit(st, res, m, true, inSend)
			stuck = true
			break
		}
		emit(st, res, m, false, false)
	}
	if !stuck {
		// read out every backlog so that the trace shows WHAT was delivered
		for i, s := range r.subs {
			for s.cap > 0 && len(s.sub.out) > 0 {
				msg := <-s.sub.Out()
				s.mu.Lock()
				s.recv = append(s.recv, msg.Data().(int))
				s.mu.Unlock()
				emit(c19Step{Op: "Consume", Sid: i + 1}, "ok", msg.Data().(int), false, false)
			}
		}
		// Server.OnStop: removeAll(nil)
		if err := r.srv.Stop(); err != nil {
			t.Fatalf("run %d: stop: %v", run, err)
		}
		// removeAll(nil) runs in the loop goroutine after Stop returned: wait for its effect
		// (a subscription the loop has lost track of is never cancelled: after two such waits
		// have run out the wait is cut short -- an uncancelled subscription after Stop is
		// conformance data, not a verdict)
		wait := c19FlushTimeout
		if c19StopTimeouts >= 2 {
			wait = 100 * time.Millisecond
		}
		tm := time.NewTimer(wait)
		expired := false
		for _, s := range r.subs {
			if expired {
				break
			}
			select {
			case <-s.sub.Cancelled():
			case <-tm.C:
				expired = true
			}
		}
		tm.Stop()
		if expired {
			c19StopTimeouts++
		}
		emit(c19Step{Op: "Stop"}, "ok", 0, false, false)
	}
	for _, s := range r.subs {
		close(s.stop)
	}
	return stuck
}

func TestVerifC19PubSub(t *testing.T) {
	inPath, outDir := os.Getenv("VERIF_IN"), os.Getenv("VERIF_OUT")
	if inPath == "" || outDir == "" {
		t.Skip("VERIF_IN / VERIF_OUT not set")
	}
	raw, err := os.ReadFile(inPath)
	if err != nil {
		t.Fatal(err)
	}
	var in c19Input
	if err := json.Unmarshal(raw, &in); err != nil {
		t.Fatal(err)
	}

	// ---------------- query evaluation cases (conformance of TMQuery!Matches)
	we := newC19Writer(outDir + "/evals.ndjson")
	for ci, c := range in.Evals {
		qs := c19RenderSpelled(c.Q, c.Spell)
		q, err := query.New(qs)
		if err != nil {
			t.Fatalf("eval case %d: %q does not parse: %v", ci, qs, err)
		}
		ok, merr := q.Matches(c19EventMap(c.Events))
		res := "FALSE"
		if merr != nil {
			res = "ERR"
		} else if ok {
			res = "TRUE"
		}
		evs := c.Events
		if evs == nil {
			evs = []c19KV{}
		}
		we.emit(map[string]interface{}{"ev": "Eval", "q": c.Q, "spell": c.Spell, "qstr": qs, "parsed": c19Parsed(q), "events": evs, "res": res})
	}
	we.f.Close()

	// ---------------- schedules, each repeated (Go map iteration order differs per run)
	wp := newC19Writer(outDir + "/pubsub.ndjson")
	run, nstuck, nwritten := 0, 0, 0
	summary := []map[string]int{}
	for si, sc := range in.Scheds {
		reps := sc.Reps
		if reps < 1 {
			reps = 1
		}
		seen := map[[20]byte]bool{}
		done := 0
		for k := 0; k < reps; k++ {
			run++
			done++
			wp.begin()
			stuck := c19RunSched(t, wp, run, sc)
			if wp.end(seen, stuck) {
				nwritten++
			}
			if stuck {
				nstuck++
				break // a wedged loop costs a timeout each time: one witness per schedule is enough
			}
		}
		summary = append(summary, map[string]int{"sched": si, "runs": done, "distinct": len(seen)})
		if nstuck >= 3 {
			break
		}
	}
	wp.f.Close()
	sb, _ := json.Marshal(summary)
	if err := os.WriteFile(outDir+"/summary.json", sb, 0o644); err != nil {
		t.Fatal(err)
	}
	t.Logf("C19 pubsub harness: %d eval cases, %d runs (%d distinct written), %d events, %d stuck", we.n, run, nwritten, wp.n, nstuck)
}
