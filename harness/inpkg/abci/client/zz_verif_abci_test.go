//go:build verif

package abcicli

// ABCI harness, part 1 (socket client).  See /verif/spec/TMAbciSocket.tla.
//
// Runs the REAL socketClient (NewSocketClient + Start over a unix socket) against
//   (a) a scripted raw peer that follows a TLC-generated schedule of environment steps
//       (calls, SetCallback, Stop, timer firing, server reads/replies/faults, gate releases),
//   (b) the real abci/server.SocketServer with a scripted application, behind a byte
//       forwarder that re-chunks the stream, driven by seeded concurrent callers.
// Every call start/return, every request seen by the peer/application and every callback
// start/end is an event with a sequence number taken under one lock (a total order that
// extends happens-before).  After each environment step of (a) the harness waits until all
// goroutines of the client, the peer and the callers are blocked and the sockets are drained,
// then logs the projection of the client (Obs).  The harness gives no verdicts: TLC judges
// the traces (spec/trace/TMAbciTrace.tla, TMAbciConform.tla).

import (
	"bufio"
	"bytes"
	"encoding/json"
	"fmt"
	"net"
	"os"
	"path/filepath"
	"regexp"
	"runtime"
	"strconv"
	"strings"
	"sync"
	"sync/atomic"
	"syscall"
	"testing"
	"time"
	"unsafe"

	"github.com/tendermint/tendermint/abci/types"
	"github.com/tendermint/tendermint/libs/timer"
)

// ---------------------------------------------------------------------------- trace writer

type abciTrace struct {
	mu sync.Mutex
	f  *os.File
	n  int64
}

func abciNewTrace(path string) *abciTrace {
	f, err := os.Create(path)
	if err != nil {
		panic(err)
	}
	return &abciTrace{f: f}
}

type abciM = map[string]interface{}

// ev appends one event; the sequence number is assigned and the line written under the lock
func (t *abciTrace) ev(ev string, kv abciM) {
	m := abciM{"ev": ev}
	for k, v := range kv {
		m[k] = v
	}
	t.mu.Lock()
	t.n++
	m["n"] = t.n
	b, err := json.Marshal(m)
	if err != nil {
		t.mu.Unlock()
		panic(err)
	}
	t.f.Write(append(b, '\n'))
	t.mu.Unlock()
}

func (t *abciTrace) close() { t.f.Close() }

// ---------------------------------------------------------------------------- goroutine inspection

var abciGoHdr = regexp.MustCompile(`^goroutine (\d+) \[([^\],]+)`)

type abciGor struct {
	id    int64
	state string
	text  string
}

func abciGid() int64 {
	var b [64]byte
	n := runtime.Stack(b[:], false)
	m := abciGoHdr.FindSubmatch(b[:n])
	if m == nil {
		return -1
	}
	id, _ := strconv.ParseInt(string(m[1]), 10, 64)
	return id
}

func abciGoroutines() []abciGor {
	buf := make([]byte, 1<<20)
	for {
		n := runtime.Stack(buf, true)
		if n < len(buf) {
			buf = buf[:n]
			break
		}
		buf = make([]byte, 2*len(buf))
	}
	var out []abciGor
	for _, blk := range strings.Split(string(buf), "\n\n") {
		m := abciGoHdr.FindStringSubmatch(blk)
		if m == nil {
			continue
		}
		id, _ := strconv.ParseInt(m[1], 10, 64)
		out = append(out, abciGor{id: id, state: m[2], text: blk})
	}
	return out
}

func abciRelevant(g abciGor) bool {
	return strings.Contains(g.text, "tendermint/abci/") || strings.Contains(g.text, "tendermint/libs/timer") ||
		strings.Contains(g.text, "tendermint/proxy")
}

func abciBlockedState(s string) bool {
	switch s {
	case "running", "runnable", "syscall", "copystack", "preempted":
		return false
	}
	return true
}

// unread bytes in the socket's receive queue / bytes the peer has not read yet (AF_UNIX: SIOCOUTQ)
func abciSockQ(c net.Conn) (inq, outq int) {
	uc, ok := c.(*net.UnixConn)
	if !ok || uc == nil {
		return 0, 0
	}
	rc, err := uc.SyscallConn()
	if err != nil {
		return 0, 0
	}
	_ = rc.Control(func(fd uintptr) {
		var v int32
		if _, _, e := syscall.Syscall(syscall.SYS_IOCTL, fd, 0x541B, uintptr(unsafe.Pointer(&v))); e == 0 { // FIONREAD
			inq = int(v)
		}
		v = 0
		if _, _, e := syscall.Syscall(syscall.SYS_IOCTL, fd, 0x5411, uintptr(unsafe.Pointer(&v))); e == 0 { // TIOCOUTQ
			outq = int(v)
		}
	})
	return
}

// ---------------------------------------------------------------------------- labels

func abciReqLabel(req *types.Request) string  { return abciCut(abciReqLabel0(req)) }
func abciResLabel(res *types.Response) string { return abciCut(abciResLabel0(res)) }

func abciReqLabel0(req *types.Request) string {
	switch r := req.Value.(type) {
	case *types.Request_Echo:
		return r.Echo.Message
	case *types.Request_CheckTx:
		return string(r.CheckTx.Tx)
	case *types.Request_DeliverTx:
		return string(r.DeliverTx.Tx)
	case *types.Request_Query:
		return string(r.Query.Data)
	case *types.Request_Flush:
		return "F"
	case *types.Request_Commit:
		return "commit"
	case *types.Request_Info:
		return r.Info.Version
	}
	return "?"
}

func abciReqTyp(req *types.Request) string {
	switch req.Value.(type) {
	case *types.Request_Echo:
		return "A"
	case *types.Request_CheckTx:
		return "B"
	case *types.Request_Flush:
		return "F"
	case *types.Request_DeliverTx:
		return "D"
	case *types.Request_Query:
		return "Q"
	case *types.Request_Commit:
		return "C"
	case *types.Request_Info:
		return "I"
	}
	return "?"
}

func abciResLabel0(res *types.Response) string {
	if res == nil {
		return "nil"
	}
	switch r := res.Value.(type) {
	case *types.Response_Echo:
		return r.Echo.Message
	case *types.Response_CheckTx:
		return string(r.CheckTx.Data)
	case *types.Response_DeliverTx:
		return string(r.DeliverTx.Data)
	case *types.Response_Query:
		return string(r.Query.Value)
	case *types.Response_Flush:
		return "F"
	case *types.Response_Commit:
		return "commit"
	case *types.Response_Info:
		return r.Info.Data
	case *types.Response_Exception:
		return "exception"
	}
	return "?"
}

func abciResTyp(res *types.Response) string {
	if res == nil {
		return "-"
	}
	switch res.Value.(type) {
	case *types.Response_Echo:
		return "A"
	case *types.Response_CheckTx:
		return "B"
	case *types.Response_Flush:
		return "F"
	case *types.Response_DeliverTx:
		return "D"
	case *types.Response_Query:
		return "Q"
	case *types.Response_Commit:
		return "C"
	case *types.Response_Info:
		return "I"
	}
	return "?"
}

func abciErrStr(err error) string {
	if err == nil {
		return "nil"
	}
	return "err"
}

// the honest answer to a request
func abciAnswer(req *types.Request) *types.Response {
	switch r := req.Value.(type) {
	case *types.Request_Echo:
		return types.ToResponseEcho(r.Echo.Message)
	case *types.Request_CheckTx:
		return types.ToResponseCheckTx(types.ResponseCheckTx{Data: r.CheckTx.Tx})
	case *types.Request_Flush:
		return types.ToResponseFlush()
	}
	return types.ToResponseException("unknown request")
}

func abciFrame(res *types.Response) []byte {
	var b bytes.Buffer
	if err := types.WriteMessage(res, &b); err != nil {
		panic(err)
	}
	return b.Bytes()
}

// ---------------------------------------------------------------------------- raw-peer replay

type abciStep map[string]interface{}

func (s abciStep) str(k string) string {
	if v, ok := s[k].(string); ok {
		return v
	}
	return ""
}
func (s abciStep) num(k string) int {
	if v, ok := s[k].(float64); ok {
		return int(v)
	}
	return 0
}
func (s abciStep) flag(k string) bool {
	v, _ := s[k].(bool)
	return v
}

type abciRun struct {
	ID    string     `json:"id"`
	QCap  int        `json:"qcap"`
	Steps []abciStep `json:"steps"`
}

type abciCall struct {
	call   int
	t      string
	kind   string
	label  string
	gid    int64
	done   chan struct{}
	handle *ReqRes
}

type abciSock struct {
	tr  *abciTrace
	cli *socketClient
	ln  net.Listener
	srv net.Conn

	mu       sync.Mutex
	arrived  []*types.Request // frames the peer's reader has decoded, not yet "got"
	pend     []*types.Request
	rest     []byte // second half of a partially written frame
	srvEOF   bool   // the peer's reader saw EOF / an error
	peerShut bool   // the peer closed (or half-closed) the link: the client's reader must notice
	faulted  bool   // a fault was injected somewhere on the link / in the application
	gates    map[string]chan struct{}
	inGate   string
	calls    map[int]*abciCall
	inSetCb  map[int64]bool // goroutines currently inside ReqRes.SetCallback
	ncbS     int
	ncbE     int
	selfGid  int64
	stopGids []chan struct{}
}

func (s *abciSock) globalCb(req *types.Request, res *types.Response) {
	lab := abciReqLabel(req)
	s.mu.Lock()
	s.ncbS++
	ch := s.gates[lab]
	s.mu.Unlock()
	s.tr.ev("CbS", abciM{"k": "g", "r": lab, "x": abciResLabel(res), "rt": abciReqTyp(req), "xt": abciResTyp(res), "by": "recv"})
	if ch != nil {
		s.mu.Lock()
		s.inGate = lab
		s.mu.Unlock()
		<-ch
		s.mu.Lock()
		s.inGate = ""
		delete(s.gates, lab)
		s.mu.Unlock()
	}
	s.mu.Lock()
	s.ncbE++
	s.mu.Unlock()
	s.tr.ev("CbE", abciM{"k": "g", "r": lab, "by": "recv"})
}

func (s *abciSock) reqCb(lab string) func(*types.Response) {
	return func(res *types.Response) {
		s.mu.Lock()
		by := "recv"
		if s.inSetCb[abciGid()] {
			by = "caller"
		}
		s.ncbS++
		s.mu.Unlock()
		s.tr.ev("CbS", abciM{"k": "r", "r": lab, "x": abciResLabel(res), "rt": "-", "xt": abciResTyp(res), "by": by})
		s.mu.Lock()
		s.ncbE++
		s.mu.Unlock()
		s.tr.ev("CbE", abciM{"k": "r", "r": lab, "by": by})
	}
}

// the raw peer's reader: decodes frames as they arrive
func (s *abciSock) reader(c net.Conn) {
	r := bufio.NewReader(c)
	for {
		req := &types.Request{}
		if err := types.ReadMessage(r, req); err != nil {
			s.mu.Lock()
			s.srvEOF = true
			s.mu.Unlock()
			return
		}
		s.mu.Lock()
		s.arrived = append(s.arrived, req)
		s.mu.Unlock()
	}
}

func abciLabels(rs []*types.Request) []string {
	out := []string{}
	for _, r := range rs {
		out = append(out, abciReqLabel(r))
	}
	return out
}

// quiescent: every goroutine of client / peer / callers blocked, sockets drained
func (s *abciSock) quiescent() bool {
	recvReading := false
	for _, g := range abciGoroutines() {
		if g.id == s.selfGid || !abciRelevant(g) {
			continue
		}
		if !abciBlockedState(g.state) {
			return false
		}
		if g.state == "IO wait" && strings.Contains(g.text, "(*socketClient).recvResponseRoutine") {
			recvReading = true
		}
	}
	if s.srv != nil {
		inq, outq := abciSockQ(s.srv)
		s.mu.Lock()
		eof := s.srvEOF
		s.mu.Unlock()
		if inq != 0 && !eof {
			return false // the peer's reader has not caught up
		}
		if outq != 0 && recvReading {
			return false // the client's recv routine is about to be woken
		}
	}
	s.mu.Lock()
	shut := s.peerShut
	s.mu.Unlock()
	if shut && recvReading {
		return false // EOF is pending for the client's recv routine
	}
	return true
}

func (s *abciSock) settle() bool {
	deadline := time.Now().Add(20 * time.Second)
	ok := 0
	for time.Now().Before(deadline) {
		if s.quiescent() {
			ok++
			if ok >= 3 {
				return true
			}
			time.Sleep(150 * time.Microsecond)
			continue
		}
		ok = 0
		time.Sleep(100 * time.Microsecond)
	}
	return false
}

func (s *abciSock) routineAlive(name string) bool {
	for _, g := range abciGoroutines() {
		if strings.Contains(g.text, name) {
			return true
		}
	}
	return false
}

// projection of the real client to the observable part of TMAbciSocket's state
func (s *abciSock) obs(settled bool, final bool) {
	cli := s.cli
	s.mu.Lock()
	gate := s.inGate
	s.mu.Unlock()
	locked := false
	if gate == "" {
		cli.mtx.Lock()
		locked = true
	} else if cli.mtx.TryLock() {
		locked = true
	}
	sent := []string{}
	for e := cli.reqSent.Front(); e != nil; e = e.Next() {
		sent = append(sent, abciReqLabel(e.Value.(*ReqRes).Request))
	}
	errs := abciErrStr(cli.err)
	if locked {
		cli.mtx.Unlock()
	}
	quit := false
	select {
	case <-cli.Quit():
		quit = true
	default:
	}
	gs := abciGoroutines()
	s.mu.Lock()
	busy := []string{}
	stuck := []interface{}{}
	got := []string{}
	for c := 1; c <= len(s.calls); c++ {
		ci := s.calls[c]
		select {
		case <-ci.done:
		default:
			busy = append(busy, ci.t)
			st, where := "gone", "-"
			for _, g := range gs {
				if g.id == ci.gid {
					st = g.state
					switch {
					case strings.Contains(g.text, "(*socketClient).queueRequest"):
						where = "queueRequest"
					case strings.Contains(g.text, "sync.(*WaitGroup).Wait"):
						where = "Wait"
					case strings.Contains(g.text, "(*Mutex).Lock"):
						where = "Lock"
					}
				}
			}
			stuck = append(stuck, abciM{"call": ci.call, "t": ci.t, "state": st, "where": where})
		}
		if ci.handle != nil && ci.handle.Response != nil && ci.label != "F" {
			got = append(got, ci.label)
		}
	}
	m := abciM{
		"settled": settled, "final": final,
		"busy": busy, "inflight": stuck, "qlen": len(cli.reqQueue), "sent": sent,
		"arrived": abciLabels(s.arrived), "pend": abciLabels(s.pend),
		"running": cli.IsRunning(), "quit": quit, "err": errs, "gate": gate,
		"ncbS": s.ncbS, "ncbE": s.ncbE, "got": got,
		"sendAlive": false, "recvAlive": false,
	}
	s.mu.Unlock()
	for _, g := range gs {
		if strings.Contains(g.text, "(*socketClient).sendRequestsRoutine") {
			m["sendAlive"] = true
		}
		if strings.Contains(g.text, "(*socketClient).recvResponseRoutine") {
			m["recvAlive"] = true
		}
	}
	s.tr.ev("Obs", m)
}

func abciSortStrings(a []string) {
	for i := 1; i < len(a); i++ {
		for j := i; j > 0 && a[j] < a[j-1]; j-- {
			a[j], a[j-1] = a[j-1], a[j]
		}
	}
}

func (s *abciSock) startCall(st abciStep) {
	call := st.num("call")
	kind := st.str("kind")
	lab := "c" + strconv.Itoa(call)
	if kind == "FlushSync" || kind == "FlushAsync" {
		lab = "F"
	}
	ci := &abciCall{call: call, t: st.str("t"), kind: kind, label: lab, done: make(chan struct{})}
	ready := make(chan struct{})
	s.mu.Lock()
	s.calls[call] = ci
	if st.flag("gate") {
		s.gates[lab] = make(chan struct{})
	}
	s.mu.Unlock()
	go func() {
		ci.gid = abciGid()
		close(ready)
		s.abciDoCall(ci)
	}()
	<-ready
}

func (s *abciSock) abciDoCall(ci *abciCall) {
	cli := s.cli
	defer close(ci.done)
	s.tr.ev("Call", abciM{"call": ci.call, "t": ci.t, "kind": ci.kind, "r": ci.label})
	errs, got := "nil", "-"
	switch ci.kind {
	case "AsyncA":
		ci.handle = cli.EchoAsync(ci.label)
	case "AsyncB":
		ci.handle = cli.CheckTxAsync(types.RequestCheckTx{Tx: []byte(ci.label)})
	case "FlushAsync":
		ci.handle = cli.FlushAsync()
	case "SyncA":
		res, err := cli.EchoSync(ci.label)
		errs = abciErrStr(err)
		got = "nil"
		if res != nil {
			got = res.Message
		}
	case "SyncB":
		res, err := cli.CheckTxSync(types.RequestCheckTx{Tx: []byte(ci.label)})
		errs = abciErrStr(err)
		got = "nil"
		if res != nil {
			got = string(res.Data)
		}
	case "FlushSync":
		errs = abciErrStr(cli.FlushSync())
	}
	s.tr.ev("Ret", abciM{"call": ci.call, "t": ci.t, "kind": ci.kind, "r": ci.label, "err": errs, "got": got})
}

func (s *abciSock) write(b []byte) {
	if s.srv == nil {
		return
	}
	s.srv.SetWriteDeadline(time.Now().Add(5 * time.Second))
	s.srv.Write(b)
}

func (s *abciSock) step(st abciStep) {
	name := st.str("name")
	switch name {
	case "StartCall":
		s.startCall(st)
	case "SetCallback":
		call := st.num("call")
		s.mu.Lock()
		ci := s.calls[call]
		s.mu.Unlock()
		if ci == nil || ci.handle == nil {
			s.tr.ev("Skip", abciM{"step": name, "why": "no handle"})
			return
		}
		done := make(chan struct{})
		go func() {
			gid := abciGid()
			s.mu.Lock()
			s.inSetCb[gid] = true
			s.mu.Unlock()
			s.tr.ev("SetCbS", abciM{"r": ci.label})
			ci.handle.SetCallback(s.reqCb(ci.label))
			s.tr.ev("SetCbE", abciM{"r": ci.label})
			s.mu.Lock()
			delete(s.inSetCb, gid)
			s.mu.Unlock()
			close(done)
		}()
		_ = done
	case "UStop":
		s.tr.ev("UStop", abciM{})
		go func() {
			err := s.cli.Stop()
			s.tr.ev("StopRet", abciM{"err": abciErrStr(err)})
		}()
	case "ReleaseGate":
		s.mu.Lock()
		lab := s.inGate
		ch := s.gates[lab]
		s.mu.Unlock()
		if ch == nil {
			s.tr.ev("Skip", abciM{"step": name, "why": "no gate active"})
			return
		}
		s.tr.ev("ReleaseGate", abciM{"r": lab})
		close(ch)
	case "TimerFire":
		s.tr.ev("TimerFire", abciM{})
		stop := make(chan struct{})
		s.stopGids = append(s.stopGids, stop)
		go func() {
			select {
			case s.cli.flushTimer.Ch <- struct{}{}:
				s.cli.flushTimer.Unset()
			case <-stop:
			}
		}()
	case "SrvGot":
		s.mu.Lock()
		var req *types.Request
		if len(s.arrived) > 0 {
			req = s.arrived[0]
			s.arrived = s.arrived[1:]
			s.pend = append(s.pend, req)
		}
		s.mu.Unlock()
		if req == nil {
			s.tr.ev("Skip", abciM{"step": name, "why": "nothing arrived"})
			return
		}
		s.tr.ev("SrvGot", abciM{"r": abciReqLabel(req), "rt": abciReqTyp(req)})
	case "SrvReply":
		s.mu.Lock()
		var req *types.Request
		if len(s.pend) > 0 {
			req = s.pend[0]
			s.pend = s.pend[1:]
		}
		s.mu.Unlock()
		if req == nil {
			s.tr.ev("Skip", abciM{"step": name, "why": "nothing pending"})
			return
		}
		b := abciFrame(abciAnswer(req))
		part := st.flag("part")
		s.tr.ev("SrvSend", abciM{"what": "reply", "r": abciReqLabel(req), "xt": abciReqTyp(req), "part": part})
		if part {
			k := len(b) / 2
			if k == 0 {
				k = 1
			}
			s.rest = b[k:]
			b = b[:k]
		}
		s.write(b)
	case "SrvFinishFrame":
		s.tr.ev("SrvSend", abciM{"what": "finish", "r": "-", "xt": "-", "part": false})
		s.write(s.rest)
		s.rest = nil
	case "Fault":
		s.fault(st)
	default:
		s.tr.ev("Skip", abciM{"step": name, "why": "unknown step"})
	}
}

func (s *abciSock) fault(st abciStep) {
	f := st.str("f")
	pop := func(i int) *types.Request {
		s.mu.Lock()
		defer s.mu.Unlock()
		if len(s.pend) <= i {
			return nil
		}
		r := s.pend[i]
		s.pend = append(s.pend[:i:i], s.pend[i+1:]...)
		return r
	}
	switch f {
	case "wrongtype":
		req := pop(0)
		if req == nil {
			s.tr.ev("Skip", abciM{"step": "Fault", "why": "nothing pending"})
			return
		}
		var res *types.Response
		if abciReqTyp(req) == "A" {
			res = types.ToResponseCheckTx(types.ResponseCheckTx{Data: []byte(abciReqLabel(req))})
		} else {
			res = types.ToResponseEcho(abciReqLabel(req))
		}
		s.tr.ev("Fault", abciM{"f": f, "r": abciReqLabel(req), "xt": abciResTyp(res)})
		s.write(abciFrame(res))
	case "swap":
		req := pop(1)
		if req == nil {
			s.tr.ev("Skip", abciM{"step": "Fault", "why": "fewer than two pending"})
			return
		}
		s.tr.ev("Fault", abciM{"f": f, "r": abciReqLabel(req), "xt": abciReqTyp(req)})
		s.write(abciFrame(abciAnswer(req)))
	case "extra":
		var res *types.Response
		if st.str("ty") == "F" {
			res = types.ToResponseFlush()
		} else {
			res = types.ToResponseEcho("extra")
		}
		s.tr.ev("Fault", abciM{"f": f, "r": "extra", "xt": abciResTyp(res)})
		s.write(abciFrame(res))
	case "exception":
		s.tr.ev("Fault", abciM{"f": f, "r": "-", "xt": "-"})
		s.write(abciFrame(types.ToResponseException("boom")))
	case "garbage":
		s.tr.ev("Fault", abciM{"f": f, "r": "-", "xt": "-"})
		s.write([]byte{10, 0xff, 0xff, 0xff, 0xff, 0xff}) // length 5 (zig-zag varint 10), five bytes that are no protobuf message
	case "close", "midframe":
		s.tr.ev("Fault", abciM{"f": f, "r": "-", "xt": "-"})
		s.mu.Lock()
		s.peerShut = true
		s.mu.Unlock()
		s.srv.Close()
	case "halfclose":
		s.tr.ev("Fault", abciM{"f": f, "r": "-", "xt": "-"})
		s.mu.Lock()
		s.peerShut = true
		s.mu.Unlock()
		if uc, ok := s.srv.(*net.UnixConn); ok {
			uc.CloseWrite()
		}
	default:
		s.tr.ev("Skip", abciM{"step": "Fault", "why": "unknown fault " + f})
	}
}

func abciSockRun(tr *abciTrace, dir string, idx int, run abciRun) {
	path := filepath.Join(dir, fmt.Sprintf("s%d.sock", idx))
	os.Remove(path)
	ln, err := net.Listen("unix", path)
	if err != nil {
		panic(err)
	}
	defer os.Remove(path)
	qcap := run.QCap
	if qcap <= 0 {
		qcap = reqQueueSize
	}
	tr.ev("Reset", abciM{"run": run.ID, "family": "sock", "qcap": qcap})
	cli := NewSocketClient("unix://"+path, true).(*socketClient)
	cli.reqQueue = make(chan *ReqRes, qcap)
	// The client's own timer (flushThrottleMS = 20 is passed as a time.Duration: 20ns) is replaced by one
	// that only the schedule fires (TimerFire steps).  The old one must be stopped: if its AfterFunc
	// fired before NewThrottleTimer could stop it, it re-arms itself every 20ns until somebody
	// receives from its channel.
	cli.flushTimer.Stop()
	cli.flushTimer = timer.NewThrottleTimer("socketClient", time.Hour)
	s := &abciSock{tr: tr, cli: cli, ln: ln, gates: map[string]chan struct{}{}, calls: map[int]*abciCall{},
		inSetCb: map[int64]bool{}, selfGid: abciGid()}
	cli.SetResponseCallback(s.globalCb)
	acc := make(chan net.Conn, 1)
	go func() {
		c, err := ln.Accept()
		if err != nil {
			close(acc)
			return
		}
		acc <- c
	}()
	if err := cli.Start(); err != nil {
		panic(err)
	}
	s.srv = <-acc
	go s.reader(s.srv)
	s.obs(s.settle(), false)
	for _, st := range run.Steps {
		tr.ev("Env", abciM{"a": map[string]interface{}(st)})
		s.step(st)
		s.obs(s.settle(), false)
	}
	// end of the schedule: nothing more will be done for the calls in flight
	s.obs(s.settle(), true)
	// clean up: what the released goroutines still log is not part of the run
	tr.ev("Cleanup", abciM{})
	s.mu.Lock()
	for _, ch := range s.gates {
		select {
		case <-ch:
		default:
			close(ch)
		}
	}
	s.mu.Unlock()
	for _, ch := range s.stopGids {
		close(ch)
	}
	s.srv.Close()
	ln.Close()
	if cli.IsRunning() {
		cli.Stop()
	}
	s.settle() // callers that were released have logged their last events before the next run starts
}

// ---------------------------------------------------------------------------- entry point

type abciInput struct {
	Runs  []abciRun `json:"runs"`
	Skip  int       `json:"skip"`
	Conc  abciM     `json:"conc"`
	Local abciM     `json:"local"`
}

var abciSeq int64

func TestVerifABCI(t *testing.T) {
	inp := os.Getenv("VERIF_IN")
	out := os.Getenv("VERIF_OUT")
	if inp == "" || out == "" {
		t.Skip("VERIF_IN / VERIF_OUT not set")
	}
	raw, err := os.ReadFile(inp)
	if err != nil {
		t.Fatal(err)
	}
	var in abciInput
	if err := json.Unmarshal(raw, &in); err != nil {
		t.Fatal(err)
	}
	dir, err := os.MkdirTemp("", "abci")
	if err != nil {
		t.Fatal(err)
	}
	defer os.RemoveAll(dir)
	seed, _ := strconv.ParseInt(os.Getenv("VERIF_SEED"), 10, 64)
	mode := "w"
	_ = mode
	if len(in.Runs) > 0 {
		tr := abciNewTrace(filepath.Join(out, fmt.Sprintf("sock-%d.ndjson", in.Skip)))
		for i, run := range in.Runs {
			if i < in.Skip {
				continue
			}
			abciSockRun(tr, dir, i, run)
		}
		tr.ev("End", abciM{})
		tr.close()
	}
	if in.Conc != nil {
		abciConcAll(t, out, dir, seed, in.Conc)
	}
	if in.Local != nil {
		abciLocalAll(t, out, seed, in.Local)
	}
	atomic.AddInt64(&abciSeq, 1)
}
