//go:build verif

package abcicli

// ABCI harness, part 2:
//   conc  : the real socketClient against the real abci/server.SocketServer with a scripted
//           application, behind a byte forwarder that re-chunks both directions; seeded
//           concurrent callers; real flush timer; optional faults (application panic, server
//           stop, link cut).  Events only, judged by spec/trace/TMAbciTrace.tla.
//   local : four localClients sharing one mutex (as proxy.NewLocalClientCreator makes them)
//           over a scripted application whose handlers block at gates; step-controlled by
//           schedules from spec/TMAbciLocal.tla.

import (
	"fmt"
	"math/rand"
	"net"
	"os"
	"path/filepath"
	"runtime"
	"strconv"
	"strings"
	"sync"
	"testing"
	"time"

	"github.com/tendermint/tendermint/abci/server"
	"github.com/tendermint/tendermint/abci/types"
	tmsync "github.com/tendermint/tendermint/libs/sync"
)

func abciCut(s string) string {
	if i := strings.IndexByte(s, '|'); i >= 0 {
		return s[:i]
	}
	return s
}

// ---------------------------------------------------------------------------- scripted application

type abciApp struct {
	types.BaseApplication
	tr       *abciTrace
	mu       sync.Mutex
	rng      *rand.Rand
	panicAt  string                   // label at which the handler panics
	gates    map[string]chan struct{} // label -> handler blocks until closed
	inGate   []string
	jitter   bool
	panicked bool
}

func (a *abciApp) enter(m, typ, lab string) {
	a.tr.ev("SrvGot", abciM{"r": lab, "rt": typ})
	a.tr.ev("AppS", abciM{"conn": lab, "m": m})
	a.mu.Lock()
	p := a.panicAt == lab && lab != ""
	ch := a.gates[lab]
	j := 0
	if a.jitter {
		j = a.rng.Intn(4)
	}
	if ch != nil {
		a.inGate = append(a.inGate, lab)
	}
	a.mu.Unlock()
	if p {
		a.mu.Lock()
		a.panicked = true
		a.mu.Unlock()
		a.tr.ev("Fault", abciM{"f": "panic", "r": lab, "xt": "-"})
		panic("scripted application panic at " + lab)
	}
	if ch != nil {
		<-ch
		a.mu.Lock()
		for i, x := range a.inGate {
			if x == lab {
				a.inGate = append(a.inGate[:i:i], a.inGate[i+1:]...)
				break
			}
		}
		a.mu.Unlock()
	}
	switch j {
	case 1:
		runtime.Gosched()
	case 2:
		time.Sleep(time.Duration(50) * time.Microsecond)
	}
}

func (a *abciApp) leave(m, lab string) { a.tr.ev("AppE", abciM{"conn": lab, "m": m}) }

func (a *abciApp) CheckTx(req types.RequestCheckTx) types.ResponseCheckTx {
	lab := abciCut(string(req.Tx))
	a.enter("CheckTx", "B", lab)
	defer a.leave("CheckTx", lab)
	return types.ResponseCheckTx{Code: types.CodeTypeOK, Data: req.Tx}
}

func (a *abciApp) DeliverTx(req types.RequestDeliverTx) types.ResponseDeliverTx {
	lab := abciCut(string(req.Tx))
	a.enter("DeliverTx", "D", lab)
	defer a.leave("DeliverTx", lab)
	return types.ResponseDeliverTx{Code: types.CodeTypeOK, Data: req.Tx}
}

func (a *abciApp) Query(req types.RequestQuery) types.ResponseQuery {
	lab := abciCut(string(req.Data))
	a.enter("Query", "Q", lab)
	defer a.leave("Query", lab)
	return types.ResponseQuery{Code: types.CodeTypeOK, Value: req.Data}
}

func (a *abciApp) Info(req types.RequestInfo) types.ResponseInfo {
	lab := abciCut(req.Version)
	a.enter("Info", "I", lab)
	defer a.leave("Info", lab)
	return types.ResponseInfo{Data: req.Version}
}

// ---------------------------------------------------------------------------- byte forwarder

type abciFwd struct {
	ln   net.Listener
	up   string
	rng  *rand.Rand
	mu   sync.Mutex
	cs   []net.Conn
	dead bool
}

func (f *abciFwd) pump(dst, src net.Conn, seed int64) {
	rng := rand.New(rand.NewSource(seed))
	buf := make([]byte, 8192)
	for {
		n, err := src.Read(buf)
		for off := 0; off < n; {
			k := 1 + rng.Intn(97)
			if rng.Intn(4) == 0 {
				k = 1 + rng.Intn(3000)
			}
			if off+k > n {
				k = n - off
			}
			if _, werr := dst.Write(buf[off : off+k]); werr != nil {
				src.Close()
				dst.Close()
				return
			}
			off += k
			if rng.Intn(8) == 0 {
				runtime.Gosched()
			}
		}
		if err != nil {
			src.Close()
			dst.Close()
			return
		}
	}
}

func (f *abciFwd) serve(seed int64) {
	for {
		c, err := f.ln.Accept()
		if err != nil {
			return
		}
		u, err := net.Dial("unix", f.up)
		if err != nil {
			c.Close()
			continue
		}
		f.mu.Lock()
		f.cs = append(f.cs, c, u)
		f.mu.Unlock()
		go f.pump(u, c, seed*2+1)
		go f.pump(c, u, seed*2+2)
	}
}

func (f *abciFwd) cut() {
	f.mu.Lock()
	defer f.mu.Unlock()
	for _, c := range f.cs {
		c.Close()
	}
}

// ---------------------------------------------------------------------------- concurrent runs

func abciNum(m abciM, k string, d int) int {
	if v, ok := m[k].(float64); ok {
		return int(v)
	}
	return d
}

func abciConcAll(t *testing.T, out, dir string, seed int64, cfg abciM) {
	runs := abciNum(cfg, "runs", 10)
	tr := abciNewTrace(filepath.Join(out, "conc.ndjson"))
	defer tr.close()
	for i := 0; i < runs; i++ {
		abciConcRun(tr, dir, seed*1000+int64(i), i, cfg)
	}
	tr.ev("End", abciM{})
}

func abciConcRun(tr *abciTrace, dir string, seed int64, idx int, cfg abciM) {
	rng := rand.New(rand.NewSource(seed))
	nthreads := 2 + rng.Intn(3)
	ncalls := abciNum(cfg, "calls", 12)
	fault := "none"
	if idx%3 == 1 {
		fault = []string{"panic", "srvstop", "cut"}[rng.Intn(3)]
	}
	sp := filepath.Join(dir, fmt.Sprintf("c%d-srv.sock", idx))
	fp := filepath.Join(dir, fmt.Sprintf("c%d-fwd.sock", idx))
	os.Remove(sp)
	os.Remove(fp)
	tr.ev("Reset", abciM{"run": fmt.Sprintf("conc-%d", seed), "family": "conc", "qcap": reqQueueSize, "fault": fault, "threads": nthreads})
	app := &abciApp{tr: tr, rng: rand.New(rand.NewSource(seed + 7)), gates: map[string]chan struct{}{}, jitter: true}
	total := nthreads * ncalls
	faultAt := 1 + rng.Intn(total)
	if fault == "panic" {
		app.panicAt = "c" + strconv.Itoa(faultAt)
	}
	srv := server.NewSocketServer("unix://"+sp, app)
	if err := srv.Start(); err != nil {
		panic(err)
	}
	ln, err := net.Listen("unix", fp)
	if err != nil {
		panic(err)
	}
	fwd := &abciFwd{ln: ln, up: sp}
	go fwd.serve(seed)
	cli := NewSocketClient("unix://"+fp, true).(*socketClient)
	s := &abciSock{tr: tr, cli: cli, gates: map[string]chan struct{}{}, calls: map[int]*abciCall{},
		inSetCb: map[int64]bool{}, selfGid: abciGid()}
	cli.SetResponseCallback(s.globalCb)
	if err := cli.Start(); err != nil {
		panic(err)
	}
	var ctr int64
	var cmu sync.Mutex
	next := func() int {
		cmu.Lock()
		defer cmu.Unlock()
		ctr++
		return int(ctr)
	}
	var wg sync.WaitGroup
	for th := 0; th < nthreads; th++ {
		wg.Add(1)
		trng := rand.New(rand.NewSource(seed*31 + int64(th)))
		go func(tn string, rng *rand.Rand) {
			defer wg.Done()
			for k := 0; k < ncalls; k++ {
				c := next()
				if fault != "none" && fault != "panic" && c == faultAt {
					tr.ev("Fault", abciM{"f": "close", "r": "-", "xt": "-", "how": fault})
					s.mu.Lock()
					s.faulted = true
					s.mu.Unlock()
					if fault == "srvstop" {
						srv.Stop()
					} else {
						fwd.cut()
					}
				}
				kinds := []string{"AsyncB", "AsyncB", "AsyncD", "SyncB", "SyncQ", "SyncD", "FlushSync", "FlushAsync", "SyncI"}
				kind := kinds[rng.Intn(len(kinds))]
				lab := "c" + strconv.Itoa(c)
				pad := ""
				switch rng.Intn(6) {
				case 0:
					pad = "|" + strings.Repeat("x", 1+rng.Intn(300))
				case 1:
					pad = "|" + strings.Repeat("y", 3000+rng.Intn(6000))
				}
				ci := &abciCall{call: c, t: tn, kind: kind, label: lab, done: make(chan struct{}), gid: abciGid()}
				if kind == "FlushSync" || kind == "FlushAsync" {
					ci.label = "F"
				}
				s.mu.Lock()
				s.calls[c] = ci
				s.mu.Unlock()
				s.abciDoCallX(ci, pad, rng)
				if rng.Intn(5) == 0 {
					time.Sleep(time.Duration(rng.Intn(25)) * time.Millisecond)
				}
			}
		}("t"+strconv.Itoa(th+1), trng)
	}
	fin := make(chan struct{})
	go func() { wg.Wait(); close(fin) }()
	// no timing verdicts: wait until the callers are done or everything is blocked for good
	idle := 0
	finished := false
	for !finished && idle < 100 {
		select {
		case <-fin:
			finished = true
		case <-time.After(200 * time.Millisecond):
			if s.quiescent() && s.quiescent() {
				idle++
				select { // blocked: can anything still release the callers?
				case <-cli.Quit():
					if !s.routineAlive("(*socketClient).sendRequestsRoutine") && !s.routineAlive("(*socketClient).recvResponseRoutine") {
						idle = 1000
					}
				default:
				}
			} else {
				idle = 0
			}
		}
	}
	// the timer may still fire a flush; let the client drain before the projection
	time.Sleep(30 * time.Millisecond)
	settled := s.settle()
	app.mu.Lock()
	panicked := app.panicked
	app.mu.Unlock()
	s.mu.Lock()
	faulted := s.faulted || panicked
	s.mu.Unlock()
	if faulted { // the client has to notice the broken link by itself: wait for that, never judge on time
		dl := time.Now().Add(60 * time.Second)
		for cli.IsRunning() && time.Now().Before(dl) {
			time.Sleep(time.Millisecond)
		}
		settled = s.settle() && !cli.IsRunning()
	}
	s.obs(settled, true)
	tr.ev("Cleanup", abciM{})
	fwd.cut()
	ln.Close()
	if cli.IsRunning() {
		cli.Stop()
	}
	srv.Stop()
	s.settle()
}

func (s *abciSock) abciDoCallX(ci *abciCall, pad string, rng *rand.Rand) {
	cli := s.cli
	defer close(ci.done)
	payload := ci.label + pad
	s.tr.ev("Call", abciM{"call": ci.call, "t": ci.t, "kind": ci.kind, "r": ci.label})
	errs, got := "nil", "-"
	setcb := func(h *ReqRes) {
		ci.handle = h
		if rng.Intn(3) == 0 {
			return
		}
		if rng.Intn(2) == 0 {
			time.Sleep(time.Duration(rng.Intn(300)) * time.Microsecond)
		}
		gid := abciGid()
		s.mu.Lock()
		s.inSetCb[gid] = true
		s.mu.Unlock()
		s.tr.ev("SetCbS", abciM{"r": ci.label})
		h.SetCallback(s.reqCb(ci.label))
		s.tr.ev("SetCbE", abciM{"r": ci.label})
		s.mu.Lock()
		delete(s.inSetCb, gid)
		s.mu.Unlock()
	}
	switch ci.kind {
	case "AsyncB":
		h := cli.CheckTxAsync(types.RequestCheckTx{Tx: []byte(payload)})
		s.tr.ev("Ret", abciM{"call": ci.call, "t": ci.t, "kind": ci.kind, "r": ci.label, "err": "nil", "got": "-"})
		setcb(h)
		return
	case "AsyncD":
		h := cli.DeliverTxAsync(types.RequestDeliverTx{Tx: []byte(payload)})
		s.tr.ev("Ret", abciM{"call": ci.call, "t": ci.t, "kind": ci.kind, "r": ci.label, "err": "nil", "got": "-"})
		setcb(h)
		return
	case "FlushAsync":
		ci.handle = cli.FlushAsync()
	case "SyncB":
		res, err := cli.CheckTxSync(types.RequestCheckTx{Tx: []byte(payload)})
		errs, got = abciErrStr(err), "nil"
		if res != nil {
			got = abciCut(string(res.Data))
		}
	case "SyncD":
		res, err := cli.DeliverTxSync(types.RequestDeliverTx{Tx: []byte(payload)})
		errs, got = abciErrStr(err), "nil"
		if res != nil {
			got = abciCut(string(res.Data))
		}
	case "SyncQ":
		res, err := cli.QuerySync(types.RequestQuery{Data: []byte(payload)})
		errs, got = abciErrStr(err), "nil"
		if res != nil {
			got = abciCut(string(res.Value))
		}
	case "SyncI":
		res, err := cli.InfoSync(types.RequestInfo{Version: payload})
		errs, got = abciErrStr(err), "nil"
		if res != nil {
			got = abciCut(res.Data)
		}
	case "FlushSync":
		errs = abciErrStr(cli.FlushSync())
	}
	s.tr.ev("Ret", abciM{"call": ci.call, "t": ci.t, "kind": ci.kind, "r": ci.label, "err": errs, "got": got})
}

// ---------------------------------------------------------------------------- local client

type abciLocal struct {
	tr      *abciTrace
	app     *abciApp
	clis    map[string]Client
	mu      sync.Mutex
	calls   map[int]*abciCall
	self    int64
	ncbS    int
	ncbE    int
	cbgates map[string]chan struct{} // label -> the global callback blocks until closed
	inCb    []string
}

func (lc *abciLocal) quiescent() bool {
	for _, g := range abciGoroutines() {
		if g.id == lc.self || !abciRelevant(g) {
			continue
		}
		if !abciBlockedState(g.state) {
			return false
		}
	}
	return true
}

func (lc *abciLocal) settle() bool {
	deadline := time.Now().Add(20 * time.Second)
	ok := 0
	for time.Now().Before(deadline) {
		if lc.quiescent() {
			ok++
			if ok >= 3 {
				return true
			}
			time.Sleep(100 * time.Microsecond)
			continue
		}
		ok = 0
		time.Sleep(100 * time.Microsecond)
	}
	return false
}

func (lc *abciLocal) obs(settled, final bool) {
	gs := abciGoroutines()
	lc.mu.Lock()
	busy := []string{}
	infl := []interface{}{}
	for c := 1; c <= len(lc.calls); c++ {
		ci := lc.calls[c]
		select {
		case <-ci.done:
		default:
			busy = append(busy, ci.t)
			st, where := "gone", "-"
			for _, g := range gs {
				if g.id == ci.gid {
					st = g.state
					switch {
					case strings.Contains(g.text, "(*abciApp).enter"):
						where = "app"
					case strings.Contains(g.text, "(*Mutex).Lock"):
						where = "Lock"
					}
				}
			}
			infl = append(infl, abciM{"call": ci.call, "t": ci.t, "state": st, "where": where})
		}
	}
	nS, nE := lc.ncbS, lc.ncbE
	incb := append([]string{}, lc.inCb...)
	lc.mu.Unlock()
	lc.app.mu.Lock()
	inapp := append([]string{}, lc.app.inGate...)
	lc.app.mu.Unlock()
	lc.tr.ev("LObs", abciM{"settled": settled, "final": final, "busy": busy, "inflight": infl, "inapp": inapp, "incb": incb, "ncbS": nS, "ncbE": nE})
}

func (lc *abciLocal) globalCb(conn string) Callback {
	return func(req *types.Request, res *types.Response) {
		lab := abciCut(abciReqLabel(req))
		lc.mu.Lock()
		lc.ncbS++
		ch := lc.cbgates[lab]
		if ch != nil {
			lc.inCb = append(lc.inCb, lab)
		}
		lc.mu.Unlock()
		lc.tr.ev("CbS", abciM{"k": "g", "r": lab, "x": abciCut(abciResLabel(res)), "rt": abciReqTyp(req), "xt": abciResTyp(res), "by": "caller", "conn": conn})
		if ch != nil {
			<-ch
		}
		lc.mu.Lock()
		lc.ncbE++
		lc.mu.Unlock()
		lc.tr.ev("CbE", abciM{"k": "g", "r": lab, "by": "caller"})
	}
}

func (lc *abciLocal) doCall(ci *abciCall, conn string) {
	defer close(ci.done)
	cli := lc.clis[conn]
	lab := ci.label
	lc.tr.ev("Call", abciM{"call": ci.call, "t": ci.t, "kind": ci.kind, "r": lab, "conn": conn})
	errs, got := "nil", "-"
	switch ci.kind {
	case "AsyncB":
		ci.handle = cli.CheckTxAsync(types.RequestCheckTx{Tx: []byte(lab)})
	case "AsyncD":
		ci.handle = cli.DeliverTxAsync(types.RequestDeliverTx{Tx: []byte(lab)})
	case "SyncB":
		res, err := cli.CheckTxSync(types.RequestCheckTx{Tx: []byte(lab)})
		errs, got = abciErrStr(err), "nil"
		if res != nil {
			got = string(res.Data)
		}
	case "SyncD":
		res, err := cli.DeliverTxSync(types.RequestDeliverTx{Tx: []byte(lab)})
		errs, got = abciErrStr(err), "nil"
		if res != nil {
			got = string(res.Data)
		}
	case "SyncQ":
		res, err := cli.QuerySync(types.RequestQuery{Data: []byte(lab)})
		errs, got = abciErrStr(err), "nil"
		if res != nil {
			got = string(res.Value)
		}
	case "SyncI":
		res, err := cli.InfoSync(types.RequestInfo{Version: lab})
		errs, got = abciErrStr(err), "nil"
		if res != nil {
			got = res.Data
		}
	case "FlushSync":
		errs = abciErrStr(cli.FlushSync())
	case "FlushAsync":
		ci.handle = cli.FlushAsync()
	case "SyncA":
		res, err := cli.EchoSync(lab)
		errs, got = abciErrStr(err), "nil"
		if res != nil {
			got = res.Message
		}
	}
	lc.tr.ev("Ret", abciM{"call": ci.call, "t": ci.t, "kind": ci.kind, "r": lab, "err": errs, "got": got})
}

func abciLocalRun(tr *abciTrace, run abciRun) {
	tr.ev("Reset", abciM{"run": run.ID, "family": "local", "qcap": 0})
	tr.ev("Mode", abciM{"mutex": "shared"})
	app := &abciApp{tr: tr, rng: rand.New(rand.NewSource(1)), gates: map[string]chan struct{}{}}
	mtx := new(tmsync.Mutex)
	lc := &abciLocal{tr: tr, app: app, clis: map[string]Client{}, calls: map[int]*abciCall{}, self: abciGid(),
		cbgates: map[string]chan struct{}{}}
	for _, conn := range []string{"consensus", "mempool", "query", "snapshot"} {
		c := NewLocalClient(mtx, app) // what proxy.localClientCreator.NewABCIClient does
		c.SetResponseCallback(lc.globalCb(conn))
		if err := c.Start(); err != nil {
			panic(err)
		}
		lc.clis[conn] = c
	}
	lc.obs(lc.settle(), false)
	for _, st := range run.Steps {
		tr.ev("Env", abciM{"a": map[string]interface{}(st)})
		switch st.str("name") {
		case "StartCall":
			call := st.num("call")
			kind := st.str("kind")
			lab := "c" + strconv.Itoa(call)
			if kind == "FlushSync" || kind == "FlushAsync" {
				lab = "F"
			}
			ci := &abciCall{call: call, t: st.str("conn"), kind: kind, label: lab, done: make(chan struct{})}
			if st.str("gate") == "app" {
				app.mu.Lock()
				app.gates[lab] = make(chan struct{})
				app.mu.Unlock()
			}
			lc.mu.Lock()
			if st.str("gate") == "cb" {
				lc.cbgates[lab] = make(chan struct{})
			}
			lc.calls[call] = ci
			lc.mu.Unlock()
			ready := make(chan struct{})
			go func() {
				ci.gid = abciGid()
				close(ready)
				lc.doCall(ci, st.str("conn"))
			}()
			<-ready
		case "ReleaseApp":
			app.mu.Lock()
			var ch chan struct{}
			lab := ""
			if len(app.inGate) > 0 {
				lab = app.inGate[0]
				ch = app.gates[lab]
				delete(app.gates, lab)
			}
			app.mu.Unlock()
			if ch == nil {
				tr.ev("Skip", abciM{"step": "ReleaseApp", "why": "nobody in the application"})
			} else {
				tr.ev("ReleaseApp", abciM{"r": lab})
				close(ch)
			}
		case "ReleaseCb":
			lc.mu.Lock()
			var ch chan struct{}
			lab := ""
			if len(lc.inCb) > 0 {
				lab = lc.inCb[0]
				lc.inCb = lc.inCb[1:]
				ch = lc.cbgates[lab]
				delete(lc.cbgates, lab)
			}
			lc.mu.Unlock()
			if ch == nil {
				tr.ev("Skip", abciM{"step": "ReleaseCb", "why": "nobody in a callback"})
			} else {
				tr.ev("ReleaseCb", abciM{"r": lab})
				close(ch)
			}
		default:
			tr.ev("Skip", abciM{"step": st.str("name"), "why": "unknown step"})
		}
		lc.obs(lc.settle(), false)
	}
	lc.obs(lc.settle(), true)
	tr.ev("Cleanup", abciM{})
	app.mu.Lock()
	for _, ch := range app.gates {
		close(ch)
	}
	app.gates = map[string]chan struct{}{}
	app.mu.Unlock()
	lc.mu.Lock()
	for _, ch := range lc.cbgates {
		close(ch)
	}
	lc.cbgates = map[string]chan struct{}{}
	lc.mu.Unlock()
	lc.settle()
}

type abciLocalIn struct {
	Runs []abciRun `json:"runs"`
}

func abciLocalAll(t *testing.T, out string, seed int64, cfg abciM) {
	tr := abciNewTrace(filepath.Join(out, "local.ndjson"))
	defer tr.close()
	rs, _ := cfg["runs"].([]interface{})
	for _, r := range rs {
		m, _ := r.(map[string]interface{})
		run := abciRun{ID: fmt.Sprint(m["id"])}
		sts, _ := m["steps"].([]interface{})
		for _, x := range sts {
			sm, _ := x.(map[string]interface{})
			run.Steps = append(run.Steps, abciStep(sm))
		}
		abciLocalRun(tr, run)
	}
	tr.ev("End", abciM{})
}
