//go:build verif

package abcicli

import "testing"

func abciConcAll(t *testing.T, out, dir string, seed int64, cfg abciM) {}
func abciLocalAll(t *testing.T, out string, seed int64, cfg abciM)     {}
