//go:build verif

package consensus

// GOSSIP harness (spec/TMGossip.tla, spec/TMGossipSys.tla; trace spec spec/trace/TMGossipTrace.tla).
//
// ONE real consensus Reactor (+ a real consensus.State, never started: the harness is the only caller of
// handleMsg / handleTimeout) gossips to ONE peer.  The peer is a scripted p2p.Peer whose brain is a second real
// consensus.State: what the node sends is handed to that State (handleMsg), and what a real reactor on the peer's
// side would announce (NewRoundStep / NewValidBlock / HasVote on the State's events, VoteSetBits as the answer to
// VoteSetMaj23) is built from the brain's events and fed into the node's Reactor.Receive.
//
// The three goroutines the Reactor starts per peer (gossipDataRoutine, gossipVotesRoutine, queryMaj23Routine) are
// the real ones.  Each calls peer.IsRunning() at the top of every iteration; the scripted peer parks the caller
// there, so the harness releases exactly one iteration of one routine at a time and sees everything it sends.
// There is no timing in the observations: an iteration is over when the routine is parked again.
//
// The harness only records (NDJSON); TLC judges (TMGossipTrace).

import (
	"encoding/hex"
	"encoding/json"
	"fmt"
	"net"
	"os"
	"runtime"
	"sort"
	"strconv"
	"strings"
	"sync"
	"testing"
	"time"

	"github.com/gogo/protobuf/proto"
	dbm "github.com/tendermint/tm-db"

	"github.com/tendermint/tendermint/abci/example/kvstore"
	cstypes "github.com/tendermint/tendermint/consensus/types"
	"github.com/tendermint/tendermint/crypto/ed25519"
	"github.com/tendermint/tendermint/libs/bits"
	tmevents "github.com/tendermint/tendermint/libs/events"
	"github.com/tendermint/tendermint/libs/log"
	tmrand "github.com/tendermint/tendermint/libs/rand"
	"github.com/tendermint/tendermint/libs/service"
	"github.com/tendermint/tendermint/p2p"
	tmconn "github.com/tendermint/tendermint/p2p/conn"
	tmcons "github.com/tendermint/tendermint/proto/tendermint/consensus"
	tmproto "github.com/tendermint/tendermint/proto/tendermint/types"
	sm "github.com/tendermint/tendermint/state"
	"github.com/tendermint/tendermint/types"
)

// ------------------------------------------------------------------ input

type gossipEl struct {
	Op  string `json:"op"` // to | prop | part | vote | strag | claim
	K   string `json:"k"`
	R   int    `json:"r"`
	V   string `json:"v"`
	Pol int    `json:"pol"`
	Src string `json:"src"`
	I   int    `json:"i"`
}

type gossipMenu struct {
	Hs   int    `json:"hs"`
	Tail string `json:"tail"`
}

type gossipCase struct {
	ID      int        `json:"id"`
	Node    gossipMenu `json:"node"`
	Peer    gossipMenu `json:"peer"`
	Mode    string     `json:"mode"` // fresh | live
	NScript []gossipEl `json:"nscript"`
	PScript []gossipEl `json:"pscript"`
	Sched   []string   `json:"sched"` // data | votes | maj23 | peertimeout | peergetsvote | peerclaim  (then fair rounds)
	Cont    int        `json:"cont"`  // at quiescence: let the peer's pending timeout fire and go on, this many times
}

type gossipInput struct {
	Cases     []gossipCase `json:"cases"`
	MaxRound  int          `json:"maxround"`
	NParts    int          `json:"nparts"`
	MaxRounds int          `json:"maxrounds"` // cap on fair rounds per run
	WaitMS    int          `json:"wait_ms"`   // how long to wait for a released routine to park again
	Seed      int64        `json:"seed"`      // seeds BitArray.PickRandom (libs/rand) per run
}

// ------------------------------------------------------------------ world (shared by all runs: deterministic)

type gossipBlock struct {
	name  string
	block *types.Block
	parts *types.PartSet
}

type gossipWorld struct {
	t        *testing.T
	state0   sm.State
	chainID  string
	names    []string
	privs    map[string]types.PrivValidator
	index    map[string]int32
	blocks   map[string]*gossipBlock
	hashName map[string]string
	pshName  map[string]string
	nparts   int
	maxRound int
}

var gossipGenesisTime = time.Date(2021, 1, 1, 0, 0, 0, 0, time.UTC)

func gossipNewWorld(t *testing.T, nparts, maxRound int) *gossipWorld {
	w := &gossipWorld{t: t, privs: map[string]types.PrivValidator{}, index: map[string]int32{}, blocks: map[string]*gossipBlock{},
		hashName: map[string]string{}, pshName: map[string]string{}, nparts: nparts, maxRound: maxRound}
	gvals := make([]types.GenesisValidator, 4)
	keys := map[string]ed25519.PrivKey{}
	for i := 0; i < 4; i++ {
		k := ed25519.GenPrivKeyFromSecret([]byte(fmt.Sprintf("verif-gossip-key-%d", i)))
		gvals[i] = types.GenesisValidator{PubKey: k.PubKey(), Power: 1}
		keys[k.PubKey().Address().String()] = k
	}
	genDoc := &types.GenesisDoc{GenesisTime: gossipGenesisTime, ChainID: config.ChainID(), InitialHeight: 1, Validators: gvals}
	st, err := sm.MakeGenesisState(genDoc)
	if err != nil {
		t.Fatal(err)
	}
	w.state0 = st
	w.chainID = st.ChainID
	for i, v := range st.Validators.Validators {
		name := "v" + strconv.Itoa(i)
		w.names = append(w.names, name)
		w.index[name] = int32(i)
		w.privs[name] = types.NewMockPVWithParams(keys[v.Address.String()], false, false)
	}
	return w
}

func (w *gossipWorld) nameOfHash(h []byte) string {
	if len(h) == 0 {
		return "nil"
	}
	if n, ok := w.hashName[hex.EncodeToString(h)]; ok {
		return n
	}
	return "?" + hex.EncodeToString(h[:4])
}

func (w *gossipWorld) nameOfPSH(h types.PartSetHeader) string {
	if h.IsZero() {
		return "nil"
	}
	if n, ok := w.pshName[hex.EncodeToString(h.Hash)]; ok {
		return n
	}
	return "?" + hex.EncodeToString(h.Hash[:4])
}

func (w *gossipWorld) blockID(name string) types.BlockID {
	if name == "nil" {
		return types.BlockID{}
	}
	b := w.blocks[name]
	return types.BlockID{Hash: b.block.Hash(), PartSetHeader: b.parts.Header()}
}

func (w *gossipWorld) vote(h int64, t tmproto.SignedMsgType, r int, src, v string) *types.Vote {
	pv := w.privs[src]
	pk, _ := pv.GetPubKey()
	vote := &types.Vote{Type: t, Height: h, Round: int32(r), BlockID: w.blockID(v),
		Timestamp: gossipGenesisTime.Add(time.Duration(h) * time.Second), ValidatorAddress: pk.Address(), ValidatorIndex: w.index[src]}
	vp := vote.ToProto()
	if err := pv.SignVote(w.chainID, vp); err != nil {
		w.t.Fatal(err)
	}
	vote.Signature = vp.Signature
	return vote
}

// the canonical commit of height h (block A<h>, round 0, precommits of v0 v1 v2) -- what CommitHeight(h) of the spec produces
func (w *gossipWorld) canonicalCommit(h int64, vals *types.ValidatorSet) *types.Commit {
	if h == 0 {
		return types.NewCommit(0, 0, types.BlockID{}, nil)
	}
	vs := types.NewVoteSet(w.chainID, h, 0, tmproto.PrecommitType, vals)
	for _, src := range w.names[:3] {
		if _, err := vs.AddVote(w.vote(h, tmproto.PrecommitType, 0, src, "A"+strconv.FormatInt(h, 10))); err != nil {
			w.t.Fatal(err)
		}
	}
	return vs.MakeCommit()
}

// block "<X><h>" built on the state a party has after deciding h-1 (identical for all parties: everything is deterministic)
func (w *gossipWorld) ensureBlock(name string, st sm.State) {
	if _, ok := w.blocks[name]; ok || name == "nil" || name == "-" {
		return
	}
	h, err := strconv.ParseInt(name[1:], 10, 64)
	if err != nil || st.LastBlockHeight != h-1 {
		w.t.Fatalf("gossip: cannot build block %s on a state at height %d", name, st.LastBlockHeight)
	}
	commit := w.canonicalCommit(h-1, st.LastValidators)
	// one transaction sized so that the block has exactly nparts parts
	size := (w.nparts-1)*int(types.BlockPartSizeBytes) + 2000
	tx := make([]byte, size)
	for i := range tx {
		tx[i] = name[0]
	}
	copy(tx, []byte(name+"="))
	proposer := st.Validators.Validators[0].Address
	b, ps := st.MakeBlock(h, []types.Tx{tx}, commit, nil, proposer)
	if int(ps.Total()) != w.nparts {
		w.t.Fatalf("gossip: block %s has %d parts, want %d", name, ps.Total(), w.nparts)
	}
	w.blocks[name] = &gossipBlock{name: name, block: b, parts: ps}
	w.hashName[hex.EncodeToString(b.Hash())] = name
	w.pshName[hex.EncodeToString(ps.Header().Hash)] = name
}

// ------------------------------------------------------------------ a party: a real consensus.State driven single-threaded

type gossipTicker struct {
	set bool
	ti  timeoutInfo
}

func (*gossipTicker) Start() error                 { return nil }
func (*gossipTicker) Stop() error                  { return nil }
func (*gossipTicker) Chan() <-chan timeoutInfo     { return make(chan timeoutInfo) }
func (*gossipTicker) SetLogger(log.Logger)         {}
func (tk *gossipTicker) ScheduleTimeout(ti timeoutInfo) { // the one-slot overwrite rule of consensus/ticker.go
	if tk.set {
		o := tk.ti
		if ti.Height < o.Height || (ti.Height == o.Height && (ti.Round < o.Round || (ti.Round == o.Round && o.Step > 0 && ti.Step <= o.Step))) {
			return
		}
	}
	tk.set, tk.ti = true, ti
}

type gossipParty struct {
	w      *gossipWorld
	name   string
	cs     *State
	ticker *gossipTicker
	// +2/3 claims recorded in the party's vote sets (types.VoteSet.peerMaj23s is not observable): "h/r/type" -> block
	claims map[string]string
}

func gossipClaimKey(h int64, r int32, t tmproto.SignedMsgType) string {
	return fmt.Sprintf("%d/%d/%d", h, r, int(t))
}

// HeightVoteSet.SetPeerMaj23 keeps the first claim of a peer per vote set, and only for a round it has vote sets for
func (p *gossipParty) noteClaim(h int64, r int32, t tmproto.SignedMsgType, bid types.BlockID) {
	cs := p.cs
	if cs.Height != h {
		return
	}
	var vs *types.VoteSet
	if t == tmproto.PrevoteType {
		vs = cs.Votes.Prevotes(r)
	} else {
		vs = cs.Votes.Precommits(r)
	}
	if vs == nil {
		return
	}
	k := gossipClaimKey(h, r, t)
	if _, dup := p.claims[k]; !dup {
		p.claims[k] = p.w.nameOfHash(bid.Hash)
	}
}

func gossipNewParty(w *gossipWorld, name string) *gossipParty {
	c := *config
	cc := *config.Consensus
	cc.SkipTimeoutCommit = false
	cc.CreateEmptyBlocks = true
	cc.PeerGossipSleepDuration = 50 * time.Microsecond
	cc.PeerQueryMaj23SleepDuration = 50 * time.Microsecond
	c.Consensus = &cc
	// not a validator: the party signs nothing, every vote and proposal comes from the script
	pv := types.NewMockPVWithParams(ed25519.GenPrivKeyFromSecret([]byte("verif-gossip-party-"+name)), false, false)
	cs := newStateWithConfigAndBlockStore(&c, w.state0.Copy(), pv, kvstore.NewApplication(), dbm.NewMemDB())
	cs.SetLogger(log.NewNopLogger())
	tk := &gossipTicker{}
	cs.SetTimeoutTicker(tk)
	cs.scheduleRound0(&cs.RoundState)
	return &gossipParty{w: w, name: name, cs: cs, ticker: tk, claims: map[string]string{}}
}

func (p *gossipParty) close() {
	if p.cs.eventBus != nil {
		_ = p.cs.eventBus.Stop()
	}
}

func (p *gossipParty) drainOwn() {
	for {
		select {
		case <-p.cs.internalMsgQueue:
		case <-p.cs.statsMsgQueue:
		default:
			return
		}
	}
}

func gossipStepOfKind(k string) cstypes.RoundStepType {
	switch k {
	case "NewHeight":
		return cstypes.RoundStepNewHeight
	case "NewRound":
		return cstypes.RoundStepNewRound
	case "Propose":
		return cstypes.RoundStepPropose
	case "PrevoteWait":
		return cstypes.RoundStepPrevoteWait
	case "PrecommitWait":
		return cstypes.RoundStepPrecommitWait
	}
	panic("gossip: unknown timeout kind " + k)
}

func gossipKindOfStep(s cstypes.RoundStepType) string {
	switch s {
	case cstypes.RoundStepNewHeight:
		return "NewHeight"
	case cstypes.RoundStepNewRound:
		return "NewRound"
	case cstypes.RoundStepPropose:
		return "Propose"
	case cstypes.RoundStepPrevoteWait:
		return "PrevoteWait"
	case cstypes.RoundStepPrecommitWait:
		return "PrecommitWait"
	}
	return "Step" + strconv.Itoa(int(s))
}

func gossipVoteType(k string) tmproto.SignedMsgType {
	if k == "prevote" {
		return tmproto.PrevoteType
	}
	return tmproto.PrecommitType
}

// one script element = one environment input of spec TMGossip!Absorb
func (p *gossipParty) absorb(e gossipEl, from p2p.ID) {
	cs := p.cs
	w := p.w
	switch e.Op {
	case "to":
		cs.handleTimeout(timeoutInfo{Duration: 0, Height: cs.Height, Round: int32(e.R), Step: gossipStepOfKind(e.K)}, cs.RoundState)
	case "prop":
		w.ensureBlock(e.V, cs.state)
		vals := cs.state.Validators.Copy()
		if e.R > 0 {
			vals.IncrementProposerPriority(int32(e.R))
		}
		proposer := vals.GetProposer()
		var pname string
		for _, n := range w.names {
			pk, _ := w.privs[n].GetPubKey()
			if string(pk.Address()) == string(proposer.Address) {
				pname = n
			}
		}
		prop := types.NewProposal(cs.Height, int32(e.R), int32(e.Pol), w.blockID(e.V))
		prop.Timestamp = gossipGenesisTime
		pp := prop.ToProto()
		if err := w.privs[pname].SignProposal(w.chainID, pp); err != nil {
			w.t.Fatal(err)
		}
		prop.Signature = pp.Signature
		cs.handleMsg(msgInfo{Msg: &ProposalMessage{Proposal: prop}, PeerID: from})
	case "part":
		w.ensureBlock(e.V, cs.state)
		cs.handleMsg(msgInfo{Msg: &BlockPartMessage{Height: cs.Height, Round: cs.Round, Part: w.blocks[e.V].parts.GetPart(e.I)}, PeerID: from})
	case "vote":
		w.ensureBlock(e.V, cs.state)
		cs.handleMsg(msgInfo{Msg: &VoteMessage{Vote: w.vote(cs.Height, gossipVoteType(e.K), e.R, e.Src, e.V)}, PeerID: p2p.ID(e.Src)})
	case "strag":
		cs.handleMsg(msgInfo{Msg: &VoteMessage{Vote: w.vote(cs.Height-1, tmproto.PrecommitType, e.R, e.Src, e.V)}, PeerID: p2p.ID(e.Src)})
	case "claim":
		p.noteClaim(cs.Height, int32(e.R), gossipVoteType(e.K), w.blockID(e.V))
		cs.mtx.Lock()
		_ = cs.Votes.SetPeerMaj23(int32(e.R), gossipVoteType(e.K), from, w.blockID(e.V))
		cs.mtx.Unlock()
	case "nop":
	default:
		panic("gossip: unknown script element " + e.Op)
	}
	p.drainOwn()
}

// ------------------------------------------------------------------ projections (spec TMGossip: party, PeerRoundState, message)

func gossipBits(ba *bits.BitArray) []int {
	if ba == nil {
		return []int{-1}
	}
	out := []int{}
	for i := 0; i < ba.Size(); i++ {
		if ba.GetIndex(i) {
			out = append(out, i)
		}
	}
	return out
}

func (w *gossipWorld) projVS(vs *types.VoteSet, height int64, claim string) map[string]interface{} {
	votes := map[string]string{}
	by := [][]string{}
	ent := []string{}
	pm := []string{}
	if claim != "" {
		pm = append(pm, claim)
	}
	maj := "none"
	for _, name := range w.names {
		votes[name] = "none"
	}
	if vs != nil {
		for _, name := range w.names {
			if vt := vs.GetByIndex(w.index[name]); vt != nil {
				votes[name] = w.nameOfHash(vt.BlockID.Hash)
			}
		}
		if bid, ok := vs.TwoThirdsMajority(); ok {
			maj = w.nameOfHash(bid.Hash)
		}
		cands := []string{"nil"}
		for bn := range w.blocks {
			if strings.HasSuffix(bn, strconv.FormatInt(height, 10)) && len(bn) == 1+len(strconv.FormatInt(height, 10)) {
				cands = append(cands, bn)
			}
		}
		sort.Strings(cands)
		for _, bn := range cands {
			if ba := vs.BitArrayByBlockID(w.blockID(bn)); ba != nil {
				ent = append(ent, bn)
				for _, name := range w.names {
					if ba.GetIndex(int(w.index[name])) {
						by = append(by, []string{bn, name})
					}
				}
			}
		}
	}
	return map[string]interface{}{"votes": votes, "maj": maj, "by": by, "ent": ent, "pm": pm}
}

func (w *gossipWorld) commitVotes(c *types.Commit) map[string]string {
	votes := map[string]string{}
	for i, name := range w.names {
		votes[name] = "none"
		if c != nil && i < len(c.Signatures) {
			switch c.Signatures[i].BlockIDFlag {
			case types.BlockIDFlagCommit:
				votes[name] = w.nameOfHash(c.BlockID.Hash)
			case types.BlockIDFlagNil:
				votes[name] = "nil"
			}
		}
	}
	return votes
}

// the party record [h, cn, parts, chain] from a RoundState (the node: the copy the REACTOR works with) and a block store
func (w *gossipWorld) projParty(rs *cstypes.RoundState, bs sm.BlockStore, claims map[string]string) map[string]interface{} {
	prop := map[string]interface{}{"r": -1, "v": "nil", "pol": -1}
	if rs.Proposal != nil {
		prop = map[string]interface{}{"r": int(rs.Proposal.Round), "v": w.nameOfHash(rs.Proposal.BlockID.Hash), "pol": int(rs.Proposal.POLRound)}
	}
	nameOf := func(b *types.Block) string {
		if b == nil {
			return "nil"
		}
		return w.nameOfHash(b.Hash())
	}
	partsHdr := "nil"
	parts := []int{}
	if rs.ProposalBlockParts != nil {
		partsHdr = w.nameOfPSH(rs.ProposalBlockParts.Header())
		parts = gossipBits(rs.ProposalBlockParts.BitArray())
	}
	pv, pc := []map[string]interface{}{}, []map[string]interface{}{}
	tracked := []int{}
	for r := 0; r <= w.maxRound; r++ {
		pvs, pcs := rs.Votes.Prevotes(int32(r)), rs.Votes.Precommits(int32(r))
		if pvs != nil {
			tracked = append(tracked, r)
		}
		pv = append(pv, w.projVS(pvs, rs.Height, claims[gossipClaimKey(rs.Height, int32(r), tmproto.PrevoteType)]))
		pc = append(pc, w.projVS(pcs, rs.Height, claims[gossipClaimKey(rs.Height, int32(r), tmproto.PrecommitType)]))
	}
	lc := map[string]interface{}{"r": -1, "votes": w.commitVotes(nil), "pm": []string{}}
	if rs.LastCommit != nil {
		pl := w.projVS(rs.LastCommit, rs.Height-1, claims[gossipClaimKey(rs.Height-1, rs.LastCommit.GetRound(), tmproto.PrecommitType)])
		lc = map[string]interface{}{"r": int(rs.LastCommit.GetRound()), "votes": pl["votes"], "pm": pl["pm"]}
	}
	chain := []map[string]interface{}{}
	for k := int64(1); k <= bs.Height(); k++ {
		meta := bs.LoadBlockMeta(k)
		var c *types.Commit
		if k < bs.Height() {
			c = bs.LoadBlockCommit(k)
		} else {
			c = bs.LoadSeenCommit(k)
		}
		ent := map[string]interface{}{"v": "?", "r": -1, "votes": w.commitVotes(c)}
		if meta != nil {
			ent["v"] = w.nameOfHash(meta.BlockID.Hash)
		}
		if c != nil {
			ent["r"] = int(c.Round)
		}
		chain = append(chain, ent)
	}
	cn := map[string]interface{}{
		"round": int(rs.Round), "step": int(rs.Step),
		"lockedR": int(rs.LockedRound), "lockedV": nameOf(rs.LockedBlock),
		"validR": int(rs.ValidRound), "validV": nameOf(rs.ValidBlock),
		"prop": prop, "propBlock": nameOf(rs.ProposalBlock), "partsHdr": partsHdr,
		"ttp": rs.TriggeredTimeoutPrecommit, "commitR": int(rs.CommitRound),
		"pv": pv, "pc": pc, "tracked": tracked, "lastCommit": lc,
	}
	return map[string]interface{}{"h": int(rs.Height), "cn": cn, "parts": parts, "chain": chain, "base": int(bs.Base())}
}

func (w *gossipWorld) projPRS(ps *PeerState) map[string]interface{} {
	prs := ps.GetRoundState()
	return map[string]interface{}{
		"h": int(prs.Height), "r": int(prs.Round), "step": int(prs.Step), "proposal": prs.Proposal,
		"pbpHdr": w.nameOfPSH(prs.ProposalBlockPartSetHeader), "pbp": gossipBits(prs.ProposalBlockParts),
		"polR": int(prs.ProposalPOLRound), "pol": gossipBits(prs.ProposalPOL),
		"pv": gossipBits(prs.Prevotes), "pc": gossipBits(prs.Precommits),
		"lcR": int(prs.LastCommitRound), "lc": gossipBits(prs.LastCommit),
		"ccR": int(prs.CatchupCommitRound), "cc": gossipBits(prs.CatchupCommit),
		"ccAlias": prs.CatchupCommit != nil && prs.CatchupCommit == prs.Precommits,
	}
}

func gossipMsg(k string, h int64, r int32, t int, i int, v string, pol int, bs []int, s int, c bool) map[string]interface{} {
	if bs == nil {
		bs = []int{}
	}
	return map[string]interface{}{"k": k, "h": int(h), "r": int(r), "t": t, "i": i, "v": v, "pol": pol, "bits": bs, "s": s, "c": c}
}

func gossipProtoBits(pb *bits.BitArray) []int {
	b := gossipBits(pb)
	if len(b) == 1 && b[0] == -1 {
		return []int{}
	}
	return b
}

// abstract message of a wire message (either direction)
func (w *gossipWorld) projMsg(pm proto.Message) map[string]interface{} {
	if wr, ok := pm.(p2p.Wrapper); ok {
		pm = wr.Wrap()
	}
	cm, ok := pm.(*tmcons.Message)
	if !ok {
		return gossipMsg("?", 0, 0, 0, -1, "-", -2, nil, 0, false)
	}
	m, err := MsgFromProto(cm)
	if err != nil {
		return gossipMsg("?", 0, 0, 0, -1, "-", -2, nil, 0, false)
	}
	switch msg := m.(type) {
	case *NewRoundStepMessage:
		return gossipMsg("NRS", msg.Height, msg.Round, 0, -1, "-", int(msg.LastCommitRound), nil, int(msg.Step), false)
	case *NewValidBlockMessage:
		return gossipMsg("NVB", msg.Height, msg.Round, 0, -1, w.nameOfPSH(msg.BlockPartSetHeader), -2, gossipProtoBits(msg.BlockParts), msg.BlockParts.Size(), msg.IsCommit)
	case *HasVoteMessage:
		return gossipMsg("HasVote", msg.Height, msg.Round, int(msg.Type), int(msg.Index), "-", -2, nil, 0, false)
	case *VoteSetMaj23Message:
		return gossipMsg("Maj23", msg.Height, msg.Round, int(msg.Type), -1, w.nameOfHash(msg.BlockID.Hash), -2, nil, 0, false)
	case *VoteSetBitsMessage:
		return gossipMsg("VSBits", msg.Height, msg.Round, int(msg.Type), -1, w.nameOfHash(msg.BlockID.Hash), -2, gossipProtoBits(msg.Votes), msg.Votes.Size(), false)
	case *ProposalMessage:
		return gossipMsg("Proposal", msg.Proposal.Height, msg.Proposal.Round, 0, -1, w.nameOfHash(msg.Proposal.BlockID.Hash), int(msg.Proposal.POLRound), nil, 0, false)
	case *ProposalPOLMessage:
		return gossipMsg("POL", msg.Height, -1, 0, -1, "-", int(msg.ProposalPOLRound), gossipProtoBits(msg.ProposalPOL), msg.ProposalPOL.Size(), false)
	case *BlockPartMessage:
		name := "?"
		if root := msg.Part.Proof.ComputeRootHash(); root != nil {
			if n, ok := w.pshName[hex.EncodeToString(root)]; ok {
				name = n
			}
		}
		return gossipMsg("BlockPart", msg.Height, msg.Round, 0, int(msg.Part.Index), name, -2, nil, 0, false)
	case *VoteMessage:
		return gossipMsg("Vote", msg.Vote.Height, msg.Vote.Round, int(msg.Vote.Type), int(msg.Vote.ValidatorIndex), w.nameOfHash(msg.Vote.BlockID.Hash), -2, nil, 0, false)
	}
	return gossipMsg("?", 0, 0, 0, -1, "-", -2, nil, 0, false)
}

// ------------------------------------------------------------------ the scripted peer

type gossipSent struct {
	ch      byte
	msg     proto.Message
	routine string // data | votes | maj23 | bcast | direct
}

type gossipPeer struct {
	*service.BaseService
	id    p2p.ID
	kvmtx sync.Mutex
	kv    map[string]interface{}

	mtx     sync.Mutex
	sent    []gossipSent
	park    map[string]chan struct{}
	goch    map[string]chan bool
	gated   bool // park the gossip routines
	observe bool // record broadcasts (the observer peer)
}

func gossipNewPeer(name string, gated bool) *gossipPeer {
	p := &gossipPeer{id: p2p.ID(name), kv: map[string]interface{}{}, gated: gated,
		park: map[string]chan struct{}{}, goch: map[string]chan bool{}}
	for _, r := range []string{"data", "votes", "maj23"} {
		p.park[r] = make(chan struct{}, 4)
		p.goch[r] = make(chan bool, 4)
	}
	p.BaseService = service.NewBaseService(nil, "GossipPeer", p)
	if err := p.Start(); err != nil {
		panic(err)
	}
	return p
}

// which goroutine of the reactor is calling
func gossipCaller() string {
	var pcs [24]uintptr
	n := runtime.Callers(3, pcs[:])
	frames := runtime.CallersFrames(pcs[:n])
	for {
		f, more := frames.Next()
		switch {
		case strings.HasSuffix(f.Function, ".gossipDataRoutine"):
			return "data"
		case strings.HasSuffix(f.Function, ".gossipVotesRoutine"):
			return "votes"
		case strings.HasSuffix(f.Function, ".queryMaj23Routine"):
			return "maj23"
		case strings.Contains(f.Function, "BroadcastEnvelope"):
			return "bcast"
		}
		if !more {
			return "direct"
		}
	}
}

// The reactor's goroutines ask this at the top of every iteration: the caller is parked until the harness lets it run
// one iteration (true) or ends it (false).
func (p *gossipPeer) IsRunning() bool {
	if !p.gated {
		return p.BaseService.IsRunning()
	}
	r := gossipCaller()
	if r != "data" && r != "votes" && r != "maj23" {
		return p.BaseService.IsRunning()
	}
	p.park[r] <- struct{}{}
	return <-p.goch[r]
}

func (p *gossipPeer) record(e p2p.Envelope) bool {
	r := gossipCaller()
	if r == "bcast" && !p.observe {
		return true
	}
	if r != "bcast" && p.observe {
		return true
	}
	p.mtx.Lock()
	p.sent = append(p.sent, gossipSent{ch: e.ChannelID, msg: e.Message, routine: r})
	p.mtx.Unlock()
	return true
}

func (p *gossipPeer) take() []gossipSent {
	p.mtx.Lock()
	defer p.mtx.Unlock()
	out := p.sent
	p.sent = nil
	return out
}

func (p *gossipPeer) count() int {
	p.mtx.Lock()
	defer p.mtx.Unlock()
	return len(p.sent)
}

func (p *gossipPeer) FlushStop()                          {}
func (p *gossipPeer) SendEnvelope(e p2p.Envelope) bool    { return p.record(e) }
func (p *gossipPeer) TrySendEnvelope(e p2p.Envelope) bool { return p.record(e) }
func (p *gossipPeer) Send(byte, []byte) bool              { panic("gossip: legacy Send used") }
func (p *gossipPeer) TrySend(byte, []byte) bool           { panic("gossip: legacy TrySend used") }
func (p *gossipPeer) NodeInfo() p2p.NodeInfo              { return p2p.DefaultNodeInfo{DefaultNodeID: p.id} }
func (p *gossipPeer) Status() tmconn.ConnectionStatus     { return tmconn.ConnectionStatus{} }
func (p *gossipPeer) ID() p2p.ID                          { return p.id }
func (p *gossipPeer) IsOutbound() bool                    { return false }
func (p *gossipPeer) IsPersistent() bool                  { return false }
func (p *gossipPeer) RemoteIP() net.IP                    { return nil }
func (p *gossipPeer) SocketAddr() *p2p.NetAddress         { return nil }
func (p *gossipPeer) RemoteAddr() net.Addr                { return nil }
func (p *gossipPeer) CloseConn() error                    { return nil }
func (p *gossipPeer) SetRemovalFailed()                   {}
func (p *gossipPeer) GetRemovalFailed() bool              { return false }
func (p *gossipPeer) Get(key string) interface{} {
	p.kvmtx.Lock()
	defer p.kvmtx.Unlock()
	return p.kv[key]
}
func (p *gossipPeer) Set(key string, v interface{}) {
	p.kvmtx.Lock()
	defer p.kvmtx.Unlock()
	p.kv[key] = v
}

// the switch's logger: Switch.BroadcastEnvelope logs "Broadcast" synchronously before it hands the message to one
// goroutine per peer -- the number of broadcasts the reactor has ASKED for is known without waiting for anything
type gossipCountLogger struct {
	mtx sync.Mutex
	n   int
}

func (c *gossipCountLogger) Debug(msg string, keyvals ...interface{}) {
	if msg == "Broadcast" {
		c.mtx.Lock()
		c.n++
		c.mtx.Unlock()
	}
}
func (c *gossipCountLogger) Info(string, ...interface{})          {}
func (c *gossipCountLogger) Error(string, ...interface{})         {}
func (c *gossipCountLogger) With(...interface{}) log.Logger       { return c }
func (c *gossipCountLogger) take() int {
	c.mtx.Lock()
	defer c.mtx.Unlock()
	n := c.n
	c.n = 0
	return n
}

// ------------------------------------------------------------------ one run

type gossipOut struct {
	f *os.File
}

func (o *gossipOut) emit(ev map[string]interface{}) {
	b, err := json.Marshal(ev)
	if err != nil {
		panic(err)
	}
	o.f.Write(append(b, '\n'))
}

type gossipRun struct {
	t     *testing.T
	w     *gossipWorld
	in    *gossipInput
	c     gossipCase
	out   *gossipOut
	node  *gossipParty
	brain *gossipParty
	conR  *Reactor
	sw    *p2p.Switch
	peer  *gossipPeer // the gossip peer (gated)
	obs   *gossipPeer // observer: records the node's broadcasts
	ps    *PeerState
	wait  time.Duration

	connected bool
	annq      []proto.Message // announcements of the brain's (virtual) reactor, in order
	annch     []byte
	bclog     *gossipCountLogger
	expectB   int    // broadcasts the node's reactor has asked the switch for and the observer has not reported yet
	undecided string // set when something was not observed in time: the run is abandoned, never judged
}

func gossipWrap(m proto.Message) *tmcons.Message {
	w, ok := m.(p2p.Wrapper)
	if !ok {
		panic(fmt.Sprintf("gossip: %T is not wrappable", m))
	}
	return w.Wrap().(*tmcons.Message)
}

// what the peer's reactor would broadcast on the brain's events (consensus/reactor.go broadcast*Message)
func (g *gossipRun) hookBrain() {
	cs := g.brain.cs
	add := func(ch byte, m proto.Message) {
		g.annq = append(g.annq, m)
		g.annch = append(g.annch, ch)
	}
	_ = cs.evsw.AddListenerForEvent("verif-gossip-brain", types.EventNewRoundStep, func(data tmevents.EventData) {
		rs := data.(*cstypes.RoundState)
		add(StateChannel, &tmcons.NewRoundStep{Height: rs.Height, Round: rs.Round, Step: uint32(rs.Step), SecondsSinceStartTime: 0,
			LastCommitRound: rs.LastCommit.GetRound()})
	})
	_ = cs.evsw.AddListenerForEvent("verif-gossip-brain", types.EventValidBlock, func(data tmevents.EventData) {
		rs := data.(*cstypes.RoundState)
		psh := rs.ProposalBlockParts.Header()
		add(StateChannel, &tmcons.NewValidBlock{Height: rs.Height, Round: rs.Round, BlockPartSetHeader: psh.ToProto(),
			BlockParts: rs.ProposalBlockParts.BitArray().ToProto(), IsCommit: rs.Step == cstypes.RoundStepCommit})
	})
	_ = cs.evsw.AddListenerForEvent("verif-gossip-brain", types.EventVote, func(data tmevents.EventData) {
		v := data.(*types.Vote)
		add(StateChannel, &tmcons.HasVote{Height: v.Height, Round: v.Round, Type: v.Type, Index: v.ValidatorIndex})
	})
}


// the reactor works on a copy of the round state refreshed by its own ticker goroutine: wait until the copy is current
func (g *gossipRun) waitFresh() {
	cs := g.node.cs
	deadline := time.Now().Add(g.wait)
	for {
		rs := g.conR.getRoundState()
		cs.mtx.RLock()
		same := rs.Height == cs.Height && rs.Round == cs.Round && rs.Step == cs.Step && rs.Proposal == cs.Proposal &&
			rs.ProposalBlockParts == cs.ProposalBlockParts && rs.Votes == cs.Votes && rs.LastCommit == cs.LastCommit &&
			rs.ProposalBlock == cs.ProposalBlock && rs.TriggeredTimeoutPrecommit == cs.TriggeredTimeoutPrecommit &&
			rs.LockedRound == cs.LockedRound && rs.LockedBlock == cs.LockedBlock && rs.ValidRound == cs.ValidRound &&
			rs.ValidBlock == cs.ValidBlock && rs.CommitRound == cs.CommitRound
		cs.mtx.RUnlock()
		if same {
			return
		}
		if time.Now().After(deadline) {
			g.undecided = "the reactor's round-state copy was not refreshed in time"
			return
		}
		time.Sleep(50 * time.Microsecond)
	}
}

func (g *gossipRun) waitBroadcasts() {
	g.expectB += g.bclog.take()
	deadline := time.Now().Add(g.wait)
	for g.obs.count() < g.expectB {
		if time.Now().After(deadline) {
			g.undecided = "a broadcast of the node was not observed in time"
			return
		}
		time.Sleep(50 * time.Microsecond)
	}
}

func (g *gossipRun) projNode() map[string]interface{} {
	return g.w.projParty(g.conR.getRoundState(), g.node.cs.blockStore, g.node.claims)
}
func (g *gossipRun) projBrain() map[string]interface{} {
	return g.w.projParty(&g.brain.cs.RoundState, g.brain.cs.blockStore, g.brain.claims)
}
func (g *gossipRun) projPRS() map[string]interface{} {
	if g.ps == nil {
		return g.w.projPRS(NewPeerState(g.peer))
	}
	return g.w.projPRS(g.ps)
}

func (g *gossipRun) msgs(ss []gossipSent) []map[string]interface{} {
	out := []map[string]interface{}{}
	for _, s := range ss {
		out = append(out, g.w.projMsg(s.msg))
	}
	return out
}

// the node's broadcasts since the last call (observer peer), sorted: their order is not observable
func (g *gossipRun) bcasts() []map[string]interface{} {
	g.waitBroadcasts()
	ss := g.obs.take()
	g.expectB -= len(ss)
	if g.expectB < 0 {
		g.expectB = 0
	}
	out := g.msgs(ss)
	sort.Slice(out, func(i, j int) bool {
		a, _ := json.Marshal(out[i])
		b, _ := json.Marshal(out[j])
		return string(a) < string(b)
	})
	return out
}

// messages the reactor queued for consensus.State (Proposal / BlockPart / Vote / VoteSetMaj23 claim of the peer): each is
// handled by cs.handleMsg as an explicit step of its own (the receive routine would log it to the WAL first)
func (g *gossipRun) drainNodeQueue() {
	cs := g.node.cs
	for g.undecided == "" {
		select {
		case mi := <-cs.peerMsgQueue:
			if c, ok := mi.Msg.(*VoteSetMaj23Message); ok {
				g.node.noteClaim(c.Height, c.Round, c.Type, c.BlockID)
			}
			cs.handleMsg(mi)
			g.node.drainOwn()
			g.waitFresh()
			pm, err := MsgToProto(mi.Msg)
			if err != nil {
				panic(err)
			}
			g.out.emit(map[string]interface{}{"ev": "Handle", "run": g.c.ID, "m": g.w.projMsg(pm), "n": g.projNode(), "bcast": g.bcasts()})
		default:
			return
		}
	}
}

// one message of the peer arrives at the node's reactor
func (g *gossipRun) recv(ch byte, m proto.Message, why string) {
	if g.undecided != "" {
		return
	}
	b, err := proto.Marshal(gossipWrap(m))
	if err != nil {
		panic(err)
	}
	g.conR.Receive(ch, g.peer, b)
	g.waitFresh()
	ans := g.peer.take()
	g.out.emit(map[string]interface{}{"ev": "Recv", "run": g.c.ID, "why": why, "m": g.w.projMsg(m), "prs": g.projPRS(), "n": g.projNode(),
		"sent": g.msgs(ans), "bcast": g.bcasts()})
	g.drainNodeQueue()
	// answers of the node (VoteSetBits) go to the peer's brain like everything else
	g.deliver(ans)
}

// flush what the brain's reactor announced since the last flush
func (g *gossipRun) flushAnn(why string) {
	for len(g.annq) > 0 {
		m, ch := g.annq[0], g.annch[0]
		g.annq, g.annch = g.annq[1:], g.annch[1:]
		if g.connected {
			g.recv(ch, m, why)
		}
	}
}

// messages of the node reach the peer: its consensus.State handles Proposal / BlockPart / Vote, its reactor answers
// VoteSetMaj23; everything else only concerns the peer's own PeerState for the node
func (g *gossipRun) deliver(ss []gossipSent) {
	for _, s := range ss {
		if g.undecided != "" {
			return
		}
		cm := gossipWrap(s.msg)
		msg, err := MsgFromProto(cm)
		if err != nil {
			panic(err)
		}
		cs := g.brain.cs
		handled := "ignored"
		switch m := msg.(type) {
		case *ProposalMessage, *BlockPartMessage, *VoteMessage:
			cs.handleMsg(msgInfo{Msg: msg, PeerID: p2p.ID("node")})
			g.brain.drainOwn()
			handled = "state"
		case *VoteSetMaj23Message:
			// the peer's Reactor.Receive for VoteSetMaj23Message: the reply from the vote sets as they are, the claim itself
			// through the peer queue to the peer's state machine
			if cs.Height == m.Height {
				var ours *bits.BitArray
				if m.Type == tmproto.PrevoteType {
					ours = cs.Votes.Prevotes(m.Round).BitArrayByBlockID(m.BlockID)
				} else {
					ours = cs.Votes.Precommits(m.Round).BitArrayByBlockID(m.BlockID)
				}
				e := &tmcons.VoteSetBits{Height: m.Height, Round: m.Round, Type: m.Type, BlockID: m.BlockID.ToProto()}
				if v := ours.ToProto(); v != nil {
					e.Votes = *v
				}
				g.brain.noteClaim(m.Height, m.Round, m.Type, m.BlockID)
				cs.handleMsg(msgInfo{Msg: msg, PeerID: p2p.ID("node")})
				g.brain.drainOwn()
				g.annq = append(g.annq, e)
				g.annch = append(g.annch, VoteSetBitsChannel)
				handled = "claim"
			}
		}
		anns := []map[string]interface{}{}
		for _, a := range g.annq {
			anns = append(anns, g.w.projMsg(a))
		}
		g.out.emit(map[string]interface{}{"ev": "Deliver", "run": g.c.ID, "m": g.w.projMsg(s.msg), "handled": handled, "x": g.projBrain(), "ann": anns})
		g.flushAnn("ann")
	}
}

// release one iteration of a routine and wait until it is parked again
func (g *gossipRun) step(routine string) (nsent int, changed bool) {
	if g.undecided != "" {
		return 0, false
	}
	before, _ := json.Marshal(g.projPRS())
	g.peer.goch[routine] <- true
	select {
	case <-g.peer.park[routine]:
	case <-time.After(g.wait):
		g.undecided = "routine " + routine + " did not finish its iteration in time"
		return 0, false
	}
	ss := g.peer.take()
	after := g.projPRS()
	afterJ, _ := json.Marshal(after)
	g.out.emit(map[string]interface{}{"ev": "Step", "run": g.c.ID, "routine": routine, "sent": g.msgs(ss), "prs": after, "n": g.projNode()})
	g.deliver(ss)
	return len(ss), string(before) != string(afterJ)
}

// environment moves of the schedule
func (g *gossipRun) env(kind string) bool {
	if g.undecided != "" {
		return false
	}
	cs := g.brain.cs
	switch kind {
	case "peertimeout":
		tk := g.brain.ticker
		if !tk.set || tk.ti.Height != cs.Height {
			return false
		}
		ti := tk.ti
		tk.set = false
		if int(ti.Round) >= g.w.maxRound && ti.Step == cstypes.RoundStepPrecommitWait {
			return false // would leave the rounds the model has
		}
		el := gossipEl{Op: "to", K: gossipKindOfStep(ti.Step), R: int(ti.Round), V: "-", Pol: -2, Src: "-", I: -1}
		g.brain.absorb(el, "ext")
		g.emitEnv(kind, el)
		return true
	case "peergetsvote":
		// a vote the node holds for the peer's height that the peer has no vote of that validator for: a third party serves it
		ncs := g.node.cs
		if ncs.Height != cs.Height {
			return false
		}
		for r := 0; r <= g.w.maxRound; r++ {
			for _, t := range []tmproto.SignedMsgType{tmproto.PrevoteType, tmproto.PrecommitType} {
				var nvs, pvs *types.VoteSet
				if t == tmproto.PrevoteType {
					nvs, pvs = ncs.Votes.Prevotes(int32(r)), cs.Votes.Prevotes(int32(r))
				} else {
					nvs, pvs = ncs.Votes.Precommits(int32(r)), cs.Votes.Precommits(int32(r))
				}
				if nvs == nil {
					continue
				}
				for _, name := range g.w.names {
					v := nvs.GetByIndex(g.w.index[name])
					if v == nil || (pvs != nil && pvs.GetByIndex(g.w.index[name]) != nil) {
						continue
					}
					k := "prevote"
					if t == tmproto.PrecommitType {
						k = "precommit"
					}
					el := gossipEl{Op: "vote", K: k, R: r, V: g.w.nameOfHash(v.BlockID.Hash), Pol: -2, Src: name, I: -1}
					g.brain.absorb(el, "third")
					g.emitEnv(kind, el)
					return true
				}
			}
		}
		return false
	case "peerclaim":
		// the peer's queryMaj23Routine: a majority it holds in its round
		for _, t := range []tmproto.SignedMsgType{tmproto.PrevoteType, tmproto.PrecommitType} {
			var vs *types.VoteSet
			if t == tmproto.PrevoteType {
				vs = cs.Votes.Prevotes(cs.Round)
			} else {
				vs = cs.Votes.Precommits(cs.Round)
			}
			if bid, ok := vs.TwoThirdsMajority(); ok {
				g.recv(StateChannel, &tmcons.VoteSetMaj23{Height: cs.Height, Round: cs.Round, Type: t, BlockID: bid.ToProto()}, "peerclaim")
				return true
			}
		}
		return false
	}
	return false
}

func (g *gossipRun) emitEnv(kind string, el gossipEl) {
	anns := []map[string]interface{}{}
	for _, a := range g.annq {
		anns = append(anns, g.w.projMsg(a))
	}
	g.out.emit(map[string]interface{}{"ev": "Env", "run": g.c.ID, "kind": kind, "e": el, "x": g.projBrain(), "ann": anns})
	g.flushAnn("ann")
}

func (g *gossipRun) connect() {
	g.ps = nil
	g.conR.InitPeer(g.peer)
	g.ps = g.peer.Get(types.PeerStateKey).(*PeerState)
	p2p.AddPeerToSwitchPeerSet(g.sw, g.peer)
	g.conR.AddPeer(g.peer)
	for _, r := range []string{"data", "votes", "maj23"} {
		select {
		case <-g.peer.park[r]:
		case <-time.After(g.wait):
			g.undecided = "routine " + r + " did not start in time"
			return
		}
	}
	g.connected = true
	hello := g.peer.take() // the node's NewRoundStep for the new peer (AddPeer)
	g.out.emit(map[string]interface{}{"ev": "Connect", "run": g.c.ID, "sent": g.msgs(hello), "n": g.projNode(), "prs": g.projPRS()})
}

func (g *gossipRun) nrsOfBrain() *tmcons.NewRoundStep {
	rs := &g.brain.cs.RoundState
	return &tmcons.NewRoundStep{Height: rs.Height, Round: rs.Round, Step: uint32(rs.Step), LastCommitRound: rs.LastCommit.GetRound()}
}

func (g *gossipRun) run() {
	w := g.w
	tmrand.Seed(g.in.Seed*1000003 + int64(g.c.ID))
	g.node = gossipNewParty(w, "node")
	g.brain = gossipNewParty(w, "peer")
	defer g.node.close()
	defer g.brain.close()
	g.hookBrain()

	g.conR = NewReactor(g.node.cs, true)
	g.conR.SetLogger(log.NewNopLogger())
	g.sw = p2p.NewSwitch(config.P2P, nil)
	g.bclog = &gossipCountLogger{}
	g.sw.SetLogger(g.bclog)
	g.sw.AddReactor("CONSENSUS", g.conR)
	if err := g.conR.Start(); err != nil {
		g.t.Fatal(err)
	}
	g.conR.mtx.Lock()
	g.conR.waitSync = false
	g.conR.mtx.Unlock()
	g.peer = gossipNewPeer("peer", true)
	g.obs = gossipNewPeer("observer", false)
	g.obs.observe = true
	p2p.AddPeerToSwitchPeerSet(g.sw, g.obs)
	defer func() {
		// end the three goroutines, then the reactor (never conS.Wait(): the State was never started)
		for _, r := range []string{"data", "votes", "maj23"} {
			select {
			case g.peer.goch[r] <- false:
			default:
			}
		}
		g.conR.mtx.Lock()
		g.conR.waitSync = true
		g.conR.mtx.Unlock()
		_ = g.conR.Stop()
		_ = g.peer.Stop()
		_ = g.obs.Stop()
	}()

	// --- the situation
	g.out.emit(map[string]interface{}{"ev": "Reset", "run": g.c.ID, "node": g.c.Node, "peer": g.c.Peer, "mode": g.c.Mode,
		"nscript": g.c.NScript, "pscript": g.c.PScript, "nparts": w.nparts})
	for _, e := range g.c.NScript {
		g.node.absorb(e, "ext")
	}
	g.waitFresh()
	nb := g.bcasts()
	if g.c.Mode == "live" {
		g.connect()
		g.recv(StateChannel, g.nrsOfBrain(), "hello")
		g.annq, g.annch = nil, nil
		for _, e := range g.c.PScript {
			g.brain.absorb(e, "ext")
			g.emitEnv("script", e)
		}
	} else {
		for _, e := range g.c.PScript {
			g.brain.absorb(e, "ext")
		}
		g.annq, g.annch = nil, nil
		g.connect()
		g.recv(StateChannel, g.nrsOfBrain(), "hello")
	}
	// the peer's own gossip is not part of the harness, except: a peer holding the proposal of the round both are in
	// sends it to a node that lacks it (TMGossipSys!PeerProposal)
	ncs, bcs := g.node.cs, g.brain.cs
	if g.undecided == "" && ncs.Height == bcs.Height && ncs.Round == bcs.Round && bcs.Proposal != nil && ncs.Proposal == nil {
		g.recv(DataChannel, &tmcons.Proposal{Proposal: *bcs.Proposal.ToProto()}, "peerproposal")
	}
	g.out.emit(map[string]interface{}{"ev": "Situation", "run": g.c.ID, "node": g.c.Node, "peer": g.c.Peer, "mode": g.c.Mode,
		"n": g.projNode(), "x": g.projBrain(), "prs": g.projPRS(), "nbcast": nb})

	// --- the schedule of TLC, then fair rounds until nothing moves
	for _, k := range g.c.Sched {
		switch k {
		case "data", "votes", "maj23":
			g.step(k)
		default:
			g.env(k)
		}
	}
	order := [][]string{{"data", "votes", "maj23"}, {"votes", "maj23", "data"}, {"maj23", "data", "votes"}, {"votes", "data", "maj23"}}[g.c.ID%4]
	cont := g.c.Cont
	rounds := 0
	reached := false
	for rounds < g.in.MaxRounds && g.undecided == "" {
		rounds++
		xb, _ := json.Marshal(g.projBrain())
		pb, _ := json.Marshal(g.projPRS())
		busy := false
		for _, r := range order {
			n, _ := g.step(r)
			if n > 0 && r != "maj23" {
				busy = true
			}
		}
		xa, _ := json.Marshal(g.projBrain())
		pa, _ := json.Marshal(g.projPRS())
		if !busy && string(xa) == string(xb) && string(pa) == string(pb) {
			g.out.emit(map[string]interface{}{"ev": "Quiesce", "run": g.c.ID, "reached": true, "rounds": rounds})
			if cont > 0 && g.env("peertimeout") {
				cont--
				continue
			}
			reached = true
			break
		}
	}
	if !reached && g.undecided == "" {
		g.out.emit(map[string]interface{}{"ev": "Quiesce", "run": g.c.ID, "reached": false, "rounds": rounds})
	}
	g.out.emit(map[string]interface{}{"ev": "End", "run": g.c.ID, "undecided": g.undecided, "rounds": rounds})
}

func TestVerifGossip(t *testing.T) {
	inPath, outPath := os.Getenv("VERIF_IN"), os.Getenv("VERIF_OUT")
	if inPath == "" || outPath == "" {
		t.Skip("VERIF_IN / VERIF_OUT not set")
	}
	raw, err := os.ReadFile(inPath)
	if err != nil {
		t.Fatal(err)
	}
	var in gossipInput
	if err := json.Unmarshal(raw, &in); err != nil {
		t.Fatal(err)
	}
	if in.MaxRounds == 0 {
		in.MaxRounds = 100
	}
	if in.WaitMS == 0 {
		in.WaitMS = 30000
	}
	f, err := os.Create(outPath)
	if err != nil {
		t.Fatal(err)
	}
	defer f.Close()
	out := &gossipOut{f: f}
	w := gossipNewWorld(t, in.NParts, in.MaxRound)
	for _, c := range in.Cases {
		g := &gossipRun{t: t, w: w, in: &in, c: c, out: out, wait: time.Duration(in.WaitMS) * time.Millisecond}
		g.run()
	}
	out.emit(map[string]interface{}{"ev": "Done", "run": -1})
}
