//go:build verif

package consensus

// C17 harness, hostile half, consensus reactor: hostile-input SEQUENCES (spec/TMPeerGossip.tla,
// spec/TMPeerGossipSys.tla; trace spec spec/trace/TMPeerGossipTrace.tla).
//
// Same environment as zz_verif_c17_test.go "h1": a real consensus.State + Reactor on a real switch,
// validator 0 of 4, sitting in height 1 round 0 with its own proposal and its own prevote.  The remote
// peer is a second real switch; for every sequence it opens a NEW connection (new PeerState; the node's
// Reactor.AddPeer starts gossipDataRoutine, gossipVotesRoutine and queryMaj23Routine for it with bare
// `go` statements, exactly as in production) and sends the sequence's messages one after the other, each
// followed by the echo barrier.  After the last message the goroutines are left running for settle_ms.
// A panic in one of those goroutines is outside every production recover: it kills this process; the
// runner records that as the outcome of the sequence that was being fed and restarts after it.
// The harness records only; TLC judges.

import (
	"encoding/json"
	"fmt"
	"os"
	"testing"
	"time"

	tmcons "github.com/tendermint/tendermint/proto/tendermint/consensus"
	tmbits "github.com/tendermint/tendermint/proto/tendermint/libs/bits"
	tmproto "github.com/tendermint/tendermint/proto/tendermint/types"
)

type c17SeqMsg struct {
	K      string `json:"k"`
	H      int64  `json:"h"`
	R      int32  `json:"r"`
	S      uint32 `json:"s"`
	Pol    int32  `json:"pol"`
	Size   int    `json:"size"`
	Hdr    string `json:"hdr"`
	Commit bool   `json:"commit"`
	T      int32  `json:"t"`
	Idx    int32  `json:"idx"`
}

type c17Seq struct {
	Unit int         `json:"unit"`
	Name string      `json:"name"`
	Src  string      `json:"src"`
	Msgs []c17SeqMsg `json:"msgs"`
}

type c17SeqInput struct {
	Seqs   []c17Seq `json:"seqs"`
	Start  int      `json:"start"`
	Settle int      `json:"settle_ms"`
}

func c17SeqBits(size int) tmbits.BitArray {
	if size <= 0 {
		return tmbits.BitArray{}
	}
	return tmbits.BitArray{Bits: int64(size), Elems: c17Elems(size)}
}

// concrete instance of an abstract message of TMPeerGossip!HostileMsgs
func c17SeqBuild(c c17ConsCtx, m c17SeqMsg) (byte, []byte, bool) {
	foreignPSH := tmproto.PartSetHeader{Total: uint32(m.Size), Hash: c17Hash(6)}
	foreignBID := tmproto.BlockID{Hash: c17Hash(5), PartSetHeader: tmproto.PartSetHeader{Total: 1, Hash: c17Hash(6)}}
	switch m.K {
	case "NRS":
		lcr := int32(-1)
		if m.H > 1 {
			lcr = 0
		}
		return StateChannel, c17Wrap(&tmcons.NewRoundStep{Height: m.H, Round: m.R, Step: m.S, SecondsSinceStartTime: 1,
			LastCommitRound: lcr}), true
	case "Proposal":
		bid := c.BID
		if m.Hdr != "node" {
			bid = tmproto.BlockID{Hash: c17Hash(5), PartSetHeader: foreignPSH}
		}
		return DataChannel, c17Wrap(&tmcons.Proposal{Proposal: tmproto.Proposal{Type: tmproto.ProposalType, Height: m.H,
			Round: m.R, PolRound: m.Pol, BlockID: bid, Timestamp: time.Unix(1600000000, 0), Signature: make([]byte, 64)}}), true
	case "ProposalPOL":
		return DataChannel, c17Wrap(&tmcons.ProposalPOL{Height: m.H, ProposalPolRound: m.Pol, ProposalPol: c17SeqBits(m.Size)}), true
	case "NVB":
		psh := c.PSH
		if m.Hdr != "node" {
			psh = tmproto.PartSetHeader{Total: uint32(m.Size), Hash: c17Hash(9)}
		}
		ba := c17SeqBits(m.Size)
		return StateChannel, c17Wrap(&tmcons.NewValidBlock{Height: m.H, Round: m.R, BlockPartSetHeader: psh, BlockParts: &ba,
			IsCommit: m.Commit}), true
	case "HasVote":
		return StateChannel, c17Wrap(&tmcons.HasVote{Height: m.H, Round: m.R, Type: tmproto.SignedMsgType(m.T), Index: m.Idx}), true
	case "Vote":
		v := c.vote()
		v.Height, v.Round, v.Type, v.ValidatorIndex = m.H, m.R, tmproto.SignedMsgType(m.T), m.Idx
		return VoteChannel, c17Wrap(&tmcons.Vote{Vote: v}), true
	case "Maj23":
		return StateChannel, c17Wrap(&tmcons.VoteSetMaj23{Height: m.H, Round: m.R, Type: tmproto.SignedMsgType(m.T), BlockID: c.BID}), true
	case "VSBits":
		bid := c.BID
		if m.Hdr != "node" {
			bid = foreignBID
		}
		return VoteSetBitsChannel, c17Wrap(&tmcons.VoteSetBits{Height: m.H, Round: m.R, Type: tmproto.SignedMsgType(m.T), BlockID: bid,
			Votes: c17SeqBits(m.Size)}), true
	}
	return 0, nil, false
}

func TestVerifC17Seq(t *testing.T) {
	inPath, outPath := os.Getenv("VERIF_IN"), os.Getenv("VERIF_OUT")
	if inPath == "" || outPath == "" {
		t.Skip("VERIF_IN / VERIF_OUT not set")
	}
	raw, err := os.ReadFile(inPath)
	if err != nil {
		t.Fatal(err)
	}
	var in c17SeqInput
	if err := json.Unmarshal(raw, &in); err != nil {
		t.Fatal(err)
	}
	f, err := os.OpenFile(outPath, os.O_CREATE|os.O_WRONLY|os.O_APPEND, 0o644)
	if err != nil {
		t.Fatal(err)
	}
	defer f.Close()
	out := &c17Out{f: f}
	settle := time.Duration(in.Settle) * time.Millisecond
	h := &c17ConsHooks{css: map[string][]*State{}}
	var env *c17Env
	for _, sq := range in.Seqs {
		if sq.Unit < in.Start {
			continue
		}
		if env == nil {
			env = h.newEnv("h1")
		}
		run := sq.Unit + 1
		out.emit(map[string]interface{}{"ev": "Reset", "run": run, "unit": sq.Unit, "name": sq.Name, "src": sq.Src, "msgs": sq.Msgs})
		end := map[string]interface{}{"ev": "End", "run": run, "supported": true, "note": "", "honest": "n/a", "probe": "n/a",
			"consensus_failure": 0, "retained": 0, "allocated": 0, "cap": 0, "stopped": false}
		if env.wedged != "" || !env.reconnect() {
			end["supported"], end["note"] = false, "node wedged by an earlier sequence or cannot connect: "+env.wedged
			out.emit(end)
			continue
		}
		var c c17ConsCtx
		if !c17WithTimeout(20*time.Second, func() { c = h.ctx(env) }) {
			env.wedged = "reading the node's round state hangs"
			end["supported"], end["note"] = false, env.wedged
			out.emit(end)
			continue
		}
		env.barrier(1)
		if c17LastGCHeap < 0 || sq.Unit%64 == 0 {
			c17LastGCHeap = c17HeapAfterGC()
		}
		alloc0 := c17TotalAlloc()
		consfail0 := env.nlog.count("CONSENSUS FAILURE")
		id := env.switches[1].NodeInfo().ID()
		maxcap := 0
		for i, m := range sq.Msgs {
			row := map[string]interface{}{"ev": "Msg", "run": run, "i": i + 1, "m": m, "sent": false, "barrier": "n/a",
				"stopped": true, "panic_caught": 0}
			if env.node().Peers().Has(id) {
				ch, b, ok := c17SeqBuild(c, m)
				if !ok {
					panic(fmt.Sprintf("c17: no builder for %+v", m))
				}
				if env.caps[ch] > maxcap {
					maxcap = env.caps[ch]
				}
				p0 := env.nlog.count("MConnection panicked")
				row["sent"] = env.send(1, ch, b)
				bar := env.barrier(1)
				row["barrier"] = bar
				row["stopped"] = !env.node().Peers().Has(id)
				row["panic_caught"] = env.nlog.count("MConnection panicked") - p0
				if bar == "timeout" {
					env.wedged = fmt.Sprintf("receive routine hangs after message %d of %s", i+1, sq.Name)
				}
			}
			out.emit(row)
		}
		// the node's goroutines for this peer keep running on what the sequence left in the peer state
		time.Sleep(settle)
		end["stopped"] = !env.node().Peers().Has(id)
		end["consensus_failure"] = env.nlog.count("CONSENSUS FAILURE") - consfail0
		end["honest"] = env.barrier(2)
		end["probe"] = h.probe(env)
		allocated := c17TotalAlloc() - alloc0
		end["allocated"] = allocated
		end["retained"] = c17Retained(allocated)
		end["cap"] = maxcap
		if end["probe"] != "ok" {
			env.wedged = fmt.Sprintf("%v after %s", end["probe"], sq.Name)
		}
		out.emit(end)
	}
	out.emit(map[string]interface{}{"ev": "Done", "run": 0})
	if env != nil {
		env.stop()
	}
	for _, cl := range h.cleanups {
		cl()
	}
}
