//go:build verif

package consensus

// C17 harness, hostile half, consensus reactor: hostile-input SEQUENCES (spec/TMPeerGossip.tla,
// spec/TMPeerGossipSys.tla; trace spec spec/trace/TMPeerGossipTrace.tla).
//
// A real consensus.State + Reactor on a real switch, validator 0 of 4 (the harness holds the other three
// keys and a timeout ticker that fires only when told).  Node classes (TMPeerGossip!NodeClasses):
//   nh_init / nh_init5  RoundStepNewHeight at the chain's initial height (1 / 5): no LastCommit, the NewHeight
//                       timeout not fired (a node waiting for genesis time); a fresh node per sequence
//   nh_commit           RoundStepNewHeight after a commit (LastCommit present)
//   later               in round 0 with a complete proposal and its own prevote out
// After EVERY sequence the node carries on: the NewHeight timeout (if still pending), two FAILED rounds (nil
// prevotes / precommits of two other validators, prevote-wait and precommit-wait timeouts -> round 1 -> round 2),
// then a COMMITTED height (proposal of round 2, prevotes and precommits of the three others).  "progress" in the End
// line says whether that worked.  The remote
// peer is a second real switch; for every sequence it opens a NEW connection (new PeerState; the node's
// Reactor.AddPeer starts gossipDataRoutine, gossipVotesRoutine and queryMaj23Routine for it with bare
// `go` statements, exactly as in production) and sends the sequence's messages one after the other, each
// followed by the echo barrier.  After the last message the goroutines are left running for settle_ms.
// A panic in one of those goroutines is outside every production recover: it kills this process; the
// runner records that as the outcome of the sequence that was being fed and restarts after it.
// The harness records only; TLC judges.

import (
	"bytes"
	"encoding/json"
	"fmt"
	"os"
	"path/filepath"
	"sync"
	"testing"
	"time"

	dbm "github.com/tendermint/tm-db"

	abci "github.com/tendermint/tendermint/abci/types"
	cstypes "github.com/tendermint/tendermint/consensus/types"
	tmlog "github.com/tendermint/tendermint/libs/log"
	"github.com/tendermint/tendermint/p2p"
	sm "github.com/tendermint/tendermint/state"
	"github.com/tendermint/tendermint/types"

	tmcons "github.com/tendermint/tendermint/proto/tendermint/consensus"
	tmbits "github.com/tendermint/tendermint/proto/tendermint/libs/bits"
	tmproto "github.com/tendermint/tendermint/proto/tendermint/types"
)

type c17SeqMsg struct {
	K      string `json:"k"`
	H      int64  `json:"h"`
	R      int32  `json:"r"`
	S      uint32 `json:"s"`
	Pol    int32  `json:"pol"`
	Size   int    `json:"size"`
	Hdr    string `json:"hdr"`
	Commit bool   `json:"commit"`
	T      int32  `json:"t"`
	Idx    int32  `json:"idx"`
}

type c17Seq struct {
	Unit int         `json:"unit"`
	NS   string      `json:"ns"`
	Name string      `json:"name"`
	Src  string      `json:"src"`
	Msgs []c17SeqMsg `json:"msgs"`
}

type c17SeqInput struct {
	Seqs   []c17Seq `json:"seqs"`
	Start  int      `json:"start"`
	Settle int      `json:"settle_ms"`
}

func c17SeqBits(size int) tmbits.BitArray {
	if size <= 0 {
		return tmbits.BitArray{}
	}
	return tmbits.BitArray{Bits: int64(size), Elems: c17Elems(size)}
}

// concrete instance of an abstract message of TMPeerGossip!HostileMsgs
var c17NonVal = types.NewMockPV()

func c17SeqBuild(c c17ConsCtx, initial int64, chainID string, rel c17SeqMsg) (byte, []byte, bool) {
	m := rel
	m.H = c.H + rel.H - 1 // heights of the model are relative to the node's height (NodeH = 1)
	foreignPSH := tmproto.PartSetHeader{Total: uint32(m.Size), Hash: c17Hash(6)}
	foreignBID := tmproto.BlockID{Hash: c17Hash(5), PartSetHeader: tmproto.PartSetHeader{Total: 1, Hash: c17Hash(6)}}
	switch m.K {
	case "NRS":
		lcr := int32(-1)
		if m.H > initial {
			lcr = 0
		}
		return StateChannel, c17Wrap(&tmcons.NewRoundStep{Height: m.H, Round: m.R, Step: m.S, SecondsSinceStartTime: 1,
			LastCommitRound: lcr}), true
	case "Proposal":
		bid := c.BID
		if m.Hdr != "node" {
			bid = tmproto.BlockID{Hash: c17Hash(5), PartSetHeader: foreignPSH}
		}
		return DataChannel, c17Wrap(&tmcons.Proposal{Proposal: tmproto.Proposal{Type: tmproto.ProposalType, Height: m.H,
			Round: m.R, PolRound: m.Pol, BlockID: bid, Timestamp: time.Unix(1600000000, 0), Signature: make([]byte, 64)}}), true
	case "ProposalPOL":
		return DataChannel, c17Wrap(&tmcons.ProposalPOL{Height: m.H, ProposalPolRound: m.Pol, ProposalPol: c17SeqBits(m.Size)}), true
	case "NVB":
		psh := c.PSH
		if m.Hdr != "node" {
			psh = tmproto.PartSetHeader{Total: uint32(m.Size), Hash: c17Hash(9)}
		}
		ba := c17SeqBits(m.Size)
		return StateChannel, c17Wrap(&tmcons.NewValidBlock{Height: m.H, Round: m.R, BlockPartSetHeader: psh, BlockParts: &ba,
			IsCommit: m.Commit}), true
	case "HasVote":
		return StateChannel, c17Wrap(&tmcons.HasVote{Height: m.H, Round: m.R, Type: tmproto.SignedMsgType(m.T), Index: m.Idx}), true
	case "Vote":
		v := c.vote()
		v.Height, v.Round, v.Type, v.ValidatorIndex = m.H, m.R, tmproto.SignedMsgType(m.T), m.Idx
		if m.Hdr == "nonval" && m.H >= 0 && m.R >= 0 {
			// a VALID signature of a key that is not in the validator set
			pk, _ := c17NonVal.GetPubKey()
			v.ValidatorAddress = pk.Address()
			if err := c17NonVal.SignVote(chainID, v); err != nil {
				panic(err)
			}
		}
		return VoteChannel, c17Wrap(&tmcons.Vote{Vote: v}), true
	case "Maj23":
		return StateChannel, c17Wrap(&tmcons.VoteSetMaj23{Height: m.H, Round: m.R, Type: tmproto.SignedMsgType(m.T), BlockID: c.BID}), true
	case "VSBits":
		bid := c.BID
		if m.Hdr != "node" {
			bid = foreignBID
		}
		return VoteSetBitsChannel, c17Wrap(&tmcons.VoteSetBits{Height: m.H, Round: m.R, Type: tmproto.SignedMsgType(m.T), BlockID: bid,
			Votes: c17SeqBits(m.Size)}), true
	}
	return 0, nil, false
}

// ---------------------------------------------------------------- a ticker that fires only when told
type c17Ticker struct {
	mtx  sync.Mutex
	last timeoutInfo
	have bool
	c    chan timeoutInfo
}

func (t *c17Ticker) Start() error             { return nil }
func (t *c17Ticker) Stop() error              { return nil }
func (t *c17Ticker) Chan() <-chan timeoutInfo { return t.c }
func (t *c17Ticker) SetLogger(tmlog.Logger)   {}
func (t *c17Ticker) ScheduleTimeout(ti timeoutInfo) {
	t.mtx.Lock()
	t.last, t.have = ti, true
	t.mtx.Unlock()
}
func (t *c17Ticker) scheduled(h int64, r int32, step cstypes.RoundStepType) bool {
	t.mtx.Lock()
	defer t.mtx.Unlock()
	return t.have && t.last.Height == h && t.last.Round == r && t.last.Step == step
}
func (t *c17Ticker) fire() {
	t.mtx.Lock()
	ti := t.last
	t.have = false
	t.mtx.Unlock()
	t.c <- ti
}

// ---------------------------------------------------------------- the controlled node
type c17Ctl struct {
	env     *c17Env
	cs      *State
	vss     []*validatorStub
	tick    *c17Ticker
	initial int64
	cleanup func()
}

func c17NewCtl(name string, initial int64) *c17Ctl {
	genDoc, privVals := randGenesisDoc(4, false, 30)
	genDoc.InitialHeight = initial
	stateDB := dbm.NewMemDB()
	stateStore := sm.NewStore(stateDB, sm.StoreOptions{DiscardABCIResponses: false})
	state, err := stateStore.LoadFromDBOrGenesisDoc(genDoc)
	if err != nil {
		panic(err)
	}
	thisConfig := ResetConfig("c17_seq_" + name)
	thisConfig.Consensus.PeerGossipSleepDuration = 2 * time.Millisecond
	thisConfig.Consensus.PeerQueryMaj23SleepDuration = 5 * time.Millisecond
	thisConfig.Consensus.SkipTimeoutCommit = false
	ensureDir(filepath.Dir(thisConfig.Consensus.WalFile()), 0o700)
	app := newCounter()
	app.InitChain(abci.RequestInitChain{Validators: types.TM2PB.ValidatorUpdates(state.Validators), InitialHeight: initial})
	cs := newStateWithConfigAndBlockStore(thisConfig, state, privVals[0], app, stateDB)
	tick := &c17Ticker{c: make(chan timeoutInfo, 16)}
	cs.SetTimeoutTicker(tick)
	conR := NewReactor(cs, true)
	conR.SetEventBus(cs.eventBus)
	if err := cs.blockExec.Store().Save(cs.state); err != nil {
		panic(err)
	}
	env := c17NewEnv(name, map[string]p2p.Reactor{"CONSENSUS": conR}, []string{"CONSENSUS"})
	cs.SetLogger(env.nlog)
	conR.SetLogger(env.nlog)
	ctl := &c17Ctl{env: env, cs: cs, tick: tick, initial: initial, cleanup: func() { os.RemoveAll(thisConfig.RootDir) }}
	for i, pv := range privVals {
		ctl.vss = append(ctl.vss, newValidatorStub(pv, int32(i)))
	}
	conR.SwitchToConsensus(cs.GetState(), false) // starts the state machine: RoundStepNewHeight, timeout pending
	return ctl
}

func (ctl *c17Ctl) stop() {
	ctl.env.stop()
	ctl.cleanup()
}

func (ctl *c17Ctl) rs() *cstypes.RoundState {
	var rs *cstypes.RoundState
	if !c17WithTimeout(10*time.Second, func() { rs = ctl.cs.GetRoundState() }) {
		return nil
	}
	return rs
}

func (ctl *c17Ctl) where() string {
	rs := ctl.rs()
	if rs == nil {
		return "consensus state mutex held"
	}
	return fmt.Sprintf("%d/%d/%v", rs.Height, rs.Round, rs.Step)
}

func (ctl *c17Ctl) halted() bool {
	select {
	case <-ctl.cs.done: // receiveRoutine is gone ("CONSENSUS FAILURE!!!" or a stop): nothing will ever happen
		return true
	default:
		return false
	}
}

func (ctl *c17Ctl) wait(cond func(rs *cstypes.RoundState) bool) bool {
	ok := false
	ctl.env.waitFor(func() bool {
		if ctl.halted() {
			return true
		}
		rs := ctl.rs()
		ok = rs != nil && cond(rs)
		return ok
	}, 8*time.Second)
	return ok
}

func (ctl *c17Ctl) fireWhen(h int64, r int32, step cstypes.RoundStepType) bool {
	if !ctl.env.waitFor(func() bool { return ctl.halted() || ctl.tick.scheduled(h, r, step) }, 8*time.Second) || ctl.halted() {
		return false
	}
	ctl.tick.fire()
	return true
}

func (ctl *c17Ctl) others(h int64, r int32, n int) []*validatorStub {
	out := ctl.vss[1 : 1+n]
	for _, vs := range out {
		vs.Height, vs.Round = h, r
	}
	return out
}

// the node has a complete proposal for (h, r) and its own prevote out; the proposal comes from the node itself
// or, if another validator is the proposer, is made and signed by the harness with that validator's key
func (ctl *c17Ctl) proposalAndPrevote(h int64, r int32) string {
	if !ctl.wait(func(rs *cstypes.RoundState) bool {
		return rs.Height == h && rs.Round == r && rs.Step >= cstypes.RoundStepPropose
	}) {
		return "not in round " + fmt.Sprint(r) + ": " + ctl.where()
	}
	rs := ctl.rs()
	prop := rs.Validators.GetProposer().Address
	if !bytes.Equal(prop, ctl.cs.privValidatorPubKey.Address()) && rs.Proposal == nil {
		for _, vs := range ctl.vss[1:] {
			pk, _ := vs.GetPubKey()
			if bytes.Equal(pk.Address(), prop) {
				proposal, block := decideProposal(ctl.cs, vs, h, r)
				parts := block.MakePartSet(types.BlockPartSizeBytes)
				if err := ctl.cs.SetProposalAndBlock(proposal, block, parts, "c17-driver"); err != nil {
					return "cannot hand in the proposal: " + err.Error()
				}
			}
		}
	}
	if !ctl.wait(func(rs *cstypes.RoundState) bool {
		return rs.Height == h && rs.Round == r && rs.ProposalBlock != nil && rs.Votes.Prevotes(r) != nil &&
			rs.Votes.Prevotes(r).BitArray().GetIndex(0)
	}) {
		return "no proposal / own prevote in round " + fmt.Sprint(r) + ": " + ctl.where()
	}
	return "ok"
}

// RoundStepNewHeight -> round 0 with proposal and own prevote
func (ctl *c17Ctl) startHeight() string {
	rs := ctl.rs()
	if rs == nil {
		return "consensus state mutex held"
	}
	if rs.Step != cstypes.RoundStepNewHeight {
		return "ok"
	}
	if !ctl.fireWhen(rs.Height, 0, cstypes.RoundStepNewHeight) {
		return "NewHeight timeout not scheduled: " + ctl.where()
	}
	return ctl.proposalAndPrevote(rs.Height, 0)
}

// one failed round (node in round r with its prevote out) -> round r+1 with proposal and own prevote
func (ctl *c17Ctl) failRound() string {
	rs := ctl.rs()
	if rs == nil {
		return "consensus state mutex held"
	}
	h, r := rs.Height, rs.Round
	signAddVotes(ctl.cs, tmproto.PrevoteType, nil, types.PartSetHeader{}, ctl.others(h, r, 2)...)
	if !ctl.fireWhen(h, r, cstypes.RoundStepPrevoteWait) {
		return "prevote-wait timeout not scheduled: " + ctl.where()
	}
	if !ctl.wait(func(rs *cstypes.RoundState) bool { return rs.Votes.Precommits(r).BitArray().GetIndex(0) }) {
		return "no own precommit: " + ctl.where()
	}
	signAddVotes(ctl.cs, tmproto.PrecommitType, nil, types.PartSetHeader{}, ctl.others(h, r, 2)...)
	if !ctl.fireWhen(h, r, cstypes.RoundStepPrecommitWait) {
		return "precommit-wait timeout not scheduled: " + ctl.where()
	}
	return ctl.proposalAndPrevote(h, r+1)
}

// the three other validators vote for the node's proposal block: the height is committed, the node waits in
// RoundStepNewHeight of the next height
func (ctl *c17Ctl) commitHeight() string {
	rs := ctl.rs()
	if rs == nil {
		return "consensus state mutex held"
	}
	h, r := rs.Height, rs.Round
	hash, psh := rs.ProposalBlock.Hash(), rs.ProposalBlockParts.Header()
	signAddVotes(ctl.cs, tmproto.PrevoteType, hash, psh, ctl.others(h, r, 3)...)
	if !ctl.wait(func(rs *cstypes.RoundState) bool {
		return rs.Height > h || (rs.Votes.Precommits(r) != nil && rs.Votes.Precommits(r).BitArray().GetIndex(0))
	}) {
		return "no own precommit for the block: " + ctl.where()
	}
	signAddVotes(ctl.cs, tmproto.PrecommitType, hash, psh, ctl.others(h, r, 3)...)
	if !ctl.wait(func(rs *cstypes.RoundState) bool { return rs.Height == h+1 && rs.Step == cstypes.RoundStepNewHeight }) {
		return "height not committed: " + ctl.where()
	}
	return "ok"
}

// what "the node carries on" means after a sequence
func (ctl *c17Ctl) carryOn() string {
	for _, f := range []struct {
		name string
		f    func() string
	}{{"start", ctl.startHeight}, {"failed round", ctl.failRound}, {"second failed round", ctl.failRound}, {"commit", ctl.commitHeight}} {
		var r string
		if !c17WithTimeout(40*time.Second, func() { r = f.f() }) {
			return f.name + ": hangs"
		}
		if r != "ok" {
			return f.name + ": " + r
		}
	}
	return "ok"
}

func (ctl *c17Ctl) probe() string {
	if ctl.rs() == nil {
		return "consensus state mutex held"
	}
	select {
	case <-ctl.cs.done:
		return "consensus receiveRoutine exited"
	default:
	}
	if !ctl.cs.IsRunning() {
		return "consensus state stopped"
	}
	return "ok"
}

func (ctl *c17Ctl) ctx() c17ConsCtx {
	rs := ctl.cs.GetRoundState()
	c := c17ConsCtx{H: rs.Height, R: rs.Round, N: 4}
	if rs.ProposalBlockParts != nil && rs.ProposalBlock != nil {
		hdr := rs.ProposalBlockParts.Header()
		c.PSH = hdr.ToProto()
		c.BID = tmproto.BlockID{Hash: rs.ProposalBlock.Hash(), PartSetHeader: c.PSH}
		c.HasP = true
	} else {
		c.PSH = tmproto.PartSetHeader{Total: 1, Hash: c17Hash(3)}
		c.BID = tmproto.BlockID{Hash: c17Hash(4), PartSetHeader: c.PSH}
	}
	_, v := rs.Validators.GetByIndex(1)
	c.Addr1 = v.Address
	return c
}

// the node class a sequence wants; "" if the node cannot be brought there
func (ctl *c17Ctl) enter(ns string) string {
	switch ns {
	case "nh_init", "nh_init5":
		return "ok" // fresh node: RoundStepNewHeight at the initial height, timeout pending
	case "nh_commit", "later":
		rs := ctl.rs()
		if rs == nil {
			return "consensus state mutex held"
		}
		if rs.Height == ctl.initial { // first use of this node: commit the initial height
			if r := ctl.startHeight(); r != "ok" {
				return r
			}
			if r := ctl.commitHeight(); r != "ok" {
				return r
			}
		}
		if ns == "later" {
			return ctl.startHeight()
		}
		return "ok"
	}
	return "unknown node class " + ns
}

func TestVerifC17Seq(t *testing.T) {
	inPath, outPath := os.Getenv("VERIF_IN"), os.Getenv("VERIF_OUT")
	if inPath == "" || outPath == "" {
		t.Skip("VERIF_IN / VERIF_OUT not set")
	}
	raw, err := os.ReadFile(inPath)
	if err != nil {
		t.Fatal(err)
	}
	var in c17SeqInput
	if err := json.Unmarshal(raw, &in); err != nil {
		t.Fatal(err)
	}
	f, err := os.OpenFile(outPath, os.O_CREATE|os.O_WRONLY|os.O_APPEND, 0o644)
	if err != nil {
		t.Fatal(err)
	}
	defer f.Close()
	out := &c17Out{f: f}
	settle := time.Duration(in.Settle) * time.Millisecond
	var ctl *c17Ctl
	nenv := 0
	for _, sq := range in.Seqs {
		if sq.Unit < in.Start {
			continue
		}
		fresh := sq.NS == "nh_init" || sq.NS == "nh_init5"
		if ctl != nil && (fresh || ctl.env.wedged != "") {
			ctl.stop()
			ctl = nil
		}
		if ctl == nil {
			nenv++
			initial := int64(1)
			if sq.NS == "nh_init5" {
				initial = 5
			}
			ctl = c17NewCtl(fmt.Sprintf("%d", nenv), initial)
		}
		env := ctl.env
		run := sq.Unit + 1
		end := map[string]interface{}{"ev": "End", "run": run, "supported": true, "note": "", "honest": "n/a", "probe": "n/a",
			"progress": "n/a", "consensus_failure": 0, "retained": 0, "allocated": 0, "cap": 0, "stopped": false}
		var entered string
		if !c17WithTimeout(60*time.Second, func() { entered = ctl.enter(sq.NS) }) {
			entered = "hangs"
		}
		rs := ctl.rs()
		if entered != "ok" || rs == nil || !env.reconnect() {
			// the node could not be brought into the class (never seen on a healthy tree): not executed
			out.emit(map[string]interface{}{"ev": "Reset", "run": run, "unit": sq.Unit, "ns": sq.NS, "name": sq.Name, "src": sq.Src,
				"nodeh": 0, "initial": ctl.initial, "msgs": sq.Msgs})
			end["supported"], end["note"] = false, "node not in class "+sq.NS+": "+entered
			out.emit(end)
			env.wedged = "cannot enter " + sq.NS
			continue
		}
		c := ctl.ctx()
		out.emit(map[string]interface{}{"ev": "Reset", "run": run, "unit": sq.Unit, "ns": sq.NS, "name": sq.Name, "src": sq.Src,
			"nodeh": c.H, "initial": ctl.initial, "msgs": sq.Msgs})
		env.barrier(1)
		if c17LastGCHeap < 0 || sq.Unit%64 == 0 || fresh {
			c17LastGCHeap = c17HeapAfterGC()
		}
		alloc0 := c17TotalAlloc()
		consfail0 := env.nlog.count("CONSENSUS FAILURE")
		id := env.switches[1].NodeInfo().ID()
		maxcap := 0
		for i, m := range sq.Msgs {
			row := map[string]interface{}{"ev": "Msg", "run": run, "i": i + 1, "m": m, "sent": false, "barrier": "n/a",
				"stopped": true, "panic_caught": 0}
			if env.node().Peers().Has(id) {
				ch, b, ok := c17SeqBuild(c, ctl.initial, ctl.cs.state.ChainID, m)
				if !ok {
					panic(fmt.Sprintf("c17: no builder for %+v", m))
				}
				if env.caps[ch] > maxcap {
					maxcap = env.caps[ch]
				}
				p0 := env.nlog.count("MConnection panicked")
				row["sent"] = env.send(1, ch, b)
				bar := env.barrier(1)
				row["barrier"] = bar
				row["stopped"] = !env.node().Peers().Has(id)
				row["panic_caught"] = env.nlog.count("MConnection panicked") - p0
				if bar == "timeout" {
					env.wedged = fmt.Sprintf("receive routine hangs after message %d of %s", i+1, sq.Name)
				}
			}
			out.emit(row)
		}
		// the node's goroutines for this peer keep running on what the sequence left in the peer state
		time.Sleep(settle)
		// ... and the node carries on
		prog := ctl.carryOn()
		end["progress"] = prog
		end["stopped"] = !env.node().Peers().Has(id)
		end["consensus_failure"] = env.nlog.count("CONSENSUS FAILURE") - consfail0
		end["honest"] = env.barrier(2)
		end["probe"] = ctl.probe()
		allocated := c17TotalAlloc() - alloc0
		end["allocated"] = allocated
		end["retained"] = c17Retained(allocated)
		end["cap"] = maxcap
		if end["probe"] != "ok" || prog != "ok" {
			env.wedged = fmt.Sprintf("%v / %v after %s", end["probe"], prog, sq.Name)
		}
		out.emit(end)
	}
	out.emit(map[string]interface{}{"ev": "Done", "run": 0})
	if ctl != nil {
		ctl.stop()
	}
}
