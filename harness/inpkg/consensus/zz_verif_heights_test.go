//go:build verif

package consensus

// HEIGHTS driver (auxiliary check HEIGHTS, spec/TMConsensusHeights*.tla).
//
// ONE real consensus.State (real HeightVoteSet, BlockExecutor, block store, state store, WAL file) is stepped
// single-threaded over a chain of heights by this driver, exactly like zz_verif_cons_test.go does for one height: the
// receive routine is never started, the ticker is a recording stub, the driver emulates receiveRoutine (WAL write, then
// handleMsg / handleTimeout).  All other validators are scripted (their keys are held by the driver); the application
// is the kvstore whose EndBlock answers with the validator updates the schedule dictates.
//
// A schedule is a list of steps  Deliver(hh, m) | Polka(r, v) | ProcessInternal | Timeout(hh, k) | Other(kind) | Restart
// produced by TLC (simulation, counterexamples of weakened specs) or by the seeded walker below.  After every step the node,
// the sm.State, cs.LastCommit and the stores are projected to the abstract world of spec/TMConsensusHeights.tla and one NDJSON
// line is written.  The driver gives no verdicts; TLC does (spec/trace/TMConsensusHeightsTrace.tla).

import (
	"encoding/hex"
	"encoding/json"
	"fmt"
	"math/rand"
	"os"
	"sort"
	"strconv"
	"testing"
	"time"

	dbm "github.com/tendermint/tm-db"

	abcicli "github.com/tendermint/tendermint/abci/client"
	"github.com/tendermint/tendermint/abci/example/kvstore"
	abci "github.com/tendermint/tendermint/abci/types"
	cstypes "github.com/tendermint/tendermint/consensus/types"
	"github.com/tendermint/tendermint/crypto/ed25519"
	"github.com/tendermint/tendermint/libs/log"
	tmsync "github.com/tendermint/tendermint/libs/sync"
	mempoolv0 "github.com/tendermint/tendermint/mempool/v0"
	"github.com/tendermint/tendermint/p2p"
	tmproto "github.com/tendermint/tendermint/proto/tendermint/types"
	sm "github.com/tendermint/tendermint/state"
	"github.com/tendermint/tendermint/store"
	"github.com/tendermint/tendermint/types"
	tmtime "github.com/tendermint/tendermint/types/time"
)

// ---------------------------------------------------------------- formats

type heightsAP struct {
	A int   `json:"a"`
	P int64 `json:"p"`
}

type heightsStep struct {
	Name string      `json:"name"` // Deliver | Polka | ProcessInternal | Timeout | Other | Restart
	HH   int64       `json:"hh"`   // absolute height of the message / timeout
	M    heightsMsg       `json:"m"`
	K    string      `json:"k"`
	U    []heightsAP `json:"u"` // EndBlock's answer if this step commits a block
}

type heightsRun struct {
	ID        int           `json:"id"`
	Kind      string        `json:"kind"`
	Gen       []heightsAP   `json:"gen"`
	Skip      bool          `json:"skip"`
	Steps     []heightsStep `json:"steps"`
	RandLen   int           `json:"randlen"`
	MaxHeight int64         `json:"maxheight"`
	Seed      int64         `json:"seed"`
}

type heightsInput struct {
	MaxRound int          `json:"maxround"`
	Universe int          `json:"universe"`
	Runs     []heightsRun `json:"runs"`
}

type heightsOut struct {
	T   string `json:"t"`
	R   int    `json:"r"`
	V   string `json:"v"`
	Pol int    `json:"pol"`
	H   int64  `json:"h"`
}

type heightsSign struct {
	T      string   `json:"t"`
	R      int      `json:"r"`
	V      string   `json:"v"`
	Pol    int      `json:"pol"`
	H      int64    `json:"h"`
	CsH    int64    `json:"csh"`    // cs.Height at the moment of signing
	StoreH int64    `json:"storeh"` // block store height
	StateH int64    `json:"stateh"` // LastBlockHeight of the state in the state store
	BH     int64    `json:"bh"`     // height of the block voted for / proposed (0: nil or not known to the driver)
	By     []string `json:"by"`     // validators whose prevote for V in round R the node holds (precommits for a block)
	Held   []string `json:"held"`
	OK     bool     `json:"ok"`
}

type heightsBlock struct {
	name  string
	h     int64
	block *types.Block
	parts *types.PartSet
}

type heightsItem struct {
	peer string
	hh   int64
	m    heightsMsg
	msgs []msgInfo
}

// the application: kvstore + EndBlock answering with the updates the schedule dictates
type heightsApp struct {
	*kvstore.Application
	w       *heightsWorld
	pending []abci.ValidatorUpdate
	asked   []int64 // heights EndBlock was called for during the current step
}

func (a *heightsApp) EndBlock(req abci.RequestEndBlock) abci.ResponseEndBlock {
	a.asked = append(a.asked, req.Height)
	return abci.ResponseEndBlock{ValidatorUpdates: a.pending}
}

type heightsWorld struct {
	t        *testing.T
	in       *heightsInput
	run      *heightsRun
	maxRound int
	names    []string // universe in address order
	keys     map[string]ed25519.PrivKey
	privs    map[string]types.PrivValidator
	addrName map[string]string
	rank     map[string]int
	me       string
	chainID  string
	db       dbm.DB
	app      *heightsApp
	cs       *State
	stateSt  sm.Store
	walFile  string
	tmpdir   string
	cfgSkip  bool

	blocks   map[string]*heightsBlock // key: name@h
	hashName map[string]string        // block hash hex -> name@h
	pshName  map[string]string        // part-set header hash hex -> name@h
	pending  map[string]*types.PartSet
	blkNames map[*types.Block]string
	preparedH int64

	inq      []heightsItem
	out      []heightsOut
	signs    []heightsSign
	ownBlocks []map[string]interface{}
	panicked string
	touched  bool // something of the current height was handled since the height began
	replaying bool
	delivered []heightsStep
	plan     []heightsStep
	allPre   map[int64][]*types.Vote // every precommit the driver ever produced or saw, per height
}

func heightsKey(name string, h int64) string { return name + "@" + strconv.FormatInt(h, 10) }

// ---------------------------------------------------------------- signer / ticker

type heightsSigner struct {
	types.PrivValidator
	w *heightsWorld
}

func (s *heightsSigner) SignVote(chainID string, vote *tmproto.Vote) error {
	err := s.PrivValidator.SignVote(chainID, vote)
	w := s.w
	if w.replaying {
		return err
	}
	t := "prevote"
	if vote.Type == tmproto.PrecommitType {
		t = "precommit"
	}
	w.recordSign(t, vote.Height, int(vote.Round), w.nameOfBlockIDProto(vote.BlockID, vote.Height), -2, err == nil, &vote.BlockID)
	return err
}

func (s *heightsSigner) SignProposal(chainID string, p *tmproto.Proposal) error {
	err := s.PrivValidator.SignProposal(chainID, p)
	w := s.w
	if w.replaying {
		return err
	}
	w.recordSign("proposal", p.Height, int(p.Round), w.nameOfBlockIDProto(p.BlockID, p.Height), int(p.PolRound), err == nil, nil)
	return err
}

func (w *heightsWorld) recordSign(t string, h int64, r int, v string, pol int, ok bool, bid *tmproto.BlockID) {
	cs := w.cs
	sg := heightsSign{T: t, R: r, V: v, Pol: pol, H: h, OK: ok, By: []string{}, Held: []string{}, CsH: cs.Height, StoreH: cs.blockStore.Height(), StateH: -1}
	if st, err := w.stateSt.Load(); err == nil {
		sg.StateH = st.LastBlockHeight
	}
	if bid != nil && len(bid.Hash) > 0 {
		if k, ok := w.hashName[hex.EncodeToString(bid.Hash)]; ok {
			if b, okb := w.blocks[k]; okb {
				sg.BH = b.h
			}
		}
	}
	if t == "precommit" && bid != nil && len(bid.Hash) > 0 {
		if b, err := types.BlockIDFromProto(bid); err == nil {
			if pvs := cs.Votes.Prevotes(int32(r)); pvs != nil {
				if ba := pvs.BitArrayByBlockID(*b); ba != nil {
					for i, val := range cs.Validators.Validators {
						if ba.GetIndex(i) {
							sg.By = append(sg.By, w.addrName[val.Address.String()])
						}
					}
				}
			}
		}
	}
	held := map[string]bool{}
	if cs.ProposalBlock != nil {
		held[w.nameOfBlock(cs.ProposalBlock, cs.ProposalBlockParts)] = true
	}
	if cs.LockedBlock != nil {
		held[w.nameOfBlock(cs.LockedBlock, cs.LockedBlockParts)] = true
	}
	if cs.ValidBlock != nil {
		held[w.nameOfBlock(cs.ValidBlock, cs.ValidBlockParts)] = true
	}
	for x := range held {
		sg.Held = append(sg.Held, x)
	}
	sort.Strings(sg.Held)
	sort.Strings(sg.By)
	w.signs = append(w.signs, sg)
	if ok {
		w.out = append(w.out, heightsOut{T: t, R: r, V: v, Pol: pol, H: h})
	}
}

type heightsTicker struct{ w *heightsWorld }

func (*heightsTicker) Start() error                 { return nil }
func (*heightsTicker) Stop() error                  { return nil }
func (*heightsTicker) Chan() <-chan timeoutInfo     { return make(chan timeoutInfo) }
func (*heightsTicker) SetLogger(log.Logger)         {}
func (tk *heightsTicker) ScheduleTimeout(ti timeoutInfo) {
	if tk.w.replaying {
		return
	}
	tk.w.out = append(tk.w.out, heightsOut{T: "sched", R: int(ti.Round), V: heightsKindOfStep(ti.Step), Pol: -2, H: ti.Height})
}

// ---------------------------------------------------------------- construction

var heightsGenesisTime = time.Date(2020, 1, 1, 0, 0, 0, 0, time.UTC)

func heightsNewWorld(t *testing.T, in *heightsInput, run *heightsRun) *heightsWorld {
	w := &heightsWorld{t: t, in: in, run: run, maxRound: in.MaxRound, keys: map[string]ed25519.PrivKey{}, privs: map[string]types.PrivValidator{},
		addrName: map[string]string{}, rank: map[string]int{}, blocks: map[string]*heightsBlock{}, hashName: map[string]string{},
		pshName: map[string]string{}, pending: map[string]*types.PartSet{}, blkNames: map[*types.Block]string{}, panicked: "none",
		allPre: map[int64][]*types.Vote{}, cfgSkip: run.Skip}
	ks := []ed25519.PrivKey{}
	for i := 0; i < 4*in.Universe; i++ {
		ks = append(ks, ed25519.GenPrivKeyFromSecret([]byte(fmt.Sprintf("verif-heights-key-%d", i))))
	}
	sort.Slice(ks, func(a, b int) bool { return string(ks[a].PubKey().Address()) < string(ks[b].PubKey().Address()) })
	ks = ks[:in.Universe]
	for i, k := range ks {
		name := "v" + strconv.Itoa(i)
		w.names = append(w.names, name)
		w.keys[name] = k
		w.privs[name] = types.NewMockPVWithParams(k, false, false)
		w.addrName[k.PubKey().Address().String()] = name
		w.rank[name] = i + 1
	}
	w.me = w.names[0]
	gvals := []types.GenesisValidator{}
	for _, g := range run.Gen {
		gvals = append(gvals, types.GenesisValidator{PubKey: ks[g.A-1].PubKey(), Power: g.P})
	}
	genDoc := &types.GenesisDoc{GenesisTime: heightsGenesisTime, ChainID: config.ChainID(), InitialHeight: 1, Validators: gvals}
	st, err := sm.MakeGenesisState(genDoc)
	if err != nil {
		t.Fatal(err)
	}
	w.chainID = st.ChainID
	base := ""
	if fi, err := os.Stat("/dev/shm"); err == nil && fi.IsDir() {
		base = "/dev/shm"
	}
	w.tmpdir, _ = os.MkdirTemp(base, "heights-")
	w.walFile = w.tmpdir + "/wal/wal"
	_ = os.MkdirAll(w.tmpdir+"/wal", 0o700)
	w.db = dbm.NewMemDB()
	w.app = &heightsApp{Application: kvstore.NewApplication(), w: w}
	w.stateSt = sm.NewStore(w.db, sm.StoreOptions{DiscardABCIResponses: false})
	if err := w.stateSt.Save(st); err != nil {
		t.Fatal(err)
	}
	w.boot(st)
	return w
}

// a State on the stores (what node.NewNode + OnStart do, minus the goroutines)
func (w *heightsWorld) boot(st sm.State) {
	c := *config
	cc := *config.Consensus
	cc.SkipTimeoutCommit = w.cfgSkip
	cc.CreateEmptyBlocks = true
	c.Consensus = &cc
	blockStore := store.NewBlockStore(w.db)
	mtx := new(tmsync.Mutex)
	conCon := abcicli.NewLocalClient(mtx, w.app)
	conMem := abcicli.NewLocalClient(mtx, w.app)
	mp := mempoolv0.NewCListMempool(config.Mempool, conMem, st.LastBlockHeight,
		mempoolv0.WithPreCheck(sm.TxPreCheck(st)), mempoolv0.WithPostCheck(sm.TxPostCheck(st)))
	evpool := sm.EmptyEvidencePool{}
	blockExec := sm.NewBlockExecutor(w.stateSt, log.NewNopLogger(), conCon, mp, evpool)
	cs := NewState(c.Consensus, st, blockExec, blockStore, mp, evpool)
	cs.SetLogger(log.NewNopLogger())
	cs.SetPrivValidator(&heightsSigner{PrivValidator: w.privs[w.me], w: w})
	eb := types.NewEventBus()
	eb.SetLogger(log.NewNopLogger())
	if err := eb.Start(); err != nil {
		w.t.Fatal(err)
	}
	cs.SetEventBus(eb)
	cs.SetTimeoutTicker(&heightsTicker{w: w})
	wal, err := cs.OpenWAL(w.walFile)
	if err != nil {
		w.t.Fatal(err)
	}
	cs.wal = wal
	w.cs = cs
}

func (w *heightsWorld) close() {
	if w.cs != nil {
		if w.cs.eventBus != nil {
			_ = w.cs.eventBus.Stop()
		}
		if w.cs.wal != nil {
			_ = w.cs.wal.Stop()
			w.cs.wal.Wait()
		}
	}
	if w.tmpdir != "" {
		os.RemoveAll(w.tmpdir)
	}
}

// stop the node (no crash: everything written is on disk) and start a new State on the same stores and WAL
func (w *heightsWorld) restart() {
	old := w.cs
	_ = old.eventBus.Stop()
	_ = old.wal.Stop()
	old.wal.Wait()
	st, err := w.stateSt.Load()
	if err != nil {
		w.t.Fatal(err)
	}
	w.guarded(func() {
		w.boot(st)
		w.replaying = true
		defer func() { w.replaying = false }()
		if err := w.cs.catchupReplay(w.cs.Height); err != nil {
			panic("catchupReplay: " + err.Error())
		}
	})
	w.replaying = false
	// what the replay signed again / queued again is discarded: at a boundary there is nothing
	for {
		select {
		case <-w.cs.internalMsgQueue:
			continue
		case <-w.cs.statsMsgQueue:
			continue
		default:
		}
		break
	}
	w.cs.scheduleRound0(&w.cs.RoundState) // OnStart
}

func (w *heightsWorld) guarded(f func()) {
	defer func() {
		if r := recover(); r != nil {
			msg := fmt.Sprint(r)
			switch {
			case heightsContains(msg, "+2/3 committed an invalid block"):
				w.panicked = "committed an invalid block"
			case heightsContains(msg, "+2/3 prevoted for an invalid block"):
				w.panicked = "+2/3 prevoted for an invalid block"
			case heightsContains(msg, "expected ProposalBlockParts header to be commit header"):
				w.panicked = "parts header differs from commit header"
			case heightsContains(msg, "BlockStore can only save complete block part sets"):
				w.panicked = "incomplete part set at commit"
			case heightsContains(msg, "nil pointer") || heightsContains(msg, "invalid memory address"):
				w.panicked = "other: nil LastCommit"
			default:
				if len(msg) > 80 {
					msg = msg[:80]
				}
				w.panicked = "other: " + msg
			}
		}
	}()
	f()
}

// ---------------------------------------------------------------- blocks and names

func (w *heightsWorld) register(name string, h int64, b *types.Block, ps *types.PartSet) {
	k := heightsKey(name, h)
	w.blocks[k] = &heightsBlock{name: name, h: h, block: b, parts: ps}
	w.hashName[hex.EncodeToString(b.Hash())] = k
	w.pshName[hex.EncodeToString(ps.Header().Hash)] = k
}

// display name of a registered key relative to height h: "Z0" at its own height, "Z0@3" elsewhere
func heightsShow(k string, h int64) string {
	suffix := "@" + strconv.FormatInt(h, 10)
	if len(k) > len(suffix) && k[len(k)-len(suffix):] == suffix {
		return k[:len(k)-len(suffix)]
	}
	return k
}

func (w *heightsWorld) nameOfHash(hash []byte, h int64) string {
	if len(hash) == 0 {
		return "nil"
	}
	if k, ok := w.hashName[hex.EncodeToString(hash)]; ok {
		return heightsShow(k, h)
	}
	return "?" + hex.EncodeToString(hash[:4])
}

func (w *heightsWorld) nameOfBlockID(b types.BlockID, h int64) string {
	if len(b.Hash) == 0 {
		return "nil"
	}
	if k, ok := w.pshName[hex.EncodeToString(b.PartSetHeader.Hash)]; ok {
		if blk, okb := w.blocks[k]; !okb || string(blk.block.Hash()) == string(b.Hash) {
			return heightsShow(k, h)
		}
	}
	return w.nameOfHash(b.Hash, h)
}

func (w *heightsWorld) nameOfBlockIDProto(b tmproto.BlockID, h int64) string {
	bid, err := types.BlockIDFromProto(&b)
	if err != nil {
		return w.nameOfHash(b.Hash, h)
	}
	return w.nameOfBlockID(*bid, h)
}

func (w *heightsWorld) nameOfBlock(b *types.Block, ps *types.PartSet) string {
	if b == nil {
		return "nil"
	}
	if nm, ok := w.blkNames[b]; ok {
		return nm
	}
	h := w.cs.Height
	nm := w.nameOfHash(b.Hash(), h)
	if ps != nil && ps.IsComplete() {
		cand := w.nameOfBlockID(types.BlockID{Hash: b.Hash(), PartSetHeader: ps.Header()}, h)
		if cand[0] != '?' {
			nm = cand
		}
	}
	w.blkNames[b] = nm
	return nm
}

func (w *heightsWorld) nameOfPSH(hd types.PartSetHeader, h int64) string {
	if hd.IsZero() {
		return "nil"
	}
	if k, ok := w.pshName[hex.EncodeToString(hd.Hash)]; ok {
		return heightsShow(k, h)
	}
	return "?" + hex.EncodeToString(hd.Hash[:4])
}

func (w *heightsWorld) blockID(v string, h int64) (types.BlockID, bool) {
	if v == "nil" {
		return types.BlockID{}, true
	}
	b, ok := w.blocks[heightsKey(v, h)]
	if !ok {
		return types.BlockID{}, false
	}
	return types.BlockID{Hash: b.block.Hash(), PartSetHeader: b.parts.Header()}, true
}

// scripted validators of the height in force, in address order
func (w *heightsWorld) scripted(vals *types.ValidatorSet) []string {
	out := []string{}
	for _, n := range w.names {
		if n == w.me {
			continue
		}
		if vals != nil && vals.HasAddress(w.keys[n].PubKey().Address()) {
			out = append(out, n)
		}
	}
	return out
}

// the environment's blocks of the height the node is at: Z0, Z1 (valid, carry a tx), ZX (wrong AppHash), ZC (a LastCommit
// that is not one: no signature at all)
func (w *heightsWorld) prepareHeight() {
	cs := w.cs
	h := cs.Height
	if w.preparedH == h || w.panicked != "none" {
		return
	}
	w.preparedH = h
	w.blkNames = map[*types.Block]string{}
	st := cs.state
	sc := w.scripted(st.Validators)
	if len(sc) == 0 {
		return
	}
	proposer := w.keys[sc[0]].PubKey().Address()
	commit := types.NewCommit(0, 0, types.BlockID{}, nil)
	if h > st.InitialHeight {
		commit = cs.blockStore.LoadSeenCommit(h - 1)
		if commit == nil {
			return
		}
	}
	mk := func(name, tx string, c *types.Commit) {
		b, ps := st.MakeBlock(h, []types.Tx{types.Tx(tx)}, c, nil, proposer)
		w.register(name, h, b, ps)
	}
	mk("Z0", fmt.Sprintf("z0h%d=1", h), commit)
	mk("Z1", fmt.Sprintf("z1h%d=1", h), commit)
	zx, _ := st.MakeBlock(h, []types.Tx{types.Tx(fmt.Sprintf("zxh%d=1", h))}, commit, nil, proposer)
	zx.AppHash = []byte("verif-bad-app-hash")
	w.register("ZX", h, zx, zx.MakePartSet(types.BlockPartSizeBytes))
	if h > st.InitialHeight {
		bad := &types.Commit{Height: commit.Height, Round: commit.Round, BlockID: commit.BlockID, Signatures: make([]types.CommitSig, len(commit.Signatures))}
		// (one signature would do if that validator held +2/3 of the power: none is invalid under every validator set)
		for i := range commit.Signatures {
			bad.Signatures[i] = types.NewCommitSigAbsent()
		}
		zc, zcp := st.MakeBlock(h, []types.Tx{types.Tx(fmt.Sprintf("zch%d=1", h))}, bad, nil, proposer)
		w.register("ZC", h, zc, zcp)
	}
}

// ---------------------------------------------------------------- the node's own queue

func (w *heightsWorld) drain() {
	cs := w.cs
	for {
		select {
		case mi := <-cs.internalMsgQueue:
			w.absorb(mi)
		default:
			for {
				select {
				case <-cs.statsMsgQueue:
				default:
					return
				}
			}
		}
	}
}

func (w *heightsWorld) absorb(mi msgInfo) {
	switch msg := mi.Msg.(type) {
	case *ProposalMessage:
		p := msg.Proposal
		key := hex.EncodeToString(p.BlockID.PartSetHeader.Hash)
		if _, known := w.hashName[hex.EncodeToString(p.BlockID.Hash)]; !known {
			w.pending[key] = types.NewPartSetFromHeader(p.BlockID.PartSetHeader)
			k := heightsKey("B"+w.me, p.Height)
			for i := 2; ; i++ {
				if _, dup := w.blocks[k]; !dup && !heightsHasValue(w.hashName, k) {
					break
				}
				k = heightsKey("B"+w.me+"_"+strconv.Itoa(i), p.Height)
			}
			w.hashName[hex.EncodeToString(p.BlockID.Hash)] = k
			w.pshName[key] = k
		}
		v := w.nameOfBlockID(p.BlockID, p.Height)
		for i := range w.signs {
			if w.signs[i].T == "proposal" && w.signs[i].R == int(p.Round) && w.signs[i].H == p.Height && w.signs[i].V[0] == '?' {
				w.signs[i].V = v
			}
		}
		for i := range w.out {
			if w.out[i].T == "proposal" && w.out[i].R == int(p.Round) && w.out[i].H == p.Height && w.out[i].V[0] == '?' {
				w.out[i].V = v
			}
		}
		w.inq = append(w.inq, heightsItem{hh: p.Height, m: heightsMsg{T: "proposal", Src: w.me, R: int(p.Round), V: v, Pol: int(p.POLRound)}, msgs: []msgInfo{mi}})
	case *BlockPartMessage:
		var name string
		for key, ps := range w.pending {
			if added, _ := ps.AddPart(msg.Part); added {
				name = heightsShow(w.pshName[key], msg.Height)
				if ps.IsComplete() {
					b, err := heightsDecodeBlock(ps)
					if err != nil {
						// the node proposed something that is not a block: a fact for the trace spec (P1), the run goes on
						delete(w.pending, key)
						w.ownBlocks = append(w.ownBlocks, map[string]interface{}{"v": name, "h": msg.Height, "lch": int64(-1), "lcr": -1,
							"lcfor": "undecodable", "flags": map[string]string{"-": "-"}, "sigok": false, "size": -1})
						break
					}
					k := w.pshName[key]
					w.blocks[k] = &heightsBlock{name: name, h: msg.Height, block: b, parts: ps}
					delete(w.pending, key)
					w.ownBlocks = append(w.ownBlocks, w.ownBlockFacts(name, b))
				}
				break
			}
		}
		if name == "" {
			for k, b := range w.blocks {
				if b.h == msg.Height && int(msg.Part.Index) < int(b.parts.Total()) && string(b.parts.GetPart(int(msg.Part.Index)).Bytes) == string(msg.Part.Bytes) {
					name = heightsShow(k, msg.Height)
					break
				}
			}
		}
		if n := len(w.inq); n > 0 && w.inq[n-1].m.T == "block" && w.inq[n-1].m.V == name && w.inq[n-1].hh == msg.Height {
			w.inq[n-1].msgs = append(w.inq[n-1].msgs, mi)
		} else {
			w.inq = append(w.inq, heightsItem{hh: msg.Height, m: heightsMsg{T: "block", Src: "-", R: -1, V: name, Pol: -2}, msgs: []msgInfo{mi}})
		}
	case *VoteMessage:
		v := msg.Vote
		t := "prevote"
		if v.Type == tmproto.PrecommitType {
			t = "precommit"
			w.allPre[v.Height] = append(w.allPre[v.Height], v)
		}
		w.inq = append(w.inq, heightsItem{hh: v.Height, m: heightsMsg{T: t, Src: w.me, R: int(v.Round), V: w.nameOfBlockID(v.BlockID, v.Height), Pol: -2}, msgs: []msgInfo{mi}})
	}
}

func heightsHasValue(m map[string]string, v string) bool {
	for _, x := range m {
		if x == v {
			return true
		}
	}
	return false
}

// facts about the LastCommit inside a block the node created (P1)
func (w *heightsWorld) ownBlockFacts(name string, b *types.Block) map[string]interface{} {
	lc := b.LastCommit
	f := map[string]interface{}{"v": name, "h": b.Height, "lch": int64(0), "lcr": -1, "lcfor": "nil", "flags": map[string]string{"-": "-"}, "sigok": true, "size": 0}
	if lc == nil {
		return f
	}
	f["lch"], f["lcr"], f["size"] = lc.Height, int(lc.Round), len(lc.Signatures)
	f["lcfor"] = w.nameOfBlockID(lc.BlockID, lc.Height)
	vals := w.cs.state.LastValidators
	flags := map[string]string{"-": "-"}
	ok := true
	for i, s := range lc.Signatures {
		if vals == nil || i >= vals.Size() {
			ok = false
			break
		}
		val := vals.Validators[i]
		nm := w.addrName[val.Address.String()]
		switch {
		case s.Absent():
			flags[nm] = "absent"
		case s.ForBlock():
			flags[nm] = "commit"
		default:
			flags[nm] = "nil"
		}
		if !s.Absent() {
			vote := lc.GetVote(int32(i))
			if string(s.ValidatorAddress) != string(val.Address) ||
				!val.PubKey.VerifySignature(types.VoteSignBytes(w.chainID, vote.ToProto()), s.Signature) {
				ok = false
			}
		}
	}
	f["flags"], f["sigok"] = flags, ok
	return f
}

// ---------------------------------------------------------------- projection

func (w *heightsWorld) projSet(vs *types.ValidatorSet) map[string]interface{} {
	vals := []map[string]interface{}{}
	prop := 0
	if vs != nil && vs.Size() > 0 {
		for _, v := range vs.Validators {
			vals = append(vals, map[string]interface{}{"a": w.rank[w.addrName[v.Address.String()]], "p": v.VotingPower, "pr": v.ProposerPriority})
		}
		prop = w.rank[w.addrName[vs.Copy().GetProposer().Address.String()]]
	}
	return map[string]interface{}{"vals": vals, "prop": prop}
}

func (w *heightsWorld) projVS(vs *types.VoteSet, vals *types.ValidatorSet, h int64) map[string]interface{} {
	votes := map[string]string{"-": "-"}
	by := [][]string{}
	maj := "none"
	alien, sigbad := false, false
	if vals != nil {
		for _, v := range vals.Validators {
			votes[w.addrName[v.Address.String()]] = "none"
		}
	}
	if vs != nil && vals != nil {
		cands := []string{"nil"}
		for k, b := range w.blocks {
			if b.h == h {
				cands = append(cands, heightsShow(k, h))
			}
		}
		sort.Strings(cands)
		for i, v := range vals.Validators {
			nm := w.addrName[v.Address.String()]
			if i >= vs.Size() {
				continue // the vote set is over another validator set than the one the state names: what can be seen is logged
			}
			if vt := vs.GetByIndex(int32(i)); vt != nil {
				votes[nm] = w.nameOfBlockID(vt.BlockID, h)
				if vt.Height != vs.GetHeight() || vt.Round != vs.GetRound() || tmproto.SignedMsgType(vs.Type()) != vt.Type {
					alien = true
				}
				if !v.PubKey.VerifySignature(types.VoteSignBytes(w.chainID, vt.ToProto()), vt.Signature) {
					sigbad = true
				}
			}
		}
		if bid, ok := vs.TwoThirdsMajority(); ok {
			maj = w.nameOfBlockID(bid, h)
		}
		for _, bn := range cands {
			bid, _ := w.blockID(bn, h)
			if ba := vs.BitArrayByBlockID(bid); ba != nil {
				for i, v := range vals.Validators {
					if ba.GetIndex(i) {
						by = append(by, []string{bn, w.addrName[v.Address.String()]})
					}
				}
			}
		}
	}
	return map[string]interface{}{"votes": votes, "maj": maj, "by": by, "alien": alien, "sigbad": sigbad}
}

func (w *heightsWorld) project() map[string]interface{} {
	cs := w.cs
	rs := &cs.RoundState
	h := rs.Height
	p := map[string]interface{}{"r": -1, "v": "nil", "pol": -1}
	if rs.Proposal != nil {
		p = map[string]interface{}{"r": int(rs.Proposal.Round), "v": w.nameOfBlockID(rs.Proposal.BlockID, h), "pol": int(rs.Proposal.POLRound)}
	}
	lockedName := w.nameOfBlock(rs.LockedBlock, rs.LockedBlockParts)
	validName := w.nameOfBlock(rs.ValidBlock, rs.ValidBlockParts)
	propName := w.nameOfBlock(rs.ProposalBlock, rs.ProposalBlockParts)
	partsHdr := "nil"
	if rs.ProposalBlockParts != nil {
		partsHdr = w.nameOfPSH(rs.ProposalBlockParts.Header(), h)
	}
	pv, pc := []map[string]interface{}{}, []map[string]interface{}{}
	tracked := []int{}
	for r := 0; r <= w.maxRound; r++ {
		pvs, pcs := rs.Votes.Prevotes(int32(r)), rs.Votes.Precommits(int32(r))
		if pvs != nil {
			tracked = append(tracked, r)
		}
		pv = append(pv, w.projVS(pvs, cs.Validators, h))
		pc = append(pc, w.projVS(pcs, cs.Validators, h))
	}
	node := map[string]interface{}{
		"height": 1, "round": int(rs.Round), "step": int(rs.Step),
		"lockedR": int(rs.LockedRound), "lockedV": lockedName, "validR": int(rs.ValidRound), "validV": validName,
		"prop": p, "propBlock": propName, "partsHdr": partsHdr, "ttp": rs.TriggeredTimeoutPrecommit, "commitR": int(rs.CommitRound),
		"pv": pv, "pc": pc, "tracked": tracked, "decision": "nil", "panic": w.panicked,
	}
	st := cs.state
	lc := map[string]interface{}{"nil": true, "h": int64(0), "r": -1, "vals": []string{}, "vs": w.projVS(nil, nil, 0)}
	if rs.LastCommit != nil {
		names := []string{}
		for _, v := range st.LastValidators.Validators {
			names = append(names, w.addrName[v.Address.String()])
		}
		lc = map[string]interface{}{"nil": false, "h": rs.LastCommit.GetHeight(), "r": int(rs.LastCommit.GetRound()), "vals": names,
			"vs": w.projVS(rs.LastCommit, st.LastValidators, rs.LastCommit.GetHeight())}
	}
	dec := []map[string]interface{}{}
	for x := int64(1); x <= cs.blockStore.Height(); x++ {
		d := map[string]interface{}{"v": "?", "r": -1}
		if bm := cs.blockStore.LoadBlockMeta(x); bm != nil {
			d["v"] = w.nameOfBlockID(bm.BlockID, x)
		}
		if sc := cs.blockStore.LoadSeenCommit(x); sc != nil {
			d["r"] = int(sc.Round)
		}
		dec = append(dec, d)
	}
	savedH := int64(-1)
	if sst, err := w.stateSt.Load(); err == nil {
		savedH = sst.LastBlockHeight
	}
	// scheduleRound0's contract: while the node waits in step NewHeight, StartTime = CommitTime + TimeoutCommit
	startOK := rs.Step != cstypes.RoundStepNewHeight || rs.CommitTime.IsZero() || rs.StartTime.Equal(cs.config.Commit(rs.CommitTime))
	return map[string]interface{}{
		"h": h, "node": node,
		"vs": map[string]interface{}{"last": w.projSet(st.LastValidators), "cur": w.projSet(st.Validators), "next": w.projSet(st.NextValidators),
			"lhvc": st.LastHeightValidatorsChanged},
		"rv": w.projSet(cs.Validators), "lc": lc, "dec": dec, "storeh": cs.blockStore.Height(), "savedh": savedH,
		"laststateh": st.LastBlockHeight, "startok": startOK,
	}
}

// ---------------------------------------------------------------- concrete messages

func (w *heightsWorld) valsAt(hh int64) *types.ValidatorSet {
	cs := w.cs
	switch hh {
	case cs.Height:
		return cs.Validators
	case cs.Height - 1:
		return cs.state.LastValidators
	case cs.Height + 1:
		return cs.state.NextValidators
	}
	return cs.Validators
}

func (w *heightsWorld) makeVote(src, t string, hh int64, r int, bid types.BlockID) *types.Vote {
	vt := tmproto.PrevoteType
	if t == "precommit" {
		vt = tmproto.PrecommitType
	}
	k := w.keys[src]
	addr := k.PubKey().Address()
	idx := int32(0)
	if vals := w.valsAt(hh); vals != nil {
		if i, v := vals.GetByAddress(addr); v != nil {
			idx = i
		}
	}
	// the timestamp rule of a correct validator (State.voteTime): not before the block's time + TimeIota; the node's own votes
	// follow it, and block times of a fast chain run ahead of the wall clock
	ts := tmtime.Now()
	for _, b := range w.blocks {
		if b.h == hh {
			if m := b.block.Time.Add(time.Duration(w.cs.state.ConsensusParams.Block.TimeIotaMs) * time.Millisecond); m.After(ts) {
				ts = m
			}
		}
	}
	vote := &types.Vote{Type: vt, Height: hh, Round: int32(r), BlockID: bid, Timestamp: ts, ValidatorAddress: addr, ValidatorIndex: idx}
	vp := vote.ToProto()
	if err := w.privs[src].SignVote(w.chainID, vp); err != nil {
		w.t.Fatal(err)
	}
	vote.Signature = vp.Signature
	if t == "precommit" {
		w.allPre[hh] = append(w.allPre[hh], vote)
	}
	return vote
}

func (w *heightsWorld) concretize(hh int64, m heightsMsg) (heightsItem, bool) {
	it := heightsItem{hh: hh, m: m}
	switch m.T {
	case "block":
		b, ok := w.blocks[heightsKey(m.V, hh)]
		if !ok {
			// a part carrying another height: take the block of the node's height
			b, ok = w.blocks[heightsKey(m.V, w.cs.Height)]
			if !ok {
				return it, false
			}
		}
		for i := 0; i < int(b.parts.Total()); i++ {
			it.msgs = append(it.msgs, msgInfo{Msg: &BlockPartMessage{Height: hh, Round: w.cs.Round, Part: b.parts.GetPart(i)}, PeerID: p2p.ID("peer")})
		}
		return it, true
	case "proposal":
		bid, ok := w.blockID(m.V, hh)
		if !ok {
			if bid, ok = w.blockID(m.V, w.cs.Height); !ok {
				return it, false
			}
		}
		if _, has := w.keys[m.Src]; !has {
			return it, false
		}
		p := types.NewProposal(hh, int32(m.R), int32(m.Pol), bid)
		pp := p.ToProto()
		if err := w.privs[m.Src].SignProposal(w.chainID, pp); err != nil {
			w.t.Fatal(err)
		}
		p.Signature = pp.Signature
		it.msgs = []msgInfo{{Msg: &ProposalMessage{Proposal: p}, PeerID: p2p.ID(m.Src)}}
		return it, true
	case "prevote", "precommit":
		if _, has := w.keys[m.Src]; !has {
			return it, false
		}
		bid, ok := w.blockID(m.V, hh)
		if !ok {
			// a vote of another height for a block the driver has no name for at that height: any block id will do
			if bid, ok = w.blockID(m.V, w.cs.Height); !ok {
				return it, false
			}
		}
		peer := m.Src
		if vals := w.valsAt(hh); vals == nil || !vals.HasAddress(w.keys[m.Src].PubKey().Address()) {
			peer = "ext" // a peer that is not a validator of that height
		}
		it.peer = peer
		it.msgs = []msgInfo{{Msg: &VoteMessage{Vote: w.makeVote(m.Src, m.T, hh, m.R, bid)}, PeerID: p2p.ID(peer)}}
		return it, true
	}
	return it, false
}

func heightsUpdates(w *heightsWorld, u []heightsAP) []abci.ValidatorUpdate {
	out := []abci.ValidatorUpdate{}
	for _, x := range u {
		if x.A < 1 || x.A > len(w.names) {
			continue
		}
		out = append(out, types.TM2PB.NewValidatorUpdate(w.keys[w.names[x.A-1]].PubKey(), x.P))
	}
	return out
}

// would the set refuse the batch?  (the driver only offers what the application may legally answer; that includes removing the
// node under test: it then follows the chain without signing)
func (w *heightsWorld) updateOK(u []heightsAP) bool {
	if len(u) == 0 {
		return true
	}
	n := w.cs.state.NextValidators.Copy()
	vals := []*types.Validator{}
	for _, x := range u {
		if x.A < 1 || x.A > len(w.names) {
			return false
		}
		vals = append(vals, types.NewValidator(w.keys[w.names[x.A-1]].PubKey(), x.P))
	}
	return n.UpdateWithChangeSet(vals) == nil
}

// ---------------------------------------------------------------- executing one step

type heightsWriter struct {
	enc *json.Encoder
	n   int
}

func (wr *heightsWriter) emit(v interface{}) {
	if err := wr.enc.Encode(v); err != nil {
		panic(err)
	}
	wr.n++
}

// emulation of receiveRoutine for one input: WAL first, then the handler
func (w *heightsWorld) feed(mi msgInfo, internal bool) {
	w.guarded(func() {
		if internal {
			if err := w.cs.wal.WriteSync(mi); err != nil {
				panic(err)
			}
		} else if err := w.cs.wal.Write(mi); err != nil {
			panic(err)
		}
		w.cs.handleMsg(mi)
	})
}

func (w *heightsWorld) step(wr *heightsWriter, run int, st heightsStep) bool {
	if w.panicked != "none" {
		return false
	}
	w.prepareHeight()
	cs := w.cs
	if st.Name == "Polka" {
		ok := false
		for _, src := range w.scripted(cs.Validators) {
			if w.step(wr, run, heightsStep{Name: "Deliver", HH: cs.Height, M: heightsMsg{T: "prevote", Src: src, R: st.M.R, V: st.M.V, Pol: -2}, K: "-", U: st.U}) {
				ok = true
			}
		}
		return ok
	}
	if st.Name == "Other" {
		c, ok := w.other(st.K)
		if !ok {
			return false
		}
		return w.step(wr, run, c)
	}
	h0 := cs.Height
	w.out, w.signs, w.ownBlocks = nil, nil, nil
	w.app.asked = nil
	u := st.U
	if !w.updateOK(u) {
		u = nil
	}
	w.app.pending = heightsUpdates(w, u)
	ev := map[string]interface{}{"ev": st.Name, "run": run, "hh": st.HH, "k": "-", "peer": "-",
		"m": heightsMsg{T: "-", Src: "-", R: -1, V: "-", Pol: -2}}
	switch st.Name {
	case "Deliver":
		it, ok := w.concretize(st.HH, st.M)
		if !ok {
			return false
		}
		for i := range it.msgs {
			w.feed(it.msgs[i], false)
		}
		ev["m"] = it.m
		if it.m.T == "block" {
			ev["peer"] = w.me
		} else if it.peer != "" {
			ev["peer"] = it.peer
		} else {
			ev["peer"] = it.m.Src
		}
		if st.HH == h0 {
			w.touched = true
		}
		w.delivered = append(w.delivered, st)
		if len(w.delivered) > 200 {
			w.delivered = w.delivered[100:]
		}
	case "ProcessInternal":
		if len(w.inq) == 0 {
			return false
		}
		it := w.inq[0]
		w.inq = w.inq[1:]
		for i := range it.msgs {
			w.feed(it.msgs[i], true)
		}
		ev["m"] = it.m
		ev["hh"] = it.hh
		ev["peer"] = w.me
		if it.hh == h0 {
			w.touched = true
		}
	case "Timeout":
		round := cs.Round
		if st.M.T == "tick" {
			round = int32(st.M.R)
		}
		ti := timeoutInfo{Duration: 0, Height: st.HH, Round: round, Step: heightsStepOfKind(st.K)}
		ev["m"] = heightsMsg{T: "-", Src: "-", R: int(round), V: "-", Pol: -2}
		ev["k"] = st.K
		w.guarded(func() {
			if err := cs.wal.Write(ti); err != nil {
				panic(err)
			}
			cs.handleTimeout(ti, cs.RoundState)
		})
		if st.HH == h0 {
			w.touched = true
		}
	case "Restart":
		if cs.Step != cstypes.RoundStepNewHeight || len(w.inq) > 0 || w.touched {
			return false
		}
		w.restart()
	default:
		return false
	}
	w.drain()
	cs = w.cs
	if cs.Height != h0 {
		w.touched = false
		// what the node did at the new height in the same step (SkipTimeoutCommit) counts as touching it
		for _, o := range w.out {
			if o.H == cs.Height && o.T != "sched" {
				w.touched = true
			}
		}
		if cs.Step != cstypes.RoundStepNewHeight {
			w.touched = true
		}
		w.prepareHeight()
	}
	// the answer EndBlock gave in this step (if it was asked)
	ua := []heightsAP{}
	if len(w.app.asked) > 0 {
		for _, x := range u {
			ua = append(ua, x)
		}
	}
	ev["u"] = ua
	ev["asked"] = len(w.app.asked)
	ev["post"] = w.project()
	out := w.out
	if out == nil {
		out = []heightsOut{}
	}
	ev["out"] = out
	signs := w.signs
	if signs == nil {
		signs = []heightsSign{}
	}
	ev["signs"] = signs
	ob := w.ownBlocks
	if ob == nil {
		ob = []map[string]interface{}{}
	}
	ev["ownblocks"] = ob
	ev["inqlen"] = len(w.inq)
	// a fact for diagnosis: what ValidateBlock says about the proposal block the node holds
	ev["validate"] = "-"
	if cs.ProposalBlock != nil && w.panicked == "none" {
		ev["validate"] = "ok"
		if err := cs.blockExec.ValidateBlock(cs.state, cs.ProposalBlock); err != nil {
			ev["validate"] = err.Error()
		}
	}
	wr.emit(ev)
	return true
}

// a message / timeout of another height (P5)
func (w *heightsWorld) other(kind string) (heightsStep, bool) {
	cs := w.cs
	h := cs.Height
	sc := w.scripted(cs.Validators)
	if len(sc) == 0 {
		return heightsStep{}, false
	}
	src := sc[int(h)%len(sc)]
	switch kind {
	case "futurevote":
		return heightsStep{Name: "Deliver", HH: h + 1, M: heightsMsg{T: "precommit", Src: src, R: 0, V: "Z0", Pol: -2}, K: "-"}, true
	case "futureprevote":
		return heightsStep{Name: "Deliver", HH: h + 1, M: heightsMsg{T: "prevote", Src: src, R: 0, V: "Z0", Pol: -2}, K: "-"}, true
	case "oldprevote":
		return heightsStep{Name: "Deliver", HH: h - 1, M: heightsMsg{T: "prevote", Src: src, R: 0, V: "Z0", Pol: -2}, K: "-"}, h > 1
	case "olderprecommit":
		return heightsStep{Name: "Deliver", HH: h - 2, M: heightsMsg{T: "precommit", Src: src, R: 0, V: "Z0", Pol: -2}, K: "-"}, h > 2
	case "futureproposal":
		return heightsStep{Name: "Deliver", HH: h + 1, M: heightsMsg{T: "proposal", Src: src, R: int(cs.Round), V: "Z0", Pol: -1}, K: "-"}, true
	case "oldproposal":
		return heightsStep{Name: "Deliver", HH: h - 1, M: heightsMsg{T: "proposal", Src: src, R: int(cs.Round), V: "Z0", Pol: -1}, K: "-"}, h > 1
	case "oldpart":
		return heightsStep{Name: "Deliver", HH: h - 1, M: heightsMsg{T: "block", Src: "-", R: -1, V: "Z0", Pol: -2}, K: "-"}, h > 1
	case "futurepart":
		return heightsStep{Name: "Deliver", HH: h + 1, M: heightsMsg{T: "block", Src: "-", R: -1, V: "Z0", Pol: -2}, K: "-"}, true
	case "futuretimeout":
		return heightsStep{Name: "Timeout", HH: h + 1, K: "NewHeight"}, true
	case "oldtimeout":
		return heightsStep{Name: "Timeout", HH: h - 1, K: "Propose"}, h > 1
	}
	return heightsStep{}, false
}

// ---------------------------------------------------------------- the seeded walker

var heightsMenu = [][]heightsAP{
	{}, {}, {}, {{2, 3}}, {{4, 0}}, {{5, 2}}, {{3, 0}}, {{4, 3}, {5, 1}}, {{1, 3}}, {{2, 1}}, {{4, 2}}, {{5, 0}}, {{3, 2}}, {{2, 0}}, {{1, 0}}, {{1, 2}},
}

func (w *heightsWorld) randomUpdate(rng *rand.Rand) []heightsAP {
	for k := 0; k < 5; k++ {
		u := heightsMenu[rng.Intn(len(heightsMenu))]
		ok := true
		for _, x := range u {
			if x.A > len(w.names) {
				ok = false
			}
		}
		if ok && w.updateOK(u) {
			return u
		}
	}
	return nil
}

// a plan that makes the height progress: proposal + block (if a scripted validator proposes), prevotes and precommits of
// a random quorum-ish subset of the scripted validators; the rest of the precommits are left for later (late precommits)
func (w *heightsWorld) progressPlan(rng *rand.Rand) {
	cs := w.cs
	h := cs.Height
	r := int(cs.Round)
	sc := w.scripted(cs.Validators)
	if len(sc) == 0 {
		return
	}
	prop := w.addrName[cs.Validators.GetProposer().Address.String()]
	v := "Z0"
	if rng.Intn(4) == 0 {
		v = "Z1"
	}
	if prop == w.me {
		v = "B" + w.me
		if _, ok := w.blocks[heightsKey(v, h)]; !ok {
			return
		}
	} else if cs.Proposal == nil {
		w.plan = append(w.plan, heightsStep{Name: "Deliver", HH: h, M: heightsMsg{T: "proposal", Src: prop, R: r, V: v, Pol: -1}},
			heightsStep{Name: "Deliver", HH: h, M: heightsMsg{T: "block", Src: "-", R: -1, V: v, Pol: -2}})
	} else {
		v = w.nameOfBlockID(cs.Proposal.BlockID, h)
	}
	perm := rng.Perm(len(sc))
	drop := 0
	if len(sc) > 1 {
		drop = rng.Intn(2)
	}
	for _, t := range []string{"prevote", "precommit"} {
		for k, i := range perm {
			if t == "precommit" && k >= len(sc)-drop {
				continue
			}
			w.plan = append(w.plan, heightsStep{Name: "Deliver", HH: h, M: heightsMsg{T: t, Src: sc[i], R: r, V: v, Pol: -2}})
		}
	}
}

func (w *heightsWorld) randomStep(rng *rand.Rand) (heightsStep, bool) {
	cs := w.cs
	h := cs.Height
	if len(w.plan) > 0 && rng.Intn(4) != 0 {
		st := w.plan[0]
		w.plan = w.plan[1:]
		if st.HH == h || st.HH == h-1 {
			return st, true
		}
		w.plan = nil
	}
	if len(w.inq) > 0 && rng.Intn(3) != 0 {
		return heightsStep{Name: "ProcessInternal"}, true
	}
	vals := []string{"nil", "Z0", "Z1", "ZX", "ZC", "B" + w.me}
	sc := w.scripted(cs.Validators)
	x := rng.Intn(100)
	switch {
	case x < 14:
		k := ""
		switch {
		case cs.Step == cstypes.RoundStepNewHeight:
			k = "NewHeight"
		case cs.Step == cstypes.RoundStepPropose:
			k = "Propose"
		case cs.Step == cstypes.RoundStepPrevoteWait:
			k = "PrevoteWait"
		case cs.TriggeredTimeoutPrecommit && cs.Step < cstypes.RoundStepCommit && int(cs.Round) < w.maxRound:
			k = "PrecommitWait"
		}
		if k != "" {
			return heightsStep{Name: "Timeout", HH: h, K: k}, true
		}
	case x < 30:
		if len(w.plan) == 0 {
			w.progressPlan(rng)
		}
	case x < 44: // late precommits of the previous height (also at the initial height: "height 0")
		lv := cs.state.LastValidators
		pool := w.scripted(lv)
		if h == 1 {
			pool = sc
		}
		if len(pool) > 0 {
			src := pool[rng.Intn(len(pool))]
			r := 0
			v := vals[rng.Intn(3)]
			if cs.LastCommit != nil {
				r = int(cs.LastCommit.GetRound())
				if bid, ok := cs.LastCommit.TwoThirdsMajority(); ok && rng.Intn(3) != 0 {
					v = w.nameOfBlockID(bid, h-1)
				}
				if rng.Intn(8) == 0 {
					r = rng.Intn(w.maxRound + 1)
				}
			}
			return heightsStep{Name: "Deliver", HH: h - 1, M: heightsMsg{T: "precommit", Src: src, R: r, V: v, Pol: -2}}, true
		}
	case x < 54:
		kinds := []string{"futurevote", "futureprevote", "oldprevote", "olderprecommit", "futureproposal", "oldproposal", "oldpart", "futurepart", "futuretimeout", "oldtimeout"}
		return heightsStep{Name: "Other", K: kinds[rng.Intn(len(kinds))]}, true
	case x < 60:
		return heightsStep{Name: "Restart"}, true
	case x < 66:
		if len(w.delivered) > 0 {
			return w.delivered[rng.Intn(len(w.delivered))], true
		}
	case x < 74:
		if len(sc) > 0 {
			r := int(cs.Round)
			if rng.Intn(3) == 0 {
				r = rng.Intn(w.maxRound + 1)
			}
			prop := w.addrName[cs.Validators.CopyIncrementProposerPriority(1).GetProposer().Address.String()]
			if r == int(cs.Round) {
				prop = w.addrName[cs.Validators.GetProposer().Address.String()]
			}
			if rng.Intn(6) == 0 {
				prop = sc[rng.Intn(len(sc))]
			}
			if prop != w.me {
				return heightsStep{Name: "Deliver", HH: h, M: heightsMsg{T: "proposal", Src: prop, R: r, V: vals[1+rng.Intn(4)], Pol: rng.Intn(r+1) - 1}}, true
			}
		}
	case x < 82:
		return heightsStep{Name: "Deliver", HH: h, M: heightsMsg{T: "block", Src: "-", R: -1, V: vals[1+rng.Intn(5)], Pol: -2}}, true
	default:
		// single votes of scripted validators -- members of the current set mostly, sometimes a validator that is not in it
		pool := sc
		if rng.Intn(10) == 0 {
			pool = w.names[1:]
		}
		if len(pool) > 0 {
			r := int(cs.Round) + rng.Intn(3) - 1
			if r < 0 || r > w.maxRound {
				r = rng.Intn(w.maxRound + 1)
			}
			t := []string{"prevote", "precommit"}[rng.Intn(2)]
			return heightsStep{Name: "Deliver", HH: h, M: heightsMsg{T: t, Src: pool[rng.Intn(len(pool))], R: r, V: vals[rng.Intn(len(vals))], Pol: -2}}, true
		}
	}
	return heightsStep{}, false
}

// ---------------------------------------------------------------- entry point

func TestVerifHeights(t *testing.T) {
	inPath, outDir := os.Getenv("VERIF_IN"), os.Getenv("VERIF_OUT")
	if inPath == "" || outDir == "" {
		t.Skip("VERIF_IN / VERIF_OUT not set")
	}
	raw, err := os.ReadFile(inPath)
	if err != nil {
		t.Fatal(err)
	}
	var in heightsInput
	if err := json.Unmarshal(raw, &in); err != nil {
		t.Fatal(err)
	}
	f, err := os.Create(outDir + "/trace.ndjson")
	if err != nil {
		t.Fatal(err)
	}
	defer f.Close()
	wr := &heightsWriter{enc: json.NewEncoder(f)}
	executed, skipped := 0, 0
	for i := range in.Runs {
		run := &in.Runs[i]
		w := heightsNewWorld(t, &in, run)
		w.cs.scheduleRound0(&w.cs.RoundState) // OnStart
		w.out = nil
		w.prepareHeight()
		gen := run.Gen
		wr.emit(map[string]interface{}{"ev": "Reset", "run": run.ID, "kind": run.Kind, "gen": gen, "skip": run.Skip, "universe": w.names,
			"maxround": in.MaxRound, "post": w.project()})
		for _, st := range run.Steps {
			if w.step(wr, run.ID, st) {
				executed++
			} else {
				skipped++
			}
		}
		if run.RandLen > 0 {
			rng := rand.New(rand.NewSource(run.Seed))
			for k := 0; k < run.RandLen; k++ {
				if w.panicked != "none" || (run.MaxHeight > 0 && w.cs.Height > run.MaxHeight) {
					break
				}
				st, ok := w.randomStep(rng)
				if !ok {
					continue
				}
				if st.Name != "Restart" && st.Name != "Other" {
					st.U = w.randomUpdate(rng)
				}
				if w.step(wr, run.ID, st) {
					executed++
				} else {
					skipped++
				}
			}
		}
		w.close()
	}
	stats := map[string]int{"executed": executed, "skipped": skipped, "runs": len(in.Runs), "events": wr.n}
	bz, _ := json.Marshal(stats)
	_ = os.WriteFile(outDir+"/stats.json", bz, 0o644)
	t.Logf("heights driver: %v", stats)
}

// ---------------------------------------------------------------- small helpers (this file compiles on its own)

type heightsMsg struct {
	T   string `json:"t"` // proposal | block | prevote | precommit | "-"
	Src string `json:"src"`
	R   int    `json:"r"`
	V   string `json:"v"`
	Pol int    `json:"pol"`
}

func heightsContains(s, sub string) bool {
	for i := 0; i+len(sub) <= len(s); i++ {
		if s[i:i+len(sub)] == sub {
			return true
		}
	}
	return false
}

func heightsKindOfStep(s cstypes.RoundStepType) string {
	switch s {
	case cstypes.RoundStepNewHeight:
		return "NewHeight"
	case cstypes.RoundStepNewRound:
		return "NewRound"
	case cstypes.RoundStepPropose:
		return "Propose"
	case cstypes.RoundStepPrevoteWait:
		return "PrevoteWait"
	case cstypes.RoundStepPrecommitWait:
		return "PrecommitWait"
	}
	return "Step" + strconv.Itoa(int(s))
}

func heightsStepOfKind(k string) cstypes.RoundStepType {
	switch k {
	case "NewHeight":
		return cstypes.RoundStepNewHeight
	case "NewRound":
		return cstypes.RoundStepNewRound
	case "Propose":
		return cstypes.RoundStepPropose
	case "PrevoteWait":
		return cstypes.RoundStepPrevoteWait
	case "PrecommitWait":
		return cstypes.RoundStepPrecommitWait
	}
	panic("unknown timeout kind " + k)
}

func heightsDecodeBlock(ps *types.PartSet) (*types.Block, error) {
	bz := make([]byte, 0, ps.ByteSize())
	for i := 0; i < int(ps.Total()); i++ {
		bz = append(bz, ps.GetPart(i).Bytes...)
	}
	pbb := new(tmproto.Block)
	if err := pbb.Unmarshal(bz); err != nil {
		return nil, err
	}
	return types.BlockFromProto(pbb)
}
