//go:build verif

package consensus

// Trace recorder for the REPOSITORY'S OWN consensus tests (DESIGN.md section 7, H1;
// CCF-style: the tests' own assertions are weak, the spec's invariants are not).
//
// When VERIF_TRACE_DIR is set, init() installs verifStepHook.  Every consensus.State that
// the package's tests create is then recorded while it is at the initial height: one
// NDJSON file per State, in the format of zz_verif_cons_test.go (Reset, Set baseline,
// then one line per handleMsg/handleTimeout call with the projected post-state and the
// signatures released in that step).  The hook runs under cs.mtx, after the change, so
// the order of lines is the order of state changes.  TLC validates the files against
// TMConsensusNode (level 1) and the C02 clauses (level 2).  Nothing is judged here.

import (
	"encoding/hex"
	"encoding/json"
	"fmt"
	"os"
	"sort"
	"strconv"
	"sync"

	"github.com/tendermint/tendermint/crypto"
	tmproto "github.com/tendermint/tendermint/proto/tendermint/types"
	"github.com/tendermint/tendermint/types"
)

type vrTracer struct {
	f        *os.File
	enc      *json.Encoder
	me       string
	names    []string
	index    map[string]int32
	pubkeys  map[string]crypto.PubKey
	maxRound int
	hashName map[string]string
	pshName  map[string]string
	blockIDs map[string]types.BlockID
	nextX    int
	out      []vcOut
	signs    []vcSign
	dead     bool
	baseline bool
	lines    int
}

var (
	vrMtx     sync.Mutex
	vrTracers = map[*State]*vrTracer{}
	vrCount   int
)

func init() {
	dir := os.Getenv("VERIF_TRACE_DIR")
	if dir == "" {
		return
	}
	verifStepHook = func(cs *State, mi *msgInfo, ti *timeoutInfo) {
		vrMtx.Lock()
		tr, ok := vrTracers[cs]
		if !ok {
			tr = vrNewTracer(cs, dir)
			vrTracers[cs] = tr
		}
		vrMtx.Unlock()
		if tr == nil || tr.dead {
			return
		}
		tr.record(cs, mi, ti)
	}
}

type vrSigner struct {
	types.PrivValidator
	tr *vrTracer
	cs *State
}

func (s *vrSigner) SignVote(chainID string, vote *tmproto.Vote) error {
	err := s.PrivValidator.SignVote(chainID, vote)
	t := "prevote"
	if vote.Type == tmproto.PrecommitType {
		t = "precommit"
	}
	if vote.Height == 1 {
		s.tr.recordSign(s.cs, t, int(vote.Round), s.tr.nameOfHash(vote.BlockID.Hash), -2, err == nil)
	}
	return err
}

func (s *vrSigner) SignProposal(chainID string, p *tmproto.Proposal) error {
	err := s.PrivValidator.SignProposal(chainID, p)
	if p.Height == 1 {
		s.tr.recordSign(s.cs, "proposal", int(p.Round), s.tr.nameOwn(p.BlockID.Hash, p.BlockID.PartSetHeader.Hash), int(p.PolRound), err == nil)
	}
	return err
}

func vrNewTracer(cs *State, dir string) *vrTracer {
	if cs.Height != 1 || cs.state.InitialHeight != 1 || cs.privValidatorPubKey == nil || cs.Votes == nil {
		return nil
	}
	vals := cs.state.Validators
	tr := &vrTracer{index: map[string]int32{}, pubkeys: map[string]crypto.PubKey{}, maxRound: 8,
		hashName: map[string]string{}, pshName: map[string]string{}, blockIDs: map[string]types.BlockID{}}
	addr := cs.privValidatorPubKey.Address()
	for i, v := range vals.Validators {
		name := "v" + strconv.Itoa(i)
		tr.names = append(tr.names, name)
		tr.index[name] = int32(i)
		tr.pubkeys[name] = v.PubKey
		if string(v.Address) == string(addr) {
			tr.me = name
		}
	}
	if tr.me == "" || len(tr.names) > 7 {
		return nil
	}
	vrCount++
	f, err := os.Create(fmt.Sprintf("%s/repotrace-%d-%d.ndjson", dir, os.Getpid(), vrCount))
	if err != nil {
		return nil
	}
	tr.f = f
	tr.enc = json.NewEncoder(f)
	powers := map[string]int{}
	for i, v := range vals.Validators {
		powers[tr.names[i]] = int(v.VotingPower)
	}
	props := []string{}
	for r := 0; r <= tr.maxRound+1; r++ {
		vs := vals
		if r > 0 {
			vs = vals.CopyIncrementProposerPriority(int32(r))
		}
		pa := vs.GetProposer().Address
		for i, v := range vals.Validators {
			if string(v.Address) == string(pa) {
				props = append(props, tr.names[i])
			}
		}
	}
	byz := []string{}
	for _, n := range tr.names {
		if n != tr.me {
			byz = append(byz, n)
		}
	}
	tr.emit(map[string]interface{}{"ev": "Reset", "run": vrCount, "vals": tr.names, "powers": powers, "proposers": props,
		"corr": []string{tr.me}, "byz": byz, "maxround": tr.maxRound, "kind": "repo-test", "sched": -1})
	// from now on signatures are captured
	if cs.privValidator != nil {
		if _, already := cs.privValidator.(*vrSigner); !already {
			cs.privValidator = &vrSigner{PrivValidator: cs.privValidator, tr: tr, cs: cs}
		}
	}
	return tr
}

func (tr *vrTracer) emit(v interface{}) {
	if err := tr.enc.Encode(v); err != nil {
		tr.dead = true
	}
	tr.lines++
	if tr.lines > 4000 {
		tr.dead = true
	}
}

func (tr *vrTracer) nameOfHash(h []byte) string {
	if len(h) == 0 {
		return "nil"
	}
	k := hex.EncodeToString(h)
	if n, ok := tr.hashName[k]; ok {
		return n
	}
	tr.nextX++
	n := "X" + strconv.Itoa(tr.nextX)
	tr.hashName[k] = n
	return n
}

// a block this node proposes itself is the spec's FreshValue(me) = "B"+me (unless already named)
func (tr *vrTracer) nameOwn(h, psh []byte) string {
	k := hex.EncodeToString(h)
	if n, ok := tr.hashName[k]; ok {
		return n
	}
	n := "B" + tr.me
	for _, used := range tr.hashName {
		if used == n {
			tr.nextX++
			n = "X" + strconv.Itoa(tr.nextX)
			break
		}
	}
	tr.hashName[k] = n
	tr.pshName[hex.EncodeToString(psh)] = n
	return n
}

func (tr *vrTracer) nameOfBlock(cs *State, b *types.Block, ps *types.PartSet) string {
	if b == nil {
		return "nil"
	}
	k := hex.EncodeToString(b.Hash())
	n, ok := tr.hashName[k]
	if !ok {
		// a block that fails validation is an "invalid value" of the spec
		if cs.blockExec.ValidateBlock(cs.state, b) != nil {
			tr.nextX++
			n = "ZX" + strconv.Itoa(tr.nextX)
		} else if string(b.ProposerAddress) == string(cs.privValidatorPubKey.Address()) {
			return tr.nameOwn(b.Hash(), ps.Header().Hash)
		} else {
			tr.nextX++
			n = "X" + strconv.Itoa(tr.nextX)
		}
		tr.hashName[k] = n
	}
	if ps != nil {
		tr.pshName[hex.EncodeToString(ps.Header().Hash)] = n
	}
	return n
}

func (tr *vrTracer) nameOfPSH(cs *State, h types.PartSetHeader, bid *types.BlockID) string {
	if h.IsZero() {
		return "nil"
	}
	if n, ok := tr.pshName[hex.EncodeToString(h.Hash)]; ok {
		return n
	}
	if bid != nil && bid.PartSetHeader.Equals(h) {
		n := tr.nameOfHash(bid.Hash)
		tr.pshName[hex.EncodeToString(h.Hash)] = n
		return n
	}
	return "?" + hex.EncodeToString(h.Hash[:4])
}

func (tr *vrTracer) recordSign(cs *State, t string, r int, v string, pol int, ok bool) {
	sg := vcSign{T: t, R: r, V: v, Pol: pol, OK: ok, Polkas: []vcPolka{}, Held: []string{}}
	for rr := 0; rr <= tr.maxRound; rr++ {
		if pvs := cs.Votes.Prevotes(int32(rr)); pvs != nil {
			if bid, ok2 := pvs.TwoThirdsMajority(); ok2 {
				sg.Polkas = append(sg.Polkas, vcPolka{R: rr, V: tr.nameOfHash(bid.Hash)})
			}
		}
	}
	held := map[string]bool{}
	for _, b := range []*types.Block{cs.ProposalBlock, cs.LockedBlock, cs.ValidBlock} {
		if b != nil {
			held[tr.nameOfHash(b.Hash())] = true
		}
	}
	if t == "proposal" {
		held[v] = true // the block being proposed was created or is the valid block
	}
	for h := range held {
		sg.Held = append(sg.Held, h)
	}
	sort.Strings(sg.Held)
	tr.signs = append(tr.signs, sg)
	if ok {
		tr.out = append(tr.out, vcOut{T: t, R: r, V: v, Pol: pol})
	}
}

func (tr *vrTracer) project(cs *State) map[string]interface{} {
	rs := &cs.RoundState
	p := map[string]interface{}{"r": -1, "v": "nil", "pol": -1}
	if rs.Proposal != nil {
		p = map[string]interface{}{"r": int(rs.Proposal.Round), "v": tr.nameOfHash(rs.Proposal.BlockID.Hash), "pol": int(rs.Proposal.POLRound)}
		tr.pshName[hex.EncodeToString(rs.Proposal.BlockID.PartSetHeader.Hash)] = tr.nameOfHash(rs.Proposal.BlockID.Hash)
	}
	blockNames := []string{}
	for _, n := range tr.hashName {
		blockNames = append(blockNames, n)
	}
	sort.Strings(blockNames)
	projVS := func(vs *types.VoteSet) map[string]interface{} {
		votes := map[string]string{}
		by := [][]string{}
		maj := "none"
		for _, name := range tr.names {
			votes[name] = "none"
		}
		if vs != nil {
			seen := map[string]types.BlockID{}
			for _, name := range tr.names {
				if vt := vs.GetByIndex(tr.index[name]); vt != nil {
					n := tr.nameOfHash(vt.BlockID.Hash)
					if n != "nil" {
						tr.pshName[hex.EncodeToString(vt.BlockID.PartSetHeader.Hash)] = n
					}
					votes[name] = n
					seen[n] = vt.BlockID
					tr.blockIDs[n] = vt.BlockID
				}
			}
			if bid, ok := vs.TwoThirdsMajority(); ok {
				maj = tr.nameOfHash(bid.Hash)
				tr.blockIDs[maj] = bid
				if maj != "nil" {
					tr.pshName[hex.EncodeToString(bid.PartSetHeader.Hash)] = maj
				}
			}
			ids := []string{}
			for n := range tr.blockIDs {
				ids = append(ids, n)
			}
			sort.Strings(ids)
			for _, bn := range ids {
				if ba := vs.BitArrayByBlockID(tr.blockIDs[bn]); ba != nil {
					for _, name := range tr.names {
						if ba.GetIndex(int(tr.index[name])) {
							by = append(by, []string{bn, name})
						}
					}
				}
			}
		}
		return map[string]interface{}{"votes": votes, "maj": maj, "by": by}
	}
	pv := []map[string]interface{}{}
	pc := []map[string]interface{}{}
	tracked := []int{}
	for r := 0; r <= tr.maxRound; r++ {
		pvs, pcs := rs.Votes.Prevotes(int32(r)), rs.Votes.Precommits(int32(r))
		if pvs != nil {
			tracked = append(tracked, r)
		}
		pv = append(pv, projVS(pvs))
		pc = append(pc, projVS(pcs))
	}
	decision := "nil"
	if cs.blockStore.Height() >= 1 {
		if b := cs.blockStore.LoadBlock(1); b != nil {
			decision = tr.nameOfHash(b.Hash())
		}
	}
	partsHdr := "nil"
	if rs.ProposalBlockParts != nil {
		var bid *types.BlockID
		if rs.Proposal != nil {
			bid = &rs.Proposal.BlockID
		}
		partsHdr = tr.nameOfPSH(cs, rs.ProposalBlockParts.Header(), bid)
	}
	return map[string]interface{}{
		"height": int(rs.Height), "round": int(rs.Round), "step": int(rs.Step),
		"lockedR": int(rs.LockedRound), "lockedV": tr.nameOfBlock(cs, rs.LockedBlock, rs.LockedBlockParts),
		"validR": int(rs.ValidRound), "validV": tr.nameOfBlock(cs, rs.ValidBlock, rs.ValidBlockParts),
		"prop": p, "propBlock": tr.nameOfBlock(cs, rs.ProposalBlock, rs.ProposalBlockParts), "partsHdr": partsHdr,
		"ttp": rs.TriggeredTimeoutPrecommit, "commitR": int(rs.CommitRound),
		"pv": pv, "pc": pc, "tracked": tracked, "decision": decision, "panic": "none",
	}
}

func (tr *vrTracer) record(cs *State, mi *msgInfo, ti *timeoutInfo) {
	if cs.Height > 2 || (cs.Height == 2 && tr.lines > 0 && !tr.baseline) {
		tr.dead = true
		return
	}
	post := tr.project(cs)
	out, signs := tr.out, tr.signs
	tr.out, tr.signs = nil, nil
	if out == nil {
		out = []vcOut{}
	}
	if signs == nil {
		signs = []vcSign{}
	}
	if !tr.baseline {
		// the state reached by whatever ran before the first observed call (startTestRound etc.)
		tr.baseline = true
		cu := map[string]int{"ext": 0}
		for _, n := range tr.names {
			cu[n] = 0
		}
		empty := make([][]string, tr.maxRound+1)
		for i := range empty {
			empty[i] = []string{}
		}
		tr.emit(map[string]interface{}{"ev": "Set", "run": vrCount, "n": tr.me, "post": post, "signs": []vcSign{},
			"dec": post["decision"], "catchup": cu, "pmv": empty, "pmc": empty})
		if cs.Height != 1 {
			tr.dead = true
		}
		return
	}
	ev := map[string]interface{}{"run": vrCount, "n": tr.me, "k": "-", "peer": "ext", "bound": 1000, "nosched": true,
		"post": post, "out": out, "signs": signs, "inqlen": 0}
	noop := vcMsg{T: "noop", Src: "-", R: -1, V: "-", Pol: -2}
	switch {
	case ti != nil:
		ev["ev"] = "Timeout"
		ev["k"] = vcKindOfStep(ti.Step)
		ev["m"] = vcMsg{T: "-", Src: "-", R: int(ti.Round), V: "-", Pol: -2}
		if ti.Height != 1 {
			ev["ev"] = "Deliver"
			ev["m"] = noop
		}
	case mi != nil:
		ev["ev"] = "Deliver"
		switch msg := mi.Msg.(type) {
		case *ProposalMessage:
			p := msg.Proposal
			src := "?"
			pp := p.ToProto()
			for _, n := range tr.names {
				if tr.pubkeys[n].VerifySignature(types.ProposalSignBytes(cs.state.ChainID, pp), p.Signature) {
					src = n
				}
			}
			if p.Height != 1 || src == "?" {
				ev["m"] = noop
			} else {
				ev["m"] = vcMsg{T: "proposal", Src: src, R: int(p.Round), V: tr.nameOfHash(p.BlockID.Hash), Pol: int(p.POLRound)}
				ev["peer"] = src
				if src == tr.me {
					ev["ev"] = "ProcessInternal"
					ev["peer"] = tr.me
				}
			}
		case *BlockPartMessage:
			// one event per part; only the part that completes the expected block changes the abstract state
			ev["m"] = noop
			if msg.Height == 1 && cs.ProposalBlock != nil && cs.ProposalBlockParts != nil && cs.ProposalBlockParts.IsComplete() &&
				int(msg.Part.Index) < int(cs.ProposalBlockParts.Total()) &&
				string(cs.ProposalBlockParts.GetPart(int(msg.Part.Index)).Bytes) == string(msg.Part.Bytes) {
				ev["m"] = vcMsg{T: "block", Src: "-", R: -1, V: tr.nameOfHash(cs.ProposalBlock.Hash()), Pol: -2}
				ev["peer"] = tr.me
			}
		case *VoteMessage:
			v := msg.Vote
			t := "prevote"
			if v.Type == tmproto.PrecommitType {
				t = "precommit"
			}
			src := "?"
			if int(v.ValidatorIndex) >= 0 && int(v.ValidatorIndex) < len(tr.names) {
				src = tr.names[v.ValidatorIndex]
			}
			if v.Height != 1 || src == "?" || int(v.Round) > tr.maxRound {
				ev["m"] = noop
			} else {
				ev["m"] = vcMsg{T: t, Src: src, R: int(v.Round), V: tr.nameOfHash(v.BlockID.Hash), Pol: -2}
				if src == tr.me {
					ev["ev"] = "ProcessInternal"
					ev["peer"] = tr.me
				}
			}
		default:
			ev["m"] = noop
		}
	default:
		return
	}
	tr.emit(ev)
	if cs.Height != 1 {
		tr.dead = true // the initial height is over
	}
}
