//go:build verif

package consensus

// C08 harness, part 3: the proposer of (height, round) when a node SKIPS rounds.
//
// A real consensus.State is built (newStateWithConfig) over an sm.State whose validator set
// - including priorities - comes from a real history (NewValidatorSet, rotations, update
// batches applied the way updateState applies them).  cs.enterNewRound(height, k) is called
// directly from round 0 (and from later rounds: walk, then skip) and cs.Validators - the
// set the node now uses to decide who proposes - is logged before and after.  TLC compares
// it with k single rotations of the specified round-robin (spec/trace/TMValSetTrace.tla,
// ProposerDeterministic / roundskip).  The harness gives no verdicts.

import (
	"bytes"
	"encoding/json"
	"fmt"
	"math/rand"
	"os"
	"sort"
	"strconv"
	"testing"
	"time"

	"github.com/tendermint/tendermint/abci/example/kvstore"
	"github.com/tendermint/tendermint/crypto"
	"github.com/tendermint/tendermint/crypto/ed25519"
	cstypes "github.com/tendermint/tendermint/consensus/types"
	sm "github.com/tendermint/tendermint/state"
	"github.com/tendermint/tendermint/types"
)

type c08rsChange struct {
	A int   `json:"a"`
	P int64 `json:"p"`
}

type c08rsVal struct {
	A  int   `json:"a"`
	P  int64 `json:"p"`
	Pr int64 `json:"pr"`
}

type c08rsView struct {
	Vals []c08rsVal `json:"vals"`
	Prop c08rsVal   `json:"prop"`
}

// a validator set reached by a real history: NewValidatorSet(init), `warm` rounds, then the
// batches, each followed by one round (updateState)
type c08rsChain struct {
	Init    []c08rsChange   `json:"init"`
	Warm    int             `json:"warm"`
	Batches [][]c08rsChange `json:"batches"`
}

type c08rsInput struct {
	Chains []c08rsChain `json:"chains"`
	Random int          `json:"random"`
	MaxK   int          `json:"maxk"`
}

type c08rsM = map[string]interface{}

type c08rsPool struct {
	keys []crypto.PubKey
	ids  map[string]int
}

func newC08rsPool(seed int64, n int) *c08rsPool {
	ks := make([]crypto.PubKey, n)
	for i := range ks {
		ks[i] = ed25519.GenPrivKeyFromSecret([]byte(fmt.Sprintf("verif-c08-%d-%d", seed, i))).PubKey()
	}
	sort.Slice(ks, func(i, j int) bool { return bytes.Compare(ks[i].Address(), ks[j].Address()) < 0 })
	p := &c08rsPool{keys: ks, ids: map[string]int{}}
	for i, k := range ks {
		p.ids[string(k.Address())] = i + 1
	}
	return p
}

func (p *c08rsPool) vals(cs []c08rsChange) []*types.Validator {
	out := make([]*types.Validator, len(cs))
	for i, c := range cs {
		k := p.keys[c.A-1]
		out[i] = &types.Validator{Address: k.Address(), PubKey: k, VotingPower: c.P}
	}
	return out
}

func (p *c08rsPool) projVal(v *types.Validator) c08rsVal {
	if v == nil {
		return c08rsVal{}
	}
	id, ok := p.ids[string(v.Address)]
	if !ok {
		id = 99
	}
	return c08rsVal{A: id, P: v.VotingPower, Pr: v.ProposerPriority}
}

func (p *c08rsPool) view(vs *types.ValidatorSet) c08rsView {
	out := c08rsView{Vals: []c08rsVal{}}
	if vs == nil {
		return out
	}
	for _, v := range vs.Validators {
		out.Vals = append(out.Vals, p.projVal(v))
	}
	out.Prop = p.projVal(vs.Proposer)
	return out
}

// the sets in force along the chain (one per height), nil when the history is not valid
func (p *c08rsPool) sets(c c08rsChain) (out []*types.ValidatorSet) {
	defer func() {
		if recover() != nil {
			out = nil
		}
	}()
	vs := types.NewValidatorSet(p.vals(c.Init))
	if len(vs.Validators) == 0 {
		return nil
	}
	if c.Warm > 0 {
		vs.IncrementProposerPriority(int32(c.Warm))
	}
	out = append(out, vs.Copy())
	for _, b := range c.Batches {
		n := vs.Copy()
		if len(b) > 0 {
			if err := n.UpdateWithChangeSet(p.vals(b)); err != nil {
				return out
			}
		}
		n.IncrementProposerPriority(1)
		vs = n
		out = append(out, vs.Copy())
	}
	return out
}

// a consensus state at round 0 of its first height whose validator set is `vs`
func c08rsNewState(t *testing.T, pool *c08rsPool, vs *types.ValidatorSet) *State {
	gvals := make([]types.GenesisValidator, len(vs.Validators))
	for i, v := range vs.Validators {
		gvals[i] = types.GenesisValidator{Address: v.Address, PubKey: v.PubKey, Power: v.VotingPower, Name: "v" + strconv.Itoa(i)}
	}
	st, err := sm.MakeGenesisState(&types.GenesisDoc{ChainID: "verif-c08-rs", InitialHeight: 1, Validators: gvals,
		GenesisTime: time.Unix(1600000000, 0).UTC()})
	if err != nil {
		t.Fatal(err)
	}
	st.Validators = vs.Copy()
	st.NextValidators = vs.CopyIncrementProposerPriority(1)
	cs := newStateWithConfig(config, st, types.NewMockPV(), kvstore.NewApplication()) // our key is not a validator
	cs.SetTimeoutTicker(&mockTicker{c: make(chan timeoutInfo, 100)})
	cs.decideProposal = func(int64, int32) {}
	return cs
}

func c08rsSkip(w *json.Encoder, n *int, run int, pool *c08rsPool, cs *State, to int32) {
	from := cs.Round
	pre := pool.view(cs.Validators)
	cls := "none"
	func() {
		defer func() {
			if recover() != nil {
				cls = "panic"
			}
		}()
		cs.enterNewRound(cs.Height, to)
	}()
	if cs.Round != to && cls == "none" {
		cls = "not_entered"
	}
	_ = w.Encode(c08rsM{"ev": "RoundSkip", "run": run, "height": cs.Height, "from": from, "to": to, "err": cls,
		"pre": pre, "post": pool.view(cs.Validators), "prop": pool.projVal(cs.Validators.GetProposer()),
		"step": cs.Step.String()})
	*n++
}

func c08rsStop(cs *State) {
	if cs.eventBus != nil {
		_ = cs.eventBus.Stop()
	}
}

func c08rsRunChain(t *testing.T, w *json.Encoder, n *int, run int, pool *c08rsPool, c c08rsChain, maxK int, last bool) {
	sets := pool.sets(c)
	_ = w.Encode(c08rsM{"ev": "Reset", "run": run, "kind": "roundskip", "chain": c})
	*n++
	for i, vs := range sets {
		if last && i != len(sets)-1 {
			continue
		}
		// skip from round 0 to round k
		for k := 1; k <= maxK; k++ {
			cs := c08rsNewState(t, pool, vs)
			if cs.Step != cstypes.RoundStepNewHeight || cs.Round != 0 {
				t.Fatalf("fresh consensus state at %v/%v", cs.Round, cs.Step)
			}
			c08rsSkip(w, n, run, pool, cs, int32(k))
			c08rsStop(cs)
		}
		// walk one round, then skip two, then three
		cs := c08rsNewState(t, pool, vs)
		for _, to := range []int32{1, 3, 6} {
			c08rsSkip(w, n, run, pool, cs, to)
		}
		c08rsStop(cs)
	}
}

var c08rsPowers = []int64{1, 1, 2, 3, 5, 7, 10, 11, 50, 100}

func TestVerifC08RoundSkip(t *testing.T) {
	inPath, outDir := os.Getenv("VERIF_IN"), os.Getenv("VERIF_OUT")
	if inPath == "" || outDir == "" {
		t.Skip("VERIF_IN / VERIF_OUT not set")
	}
	seed, _ := strconv.ParseInt(os.Getenv("VERIF_SEED"), 10, 64)
	raw, err := os.ReadFile(inPath)
	if err != nil {
		t.Fatal(err)
	}
	var in c08rsInput
	if err := json.Unmarshal(raw, &in); err != nil {
		t.Fatal(err)
	}
	if in.MaxK <= 0 {
		in.MaxK = 4
	}
	f, err := os.Create(outDir + "/roundskip.ndjson")
	if err != nil {
		t.Fatal(err)
	}
	defer f.Close()
	w := json.NewEncoder(f)
	pool := newC08rsPool(seed, 10)
	rng := rand.New(rand.NewSource(seed))
	n, run := 0, 0
	for _, c := range in.Chains {
		run++
		c08rsRunChain(t, w, &n, run, pool, c, in.MaxK, false)
	}
	// seeded random chains with large power swings (priorities far apart right after a change)
	for k := 0; k < in.Random; k++ {
		run++
		npool := 3 + rng.Intn(3)
		var c c08rsChain
		for _, a := range rng.Perm(npool)[:1+rng.Intn(npool)] {
			c.Init = append(c.Init, c08rsChange{A: a + 1, P: c08rsPowers[rng.Intn(len(c08rsPowers))]})
		}
		c.Warm = rng.Intn(4)
		for b := 1 + rng.Intn(3); b > 0; b-- {
			var batch []c08rsChange
			used := map[int]bool{}
			for m := rng.Intn(3); m >= 0; m-- {
				a := 1 + rng.Intn(npool)
				if used[a] {
					continue
				}
				used[a] = true
				p := c08rsPowers[rng.Intn(len(c08rsPowers))]
				if rng.Intn(4) == 0 {
					p = 0
				}
				batch = append(batch, c08rsChange{A: a, P: p})
			}
			c.Batches = append(c.Batches, batch)
		}
		c08rsRunChain(t, w, &n, run, pool, c, in.MaxK, true)
	}
	t.Logf("C08 round-skip harness: %d events, %d runs", n, run)
}
