//go:build verif

package consensus

// C08 harness, part 4: pruning the way consensus does it.
//
// A real block store and a real state store are filled with a history of blocks and
// sm.State values (validator sets evolving by real UpdateWithChangeSet /
// IncrementProposerPriority, saved with the real Store.Save); pruning goes through the
// production caller (*State).pruneBlocks(retainHeight) - block store first, then the state
// store with the bounds consensus chooses.  After every step the real LoadValidators is
// asked for EVERY height from blockStore.Base() to tip+2.  TLC judges (LookupExact,
// spec/trace/TMValSetTrace.tla).  Shares the key pool / projection helpers of
// zz_verif_c08_roundskip_test.go.  The harness gives no verdicts.

import (
	"encoding/json"
	"os"
	"strconv"
	"testing"
	"time"

	dbm "github.com/tendermint/tm-db"

	"github.com/tendermint/tendermint/libs/log"
	sm "github.com/tendermint/tendermint/state"
	"github.com/tendermint/tendermint/store"
	"github.com/tendermint/tendermint/types"
)

type c08cpOp struct {
	Op    string        `json:"op"`
	Batch []c08rsChange `json:"batch"`
	To    int64         `json:"to"`
}

type c08cpSched struct {
	Genesis []c08rsChange `json:"genesis"`
	IH      int64         `json:"ih"`
	Mode    string        `json:"mode"`
	Ops     []c08cpOp     `json:"ops"`
}

type c08cpInput struct {
	Scheds []c08cpSched `json:"scheds"`
}

type c08cpRun struct {
	w    *json.Encoder
	n    *int
	run  int
	pool *c08rsPool
	bs   *store.BlockStore
	ss   sm.Store
	cs   *State
	st   sm.State
	top  int64
}

func (r *c08cpRun) emit(m c08rsM) {
	_ = r.w.Encode(m)
	*r.n++
}

func (r *c08cpRun) loads() []c08rsM {
	out := []c08rsM{}
	lo := r.bs.Base()
	if lo == 0 {
		lo = r.st.InitialHeight
	}
	for h := lo; h <= r.top; h++ {
		func() {
			defer func() {
				if recover() != nil {
					out = append(out, c08rsM{"h": h, "err": "panic", "set": c08rsView{Vals: []c08rsVal{}}})
				}
			}()
			vs, err := r.ss.LoadValidators(h)
			cls := "none"
			if err != nil {
				cls = "error"
				if _, ok := err.(sm.ErrNoValSetForHeight); ok {
					cls = "novalset"
				}
			}
			out = append(out, c08rsM{"h": h, "err": cls, "set": r.pool.view(vs)})
		}()
	}
	return out
}

func c08cpChanges(cs []c08rsChange) []c08rsChange {
	if cs == nil {
		return []c08rsChange{}
	}
	return cs
}

// one committed block: the block goes into the block store, the next State into the state store
func (r *c08cpRun) apply(batch []c08rsChange) {
	st := r.st
	height := st.LastBlockHeight + 1
	if st.LastBlockHeight == 0 {
		height = st.InitialHeight
	}
	lastCommit := types.NewCommit(height-1, 0, st.LastBlockID, nil)
	block, parts := st.MakeBlock(height, nil, lastCommit, nil, st.Validators.GetProposer().Address)
	bid := types.BlockID{Hash: block.Hash(), PartSetHeader: parts.Header()}
	r.bs.SaveBlock(block, parts, types.NewCommit(height, 0, bid, nil))

	n := st.NextValidators.Copy()
	lhc := st.LastHeightValidatorsChanged
	applied := []c08rsChange{}
	if len(batch) > 0 {
		if err := n.UpdateWithChangeSet(r.pool.vals(batch)); err == nil {
			lhc = height + 2
			applied = batch
		} else {
			n = st.NextValidators.Copy()
		}
	}
	n.IncrementProposerPriority(1)
	ns := st.Copy()
	ns.LastBlockHeight, ns.LastBlockID, ns.LastBlockTime = height, bid, block.Time
	ns.LastValidators, ns.Validators, ns.NextValidators = st.Validators.Copy(), st.NextValidators.Copy(), n
	ns.LastHeightValidatorsChanged = lhc
	err := r.ss.Save(ns)
	r.st = ns
	r.top = height + 2
	cls := "none"
	if err != nil {
		cls = "error"
	}
	r.emit(c08rsM{"ev": "CApply", "run": r.run, "height": height, "batch": c08cpChanges(applied), "err": cls, "h": ns.LastBlockHeight,
		"lhc": lhc, "vals": r.pool.view(ns.Validators), "nvals": r.pool.view(ns.NextValidators),
		"base": r.bs.Base(), "tip": r.bs.Height(), "loads": r.loads()})
}

func (r *c08cpRun) prune(retain int64) {
	cls := "none"
	from := r.bs.Base()
	func() {
		defer func() {
			if recover() != nil {
				cls = "panic"
			}
		}()
		if _, err := r.cs.pruneBlocks(retain); err != nil {
			cls = "error"
		}
	}()
	r.emit(c08rsM{"ev": "CPrune", "run": r.run, "from": from, "retain": retain, "err": cls, "base": r.bs.Base(), "tip": r.bs.Height(),
		"loads": r.loads()})
}

func TestVerifC08ConsPrune(t *testing.T) {
	inPath, outDir := os.Getenv("VERIF_IN"), os.Getenv("VERIF_OUT")
	if inPath == "" || outDir == "" {
		t.Skip("VERIF_IN / VERIF_OUT not set")
	}
	seed, _ := strconv.ParseInt(os.Getenv("VERIF_SEED"), 10, 64)
	raw, err := os.ReadFile(inPath)
	if err != nil {
		t.Fatal(err)
	}
	var in c08cpInput
	if err := json.Unmarshal(raw, &in); err != nil {
		t.Fatal(err)
	}
	f, err := os.Create(outDir + "/consprune.ndjson")
	if err != nil {
		t.Fatal(err)
	}
	defer f.Close()
	w := json.NewEncoder(f)
	pool := newC08rsPool(seed, 10)
	n, run := 0, 0
	for _, s := range in.Scheds {
		if s.Mode != "genesis" {
			continue
		}
		run++
		gvals := make([]types.GenesisValidator, len(s.Genesis))
		for i, v := range pool.vals(s.Genesis) {
			gvals[i] = types.GenesisValidator{Address: v.Address, PubKey: v.PubKey, Power: v.VotingPower, Name: "v" + strconv.Itoa(i)}
		}
		st, err := sm.MakeGenesisState(&types.GenesisDoc{ChainID: "verif-c08-cp", InitialHeight: s.IH, Validators: gvals,
			GenesisTime: time.Unix(1600000000, 0).UTC()})
		if err != nil {
			t.Fatal(err)
		}
		ss := sm.NewStore(dbm.NewMemDB(), sm.StoreOptions{})
		bs := store.NewBlockStore(dbm.NewMemDB())
		r := &c08cpRun{w: w, n: &n, run: run, pool: pool, bs: bs, ss: ss, st: st, top: s.IH + 1,
			cs: &State{blockStore: bs, blockExec: sm.NewBlockExecutor(ss, log.NewNopLogger(), nil, nil, nil)}}
		r.emit(c08rsM{"ev": "Reset", "run": run, "kind": "consprune", "ih": s.IH, "sched": s})
		gerr := "none"
		if err := ss.Save(st); err != nil {
			gerr = "error"
		}
		r.emit(c08rsM{"ev": "CGenesis", "run": run, "err": gerr, "ih": s.IH, "h": 0, "lhc": st.LastHeightValidatorsChanged,
			"vals": pool.view(st.Validators), "nvals": pool.view(st.NextValidators), "base": s.IH, "tip": 0, "loads": r.loads()})
		for _, op := range s.Ops {
			switch op.Op {
			case "Apply":
				r.apply(op.Batch)
			case "Prune":
				r.prune(op.To)
			}
		}
	}
	t.Logf("C08 consensus-prune harness: %d events, %d runs", n, run)
}
