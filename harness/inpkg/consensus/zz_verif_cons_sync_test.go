//go:build verif

package consensus

// synchronous-suffix executor (C03) — see DESIGN.md 5/C03.
func (net *vcNet) syncTail(w *vcWriter, run int, in *vcInput) {}
