//go:build verif

package consensus

// Synchronous-suffix executor (C03, DESIGN.md 5/C03).
//
// After an arbitrary asynchronous prefix (a TLC schedule or a random walk, with Byzantine
// messages) the driver switches to the property's hypothesis: every message a correct node
// holds reaches every other correct node BEFORE any timeout fires ("idealised gossip",
// majority claims included: the votes a node holds — also those signed by faulty
// validators — and the blocks it holds are offered to everybody), and only at quiescence
// the single timeout held by each node's ticker fires.  The ticker is emulated with the
// exact one-slot overwrite rule of consensus/ticker.go (timeoutRoutine), because a lost
// timeout is precisely the kind of liveness bug this property is about.  Faulty validators
// may keep sending arbitrary messages between gossip rounds.  The driver only records;
// TLC judges BoundedRounds / Termination on the recorded trace (TMConsensusTrace).

import (
	"math/rand"
	"sort"
	"strconv"

	cstypes "github.com/tendermint/tendermint/consensus/types"
	tmproto "github.com/tendermint/tendermint/proto/tendermint/types"
)

type vcSlot struct {
	set    bool
	height int64
	round  int32
	step   cstypes.RoundStepType
	fired  bool
}

// the overwrite rule of timeoutTicker.timeoutRoutine
func (s *vcSlot) schedule(ti timeoutInfo) {
	if s.set {
		if ti.Height < s.height {
			return
		} else if ti.Height == s.height {
			if ti.Round < s.round {
				return
			} else if ti.Round == s.round {
				if s.step > 0 && ti.Step <= s.step {
					return
				}
			}
		}
	}
	*s = vcSlot{set: true, height: ti.Height, round: ti.Round, step: ti.Step}
}

func (net *vcNet) allDecided() bool {
	for _, nn := range net.corr {
		n := net.nodes[nn]
		if n.panicked == "none" && n.cs.blockStore.Height() < 1 {
			return false
		}
	}
	return true
}

func (net *vcNet) syncTail(w *vcWriter, run int, in *vcInput) {
	rng := rand.New(rand.NewSource(int64(run)*7919 + 13))
	gstRounds := map[string]int{}
	for _, nn := range net.corr {
		gstRounds[nn] = int(net.nodes[nn].cs.Round)
	}
	if !net.gstOn {
		net.gstOn = true
		w.emit(map[string]interface{}{"ev": "GST", "run": run, "rounds": gstRounds, "bound": net.bound})
	}
	lastOffer := map[string]string{}
	claimed := map[string]bool{}
	byzBudget := 12
	steps := 0
	limit := 4000
	outcome := "decided"
	for steps < limit {
		if net.allDecided() {
			break
		}
		progressed := false
		// 1. every node handles its own queue
		for _, nn := range net.corr {
			n := net.nodes[nn]
			for len(n.inq) > 0 && steps < limit {
				if !net.step(w, run, vcStep{Name: "ProcessInternal", N: nn}) {
					break
				}
				steps++
				progressed = true
			}
		}
		// 1b. the faulty validators are not bound by the hypothesis: a message of theirs may overtake the gossip
		// between correct nodes (every third pass, within the same budget as at quiescence)
		if in.ByzAfter && byzBudget > 0 && len(net.byz) > 0 && rng.Intn(3) == 0 {
			byzc := []vcStep{}
			for _, c := range net.candidates(rng) {
				if c.st.Name == "Deliver" && net.byz[c.st.M.Src] {
					byzc = append(byzc, c.st)
				}
			}
			if len(byzc) > 0 {
				byzBudget--
				if net.step(w, run, byzc[rng.Intn(len(byzc))]) {
					steps++
				}
			}
		}
		// 2. idealised gossip
		for _, nn := range net.corr {
			n := net.nodes[nn]
			if n.panicked != "none" || n.cs.Height != 1 {
				continue
			}
			// idealised gossip re-offers a message until the receiver holds it (the reactor sends per
			// peer round state); an offer is not repeated while the receiver's (round, step, expected
			// part-set header) is unchanged, so rejected messages cannot loop
			tag := func() string {
				h := "nil"
				if n.cs.ProposalBlockParts != nil {
					h = net.nameOfPSH(n.cs.ProposalBlockParts.Header())
				}
				return strconv.Itoa(int(n.cs.Round)) + "/" + strconv.Itoa(int(n.cs.Step)) + "/" + h
			}
			offer := func(m vcMsg) {
				key := nn + "<-" + vcKey(m)
				if lastOffer[key] == tag() {
					return
				}
				lastOffer[key] = tag()
				if net.step(w, run, vcStep{Name: "Deliver", N: nn, M: m}) {
					steps++
					progressed = true
				}
			}
			// proposals (own ones of correct proposers and any proposal some correct node accepted)
			for _, m := range net.heldProposals() {
				if m.Src != nn && n.cs.Proposal == nil && int(n.cs.Round) == m.R {
					offer(m)
				}
			}
			// blocks: whatever the node is waiting for and some correct node holds
			if n.cs.ProposalBlockParts != nil && n.cs.ProposalBlock == nil {
				want := net.nameOfPSH(n.cs.ProposalBlockParts.Header())
				for _, name := range net.heldBlocks() {
					if name == want {
						offer(vcMsg{T: "block", Src: "-", R: -1, V: name, Pol: -2})
					}
				}
			}
			// majority claims (VoteSetMaj23): whoever holds +2/3 for a block tells the others, which
			// makes them record conflicting votes for that block too
			for _, m := range net.heldClaims() {
				if m.Src != nn {
					key := nn + "<-" + vcKey(m)
					if !claimed[key] {
						claimed[key] = true
						if net.step(w, run, vcStep{Name: "Deliver", N: nn, M: m}) {
							steps++
							progressed = true
						}
					}
				}
			}
			// votes the node does not hold yet
			for _, m := range net.heldVotes() {
				if m.Src == nn {
					continue
				}
				vs := n.cs.Votes.Prevotes(int32(m.R))
				ct := "claim_prevote"
				if m.T == "precommit" {
					vs = n.cs.Votes.Precommits(int32(m.R))
					ct = "claim_precommit"
				}
				if vs == nil {
					offer(m)
					continue
				}
				bid, okb := net.blockID(m.V)
				if !okb {
					continue
				}
				if ba := vs.BitArrayByBlockID(bid); ba != nil && ba.GetIndex(int(net.index[m.Src])) {
					continue // already recorded for that block
				}
				if vs.GetByIndex(net.index[m.Src]) == nil {
					offer(m)
					continue
				}
				// a different vote of that validator is held: only a claimed block is accepted
				for _, cn := range net.corr {
					if claimed[nn+"<-"+vcKey(vcMsg{T: ct, Src: cn, R: m.R, V: m.V, Pol: -2})] {
						offer(m)
						break
					}
				}
			}
		}
		if progressed {
			continue
		}
		// 3. faulty validators keep doing anything
		if in.ByzAfter && byzBudget > 0 && len(net.byz) > 0 && rng.Intn(2) == 0 {
			byzc := []vcStep{}
			for _, c := range net.candidates(rng) {
				if c.st.Name == "Deliver" && net.byz[c.st.M.Src] {
					byzc = append(byzc, c.st)
				}
			}
			if len(byzc) > 0 {
				byzBudget--
				if net.step(w, run, byzc[rng.Intn(len(byzc))]) {
					steps++
				}
				continue
			}
		}
		// 4. quiescence: timers run at comparable speed on all nodes, so the pending timeouts that
		// were scheduled for the earliest (round, step) fire first; then messages flow again
		fired := false
		minR, minS := int32(1<<30), cstypes.RoundStepType(100)
		for _, nn := range net.corr {
			n := net.nodes[nn]
			sl := &n.slot
			if n.panicked == "none" && n.cs.Height == 1 && sl.set && !sl.fired && sl.height == 1 {
				if sl.round < minR || (sl.round == minR && sl.step < minS) {
					minR, minS = sl.round, sl.step
				}
			}
		}
		for _, nn := range net.corr {
			n := net.nodes[nn]
			if n.panicked != "none" || n.cs.Height != 1 {
				continue
			}
			sl := &n.slot
			if sl.set && !sl.fired && sl.height == 1 && sl.round == minR && sl.step == minS {
				sl.fired = true
				st := vcStep{Name: "Timeout", N: nn, K: vcKindOfStep(sl.step), M: vcMsg{T: "tick", Src: "-", R: int(sl.round), V: "-", Pol: -2}}
				if net.step(w, run, st) {
					steps++
					fired = true
				}
			}
		}
		if !fired {
			outcome = "stuck: undecided, nothing deliverable, no timeout pending"
			break
		}
	}
	if steps >= limit {
		outcome = "step limit reached"
	}
	rounds := map[string]int{}
	for _, nn := range net.corr {
		rounds[nn] = int(net.nodes[nn].cs.Round)
	}
	w.emit(map[string]interface{}{"ev": "SyncEnd", "run": run, "outcome": outcome, "steps": steps})
	_ = rounds
}

// proposals some correct node made or accepted
func (net *vcNet) heldProposals() []vcMsg {
	seen := map[string]bool{}
	out := []vcMsg{}
	for _, k := range net.soupKeys {
		it := net.soup[k]
		if it.m.T == "proposal" && !seen[vcKey(it.m)] {
			seen[vcKey(it.m)] = true
			out = append(out, it.m)
		}
	}
	for _, nn := range net.corr {
		cs := net.nodes[nn].cs
		if cs.Height == 1 && cs.Proposal != nil && int(cs.Proposal.Round) < len(net.propSeq) {
			m := vcMsg{T: "proposal", Src: net.propSeq[cs.Proposal.Round], R: int(cs.Proposal.Round),
				V: net.nameOfBlockID(cs.Proposal.BlockID), Pol: int(cs.Proposal.POLRound)}
			if !seen[vcKey(m)] {
				seen[vcKey(m)] = true
				out = append(out, m)
			}
		}
	}
	sort.Slice(out, func(i, j int) bool { return vcKey(out[i]) < vcKey(out[j]) })
	return out
}

// blocks some correct node holds (so that idealised gossip can hand them to the others)
func (net *vcNet) heldBlocks() []string {
	held := map[string]bool{}
	for _, nn := range net.corr {
		n := net.nodes[nn]
		cs := n.cs
		// a node can serve the parts of the encoding (BlockID) it holds, not of another encoding of the same block
		if cs.ProposalBlock != nil {
			held[n.nameOfBlock(cs.ProposalBlock, cs.ProposalBlockParts)] = true
		}
		if cs.LockedBlock != nil {
			held[n.nameOfBlock(cs.LockedBlock, cs.LockedBlockParts)] = true
		}
		if cs.ValidBlock != nil {
			held[n.nameOfBlock(cs.ValidBlock, cs.ValidBlockParts)] = true
		}
		if cs.blockStore.Height() >= 1 {
			if bm := cs.blockStore.LoadBlockMeta(1); bm != nil {
				held[net.nameOfBlockID(bm.BlockID)] = true
			}
		}
	}
	out := []string{}
	for h := range held {
		if _, ok := net.blocks[h]; ok {
			out = append(out, h)
		}
	}
	sort.Strings(out)
	return out
}

// +2/3 claims correct nodes can make: a majority in one of their vote sets, or their commit
func (net *vcNet) heldClaims() []vcMsg {
	out := []vcMsg{}
	for _, nn := range net.corr {
		cs := net.nodes[nn].cs
		if cs.Height != 1 {
			if sc := cs.blockStore.LoadSeenCommit(1); sc != nil {
				out = append(out, vcMsg{T: "claim_precommit", Src: nn, R: int(sc.Round), V: net.nameOfBlockID(sc.BlockID), Pol: -2})
			}
			continue
		}
		for r := 0; r <= net.maxRound; r++ {
			if vs := cs.Votes.Prevotes(int32(r)); vs != nil {
				if bid, ok := vs.TwoThirdsMajority(); ok {
					out = append(out, vcMsg{T: "claim_prevote", Src: nn, R: r, V: net.nameOfBlockID(bid), Pol: -2})
				}
			}
			if vs := cs.Votes.Precommits(int32(r)); vs != nil {
				if bid, ok := vs.TwoThirdsMajority(); ok {
					out = append(out, vcMsg{T: "claim_precommit", Src: nn, R: r, V: net.nameOfBlockID(bid), Pol: -2})
				}
			}
		}
	}
	sort.Slice(out, func(i, j int) bool { return vcKey(out[i]) < vcKey(out[j]) })
	return out
}

// every vote some correct node holds in its vote sets for height 1 (its own, other correct
// nodes' and the faulty validators')
func (net *vcNet) heldVotes() []vcMsg {
	seen := map[string]bool{}
	out := []vcMsg{}
	for _, nn := range net.corr {
		cs := net.nodes[nn].cs
		if cs.Height != 1 {
			// a decided node still offers the precommits that made it decide (catch-up gossip)
			if sc := cs.blockStore.LoadSeenCommit(1); sc != nil {
				for i, sig := range sc.Signatures {
					if sig.Absent() {
						continue
					}
					v := "nil"
					if sig.ForBlock() {
						v = net.nameOfBlockID(sc.BlockID)
					}
					m := vcMsg{T: "precommit", Src: net.names[i], R: int(sc.Round), V: v, Pol: -2}
					if !seen[vcKey(m)] {
						seen[vcKey(m)] = true
						out = append(out, m)
					}
				}
			}
			continue
		}
		for r := 0; r <= net.maxRound; r++ {
			for ti, t := range []string{"prevote", "precommit"} {
				vs := cs.Votes.Prevotes(int32(r))
				if ti == 1 {
					vs = cs.Votes.Precommits(int32(r))
				}
				if vs == nil {
					continue
				}
				for _, name := range net.names {
					if vt := vs.GetByIndex(net.index[name]); vt != nil {
						m := vcMsg{T: t, Src: name, R: r, V: net.nameOfBlockID(vt.BlockID), Pol: -2}
						if !seen[vcKey(m)] {
							seen[vcKey(m)] = true
							out = append(out, m)
						}
					}
				}
				for bn := range net.blocks {
					bid, _ := net.blockID(bn)
					if ba := vs.BitArrayByBlockID(bid); ba != nil {
						for _, name := range net.names {
							if ba.GetIndex(int(net.index[name])) {
								m := vcMsg{T: t, Src: name, R: r, V: bn, Pol: -2}
								if !seen[vcKey(m)] {
									seen[vcKey(m)] = true
									out = append(out, m)
								}
							}
						}
					}
				}
			}
		}
	}
	sort.Slice(out, func(i, j int) bool { return vcKey(out[i]) < vcKey(out[j]) })
	return out
}

var _ = strconv.Itoa
var _ = tmproto.PrevoteType
