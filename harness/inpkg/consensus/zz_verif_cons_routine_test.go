//go:build verif

package consensus

// Routine mode of the consensus driver (input "routine": true).
//
// In direct mode the driver calls handleMsg / handleTimeout itself.  In routine mode every node runs the REAL
// receiveRoutine on a REAL write-ahead log: the driver puts exactly one input into the queue the production code
// reads (peerMsgQueue, internalMsgQueue, the ticker's channel), and the routine — which logs the input to the WAL
// and then handles it — is parked at the end of handleMsg/handleTimeout by the verifStep hook (a blocking hook is
// the scheduler gate), still holding cs.mtx, until the driver has projected the state and chosen the next input.
// No observation depends on timing: the driver only ever waits for the hook (or for the routine to exit).
//
// This makes stop/start of a node a step of a schedule ("Restart"): the routine is stopped through Stop(), a new
// State is built on the same block store, sign state and WAL file, catchupReplay (the real one) rebuilds the
// round state from the WAL, and the run goes on.  What the WAL does not record is lost exactly as in production.

import (
	"fmt"
	"runtime/debug"
	"sync"
	"testing"
	"time"

	dbm "github.com/tendermint/tm-db"

	"github.com/tendermint/tendermint/abci/example/kvstore"
	cfg "github.com/tendermint/tendermint/config"
	"github.com/tendermint/tendermint/libs/log"
	"github.com/tendermint/tendermint/p2p"
	p2pmock "github.com/tendermint/tendermint/p2p/mock"
	"github.com/tendermint/tendermint/privval"
	tmcons "github.com/tendermint/tendermint/proto/tendermint/consensus"
	tmproto "github.com/tendermint/tendermint/proto/tendermint/types"
	"github.com/tendermint/tendermint/types"
)

type vcGate struct {
	node     *vcNode
	stepDone chan struct{}
	resume   chan struct{}
	blocked  bool // the routine is parked in the hook (driver side knowledge)
	last     Message // the message whose handling the routine is parked behind (nil for a timeout)
}

var (
	vcGatesMtx sync.RWMutex
	vcGates    = map[*State]*vcGate{}
)

func vcGateOf(cs *State) *vcGate {
	vcGatesMtx.RLock()
	defer vcGatesMtx.RUnlock()
	return vcGates[cs]
}

// installed as verifStepHook while TestVerifCons runs
func vcStepHook(cs *State, mi *msgInfo, ti *timeoutInfo) {
	g := vcGateOf(cs)
	if g == nil || cs.replayMode {
		return
	}
	// a panicking handleMsg unwinds through this deferred call: do not park, let receiveRoutine's recover see it
	if vcContains(string(debug.Stack()), "panic(") {
		return
	}
	g.last = nil
	if mi != nil {
		g.last = mi.Msg
	}
	g.stepDone <- struct{}{}
	<-g.resume
}

// logger that keeps the reason of a "CONSENSUS FAILURE!!!"
type vcFailLogger struct {
	log.Logger
	mtx    sync.Mutex
	reason string
}

func (l *vcFailLogger) Error(msg string, keyvals ...interface{}) {
	if msg == "CONSENSUS FAILURE!!!" {
		l.mtx.Lock()
		for i := 0; i+1 < len(keyvals); i += 2 {
			if k, ok := keyvals[i].(string); ok && k == "err" {
				l.reason = fmt.Sprint(keyvals[i+1])
			}
		}
		l.mtx.Unlock()
	}
}
func (l *vcFailLogger) With(keyvals ...interface{}) log.Logger { return l }

type vcRoutineTicker struct {
	node *vcNode
	ch   chan timeoutInfo
}

func (*vcRoutineTicker) Start() error                    { return nil }
func (*vcRoutineTicker) Stop() error                     { return nil }
func (tk *vcRoutineTicker) Chan() <-chan timeoutInfo     { return tk.ch }
func (*vcRoutineTicker) SetLogger(log.Logger)            {}
func (tk *vcRoutineTicker) ScheduleTimeout(ti timeoutInfo) {
	tk.node.slot.schedule(ti)
	tk.node.out = append(tk.node.out, vcOut{T: "sched", R: int(ti.Round), V: vcKindOfStep(ti.Step), Pol: -2})
}

// per-node data of routine mode
type vcRoutine struct {
	gate    *vcGate
	tick    *vcRoutineTicker
	flog    *vcFailLogger
	conf    *cfg.Config
	blockDB dbm.DB
	walFile string
	keyFile string
	stFile  string
	pv      types.PrivValidator // MockPV (kept) or nil when FilePV is reloaded from its files
	dead    bool                // the routine has exited after a panic
}

const vcRoutineWait = 60 * time.Second

// build (or rebuild after a stop) the State of node n on its durable things and start its receiveRoutine
func (net *vcNet) startRoutineNode(n *vcNode, replay bool) {
	rt := n.rt
	var pv types.PrivValidator = rt.pv
	if pv == nil {
		pv = privval.LoadFilePV(rt.keyFile, rt.stFile)
	}
	cs := newStateWithConfigAndBlockStore(rt.conf, net.state0.Copy(), &vcSigner{PrivValidator: pv, node: n},
		kvstore.NewApplication(), rt.blockDB)
	rt.flog = &vcFailLogger{Logger: log.NewNopLogger()}
	cs.SetLogger(rt.flog)
	rt.tick = &vcRoutineTicker{node: n, ch: make(chan timeoutInfo)}
	cs.SetTimeoutTicker(rt.tick)
	wal, err := cs.OpenWAL(rt.walFile)
	if err != nil {
		net.t.Fatalf("routine mode: cannot open WAL of %s: %v", n.name, err)
	}
	cs.wal = wal
	cs.doWALCatchup = false // done here, before the routine exists, so that the regenerated own messages can be queued by the driver
	n.cs = cs
	n.slot = vcSlot{}
	n.blockNames = nil
	rt.gate = &vcGate{node: n, stepDone: make(chan struct{}), resume: make(chan struct{})}
	rt.dead = false
	vcGatesMtx.Lock()
	vcGates[cs] = rt.gate
	vcGatesMtx.Unlock()
	if replay {
		var rerr error
		n.guarded(func() { rerr = cs.catchupReplay(cs.Height) })
		if rerr != nil {
			n.replayErr = rerr.Error()
		}
		n.inq = nil
		n.drain() // own messages produced again by the replay
	}
	if n.panicked != "none" {
		return
	}
	if err := cs.Start(); err != nil {
		net.t.Fatalf("routine mode: cannot start %s: %v", n.name, err)
	}
}

func (net *vcNet) stopRoutineNode(n *vcNode) {
	rt := n.rt
	cs := n.cs
	if rt.gate.blocked {
		rt.gate.blocked = false
		rt.gate.resume <- struct{}{}
	}
	if cs.IsRunning() {
		_ = cs.Stop()
		if !rt.dead {
			select {
			case <-cs.done:
			case <-time.After(vcRoutineWait):
				net.t.Fatalf("routine mode: receiveRoutine of %s did not stop", n.name)
			}
		}
	}
	if cs.eventBus != nil {
		_ = cs.eventBus.Stop()
	}
	vcGatesMtx.Lock()
	delete(vcGates, cs)
	vcGatesMtx.Unlock()
}

// hand one input to the real receiveRoutine and wait until it is parked at the end of the handler.
// sentinel: the input may be dropped before it reaches a handler hook (handleTimeout returns early on a stale tock): a
// sentinel message is queued behind it (the ticker channel is unbuffered, so the routine has taken the input before the
// sentinel is queued) and the routine is parked behind the sentinel instead.
func (n *vcNode) feed(put func(), sentinel bool) {
	rt := n.rt
	if rt.dead {
		return
	}
	g := rt.gate
	cs := n.cs
	died := func() {
		rt.dead = true
		rt.flog.mtx.Lock()
		reason := rt.flog.reason
		rt.flog.mtx.Unlock()
		n.guarded(func() { panic(reason) }) // same classification as direct mode
	}
	done := make(chan struct{})
	go func() { put(); close(done) }()
	if g.blocked {
		g.blocked = false
		g.resume <- struct{}{}
	}
	if sentinel {
		select {
		case <-done:
		case <-cs.done:
			died()
			return
		case <-time.After(vcRoutineWait):
			n.net.t.Fatalf("routine mode: %s did not take an input", n.name)
		}
		cs.peerMsgQueue <- msgInfo{Msg: &vcSentinel{}, PeerID: ""}
	}
	for {
		select {
		case <-g.stepDone:
			if _, isSentinel := g.last.(*vcSentinel); sentinel && !isSentinel {
				// parked behind the input itself: take its own messages off the internal queue (the driver decides when
				// they are handled), then let the routine run on to the sentinel
				n.drain()
				g.resume <- struct{}{}
				continue
			}
			g.blocked = true
		case <-cs.done: // receiveRoutine recovered a panic and stopped (CONSENSUS FAILURE)
			died()
		case <-time.After(vcRoutineWait):
			n.net.t.Fatalf("routine mode: %s did not finish a step", n.name)
		}
		break
	}
	if !sentinel {
		<-done
	}
}

func (n *vcNode) handle(mi msgInfo, internal bool) {
	if n.rt == nil {
		n.guarded(func() { n.cs.handleMsg(mi) })
		return
	}
	if internal {
		n.feed(func() { n.cs.internalMsgQueue <- mi }, false)
	} else {
		n.feed(func() { n.cs.peerMsgQueue <- mi }, false)
	}
}

func (n *vcNode) fire(ti timeoutInfo) {
	if n.rt == nil {
		n.guarded(func() { n.cs.handleTimeout(ti, n.cs.RoundState) })
		return
	}
	n.feed(func() { n.rt.tick.ch <- ti }, true)
}

// stop/start of node n: the "Restart" step
func (net *vcNet) restart(n *vcNode) {
	net.stopRoutineNode(n)
	net.startRoutineNode(n, true)
}

// ---------------------------------------------------------------- how does a peer's +2/3 claim reach the state machine?
// The driver hands claims to a node the way the reactor does.  Which way that is, is OBSERVED once per process on the real
// Reactor.Receive: a VoteSetMaj23 message is given to a started reactor whose State runs its receiveRoutine behind the gate,
// followed by a sentinel message on the same queue (FIFO): if the routine parks behind the claim before it parks behind the
// sentinel, claims go through the peer queue (and hence through the WAL); if only the sentinel shows up, the reactor applied
// the claim to the vote sets itself.  No timing involved.
type vcSentinel struct{}

func (*vcSentinel) ValidateBasic() error { return nil }

type vcIdleTicker struct{ ch chan timeoutInfo }

func (*vcIdleTicker) Start() error                   { return nil }
func (*vcIdleTicker) Stop() error                    { return nil }
func (tk *vcIdleTicker) Chan() <-chan timeoutInfo    { return tk.ch }
func (*vcIdleTicker) SetLogger(log.Logger)           {}
func (*vcIdleTicker) ScheduleTimeout(ti timeoutInfo) {}

func vcProbeClaimPath(t *testing.T) bool {
	cs, _ := randState(1)
	cs.SetLogger(log.NewNopLogger())
	cs.SetTimeoutTicker(&vcIdleTicker{ch: make(chan timeoutInfo)})
	g := &vcGate{stepDone: make(chan struct{}), resume: make(chan struct{})}
	vcGatesMtx.Lock()
	vcGates[cs] = g
	vcGatesMtx.Unlock()
	defer func() {
		vcGatesMtx.Lock()
		delete(vcGates, cs)
		vcGatesMtx.Unlock()
	}()
	conR := NewReactor(cs, false)
	conR.SetLogger(log.NewNopLogger())
	if err := conR.Start(); err != nil { // starts cs: receiveRoutine idle behind the gate
		t.Fatalf("claim probe: cannot start the reactor: %v", err)
	}
	peer := p2pmock.NewPeer(nil)
	ps := NewPeerState(peer).SetLogger(log.NewNopLogger())
	peer.Set(types.PeerStateKey, ps)
	h := make([]byte, 32)
	bid := tmproto.BlockID{Hash: h, PartSetHeader: tmproto.PartSetHeader{Total: 1, Hash: h}}
	conR.ReceiveEnvelope(p2p.Envelope{ChannelID: StateChannel, Src: peer,
		Message: &tmcons.VoteSetMaj23{Height: cs.Height, Round: 0, Type: tmproto.PrevoteType, BlockID: bid}})
	cs.peerMsgQueue <- msgInfo{Msg: &vcSentinel{}, PeerID: ""}
	viaQueue := false
	for k := 0; k < 2; k++ {
		select {
		case <-g.stepDone:
		case <-time.After(vcRoutineWait):
			t.Fatalf("claim probe: receiveRoutine did not handle the sentinel")
		}
		_, isSentinel := g.last.(*vcSentinel)
		g.resume <- struct{}{}
		if isSentinel {
			break
		}
		if _, isClaim := g.last.(*VoteSetMaj23Message); isClaim {
			viaQueue = true
		}
	}
	_ = conR.Stop()
	return viaQueue
}
