//go:build verif

package consensus

// Consensus driver shared by C01 / C02 / C03 (see /verif/DESIGN.md 4.2, 5/C01-C03).
//
// N real consensus.State objects (real HeightVoteSet, BlockExecutor on a kvstore app,
// mem-DB block store) are stepped SINGLE-THREADED by this driver: the receive routine
// is never started, the ticker is a recording stub, and the driver is the only
// scheduler.  A schedule is a sequence of environment choices
//     Deliver(n, m) | ProcessInternal(n) | Timeout(n, kind)
// produced by TLC (state-graph paths, simulation, attack schedules of weakened specs)
// or by the seeded random walker below.  After every step the node is projected to the
// abstract state of spec/TMConsensusNode.tla and one NDJSON line is written.  The
// driver gives no verdicts; TLC does (spec/trace/TMConsensusTrace.tla).

import (
	"encoding/hex"
	"encoding/json"
	"fmt"
	"math/rand"
	"os"
	"sort"
	"strconv"
	"testing"
	"time"

	dbm "github.com/tendermint/tm-db"

	"github.com/tendermint/tendermint/abci/example/kvstore"
	cfg "github.com/tendermint/tendermint/config"
	cstypes "github.com/tendermint/tendermint/consensus/types"
	"github.com/tendermint/tendermint/crypto/ed25519"
	"github.com/tendermint/tendermint/libs/log"
	"github.com/tendermint/tendermint/p2p"
	"github.com/tendermint/tendermint/privval"
	tmproto "github.com/tendermint/tendermint/proto/tendermint/types"
	sm "github.com/tendermint/tendermint/state"
	"github.com/tendermint/tendermint/types"
)

// ---------------------------------------------------------------- input / output formats

type vcMsg struct {
	T   string `json:"t"` // proposal | block | prevote | precommit | "-"
	Src string `json:"src"`
	R   int    `json:"r"`
	V   string `json:"v"`
	Pol int    `json:"pol"`
}

type vcStep struct {
	Name string `json:"name"` // Deliver | ProcessInternal | Timeout
	N    string `json:"n"`
	M    vcMsg  `json:"m"`
	K    string `json:"k"`
}

type vcSched struct {
	ID    int      `json:"id"`
	Steps []vcStep `json:"steps"`
}

type vcInput struct {
	Mode     string    `json:"mode"` // info | replay
	Powers   []int64   `json:"powers"`
	Byz      []string  `json:"byz"`
	MaxRound int       `json:"maxround"`
	FilePV   bool      `json:"filepv"`
	Scheds   []vcSched `json:"scheds"`
	Random   int       `json:"random"`    // number of random walks
	RandLen  int       `json:"randlen"`   // steps per random walk
	SyncTail bool      `json:"synctail"`  // after each schedule run the synchronous suffix (C03)
	SyncMax  int       `json:"syncmax"`   // max rounds allowed after GST
	ByzAfter bool      `json:"byzafter"`  // Byzantine validators keep acting during the suffix
	RandTail int       `json:"randtail"`  // random steps appended to every TLC schedule
	Dups     int       `json:"dups"`      // every Dups-th delivery of a schedule (chosen by a hash of position and message) is made twice
	Routine  bool      `json:"routine"`   // every node runs the real receiveRoutine on a real WAL (zz_verif_cons_routine_test.go); enables "Restart" steps
	Stamp    int       `json:"stamp"`     // routine mode: block parts carry the receiver's round + Stamp (the sender's round is what the reactor stamps)
	Restarts int       `json:"restarts"`  // routine mode, random walks: one in Restarts steps is a Restart (0 = never)
}

// ---------------------------------------------------------------- net

type vcBlock struct {
	name  string
	block *types.Block
	parts *types.PartSet
}

type vcItem struct { // one abstract message with its concrete msgInfos
	m    vcMsg
	msgs []msgInfo
}

type vcOut struct {
	T   string `json:"t"`
	R   int    `json:"r"`
	V   string `json:"v"`
	Pol int    `json:"pol"`
}

type vcPolka struct {
	R int    `json:"r"`
	V string `json:"v"`
}

type vcSign struct {
	T      string    `json:"t"`
	R      int       `json:"r"`
	V      string    `json:"v"`
	Pol    int       `json:"pol"`
	Polkas []vcPolka `json:"polkas"`
	Held   []string  `json:"held"`
	OK     bool      `json:"ok"` // signer returned nil error (signature released)
}

type vcNode struct {
	name  string
	cs    *State
	inq   []vcItem
	out   []vcOut
	signs []vcSign
	net   *vcNet
	decided bool
	slot     vcSlot // emulation of the ticker's single slot (consensus/ticker.go)
	panicked string // reason class if a handleMsg/handleTimeout call panicked ("none" otherwise)
	blockNames map[*types.Block]string // block objects of the state machine -> BlockID name of the parts they came from
	rt         *vcRoutine              // routine mode only
	replayErr  string                  // routine mode: error of the last catchupReplay ("" if none)
}

// call f under recover(); production would crash the process here, the driver records it
func (n *vcNode) guarded(f func()) {
	defer func() {
		if r := recover(); r != nil {
			msg := fmt.Sprint(r)
			switch {
			case vcContains(msg, "+2/3 committed an invalid block"):
				n.panicked = "committed an invalid block"
			case vcContains(msg, "+2/3 prevoted for an invalid block"):
				n.panicked = "+2/3 prevoted for an invalid block"
			case vcContains(msg, "expected ProposalBlockParts header to be commit header"):
				n.panicked = "parts header differs from commit header"
			case vcContains(msg, "BlockStore can only save complete block part sets"):
				n.panicked = "incomplete part set at commit"
			default:
				if len(msg) > 80 {
					msg = msg[:80]
				}
				n.panicked = "other: " + msg
			}
		}
	}()
	f()
}

func vcContains(s, sub string) bool {
	for i := 0; i+len(sub) <= len(s); i++ {
		if s[i:i+len(sub)] == sub {
			return true
		}
	}
	return false
}

type vcNet struct {
	t        *testing.T
	chainID  string
	state0   sm.State
	names    []string // validator names in validator-set order: v0, v1, ...
	powers   map[string]int64
	privs    map[string]types.PrivValidator
	addrName map[string]string
	index    map[string]int32
	byz      map[string]bool
	nodes    map[string]*vcNode
	corr     []string
	maxRound int
	propSeq  []string

	blocks    map[string]*vcBlock // by name
	hashName  map[string]string   // block hash hex -> name
	pshName   map[string]string   // part-set-header hash hex -> name
	pending   map[string]*types.PartSet
	soup      map[string]vcItem // key(t,src,r,v) -> item (messages of correct nodes visible to the network)
	soupKeys  []string
	tmpdir    string
	delivered []vcStep // messages handed to nodes so far (duplicates are drawn from here)
	bound     int
	gstOn     bool
	plan      []vcStep // follow-up steps of a coordinated adversarial move (walker)
	stamp     int32    // routine mode: round offset stamped on delivered block parts
	restarts  int
	claimViaQueue bool // how the reactor hands a +2/3 claim to the state machine (observed once per process)
}

func vcKey(m vcMsg) string { return m.T + "|" + m.Src + "|" + strconv.Itoa(m.R) + "|" + m.V }

// signer wrapper: records every signing request and whether a signature was released
type vcSigner struct {
	types.PrivValidator
	node *vcNode
}

func (s *vcSigner) SignVote(chainID string, vote *tmproto.Vote) error {
	err := s.PrivValidator.SignVote(chainID, vote)
	n := s.node
	t := "prevote"
	if vote.Type == tmproto.PrecommitType {
		t = "precommit"
	}
	v := n.net.nameOfBlockIDProto(vote.BlockID)
	n.recordSign(t, int(vote.Round), v, -2, err == nil)
	return err
}

func (s *vcSigner) SignProposal(chainID string, p *tmproto.Proposal) error {
	err := s.PrivValidator.SignProposal(chainID, p)
	n := s.node
	// the proposal's block may be brand new: it is named when the node's own queue is drained;
	// remember the hash and patch the name then
	v := n.net.nameOfBlockIDProto(p.BlockID)
	n.recordSign("proposal", int(p.Round), v, int(p.PolRound), err == nil)
	return err
}

func (n *vcNode) recordSign(t string, r int, v string, pol int, ok bool) {
	sg := vcSign{T: t, R: r, V: v, Pol: pol, OK: ok, Polkas: []vcPolka{}, Held: []string{}}
	cs := n.cs
	for rr := 0; rr <= n.net.maxRound+1; rr++ {
		if pvs := cs.Votes.Prevotes(int32(rr)); pvs != nil {
			if bid, ok2 := pvs.TwoThirdsMajority(); ok2 {
				sg.Polkas = append(sg.Polkas, vcPolka{R: rr, V: n.net.nameOfBlockID(bid)})
			}
		}
	}
	held := map[string]bool{}
	if cs.ProposalBlock != nil {
		held[n.nameOfBlock(cs.ProposalBlock, cs.ProposalBlockParts)] = true
	}
	if cs.LockedBlock != nil {
		held[n.nameOfBlock(cs.LockedBlock, cs.LockedBlockParts)] = true
	}
	if cs.ValidBlock != nil {
		held[n.nameOfBlock(cs.ValidBlock, cs.ValidBlockParts)] = true
	}
	for h := range held {
		sg.Held = append(sg.Held, h)
	}
	sort.Strings(sg.Held)
	n.signs = append(n.signs, sg)
	if ok {
		n.out = append(n.out, vcOut{T: t, R: r, V: v, Pol: pol})
	}
}

// ticker stub: records what the node hands to the ticker
type vcTicker struct{ node *vcNode }

func (*vcTicker) Start() error { return nil }
func (*vcTicker) Stop() error  { return nil }
func (tk *vcTicker) Chan() <-chan timeoutInfo { return make(chan timeoutInfo) }
func (*vcTicker) SetLogger(log.Logger)       {}
func (tk *vcTicker) ScheduleTimeout(ti timeoutInfo) {
	tk.node.slot.schedule(ti)
	tk.node.out = append(tk.node.out, vcOut{T: "sched", R: int(ti.Round), V: vcKindOfStep(ti.Step), Pol: -2})
}

func vcKindOfStep(s cstypes.RoundStepType) string {
	switch s {
	case cstypes.RoundStepNewHeight:
		return "NewHeight"
	case cstypes.RoundStepNewRound:
		return "NewRound"
	case cstypes.RoundStepPropose:
		return "Propose"
	case cstypes.RoundStepPrevoteWait:
		return "PrevoteWait"
	case cstypes.RoundStepPrecommitWait:
		return "PrecommitWait"
	}
	return "Step" + strconv.Itoa(int(s))
}

func vcStepOfKind(k string) cstypes.RoundStepType {
	switch k {
	case "NewHeight":
		return cstypes.RoundStepNewHeight
	case "NewRound":
		return cstypes.RoundStepNewRound
	case "Propose":
		return cstypes.RoundStepPropose
	case "PrevoteWait":
		return cstypes.RoundStepPrevoteWait
	case "PrecommitWait":
		return cstypes.RoundStepPrecommitWait
	}
	panic("unknown timeout kind " + k)
}

var vcGenesisTime = time.Date(2020, 1, 1, 0, 0, 0, 0, time.UTC)

func vcNewNet(t *testing.T, in *vcInput, runID int) *vcNet {
	net := &vcNet{t: t, powers: map[string]int64{}, privs: map[string]types.PrivValidator{},
		addrName: map[string]string{}, index: map[string]int32{}, byz: map[string]bool{},
		nodes: map[string]*vcNode{}, maxRound: in.MaxRound, blocks: map[string]*vcBlock{},
		hashName: map[string]string{}, pshName: map[string]string{}, pending: map[string]*types.PartSet{},
		soup: map[string]vcItem{}, bound: 1000}
	if in.SyncMax > 0 {
		net.bound = in.SyncMax
	}
	net.stamp, net.restarts = int32(in.Stamp), in.Restarts
	net.claimViaQueue = vcClaimViaQueue
	n := len(in.Powers)
	gvals := make([]types.GenesisValidator, n)
	keys := map[string]ed25519.PrivKey{}
	for i := 0; i < n; i++ {
		k := ed25519.GenPrivKeyFromSecret([]byte(fmt.Sprintf("verif-consensus-key-%d", i)))
		gvals[i] = types.GenesisValidator{PubKey: k.PubKey(), Power: in.Powers[i]}
		keys[k.PubKey().Address().String()] = k
	}
	genDoc := &types.GenesisDoc{GenesisTime: vcGenesisTime, ChainID: config.ChainID(), InitialHeight: 1, Validators: gvals}
	st, err := sm.MakeGenesisState(genDoc)
	if err != nil {
		t.Fatal(err)
	}
	net.state0 = st
	net.chainID = st.ChainID
	for i, v := range st.Validators.Validators {
		name := "v" + strconv.Itoa(i)
		net.names = append(net.names, name)
		net.powers[name] = v.VotingPower
		net.addrName[v.Address.String()] = name
		net.index[name] = int32(i)
		net.privs[name] = types.NewMockPVWithParams(keys[v.Address.String()], false, false)
	}
	for _, b := range in.Byz {
		net.byz[b] = true
	}
	// the proposer of round r as every node that walks the rounds computes it (one increment per round; a node that
	// skips rounds does the same since /repo 5558f05)
	vsr := st.Validators
	for r := 0; r <= in.MaxRound+1; r++ {
		if r > 0 {
			vsr = vsr.CopyIncrementProposerPriority(1)
		}
		net.propSeq = append(net.propSeq, net.addrName[vsr.GetProposer().Address.String()])
	}
	if in.Mode == "info" {
		return net
	}
	// sign-state files on a memory file system when there is one: FilePV fsyncs on every signature, and
	// durability across a machine crash is C04's subject, not this driver's
	base := ""
	if fi, err := os.Stat("/dev/shm"); err == nil && fi.IsDir() {
		base = "/dev/shm"
	}
	net.tmpdir, _ = os.MkdirTemp(base, "vc-net-")
	for _, name := range net.names {
		if net.byz[name] {
			continue
		}
		net.corr = append(net.corr, name)
		node := &vcNode{name: name, net: net, panicked: "none"}
		c := *config
		cc := *config.Consensus
		cc.SkipTimeoutCommit = false
		cc.CreateEmptyBlocks = true
		c.Consensus = &cc
		var pv types.PrivValidator = net.privs[name]
		if in.FilePV {
			kf := fmt.Sprintf("%s/%s-key.json", net.tmpdir, name)
			sf := fmt.Sprintf("%s/%s-state.json", net.tmpdir, name)
			fpv := privval.NewFilePV(keys[st.Validators.Validators[net.index[name]].Address.String()], kf, sf)
			fpv.Save()
			pv = fpv
		}
		if in.Routine {
			cc.SetWalFile(fmt.Sprintf("%s/%s-wal/wal", net.tmpdir, name))
			node.rt = &vcRoutine{conf: &c, blockDB: dbm.NewMemDB(), walFile: cc.WalFile()}
			if in.FilePV {
				node.rt.keyFile = fmt.Sprintf("%s/%s-key.json", net.tmpdir, name)
				node.rt.stFile = fmt.Sprintf("%s/%s-state.json", net.tmpdir, name)
			} else {
				node.rt.pv = pv
			}
			net.nodes[name] = node
			net.startRoutineNode(node, false)
			continue
		}
		cs := newStateWithConfigAndBlockStore(&c, st.Copy(), &vcSigner{PrivValidator: pv, node: node},
			kvstore.NewApplication(), dbm.NewMemDB())
		cs.SetLogger(log.NewNopLogger())
		cs.SetTimeoutTicker(&vcTicker{node: node})
		node.cs = cs
		cs.scheduleRound0(&cs.RoundState) // what OnStart does: the NewHeight timeout is in the ticker
		net.nodes[name] = node
	}
	// The block a correct proposer creates at the initial height is determined by the proposer alone (genesis
	// time, empty mempool), so a faulty validator can vote for it before it has been proposed: pre-register
	// "B<name>" for every correct validator (the real proposal later hashes to the same block).
	for _, name := range net.corr {
		addr := st.Validators.Validators[net.index[name]].Address
		b, bp := st.MakeBlock(1, []types.Tx{}, types.NewCommit(0, 0, types.BlockID{}, nil), nil, addr)
		net.register("B"+name, b, bp)
	}
	// Byzantine blocks: Z0 (valid, carries a tx) and ZX (fails ValidateBlock: wrong AppHash)
	byzProposer := st.Validators.Validators[0].Address
	for _, b := range in.Byz {
		byzProposer = st.Validators.Validators[net.index[b]].Address
		break
	}
	z0, z0p := st.MakeBlock(1, []types.Tx{types.Tx("z0=1")}, types.NewCommit(0, 0, types.BlockID{}, nil), nil, byzProposer)
	net.register("Z0", z0, z0p)
	z1, z1p := st.MakeBlock(1, []types.Tx{types.Tx("z1=1")}, types.NewCommit(0, 0, types.BlockID{}, nil), nil, byzProposer)
	net.register("Z1", z1, z1p)
	// twins: the same blocks under a second, equally decodable protobuf encoding (one unknown trailing field):
	// same block hash, different part-set header, i.e. a different BlockID
	for _, base := range []string{"Z0", "Z1"} {
		bb := net.blocks[base]
		pbb, err := bb.block.ToProto()
		if err != nil {
			t.Fatal(err)
		}
		bz, err := pbb.Marshal()
		if err != nil {
			t.Fatal(err)
		}
		bz = append(bz, 0x78, 0x01) // field 15, varint 1: unknown to tmproto.Block
		tps := types.NewPartSetFromData(bz, types.BlockPartSizeBytes)
		tb, err := vcDecodeBlock(tps)
		if err != nil || string(tb.Hash()) != string(bb.block.Hash()) {
			t.Fatalf("twin encoding of %s does not decode to the same block: %v", base, err)
		}
		net.blocks[base+"~"] = &vcBlock{name: base + "~", block: tb, parts: tps}
		net.pshName[hex.EncodeToString(tps.Header().Hash)] = base + "~"
	}
	zx, _ := st.MakeBlock(1, []types.Tx{types.Tx("zx=1")}, types.NewCommit(0, 0, types.BlockID{}, nil), nil, byzProposer)
	zx.AppHash = []byte("verif-bad-app-hash")
	zxp := zx.MakePartSet(types.BlockPartSizeBytes)
	net.register("ZX", zx, zxp)
	return net
}

func (net *vcNet) close() {
	for _, n := range net.nodes {
		if n.rt != nil {
			net.stopRoutineNode(n)
			continue
		}
		if n.cs.eventBus != nil {
			_ = n.cs.eventBus.Stop()
		}
	}
	if net.tmpdir != "" {
		os.RemoveAll(net.tmpdir)
	}
}

func (net *vcNet) register(name string, b *types.Block, ps *types.PartSet) {
	if _, dup := net.blocks[name]; dup {
		k := 2
		for {
			nn := name + "_" + strconv.Itoa(k)
			if _, d := net.blocks[nn]; !d {
				name = nn
				break
			}
			k++
		}
	}
	net.blocks[name] = &vcBlock{name: name, block: b, parts: ps}
	net.hashName[hex.EncodeToString(b.Hash())] = name
	net.pshName[hex.EncodeToString(ps.Header().Hash)] = name
}

func (net *vcNet) nameOfHash(h []byte) string {
	if len(h) == 0 {
		return "nil"
	}
	if n, ok := net.hashName[hex.EncodeToString(h)]; ok {
		return n
	}
	return "?" + hex.EncodeToString(h[:4])
}

// A BlockID is (block hash, part-set header): two encodings of one block ("Z0" and its twin "Z0~") share the hash
// and differ in the header, so BlockIDs are named by their part-set header; the hash is the fallback.
func (net *vcNet) nameOfBlockID(b types.BlockID) string {
	if len(b.Hash) == 0 {
		return "nil"
	}
	if n, ok := net.pshName[hex.EncodeToString(b.PartSetHeader.Hash)]; ok {
		if blk, okb := net.blocks[n]; !okb || string(blk.block.Hash()) == string(b.Hash) {
			return n
		}
	}
	return net.nameOfHash(b.Hash)
}
func (net *vcNet) nameOfBlockIDProto(b tmproto.BlockID) string {
	bid, err := types.BlockIDFromProto(&b)
	if err != nil {
		return net.nameOfHash(b.Hash)
	}
	return net.nameOfBlockID(*bid)
}

// name of a block object held by the state machine: the BlockID of the part set it was assembled from
func (n *vcNode) nameOfBlock(b *types.Block, ps *types.PartSet) string {
	if b == nil {
		return "nil"
	}
	if n.blockNames == nil {
		n.blockNames = map[*types.Block]string{}
	}
	if nm, ok := n.blockNames[b]; ok {
		return nm
	}
	nm := n.net.nameOfHash(b.Hash())
	if ps != nil && ps.IsComplete() {
		cand := n.net.nameOfBlockID(types.BlockID{Hash: b.Hash(), PartSetHeader: ps.Header()})
		if cand[0] != '?' {
			nm = cand
		}
	}
	n.blockNames[b] = nm
	return nm
}

func (net *vcNet) nameOfPSH(h types.PartSetHeader) string {
	if h.IsZero() {
		return "nil"
	}
	if n, ok := net.pshName[hex.EncodeToString(h.Hash)]; ok {
		return n
	}
	return "?" + hex.EncodeToString(h.Hash[:4])
}

func (net *vcNet) blockID(v string) (types.BlockID, bool) {
	if v == "nil" {
		return types.BlockID{}, true
	}
	b, ok := net.blocks[v]
	if !ok {
		return types.BlockID{}, false
	}
	return types.BlockID{Hash: b.block.Hash(), PartSetHeader: b.parts.Header()}, true
}

// ---------------------------------------------------------------- draining a node's own queue

func (n *vcNode) drain() {
	cs := n.cs
	for {
		select {
		case mi := <-cs.internalMsgQueue:
			n.absorb(mi)
		default:
			for {
				select {
				case <-cs.statsMsgQueue:
				default:
					return
				}
			}
		}
	}
}

func (n *vcNode) absorb(mi msgInfo) {
	net := n.net
	switch msg := mi.Msg.(type) {
	case *ProposalMessage:
		p := msg.Proposal
		key := hex.EncodeToString(p.BlockID.PartSetHeader.Hash)
		if _, known := net.hashName[hex.EncodeToString(p.BlockID.Hash)]; !known {
			net.pending[key] = types.NewPartSetFromHeader(p.BlockID.PartSetHeader)
			// name reserved now; block registered when its parts have been seen
			net.hashName[hex.EncodeToString(p.BlockID.Hash)] = net.freshName("B" + n.name)
			net.pshName[key] = net.hashName[hex.EncodeToString(p.BlockID.Hash)]
		}
		v := net.nameOfBlockID(p.BlockID) // the BlockID: a re-proposed valid block keeps the part-set header it was received under
		// patch the name into the sign record / output made before the block had a name
		for i := range n.signs {
			if n.signs[i].T == "proposal" && n.signs[i].R == int(p.Round) && n.signs[i].V[0] == '?' {
				n.signs[i].V = v
			}
		}
		for i := range n.out {
			if n.out[i].T == "proposal" && n.out[i].R == int(p.Round) && n.out[i].V[0] == '?' {
				n.out[i].V = v
			}
		}
		n.inq = append(n.inq, vcItem{m: vcMsg{T: "proposal", Src: n.name, R: int(p.Round), V: v, Pol: int(p.POLRound)}, msgs: []msgInfo{mi}})
	case *BlockPartMessage:
		// find the pending part set this part belongs to
		var name string
		for key, ps := range net.pending {
			if added, _ := ps.AddPart(msg.Part); added {
				name = net.pshName[key]
				if ps.IsComplete() {
					net.completeBlock(key, ps)
				}
				break
			}
		}
		if name == "" {
			// part of an already registered block (re-proposal of a valid block)
			for _, b := range net.blocks {
				if int(msg.Part.Index) < int(b.parts.Total()) && string(b.parts.GetPart(int(msg.Part.Index)).Bytes) == string(msg.Part.Bytes) {
					name = b.name
					break
				}
			}
		}
		if k := len(n.inq); k > 0 && n.inq[k-1].m.T == "block" && n.inq[k-1].m.V == name {
			n.inq[k-1].msgs = append(n.inq[k-1].msgs, mi)
		} else {
			n.inq = append(n.inq, vcItem{m: vcMsg{T: "block", Src: "-", R: -1, V: name, Pol: -2}, msgs: []msgInfo{mi}})
		}
	case *VoteMessage:
		v := msg.Vote
		t := "prevote"
		if v.Type == tmproto.PrecommitType {
			t = "precommit"
		}
		n.inq = append(n.inq, vcItem{m: vcMsg{T: t, Src: n.name, R: int(v.Round), V: net.nameOfBlockID(v.BlockID), Pol: -2}, msgs: []msgInfo{mi}})
	}
}

func (net *vcNet) freshName(base string) string {
	used := map[string]bool{}
	for _, n := range net.hashName {
		used[n] = true
	}
	if !used[base] {
		return base
	}
	for k := 2; ; k++ {
		if nn := base + "_" + strconv.Itoa(k); !used[nn] {
			return nn
		}
	}
}

func (net *vcNet) completeBlock(key string, ps *types.PartSet) {
	name := net.pshName[key]
	b, err := vcDecodeBlock(ps)
	if err != nil {
		net.t.Fatalf("cannot decode block %s: %v", name, err)
	}
	net.blocks[name] = &vcBlock{name: name, block: b, parts: ps}
	delete(net.pending, key)
}

// ---------------------------------------------------------------- projection

func (n *vcNode) project() map[string]interface{} {
	cs := n.cs
	net := n.net
	rs := &cs.RoundState
	p := map[string]interface{}{"r": -1, "v": "nil", "pol": -1}
	if rs.Proposal != nil {
		p = map[string]interface{}{"r": int(rs.Proposal.Round), "v": net.nameOfBlockID(rs.Proposal.BlockID), "pol": int(rs.Proposal.POLRound)}
	}
	// locked and valid blocks first: enterCommit may make the locked block the proposal block (same object)
	lockedName := n.nameOfBlock(rs.LockedBlock, rs.LockedBlockParts)
	validName := n.nameOfBlock(rs.ValidBlock, rs.ValidBlockParts)
	propName := n.nameOfBlock(rs.ProposalBlock, rs.ProposalBlockParts)
	partsHdr := "nil"
	if rs.ProposalBlockParts != nil {
		partsHdr = net.nameOfPSH(rs.ProposalBlockParts.Header())
	}
	pv := []map[string]interface{}{}
	pc := []map[string]interface{}{}
	tracked := []int{}
	blockNames := []string{"nil"}
	for name := range net.blocks {
		blockNames = append(blockNames, name)
	}
	sort.Strings(blockNames)
	projVS := func(vs *types.VoteSet) map[string]interface{} {
		votes := map[string]string{}
		by := [][]string{}
		maj := "none"
		for _, name := range net.names {
			votes[name] = "none"
		}
		if vs != nil {
			for _, name := range net.names {
				if vt := vs.GetByIndex(net.index[name]); vt != nil {
					votes[name] = net.nameOfBlockID(vt.BlockID)
				}
			}
			if bid, ok := vs.TwoThirdsMajority(); ok {
				maj = net.nameOfBlockID(bid)
			}
			for _, bn := range blockNames {
				bid, _ := net.blockID(bn)
				if ba := vs.BitArrayByBlockID(bid); ba != nil {
					for _, name := range net.names {
						if ba.GetIndex(int(net.index[name])) {
							by = append(by, []string{bn, name})
						}
					}
				}
			}
		}
		return map[string]interface{}{"votes": votes, "maj": maj, "by": by}
	}
	for r := 0; r <= net.maxRound; r++ {
		pvs, pcs := rs.Votes.Prevotes(int32(r)), rs.Votes.Precommits(int32(r))
		if pvs != nil {
			tracked = append(tracked, r)
		}
		pv = append(pv, projVS(pvs))
		pc = append(pc, projVS(pcs))
	}
	decision := "nil"
	if cs.blockStore.Height() >= 1 {
		if b := cs.blockStore.LoadBlock(1); b != nil {
			decision = net.nameOfHash(b.Hash())
			if bm := cs.blockStore.LoadBlockMeta(1); bm != nil {
				decision = net.nameOfBlockID(bm.BlockID)
			}
		}
	}
	return map[string]interface{}{
		"height": int(rs.Height), "round": int(rs.Round), "step": int(rs.Step),
		"lockedR": int(rs.LockedRound), "lockedV": lockedName,
		"validR": int(rs.ValidRound), "validV": validName,
		"prop": p, "propBlock": propName, "partsHdr": partsHdr,
		"ttp": rs.TriggeredTimeoutPrecommit, "commitR": int(rs.CommitRound),
		"pv": pv, "pc": pc, "tracked": tracked, "decision": decision, "panic": n.panicked,
	}
}

// facts about a node's decision, observed on the real stores (C01)
func (n *vcNode) decisionFacts() map[string]interface{} {
	cs := n.cs
	net := n.net
	b := cs.blockStore.LoadBlock(1)
	sc := cs.blockStore.LoadSeenCommit(1)
	valid := cs.blockExec.ValidateBlock(net.state0, b) == nil
	signers := []string{}
	if sc != nil {
		for i, sig := range sc.Signatures {
			if !sig.ForBlock() {
				continue
			}
			val := net.state0.Validators.Validators[i]
			vote := sc.GetVote(int32(i))
			if string(vote.ValidatorAddress) == string(val.Address) &&
				val.PubKey.VerifySignature(types.VoteSignBytes(net.chainID, vote.ToProto()), sig.Signature) {
				signers = append(signers, net.names[i])
			}
		}
	}
	storedAs := net.nameOfHash(b.Hash())
	if bm := n.cs.blockStore.LoadBlockMeta(1); bm != nil {
		storedAs = net.nameOfBlockID(bm.BlockID)
	}
	f := map[string]interface{}{"v": storedAs, "valid": valid, "signers": signers,
		"commitFor": "nil", "commitRound": -1}
	if sc != nil {
		f["commitFor"] = net.nameOfBlockID(sc.BlockID)
		f["commitRound"] = int(sc.Round)
	}
	return f
}

// ---------------------------------------------------------------- executing steps

type vcWriter struct {
	f   *os.File
	enc *json.Encoder
	n   int
}

func (w *vcWriter) emit(v interface{}) {
	if err := w.enc.Encode(v); err != nil {
		panic(err)
	}
	w.n++
}

func (net *vcNet) resetEvent(run int, extra map[string]interface{}) map[string]interface{} {
	byz := []string{}
	for _, n := range net.names {
		if net.byz[n] {
			byz = append(byz, n)
		}
	}
	pw := map[string]int{}
	for k, v := range net.powers {
		pw[k] = int(v)
	}
	ev := map[string]interface{}{"ev": "Reset", "run": run, "vals": net.names, "powers": pw,
		"proposers": net.propSeq, "corr": net.corr, "byz": byz, "maxround": net.maxRound}
	for k, v := range extra {
		ev[k] = v
	}
	return ev
}

// concrete messages for an abstract one; ok=false if the real run does not have it
func (net *vcNet) concretize(m vcMsg) (vcItem, bool) {
	if m.T == "block" {
		b, ok := net.blocks[m.V]
		if !ok {
			return vcItem{}, false
		}
		it := vcItem{m: vcMsg{T: "block", Src: "-", R: -1, V: m.V, Pol: -2}}
		for i := 0; i < int(b.parts.Total()); i++ {
			it.msgs = append(it.msgs, msgInfo{Msg: &BlockPartMessage{Height: 1, Round: 0, Part: b.parts.GetPart(i)}, PeerID: p2p.ID("peer")})
		}
		return it, true
	}
	if !net.byz[m.Src] {
		// a correct node's message: the one it really produced
		if it, ok := net.soup[vcKey(m)]; ok {
			return it, true
		}
		for _, k := range net.soupKeys {
			it := net.soup[k]
			if it.m.T == m.T && it.m.Src == m.Src && it.m.R == m.R {
				return it, true
			}
		}
		return vcItem{}, false
	}
	bid, ok := net.blockID(m.V)
	if !ok {
		return vcItem{}, false
	}
	pv := net.privs[m.Src]
	if m.T == "proposal" {
		p := types.NewProposal(1, int32(m.R), int32(m.Pol), bid)
		p.Timestamp = vcGenesisTime
		pp := p.ToProto()
		if err := pv.SignProposal(net.chainID, pp); err != nil {
			net.t.Fatal(err)
		}
		p.Signature = pp.Signature
		return vcItem{m: m, msgs: []msgInfo{{Msg: &ProposalMessage{Proposal: p}, PeerID: p2p.ID(m.Src)}}}, true
	}
	vt := tmproto.PrevoteType
	if m.T == "precommit" {
		vt = tmproto.PrecommitType
	}
	pk, _ := pv.GetPubKey()
	vote := &types.Vote{Type: vt, Height: 1, Round: int32(m.R), BlockID: bid, Timestamp: vcGenesisTime.Add(time.Second),
		ValidatorAddress: pk.Address(), ValidatorIndex: net.index[m.Src]}
	vp := vote.ToProto()
	if err := pv.SignVote(net.chainID, vp); err != nil {
		net.t.Fatal(err)
	}
	vote.Signature = vp.Signature
	return vcItem{m: m, msgs: []msgInfo{{Msg: &VoteMessage{Vote: vote}, PeerID: p2p.ID(m.Src)}}}, true
}

// run one environment step; returns false if it could not be realised (skipped)
func (net *vcNet) step(w *vcWriter, run int, st vcStep) bool {
	if st.Name == "GST" {
		if !net.gstOn {
			net.gstOn = true
			w.emit(map[string]interface{}{"ev": "GST", "run": run, "bound": net.bound})
		}
		return true
	}
	n, ok := net.nodes[st.N]
	if !ok || n.panicked != "none" {
		return false
	}
	n.out, n.signs = nil, nil
	ev := map[string]interface{}{"ev": st.Name, "run": run, "n": st.N, "k": "-", "peer": "-", "bound": net.bound, "nosched": false}
	wasDecided := n.decided
	switch st.Name {
	case "Deliver":
		if st.M.T == "claim_prevote" || st.M.T == "claim_precommit" {
			// a VoteSetMaj23 message: the reactor calls Votes.SetPeerMaj23 directly (consensus/reactor.go)
			bid, okb := net.blockID(st.M.V)
			if !okb || n.cs.Height != 1 {
				return false
			}
			vt := tmproto.PrevoteType
			if st.M.T == "claim_precommit" {
				vt = tmproto.PrecommitType
			}
			if net.claimViaQueue {
				// the reactor hands the claim to the state machine through the peer queue (observed, see vcProbeClaimPath)
				n.handle(msgInfo{Msg: &VoteSetMaj23Message{Height: 1, Round: int32(st.M.R), Type: vt, BlockID: bid}, PeerID: p2p.ID(st.M.Src)}, false)
			} else {
				n.guarded(func() {
					// routine mode: the parked routine holds cs.mtx on the driver's behalf
					if n.rt == nil {
						n.cs.mtx.Lock()
						defer n.cs.mtx.Unlock()
					}
					_ = n.cs.Votes.SetPeerMaj23(int32(st.M.R), vt, p2p.ID(st.M.Src), bid)
				})
			}
			ev["m"] = st.M
			ev["peer"] = st.M.Src
			ev["logged"] = net.claimViaQueue
			break
		}
		it, ok := net.concretize(st.M)
		if !ok {
			return false
		}
		for i := range it.msgs {
			mi := it.msgs[i]
			if it.m.T != "block" {
				mi.PeerID = p2p.ID(it.m.Src)
			}
			if bp, isPart := mi.Msg.(*BlockPartMessage); isPart {
				mi.Msg = &BlockPartMessage{Height: bp.Height, Round: n.cs.Round + net.stamp, Part: bp.Part}
			}
			n.handle(mi, false)
		}
		ev["m"] = it.m
		if it.m.T == "block" {
			ev["peer"] = st.N
		} else {
			ev["peer"] = it.m.Src
		}
	case "ProcessInternal":
		if len(n.inq) == 0 {
			return false
		}
		it := n.inq[0]
		n.inq = n.inq[1:]
		for _, mi := range it.msgs {
			mi := mi
			n.handle(mi, true)
		}
		ev["m"] = it.m
		ev["peer"] = st.N
		k := vcKey(it.m)
		if _, dup := net.soup[k]; !dup {
			net.soupKeys = append(net.soupKeys, k)
		}
		net.soup[k] = it
	case "Timeout":
		round := n.cs.Round
		if st.M.T == "tick" {
			round = int32(st.M.R)
		}
		ti := timeoutInfo{Duration: 0, Height: 1, Round: round, Step: vcStepOfKind(st.K)}
		ev["m"] = vcMsg{T: "-", Src: "-", R: int(round), V: "-", Pol: -2}
		ev["k"] = st.K
		n.fire(ti)
	case "Restart":
		if n.rt == nil || n.cs.Height != 1 || n.cs.blockStore.Height() >= 1 {
			return false
		}
		net.restart(n)
		ev["m"] = vcMsg{T: "-", Src: "-", R: -1, V: "-", Pol: -2}
		ev["nosched"] = true
	default:
		return false
	}
	if st.Name == "Deliver" {
		if m, okm := ev["m"].(vcMsg); okm {
			net.delivered = append(net.delivered, vcStep{Name: "Deliver", N: st.N, M: m})
			if len(net.delivered) > 400 {
				net.delivered = net.delivered[200:]
			}
		}
	}
	n.drain()
	ev["post"] = n.project()
	out := n.out
	if out == nil {
		out = []vcOut{}
	}
	ev["out"] = out
	signs := n.signs
	if signs == nil {
		signs = []vcSign{}
	}
	ev["signs"] = signs
	ev["inqlen"] = len(n.inq)
	if st.Name == "Restart" {
		ev["replayErr"] = n.replayErr
		q := []vcMsg{}
		for _, it := range n.inq {
			q = append(q, it.m)
		}
		ev["inq"] = q
	}
	w.emit(ev)
	if !wasDecided && n.cs.blockStore.Height() >= 1 {
		n.decided = true
		f := n.decisionFacts()
		f["ev"] = "Decision"
		f["run"] = run
		f["n"] = st.N
		w.emit(f)
	}
	return true
}

func vcDecodeBlock(ps *types.PartSet) (*types.Block, error) {
	bz := make([]byte, 0, ps.ByteSize())
	for i := 0; i < int(ps.Total()); i++ {
		bz = append(bz, ps.GetPart(i).Bytes...)
	}
	pbb := new(tmproto.Block)
	if err := pbb.Unmarshal(bz); err != nil {
		return nil, err
	}
	return types.BlockFromProto(pbb)
}

// ---------------------------------------------------------------- random walker

// weighted candidates: progress (own queues, messages the receiver does not hold yet, blocks it waits
// for) is favoured over noise (repeats, unwanted blocks, Byzantine messages) so that walks lock, change
// rounds and decide; every choice is still possible
type vcCand struct {
	st vcStep
	w  int
}

func (net *vcNet) candidates(rng *rand.Rand) []vcCand {
	cands := []vcCand{}
	blocks := []string{}
	for name := range net.blocks {
		blocks = append(blocks, name)
	}
	sort.Strings(blocks)
	vals := append([]string{"nil"}, blocks...)
	for _, nn := range net.corr {
		n := net.nodes[nn]
		cs := n.cs
		if n.panicked != "none" {
			continue
		}
		if len(n.inq) > 0 {
			cands = append(cands, vcCand{vcStep{Name: "ProcessInternal", N: nn}, 40})
		}
		if cs.Height != 1 {
			continue
		}
		switch {
		case cs.Step == cstypes.RoundStepNewHeight:
			cands = append(cands, vcCand{vcStep{Name: "Timeout", N: nn, K: "NewHeight"}, 20})
		case cs.Step == cstypes.RoundStepPropose:
			cands = append(cands, vcCand{vcStep{Name: "Timeout", N: nn, K: "Propose"}, 3})
		case cs.Step == cstypes.RoundStepPrevoteWait:
			cands = append(cands, vcCand{vcStep{Name: "Timeout", N: nn, K: "PrevoteWait"}, 4})
		}
		if cs.TriggeredTimeoutPrecommit && cs.Step < cstypes.RoundStepCommit && int(cs.Round) < net.maxRound {
			cands = append(cands, vcCand{vcStep{Name: "Timeout", N: nn, K: "PrecommitWait"}, 4})
		}
		for _, k := range net.soupKeys {
			it := net.soup[k]
			if it.m.Src == nn {
				continue
			}
			w := 1
			switch it.m.T {
			case "proposal":
				if cs.Proposal == nil && int(cs.Round) == it.m.R {
					w = 30
				}
			case "prevote", "precommit":
				vs := cs.Votes.Prevotes(int32(it.m.R))
				if it.m.T == "precommit" {
					vs = cs.Votes.Precommits(int32(it.m.R))
				}
				if vs == nil || vs.GetByIndex(net.index[it.m.Src]) == nil {
					w = 12
				}
			}
			cands = append(cands, vcCand{vcStep{Name: "Deliver", N: nn, M: it.m}, w})
		}
		want := ""
		if cs.ProposalBlockParts != nil && cs.ProposalBlock == nil {
			want = net.nameOfPSH(cs.ProposalBlockParts.Header())
		}
		for _, name := range blocks {
			w := 1
			if name == want {
				w = 30
			}
			cands = append(cands, vcCand{vcStep{Name: "Deliver", N: nn, M: vcMsg{T: "block", Src: "-", R: -1, V: name, Pol: -2}}, w})
		}
		// +2/3 claims (VoteSetMaj23) of the FAULTY validators, true or not, for rounds around the current one.
		// (A correct peer only claims what it has; a vote set keeps one claim per peer, so a false claim
		// attributed to a correct peer would block that peer's later true claim — not a behaviour of the system.)
		if len(blocks) > 0 {
			for k := 0; k < 2; k++ {
				src := net.names[rng.Intn(len(net.names))]
				if src == nn || !net.byz[src] {
					continue
				}
				r := int(cs.Round) - rng.Intn(2)
				if r < 0 {
					r = 0
				}
				t := []string{"claim_prevote", "claim_precommit"}[rng.Intn(2)]
				cands = append(cands, vcCand{vcStep{Name: "Deliver", N: nn, M: vcMsg{T: t, Src: src, R: r, V: blocks[rng.Intn(len(blocks))], Pol: -2}}, 2})
			}
		}
		// duplicates: something this node has been handed before
		if len(net.delivered) > 0 {
			for k := 0; k < 2; k++ {
				d := net.delivered[rng.Intn(len(net.delivered))]
				if d.N == nn {
					cands = append(cands, vcCand{d, 2})
				}
			}
		}
		for _, b := range net.names {
			if !net.byz[b] {
				continue
			}
			for k := 0; k < 3; k++ {
				r := int(cs.Round) + rng.Intn(3) - 1
				if r < 0 || r > net.maxRound || rng.Intn(5) == 0 {
					r = rng.Intn(net.maxRound + 1)
				}
				t := []string{"prevote", "precommit"}[rng.Intn(2)]
				cands = append(cands, vcCand{vcStep{Name: "Deliver", N: nn, M: vcMsg{T: t, Src: b, R: r, V: vals[rng.Intn(len(vals))], Pol: -2}}, 3})
			}
			r := int(cs.Round)
			if rng.Intn(3) == 0 {
				r = rng.Intn(net.maxRound + 1)
			}
			if r < len(net.propSeq) && net.propSeq[r] == b {
				cands = append(cands, vcCand{vcStep{Name: "Deliver", N: nn, M: vcMsg{T: "proposal", Src: b, R: r, V: blocks[rng.Intn(len(blocks))], Pol: rng.Intn(r+1) - 1}}, 6})
			}
		}
	}
	return cands
}

func (net *vcNet) enabledSteps(rng *rand.Rand) []vcStep {
	if len(net.plan) > 0 {
		st := net.plan[0]
		net.plan = net.plan[1:]
		return []vcStep{st}
	}
	// coordinated adversary: all faulty validators cast the same vote for one (type, round, value) at one
	// node, back to back — with > 1/3 (solo: > 2/3) of the power this creates polkas / +2/3-any at will,
	// also for OLDER rounds (late quorums) and for the next round (round skips)
	if len(net.byz) >= 1 && rng.Intn(6) == 0 && len(net.corr) > 0 {
		nn := net.corr[rng.Intn(len(net.corr))]
		n := net.nodes[nn]
		if n.panicked == "none" && n.cs.Height == 1 {
			blocks := []string{"nil"}
			for name := range net.blocks {
				blocks = append(blocks, name)
			}
			sort.Strings(blocks)
			cur := int(n.cs.Round)
			r := cur
			switch rng.Intn(4) {
			case 0:
				if cur > 0 {
					r = rng.Intn(cur) // an older round
				}
			case 1:
				r = cur + 1
			}
			if r <= net.maxRound {
				t := []string{"prevote", "prevote", "precommit"}[rng.Intn(3)]
				v := blocks[rng.Intn(len(blocks))]
				split := rng.Intn(4) == 0 // "+2/3 any" without a majority
				k := 0
				for _, b := range net.names {
					if !net.byz[b] {
						continue
					}
					vv := v
					if split && k%2 == 1 {
						vv = blocks[rng.Intn(len(blocks))]
					}
					k++
					net.plan = append(net.plan, vcStep{Name: "Deliver", N: nn, M: vcMsg{T: t, Src: b, R: r, V: vv, Pol: -2}})
				}
				if len(net.plan) > 0 {
					st := net.plan[0]
					net.plan = net.plan[1:]
					return []vcStep{st}
				}
			}
		}
	}
	if net.restarts > 0 && rng.Intn(net.restarts) == 0 {
		live := []string{}
		for _, nn := range net.corr {
			n := net.nodes[nn]
			if n.rt != nil && n.panicked == "none" && n.cs.Height == 1 && n.cs.blockStore.Height() < 1 {
				live = append(live, nn)
			}
		}
		if len(live) > 0 {
			return []vcStep{{Name: "Restart", N: live[rng.Intn(len(live))], M: vcMsg{T: "-", Src: "-", R: -1, V: "-", Pol: -2}, K: "-"}}
		}
	}
	cands := net.candidates(rng)
	if len(cands) == 0 {
		return nil
	}
	// a weighted draw, returned as a one-element list (callers pick uniformly from the result);
	// occasionally (1 in 8) the draw is uniform so that low-weight choices keep their share
	out := []vcStep{}
	if rng.Intn(8) == 0 {
		for _, c := range cands {
			out = append(out, c.st)
		}
		return out
	}
	total := 0
	for _, c := range cands {
		total += c.w
	}
	x := rng.Intn(total)
	for _, c := range cands {
		if x < c.w {
			return []vcStep{c.st}
		}
		x -= c.w
	}
	return []vcStep{cands[len(cands)-1].st}
}

// ---------------------------------------------------------------- entry point

func TestVerifCons(t *testing.T) {
	inPath, outDir := os.Getenv("VERIF_IN"), os.Getenv("VERIF_OUT")
	if inPath == "" || outDir == "" {
		t.Skip("VERIF_IN / VERIF_OUT not set")
	}
	seed, _ := strconv.ParseInt(os.Getenv("VERIF_SEED"), 10, 64)
	raw, err := os.ReadFile(inPath)
	if err != nil {
		t.Fatal(err)
	}
	var in vcInput
	if err := json.Unmarshal(raw, &in); err != nil {
		t.Fatal(err)
	}
	if in.Mode == "info" {
		net := vcNewNet(t, &in, 0)
		info := map[string]interface{}{"names": net.names, "powers": net.powers, "proposers": net.propSeq}
		bz, _ := json.Marshal(info)
		if err := os.WriteFile(outDir+"/info.json", bz, 0o644); err != nil {
			t.Fatal(err)
		}
		return
	}
	f, err := os.Create(outDir + "/trace.ndjson")
	if err != nil {
		t.Fatal(err)
	}
	defer f.Close()
	w := &vcWriter{f: f, enc: json.NewEncoder(f)}
	{
		old := verifStepHook
		verifStepHook = vcStepHook
		defer func() { verifStepHook = old }()
		vcClaimViaQueue = vcProbeClaimPath(t)
		_ = os.WriteFile(outDir+"/claimpath.json", []byte(fmt.Sprintf("{\"claim_via_queue\": %v}", vcClaimViaQueue)), 0o644)
	}
	skipped, executed := 0, 0
	run := 0
	var skipLog *json.Encoder
	if sf, err := os.Create(outDir + "/skipped.ndjson"); err == nil {
		defer sf.Close()
		skipLog = json.NewEncoder(sf)
	}
	for _, s := range in.Scheds {
		run++
		net := vcNewNet(t, &in, run)
		w.emit(net.resetEvent(run, map[string]interface{}{"sched": s.ID, "kind": "tlc", "routine": in.Routine, "stamp": in.Stamp, "filepv": in.FilePV}))
		for si, st := range s.Steps {
			if net.step(w, run, st) {
				executed++
				// duplication (C01 quantifies over it): the spec treats a second delivery as a no-op, so schedules
				// derived from the spec never contain one; the choice depends only on position and message, so
				// schedules that share a prefix still share it
				if in.Dups > 0 && st.Name == "Deliver" && vcHash(si, vcKey(st.M)+st.N)%uint32(in.Dups) == 0 {
					if net.step(w, run, st) {
						executed++
					}
				}
			} else {
				skipped++
				if skipLog != nil {
					_ = skipLog.Encode(map[string]interface{}{"sched": s.ID, "index": si, "step": st})
				}
			}
		}
		if in.RandTail > 0 {
			trng := rand.New(rand.NewSource(seed*1000003 + int64(s.ID)))
			for i := 0; i < in.RandTail; i++ {
				steps := net.enabledSteps(trng)
				if len(steps) == 0 {
					break
				}
				if net.step(w, run, steps[trng.Intn(len(steps))]) {
					executed++
				}
			}
		}
		if in.SyncTail {
			net.syncTail(w, run, &in)
		}
		net.close()
	}
	rng := rand.New(rand.NewSource(seed))
	for k := 0; k < in.Random; k++ {
		run++
		net := vcNewNet(t, &in, run)
		w.emit(net.resetEvent(run, map[string]interface{}{"sched": -1, "kind": "random", "routine": in.Routine, "stamp": in.Stamp, "filepv": in.FilePV}))
		for i := 0; i < in.RandLen; i++ {
			steps := net.enabledSteps(rng)
			if len(steps) == 0 {
				break
			}
			if net.step(w, run, steps[rng.Intn(len(steps))]) {
				executed++
			} else {
				skipped++
			}
		}
		if in.SyncTail {
			net.syncTail(w, run, &in)
		}
		net.close()
	}
	stats := map[string]int{"executed": executed, "skipped": skipped, "runs": run, "events": w.n}
	bz, _ := json.Marshal(stats)
	_ = os.WriteFile(outDir+"/stats.json", bz, 0o644)
	t.Logf("consensus driver: %v", stats)
}

func vcHash(i int, k string) uint32 {
	h := uint32(2166136261)
	for _, c := range []byte(strconv.Itoa(i) + "|" + k) {
		h = (h ^ uint32(c)) * 16777619
	}
	return h
}

var _ = cfg.DefaultConfig

var vcClaimViaQueue bool
