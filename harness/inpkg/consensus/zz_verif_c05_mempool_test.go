//go:build verif

package consensus

// C05 harness, part 2: BlockExecutor.Commit against concurrent CheckTx (DESIGN.md section 5,
// C05, last sentence of the property).
//
// M submitter goroutines call CheckTx on a REAL mempool (v0 CListMempool or v1 TxMempool)
// while the driver commits blocks through the REAL BlockExecutor.ApplyBlock.  The recording
// application sits behind one ABCI client per connection, each with its own mutex, so only
// the mempool lock can order consensus-connection calls against mempool-connection calls.
// The mempool connection is either the real local client (requests execute inside the call)
// or a queueing client with socket-client semantics (requests are served in order by a
// server goroutine, FlushSync waits for everything queued before it).  Every interesting
// moment is stamped with a global atomic sequence number; the stamped events, in sequence
// order, are the trace TLC judges against TMMempoolLock (spec/trace/TMMempoolLockTrace.tla).

import (
	"bufio"
	"encoding/json"
	"fmt"
	"os"
	"runtime"
	"sync"
	"sync/atomic"
	"testing"
	"time"

	dbm "github.com/tendermint/tm-db"

	abcicli "github.com/tendermint/tendermint/abci/client"
	abci "github.com/tendermint/tendermint/abci/types"
	cfg "github.com/tendermint/tendermint/config"
	"github.com/tendermint/tendermint/libs/log"
	tmsync "github.com/tendermint/tendermint/libs/sync"
	mempl "github.com/tendermint/tendermint/mempool"
	mempoolv0 "github.com/tendermint/tendermint/mempool/v0"
	mempoolv1 "github.com/tendermint/tendermint/mempool/v1"
	"github.com/tendermint/tendermint/proxy"
	sm "github.com/tendermint/tendermint/state"
	"github.com/tendermint/tendermint/types"
	tmtime "github.com/tendermint/tendermint/types/time"
)

type c05mInput struct {
	Runs []c05mRunSpec `json:"runs"`
}

type c05mRunSpec struct {
	ID     string `json:"id"`
	Ver    string `json:"ver"`    // v0 | v1
	Client string `json:"client"` // local | async
	Subs   int    `json:"subs"`
	Txs    int    `json:"txs"` // per submitter
	Blocks int    `json:"blocks"`
}

type c05mEvent struct {
	Ev     string `json:"ev"`   // Reset | Lock | FlushStart | FlushEnd | CommitReq | CommitStart | CommitEnd | CommitRes | UpdateStart | UpdateEnd | Unlock | CheckIssue | CheckStart | CheckEnd | Panic | End
	Run    string `json:"run"`
	Kind   string `json:"kind"` // new | recheck | ""
	ID     string `json:"id"`   // transaction
	N      int64  `json:"n"`    // UpdateEnd: transactions left in the mempool (= recheck requests of this update)
	H      int64  `json:"h"`
	Ver    string `json:"ver"`
	Client string `json:"client"`
	Seq    int64  `json:"seq"`
	Msg    string `json:"msg"`
}

// c05mLog: lock-free stamped log.
type c05mLog struct {
	seq    int64
	issued int64 // new-transaction checks issued so far (paces the committer)
	buf    []c05mEvent
}

func (l *c05mLog) stamp(e c05mEvent) {
	if e.Ev == "CheckIssue" && e.Kind == "new" {
		atomic.AddInt64(&l.issued, 1)
	}
	n := atomic.AddInt64(&l.seq, 1)
	if int(n) <= len(l.buf) {
		e.Seq = n
		l.buf[n-1] = e
	}
}

// ------------------------------------------------------------------------------------ application

type c05mApp struct {
	abci.BaseApplication
	log    *c05mLog
	height int64
}

func c05mKind(t abci.CheckTxType) string {
	if t == abci.CheckTxType_Recheck {
		return "recheck"
	}
	return "new"
}

func (a *c05mApp) CheckTx(req abci.RequestCheckTx) abci.ResponseCheckTx {
	k := c05mKind(req.Type)
	a.log.stamp(c05mEvent{Ev: "CheckStart", Kind: k, ID: string(req.Tx)})
	runtime.Gosched()
	a.log.stamp(c05mEvent{Ev: "CheckEnd", Kind: k, ID: string(req.Tx)})
	return abci.ResponseCheckTx{Code: abci.CodeTypeOK, GasWanted: 1}
}

func (a *c05mApp) DeliverTx(abci.RequestDeliverTx) abci.ResponseDeliverTx {
	return abci.ResponseDeliverTx{Code: abci.CodeTypeOK}
}

func (a *c05mApp) Commit() abci.ResponseCommit {
	a.log.stamp(c05mEvent{Ev: "CommitStart"})
	// the application works on its commit for a while; other goroutines get every chance
	// to run against it
	t0 := time.Now()
	for time.Since(t0) < 300*time.Microsecond {
		runtime.Gosched()
	}
	h := atomic.AddInt64(&a.height, 1)
	a.log.stamp(c05mEvent{Ev: "CommitEnd", H: h})
	return abci.ResponseCommit{Data: []byte(fmt.Sprintf("h%d", h))}
}

// ------------------------------------------------------------------------------------ clients

// c05mStampClient stamps the moment a request enters the connection.
type c05mStampClient struct {
	abcicli.Client
	log *c05mLog
}

func (c *c05mStampClient) CheckTxAsync(req abci.RequestCheckTx) *abcicli.ReqRes {
	c.log.stamp(c05mEvent{Ev: "CheckIssue", Kind: c05mKind(req.Type), ID: string(req.Tx)})
	return c.Client.CheckTxAsync(req)
}

func (c *c05mStampClient) CheckTxSync(req abci.RequestCheckTx) (*abci.ResponseCheckTx, error) {
	c.log.stamp(c05mEvent{Ev: "CheckIssue", Kind: c05mKind(req.Type), ID: string(req.Tx)})
	return c.Client.CheckTxSync(req)
}

func (c *c05mStampClient) CommitSync() (*abci.ResponseCommit, error) {
	c.log.stamp(c05mEvent{Ev: "CommitReq"})
	res, err := c.Client.CommitSync()
	c.log.stamp(c05mEvent{Ev: "CommitRes"})
	return res, err
}

// c05mAsyncClient: a queueing client with the semantics of the socket client for the calls
// the mempools make (CheckTxAsync / CheckTxSync / FlushAsync / FlushSync); everything else
// is inherited from a local client.
type c05mAsyncClient struct {
	abcicli.Client
	app   abci.Application
	queue chan *abcicli.ReqRes
	mtx   sync.Mutex
	cb    abcicli.Callback
	quit  chan struct{}
}

func c05mNewAsyncClient(app abci.Application) *c05mAsyncClient {
	c := &c05mAsyncClient{
		Client: abcicli.NewLocalClient(new(tmsync.Mutex), app),
		app:    app,
		queue:  make(chan *abcicli.ReqRes, 4096),
		quit:   make(chan struct{}),
	}
	go c.serve()
	return c
}

func (c *c05mAsyncClient) serve() {
	for {
		select {
		case <-c.quit:
			return
		case rr := <-c.queue:
			var res *abci.Response
			switch r := rr.Request.Value.(type) {
			case *abci.Request_Flush:
				res = abci.ToResponseFlush()
			case *abci.Request_CheckTx:
				// a little latency on the wire lets the queue build up
				for i := 0; i < 20; i++ {
					runtime.Gosched()
				}
				res = abci.ToResponseCheckTx(c.app.CheckTx(*r.CheckTx))
			}
			// socketClient.didRecvResponse
			rr.Response = res
			rr.Done()
			c.mtx.Lock()
			cb := c.cb
			c.mtx.Unlock()
			if cb != nil {
				cb(rr.Request, res)
			}
			rr.InvokeCallback()
		}
	}
}

func (c *c05mAsyncClient) stopServing() { close(c.quit) }

func (c *c05mAsyncClient) SetResponseCallback(cb abcicli.Callback) {
	c.mtx.Lock()
	c.cb = cb
	c.mtx.Unlock()
}
func (c *c05mAsyncClient) Error() error { return nil }
func (c *c05mAsyncClient) send(req *abci.Request) *abcicli.ReqRes {
	rr := abcicli.NewReqRes(req)
	c.queue <- rr
	return rr
}
func (c *c05mAsyncClient) CheckTxAsync(req abci.RequestCheckTx) *abcicli.ReqRes {
	return c.send(abci.ToRequestCheckTx(req))
}
func (c *c05mAsyncClient) CheckTxSync(req abci.RequestCheckTx) (*abci.ResponseCheckTx, error) {
	rr := c.send(abci.ToRequestCheckTx(req))
	rr.Wait()
	return rr.Response.GetCheckTx(), nil
}
func (c *c05mAsyncClient) FlushAsync() *abcicli.ReqRes { return c.send(abci.ToRequestFlush()) }
func (c *c05mAsyncClient) FlushSync() error {
	c.send(abci.ToRequestFlush()).Wait()
	return nil
}

// ------------------------------------------------------------------------------------ mempool wrapper (committer side)

type c05mMempool struct {
	mempl.Mempool
	log *c05mLog
}

func (m *c05mMempool) Lock() {
	m.Mempool.Lock()
	m.log.stamp(c05mEvent{Ev: "Lock"})
}
func (m *c05mMempool) Unlock() {
	m.log.stamp(c05mEvent{Ev: "Unlock"})
	m.Mempool.Unlock()
}
func (m *c05mMempool) FlushAppConn() error {
	m.log.stamp(c05mEvent{Ev: "FlushStart"})
	err := m.Mempool.FlushAppConn()
	m.log.stamp(c05mEvent{Ev: "FlushEnd"})
	return err
}
func (m *c05mMempool) Update(h int64, txs types.Txs, res []*abci.ResponseDeliverTx,
	pre mempl.PreCheckFunc, post mempl.PostCheckFunc) error {
	m.log.stamp(c05mEvent{Ev: "UpdateStart", H: h})
	err := m.Mempool.Update(h, txs, res, pre, post)
	m.log.stamp(c05mEvent{Ev: "UpdateEnd", H: h, N: int64(m.Mempool.Size())})
	return err
}

// ------------------------------------------------------------------------------------ one run

func c05mRun(spec c05mRunSpec) []c05mEvent {
	lg := &c05mLog{buf: make([]c05mEvent, 1<<16)}
	app := &c05mApp{log: lg}
	logger := log.NewNopLogger()

	privVal := types.NewMockPV()
	pubKey, _ := privVal.GetPubKey()
	genDoc := &types.GenesisDoc{
		GenesisTime:     time.Date(2020, 1, 1, 0, 0, 0, 0, time.UTC),
		ChainID:         "c05-mempool",
		InitialHeight:   1,
		ConsensusParams: types.DefaultConsensusParams(),
		Validators:      []types.GenesisValidator{{Address: pubKey.Address(), PubKey: pubKey, Power: 10}},
	}
	state, err := sm.MakeGenesisState(genDoc)
	if err != nil {
		panic(err)
	}
	stateStore := sm.NewStore(dbm.NewMemDB(), sm.StoreOptions{})
	if err := stateStore.Save(state); err != nil {
		panic(err)
	}

	// one client per connection, one mutex per client
	consCli := &c05mStampClient{Client: abcicli.NewLocalClient(new(tmsync.Mutex), app), log: lg}
	var inner abcicli.Client
	var async *c05mAsyncClient
	if spec.Client == "async" {
		async = c05mNewAsyncClient(app)
		inner = async
	} else {
		inner = abcicli.NewLocalClient(new(tmsync.Mutex), app)
	}
	memCli := &c05mStampClient{Client: inner, log: lg}
	consCli.SetResponseCallback(func(*abci.Request, *abci.Response) {})

	mcfg := cfg.TestMempoolConfig()
	mcfg.Recheck = true
	var mem mempl.Mempool
	if spec.Ver == "v1" {
		mem = mempoolv1.NewTxMempool(logger, mcfg, proxy.NewAppConnMempool(memCli), 0)
	} else {
		mem = mempoolv0.NewCListMempool(mcfg, proxy.NewAppConnMempool(memCli), 0)
	}
	wmem := &c05mMempool{Mempool: mem, log: lg}
	blockExec := sm.NewBlockExecutor(stateStore, logger, proxy.NewAppConnConsensus(consCli), wmem, sm.EmptyEvidencePool{})

	lg.stamp(c05mEvent{Ev: "Reset"})

	// submitters
	var wg sync.WaitGroup
	var stop int32
	for s := 0; s < spec.Subs; s++ {
		wg.Add(1)
		go func(s int) {
			defer wg.Done()
			defer func() {
				if r := recover(); r != nil {
					lg.stamp(c05mEvent{Ev: "Panic", Msg: c05ErrClass(fmt.Sprint(r))})
				}
			}()
			for i := 0; i < spec.Txs && atomic.LoadInt32(&stop) == 0; i++ {
				tx := types.Tx(fmt.Sprintf("s%d-%d=x", s, i))
				_ = mem.CheckTx(tx, nil, mempl.TxInfo{SenderID: uint16(s + 1)})
				runtime.Gosched()
			}
		}(s)
	}

	// committer: the driver, through the real BlockExecutor.ApplyBlock
	func() {
		defer func() {
			if r := recover(); r != nil {
				lg.stamp(c05mEvent{Ev: "Panic", Msg: c05ErrClass(fmt.Sprint(r))})
			}
		}()
		lastCommit := types.NewCommit(0, 0, types.BlockID{}, nil)
		for h := int64(1); h <= int64(spec.Blocks); h++ {
			// let the submitters get their share of the run in before this block
			quota := h * int64(spec.Subs*spec.Txs) / int64(spec.Blocks+1)
			for t0 := time.Now(); atomic.LoadInt64(&lg.issued) < quota && time.Since(t0) < 100*time.Millisecond; {
				runtime.Gosched()
			}
			txs := mem.ReapMaxTxs(1)
			block, parts := state.MakeBlock(h, txs, lastCommit, nil, state.Validators.GetProposer().Address)
			blockID := types.BlockID{Hash: block.Hash(), PartSetHeader: parts.Header()}
			newState, _, err := blockExec.ApplyBlock(state, blockID, block)
			if err != nil {
				lg.stamp(c05mEvent{Ev: "Panic", Msg: c05ErrClass(err.Error())})
				return
			}
			vote, err := types.MakeVote(h, blockID, state.Validators, privVal, genDoc.ChainID, tmtime.Now())
			if err != nil {
				panic(err)
			}
			lastCommit = types.NewCommit(h, 0, blockID, []types.CommitSig{vote.CommitSig()})
			state = newState
		}
	}()
	atomic.StoreInt32(&stop, 1)
	wg.Wait()
	// let the v1 recheck goroutines and the queue drain before the log is cut
	time.Sleep(5 * time.Millisecond)
	lg.stamp(c05mEvent{Ev: "End"})
	if async != nil {
		async.stopServing()
	}
	n := atomic.LoadInt64(&lg.seq)
	if int(n) > len(lg.buf) {
		n = int64(len(lg.buf))
	}
	out := make([]c05mEvent, 0, n)
	for _, e := range lg.buf[:n] {
		if e.Seq == 0 { // stamped but not yet written when the log was cut
			continue
		}
		e.Run, e.Ver, e.Client = spec.ID, spec.Ver, spec.Client
		out = append(out, e)
	}
	return out
}

func TestVerifC05Mempool(t *testing.T) {
	inPath, outPath := os.Getenv("VERIF_IN"), os.Getenv("VERIF_OUT")
	if inPath == "" || outPath == "" {
		t.Skip("VERIF_IN / VERIF_OUT not set")
	}
	raw, err := os.ReadFile(inPath)
	if err != nil {
		t.Fatal(err)
	}
	var inp c05mInput
	if err := json.Unmarshal(raw, &inp); err != nil {
		t.Fatal(err)
	}
	f, err := os.Create(outPath)
	if err != nil {
		t.Fatal(err)
	}
	defer f.Close()
	bw := bufio.NewWriterSize(f, 1<<20)
	defer bw.Flush()
	enc := json.NewEncoder(bw)
	for _, rs := range inp.Runs {
		for _, e := range c05mRun(rs) {
			if err := enc.Encode(e); err != nil {
				t.Fatal(err)
			}
		}
	}
}
