//go:build verif && c15

// C15 harness: an assembly file (even an empty one) lets the package declare functions without
// a body, which zz_verif_c15_test.go needs for its go:linkname references to the unexported
// autofile.(*Group).checkHeadSizeLimit / checkTotalSizeLimit.
