//go:build verif

package consensus

// C17 harness, hostile half, consensus reactor (spec/TMReactorAlphabet.tla ConsKinds/ConsFC/ConsPS).
// The node is a real consensus.State + Reactor on a real switch (validator 0 of 4; the
// harness holds the other three keys).  Node-state classes: "h1" node at height 1 in round 0
// with its own proposal and prevote out, waiting for prevotes; "h2" node has committed
// block 1 and waits at height 2; "sync" reactor in WaitSync mode.

import (
	"fmt"
	"math"
	"os"
	"testing"
	"time"

	"github.com/gogo/protobuf/proto"

	cfg "github.com/tendermint/tendermint/config"
	"github.com/tendermint/tendermint/p2p"
	tmcons "github.com/tendermint/tendermint/proto/tendermint/consensus"
	tmcrypto "github.com/tendermint/tendermint/proto/tendermint/crypto"
	tmbits "github.com/tendermint/tendermint/proto/tendermint/libs/bits"
	tmproto "github.com/tendermint/tendermint/proto/tendermint/types"
	"github.com/tendermint/tendermint/types"
)

type c17ConsHooks struct {
	css      map[string][]*State
	cleanups []cleanupFunc
}

func (h *c17ConsHooks) envOf(ps string) string {
	switch ps {
	case "nrs_h2", "behind":
		return "h2"
	case "syncing":
		return "sync"
	}
	return "h1"
}

func (h *c17ConsHooks) newEnv(name string) *c17Env {
	css, cleanup := randConsensusNet(4, "c17_"+name, newMockTickerFunc(false), newCounter, func(c *cfg.Config) {
		c.Consensus.PeerGossipSleepDuration = 2 * time.Millisecond
		c.Consensus.PeerQueryMaj23SleepDuration = 5 * time.Millisecond
	})
	h.cleanups = append(h.cleanups, cleanup)
	h.css[name] = css
	cs := css[0]
	conR := NewReactor(cs, true)
	conR.SetEventBus(cs.eventBus)
	if cs.state.LastBlockHeight == 0 {
		if err := cs.blockExec.Store().Save(cs.state); err != nil {
			panic(err)
		}
	}
	env := c17NewEnv(name, map[string]p2p.Reactor{"CONSENSUS": conR}, []string{"CONSENSUS"})
	cs.SetLogger(env.nlog)
	conR.SetLogger(env.nlog)
	if name == "sync" {
		return env
	}
	conR.SwitchToConsensus(cs.GetState(), false)
	// wait for the node's own proposal (validator 0 proposes height 1 round 0)
	if !env.waitFor(func() bool {
		rs := cs.GetRoundState()
		return rs.Proposal != nil && rs.ProposalBlockParts != nil && rs.ProposalBlockParts.IsComplete() &&
			rs.Votes.Prevotes(0).BitArray().GetIndex(0)
	}, 10*time.Second) {
		panic("c17: node did not propose at height 1")
	}
	if name == "h2" {
		rs := cs.GetRoundState()
		vss := make([]*validatorStub, 4)
		for i := range vss {
			vss[i] = newValidatorStub(css[i].privValidator, int32(i))
			vss[i].Height = 1
		}
		hash, psh := rs.ProposalBlock.Hash(), rs.ProposalBlockParts.Header()
		signAddVotes(cs, tmproto.PrevoteType, hash, psh, vss[1], vss[2], vss[3])
		signAddVotes(cs, tmproto.PrecommitType, hash, psh, vss[1], vss[2], vss[3])
		if !env.waitFor(func() bool {
			rs := cs.GetRoundState()
			return rs.Height == 2 && rs.Step >= 3
		}, 10*time.Second) {
			panic("c17: node did not reach height 2")
		}
	}
	return env
}

type c17ConsCtx struct {
	H     int64
	R     int32
	N     int
	PSH   tmproto.PartSetHeader
	BID   tmproto.BlockID
	Addr1 []byte
	HasP  bool
}

func c17Hash(b byte) []byte {
	h := make([]byte, 32)
	for i := range h {
		h[i] = b
	}
	return h
}

func (h *c17ConsHooks) ctx(env *c17Env) c17ConsCtx {
	cs := h.css[env.name][0]
	c := c17ConsCtx{H: 1, R: 0, N: 4}
	if env.name != "sync" {
		rs := cs.GetRoundState()
		c.H, c.R = rs.Height, rs.Round
		if rs.ProposalBlockParts != nil && rs.ProposalBlock != nil {
			hdr := rs.ProposalBlockParts.Header()
			c.PSH = hdr.ToProto()
			c.BID = tmproto.BlockID{Hash: rs.ProposalBlock.Hash(), PartSetHeader: c.PSH}
			c.HasP = true
		}
	}
	if !c.HasP {
		c.PSH = tmproto.PartSetHeader{Total: 1, Hash: c17Hash(3)}
		c.BID = tmproto.BlockID{Hash: c17Hash(4), PartSetHeader: c.PSH}
	}
	_, v := cs.GetState().Validators.GetByIndex(1)
	c.Addr1 = v.Address
	return c
}

func c17Wrap(m proto.Message) []byte {
	if w, ok := m.(p2p.Wrapper); ok {
		m = w.Wrap()
	}
	b, err := proto.Marshal(m)
	if err != nil {
		panic(err)
	}
	return b
}

func c17Elems(bits int) []uint64 {
	if bits <= 0 {
		return nil
	}
	return make([]uint64, (bits+63)/64)
}

func (c c17ConsCtx) nrs(height int64, round int32) *tmcons.NewRoundStep {
	lcr := int32(-1)
	if height > 1 {
		lcr = 0
	}
	return &tmcons.NewRoundStep{Height: height, Round: round, Step: 3, SecondsSinceStartTime: 1, LastCommitRound: lcr}
}

func (h *c17ConsHooks) prepare(env *c17Env, ps string) {
	c := h.ctx(env)
	switch ps {
	case "nrs", "nrs_h2":
		env.send(1, StateChannel, c17Wrap(c.nrs(c.H, c.R)))
	case "mid":
		env.send(1, StateChannel, c17Wrap(c.nrs(c.H, c.R)))
		env.send(1, StateChannel, c17Wrap(&tmcons.NewValidBlock{Height: c.H, Round: c.R, BlockPartSetHeader: c.PSH,
			BlockParts: &tmbits.BitArray{Bits: int64(c.PSH.Total), Elems: c17Elems(int(c.PSH.Total))}}))
		env.send(1, VoteChannel, c17Wrap(&tmcons.Vote{Vote: c.vote()}))
	case "behind":
		env.send(1, StateChannel, c17Wrap(c.nrs(c.H-1, 0)))
	}
}

func (c c17ConsCtx) vote() *tmproto.Vote {
	return &tmproto.Vote{Type: tmproto.PrevoteType, Height: c.H, Round: c.R, BlockID: c.BID, Timestamp: time.Unix(1600000000, 0),
		ValidatorAddress: c.Addr1, ValidatorIndex: 1, Signature: make([]byte, 64)}
}

func c17HeightFC(fc string, cur int64) (int64, bool) {
	switch fc {
	case "h_zero":
		return 0, true
	case "h_neg":
		return -1, true
	case "h_max":
		return math.MaxInt64, true
	case "h_far":
		return cur + 1000000, true
	case "h_prev":
		return cur - 1, true
	case "h_next":
		return cur + 1, true
	}
	return 0, false
}

func c17RoundFC(fc string, cur int32) (int32, bool) {
	switch fc {
	case "r_neg":
		return -1, true
	case "r_max":
		return math.MaxInt32, true
	case "r_next":
		return cur + 1, true
	}
	return 0, false
}

// the BitArray classes; n = the size a well-formed array would have
func c17BitsFC(fc string, n int) (*tmbits.BitArray, bool) {
	switch fc {
	case "bits_nil":
		return nil, true
	case "bits_zero":
		return &tmbits.BitArray{Bits: 0}, true
	case "bits_elems_missing":
		return &tmbits.BitArray{Bits: int64(n)}, true
	case "bits_elems_short":
		return &tmbits.BitArray{Bits: int64(n + 128), Elems: make([]uint64, 1)}, true
	case "bits_elems_extra":
		return &tmbits.BitArray{Bits: int64(n), Elems: make([]uint64, (n+63)/64+3)}, true
	case "bits_neg":
		return &tmbits.BitArray{Bits: -5, Elems: make([]uint64, 1)}, true
	case "bits_neg_big":
		return &tmbits.BitArray{Bits: -200, Elems: make([]uint64, 1)}, true
	case "bits_over_max":
		return &tmbits.BitArray{Bits: 10001, Elems: c17Elems(10001)}, true
	case "bits_one":
		return &tmbits.BitArray{Bits: 1, Elems: []uint64{1}}, true
	case "bits_max_allowed":
		return &tmbits.BitArray{Bits: 1601, Elems: c17Elems(1601)}, true
	}
	return nil, false
}

func (h *c17ConsHooks) build(env *c17Env, cs c17Case) (byte, []byte, bool) {
	c := h.ctx(env)
	fc := cs.FC
	switch cs.Kind {
	case "NewRoundStep":
		m := c.nrs(c.H, c.R)
		if v, ok := c17HeightFC(fc, c.H); ok {
			m.Height = v
			if v > 1 {
				m.LastCommitRound = 0
			} else {
				m.LastCommitRound = -1
			}
		} else if v, ok := c17RoundFC(fc, c.R); ok {
			m.Round = v
		} else {
			switch fc {
			case "valid":
			case "step_zero":
				m.Step = 0
			case "step_max":
				m.Step = math.MaxUint32
			case "lcr_neg2":
				m.LastCommitRound = -2
			case "lcr_max":
				m.Height, m.LastCommitRound = c.H+1, math.MaxInt32
			case "lcr_mismatch":
				if c.H == 1 {
					m.LastCommitRound = 0
				} else {
					m.LastCommitRound = -1
				}
			case "ssst_min":
				m.SecondsSinceStartTime = math.MinInt64
			case "ssst_max":
				m.SecondsSinceStartTime = math.MaxInt64
			default:
				return 0, nil, false
			}
		}
		return StateChannel, c17Wrap(m), true
	case "NewValidBlock":
		tot := int(c.PSH.Total)
		m := &tmcons.NewValidBlock{Height: c.H, Round: c.R, BlockPartSetHeader: c.PSH,
			BlockParts: &tmbits.BitArray{Bits: int64(tot), Elems: c17Elems(tot)}}
		if cs.PS == "behind" {
			// the commit announcement of a peer that is one height behind: the stored block's header
			bm := h.css[env.name][0].blockStore.LoadBlockMeta(c.H - 1)
			m.Height, m.Round, m.IsCommit = c.H-1, 0, true
			m.BlockPartSetHeader = bm.BlockID.PartSetHeader.ToProto()
			tot = int(m.BlockPartSetHeader.Total)
			m.BlockParts = &tmbits.BitArray{Bits: int64(tot), Elems: c17Elems(tot)}
		}
		if v, ok := c17HeightFC(fc, m.Height); ok {
			m.Height = v
		} else if v, ok := c17RoundFC(fc, m.Round); ok {
			m.Round = v
		} else if b, ok := c17BitsFC(fc, tot); ok {
			m.BlockParts = b
			switch fc {
			case "bits_one", "bits_max_allowed", "bits_over_max":
				m.BlockPartSetHeader.Total = uint32(b.Bits)
			case "bits_elems_short":
				m.BlockPartSetHeader.Total = uint32(b.Bits)
			}
		} else {
			switch fc {
			case "valid":
			case "valid_commit":
				m.IsCommit = true
			case "psh_total_zero":
				m.BlockPartSetHeader.Total = 0
			case "psh_total_max":
				m.BlockPartSetHeader.Total = math.MaxUint32
			case "psh_hash_short":
				m.BlockPartSetHeader.Hash = []byte{1, 2, 3}
			case "psh_foreign":
				m.BlockPartSetHeader.Hash = c17Hash(9)
			default:
				return 0, nil, false
			}
		}
		return StateChannel, c17Wrap(m), true
	case "Proposal":
		p := tmproto.Proposal{Type: tmproto.ProposalType, Height: c.H, Round: c.R, PolRound: -1,
			BlockID:   tmproto.BlockID{Hash: c17Hash(5), PartSetHeader: tmproto.PartSetHeader{Total: 1, Hash: c17Hash(6)}},
			Timestamp: time.Unix(1600000000, 0), Signature: make([]byte, 64)}
		if v, ok := c17HeightFC(fc, c.H); ok {
			p.Height = v
		} else if v, ok := c17RoundFC(fc, c.R); ok {
			p.Round = v
		} else {
			switch fc {
			case "valid":
			case "inner_zero":
				p = tmproto.Proposal{}
			case "type_wrong":
				p.Type = tmproto.PrevoteType
			case "pol_lt_m1":
				p.PolRound = -2
			case "pol_ge_round":
				p.PolRound = c.R + 1
			case "blockid_incomplete":
				p.BlockID.PartSetHeader = tmproto.PartSetHeader{}
			case "psh_total_zero":
				p.BlockID.PartSetHeader.Total = 0
			case "psh_total_max":
				p.BlockID.PartSetHeader.Total = math.MaxUint32
			case "psh_total_big":
				p.BlockID.PartSetHeader.Total = 1 << 24
			case "sig_empty":
				p.Signature = nil
			case "sig_long":
				p.Signature = make([]byte, 65)
			default:
				return 0, nil, false
			}
		}
		return DataChannel, c17Wrap(&tmcons.Proposal{Proposal: p}), true
	case "ProposalPOL":
		m := &tmcons.ProposalPOL{Height: c.H, ProposalPolRound: 0, ProposalPol: tmbits.BitArray{Bits: int64(c.N), Elems: c17Elems(c.N)}}
		if v, ok := c17HeightFC(fc, c.H); ok {
			m.Height = v
		} else if b, ok := c17BitsFC(fc, c.N); ok {
			if b == nil {
				b = &tmbits.BitArray{}
			}
			m.ProposalPol = *b
		} else {
			switch fc {
			case "valid":
			case "pol_neg":
				m.ProposalPolRound = -1
			case "pol_max":
				m.ProposalPolRound = math.MaxInt32
			default:
				return 0, nil, false
			}
		}
		return DataChannel, c17Wrap(m), true
	case "BlockPart":
		part := tmproto.Part{Index: 0, Bytes: []byte("0123456789"),
			Proof: tmcrypto.Proof{Total: 1, Index: 0, LeafHash: c17Hash(7)}}
		m := &tmcons.BlockPart{Height: c.H, Round: c.R, Part: part}
		if v, ok := c17HeightFC(fc, c.H); ok {
			m.Height = v
		} else if v, ok := c17RoundFC(fc, c.R); ok {
			m.Round = v
		} else {
			switch fc {
			case "valid":
			case "part_zero":
				m.Part = tmproto.Part{}
			case "index_max":
				m.Part.Index = math.MaxUint32
			case "bytes_empty":
				m.Part.Bytes = nil
			case "bytes_oversize":
				m.Part.Bytes = make([]byte, int(types.BlockPartSizeBytes)+1)
			case "proof_total_neg":
				m.Part.Proof.Total = -1
			case "proof_index_neg":
				m.Part.Proof.Index = -1
			case "proof_total_max":
				m.Part.Proof.Total = math.MaxInt64
			case "proof_leaf_short":
				m.Part.Proof.LeafHash = []byte{1}
			case "proof_aunts_many":
				for i := 0; i < 101; i++ {
					m.Part.Proof.Aunts = append(m.Part.Proof.Aunts, c17Hash(byte(i)))
				}
			default:
				return 0, nil, false
			}
		}
		return DataChannel, c17Wrap(m), true
	case "Vote":
		v := c.vote()
		if x, ok := c17HeightFC(fc, c.H); ok {
			v.Height = x
		} else if x, ok := c17RoundFC(fc, c.R); ok {
			v.Round = x
		} else {
			switch fc {
			case "valid":
			case "inner_nil":
				v = nil
			case "type_invalid":
				v.Type = 77
			case "index_neg":
				v.ValidatorIndex = -1
			case "index_max":
				v.ValidatorIndex = math.MaxInt32
			case "index_eq_n":
				v.ValidatorIndex = int32(c.N)
			case "addr_short":
				v.ValidatorAddress = []byte{1, 2}
			case "sig_empty":
				v.Signature = nil
			case "sig_long":
				v.Signature = make([]byte, 65)
			case "blockid_incomplete":
				v.BlockID.PartSetHeader = tmproto.PartSetHeader{}
			case "precommit":
				v.Type = tmproto.PrecommitType
			case "lastcommit":
				v.Type, v.Height = tmproto.PrecommitType, c.H-1
			default:
				return 0, nil, false
			}
		}
		return VoteChannel, c17Wrap(&tmcons.Vote{Vote: v}), true
	case "HasVote":
		m := &tmcons.HasVote{Height: c.H, Round: c.R, Type: tmproto.PrevoteType, Index: 1}
		if x, ok := c17HeightFC(fc, c.H); ok {
			m.Height = x
		} else if x, ok := c17RoundFC(fc, c.R); ok {
			m.Round = x
		} else {
			switch fc {
			case "valid":
			case "type_invalid":
				m.Type = 77
			case "index_neg":
				m.Index = -1
			case "index_max":
				m.Index = math.MaxInt32
			case "index_eq_n":
				m.Index = int32(c.N)
			default:
				return 0, nil, false
			}
		}
		return StateChannel, c17Wrap(m), true
	case "VoteSetMaj23":
		m := &tmcons.VoteSetMaj23{Height: c.H, Round: c.R, Type: tmproto.PrevoteType, BlockID: c.BID}
		if x, ok := c17HeightFC(fc, c.H); ok {
			m.Height = x
		} else if x, ok := c17RoundFC(fc, c.R); ok {
			m.Round = x
		} else {
			switch fc {
			case "valid":
			case "type_invalid":
				m.Type = 77
			case "blockid_hash_short":
				m.BlockID.Hash = []byte{1, 2, 3}
			case "blockid_zero":
				m.BlockID = tmproto.BlockID{}
			case "precommit":
				m.Type = tmproto.PrecommitType
			default:
				return 0, nil, false
			}
		}
		return StateChannel, c17Wrap(m), true
	case "VoteSetBits":
		m := &tmcons.VoteSetBits{Height: c.H, Round: c.R, Type: tmproto.PrevoteType, BlockID: c.BID,
			Votes: tmbits.BitArray{Bits: int64(c.N), Elems: []uint64{5}}}
		if x, ok := c17HeightFC(fc, c.H); ok {
			m.Height = x
		} else if x, ok := c17RoundFC(fc, c.R); ok {
			m.Round = x
		} else if b, ok := c17BitsFC(fc, c.N); ok {
			if b == nil {
				b = &tmbits.BitArray{}
			}
			m.Votes = *b
		} else {
			switch fc {
			case "valid":
			case "type_invalid":
				m.Type = 77
			case "blockid_hash_short":
				m.BlockID.Hash = []byte{1, 2, 3}
			case "precommit":
				m.Type = tmproto.PrecommitType
			default:
				return 0, nil, false
			}
		}
		return VoteSetBitsChannel, c17Wrap(m), true
	case "Empty":
		switch fc {
		case "no_sum":
			// a Message without a oneof member is zero bytes long: one explicit unknown field instead
			return StateChannel, []byte{0x78, 0x01}, true
		case "wrong_channel_vote":
			return StateChannel, c17Wrap(&tmcons.Vote{Vote: c.vote()}), true
		case "wrong_channel_nrs":
			return VoteChannel, c17Wrap(c.nrs(c.H, c.R)), true
		case "wrong_channel_proposal":
			return VoteSetBitsChannel, c17Wrap(&tmcons.HasVote{Height: c.H, Round: c.R, Type: tmproto.PrevoteType, Index: 1}), true
		}
	}
	return 0, nil, false
}

func (h *c17ConsHooks) probe(env *c17Env) string {
	cs := h.css[env.name][0]
	what := "ok"
	if !c17WithTimeout(10*time.Second, func() { _ = cs.GetRoundState() }) {
		return "consensus state mutex held"
	}
	if !c17WithTimeout(10*time.Second, func() { _ = cs.GetState() }) {
		return "consensus state mutex held"
	}
	if env.name != "sync" {
		select {
		case <-cs.done:
			what = "consensus receiveRoutine exited"
		default:
		}
		if !cs.IsRunning() {
			what = "consensus state stopped"
		}
	}
	return what
}

func TestVerifC17Reactor(t *testing.T) {
	if os.Getenv("VERIF_IN") == "" || os.Getenv("VERIF_OUT") == "" {
		t.Skip("VERIF_IN / VERIF_OUT not set")
	}
	h := &c17ConsHooks{css: map[string][]*State{}}
	c17Run(h, "consensus")
	for _, c := range h.cleanups {
		c()
	}
	fmt.Println("c17 consensus harness done")
}
