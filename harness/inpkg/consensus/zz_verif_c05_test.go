//go:build verif

package consensus

// C05 harness, part 1: the commit pipeline under crashes (see /verif/DESIGN.md section 5, C05).
//
// A single-validator node is assembled from the REAL parts — store.BlockStore and sm.Store
// over crash-injecting dbm.DB wrappers, a real BaseWAL behind a crash-injecting WAL wrapper,
// the real proxy.AppConns / local ABCI clients (one mutex per connection), a real
// CListMempool behind a logging wrapper, the real BlockExecutor, Handshaker and
// consensus.State — and driven single-threaded (handleMsg / handleTimeout called by the
// driver, receive routine never started, explicit ticker).  Every write to the two
// databases, every WAL write, every ABCI call on the consensus/query connection and every
// mempool/evidence-pool call of BlockExecutor.Commit is a numbered OP; a run may be told
// to crash just before a given op (sentinel panic recovered by the driver).  What survives
// a crash: the two memdbs, the WAL files as they are on disk at that instant, the privval
// files and the recording application (its journal and committed state live outside all
// crashed objects).  Restart goes through Handshaker.Handshake + NewState + catchupReplay
// exactly like node.NewNode / State.OnStart.
//
// The harness only records (NDJSON); TLC (spec/trace/TMCommitPipelineTrace.tla) judges.

import (
	"bufio"
	"encoding/base64"
	"encoding/json"
	"fmt"
	"io"
	"os"
	"path/filepath"
	"strconv"
	"strings"
	"sync"
	"testing"
	"time"

	dbm "github.com/tendermint/tm-db"

	abcicli "github.com/tendermint/tendermint/abci/client"
	abci "github.com/tendermint/tendermint/abci/types"
	cfg "github.com/tendermint/tendermint/config"
	cstypes "github.com/tendermint/tendermint/consensus/types"
	"github.com/tendermint/tendermint/crypto/ed25519"
	"github.com/tendermint/tendermint/libs/log"
	tmsync "github.com/tendermint/tendermint/libs/sync"
	mempl "github.com/tendermint/tendermint/mempool"
	mempoolv0 "github.com/tendermint/tendermint/mempool/v0"
	"github.com/tendermint/tendermint/privval"
	tmstate "github.com/tendermint/tendermint/proto/tendermint/state"
	tmproto "github.com/tendermint/tendermint/proto/tendermint/types"
	"github.com/tendermint/tendermint/proxy"
	sm "github.com/tendermint/tendermint/state"
	"github.com/tendermint/tendermint/store"
	"github.com/tendermint/tendermint/types"
)

// ------------------------------------------------------------------------------------ input

type c05CrashSpec struct {
	Idx   int    `json:"idx"`   // crash just before the Idx-th op of the incarnation (1-based); 0 = use Label
	Label string `json:"label"` // crash just before the Occ-th op with this label
	Occ   int    `json:"occ"`
	// Rollback: together with the node the application restarts and has lost its last
	// Rollback commits (an application that persists asynchronously)
	Rollback int64 `json:"rollback"`
	// Operator actions at the restart (every (store, state, app) triple, not only those a crash
	// of this node can leave behind): the application is AppForward empty blocks AHEAD (it went
	// on alone / the node's data is older); the block store / state store are put back from a
	// copy taken when a height RestoreBS / RestoreSS blocks lower was the last committed one
	// (with the WAL and the key's last-sign state of the older of the copies).
	AppForward int64 `json:"app_forward"`
	RestoreBS  int64 `json:"restore_bs"`
	RestoreSS  int64 `json:"restore_ss"`
}

type c05RunSpec struct {
	ID      string         `json:"id"`
	Crashes []c05CrashSpec `json:"crashes"` // one per incarnation, in order
}

type c05Input struct {
	Heights int                 `json:"heights"`  // heights committed by a crash-free run
	Plan    map[string][]string `json:"plan"`     // height -> txs submitted before that height ("VAL" = validator-set change tx)
	ParamAt int64               `json:"param_at"` // EndBlock of this height returns a consensus-param update (0 = never)
	Retain  map[string]int64    `json:"retain"`   // Commit of height -> RetainHeight
	// HashMode "txs": the application hash only changes with transactions (like kvstore's; empty
	// blocks leave it alone); anything else: it also covers the number of commits
	HashMode string `json:"hash_mode"`
	// InitialHeight of the genesis document (0 or 1: the default).  Plan, ParamAt and Retain are
	// given by BLOCK NUMBER 1, 2, ...; block number n has height InitialHeight - 1 + n.
	InitialHeight int64 `json:"initial_height"`
	// DiscardABCI: the state store runs with StoreOptions.DiscardABCIResponses
	DiscardABCI bool         `json:"discard_abci"`
	Runs        []c05RunSpec `json:"runs"`
}

// ------------------------------------------------------------------------------------ trace

type c05Hash struct {
	C int64 `json:"c"` // number of Commit calls the application has executed
	T int64 `json:"t"` // number of transactions in committed blocks
}

type c05Post struct {
	BsH     int64   `json:"bs_h"`
	BsBase  int64   `json:"bs_base"`
	SsSaved bool    `json:"ss_saved"`
	SsH     int64   `json:"ss_h"`
	SsHash  c05Hash `json:"ss_hash"`
	SsLast  int64   `json:"ss_last"` // height of lastABCIResponseKey (0 = none)
	AppH    int64   `json:"app_h"`
	AppHash c05Hash `json:"app_hash"`
	WalEnd  int64   `json:"wal_end"` // highest #ENDHEIGHT written through the node's WAL
	// the rest of the saved sm.State, in the spec's terms (0 while no state is saved)
	SsLhvc int64 `json:"ss_lhvc"` // LastHeightValidatorsChanged
	SsLhpc int64 `json:"ss_lhpc"` // LastHeightConsensusParamsChanged
	SsPid  int64 `json:"ss_pid"`  // which parameter update is in force: the height whose EndBlock set it (0 = genesis params, -1 = neither)
	SsAppV int64 `json:"ss_appv"` // Version.Consensus.App
	SsNV   int64 `json:"ss_nv"`   // size of NextValidators
}

// the application's parameter update of height h: Block.MaxBytes = c05ParamBase + h, AppVersion = 100 + h
const c05ParamBase = 4 * 1024 * 1024

type c05Event struct {
	Ev    string   `json:"ev"`            // Reset | Op | Crash | Restart | HandshakeDone | HandshakeError | Catchup | Panic | Stuck | Done
	Run   string   `json:"run"`           // run id
	Op    string   `json:"op"`            // db | abci | wal | mp | evp | ""
	K     string   `json:"k"`             // op class, e.g. bs:part, ss:state, BeginBlock, endheight, msg:precommit, Lock
	H     int64    `json:"h"`             // height the op refers to
	I     int64    `json:"i"`             // index (tx index, part index)
	Tx    string   `json:"tx"`            // transaction name for DeliverTx
	Blk   []string `json:"blk"`           // BeginBlock: the transactions of the block with the requested hash
	Inc   int      `json:"inc"`           // incarnation (0 = first boot)
	Idx   int      `json:"idx"`           // op index within the incarnation (0 for non-op events)
	Phase string   `json:"phase"`         // boot | hs | cs
	Msg   string   `json:"msg"`           // error / panic class, "" otherwise
	Tgt   int64    `json:"tgt"`           // Done/Stuck: height that had to be committed
	Cfg   *c05Cfg  `json:"cfg,omitempty"` // Reset: the chain plan in the spec's terms
	Post  c05Post  `json:"post"`
}

// c05Cfg is TMCommitPipeline's cfg record.
type c05Cfg struct {
	MaxH    int64   `json:"maxh"`
	Txs     []int64 `json:"txs"`     // number of transactions of block h
	VU      []int64 `json:"vu"`      // heights whose EndBlock returns validator updates
	PU      []int64 `json:"pu"`      // heights whose EndBlock returns consensus-param updates
	Retain  []int64 `json:"retain"`  // RetainHeight returned by Commit(h)
	HashC   bool    `json:"hashc"`   // the application hash covers the number of commits
	IH      int64   `json:"ih"`      // genesis InitialHeight
	Discard bool    `json:"discard"` // DiscardABCIResponses
}

func c05Label(op, k string, h, i int64) string {
	return fmt.Sprintf("%s/%s/%d/%d", op, k, h, i)
}

// sentinel panic value
type c05CrashPanic struct{ idx int }

// ------------------------------------------------------------------------------------ recording application

// c05App is a persistent-kvstore-like application.  It outlives every crash of the node.
type c05App struct {
	abci.BaseApplication
	mtx sync.Mutex

	// committed
	height      int64
	txs         int64
	hist        map[int64]int64 // height -> txs committed up to and including it
	hashTxsOnly bool
	ih          int64 // genesis InitialHeight (>= 1)
	// working block
	openTxs  int64
	valUpds  []abci.ValidatorUpdate
	paramAt  int64
	retain   map[int64]int64
	lastBeg  int64
	nDeliver int64
}

func c05EncodeHash(h c05Hash) []byte {
	if h.C == 0 && h.T == 0 {
		return nil
	}
	return []byte(fmt.Sprintf("c%d-t%d", h.C, h.T))
}

func c05DecodeHash(b []byte) c05Hash {
	if len(b) == 0 {
		return c05Hash{}
	}
	var h c05Hash
	if _, err := fmt.Sscanf(string(b), "c%d-t%d", &h.C, &h.T); err != nil {
		return c05Hash{C: -1, T: -1}
	}
	return h
}

func (a *c05App) hash() c05Hash {
	if a.hashTxsOnly {
		return c05Hash{C: 0, T: a.txs}
	}
	return c05Hash{C: a.commits(), T: a.txs}
}

// commits: number of blocks the application has committed (its height counts from InitialHeight)
func (a *c05App) commits() int64 {
	if a.height == 0 {
		return 0
	}
	return a.height - a.ih + 1
}

func (a *c05App) up() {
	if a.height == 0 {
		a.height = a.ih
	} else {
		a.height++
	}
}

// forward: the application has committed n more (empty) blocks than the node knows of.
func (a *c05App) forward(n int64) int64 {
	a.mtx.Lock()
	defer a.mtx.Unlock()
	for ; n > 0; n-- {
		a.up()
		a.hist[a.height] = a.txs
	}
	a.openTxs = 0
	a.valUpds = nil
	return a.height
}

func (a *c05App) Info(abci.RequestInfo) abci.ResponseInfo {
	a.mtx.Lock()
	defer a.mtx.Unlock()
	return abci.ResponseInfo{Data: "c05", Version: "1", AppVersion: 1,
		LastBlockHeight: a.height, LastBlockAppHash: c05EncodeHash(a.hash())}
}

func (a *c05App) InitChain(req abci.RequestInitChain) abci.ResponseInitChain {
	if req.InitialHeight > 1 && req.InitialHeight != a.ih {
		panic(fmt.Sprintf("c05 harness: InitChain with initial height %d, expected %d", req.InitialHeight, a.ih))
	}
	return abci.ResponseInitChain{}
}

func (a *c05App) BeginBlock(req abci.RequestBeginBlock) abci.ResponseBeginBlock {
	a.mtx.Lock()
	defer a.mtx.Unlock()
	// a new block discards whatever an interrupted block left behind
	a.openTxs = 0
	a.valUpds = nil
	a.lastBeg = req.Header.Height
	a.nDeliver = 0
	return abci.ResponseBeginBlock{}
}

func (a *c05App) DeliverTx(req abci.RequestDeliverTx) abci.ResponseDeliverTx {
	a.mtx.Lock()
	defer a.mtx.Unlock()
	a.openTxs++
	a.nDeliver++
	s := string(req.Tx)
	if strings.HasPrefix(s, "val:") {
		parts := strings.Split(s[4:], "!")
		if len(parts) == 2 {
			pk, err1 := base64.StdEncoding.DecodeString(parts[0])
			pw, err2 := strconv.ParseInt(parts[1], 10, 64)
			if err1 == nil && err2 == nil {
				a.valUpds = append(a.valUpds, abci.UpdateValidator(pk, pw, ""))
			}
		}
	}
	return abci.ResponseDeliverTx{Code: abci.CodeTypeOK}
}

func (a *c05App) EndBlock(req abci.RequestEndBlock) abci.ResponseEndBlock {
	a.mtx.Lock()
	defer a.mtx.Unlock()
	res := abci.ResponseEndBlock{ValidatorUpdates: a.valUpds}
	if a.paramAt != 0 && req.Height == a.paramAt {
		res.ConsensusParamUpdates = &abci.ConsensusParams{
			Block:   &abci.BlockParams{MaxBytes: c05ParamBase + req.Height, MaxGas: -1},
			Version: &tmproto.VersionParams{AppVersion: uint64(100 + req.Height)},
		}
	}
	return res
}

func (a *c05App) Commit() abci.ResponseCommit {
	a.mtx.Lock()
	defer a.mtx.Unlock()
	a.up()
	a.txs += a.openTxs
	a.hist[a.height] = a.txs
	a.openTxs = 0
	a.valUpds = nil
	return abci.ResponseCommit{Data: c05EncodeHash(a.hash()), RetainHeight: a.retain[a.height]}
}

// rollback: the application process restarted and lost its last n commits.
func (a *c05App) rollback(n int64) int64 {
	a.mtx.Lock()
	defer a.mtx.Unlock()
	for ; n > 0 && a.height > 0; n-- {
		if a.height == a.ih {
			a.height = 0
		} else {
			a.height--
		}
	}
	a.txs = a.hist[a.height]
	a.openTxs = 0
	a.valUpds = nil
	return a.height
}

func (a *c05App) CheckTx(abci.RequestCheckTx) abci.ResponseCheckTx {
	return abci.ResponseCheckTx{Code: abci.CodeTypeOK, GasWanted: 1}
}

// ------------------------------------------------------------------------------------ world and incarnation

// c05World is everything that survives a crash, plus the run's log.
type c05World struct {
	id        string
	blockDisk *dbm.MemDB
	stateDisk *dbm.MemDB
	app       *c05App
	config    *cfg.Config
	genDoc    *types.GenesisDoc
	walSeq    int
	walFile   string
	walEnd    int64
	plan      map[int64][]types.Tx
	txName    map[string]string
	blocks    map[string][]string // block hash -> tx names (proposal blocks seen by the driver)
	events    []c05Event
	heights   int64
	snapOn    bool
	discard   bool
	genParams tmproto.ConsensusParams
	snaps     map[int64]*c05Snap
}

// c05Snap is a copy of the node's data directory taken when height h was the last committed one.
type c05Snap struct {
	block, state *dbm.MemDB
	walDir       string
	pvState      []byte
	walEnd       int64
}

func c05CopyDB(src *dbm.MemDB) *dbm.MemDB {
	dst := dbm.NewMemDB()
	it, err := src.Iterator(nil, nil)
	if err != nil {
		panic(err)
	}
	defer it.Close()
	for ; it.Valid(); it.Next() {
		k, v := append([]byte{}, it.Key()...), append([]byte{}, it.Value()...)
		if err := dst.Set(k, v); err != nil {
			panic(err)
		}
	}
	return dst
}

func c05CopyDir(src, dst string) {
	if err := os.MkdirAll(dst, 0o700); err != nil {
		panic(err)
	}
	ents, _ := os.ReadDir(src)
	for _, e := range ents {
		bz, err := os.ReadFile(filepath.Join(src, e.Name()))
		if err != nil {
			panic(err)
		}
		if err := os.WriteFile(filepath.Join(dst, e.Name()), bz, 0o600); err != nil {
			panic(err)
		}
	}
}

// snapshot copies the data directory as it is now (last committed height h).
func (w *c05World) snapshot(h int64) {
	if !w.snapOn || h < 1 || w.snaps[h] != nil {
		return
	}
	dir := filepath.Join(w.config.RootDir, "data", fmt.Sprintf("snap%d", h))
	c05CopyDir(filepath.Dir(w.walFile), dir)
	pv, _ := os.ReadFile(w.config.PrivValidatorStateFile())
	w.snaps[h] = &c05Snap{block: c05CopyDB(w.blockDisk), state: c05CopyDB(w.stateDisk), walDir: dir, pvState: pv, walEnd: w.walEnd}
}

// operator applies the operator actions of a crash spec before the restart.
func (w *c05World) operator(c c05CrashSpec, inc int) {
	p := w.post()
	kb, ks := p.BsH-c.RestoreBS, p.SsH-c.RestoreSS
	if (c.RestoreBS > 0 && w.snaps[kb] == nil) || (c.RestoreSS > 0 && w.snaps[ks] == nil) {
		w.log(c05Event{Ev: "OperatorSkipped", Inc: inc, Msg: "no copy of the data directory at that height"})
		return
	}
	if c.RestoreBS > 0 {
		w.blockDisk = c05CopyDB(w.snaps[kb].block)
		w.log(c05Event{Ev: "Restore", K: "bs", Inc: inc, H: kb})
	}
	if c.RestoreSS > 0 {
		w.stateDisk = c05CopyDB(w.snaps[ks].state)
		w.log(c05Event{Ev: "Restore", K: "ss", Inc: inc, H: ks})
	}
	if c.RestoreBS > 0 || c.RestoreSS > 0 {
		k := kb
		if c.RestoreBS == 0 || (c.RestoreSS > 0 && ks < kb) {
			k = ks
		}
		sn := w.snaps[k]
		w.walSeq++
		dst := filepath.Join(w.config.RootDir, "data", fmt.Sprintf("wal%d", w.walSeq))
		c05CopyDir(sn.walDir, dst)
		w.walFile = filepath.Join(dst, "wal")
		w.walEnd = sn.walEnd
		if err := os.WriteFile(w.config.PrivValidatorStateFile(), sn.pvState, 0o600); err != nil {
			panic(err)
		}
		w.log(c05Event{Ev: "Restore", K: "wp", Inc: inc, H: k})
	}
	if c.Rollback > 0 {
		w.log(c05Event{Ev: "Rollback", Inc: inc, H: w.app.rollback(c.Rollback), I: c.Rollback})
	} else if c.AppForward > 0 {
		w.log(c05Event{Ev: "Rollback", Inc: inc, H: w.app.forward(c.AppForward), I: -c.AppForward})
	}
}

// c05Inc is one incarnation (process lifetime) of the node.
type c05Inc struct {
	w     *c05World
	id    int
	mtx   sync.Mutex
	dead  bool
	ops   int
	phase string
	crash *c05CrashSpec
	seen  map[string]int
	curH  int64 // height of the block being executed (last BeginBlock)
	subm  map[int64]bool
}

func (w *c05World) post() c05Post {
	p := c05Post{WalEnd: w.walEnd}
	bss := store.LoadBlockStoreState(w.blockDisk)
	p.BsH, p.BsBase = bss.Height, bss.Base
	st, err := sm.NewStore(w.stateDisk, sm.StoreOptions{}).Load()
	if err == nil && !st.IsEmpty() {
		p.SsSaved = true
		p.SsH = st.LastBlockHeight
		p.SsHash = c05DecodeHash(st.AppHash)
		p.SsLhvc, p.SsLhpc = st.LastHeightValidatorsChanged, st.LastHeightConsensusParamsChanged
		p.SsAppV = int64(st.Version.Consensus.App)
		if st.NextValidators != nil {
			p.SsNV = int64(st.NextValidators.Size())
		}
		switch mb := st.ConsensusParams.Block.MaxBytes; {
		case st.ConsensusParams.Equal(&w.genParams):
			p.SsPid = 0
		case mb > c05ParamBase && mb < c05ParamBase+1000000:
			p.SsPid = mb - c05ParamBase
		default:
			p.SsPid = -1
		}
	}
	if bz, _ := w.stateDisk.Get([]byte("lastABCIResponseKey")); len(bz) > 0 {
		info := new(tmstate.ABCIResponsesInfo)
		if info.Unmarshal(bz) == nil {
			p.SsLast = info.Height
		}
	}
	w.app.mtx.Lock()
	p.AppH = w.app.height
	p.AppHash = w.app.hash()
	w.app.mtx.Unlock()
	return p
}

func (w *c05World) log(e c05Event) {
	e.Run = w.id
	if e.Blk == nil {
		e.Blk = []string{}
	}
	e.Post = w.post()
	w.events = append(w.events, e)
}

// before is called immediately before an op is executed.  It returns false when the
// incarnation is already dead (the caller must then have no effect on the surviving
// world); it panics with the sentinel when the crash is scheduled here.
func (in *c05Inc) before(op, k string, h, i int64) bool {
	in.mtx.Lock()
	defer in.mtx.Unlock()
	if in.dead {
		return false
	}
	in.ops++
	hit := false
	if c := in.crash; c != nil && c.Idx == 0 && c05LabelMatch(c.Label, op, k, h, i) {
		in.seen[c.Label]++
		hit = in.seen[c.Label] == maxInt(c.Occ, 1)
	}
	if c := in.crash; c != nil {
		if (c.Idx > 0 && c.Idx == in.ops) || hit {
			in.dead = true
			in.w.log(c05Event{Ev: "Crash", Op: op, K: k, H: h, I: i, Inc: in.id, Idx: in.ops, Phase: in.phase})
			panic(c05CrashPanic{in.ops})
		}
	}
	return true
}

// c05LabelMatch: pattern "op/k/h/i"; k may end in '*' (prefix match), i may be '*'.
func c05LabelMatch(pat, op, k string, h, i int64) bool {
	p := strings.Split(pat, "/")
	if len(p) != 4 || p[0] != op || p[2] != strconv.FormatInt(h, 10) {
		return false
	}
	if strings.HasSuffix(p[1], "*") {
		if !strings.HasPrefix(k, strings.TrimSuffix(p[1], "*")) {
			return false
		}
	} else if p[1] != k {
		return false
	}
	return p[3] == "*" || p[3] == strconv.FormatInt(i, 10)
}

func maxInt(a, b int) int {
	if a > b {
		return a
	}
	return b
}

// after logs the executed op with the projected durable state.
func (in *c05Inc) after(op, k string, h, i int64, tx string, blk []string) {
	in.mtx.Lock()
	defer in.mtx.Unlock()
	if in.dead {
		return
	}
	in.w.log(c05Event{Ev: "Op", Op: op, K: k, H: h, I: i, Tx: tx, Blk: blk, Inc: in.id, Idx: in.ops, Phase: in.phase})
}

func (in *c05Inc) isDead() bool {
	in.mtx.Lock()
	defer in.mtx.Unlock()
	return in.dead
}

// ------------------------------------------------------------------------------------ crash-injecting DB

type c05DB struct {
	dbm.DB // the surviving memdb (reads pass through)
	in     *c05Inc
	which  string // "bs" | "ss"
}

func c05AtoiPrefix(s string) int64 {
	n := 0
	for n < len(s) && s[n] >= '0' && s[n] <= '9' {
		n++
	}
	v, _ := strconv.ParseInt(s[:n], 10, 64)
	return v
}

// classify maps a key (and value) to (class, height, index).
func (d *c05DB) classify(key, value []byte) (string, int64, int64) {
	k := string(key)
	if d.which == "bs" {
		switch {
		case strings.HasPrefix(k, "P:"):
			parts := strings.Split(k, ":")
			return "bs:part", c05AtoiPrefix(parts[1]), c05AtoiPrefix(parts[2])
		case strings.HasPrefix(k, "H:"):
			return "bs:meta", c05AtoiPrefix(k[2:]), 0
		case strings.HasPrefix(k, "BH:"):
			return "bs:hash", c05AtoiPrefix(string(value)), 0
		case strings.HasPrefix(k, "C:"):
			return "bs:commit", c05AtoiPrefix(k[2:]) + 1, 0
		case strings.HasPrefix(k, "SC:"):
			return "bs:seen", c05AtoiPrefix(k[3:]), 0
		case k == "blockStore":
			bss := store.LoadBlockStoreState(c05OneKeyDB{value})
			return "bs:state", bss.Height, bss.Base
		}
		return "bs:other", 0, 0
	}
	switch {
	case strings.HasPrefix(k, "validatorsKey:"):
		return "ss:vals", c05AtoiPrefix(k[len("validatorsKey:"):]), 0
	case strings.HasPrefix(k, "consensusParamsKey:"):
		return "ss:params", c05AtoiPrefix(k[len("consensusParamsKey:"):]), 0
	case strings.HasPrefix(k, "abciResponsesKey:"):
		return "ss:abci", c05AtoiPrefix(k[len("abciResponsesKey:"):]), 0
	case k == "lastABCIResponseKey":
		info := new(tmstate.ABCIResponsesInfo)
		if info.Unmarshal(value) == nil {
			return "ss:lastabci", info.Height, 0
		}
		return "ss:lastabci", -1, 0
	case k == "stateKey":
		sp := new(tmstate.State)
		if sp.Unmarshal(value) == nil {
			return "ss:state", sp.LastBlockHeight, 0
		}
		return "ss:state", -1, 0
	}
	return "ss:other", 0, 0
}

// c05OneKeyDB lets store.LoadBlockStoreState decode a value that is not in a DB yet.
type c05OneKeyDB struct{ v []byte }

func (o c05OneKeyDB) Get([]byte) ([]byte, error)                        { return o.v, nil }
func (o c05OneKeyDB) Has([]byte) (bool, error)                          { return true, nil }
func (o c05OneKeyDB) Set([]byte, []byte) error                          { return nil }
func (o c05OneKeyDB) SetSync([]byte, []byte) error                      { return nil }
func (o c05OneKeyDB) Delete([]byte) error                               { return nil }
func (o c05OneKeyDB) DeleteSync([]byte) error                           { return nil }
func (o c05OneKeyDB) Iterator(_, _ []byte) (dbm.Iterator, error)        { return nil, nil }
func (o c05OneKeyDB) ReverseIterator(_, _ []byte) (dbm.Iterator, error) { return nil, nil }
func (o c05OneKeyDB) Close() error                                      { return nil }
func (o c05OneKeyDB) NewBatch() dbm.Batch                               { return nil }
func (o c05OneKeyDB) Print() error                                      { return nil }
func (o c05OneKeyDB) Stats() map[string]string                          { return nil }

func (d *c05DB) write(key, value []byte, del bool, f func() error) error {
	cls, h, i := d.classify(key, value)
	if del {
		cls += ":del"
	}
	if !d.in.before("db", cls, h, i) {
		return nil
	}
	err := f()
	d.in.after("db", cls, h, i, "", nil)
	return err
}

func (d *c05DB) Set(k, v []byte) error {
	return d.write(k, v, false, func() error { return d.DB.Set(k, v) })
}
func (d *c05DB) SetSync(k, v []byte) error {
	return d.write(k, v, false, func() error { return d.DB.SetSync(k, v) })
}
func (d *c05DB) Delete(k []byte) error {
	return d.write(k, nil, true, func() error { return d.DB.Delete(k) })
}
func (d *c05DB) DeleteSync(k []byte) error {
	return d.write(k, nil, true, func() error { return d.DB.DeleteSync(k) })
}
func (d *c05DB) Close() error { return nil } // the disk outlives the process
func (d *c05DB) NewBatch() dbm.Batch {
	return &c05Batch{Batch: d.DB.NewBatch(), d: d}
}

type c05Batch struct {
	dbm.Batch
	d *c05DB
	n int64
}

func (b *c05Batch) Set(k, v []byte) error { b.n++; return b.Batch.Set(k, v) }
func (b *c05Batch) Delete(k []byte) error { b.n++; return b.Batch.Delete(k) }
func (b *c05Batch) flush(f func() error) error {
	cls := b.d.which + ":batch"
	if !b.d.in.before("db", cls, 0, 0) {
		return nil
	}
	err := f()
	b.d.in.after("db", cls, 0, 0, "", nil)
	return err
}
func (b *c05Batch) Write() error     { return b.flush(b.Batch.Write) }
func (b *c05Batch) WriteSync() error { return b.flush(b.Batch.WriteSync) }

// ------------------------------------------------------------------------------------ crash-injecting WAL

type c05WAL struct {
	next WAL
	in   *c05Inc
}

func c05WalClass(m WALMessage) (string, int64) {
	switch m := m.(type) {
	case EndHeightMessage:
		return "endheight", m.Height
	case msgInfo:
		switch mm := m.Msg.(type) {
		case *ProposalMessage:
			return "msg:proposal", mm.Proposal.Height
		case *BlockPartMessage:
			return "msg:part", mm.Height
		case *VoteMessage:
			if mm.Vote.Type == 2 { // tmproto.PrecommitType
				return "msg:precommit", mm.Vote.Height
			}
			return "msg:prevote", mm.Vote.Height
		}
		return "msg:other", 0
	case timeoutInfo:
		return "msg:timeout", m.Height
	case types.EventDataRoundState:
		return "msg:roundstate", m.Height
	}
	return "msg:other", 0
}

func (w *c05WAL) write(m WALMessage, f func(WALMessage) error) error {
	k, h := c05WalClass(m)
	if !w.in.before("wal", k, h, 0) {
		return nil
	}
	err := f(m)
	if k == "endheight" && err == nil && h > w.in.w.walEnd {
		w.in.w.walEnd = h
	}
	w.in.after("wal", k, h, 0, "", nil)
	return err
}
func (w *c05WAL) Write(m WALMessage) error     { return w.write(m, w.next.Write) }
func (w *c05WAL) WriteSync(m WALMessage) error { return w.write(m, w.next.WriteSync) }
func (w *c05WAL) FlushAndSync() error          { return w.next.FlushAndSync() }
func (w *c05WAL) SearchForEndHeight(h int64, o *WALSearchOptions) (rd io.ReadCloser, found bool, err error) {
	return w.next.SearchForEndHeight(h, o)
}
func (w *c05WAL) Start() error { return w.next.Start() }
func (w *c05WAL) Stop() error  { return w.next.Stop() }
func (w *c05WAL) Wait()        { w.next.Wait() }

// ------------------------------------------------------------------------------------ per-connection application facade

// c05ConnApp is what the local ABCI client of ONE connection talks to.
type c05ConnApp struct {
	abci.BaseApplication
	in   *c05Inc
	conn string
}

func (c *c05ConnApp) app() *c05App { return c.in.w.app }

func (c *c05ConnApp) Info(req abci.RequestInfo) abci.ResponseInfo {
	if !c.in.before("abci", "Info", 0, 0) {
		return abci.ResponseInfo{}
	}
	res := c.app().Info(req)
	c.in.after("abci", "Info", 0, 0, "", nil)
	return res
}

func (c *c05ConnApp) InitChain(req abci.RequestInitChain) abci.ResponseInitChain {
	if !c.in.before("abci", "InitChain", 0, 0) {
		return abci.ResponseInitChain{}
	}
	res := c.app().InitChain(req)
	c.in.after("abci", "InitChain", 0, 0, "", nil)
	return res
}

func (c *c05ConnApp) BeginBlock(req abci.RequestBeginBlock) abci.ResponseBeginBlock {
	h := req.Header.Height
	if !c.in.before("abci", "BeginBlock", h, 0) {
		return abci.ResponseBeginBlock{}
	}
	c.in.curH = h
	res := c.app().BeginBlock(req)
	c.in.after("abci", "BeginBlock", h, 0, "", c.in.w.blockTxs(req.Hash))
	return res
}

func (c *c05ConnApp) DeliverTx(req abci.RequestDeliverTx) abci.ResponseDeliverTx {
	if c.in.isDead() {
		return abci.ResponseDeliverTx{}
	}
	a := c.app()
	a.mtx.Lock()
	i := a.nDeliver
	a.mtx.Unlock()
	if !c.in.before("abci", "DeliverTx", c.in.curH, i) {
		return abci.ResponseDeliverTx{}
	}
	res := a.DeliverTx(req)
	c.in.after("abci", "DeliverTx", c.in.curH, i, c.in.w.name(req.Tx), nil)
	return res
}

func (c *c05ConnApp) EndBlock(req abci.RequestEndBlock) abci.ResponseEndBlock {
	if !c.in.before("abci", "EndBlock", req.Height, 0) {
		return abci.ResponseEndBlock{}
	}
	res := c.app().EndBlock(req)
	c.in.after("abci", "EndBlock", req.Height, 0, "", nil)
	return res
}

func (c *c05ConnApp) Commit() abci.ResponseCommit {
	if !c.in.before("abci", "Commit", c.in.curH, 0) {
		return abci.ResponseCommit{}
	}
	res := c.app().Commit()
	c.in.after("abci", "Commit", c.in.curH, 0, "", nil)
	return res
}

func (c *c05ConnApp) CheckTx(req abci.RequestCheckTx) abci.ResponseCheckTx {
	return c.app().CheckTx(req)
}

// c05Creator hands out one local client per connection, each with its own mutex, in the
// order multiAppConn.OnStart asks for them: query, snapshot, mempool, consensus.
type c05Creator struct {
	in *c05Inc
	n  int
}

func (cc *c05Creator) NewABCIClient() (abcicli.Client, error) {
	names := []string{"query", "snapshot", "mempool", "consensus"}
	name := names[cc.n%4]
	cc.n++
	return abcicli.NewLocalClient(new(tmsync.Mutex), &c05ConnApp{in: cc.in, conn: name}), nil
}

// ------------------------------------------------------------------------------------ mempool / evidence pool wrappers

type c05Mempool struct {
	mempl.Mempool
	in *c05Inc
}

func (m *c05Mempool) Lock() {
	if !m.in.before("mp", "Lock", m.in.curH, 0) {
		return
	}
	m.Mempool.Lock()
	m.in.after("mp", "Lock", m.in.curH, 0, "", nil)
}

func (m *c05Mempool) Unlock() {
	if !m.in.before("mp", "Unlock", m.in.curH, 0) {
		return
	}
	m.Mempool.Unlock()
	m.in.after("mp", "Unlock", m.in.curH, 0, "", nil)
}

func (m *c05Mempool) FlushAppConn() error {
	if !m.in.before("mp", "FlushAppConn", m.in.curH, 0) {
		return nil
	}
	err := m.Mempool.FlushAppConn()
	m.in.after("mp", "FlushAppConn", m.in.curH, 0, "", nil)
	return err
}

func (m *c05Mempool) Update(h int64, txs types.Txs, res []*abci.ResponseDeliverTx,
	pre mempl.PreCheckFunc, post mempl.PostCheckFunc) error {
	if !m.in.before("mp", "Update", h, 0) {
		return nil
	}
	err := m.Mempool.Update(h, txs, res, pre, post)
	m.in.after("mp", "Update", h, 0, "", nil)
	return err
}

type c05Evpool struct {
	sm.EmptyEvidencePool
	in *c05Inc
}

func (e *c05Evpool) Update(st sm.State, ev types.EvidenceList) {
	if !e.in.before("evp", "Update", st.LastBlockHeight, 0) {
		return
	}
	e.EmptyEvidencePool.Update(st, ev)
	e.in.after("evp", "Update", st.LastBlockHeight, 0, "", nil)
}

// ------------------------------------------------------------------------------------ explicit ticker

// c05Ticker keeps the latest scheduled timeout like the real timeoutTicker (a newer
// height/round/step replaces the pending one, an older request is ignored); the driver
// fires it when nothing else is left to do.
type c05Ticker struct {
	mtx sync.Mutex
	cur *timeoutInfo
	ch  chan timeoutInfo
}

func (t *c05Ticker) Start() error             { return nil }
func (t *c05Ticker) Stop() error              { return nil }
func (t *c05Ticker) Chan() <-chan timeoutInfo { return t.ch }
func (t *c05Ticker) SetLogger(log.Logger)     {}
func (t *c05Ticker) ScheduleTimeout(ti timeoutInfo) {
	t.mtx.Lock()
	defer t.mtx.Unlock()
	if c := t.cur; c != nil {
		if ti.Height < c.Height {
			return
		}
		if ti.Height == c.Height {
			if ti.Round < c.Round {
				return
			}
			if ti.Round == c.Round && c.Step > 0 && ti.Step <= c.Step {
				return
			}
		}
	}
	x := ti
	t.cur = &x
}
func (t *c05Ticker) pop() *timeoutInfo {
	t.mtx.Lock()
	defer t.mtx.Unlock()
	c := t.cur
	t.cur = nil
	return c
}

// ------------------------------------------------------------------------------------ world helpers

func (w *c05World) name(tx []byte) string {
	if n, ok := w.txName[string(tx)]; ok {
		return n
	}
	s := string(tx)
	if len(s) > 16 {
		s = s[:16]
	}
	return s
}

func (w *c05World) blockTxs(hash []byte) []string {
	if b := store.NewBlockStore(w.blockDisk).LoadBlockByHash(hash); b != nil {
		out := make([]string, 0, len(b.Txs))
		for _, tx := range b.Txs {
			out = append(out, w.name(tx))
		}
		return out
	}
	if names, ok := w.blocks[string(hash)]; ok {
		return names
	}
	return []string{"?unknown-block"}
}

func (w *c05World) rememberBlock(b *types.Block) {
	if b == nil {
		return
	}
	out := make([]string, 0, len(b.Txs))
	for _, tx := range b.Txs {
		out = append(out, w.name(tx))
	}
	w.blocks[string(b.Hash())] = out
}

func c05NewWorld(inp *c05Input, id string) *c05World {
	config := cfg.ResetTestRoot("c05")
	config.Consensus.SkipTimeoutCommit = false
	config.Consensus.CreateEmptyBlocks = true
	config.Consensus.CreateEmptyBlocksInterval = 0
	genDoc, err := sm.MakeGenesisDocFromFile(config.GenesisFile())
	if err != nil {
		panic(err)
	}
	w := &c05World{
		id:        id,
		blockDisk: dbm.NewMemDB(),
		stateDisk: dbm.NewMemDB(),
		app:       &c05App{paramAt: inp.ParamAt, retain: map[int64]int64{}, hist: map[int64]int64{0: 0}, hashTxsOnly: inp.HashMode == "txs"},
		snaps:     map[int64]*c05Snap{},
		config:    config,
		genDoc:    genDoc,
		plan:      map[int64][]types.Tx{},
		txName:    map[string]string{},
		blocks:    map[string][]string{},
		heights:   int64(inp.Heights),
	}
	ih := inp.InitialHeight
	if ih < 1 {
		ih = 1
	}
	off := ih - 1 // block number -> height
	w.app.ih = ih
	w.heights += off
	genDoc.InitialHeight = ih
	w.discard = inp.DiscardABCI
	if genDoc.ConsensusParams != nil {
		w.genParams = *genDoc.ConsensusParams
	} else {
		w.genParams = *types.DefaultConsensusParams()
	}
	if w.app.paramAt != 0 {
		w.app.paramAt += off
	}
	for hs, r := range inp.Retain {
		h, _ := strconv.ParseInt(hs, 10, 64)
		w.app.retain[h+off] = r + off
	}
	valKey := ed25519.GenPrivKeyFromSecret([]byte("c05-second-validator"))
	for hs, txs := range inp.Plan {
		h, _ := strconv.ParseInt(hs, 10, 64)
		h += off
		for _, t := range txs {
			var tx types.Tx
			if t == "VAL" {
				tx = types.Tx(fmt.Sprintf("val:%s!%d", base64.StdEncoding.EncodeToString(valKey.PubKey().Bytes()), 1))
			} else {
				tx = types.Tx(t)
			}
			w.txName[string(tx)] = t
			w.plan[h] = append(w.plan[h], tx)
		}
	}
	w.walFile = filepath.Join(config.RootDir, "data", "wal0", "wal")
	return w
}

// specCfg renders the chain plan as the cfg record of TMCommitPipeline.
func (w *c05World) specCfg(inp *c05Input) *c05Cfg {
	n := int64(len(inp.Plan))
	off := w.app.ih - 1
	c := &c05Cfg{MaxH: n + off, Txs: []int64{}, VU: []int64{}, PU: []int64{}, Retain: []int64{}, HashC: !w.app.hashTxsOnly, IH: w.app.ih, Discard: w.discard}
	for h := int64(1); h <= n; h++ {
		c.Txs = append(c.Txs, int64(len(w.plan[h+off])))
		r := w.app.retain[h+off]
		if r > 0 {
			r -= off
		}
		c.Retain = append(c.Retain, r)
		for _, t := range inp.Plan[strconv.FormatInt(h, 10)] {
			if t == "VAL" {
				c.VU = append(c.VU, h)
				break
			}
		}
		if inp.ParamAt == h {
			c.PU = append(c.PU, h)
		}
	}
	return c
}

// crashWAL freezes the WAL as it is on disk right now (what a process crash leaves
// behind: flushed data only) and makes the copy the WAL of the next incarnation.
func (w *c05World) crashWAL() {
	w.walSeq++
	src := filepath.Dir(w.walFile)
	dst := filepath.Join(w.config.RootDir, "data", fmt.Sprintf("wal%d", w.walSeq))
	if err := os.MkdirAll(dst, 0o700); err != nil {
		panic(err)
	}
	ents, _ := os.ReadDir(src)
	for _, e := range ents {
		bz, err := os.ReadFile(filepath.Join(src, e.Name()))
		if err != nil {
			panic(err)
		}
		if err := os.WriteFile(filepath.Join(dst, e.Name()), bz, 0o600); err != nil {
			panic(err)
		}
	}
	w.walFile = filepath.Join(dst, "wal")
}

// ------------------------------------------------------------------------------------ one incarnation

type c05Node struct {
	cs       *State
	ticker   *c05Ticker
	wal      *BaseWAL
	proxyApp proxy.AppConns
	eventBus *types.EventBus
	mem      mempl.Mempool
}

func (n *c05Node) stop() {
	if n.eventBus != nil {
		_ = n.eventBus.Stop()
	}
	if n.wal != nil {
		_ = n.wal.Stop()
		n.wal.Wait()
	}
	if n.proxyApp != nil {
		_ = n.proxyApp.Stop()
	}
}

// c05ErrClass shortens an error / panic message to a stable class string.
func c05ErrClass(s string) string {
	for _, pat := range []string{
		"wal should not contain #ENDHEIGHT", "WAL does not contain #ENDHEIGHT", "uncovered case",
		"state.AppHash does not match", "block.AppHash does not match", "> StateBlockHeight + 1", "> StoreBlockHeight",
		"StateBlockHeight", "StoreBlockHeight",
		"no last ABCI response", "expected height", "failed to reconstruct last commit", "app block height",
		"error on replay", "wrong Block.Header.AppHash", "wrong Block.Header.Height", "updateToState() expected",
		"BlockStore can only save contiguous", "cannot replay height", "data has been corrupted",
	} {
		if strings.Contains(s, pat) {
			return pat
		}
	}
	if len(s) > 80 {
		s = s[:80]
	}
	return s
}

// boot assembles a node the way node.NewNode + State.OnStart do, up to (and including)
// the WAL catch-up.  Returns false when the node cannot start (HandshakeError logged).
func (in *c05Inc) boot(n *c05Node) bool {
	w := in.w
	logger := log.NewNopLogger()
	in.phase = "boot"
	blockDB := &c05DB{DB: w.blockDisk, in: in, which: "bs"}
	stateDB := &c05DB{DB: w.stateDisk, in: in, which: "ss"}
	blockStore := store.NewBlockStore(blockDB)
	stateStore := sm.NewStore(stateDB, sm.StoreOptions{DiscardABCIResponses: w.discard})
	state, err := stateStore.LoadFromDBOrGenesisDoc(w.genDoc)
	if err != nil {
		panic(err)
	}

	n.proxyApp = proxy.NewAppConns(&c05Creator{in: in})
	n.proxyApp.SetLogger(logger)
	if err := n.proxyApp.Start(); err != nil {
		panic(err)
	}
	n.eventBus = types.NewEventBus()
	n.eventBus.SetLogger(logger)
	if err := n.eventBus.Start(); err != nil {
		panic(err)
	}

	// node.doHandshake
	in.phase = "hs"
	hs := NewHandshaker(stateStore, state, blockStore, w.genDoc)
	hs.SetLogger(logger)
	hs.SetEventBus(n.eventBus)
	if err := hs.Handshake(n.proxyApp); err != nil {
		w.log(c05Event{Ev: "HandshakeError", Inc: in.id, Phase: in.phase, Msg: c05ErrClass(err.Error())})
		return false
	}
	w.log(c05Event{Ev: "HandshakeDone", Inc: in.id, Phase: in.phase, H: int64(hs.NBlocks())})
	state, err = stateStore.Load()
	if err != nil {
		panic(err)
	}

	// mempool, block executor, consensus state (node.NewNode)
	in.phase = "cs"
	n.mem = mempoolv0.NewCListMempool(w.config.Mempool, n.proxyApp.Mempool(), state.LastBlockHeight,
		mempoolv0.WithPreCheck(sm.TxPreCheck(state)), mempoolv0.WithPostCheck(sm.TxPostCheck(state)))
	wmem := &c05Mempool{Mempool: n.mem, in: in}
	evpool := &c05Evpool{in: in}
	blockExec := sm.NewBlockExecutor(stateStore, logger, n.proxyApp.Consensus(), wmem, evpool)
	cs := NewState(w.config.Consensus, state, blockExec, blockStore, wmem, evpool)
	cs.SetLogger(logger)
	cs.SetPrivValidator(privval.LoadFilePV(w.config.PrivValidatorKeyFile(), w.config.PrivValidatorStateFile()))
	cs.SetEventBus(n.eventBus)
	n.ticker = &c05Ticker{ch: make(chan timeoutInfo)}
	cs.timeoutTicker = n.ticker
	n.cs = cs

	// State.OnStart: open the WAL, catch up
	wal, err := NewWAL(w.walFile)
	if err != nil {
		panic(err)
	}
	wal.SetLogger(logger)
	wal.SetFlushInterval(time.Hour) // only explicit flushes: what is on disk at a crash is deterministic
	if err := wal.Start(); err != nil {
		panic(err)
	}
	n.wal = wal
	cs.wal = &c05WAL{next: wal, in: in}

	in.submitPlanned(n, cs.Height)
	err = cs.catchupReplay(cs.Height)
	msg := ""
	if err != nil {
		msg = c05ErrClass(err.Error())
	}
	w.log(c05Event{Ev: "Catchup", Inc: in.id, Phase: in.phase, H: cs.Height, Msg: msg})
	cs.scheduleRound0(cs.GetRoundState())
	return true
}

// submitPlanned hands the transactions planned for height h to the (fresh) mempool.
func (in *c05Inc) submitPlanned(n *c05Node, h int64) {
	if in.subm[h] {
		return
	}
	in.subm[h] = true
	for _, tx := range in.w.plan[h] {
		_ = n.mem.CheckTx(tx, nil, mempl.TxInfo{})
	}
}

// drive plays the receive routine: internal messages first (WriteSync + handleMsg), and
// when none is left the pending timeout fires (Write + handleTimeout).
func (in *c05Inc) drive(n *c05Node, target int64) string {
	cs := n.cs
	for steps := 0; steps < 400; steps++ {
		in.w.snapshot(cs.Height - 1)
		if cs.Height > target {
			return ""
		}
		for {
			select {
			case <-cs.statsMsgQueue:
				continue
			default:
			}
			break
		}
		select {
		case mi := <-cs.internalMsgQueue:
			if err := cs.wal.WriteSync(mi); err != nil {
				panic(fmt.Sprintf("failed to write %v msg to consensus WAL due to %v", mi, err))
			}
			cs.handleMsg(mi)
			in.w.rememberBlock(cs.ProposalBlock)
		default:
			ti := n.ticker.pop()
			if ti == nil {
				return "no internal message and no timeout pending"
			}
			if ti.Step == cstypes.RoundStepNewHeight {
				in.submitPlanned(n, ti.Height)
			}
			_ = cs.wal.Write(*ti)
			cs.handleTimeout(*ti, cs.RoundState)
			in.w.rememberBlock(cs.ProposalBlock)
		}
	}
	return "step budget exhausted"
}

// ------------------------------------------------------------------------------------ one run

func c05Run(inp *c05Input, spec c05RunSpec) []c05Event {
	w := c05NewWorld(inp, spec.ID)
	defer os.RemoveAll(w.config.RootDir)
	for _, c := range spec.Crashes {
		if c.RestoreBS > 0 || c.RestoreSS > 0 {
			w.snapOn = true
		}
	}
	w.log(c05Event{Ev: "Reset", H: w.heights, Msg: fmt.Sprintf("%v", spec.Crashes), Cfg: w.specCfg(inp)})
	target := w.heights
	for inc := 0; ; inc++ {
		in := &c05Inc{w: w, id: inc, seen: map[string]int{}, subm: map[int64]bool{}}
		if inc < len(spec.Crashes) {
			c := spec.Crashes[inc]
			in.crash = &c
		}
		if inc > 0 {
			w.log(c05Event{Ev: "Restart", Inc: inc})
		}
		n := &c05Node{}
		outcome := func() (out string) {
			defer func() {
				if r := recover(); r != nil {
					if _, ok := r.(c05CrashPanic); ok {
						out = "crash"
						return
					}
					in.mtx.Lock()
					in.dead = true
					in.mtx.Unlock()
					w.log(c05Event{Ev: "Panic", Inc: inc, Phase: in.phase, Msg: c05ErrClass(fmt.Sprint(r))})
					out = "panic"
				}
			}()
			if !in.boot(n) {
				return "hserror"
			}
			if inc > 0 {
				// after a restart the node has to commit at least one further block
				if h := n.cs.Height; h > target {
					target = h
				}
			}
			if why := in.drive(n, target); why != "" {
				w.log(c05Event{Ev: "Stuck", Inc: inc, Phase: in.phase, Msg: why, Tgt: target})
				return "stuck"
			}
			return "done"
		}()
		if outcome == "crash" {
			w.crashWAL()
			w.operator(spec.Crashes[inc], inc)
		}
		in.mtx.Lock()
		in.dead = true
		in.mtx.Unlock()
		n.stop()
		if outcome == "crash" {
			continue
		}
		if outcome == "done" {
			w.log(c05Event{Ev: "Done", Inc: inc, Phase: "cs", Tgt: target})
		}
		break
	}
	return w.events
}

// ------------------------------------------------------------------------------------ entry point

func TestVerifC05Pipeline(t *testing.T) {
	inPath, outPath := os.Getenv("VERIF_IN"), os.Getenv("VERIF_OUT")
	if inPath == "" || outPath == "" {
		t.Skip("VERIF_IN / VERIF_OUT not set")
	}
	raw, err := os.ReadFile(inPath)
	if err != nil {
		t.Fatal(err)
	}
	var inp c05Input
	if err := json.Unmarshal(raw, &inp); err != nil {
		t.Fatal(err)
	}
	f, err := os.Create(outPath)
	if err != nil {
		t.Fatal(err)
	}
	defer f.Close()
	bw := bufio.NewWriterSize(f, 1<<20)
	defer bw.Flush()
	enc := json.NewEncoder(bw)
	for _, rs := range inp.Runs {
		for _, e := range c05Run(&inp, rs) {
			if err := enc.Encode(e); err != nil {
				t.Fatal(err)
			}
		}
	}
}
