//go:build verif

package consensus

// C04 harness, pipeline half (see /verif/DESIGN.md section 5, C04; spec/TMSignCrash.tla).
//
// A real consensus.State with a real privval.FilePV (on files) and a real BaseWAL is driven
// single-threaded through the entry points the receive routine uses
//     peer message / timeout : wal.Write(x)     ; cs.handleMsg(x) / cs.handleTimeout(x)
//     own message            : wal.WriteSync(x) ; cs.handleMsg(x)
// (the three cases of State.receiveRoutine, which is NOT started so that the driver is the
// only scheduler).  FilePV is wrapped at the types.PrivValidator interface and the WAL at the
// consensus.WAL interface; a wrapper method can "crash" - panic with a sentinel the driver
// recovers - before or after delegating.  A crash abandons every in-memory object, cuts the
// WAL head file at synced_size + j (j from the schedule; j inside a record = torn record),
// and the next incarnation is LoadFilePV + NewWAL + a new State + the real catchupReplay
// (with the repair loop of State.OnStart).  The two crash points inside FilePV.saveSigned
// (temp file written / renamed, signature not returned) are produced by putting the old state
// file back and leaving the new content as a stray temp file, resp. keeping the new file.
//
// Every SignVote/SignProposal call that reaches the real FilePV is logged with what it
// returned and with the projection of FilePV's memory and of the state file on disk.
// The harness gives no verdicts: TLC does (spec/trace/TMSignerTrace.tla).

import (
	"bytes"
	"encoding/hex"
	"encoding/json"
	"fmt"
	"io"
	"math/rand"
	"os"
	"path/filepath"
	"strconv"
	"strings"
	"testing"
	"time"

	dbm "github.com/tendermint/tm-db"

	abcicli "github.com/tendermint/tendermint/abci/client"
	"github.com/tendermint/tendermint/abci/example/kvstore"
	cfg "github.com/tendermint/tendermint/config"
	cstypes "github.com/tendermint/tendermint/consensus/types"
	"github.com/tendermint/tendermint/crypto"
	"github.com/tendermint/tendermint/crypto/ed25519"
	"github.com/tendermint/tendermint/libs/autofile"
	tmjson "github.com/tendermint/tendermint/libs/json"
	"github.com/tendermint/tendermint/libs/log"
	tmos "github.com/tendermint/tendermint/libs/os"
	"github.com/tendermint/tendermint/libs/protoio"
	tmsync "github.com/tendermint/tendermint/libs/sync"
	mempl "github.com/tendermint/tendermint/mempool"
	mempoolv0 "github.com/tendermint/tendermint/mempool/v0"
	"github.com/tendermint/tendermint/privval"
	tmproto "github.com/tendermint/tendermint/proto/tendermint/types"
	sm "github.com/tendermint/tendermint/state"
	"github.com/tendermint/tendermint/store"
	"github.com/tendermint/tendermint/types"
)

const c04ChainID = "c04-chain"

// ------------------------------------------------------------------ schedule format

type c04CrashDir struct {
	At      string `json:"at"`      // flush | sign_before | computed | tmp | renamed | sign_after | wsync_mid | wsync_after
	Keep    int    `json:"keep"`    // unsynced WAL records that survive, of Of
	Of      int    `json:"of"`      //
	Exact   bool   `json:"exact"`   // Keep counts concrete records (replay of a recorded run)
	Torn    bool   `json:"torn"`    // the next record survives partially
	TornLen int    `json:"tornlen"` // bytes of the torn record that survive (0 = harness picks, -1 = at least 4)
	TmpTorn bool   `json:"tmptorn"` // stage computed: a torn temp file is left behind
	Attempt int    `json:"attempt"` // the n-th signing attempt inside this op (1-based)
}

type c04Op struct {
	Op      string       `json:"op"` // in | own | sync | crash | restart
	T       string       `json:"t"`  // in: start | tprop | prop | polka | twait | any | next
	R       int32        `json:"r"`
	V       string       `json:"v"`
	Fv      string       `json:"fv"` // the block class createProposalBlock will produce now
	Keep    int          `json:"keep"`
	Of      int          `json:"of"`
	Torn    bool         `json:"torn"`
	Exact   bool         `json:"exact"` // Keep counts concrete records (replay of a recorded run)
	TornLen int          `json:"tornlen"`
	Crash   *c04CrashDir `json:"crash"`
}

type c04Sched struct {
	Proposer      []int   `json:"proposer"` // rounds (0/1) in which our validator is the proposer
	FutureGenesis bool    `json:"future_genesis"`
	Ops           []c04Op `json:"ops"`
}

type c04Input struct {
	Scheds []c04Sched `json:"scheds"`
	Random int        `json:"random"`
}

// ------------------------------------------------------------------ projections

type c04SB struct {
	T  string `json:"t"`
	H  int64  `json:"h"`
	R  int64  `json:"r"`
	V  string `json:"v"`
	Ts int    `json:"ts"`
}

type c04LSS struct {
	H   int64 `json:"h"`
	R   int64 `json:"r"`
	S   int64 `json:"s"`
	SB  c04SB `json:"sb"`
	Sig c04SB `json:"sig"`
}

type c04Out struct {
	V   string `json:"v"`
	Ts  int    `json:"ts"`
	Sig c04SB  `json:"sig"`
}

var (
	c04NoSB      = c04SB{T: "none", H: 0, R: 0, V: "nil", Ts: 0}
	c04UnknownSB = c04SB{T: "unknown", H: -1, R: -1, V: "?", Ts: -1}
	c04NoOut     = c04Out{V: "nil", Ts: 0, Sig: c04NoSB}
)

type c04Sentinel struct{ at string }

// ------------------------------------------------------------------ one run

type c04Env struct {
	t         *testing.T
	run       int
	evs       []interface{}
	root      string
	config    *cfg.Config
	keyPath   string
	statePath string
	walFile   string
	genState  sm.State
	priv      crypto.PrivKey         // our validator
	peers     []types.MockPV         // the other validators
	propAddr  map[int32][]byte       // round -> proposer address
	propPV    map[int32]types.MockPV // round -> proposer key if it is a peer
	rng       *rand.Rand

	// class tables
	classOf   map[string]string          // hex(block hash) -> class
	ids       map[string][]types.BlockID // class -> block ids, in order of appearance
	blocks    map[string]*types.Block    // hex(hash) -> block built by the harness
	parts     map[string]*types.PartSet
	tsOf      map[int64]int // unix nanos -> timestamp class
	signBytes [][]byte
	sbSeen    map[string]bool
	sigOver   map[string]c04SB
	curFv     string

	// the incarnation
	inc       int
	cs        *State
	mem       *mempoolv0.CListMempool
	fpv       *privval.FilePV
	rwal      *BaseWAL
	wal       *c04WAL
	dead      bool // between crash and restart
	replaying bool
	nstray    int

	// WAL byte accounting
	syncedEnd int64   // logical size of the head right after the last FlushAndSync returned
	bounds    []int64 // logical end offset after each Write since then
	groupEnds []int   // len(bounds) at the end of each schedule op since then (one op = one abstract record)

	// crash directive
	dir      *c04CrashDir
	attempts int // signing attempts seen in the current op
	fired    bool
	tornLen  int
	exact    bool
	aborted  string
}

func (e *c04Env) emit(v map[string]interface{}) {
	v["run"] = e.run
	v["inc"] = e.inc
	e.evs = append(e.evs, v)
}

func c04NewEnv(t *testing.T, seed int64, run int, s *c04Sched) *c04Env {
	root, err := os.MkdirTemp("", "c04cs")
	if err != nil {
		panic(err)
	}
	e := &c04Env{t: t, run: run, root: root, rng: rand.New(rand.NewSource(seed*1000003 + int64(run))),
		classOf: map[string]string{}, ids: map[string][]types.BlockID{}, blocks: map[string]*types.Block{},
		parts: map[string]*types.PartSet{}, tsOf: map[int64]int{}, sbSeen: map[string]bool{}, sigOver: map[string]c04SB{},
		propAddr: map[int32][]byte{}, propPV: map[int32]types.MockPV{}, curFv: "A"}
	for _, d := range []string{"config", "data"} {
		if err := os.MkdirAll(filepath.Join(root, d), 0o700); err != nil {
			panic(err)
		}
	}
	c := cfg.TestConfig()
	c.SetRoot(root)
	e.config = c
	e.keyPath = c.PrivValidatorKeyFile()
	e.statePath = c.PrivValidatorStateFile()
	e.walFile = c.Consensus.WalFile()

	// four validators of equal power; which key is ours decides the rounds we propose in
	keys := make([]crypto.PrivKey, 4)
	vals := make([]types.GenesisValidator, 4)
	for i := range keys {
		keys[i] = ed25519.GenPrivKeyFromSecret([]byte(fmt.Sprintf("c04-val-%d-%d-%d", seed, run, i)))
		vals[i] = types.GenesisValidator{PubKey: keys[i].PubKey(), Power: 10}
	}
	gtime := time.Now().Add(-time.Hour)
	if s.FutureGenesis {
		// block time + iota lies in the future: voteTime() returns the same timestamp for
		// every vote on a block, so a re-signed vote has IDENTICAL sign bytes
		gtime = time.Now().Add(time.Hour)
	}
	gen := &types.GenesisDoc{GenesisTime: gtime.UTC().Truncate(time.Millisecond), ChainID: c04ChainID, Validators: vals}
	st, err := sm.MakeGenesisState(gen)
	if err != nil {
		panic(err)
	}
	e.genState = st
	p0 := st.Validators.GetProposer().Address
	p1 := st.Validators.CopyIncrementProposerPriority(1).GetProposer().Address
	e.propAddr[0], e.propAddr[1] = p0, p1
	want0, want1 := false, false
	for _, r := range s.Proposer {
		if r == 0 {
			want0 = true
		}
		if r == 1 {
			want1 = true
		}
	}
	ours := -1
	for i, k := range keys {
		a := k.PubKey().Address()
		if bytes.Equal(a, p0) == want0 && bytes.Equal(a, p1) == want1 {
			ours = i
			break
		}
	}
	if ours < 0 { // both rounds requested but two different proposers: take round 0
		for i, k := range keys {
			if bytes.Equal(k.PubKey().Address(), p0) == want0 {
				ours = i
				break
			}
		}
	}
	e.priv = keys[ours]
	for i, k := range keys {
		if i == ours {
			continue
		}
		pv := types.NewMockPVWithParams(k, false, false)
		e.peers = append(e.peers, pv)
		for r := int32(0); r <= 1; r++ {
			if bytes.Equal(k.PubKey().Address(), e.propAddr[r]) {
				e.propPV[r] = pv
			}
		}
	}
	fpv := privval.NewFilePV(e.priv, e.keyPath, e.statePath)
	fpv.Save()
	return e
}

func (e *c04Env) close() {
	if e.cs != nil && !e.dead {
		e.teardown()
	}
	os.RemoveAll(e.root)
}

func (e *c04Env) isProposer(r int32) bool {
	return bytes.Equal(e.priv.PubKey().Address(), e.propAddr[r])
}

// ---- naming

func (e *c04Env) register(class string, id types.BlockID) {
	k := hex.EncodeToString(id.Hash)
	if _, ok := e.classOf[k]; ok {
		return
	}
	e.classOf[k] = class
	e.ids[class] = append(e.ids[class], id)
}

func (e *c04Env) className(hash []byte) string {
	if len(hash) == 0 {
		return "nil"
	}
	if n, ok := e.classOf[hex.EncodeToString(hash)]; ok {
		return n
	}
	return "?" + hex.EncodeToString(hash[:2])
}

func (e *c04Env) tsClass(t time.Time) int {
	if t.IsZero() {
		return 0
	}
	k := t.UnixNano()
	if c, ok := e.tsOf[k]; ok {
		return c
	}
	c := len(e.tsOf) + 1
	e.tsOf[k] = c
	return c
}

func (e *c04Env) noteSignBytes(sb []byte) {
	if len(sb) == 0 || e.sbSeen[string(sb)] {
		return
	}
	e.sbSeen[string(sb)] = true
	e.signBytes = append(e.signBytes, append([]byte{}, sb...))
}

func (e *c04Env) projSB(sb []byte) c04SB {
	if len(sb) == 0 {
		return c04NoSB
	}
	e.noteSignBytes(sb)
	var p tmproto.CanonicalProposal
	if err := protoio.UnmarshalDelimited(sb, &p); err == nil && p.Type == tmproto.ProposalType {
		var h []byte
		if p.BlockID != nil {
			h = p.BlockID.Hash
		}
		// the block class only: POLRound is part of the sign bytes but not of "which block"
		return c04SB{T: "proposal", H: p.Height, R: p.Round, V: e.className(h), Ts: e.tsClass(p.Timestamp)}
	}
	var v tmproto.CanonicalVote
	if err := protoio.UnmarshalDelimited(sb, &v); err != nil {
		return c04UnknownSB
	}
	var h []byte
	if v.BlockID != nil {
		h = v.BlockID.Hash
	}
	t := "unknown"
	switch v.Type {
	case tmproto.PrevoteType:
		t = "prevote"
	case tmproto.PrecommitType:
		t = "precommit"
	}
	return c04SB{T: t, H: v.Height, R: v.Round, V: e.className(h), Ts: e.tsClass(v.Timestamp)}
}

func (e *c04Env) projSig(sig []byte) c04SB {
	if len(sig) == 0 {
		return c04NoSB
	}
	k := hex.EncodeToString(sig)
	if x, ok := e.sigOver[k]; ok {
		return x
	}
	pub := e.priv.PubKey()
	for _, sb := range e.signBytes {
		if pub.VerifySignature(sb, sig) {
			x := e.projSB(sb)
			e.sigOver[k] = x
			return x
		}
	}
	return c04UnknownSB
}

func (e *c04Env) projLSS(l *privval.FilePVLastSignState) c04LSS {
	sb := e.projSB(l.SignBytes)
	return c04LSS{H: l.Height, R: int64(l.Round), S: int64(l.Step), SB: sb, Sig: e.projSig(l.Signature)}
}

func (e *c04Env) projFile() c04LSS {
	bz, err := os.ReadFile(e.statePath)
	if err != nil {
		return c04LSS{H: -3, R: -3, S: -3, SB: c04NoSB, Sig: c04NoSB}
	}
	var l privval.FilePVLastSignState
	if err := tmjson.Unmarshal(bz, &l); err != nil {
		return c04LSS{H: -4, R: -4, S: -4, SB: c04NoSB, Sig: c04NoSB}
	}
	return e.projLSS(&l)
}

func (e *c04Env) projTmp() string {
	ents, _ := os.ReadDir(filepath.Dir(e.statePath))
	out := "none"
	for _, x := range ents {
		if strings.HasPrefix(x.Name(), "write-file-atomic-") {
			if strings.Contains(x.Name(), "torn") {
				if out == "none" {
					out = "torn"
				}
			} else {
				out = "stray"
			}
		}
	}
	return out
}

func c04ErrClass(err error) string {
	if err == nil {
		return "none"
	}
	s := err.Error()
	switch {
	case strings.Contains(s, "height regression"):
		return "err_height"
	case strings.Contains(s, "round regression"):
		return "err_round"
	case strings.Contains(s, "step regression"):
		return "err_step"
	case strings.Contains(s, "no SignBytes found"):
		return "err_nosignbytes"
	case strings.Contains(s, "conflicting data"):
		return "err_conflict"
	}
	return "err_other"
}

// ------------------------------------------------------------------ WAL wrapper

type c04WAL struct {
	e    *c04Env
	real *BaseWAL
}

var _ WAL = &c04WAL{}

func c04MsgClass(m WALMessage) string {
	switch x := m.(type) {
	case msgInfo:
		own := ""
		if x.PeerID == "" {
			own = "own_"
		}
		switch x.Msg.(type) {
		case *ProposalMessage:
			return own + "proposal"
		case *BlockPartMessage:
			return own + "part"
		case *VoteMessage:
			return own + "vote"
		}
		return own + "msg"
	case timeoutInfo:
		return "timeout"
	case types.EventDataRoundState:
		return "roundstate"
	case EndHeightMessage:
		return "endheight"
	}
	return "other"
}

func (w *c04WAL) logicalEnd() int64 {
	sz, err := w.real.Group().Head.Size()
	if err != nil {
		panic(err)
	}
	return sz + int64(w.real.Group().Buffered())
}

func (w *c04WAL) noteWrite(m WALMessage) {
	w.e.bounds = append(w.e.bounds, w.logicalEnd())
	w.e.emit(map[string]interface{}{"ev": "Wal", "op": "Write", "msg": c04MsgClass(m)})
}

func (w *c04WAL) noteSync(op string) {
	w.e.bounds = w.e.bounds[:0]
	w.e.groupEnds = w.e.groupEnds[:0]
	w.e.syncedEnd = w.logicalEnd()
	w.e.emit(map[string]interface{}{"ev": "Wal", "op": op, "msg": "none"})
}

func (w *c04WAL) Write(m WALMessage) error {
	if w.e.dead || w.e.wal != w {
		return nil
	}
	err := w.real.Write(m)
	w.noteWrite(m)
	return err
}

func (w *c04WAL) WriteSync(m WALMessage) error {
	if w.e.dead || w.e.wal != w {
		return nil
	}
	if d := w.e.dir; d != nil && !w.e.fired && d.At == "wsync_mid" {
		// BaseWAL.WriteSync is Write followed by FlushAndSync: die between the two
		if err := w.real.Write(m); err != nil {
			return err
		}
		w.noteWrite(m)
		w.e.fired = true
		panic(&c04Sentinel{"wsync_mid"})
	}
	err := w.real.WriteSync(m)
	w.e.emit(map[string]interface{}{"ev": "Wal", "op": "Write", "msg": c04MsgClass(m)})
	w.noteSync("WriteSync")
	if d := w.e.dir; d != nil && !w.e.fired && d.At == "wsync_after" {
		w.e.fired = true
		panic(&c04Sentinel{"wsync_after"})
	}
	return err
}

// called by signVote / defaultDecideProposal right before the signer is asked
func (w *c04WAL) FlushAndSync() error {
	if w.e.dead || w.e.wal != w {
		return nil
	}
	if d := w.e.dir; d != nil && !w.e.fired && d.At == "flush" && w.e.attempts+1 == c04Max(d.Attempt, 1) {
		w.e.fired = true
		panic(&c04Sentinel{"flush"})
	}
	err := w.real.FlushAndSync()
	w.noteSync("FlushAndSync")
	return err
}

func (w *c04WAL) SearchForEndHeight(height int64, options *WALSearchOptions) (io.ReadCloser, bool, error) {
	return w.real.SearchForEndHeight(height, options)
}

func (w *c04WAL) Start() error { return nil } // started by the driver
func (w *c04WAL) Stop() error {
	if w.e.dead || w.e.wal != w {
		return nil
	}
	return w.real.Stop()
}
func (w *c04WAL) Wait() {}

func c04Max64(a, b int64) int64 {
	if a > b {
		return a
	}
	return b
}

func c04Max(a, b int) int {
	if a > b {
		return a
	}
	return b
}

// ------------------------------------------------------------------ signer wrapper

type c04PV struct {
	e    *c04Env
	real *privval.FilePV
}

var _ types.PrivValidator = &c04PV{}

func (p *c04PV) GetPubKey() (crypto.PubKey, error) { return p.real.GetPubKey() }

func (p *c04PV) SignVote(chainID string, v *tmproto.Vote) error {
	t := "prevote"
	if v.Type == tmproto.PrecommitType {
		t = "precommit"
	}
	req := c04SB{T: t, H: v.Height, R: int64(v.Round), V: p.e.className(v.BlockID.Hash), Ts: p.e.tsClass(v.Timestamp)}
	p.e.noteSignBytes(types.VoteSignBytes(chainID, v))
	return p.call("SignVote", req, func() (error, c04Out) {
		err := p.real.SignVote(chainID, v)
		if err != nil {
			return err, c04NoOut
		}
		p.e.noteSignBytes(types.VoteSignBytes(chainID, v))
		return nil, c04Out{V: p.e.className(v.BlockID.Hash), Ts: p.e.tsClass(v.Timestamp), Sig: p.e.projSig(v.Signature)}
	})
}

func (p *c04PV) SignProposal(chainID string, pr *tmproto.Proposal) error {
	if _, known := p.e.classOf[hex.EncodeToString(pr.BlockID.Hash)]; !known {
		// our own freshly created block: named after what the mempool holds right now
		bid, err := types.BlockIDFromProto(&pr.BlockID)
		if err != nil {
			panic(err)
		}
		p.e.register(p.e.curFv, *bid)
	}
	cl := p.e.className(pr.BlockID.Hash)
	req := c04SB{T: "proposal", H: pr.Height, R: int64(pr.Round), V: cl, Ts: p.e.tsClass(pr.Timestamp)}
	p.e.noteSignBytes(types.ProposalSignBytes(chainID, pr))
	return p.call("SignProposal", req, func() (error, c04Out) {
		err := p.real.SignProposal(chainID, pr)
		if err != nil {
			return err, c04NoOut
		}
		p.e.noteSignBytes(types.ProposalSignBytes(chainID, pr))
		return nil, c04Out{V: p.e.className(pr.BlockID.Hash), Ts: p.e.tsClass(pr.Timestamp), Sig: p.e.projSig(pr.Signature)}
	})
}

func (p *c04PV) call(name string, req c04SB, do func() (error, c04Out)) error {
	e := p.e
	if e.dead {
		return fmt.Errorf("c04: signer of a dead incarnation")
	}
	e.attempts++
	d := e.dir
	armed := d != nil && !e.fired && e.attempts == c04Max(d.Attempt, 1)
	if armed && d.At == "sign_before" {
		e.fired = true
		panic(&c04Sentinel{"sign_before"})
	}
	unsynced := len(e.bounds)
	if armed && (d.At == "computed" || d.At == "tmp" || d.At == "renamed") {
		// crash inside saveSigned: let the real call run, then put on disk exactly what a
		// process death at that point leaves behind
		old, rerr := os.ReadFile(e.statePath)
		if rerr != nil {
			panic(rerr)
		}
		err, _ := do()
		neu, rerr := os.ReadFile(e.statePath)
		if rerr != nil {
			panic(rerr)
		}
		signed := err == nil && !bytes.Equal(old, neu)
		if signed {
			dir := filepath.Dir(e.statePath)
			switch d.At {
			case "computed":
				if werr := os.WriteFile(e.statePath, old, 0o600); werr != nil {
					panic(werr)
				}
				if d.TmpTorn {
					e.nstray++
					if werr := os.WriteFile(filepath.Join(dir, fmt.Sprintf("write-file-atomic-torn%d", e.nstray)), neu[:len(neu)/2], 0o600); werr != nil {
						panic(werr)
					}
				}
			case "tmp":
				if werr := os.WriteFile(e.statePath, old, 0o600); werr != nil {
					panic(werr)
				}
				e.nstray++
				if werr := os.WriteFile(filepath.Join(dir, fmt.Sprintf("write-file-atomic-0%d", e.nstray)), neu, 0o600); werr != nil {
					panic(werr)
				}
			}
		}
		e.fired = true
		panic(&c04Sentinel{d.At + fmt.Sprintf(":%v:", signed) + c04ReqJSON(req)})
	}
	err, out := do()
	kind := "ok"
	if err != nil {
		kind = "err"
	}
	discarded := armed && d.At == "sign_after"
	e.emit(map[string]interface{}{"ev": "CsSign", "call": name, "req": req, "kind": kind, "err": c04ErrClass(err),
		"out": out, "mem": e.projLSS(&p.real.LastSignState), "file": e.projFile(), "tmp": e.projTmp(),
		"unsynced": unsynced, "replay": e.replaying, "discarded": discarded})
	if discarded {
		e.fired = true
		panic(&c04Sentinel{"sign_after"})
	}
	return err
}

func c04ReqJSON(r c04SB) string {
	b, _ := json.Marshal(r)
	return string(b)
}

// ------------------------------------------------------------------ ticker (driver-owned)

type c04Ticker struct{ c chan timeoutInfo }

func (*c04Ticker) Start() error                   { return nil }
func (*c04Ticker) Stop() error                    { return nil }
func (t *c04Ticker) Chan() <-chan timeoutInfo     { return t.c }
func (*c04Ticker) ScheduleTimeout(ti timeoutInfo) {}
func (*c04Ticker) SetLogger(log.Logger)           {}

// ------------------------------------------------------------------ incarnations

// the body of common_test.go newStateWithConfigAndBlockStore, with silent loggers
func (e *c04Env) newState(pv types.PrivValidator) *State {
	blockDB := dbm.NewMemDB()
	blockStore := store.NewBlockStore(blockDB)
	mtx := new(tmsync.Mutex)
	app := kvstore.NewApplication()
	proxyAppConnCon := abcicli.NewLocalClient(mtx, app)
	proxyAppConnConMem := abcicli.NewLocalClient(mtx, app)
	state := e.genState.Copy()
	mempool := mempoolv0.NewCListMempool(e.config.Mempool, proxyAppConnConMem, state.LastBlockHeight,
		mempoolv0.WithMetrics(mempl.NopMetrics()), mempoolv0.WithPreCheck(sm.TxPreCheck(state)),
		mempoolv0.WithPostCheck(sm.TxPostCheck(state)))
	e.mem = mempool
	stateStore := sm.NewStore(blockDB, sm.StoreOptions{DiscardABCIResponses: false})
	if err := stateStore.Save(state); err != nil {
		panic(err)
	}
	blockExec := sm.NewBlockExecutor(stateStore, log.NewNopLogger(), proxyAppConnCon, mempool, sm.EmptyEvidencePool{})
	cs := NewState(e.config.Consensus, state, blockExec, blockStore, mempool, sm.EmptyEvidencePool{})
	cs.SetLogger(log.NewNopLogger())
	cs.SetPrivValidator(pv)
	eventBus := types.NewEventBus()
	eventBus.SetLogger(log.NewNopLogger())
	if err := eventBus.Start(); err != nil {
		panic(err)
	}
	cs.SetEventBus(eventBus)
	cs.SetTimeoutTicker(&c04Ticker{c: make(chan timeoutInfo)})
	return cs
}

func (e *c04Env) openWAL() *c04WAL {
	w, err := NewWAL(e.walFile, autofile.GroupCheckDuration(time.Hour))
	if err != nil {
		panic(err)
	}
	w.SetFlushInterval(time.Hour) // only explicit calls flush
	w.SetLogger(log.NewNopLogger())
	hsz, _ := w.Group().Head.Size()
	e.emit(map[string]interface{}{"ev": "WalOpen", "head_empty": hsz == 0, "files": w.Group().MaxIndex()})
	if err := w.Start(); err != nil { // writes and syncs #ENDHEIGHT 0 into an empty file
		panic(err)
	}
	e.rwal = w
	ww := &c04WAL{e: e, real: w}
	e.wal = ww
	e.bounds = e.bounds[:0]
	e.groupEnds = e.groupEnds[:0]
	e.syncedEnd = ww.logicalEnd()
	return ww
}

func (e *c04Env) setMempool(fv string) {
	if fv == "" {
		fv = e.curFv
	}
	e.curFv = fv
	e.mem.Flush()
	if err := e.mem.CheckTx([]byte("c04-tx-"+fv), nil, mempl.TxInfo{}); err != nil {
		panic(err)
	}
}

// first start of the validator: nothing to replay
func (e *c04Env) boot() {
	e.inc = 1
	e.fpv = privval.LoadFilePV(e.keyPath, e.statePath)
	e.cs = e.newState(&c04PV{e: e, real: e.fpv})
	e.cs.wal = e.openWAL()
	e.dead = false
}

// guarded runs fn and turns a crash sentinel (or a consensus panic) into a dead incarnation
func (e *c04Env) guarded(fn func()) (crashed *c04Sentinel) {
	defer func() {
		if r := recover(); r != nil {
			if s, ok := r.(*c04Sentinel); ok {
				crashed = s
				return
			}
			// a genuine panic of the code under test: the node halts (CONSENSUS FAILURE)
			crashed = &c04Sentinel{"panic:" + fmt.Sprint(r)}
		}
	}()
	fn()
	return nil
}

// process death.  at names the point; keep/of/torn choose the surviving WAL tail.
func (e *c04Env) crash(at string, keep, of int, torn bool, reached bool) {
	tornLen, exact := e.tornLen, e.exact
	e.tornLen, e.exact = 0, false
	stage, signed, req := at, false, c04NoSB
	if i := strings.Index(at, ":"); i > 0 && !strings.HasPrefix(at, "panic") {
		// "<stage>:<signed>:<req json>"
		parts := strings.SplitN(at, ":", 3)
		stage = parts[0]
		signed = parts[1] == "true"
		_ = json.Unmarshal([]byte(parts[2]), &req)
	}
	if strings.HasPrefix(at, "panic") {
		stage = "panic"
	}
	// make every written byte visible in the file, then cut the file
	if err := e.rwal.FlushAndSync(); err != nil {
		panic(err)
	}
	total := e.wal.logicalEnd()
	nrec := len(e.bounds)
	offs := append([]int64{e.syncedEnd}, e.bounds...)
	// the schedule counts abstract records (one per op); the concrete records written by one
	// op (a proposal and its parts, three votes, round-step events) form one group
	groups := append([]int{}, e.groupEnds...)
	if len(groups) == 0 || groups[len(groups)-1] < nrec {
		groups = append(groups, nrec)
	}
	k := 0
	if nrec > 0 {
		if exact {
			k = keep
			if k > nrec {
				k = nrec
			}
		} else if of <= 0 || keep >= of {
			k = nrec
		} else if of == len(groups) {
			if keep > 0 {
				k = groups[keep-1]
			}
		} else {
			k = (keep*nrec + of/2) / of
			if keep > 0 && k == 0 {
				k = 1
			}
			if k >= nrec {
				k = nrec - 1
			}
		}
	}
	cut := offs[k]
	tornCut := false
	tornBytes := int64(0)
	if torn && k < nrec {
		span := offs[k+1] - offs[k]
		var j int64
		switch c := e.rng.Intn(4); {
		case tornLen > 0:
			j = int64(tornLen)
		case tornLen < 0: // any length the decoder recognises as a torn record (>= 4 bytes)
			j = 4 + e.rng.Int63n(c04Max64(span-4, 1))
		case c == 0:
			j = 1
		case c == 1:
			j = span - 1
		case c == 2:
			j = 8 // header only
		default:
			j = 1 + e.rng.Int63n(span-1)
		}
		if j >= span {
			j = span - 1
		}
		if j > 0 {
			cut += j
			tornCut = true
			tornBytes = j
		}
	}
	e.teardown()
	if cut < total {
		if err := os.Truncate(e.walFile, cut); err != nil {
			panic(err)
		}
	}
	e.emit(map[string]interface{}{"ev": "Crash", "stage": stage, "torn": e.projTmp() == "torn", "req": req, "signed": signed,
		"file": e.projFile(), "tmp": e.projTmp(), "reached": reached, "replay": e.replaying, "attempt": e.attempts,
		"wal": map[string]interface{}{"synced": e.syncedEnd, "unsynced": nrec, "kept": k, "torn": tornCut, "tornlen": tornBytes, "cut": cut, "total": total}})
	e.replaying = false
}

// abandon every in-memory object of the incarnation
func (e *c04Env) teardown() {
	e.dead = true
	if e.rwal != nil {
		_ = e.rwal.Stop()
		e.rwal.Wait()
		e.rwal = nil
	}
	if e.cs != nil && e.cs.eventBus != nil {
		_ = e.cs.eventBus.Stop()
	}
	e.cs, e.fpv, e.wal, e.mem = nil, nil, nil, nil
}

// node start after a crash: LoadFilePV, open the WAL, new State, catch-up replay with the
// repair loop of State.OnStart
func (e *c04Env) restart(fv string, d *c04CrashDir) {
	e.inc++
	e.emit(map[string]interface{}{"ev": "Restart", "fv": fv})
	e.fpv = privval.LoadFilePV(e.keyPath, e.statePath)
	e.dead = false
	e.emit(map[string]interface{}{"ev": "Load", "mem": e.projLSS(&e.fpv.LastSignState), "file": e.projFile(), "tmp": e.projTmp()})
	e.cs = e.newState(&c04PV{e: e, real: e.fpv})
	e.cs.wal = e.openWAL()
	e.setMempool(fv)
	e.dir, e.attempts, e.fired = d, 0, false
	e.replaying = true
	var rerr error
	repaired := false
	cr := e.guarded(func() {
		cs := e.cs
		// ---- State.OnStart, catch-up part
		repairAttempted := false
	LOOP:
		for {
			err := cs.catchupReplay(cs.Height)
			switch {
			case err == nil:
				break LOOP
			case !IsDataCorruptionError(err):
				rerr = err
				break LOOP
			case repairAttempted:
				rerr = err
				break LOOP
			}
			if err := cs.wal.Stop(); err != nil {
				rerr = err
				break LOOP
			}
			e.rwal.Wait()
			repairAttempted = true
			repaired = true
			corruptedFile := fmt.Sprintf("%s.CORRUPTED", cs.config.WalFile())
			if err := tmos.CopyFile(cs.config.WalFile(), corruptedFile); err != nil {
				rerr = err
				break LOOP
			}
			if err := repairWalFile(corruptedFile, cs.config.WalFile()); err != nil {
				rerr = err
				break LOOP
			}
			cs.wal = e.openWAL() // loadWalFile
		}
	})
	es := "none"
	if rerr != nil {
		es = rerr.Error()
		if len(es) > 120 {
			es = es[:120]
		}
	}
	if cr != nil {
		e.emit(map[string]interface{}{"ev": "Replay", "done": false, "err": es, "repaired": repaired})
		e.tornLen, e.exact = d.TornLen, d.Exact
		e.crash(cr.at, d.Keep, d.Of, d.Torn, true)
		e.dir = nil
		return
	}
	e.replaying = false
	e.emit(map[string]interface{}{"ev": "Replay", "done": true, "err": es, "repaired": repaired})
	if d != nil {
		e.emit(map[string]interface{}{"ev": "CrashNotReached", "at": d.At})
		e.tornLen, e.exact = d.TornLen, d.Exact
		e.crash("idle", d.Keep, d.Of, d.Torn, false)
	}
	e.dir = nil
}

// ------------------------------------------------------------------ environment inputs

// the block of a class: height 1, the one transaction "c04-tx-<class>", our validator as
// ProposerAddress.  This is bit for bit the block our own createProposalBlock makes when the
// mempool holds that transaction, so a class names exactly one block whoever proposes it
// (ValidateBlock only requires ProposerAddress to be a validator).
func (e *c04Env) peerBlock(r int32, class string) types.BlockID {
	if id, ok := e.ids["peer:"+class]; ok {
		return id[0]
	}
	commit := types.NewCommit(0, 0, types.BlockID{}, nil)
	block, parts := e.genState.MakeBlock(1, []types.Tx{[]byte("c04-tx-" + class)}, commit, nil, e.priv.PubKey().Address())
	id := types.BlockID{Hash: block.Hash(), PartSetHeader: parts.Header()}
	e.ids["peer:"+class] = []types.BlockID{id}
	e.blocks[hex.EncodeToString(id.Hash)] = block
	e.parts[hex.EncodeToString(id.Hash)] = parts
	e.register(class, id)
	return id
}

// the block id peers vote for when the schedule says "class v": the one the node holds if it
// holds one of that class, else the most recent one of that class, else a new peer block
func (e *c04Env) resolve(r int32, class string) types.BlockID {
	if class == "nil" || class == "" {
		return types.BlockID{}
	}
	cs := e.cs
	for _, b := range []struct {
		blk *types.Block
		ps  *types.PartSet
	}{{cs.LockedBlock, cs.LockedBlockParts}, {cs.ProposalBlock, cs.ProposalBlockParts}, {cs.ValidBlock, cs.ValidBlockParts}} {
		if b.blk != nil && b.ps != nil && e.className(b.blk.Hash()) == class {
			return types.BlockID{Hash: b.blk.Hash(), PartSetHeader: b.ps.Header()}
		}
	}
	if ids := e.ids[class]; len(ids) > 0 {
		return ids[len(ids)-1]
	}
	return e.peerBlock(r, class)
}

func (e *c04Env) peerVote(i int, t tmproto.SignedMsgType, r int32, id types.BlockID) *types.Vote {
	pv := e.peers[i]
	pub, _ := pv.GetPubKey()
	idx, _ := e.genState.Validators.GetByAddress(pub.Address())
	v := &types.Vote{ValidatorAddress: pub.Address(), ValidatorIndex: idx, Height: 1, Round: r,
		Timestamp: time.Now(), Type: t, BlockID: id}
	p := v.ToProto()
	if err := pv.SignVote(c04ChainID, p); err != nil {
		panic(err)
	}
	v.Signature = p.Signature
	return v
}

// receiveRoutine, case mi = <-cs.peerMsgQueue
func (e *c04Env) deliverPeer(m Message) {
	mi := msgInfo{Msg: m, PeerID: "c04peer"}
	_ = e.cs.wal.Write(mi)
	e.cs.handleMsg(mi)
}

// receiveRoutine, case ti := <-cs.timeoutTicker.Chan()
func (e *c04Env) fireTimeout(r int32, step cstypes.RoundStepType) {
	ti := timeoutInfo{Duration: time.Millisecond, Height: 1, Round: r, Step: step}
	_ = e.cs.wal.Write(ti)
	e.cs.handleTimeout(ti, e.cs.RoundState)
}

// receiveRoutine, case mi = <-cs.internalMsgQueue: one own message (an own proposal is two:
// the proposal and its block part)
func (e *c04Env) processOwn() bool {
	select {
	case mi := <-e.cs.internalMsgQueue:
		if err := e.cs.wal.WriteSync(mi); err != nil {
			panic(fmt.Sprintf("failed to write %v msg to consensus WAL due to %v", mi, err))
		}
		e.cs.handleMsg(mi)
		return true
	default:
		return false
	}
}

func (e *c04Env) drainStats() {
	for {
		select {
		case <-e.cs.statsMsgQueue:
		default:
			return
		}
	}
}

func (e *c04Env) input(op *c04Op) string {
	switch op.T {
	case "start":
		if e.isProposer(0) {
			e.setMempool(op.Fv)
		}
		e.fireTimeout(0, cstypes.RoundStepNewHeight)
	case "tprop":
		e.fireTimeout(op.R, cstypes.RoundStepPropose)
	case "prop":
		pv, ok := e.propPV[op.R]
		if !ok {
			return "we are the proposer of this round"
		}
		id := e.peerBlock(op.R, op.V)
		prop := types.NewProposal(1, op.R, -1, id)
		p := prop.ToProto()
		if err := pv.SignProposal(c04ChainID, p); err != nil {
			panic(err)
		}
		prop.Signature = p.Signature
		e.deliverPeer(&ProposalMessage{Proposal: prop})
		ps := e.parts[hex.EncodeToString(id.Hash)]
		for i := 0; i < int(ps.Total()); i++ {
			e.deliverPeer(&BlockPartMessage{Height: 1, Round: op.R, Part: ps.GetPart(i)})
		}
	case "polka":
		id := e.resolve(op.R, op.V)
		for i := range e.peers {
			e.deliverPeer(&VoteMessage{Vote: e.peerVote(i, tmproto.PrevoteType, op.R, id)})
		}
	case "twait":
		e.fireTimeout(op.R, cstypes.RoundStepPrevoteWait)
	case "any":
		ids := []types.BlockID{e.peerBlock(op.R, "A"), e.peerBlock(op.R, "B"), {}}
		for i := range e.peers {
			e.deliverPeer(&VoteMessage{Vote: e.peerVote(i, tmproto.PrevoteType, op.R, ids[i%3])})
		}
		e.fireTimeout(op.R, cstypes.RoundStepPrevoteWait)
	case "next":
		ids := []types.BlockID{e.peerBlock(op.R, "A"), e.peerBlock(op.R, "B"), {}}
		if e.isProposer(op.R + 1) {
			e.setMempool(op.Fv)
		}
		for i := range e.peers {
			e.deliverPeer(&VoteMessage{Vote: e.peerVote(i, tmproto.PrecommitType, op.R, ids[i%3])})
		}
		e.fireTimeout(op.R, cstypes.RoundStepPrecommitWait)
	default:
		return "unknown input"
	}
	return ""
}

func (e *c04Env) nodeState() map[string]interface{} {
	cs := e.cs
	cl := func(b *types.Block) string {
		if b == nil {
			return "nil"
		}
		return e.className(b.Hash())
	}
	return map[string]interface{}{"h": cs.Height, "r": int(cs.Round), "step": cs.Step.String(),
		"pb": cl(cs.ProposalBlock), "lk": cl(cs.LockedBlock), "inq": len(cs.internalMsgQueue)}
}

// execute one schedule step
func (e *c04Env) step(op *c04Op) {
	switch op.Op {
	case "in", "own":
		if e.dead {
			e.emit(map[string]interface{}{"ev": "Skip", "op": op.Op, "why": "node is down"})
			return
		}
		e.dir, e.attempts, e.fired = op.Crash, 0, false
		why := ""
		cr := e.guarded(func() {
			if op.Op == "in" {
				why = e.input(op)
			} else if !e.processOwn() {
				why = "internal queue is empty"
			}
		})
		if why != "" {
			e.emit(map[string]interface{}{"ev": "Skip", "op": op.Op, "why": why})
		}
		if cr != nil {
			e.emit(map[string]interface{}{"ev": "In", "op": op.Op, "t": op.T, "rr": int(op.R), "v": op.V, "fv": op.Fv, "completed": false})
			k, of, torn := 0, 0, false
			if op.Crash != nil {
				k, of, torn = op.Crash.Keep, op.Crash.Of, op.Crash.Torn
				e.tornLen, e.exact = op.Crash.TornLen, op.Crash.Exact
			}
			e.crash(cr.at, k, of, torn, true)
		} else {
			e.drainStats()
			if n := len(e.bounds); n > 0 && (len(e.groupEnds) == 0 || e.groupEnds[len(e.groupEnds)-1] < n) {
				e.groupEnds = append(e.groupEnds, n)
			}
			ns := e.nodeState()
			ns["ev"], ns["op"], ns["t"], ns["rr"], ns["v"], ns["fv"], ns["completed"] = "In", op.Op, op.T, int(op.R), op.V, op.Fv, true
			e.emit(ns)
			if op.Crash != nil {
				e.emit(map[string]interface{}{"ev": "CrashNotReached", "at": op.Crash.At})
				e.tornLen, e.exact = op.Crash.TornLen, op.Crash.Exact
				e.crash("idle", op.Crash.Keep, op.Crash.Of, op.Crash.Torn, false)
			}
		}
		e.dir = nil
	case "sync":
		// what the two background goroutines do on their own: the WAL's flush ticker
		// (processFlushTicks -> FlushAndSync) and the group's size check (RotateFile)
		if e.dead {
			return
		}
		if op.T == "rotate" {
			e.rwal.Group().RotateFile()
		} else if err := e.rwal.FlushAndSync(); err != nil {
			panic(err)
		}
		e.wal.noteSync("Background:" + op.T)
		e.emit(map[string]interface{}{"ev": "Sync", "how": op.T, "files": e.rwal.Group().MaxIndex()})
	case "crash":
		if e.dead {
			return
		}
		e.tornLen, e.exact = op.TornLen, op.Exact
		e.crash("idle", op.Keep, op.Of, op.Torn, true)
	case "restart":
		if !e.dead {
			return
		}
		e.restart(op.Fv, op.Crash)
		if !e.dead {
			ns := e.nodeState()
			ns["ev"] = "Restarted"
			e.emit(ns)
		}
	}
}

// ------------------------------------------------------------------ seeded random schedules

// generated against the real node's state: which inputs make sense is read off cs.Step
func (e *c04Env) randomOps(maxOps int) {
	crashes := 0
	ats := []string{"flush", "sign_before", "computed", "tmp", "renamed", "sign_after", "wsync_mid", "wsync_after"}
	vals := []string{"A", "B", "nil"}
	for n := 0; n < maxOps && e.aborted == ""; n++ {
		if e.dead {
			op := c04Op{Op: "restart", Fv: vals[e.rng.Intn(2)]}
			if crashes < 3 && e.rng.Intn(4) == 0 {
				op.Crash = &c04CrashDir{At: ats[e.rng.Intn(6)], Attempt: 1 + e.rng.Intn(3), Keep: e.rng.Intn(3), Of: 2, Torn: e.rng.Intn(2) == 0, TmpTorn: e.rng.Intn(2) == 0}
				crashes++
			}
			e.step(&op)
			continue
		}
		cs := e.cs
		var op c04Op
		if len(e.bounds) > 0 && e.rng.Intn(8) == 0 {
			op = c04Op{Op: "sync", T: []string{"ticker", "rotate"}[e.rng.Intn(2)]}
			e.step(&op)
			continue
		}
		if len(cs.internalMsgQueue) > 0 && e.rng.Intn(3) != 0 {
			op = c04Op{Op: "own"}
		} else {
			switch {
			case cs.Step == cstypes.RoundStepNewHeight:
				op = c04Op{Op: "in", T: "start", Fv: vals[e.rng.Intn(2)]}
			case cs.Step <= cstypes.RoundStepPropose:
				if e.isProposer(cs.Round) || e.rng.Intn(3) == 0 {
					op = c04Op{Op: "in", T: "tprop", R: cs.Round}
				} else {
					op = c04Op{Op: "in", T: "prop", R: cs.Round, V: vals[e.rng.Intn(2)]}
				}
			case cs.Step <= cstypes.RoundStepPrevoteWait:
				if e.rng.Intn(4) == 0 {
					op = c04Op{Op: "in", T: "any", R: cs.Round}
				} else {
					op = c04Op{Op: "in", T: "polka", R: cs.Round, V: vals[e.rng.Intn(3)]}
				}
			default:
				if cs.Round >= 1 {
					if len(cs.internalMsgQueue) > 0 {
						op = c04Op{Op: "own"}
					} else {
						return
					}
				} else {
					op = c04Op{Op: "in", T: "next", R: cs.Round, Fv: vals[e.rng.Intn(2)]}
				}
			}
		}
		if crashes < 3 && e.rng.Intn(4) == 0 {
			op.Crash = &c04CrashDir{At: ats[e.rng.Intn(len(ats))], Attempt: 1, Keep: e.rng.Intn(4), Of: 3, Torn: e.rng.Intn(2) == 0, TmpTorn: e.rng.Intn(2) == 0}
			crashes++
		} else if crashes < 3 && e.rng.Intn(12) == 0 {
			e.step(&op)
			op = c04Op{Op: "crash", Keep: e.rng.Intn(4), Of: 3, Torn: e.rng.Intn(2) == 0}
			crashes++
		}
		e.step(&op)
	}
}

func c04RunOne(t *testing.T, seed int64, run int, s *c04Sched, random int) (evs []interface{}) {
	e := c04NewEnv(t, seed, run, s)
	defer e.close()
	defer func() {
		if r := recover(); r != nil {
			// harness trouble (not a crash sentinel): record it, the runner decides
			e.emit(map[string]interface{}{"ev": "HarnessError", "msg": fmt.Sprint(r)})
			evs = e.evs
		}
	}()
	e.boot()
	// the run's first line is its Reset
	booted := e.evs
	e.evs = nil
	e.emit(map[string]interface{}{"ev": "Reset", "kind": "cs", "mem": e.projLSS(&e.fpv.LastSignState), "file": e.projFile(),
		"proposer0": e.isProposer(0), "proposer1": e.isProposer(1), "future_genesis": s.FutureGenesis,
		"src": map[bool]string{true: "random", false: "tlc"}[random > 0]})
	e.evs = append(e.evs, booted...)
	if random > 0 {
		e.randomOps(random)
	} else {
		for i := range s.Ops {
			e.step(&s.Ops[i])
		}
	}
	return e.evs
}

func TestVerifC04CS(t *testing.T) {
	inPath, outDir := os.Getenv("VERIF_IN"), os.Getenv("VERIF_OUT")
	if inPath == "" || outDir == "" {
		t.Skip("VERIF_IN / VERIF_OUT not set")
	}
	seed, _ := strconv.ParseInt(os.Getenv("VERIF_SEED"), 10, 64)
	raw, err := os.ReadFile(inPath)
	if err != nil {
		t.Fatal(err)
	}
	var in c04Input
	if err := json.Unmarshal(raw, &in); err != nil {
		t.Fatal(err)
	}
	type job struct {
		s      *c04Sched
		random int
	}
	var jobs []job
	for i := range in.Scheds {
		jobs = append(jobs, job{&in.Scheds[i], 0})
	}
	rng := rand.New(rand.NewSource(seed*104729 + 4))
	for k := 0; k < in.Random; k++ {
		var prop []int
		switch rng.Intn(3) {
		case 0:
			prop = []int{0}
		case 1:
			prop = []int{1}
		}
		jobs = append(jobs, job{&c04Sched{Proposer: prop, FutureGenesis: rng.Intn(2) == 0}, 30})
	}
	// runs are independent (own keys, own directory, own node objects)
	out := make([][]interface{}, len(jobs))
	next := make(chan int)
	done := make(chan bool)
	nw := 6
	for k := 0; k < nw; k++ {
		go func() {
			for i := range next {
				out[i] = c04RunOne(t, seed, i+1, jobs[i].s, jobs[i].random)
			}
			done <- true
		}()
	}
	for i := range jobs {
		next <- i
	}
	close(next)
	for k := 0; k < nw; k++ {
		<-done
	}
	f, err := os.Create(filepath.Join(outDir, "cs.ndjson"))
	if err != nil {
		t.Fatal(err)
	}
	enc := json.NewEncoder(f)
	n := 0
	for i := range out {
		for _, ev := range out[i] {
			if err := enc.Encode(ev); err != nil {
				t.Fatal(err)
			}
			n++
		}
	}
	f.Close()
	t.Logf("C04 cs harness: %d runs, %d events", len(jobs), n)
}
