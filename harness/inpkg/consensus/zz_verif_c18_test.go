//go:build verif && c18cons

package consensus

// C18 harness, consensus level: the histories of the store-level driver
// (store/zz_verif_c18_lib.go, injected into package store by the same overlay) with every
// prune executed by the production code path consensus.State.pruneBlocks(retainHeight),
// which prunes the block store and then the state store to the application's retain height.
//
// The extra build tag c18cons keeps this file out of builds that do not also inject the
// library into package store (lib/props/c18.py builds it with -tags "verif c18cons").

import (
	"os"
	"strconv"
	"testing"

	"github.com/tendermint/tendermint/proxy"
	sm "github.com/tendermint/tendermint/state"
	"github.com/tendermint/tendermint/store"
	"github.com/tendermint/tendermint/types"
)

func TestVerifC18Consensus(t *testing.T) {
	inPath, outDir := os.Getenv("VERIF_IN"), os.Getenv("VERIF_OUT")
	if inPath == "" || outDir == "" {
		t.Skip("VERIF_IN / VERIF_OUT not set")
	}
	seed, _ := strconv.ParseInt(os.Getenv("VERIF_SEED"), 10, 64)
	hook := func(bs *store.BlockStore, exec *sm.BlockExecutor, retain int64) error {
		cs := &State{blockStore: bs, blockExec: exec}
		_, err := cs.pruneBlocks(retain)
		return err
	}
	// restart of a node that crashed between the application's Commit and stateStore.Save: the
	// production Handshaker decides what to replay (here: the last block through newMockProxyApp)
	store.C18Recover = func(bs *store.BlockStore, ss sm.Store, state sm.State, genDoc *types.GenesisDoc,
		pa proxy.AppConns, appHeight int64, appHash []byte) error {
		h := NewHandshaker(ss, state, bs, genDoc)
		_, err := h.ReplayBlocks(state, appHash, appHeight, pa)
		return err
	}
	if err := store.C18Main(inPath, outDir+"/consensus.ndjson", seed, hook, t.Logf); err != nil {
		t.Fatal(err)
	}
}
