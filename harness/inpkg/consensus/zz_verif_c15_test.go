//go:build verif && c15

package consensus

// C15 harness (see /verif/DESIGN.md section 5, C15): drives the REAL consensus write-ahead log
// (BaseWAL on autofile.Group on real files) and the REAL State.OnStart / catchupReplay through
// schedules computed by TLC from spec/TMWal.tla and through its own enumerations (every byte
// offset of the unsynced tail, every byte of one record), projects files and readers to the
// abstract state of spec/TMWalOps.tla and writes NDJSON traces.  TLC judges the traces
// (spec/trace/TMWalTrace.tla); nothing in this file decides anything about the property.
//
// A crash is emulated on the file level: the WAL directory is copied with the head file cut at
// a byte offset inside its unsynced region (size observed right after the last successful
// FlushAndSync/WriteSync .. size now); the bufio content of the abandoned object is lost.
// No ticker may fire during a run: group ticker and WAL flush ticker are set to one hour and
// checkHeadSizeLimit / checkTotalSizeLimit are called directly (go:linkname, zz_verif_c15.s).

import (
	"bufio"
	"bytes"
	"encoding/binary"
	"encoding/hex"
	"encoding/json"
	"fmt"
	"hash/crc32"
	"io"
	"math/rand"
	"os"
	"path/filepath"
	"reflect"
	"sort"
	"strconv"
	"strings"
	"sync"
	"syscall"
	"testing"
	"time"
	"unsafe"

	dbm "github.com/tendermint/tm-db"

	"github.com/tendermint/tendermint/abci/example/counter"
	cfg "github.com/tendermint/tendermint/config"
	cstypes "github.com/tendermint/tendermint/consensus/types"
	"github.com/tendermint/tendermint/crypto/merkle"
	auto "github.com/tendermint/tendermint/libs/autofile"
	"github.com/tendermint/tendermint/libs/log"
	tmproto "github.com/tendermint/tendermint/proto/tendermint/types"
	sm "github.com/tendermint/tendermint/state"
	"github.com/tendermint/tendermint/types"
)

//go:linkname c15CheckHead github.com/tendermint/tendermint/libs/autofile.(*Group).checkHeadSizeLimit
func c15CheckHead(g *auto.Group)

//go:linkname c15CheckTotal github.com/tendermint/tendermint/libs/autofile.(*Group).checkTotalSizeLimit
func c15CheckTotal(g *auto.Group)

const c15BufCap = 4096 * 10 // libs/autofile/group.go OpenGroup

// ------------------------------------------------------------------ input

type c15Step struct {
	Op   string `json:"op"` // Reopen Write WriteSync Flush FlushHalf CheckHead CheckTotal Search Stop Crash Corrupt Observe
	Kind string `json:"kind,omitempty"`
	Big  bool   `json:"big,omitempty"`
	J    int    `json:"j,omitempty"`    // Crash: whole unsynced records kept
	Tk   int    `json:"tk,omitempty"`   // Crash: torn bytes of the next one (class by value: <4 crc, <8 len, else data)
	Keep int64  `json:"keep,omitempty"` // Crash: absolute byte offset (-1: derive from j/tk)
	File int    `json:"file,omitempty"` // Corrupt: rotated file index, -1 = head
	Pos  int    `json:"pos,omitempty"`  // Corrupt: item position (1-based)
	Cls  string `json:"cls,omitempty"`  // Corrupt: crc | len | data
	Off  int    `json:"off,omitempty"`  // Corrupt: byte offset inside the record (-1: derive from cls)
	H    int64  `json:"h,omitempty"`    // Search
	Sync bool   `json:"sync,omitempty"` // WriteRot: WriteSync instead of Write
	K    int    `json:"k,omitempty"`    // WriteRot: checkHeadSizeLimit right after the k-th group write of the record
}

type c15Sched struct {
	Fast       bool      `json:"fast"` // long history: keep the files on tmpfs when there is one (fsync calls are still made and observed)
	Name       string    `json:"name"`
	HeadLimit  int64     `json:"headLimit"`
	TotalLimit int64     `json:"totalLimit"`
	Steps      []c15Step `json:"steps"`
}

// an enumeration: run Prefix once, then for EVERY crash offset / corrupted byte run Suffix
type c15Enum struct {
	Name       string    `json:"name"`
	HeadLimit  int64     `json:"headLimit"`
	TotalLimit int64     `json:"totalLimit"`
	Prefix     []c15Step `json:"prefix"`
	Mode       string    `json:"mode"`   // "crash": every offset of the unsynced region; "corrupt": every byte of item Pos of File
	File       int       `json:"file"`   // corrupt mode
	Pos        int       `json:"pos"`    // corrupt mode
	Stride     int       `json:"stride"` // 1 = every byte
	Suffix     []c15Step `json:"suffix"`
	Inner      []c15Step `json:"inner"` // crash mode: after Suffix a second crash at class offsets, then Inner
}

type c15NodeIn struct {
	Runs      int   `json:"runs"`
	Steps     int   `json:"steps"`
	HeadLimit int64 `json:"headLimit"`
	Offsets   int   `json:"offsets"` // crash offsets tried per snapshot (0 = all five classes)
}

type c15Input struct {
	Scheds []c15Sched `json:"scheds"`
	Enums  []c15Enum  `json:"enums"`
	Random int        `json:"random"`
	Node   c15NodeIn  `json:"node"`
}

// ------------------------------------------------------------------ journal of written records

type c15Rec struct {
	ID    int    `json:"id"`
	Kind  string `json:"kind"`
	H     int64  `json:"h"`
	Size  int    `json:"size"`
	bytes []byte
}

type c15Item struct {
	ID   int    `json:"id"`
	Kind string `json:"kind"`
	H    int64  `json:"h"`
	Size int    `json:"size"`
	St   string `json:"st"`
}

type c15Journal struct {
	recs  []*c15Rec
	byKey map[string]*c15Rec // whole record bytes -> record
	byHdr map[string][]*c15Rec
}

func newC15Journal() *c15Journal {
	return &c15Journal{byKey: map[string]*c15Rec{}, byHdr: map[string][]*c15Rec{}}
}

func (j *c15Journal) clone() *c15Journal {
	n := newC15Journal()
	for _, r := range j.recs {
		n.recs = append(n.recs, r)
		n.byKey[string(r.bytes)] = r
		n.byHdr[string(r.bytes[:8])] = append(n.byHdr[string(r.bytes[:8])], r)
	}
	return n
}

// classify with the REAL decoder what a byte string is
func c15Classify(b []byte) (kind string, h int64, ok bool) {
	msg, err := NewWALDecoder(bytes.NewReader(b)).Decode()
	if err != nil || msg == nil {
		return "", 0, false
	}
	switch m := msg.Msg.(type) {
	case EndHeightMessage:
		return "eh", m.Height, true
	case types.EventDataRoundState:
		return "rs", m.Height, true
	case msgInfo:
		return "in", c15MsgHeight(m), true
	case timeoutInfo:
		return "in", m.Height, true
	}
	return "", 0, false
}

func c15MsgHeight(m msgInfo) int64 {
	switch x := m.Msg.(type) {
	case *ProposalMessage:
		return x.Proposal.Height
	case *BlockPartMessage:
		return x.Height
	case *VoteMessage:
		return x.Vote.Height
	}
	return 0
}

func (j *c15Journal) add(b []byte) *c15Rec {
	if r, ok := j.byKey[string(b)]; ok {
		return r
	}
	kind, h, ok := c15Classify(b)
	if !ok {
		kind, h = "rs", 0
	}
	// inert inputs of the WAL-level drivers carry a shifted height (see c15Msg)
	if h >= c15Inert {
		h -= c15Inert
	}
	r := &c15Rec{ID: len(j.recs) + 1, Kind: kind, H: h, Size: len(b), bytes: append([]byte{}, b...)}
	j.recs = append(j.recs, r)
	j.byKey[string(r.bytes)] = r
	j.byHdr[string(r.bytes[:8])] = append(j.byHdr[string(r.bytes[:8])], r)
	return r
}

// a record the WAL accepted without handing any bytes to the group: it can never be found in a file
func (j *c15Journal) addPhantom(kind string, h int64) *c15Rec {
	b := make([]byte, 16)
	binary.BigEndian.PutUint32(b[4:8], 8)
	binary.BigEndian.PutUint64(b[8:], uint64(len(j.recs)+1)|1<<63)
	r := &c15Rec{ID: len(j.recs) + 1, Kind: kind, H: h, Size: len(b), bytes: b}
	j.recs = append(j.recs, r)
	j.byKey[string(b)] = r
	return r
}

func (j *c15Journal) matchAt(data []byte, pos int) *c15Rec {
	if pos+8 > len(data) {
		return nil
	}
	for _, r := range j.byHdr[string(data[pos:pos+8])] {
		if pos+len(r.bytes) <= len(data) && bytes.Equal(data[pos:pos+len(r.bytes)], r.bytes) {
			return r
		}
	}
	return nil
}

// a record of the journal with exactly one byte changed
func (j *c15Journal) match1(data []byte, pos int) (*c15Rec, int) {
	for _, r := range j.recs {
		n := len(r.bytes)
		if pos+n > len(data) {
			continue
		}
		diff, at := 0, -1
		for k := 0; k < n && diff < 2; k++ {
			if data[pos+k] != r.bytes[k] {
				diff++
				at = k
			}
		}
		if diff == 1 {
			return r, at
		}
	}
	return nil, -1
}

var c15Crc = crc32.MakeTable(crc32.Castagnoli)

// length of a well-formed (crc-correct) frame at the start of b, 0 if none
func c15WellFormed(b []byte) int {
	if len(b) < 8 {
		return 0
	}
	n := int(binary.BigEndian.Uint32(b[4:8]))
	if n > maxMsgSizeBytes || 8+n > len(b) || n == 0 {
		return 0
	}
	if crc32.Checksum(b[8:8+n], c15Crc) != binary.BigEndian.Uint32(b[0:4]) {
		return 0
	}
	return 8 + n
}

// the abstraction function for file content: bytes -> items (pure function of the bytes and
// of what was handed to the WAL)
func (j *c15Journal) align(data []byte, discover bool) []c15Item {
	items := []c15Item{}
	pos := 0
	aligned := true
	for pos < len(data) {
		if r := j.matchAt(data, pos); r != nil {
			items = append(items, c15Item{r.ID, r.Kind, r.H, r.Size, "good"})
			pos += len(r.bytes)
			aligned = true
			continue
		}
		if aligned && discover {
			if n := c15WellFormed(data[pos:]); n > 0 {
				r := j.add(data[pos : pos+n])
				items = append(items, c15Item{r.ID, r.Kind, r.H, r.Size, "good"})
				pos += n
				continue
			}
		}
		if aligned {
			// a one-byte-damaged record -- unless an intact record starts inside it: then this is
			// a torn fragment with something appended behind it
			r, at := j.match1(data, pos)
			if r != nil {
				for q := pos + 1; q < pos+len(r.bytes); q++ {
					if j.matchAt(data, q) != nil {
						r = nil
						break
					}
				}
			}
			if r != nil {
				st := "badcrc"
				if at >= 4 && at < 8 {
					st = "badlen"
				}
				items = append(items, c15Item{r.ID, r.Kind, r.H, r.Size, st})
				pos += len(r.bytes)
				continue
			}
		}
		next := pos + 1
		for next < len(data) && j.matchAt(data, next) == nil && !(discover && c15WellFormed(data[next:]) > 0) {
			next++
		}
		items = append(items, c15Item{0, "torn", 0, next - pos, "torn"})
		pos = next
		aligned = true
	}
	return items
}

func (j *c15Journal) relabelSplit(data []byte, items []c15Item, nextData []byte, nextItems []c15Item) {
	if len(items) == 0 {
		return
	}
	last := &items[len(items)-1]
	if last.St != "torn" || last.Size < 8 || last.Size > len(data) {
		return
	}
	tail := data[len(data)-last.Size:]
	for _, r := range j.byHdr[string(tail[:8])] {
		if len(r.bytes) <= len(tail) || !bytes.HasPrefix(r.bytes, tail) {
			continue
		}
		*last = c15Item{r.ID, r.Kind, r.H, last.Size, "hdr"}
		if len(nextItems) > 0 && nextItems[0].St == "torn" && nextItems[0].Size == len(r.bytes)-len(tail) &&
			nextItems[0].Size <= len(nextData) && bytes.Equal(nextData[:nextItems[0].Size], r.bytes[len(tail):]) {
			nextItems[0] = c15Item{r.ID, r.Kind, r.H, nextItems[0].Size, "pay"}
		}
		return
	}
}

// ------------------------------------------------------------------ trace writer

type c15Writer struct {
	f  *os.File
	bw *bufio.Writer
	n  int
}

func newC15Writer(path string) *c15Writer {
	f, err := os.Create(path)
	if err != nil {
		panic(err)
	}
	return &c15Writer{f: f, bw: bufio.NewWriterSize(f, 1<<20)}
}

func (w *c15Writer) write(row map[string]interface{}) {
	b, err := json.Marshal(row)
	if err != nil {
		panic(err)
	}
	w.bw.Write(b)
	w.bw.WriteByte('\n')
	w.n++
}

func (w *c15Writer) close() {
	w.bw.Flush()
	w.f.Close()
}

// ------------------------------------------------------------------ environment of one run

const c15Inert = int64(1) << 40 // heights of inert inputs: catch-up replays them into "ignored"

type c15Shared struct {
	t        *testing.T
	out      *c15Writer
	base     string
	ndirs    int
	marker   int
	runs     int
	conf     *cfg.Config
	genState sm.State
	rng      *rand.Rand
	reopens  int
	fastBase string // directory on tmpfs, "" if none
	fast     bool   // the current run wants it
}

type c15Env struct {
	sh         *c15Shared
	run        int
	dir        string
	jr         *c15Journal
	wal        *BaseWAL
	headLimit  int64
	totalLimit int64
	synced     int64 // size of the head file when FlushAndSync last returned nil (harness view)
	curH       int64
	topH       int64
	pendingEH  bool
	failed     bool
	rows       []map[string]interface{} // rows of this run so far (copied into forks)
	seq        int
}

func (sh *c15Shared) newDir() string {
	sh.ndirs++
	base := sh.base
	if sh.fast && sh.fastBase != "" {
		base = sh.fastBase
	}
	d := filepath.Join(base, fmt.Sprintf("c15wal-%06d", sh.ndirs))
	if err := os.MkdirAll(d, 0o700); err != nil {
		panic(err)
	}
	return d
}

func (sh *c15Shared) newEnv(headLimit, totalLimit int64, name string) *c15Env {
	sh.runs++
	e := &c15Env{sh: sh, run: sh.runs, dir: sh.newDir(), jr: newC15Journal(), headLimit: headLimit,
		totalLimit: totalLimit, curH: 1}
	e.emitRaw(map[string]interface{}{"ev": "Reset", "name": name, "headLimit": headLimit, "totalLimit": totalLimit,
		"cap": c15BufCap})
	return e
}

func (e *c15Env) walPath() string { return filepath.Join(e.dir, "wal") }

// a recognisable system call that delimits the events in the strace log (EBADF, no effect)
func (e *c15Env) mark() int {
	e.sh.marker++
	_ = syscall.Fdatasync(-(1000000 + e.sh.marker))
	return e.sh.marker
}

func (e *c15Env) emitRaw(row map[string]interface{}) {
	row["run"] = e.run
	e.rows = append(e.rows, row)
	e.sh.out.write(row)
}

func (e *c15Env) emit(m int, row map[string]interface{}) {
	row["m"] = m
	row["dir"] = filepath.Base(e.dir)
	row["post"] = e.project()
	e.emitRaw(row)
}

// fork: same history, own directory (filled by the caller), own journal copy
func (e *c15Env) fork(name string) *c15Env {
	e.sh.runs++
	n := &c15Env{sh: e.sh, run: e.sh.runs, dir: e.sh.newDir(), jr: e.jr.clone(), headLimit: e.headLimit,
		totalLimit: e.totalLimit, synced: e.synced, curH: e.curH, topH: e.topH, pendingEH: e.pendingEH}
	for i, r := range e.rows {
		c := map[string]interface{}{}
		for k, v := range r {
			c[k] = v
		}
		c["run"] = n.run
		if i == 0 {
			c["name"] = name
		}
		n.rows = append(n.rows, c)
		n.sh.out.write(c)
	}
	return n
}

// ------------------------------------------------------------------ projection

func c15ParseIdx(name string) (int, bool) {
	if !strings.HasPrefix(name, "wal.") {
		return 0, false
	}
	s := name[4:]
	if len(s) < 3 {
		return 0, false
	}
	for _, c := range s {
		if c < '0' || c > '9' {
			return 0, false
		}
	}
	i, err := strconv.Atoi(s)
	return i, err == nil
}

func (e *c15Env) project() map[string]interface{} {
	es, err := os.ReadDir(e.dir)
	if err != nil {
		panic(err)
	}
	type nf struct {
		idx  int
		name string
	}
	var nfs []nf
	extra := int64(0)
	hexists := false
	for _, en := range es {
		if en.Name() == "wal" {
			hexists = true
		} else if i, ok := c15ParseIdx(en.Name()); ok {
			nfs = append(nfs, nf{i, en.Name()})
		} else if strings.HasPrefix(en.Name(), "wal") {
			if fi, err := en.Info(); err == nil {
				extra += fi.Size()
			}
		}
	}
	sort.Slice(nfs, func(a, b int) bool { return nfs[a].idx < nfs[b].idx })
	files := []map[string]interface{}{}
	var datas [][]byte
	// oldest first: records are discovered in write order
	for _, f := range nfs {
		data, err := os.ReadFile(filepath.Join(e.dir, f.name))
		if err != nil {
			panic(err)
		}
		files = append(files, map[string]interface{}{"idx": f.idx, "items": e.jr.align(data, true), "size": len(data)})
		datas = append(datas, data)
	}
	head := []c15Item{}
	hsize := 0
	var headData []byte
	if hexists {
		data, err := os.ReadFile(e.walPath())
		if err != nil {
			panic(err)
		}
		head = e.jr.align(data, true)
		hsize = len(data)
		headData = data
	}
	// a rotated file that ends inside a record: the record was handed to the group in pieces and
	// the rotation fell between them; the rest opens the next file (or is still buffered)
	for k := range files {
		its := files[k]["items"].([]c15Item)
		nextItems, nextData := head, headData
		if k+1 < len(files) {
			nextItems, nextData = files[k+1]["items"].([]c15Item), datas[k+1]
		}
		e.jr.relabelSplit(datas[k], its, nextData, nextItems)
	}
	post := map[string]interface{}{"files": files, "head": head, "hsize": hsize, "hexists": hexists, "extra": extra,
		"open": e.wal != nil, "buffered": 0, "gmin": -1, "gmax": -1, "hsynced": e.synced, "nrec": len(e.jr.recs)}
	if e.wal != nil {
		post["buffered"] = e.wal.group.Buffered()
		post["gmin"] = e.wal.group.MinIndex()
		post["gmax"] = e.wal.group.MaxIndex()
	}
	return post
}

func (e *c15Env) headSize() int64 {
	fi, err := os.Stat(e.walPath())
	if err != nil {
		return 0
	}
	return fi.Size()
}

// ------------------------------------------------------------------ the real WAL, tapped

// every WALEncoder.Encode ends in exactly one Write of the framed record
// The tap between WALEncoder and the group.  It records what reaches the group, Write call by
// Write call, and assumes nothing about how the product splits a record over them; after the
// k-th group write of a record it can run a hook (the schedule's "what the group's ticker
// goroutine does at this very moment").
type c15Tee struct {
	g      io.Writer
	jr     *c15Journal
	on     bool
	chunks [][]byte
	after  func(k int)
}

func (t *c15Tee) Write(p []byte) (int, error) {
	n, err := t.g.Write(p)
	if t.on {
		t.chunks = append(t.chunks, append([]byte{}, p...))
		if t.after != nil {
			t.after(len(t.chunks))
		}
	}
	return n, err
}

// take returns what reached the group since the last take as ONE record (the caller made one WAL
// write in between) together with the sizes of the group writes; nil if nothing did.
func (t *c15Tee) take() (*c15Rec, []int) {
	sizes := []int{}
	if len(t.chunks) == 0 {
		return nil, sizes
	}
	var all []byte
	for _, c := range t.chunks {
		all = append(all, c...)
		sizes = append(sizes, len(c))
	}
	t.chunks = nil
	return t.jr.add(all), sizes
}

var c15Tees sync.Map // *BaseWAL -> *c15Tee

func (e *c15Env) openTapped() error {
	w, err := NewWAL(e.walPath(), auto.GroupCheckDuration(time.Hour), auto.GroupHeadSizeLimit(e.headLimit),
		auto.GroupTotalSizeLimit(e.totalLimit))
	if err != nil {
		return err
	}
	w.SetFlushInterval(time.Hour)
	w.SetLogger(log.NewNopLogger())
	tee := &c15Tee{g: w.group, jr: e.jr, on: true}
	w.enc = NewWALEncoder(tee)
	c15Tees.Store(w, tee)
	if err := w.Start(); err != nil {
		return err
	}
	tee.take() // EndHeightMessage{0} of OnStart, if it was written
	e.wal = w
	return nil
}

func (e *c15Env) tee() *c15Tee {
	t, _ := c15Tees.Load(e.wal)
	return t.(*c15Tee)
}

func c15CloseWal(w *BaseWAL) {
	if w.IsRunning() {
		_ = w.Stop()
		w.Wait()
	}
	_ = w.group.Head.Close() // AutoFile goroutines; BaseWAL.OnStop only closes the file
	c15Tees.Delete(w)
}

// abandon the WAL object (its buffer content goes to the abandoned directory)
func (e *c15Env) abandon() {
	e.mark() // what follows (flush + fsync of the abandoned object) belongs to no event
	if e.wal != nil {
		c15CloseWal(e.wal)
		e.wal = nil
	}
}

func c15Pad(n int, tag string) string {
	if n <= len(tag) {
		return tag
	}
	return tag + strings.Repeat("x", n-len(tag))
}

// the message for an abstract record; unique bytes per call
func (e *c15Env) msg(kind string, big bool) WALMessage {
	e.seq++
	tag := fmt.Sprintf("r%d.%d.", e.run, e.seq)
	switch kind {
	case "eh":
		return EndHeightMessage{e.curH}
	case "rs":
		n := 0
		if big {
			n = c15BufCap + 4000
		}
		return types.EventDataRoundState{Height: e.curH, Round: int32(e.seq), Step: c15Pad(n, tag)}
	default: // "in": replayed by catch-up into a no-op (height far away)
		if big {
			part := &types.Part{Index: 0, Bytes: []byte(c15Pad(c15BufCap+4000, tag)),
				Proof: merkle.Proof{Total: 1, Index: 0, LeafHash: make([]byte, 32)}}
			return msgInfo{Msg: &BlockPartMessage{Height: c15Inert + e.curH, Round: 0, Part: part}, PeerID: "c15"}
		}
		return timeoutInfo{Duration: time.Duration(e.seq)*time.Nanosecond + time.Duration(e.run)*time.Second,
			Height: c15Inert + e.curH, Round: 0, Step: cstypes.RoundStepNewHeight}
	}
}

func c15Err(err error) string {
	if err == nil {
		return "none"
	}
	if IsDataCorruptionError(err) {
		return "corrupt"
	}
	if err == io.EOF {
		return "eof"
	}
	return "other"
}

func (e *c15Env) recJSON(r *c15Rec) map[string]interface{} {
	return map[string]interface{}{"id": r.ID, "kind": r.Kind, "h": r.H, "size": r.Size}
}

func (e *c15Env) doWrite(kind string, big, sync bool) { e.doWriteRot(kind, big, sync, 0) }

// rotK > 0: run the real checkHeadSizeLimit right after the rotK-th group write of this record
func (e *c15Env) doWriteRot(kind string, big, sync bool, rotK int) {
	if e.wal == nil || e.failed {
		return
	}
	m := e.mark()
	tee := e.tee()
	tee.chunks = nil
	rot, rotated := 0, false
	if rotK > 0 {
		g := e.wal.group
		tee.after = func(k int) {
			if k == rotK {
				before := g.MaxIndex()
				c15CheckHead(g)
				rot, rotated = k, g.MaxIndex() != before
			}
		}
	}
	msg := e.msg(kind, big)
	var err error
	if sync {
		err = e.wal.WriteSync(msg)
	} else {
		err = e.wal.Write(msg)
	}
	tee.after = nil
	r, gw := tee.take()
	if r == nil {
		// nothing reached the group although the call returned: the record exists only as a promise
		r = e.jr.addPhantom(kind, e.curH)
	}
	if rotated {
		e.synced = 0
	}
	if kind == "eh" {
		e.topH = e.curH
		if sync && err == nil {
			e.curH++
		} else {
			e.pendingEH = true
		}
	}
	if sync && err == nil {
		e.synced = e.headSize()
	}
	ev := "Write"
	if sync {
		ev = "WriteSync"
	}
	e.emit(m, map[string]interface{}{"ev": ev, "rec": e.recJSON(r), "err": c15Err(err), "nw": len(gw), "gw": gw,
		"rot": rot, "rotated": rotated})
}

func (e *c15Env) doFlush() {
	if e.wal == nil {
		return
	}
	m := e.mark()
	err := e.wal.FlushAndSync()
	if err == nil {
		e.synced = e.headSize()
		if e.pendingEH {
			e.pendingEH = false
			e.curH++
		}
	}
	e.emit(m, map[string]interface{}{"ev": "FlushAndSync", "err": c15Err(err)})
}

// the instant inside Group.FlushAndSync after headBuf.Flush() and before Head.Sync()
func (e *c15Env) doFlushHalf() {
	if e.wal == nil {
		return
	}
	m := e.mark()
	f := reflect.ValueOf(e.wal.group).Elem().FieldByName("headBuf")
	bw := (*bufio.Writer)(unsafe.Pointer(f.Pointer()))
	err := bw.Flush()
	e.emit(m, map[string]interface{}{"ev": "FlushHalf", "err": c15Err(err)})
}

func (e *c15Env) doCheckHead() {
	if e.wal == nil {
		return
	}
	m := e.mark()
	before := e.wal.group.MaxIndex()
	c15CheckHead(e.wal.group)
	rotated := e.wal.group.MaxIndex() != before
	if rotated {
		e.synced = 0
	}
	e.emit(m, map[string]interface{}{"ev": "CheckHead", "rotated": rotated})
}

func (e *c15Env) doCheckTotal() {
	if e.wal == nil {
		return
	}
	m := e.mark()
	c15CheckTotal(e.wal.group)
	e.emit(m, map[string]interface{}{"ev": "CheckTotal"})
}

func (e *c15Env) doStop() {
	if e.wal == nil {
		return
	}
	m := e.mark()
	c15CloseWal(e.wal)
	e.wal = nil
	e.synced = e.headSize()
	if e.pendingEH {
		e.pendingEH = false
		e.curH++
	}
	e.emit(m, map[string]interface{}{"ev": "Stop"})
}

// ------------------------------------------------------------------ readers (real decoder)

func (e *c15Env) idOf(msg *TimedWALMessage) int {
	var buf bytes.Buffer
	if err := NewWALEncoder(&buf).Encode(msg); err != nil {
		return -1
	}
	if r, ok := e.jr.byKey[buf.String()]; ok {
		return r.ID
	}
	return -1
}

// decode rd to its end the way SearchForEndHeight does with IgnoreDataCorruptionErrors:
// id > 0 a record, 0 a DataCorruptionError, -1 a record nobody wrote; other errors end the list with -2
func (e *c15Env) decodeAll(rd io.Reader, strict bool) []int {
	out := []int{}
	dec := NewWALDecoder(rd)
	nerr := 0
	for {
		msg, err := dec.Decode()
		if err == io.EOF {
			return out
		}
		if IsDataCorruptionError(err) {
			out = append(out, 0)
			nerr++
			if strict || nerr > 200000 {
				return out
			}
			continue
		}
		if err != nil {
			return append(out, -2)
		}
		out = append(out, e.idOf(msg))
	}
}

func (e *c15Env) maxH() int64 {
	h := int64(0)
	for _, r := range e.jr.recs {
		if r.Kind == "eh" && r.H > h {
			h = r.H
		}
	}
	return h
}

func (e *c15Env) doObserve() {
	if e.wal == nil {
		return
	}
	m := e.mark()
	g := e.wal.group
	row := map[string]interface{}{"ev": "Observe"}
	// the files one by one, the way scripts/wal2json and repairWalFile read them (os.Open, strict)
	solo := []map[string]interface{}{}
	es, _ := os.ReadDir(e.dir)
	for _, en := range es {
		idx, ok := c15ParseIdx(en.Name())
		if en.Name() == "wal" {
			idx, ok = -1, true
		}
		if !ok {
			continue
		}
		f, err := os.Open(filepath.Join(e.dir, en.Name()))
		if err != nil {
			continue
		}
		solo = append(solo, map[string]interface{}{"idx": idx, "out": e.decodeAll(f, true)})
		f.Close()
	}
	sort.Slice(solo, func(a, b int) bool { return solo[a]["idx"].(int) < solo[b]["idx"].(int) })
	row["solo"] = solo
	// searches first (they are what production code does), for every height, both option values
	searches := []map[string]interface{}{}
	for h := int64(0); h <= e.maxH()+1; h++ {
		for _, ign := range []bool{true, false} {
			gr, found, err := e.wal.SearchForEndHeight(h, &WALSearchOptions{IgnoreDataCorruptionErrors: ign})
			s := map[string]interface{}{"h": h, "ign": ign, "found": found, "err": c15Err(err), "rest": []int{}}
			if gr != nil {
				if found {
					s["rest"] = e.decodeAll(gr, false)
				}
				gr.Close()
			}
			searches = append(searches, s)
		}
	}
	row["search"] = searches
	// group readers from every index the group knows
	reads := []map[string]interface{}{}
	for idx := g.MinIndex(); idx <= g.MaxIndex(); idx++ {
		gr, err := g.NewReader(idx)
		if err != nil {
			continue
		}
		reads = append(reads, map[string]interface{}{"idx": idx, "out": e.decodeAll(gr, false)})
		gr.Close()
	}
	row["reads"] = reads
	e.emit(m, row)
}

func (e *c15Env) doSearch(h int64) {
	if e.wal == nil {
		return
	}
	m := e.mark()
	gr, found, err := e.wal.SearchForEndHeight(h, &WALSearchOptions{IgnoreDataCorruptionErrors: true})
	rest := []int{}
	if gr != nil {
		if found {
			rest = e.decodeAll(gr, false)
		}
		gr.Close()
	}
	e.emit(m, map[string]interface{}{"ev": "Search", "h": h, "ign": true, "found": found, "err": c15Err(err), "rest": rest})
}

// ------------------------------------------------------------------ crash, damage

// record structure of the unsynced region of the head file
func (e *c15Env) unsyncedItems() []c15Item {
	data, err := os.ReadFile(e.walPath())
	if err != nil || int64(len(data)) <= e.synced {
		return nil
	}
	return e.jr.align(data[e.synced:], false)
}

func c15TornBytes(tk int, size int) int {
	switch {
	case tk <= 0:
		return 0
	case tk < 4:
		return tk
	case tk < 8:
		return tk
	default:
		n := 8 + (size-8)/2
		if n >= size {
			n = size - 1
		}
		if n < 8 {
			n = 8
		}
		return n
	}
}

// keepFor maps the model's (j, tk) to a byte offset of the real head file
func (e *c15Env) keepFor(j, tk int) int64 {
	its := e.unsyncedItems()
	keep := e.synced
	if j > len(its) {
		j = len(its)
	}
	for k := 0; k < j; k++ {
		keep += int64(its[k].Size)
	}
	if j < len(its) && tk > 0 {
		sz := its[j].Size
		tb := c15TornBytes(tk, sz)
		if its[j].St == "torn" || tb >= sz { // the flushed part of a record split by the buffer
			tb = sz
			if its[j].St != "torn" {
				tb = sz - 1
			}
		}
		keep += int64(tb)
	}
	return keep
}

func c15CopyFile(src, dst string, limit int64) {
	data, err := os.ReadFile(src)
	if err != nil {
		panic(err)
	}
	if limit >= 0 && int64(len(data)) > limit {
		data = data[:limit]
	}
	f, err := os.OpenFile(dst, os.O_WRONLY|os.O_CREATE|os.O_TRUNC, 0o600)
	if err != nil {
		panic(err)
	}
	if _, err := f.Write(data); err != nil {
		panic(err)
	}
	// what a crash leaves behind is on the disk by definition
	if err := f.Sync(); err != nil {
		panic(err)
	}
	f.Close()
}

// crashInto fills `to` (a fork or e itself with a new directory) with what survives
func (e *c15Env) crashInto(to *c15Env, keep int64) {
	m := to.mark()
	its := e.unsyncedItems()
	// position of the cut in records
	j, tk, acc := 0, 0, e.synced
	for _, it := range its {
		if it.St == "good" && acc+int64(it.Size) <= keep {
			acc += int64(it.Size)
			j++
			continue
		}
		// a partial record (cut here, or the flushed part of a record split by the buffer)
		tk = int(keep - acc)
		if tk > it.Size {
			tk = it.Size
		}
		break
	}
	es, _ := os.ReadDir(e.dir)
	for _, en := range es {
		if !strings.HasPrefix(en.Name(), "wal") {
			continue
		}
		lim := int64(-1)
		if en.Name() == "wal" {
			lim = keep
		}
		c15CopyFile(filepath.Join(e.dir, en.Name()), filepath.Join(to.dir, en.Name()), lim)
	}
	to.wal = nil
	to.synced = keep
	if to.pendingEH {
		to.pendingEH = false
	}
	to.curH = to.topH + 1
	to.emit(m, map[string]interface{}{"ev": "Crash", "keep": keep, "j": j, "tk": tk, "from": e.synced})
}

func (e *c15Env) doCrash(keep int64) {
	if e.wal == nil {
		return
	}
	old := &c15Env{sh: e.sh, dir: e.dir, jr: e.jr, wal: e.wal, synced: e.synced}
	e.dir = e.sh.newDir()
	old.crashInto(e, keep)
	old.abandon()
}

func (e *c15Env) itemsOf(file int) ([]c15Item, string) {
	name := "wal"
	if file >= 0 {
		name = fmt.Sprintf("wal.%03d", file)
	}
	data, err := os.ReadFile(filepath.Join(e.dir, name))
	if err != nil {
		return nil, name
	}
	return e.jr.align(data, false), name
}

func (e *c15Env) doCorrupt(file, pos int, cls string, off int) bool {
	if e.wal != nil {
		return false
	}
	its, name := e.itemsOf(file)
	if pos < 1 || pos > len(its) || its[pos-1].St != "good" {
		return false
	}
	start := 0
	for k := 0; k < pos-1; k++ {
		start += its[k].Size
	}
	sz := its[pos-1].Size
	if off < 0 {
		switch cls {
		case "crc":
			off = e.sh.rng.Intn(4)
		case "len":
			off = 4 + e.sh.rng.Intn(4)
		default:
			off = 8 + e.sh.rng.Intn(sz-8)
		}
	}
	if off >= sz {
		return false
	}
	switch {
	case off < 4:
		cls = "crc"
	case off < 8:
		cls = "len"
	default:
		cls = "data"
	}
	m := e.mark()
	path := filepath.Join(e.dir, name)
	data, _ := os.ReadFile(path)
	flip := byte(1) << uint(e.sh.rng.Intn(8))
	data[start+off] ^= flip
	f, err := os.OpenFile(path, os.O_WRONLY|os.O_TRUNC, 0o600)
	if err != nil {
		panic(err)
	}
	f.Write(data)
	f.Sync()
	f.Close()
	e.emit(m, map[string]interface{}{"ev": "Corrupt", "file": file, "pos": pos, "cls": cls, "off": off})
	return true
}

// ------------------------------------------------------------------ restart through State.OnStart

type c15Ticker struct {
	mtx   sync.Mutex
	sched []timeoutInfo
	c     chan timeoutInfo
}

func newC15Ticker() *c15Ticker                { return &c15Ticker{c: make(chan timeoutInfo)} }
func (t *c15Ticker) Start() error             { return nil }
func (t *c15Ticker) Stop() error              { return nil }
func (t *c15Ticker) Chan() <-chan timeoutInfo { return t.c }
func (t *c15Ticker) SetLogger(log.Logger)     {}
func (t *c15Ticker) ScheduleTimeout(ti timeoutInfo) {
	t.mtx.Lock()
	t.sched = append(t.sched, ti)
	t.mtx.Unlock()
}

// captures what OnStart / catchupReplay report (the only place their outcome is visible)
type c15Log struct {
	mtx  sync.Mutex
	msgs []string
}

func (l *c15Log) add(level, msg string, kv []interface{}) {
	l.mtx.Lock()
	s := level + ":" + msg
	for i := 0; i+1 < len(kv); i += 2 {
		if k, ok := kv[i].(string); ok && k == "err" {
			s += " err=" + fmt.Sprint(kv[i+1])
		}
	}
	l.msgs = append(l.msgs, s)
	l.mtx.Unlock()
}
func (l *c15Log) Debug(msg string, kv ...interface{}) {}
func (l *c15Log) Info(msg string, kv ...interface{})  { l.add("I", msg, kv) }
func (l *c15Log) Error(msg string, kv ...interface{}) { l.add("E", msg, kv) }
func (l *c15Log) With(kv ...interface{}) log.Logger   { return l }
func (l *c15Log) has(sub string) bool {
	l.mtx.Lock()
	defer l.mtx.Unlock()
	for _, m := range l.msgs {
		if strings.Contains(m, sub) {
			return true
		}
	}
	return false
}

func (sh *c15Shared) config(walFile string) *cfg.Config {
	c := *sh.conf
	cc := *sh.conf.Consensus
	c.Consensus = &cc
	c.Consensus.SetWalFile(walFile)
	// as in DefaultConsensusConfig: the next height is entered through the logged (and replayed)
	// round-0 timeout, not inside the handling of the previous height's last precommit
	c.Consensus.SkipTimeoutCommit = false
	return &c
}

// classify what the real OnStart did from what it returned and logged
func c15StartResult(err error, lg *c15Log) string {
	switch {
	case err != nil && IsDataCorruptionError(err):
		return "fail"
	case err != nil:
		return "other"
	case lg.has("WAL does not contain #ENDHEIGHT"):
		return "nomarker"
	case lg.has("wal should not contain #ENDHEIGHT"):
		return "hasend"
	case lg.has("error on catchup replay"):
		return "othererr"
	case lg.has("Replay: Done"):
		return "ok"
	}
	return "unknown"
}

// Reopen = State.OnStart on the files (OpenWAL, catchupReplay, repair), Stop, and the WAL
// re-opened by the harness with its small limits for the rest of the schedule.  When cs is nil
// a throw-away State without a validator key is used: the records of the WAL-level drivers
// replay into no-ops.  Returns the State (stopped) for the node-level driver to project.
func (e *c15Env) doReopen(mk func(conf *cfg.Config) *State) {
	if e.wal != nil {
		return
	}
	m := e.mark()
	e.sh.reopens++
	csH := e.topH + 1
	conf := e.sh.config(e.walPath())
	var cs *State
	node := mk != nil
	if node {
		cs = mk(conf)
	} else {
		cs = newStateWithConfig(conf, e.sh.genState, nil, counter.NewApplication(true))
		cs.Height = csH
	}
	lg := &c15Log{}
	cs.SetLogger(lg)
	cs.SetTimeoutTicker(newC15Ticker())
	nrec := len(e.jr.recs)
	err := cs.Start()
	m2 := e.mark() // OnStart has returned: what is durable NOW matters (the harness stops the node below)
	res := c15StartResult(err, lg)
	row := map[string]interface{}{"ev": "Reopen", "csH": cs.Height, "res": res, "node": node, "m2": m2,
		"repairlog": lg.has("successful WAL repair"), "precheck": lg.has("ends with an incomplete or corrupted record")}
	if node {
		row["rs"] = c15ProjectRS(cs)
	}
	if err == nil {
		_ = cs.Stop()
		cs.Wait()
	}
	if w, ok := cs.wal.(*BaseWAL); ok {
		c15CloseWal(w)
	}
	_ = cs.eventBus.Stop()
	e.curH = csH
	e.failed = res == "fail" || res == "other"
	if !e.failed {
		if err := e.openTapped(); err != nil {
			e.sh.t.Fatalf("C15: reopening the WAL: %v", err)
		}
		e.synced = e.headSize()
	}
	post := e.project() // discovers the records OnStart and the replay wrote
	wrote := []map[string]interface{}{}
	for _, r := range e.jr.recs[nrec:] {
		wrote = append(wrote, e.recJSON(r))
	}
	row["wrote"] = wrote
	row["m"] = m
	row["dir"] = filepath.Base(e.dir)
	row["post"] = post
	e.emitRaw(row)
}

// ------------------------------------------------------------------ schedules

func (e *c15Env) step(s c15Step) {
	switch s.Op {
	case "Reopen":
		e.doReopen(nil)
	case "Write":
		e.doWrite(s.Kind, s.Big, false)
	case "WriteSync":
		e.doWrite(s.Kind, s.Big, true)
	case "WriteRot":
		e.doWriteRot(s.Kind, s.Big, s.Sync, s.K)
	case "Flush":
		e.doFlush()
	case "FlushHalf":
		e.doFlushHalf()
	case "CheckHead":
		e.doCheckHead()
	case "CheckTotal":
		e.doCheckTotal()
	case "Search":
		e.doSearch(s.H)
	case "Stop":
		e.doStop()
	case "Observe":
		e.doObserve()
	case "Crash":
		if e.wal != nil {
			keep := s.Keep
			if keep <= 0 {
				keep = e.keepFor(s.J, s.Tk)
			}
			e.doCrash(keep)
		}
	case "Corrupt":
		e.doCorrupt(s.File, s.Pos, s.Cls, -1)
	default:
		e.sh.t.Fatalf("C15: unknown op %q", s.Op)
	}
}

func (e *c15Env) finish() {
	e.abandon()
}

func (sh *c15Shared) runSched(s c15Sched) {
	sh.fast = s.Fast
	defer func() { sh.fast = false }()
	e := sh.newEnv(s.HeadLimit, s.TotalLimit, s.Name)
	for _, st := range s.Steps {
		e.step(st)
	}
	e.finish()
}

// representative offsets of a region: all of them when stride == 1
func c15Offsets(from, to int64, stride int) []int64 {
	var out []int64
	if stride <= 1 {
		for o := from; o <= to; o++ {
			out = append(out, o)
		}
		return out
	}
	seen := map[int64]bool{}
	add := func(o int64) {
		if o >= from && o <= to && !seen[o] {
			seen[o] = true
			out = append(out, o)
		}
	}
	for o := from; o <= to; o += int64(stride) {
		add(o)
	}
	for d := int64(0); d <= 9; d++ {
		add(from + d)
		add(to - d)
	}
	sort.Slice(out, func(a, b int) bool { return out[a] < out[b] })
	return out
}

func (sh *c15Shared) runEnum(en c15Enum) {
	e := sh.newEnv(en.HeadLimit, en.TotalLimit, en.Name)
	for _, st := range en.Prefix {
		e.step(st)
	}
	switch en.Mode {
	case "crash":
		if e.wal == nil {
			break
		}
		// offsets of record boundaries and header fields inside the unsynced region
		offs := c15Offsets(e.synced, e.headSize(), en.Stride)
		if en.Stride > 1 {
			acc := e.synced
			for _, it := range e.unsyncedItems() {
				for _, d := range []int64{0, 1, 3, 4, 7, 8, 9} {
					if d < int64(it.Size) {
						offs = append(offs, acc+d)
					}
				}
				acc += int64(it.Size)
				offs = append(offs, acc-1)
			}
			sort.Slice(offs, func(a, b int) bool { return offs[a] < offs[b] })
			uniq := offs[:0]
			for i, o := range offs {
				if (i == 0 || o != offs[i-1]) && o >= e.synced && o <= e.headSize() {
					uniq = append(uniq, o)
				}
			}
			offs = uniq
		}
		for _, o := range offs {
			f := e.fork(fmt.Sprintf("%s@%d", en.Name, o))
			e.crashInto(f, o)
			for _, st := range en.Suffix {
				f.step(st)
			}
			if len(en.Inner) > 0 && f.wal != nil {
				// a second crash at the offset classes of its own unsynced region
				its := f.unsyncedItems()
				inner := []int64{f.synced, f.headSize()}
				if len(its) > 0 {
					sz := int64(its[0].Size)
					for _, d := range []int64{2, 6, 9, sz - 1} {
						if d > 0 && d < sz {
							inner = append(inner, f.synced+d)
						}
					}
				}
				for _, o2 := range inner {
					if o2 < f.synced || o2 > f.headSize() {
						continue
					}
					f2 := f.fork(fmt.Sprintf("%s@%d@%d", en.Name, o, o2))
					f.crashInto(f2, o2)
					for _, st := range en.Inner {
						f2.step(st)
					}
					f2.finish()
				}
			}
			f.finish()
		}
	case "corrupt":
		if e.wal != nil {
			e.doStop()
		}
		its, _ := e.itemsOf(en.File)
		if en.Pos < 1 || en.Pos > len(its) {
			break
		}
		stride := en.Stride
		if stride < 1 {
			stride = 1
		}
		for off := 0; off < its[en.Pos-1].Size; off += stride {
			f := e.fork(fmt.Sprintf("%s@%d", en.Name, off))
			es, _ := os.ReadDir(e.dir)
			for _, x := range es {
				if strings.HasPrefix(x.Name(), "wal") {
					c15CopyFile(filepath.Join(e.dir, x.Name()), filepath.Join(f.dir, x.Name()), -1)
				}
			}
			f.wal = nil
			if f.doCorrupt(en.File, en.Pos, "", off) {
				for _, st := range en.Suffix {
					f.step(st)
				}
			}
			f.finish()
		}
	}
	e.finish()
}

// seeded random WAL-level histories
func (sh *c15Shared) runRandom(k int) {
	rng := sh.rng
	limits := [][2]int64{{0, 0}, {150, 0}, {150, 400}, {120, 300}, {60000, 130000}}
	lim := limits[rng.Intn(len(limits))]
	e := sh.newEnv(lim[0], lim[1], fmt.Sprintf("random-%d", k))
	e.step(c15Step{Op: "Reopen"})
	n := 6 + rng.Intn(18)
	crashes := 0
	for i := 0; i < n; i++ {
		if e.wal == nil {
			if e.failed {
				break
			}
			if rng.Intn(5) == 0 {
				its, _ := e.itemsOf(-1)
				file := -1
				if rng.Intn(2) == 0 {
					if es, _ := os.ReadDir(e.dir); len(es) > 1 {
						for _, x := range es {
							if idx, ok := c15ParseIdx(x.Name()); ok && rng.Intn(2) == 0 {
								file = idx
								its, _ = e.itemsOf(idx)
								break
							}
						}
					}
				}
				if len(its) > 0 {
					e.doCorrupt(file, 1+rng.Intn(len(its)), []string{"crc", "len", "data"}[rng.Intn(3)], -1)
				}
			}
			e.step(c15Step{Op: "Reopen"})
			e.step(c15Step{Op: "Observe"})
			continue
		}
		switch x := rng.Intn(20); {
		case x < 5:
			if rng.Intn(4) == 0 {
				e.doWriteRot("in", false, rng.Intn(2) == 0, 1) // the size check fires right behind the group write
			} else {
				e.doWrite("in", rng.Intn(12) == 0, false)
			}
		case x < 7:
			e.doWrite("rs", rng.Intn(12) == 0, false)
		case x < 10:
			e.doWrite("in", false, true)
		case x < 12:
			e.doWrite("eh", false, true)
		case x < 13:
			e.doFlush()
		case x < 14:
			e.doFlushHalf()
		case x < 16:
			e.doCheckHead()
		case x < 17:
			e.doCheckTotal()
		case x < 18:
			e.doObserve()
		case x < 19 && crashes < 3:
			crashes++
			if rng.Intn(3) == 0 {
				e.doFlushHalf()
			}
			keep := e.synced
			if hs := e.headSize(); hs > e.synced {
				keep = e.synced + rng.Int63n(hs-e.synced+1)
			}
			e.doCrash(keep)
		default:
			e.doStop()
		}
	}
	if e.wal == nil && !e.failed {
		e.step(c15Step{Op: "Reopen"})
	}
	e.step(c15Step{Op: "Observe"})
	e.finish()
}

// ------------------------------------------------------------------ node level (ReplayRestores)

func c15Hash(b []byte) string {
	if len(b) == 0 {
		return "nil"
	}
	return hex.EncodeToString(b[:6])
}

func c15VoteSetString(vs *types.VoteSet) string {
	if vs == nil {
		return "-"
	}
	var sb strings.Builder
	for i := 0; i < vs.Size(); i++ {
		v := vs.GetByIndex(int32(i))
		if v == nil {
			sb.WriteString("_")
		} else {
			sb.WriteString(c15Hash(v.BlockID.Hash))
		}
		sb.WriteString(",")
	}
	if id, ok := vs.TwoThirdsMajority(); ok {
		sb.WriteString("maj=" + c15Hash(id.Hash))
	}
	return sb.String()
}

// the projection of consensus.State the property talks about: height, round, step, lock, valid
// block, proposal, votes
func c15ProjectRS(cs *State) map[string]interface{} {
	rs := cs.GetRoundState()
	p := map[string]interface{}{
		"height": rs.Height, "round": int(rs.Round), "step": rs.Step.String(),
		"lockedRound": int(rs.LockedRound), "validRound": int(rs.ValidRound), "commitRound": int(rs.CommitRound),
		"lockedBlock": "nil", "validBlock": "nil", "proposalBlock": "nil", "proposal": "nil",
		"ttp": rs.TriggeredTimeoutPrecommit, "parts": "nil",
	}
	if rs.LockedBlock != nil {
		p["lockedBlock"] = c15Hash(rs.LockedBlock.Hash())
	}
	if rs.ValidBlock != nil {
		p["validBlock"] = c15Hash(rs.ValidBlock.Hash())
	}
	if rs.ProposalBlock != nil {
		p["proposalBlock"] = c15Hash(rs.ProposalBlock.Hash())
	}
	if rs.Proposal != nil {
		p["proposal"] = fmt.Sprintf("%s/%d/%d", c15Hash(rs.Proposal.BlockID.Hash), rs.Proposal.Round, rs.Proposal.POLRound)
	}
	if rs.ProposalBlockParts != nil {
		p["parts"] = fmt.Sprintf("%s:%s", c15Hash(rs.ProposalBlockParts.Hash()), rs.ProposalBlockParts.BitArray().String())
	}
	var sb strings.Builder
	if rs.Votes != nil {
		for r := int32(0); r <= rs.Round+1; r++ {
			sb.WriteString(fmt.Sprintf("r%d pv[%s] pc[%s];", r, c15VoteSetString(rs.Votes.Prevotes(r)),
				c15VoteSetString(rs.Votes.Precommits(r))))
		}
	}
	p["votes"] = sb.String()
	p["lastCommit"] = c15VoteSetString(rs.LastCommit)
	return p
}

// wal.Write / WriteSync / FlushAndSync of the running node pass through here: one trace line each
type c15TapWAL struct {
	e *c15Env
}

func (w *c15TapWAL) emitOp(m int, ev string, err error) {
	row := map[string]interface{}{"ev": ev, "err": c15Err(err)}
	if ev != "FlushAndSync" {
		r, gw := w.e.tee().take()
		if r == nil {
			r = w.e.jr.addPhantom("in", w.e.curH)
		}
		row["rec"] = w.e.recJSON(r)
		row["nw"], row["gw"], row["rot"], row["rotated"] = len(gw), gw, 0, false
	}
	w.e.emit(m, row)
}

func (w *c15TapWAL) Write(msg WALMessage) error {
	e := w.e
	m := e.mark()
	e.tee().chunks = nil
	err := e.wal.Write(msg)
	w.emitOp(m, "Write", err)
	return err
}

func (w *c15TapWAL) WriteSync(msg WALMessage) error {
	e := w.e
	m := e.mark()
	e.tee().chunks = nil
	err := e.wal.WriteSync(msg)
	if err == nil {
		e.synced = e.headSize()
	}
	if eh, ok := msg.(EndHeightMessage); ok {
		e.topH = eh.Height
	}
	w.emitOp(m, "WriteSync", err)
	return err
}

func (w *c15TapWAL) FlushAndSync() error {
	e := w.e
	m := e.mark()
	err := e.wal.FlushAndSync()
	if err == nil {
		e.synced = e.headSize()
	}
	w.emitOp(m, "FlushAndSync", err)
	return err
}

func (w *c15TapWAL) SearchForEndHeight(h int64, o *WALSearchOptions) (io.ReadCloser, bool, error) {
	return w.e.wal.SearchForEndHeight(h, o)
}
func (w *c15TapWAL) Start() error { return nil }
func (w *c15TapWAL) Stop() error  { return nil }
func (w *c15TapWAL) Wait()        {}

type c15Node struct {
	e      *c15Env
	cs     *State
	vss    []*validatorStub
	ticker *c15Ticker
	rng    *rand.Rand
	state  sm.State
	db     dbm.DB
	app    *counter.Application
	nstep  int
	last   *c15Rec // the record of the input being handled
}

// the three cases of receiveRoutine, executed by the driver (the routine is not started)
func (n *c15Node) input(kind string, mi msgInfo, ti timeoutInfo) {
	e := n.e
	nrec := len(e.jr.recs)
	switch kind {
	case "peer":
		_ = n.cs.wal.Write(mi)
		n.cs.handleMsg(mi)
	case "internal":
		if err := n.cs.wal.WriteSync(mi); err != nil {
			e.sh.t.Fatalf("C15: WriteSync: %v", err)
		}
		n.cs.handleMsg(mi)
	case "timeout":
		rs := n.cs.RoundState
		_ = n.cs.wal.Write(ti)
		n.cs.handleTimeout(ti, rs)
	}
	for len(n.cs.statsMsgQueue) > 0 {
		<-n.cs.statsMsgQueue
	}
	n.nstep++
	id := 0
	if len(e.jr.recs) > nrec {
		id = e.jr.recs[nrec].ID
	}
	e.emitRaw(map[string]interface{}{"ev": "NodeState", "input": id, "kind": kind, "rs": c15ProjectRS(n.cs),
		"synced": e.synced, "hsize": e.headSize()})
}

func (n *c15Node) drainInternal() {
	for {
		select {
		case mi := <-n.cs.internalMsgQueue:
			n.input("internal", mi, timeoutInfo{})
		default:
			return
		}
	}
}

func (n *c15Node) fireTimeout(pick func([]timeoutInfo) int) bool {
	n.ticker.mtx.Lock()
	sched := n.ticker.sched
	n.ticker.mtx.Unlock()
	if len(sched) == 0 {
		return false
	}
	k := pick(sched)
	ti := sched[k]
	n.ticker.mtx.Lock()
	n.ticker.sched = append(append([]timeoutInfo{}, n.ticker.sched[:k]...), n.ticker.sched[k+1:]...)
	n.ticker.mtx.Unlock()
	n.input("timeout", msgInfo{}, ti)
	n.drainInternal()
	return true
}

func (n *c15Node) stubVote(i int, t tmproto.SignedMsgType, round int32, blockID types.BlockID) {
	vs := n.vss[i]
	vs.Height = n.cs.Height
	vs.Round = round
	v := signVote(vs, t, blockID.Hash, blockID.PartSetHeader)
	n.input("peer", msgInfo{Msg: &VoteMessage{v}, PeerID: "stub"}, timeoutInfo{})
	n.drainInternal()
}

// the proposal of a stub proposer for the current round, with its parts
func (n *c15Node) stubProposal(round int32) (types.BlockID, bool) {
	cs := n.cs
	prop := cs.Validators.GetProposer()
	for i := 1; i < len(n.vss); i++ {
		pk, _ := n.vss[i].GetPubKey()
		if !bytes.Equal(pk.Address(), prop.Address) {
			continue
		}
		n.vss[i].Height = cs.Height
		n.vss[i].Round = round
		proposal, block := decideProposal(cs, n.vss[i], cs.Height, round)
		parts := block.MakePartSet(types.BlockPartSizeBytes)
		n.input("peer", msgInfo{Msg: &ProposalMessage{proposal}, PeerID: "stub"}, timeoutInfo{})
		for k := 0; k < int(parts.Total()); k++ {
			n.input("peer", msgInfo{Msg: &BlockPartMessage{cs.Height, round, parts.GetPart(k)}, PeerID: "stub"}, timeoutInfo{})
		}
		n.drainInternal()
		return types.BlockID{Hash: block.Hash(), PartSetHeader: parts.Header()}, true
	}
	return types.BlockID{}, false
}

func (n *c15Node) currentBlockID() (types.BlockID, bool) {
	cs := n.cs
	if cs.ProposalBlock != nil && cs.ProposalBlockParts != nil {
		return types.BlockID{Hash: cs.ProposalBlock.Hash(), PartSetHeader: cs.ProposalBlockParts.Header()}, true
	}
	if cs.LockedBlock != nil {
		return types.BlockID{Hash: cs.LockedBlock.Hash(), PartSetHeader: cs.LockedBlockParts.Header()}, true
	}
	return types.BlockID{}, false
}

// one random environment move; the node reacts as it will
func (n *c15Node) randomMove() {
	cs, rng := n.cs, n.rng
	round := cs.Round
	switch x := rng.Intn(10); {
	case x < 2:
		n.fireTimeout(func(s []timeoutInfo) int {
			if rng.Intn(3) == 0 {
				return rng.Intn(len(s))
			}
			return len(s) - 1
		})
	case x < 3:
		if cs.Proposal == nil {
			n.stubProposal(round)
		}
	default:
		t := tmproto.PrevoteType
		if cs.Step >= cstypes.RoundStepPrecommit || rng.Intn(4) == 0 {
			t = tmproto.PrecommitType
		}
		bid, ok := n.currentBlockID()
		if !ok || rng.Intn(4) == 0 {
			bid = types.BlockID{}
		}
		r := round
		if rng.Intn(8) == 0 {
			r = round + 1
		}
		n.stubVote(1+rng.Intn(len(n.vss)-1), t, r, bid)
	}
	if rng.Intn(3) == 0 && n.e.headLimit > 0 {
		n.e.doCheckHead()
	}
}

// drive one height to its commit along the happy path
func (n *c15Node) commitHeight() bool {
	cs := n.cs
	h := cs.Height
	for guard := 0; guard < 60 && cs.Height == h; guard++ {
		switch {
		case cs.Step == cstypes.RoundStepNewHeight || cs.Step == cstypes.RoundStepNewRound:
			if !n.fireTimeout(func(s []timeoutInfo) int { return len(s) - 1 }) {
				return false
			}
		case cs.Proposal == nil || cs.ProposalBlock == nil:
			if _, ok := n.stubProposal(cs.Round); !ok {
				// the node itself is the proposer: its proposal is in the internal queue
				n.drainInternal()
				if cs.ProposalBlock == nil && !n.fireTimeout(func(s []timeoutInfo) int { return len(s) - 1 }) {
					return false
				}
			}
		case cs.Step <= cstypes.RoundStepPrevoteWait:
			bid, ok := n.currentBlockID()
			if !ok {
				return false
			}
			for i := 1; i < len(n.vss) && cs.Step <= cstypes.RoundStepPrevoteWait && cs.Height == h; i++ {
				n.stubVote(i, tmproto.PrevoteType, cs.Round, bid)
			}
		default:
			bid, ok := n.currentBlockID()
			if !ok {
				return false
			}
			for i := 1; i < len(n.vss) && cs.Height == h; i++ {
				n.stubVote(i, tmproto.PrecommitType, cs.Round, bid)
			}
		}
	}
	return cs.Height == h+1
}

func (sh *c15Shared) runNode(k int, in c15NodeIn) {
	rng := rand.New(rand.NewSource(sh.rng.Int63()))
	if in.HeadLimit == 0 {
		in.HeadLimit = []int64{0, 2500, 1200}[k%3]
	}
	e := sh.newEnv(in.HeadLimit, 0, fmt.Sprintf("node-%d", k))
	state, privVals := randGenesisState(4, false, 10)
	vss := make([]*validatorStub, 4)
	for i := range vss {
		vss[i] = newValidatorStub(privVals[i], int32(i))
	}
	db := dbm.NewMemDB()
	app := counter.NewApplication(true)
	conf := sh.config(e.walPath())
	cs := newStateWithConfigAndBlockStore(conf, state, privVals[0], app, db)
	cs.SetLogger(log.NewNopLogger())
	ticker := newC15Ticker()
	cs.SetTimeoutTicker(ticker)
	// what State.OnStart does for a fresh node: open the WAL (EndHeightMessage{0}), schedule round 0
	m := e.mark()
	if err := e.openTapped(); err != nil {
		sh.t.Fatal(err)
	}
	e.synced = e.headSize()
	wrote := []map[string]interface{}{}
	post := e.project()
	for _, r := range e.jr.recs {
		wrote = append(wrote, e.recJSON(r))
	}
	e.emitRaw(map[string]interface{}{"ev": "Reopen", "csH": cs.Height, "res": "ok", "node": true, "repairlog": false,
		"precheck": false, "rs": c15ProjectRS(cs), "wrote": wrote, "m": m, "m2": e.mark(), "dir": filepath.Base(e.dir),
		"post": post})
	cs.wal = &c15TapWAL{e}
	cs.scheduleRound0(cs.GetRoundState())
	n := &c15Node{e: e, cs: cs, vss: vss, ticker: ticker, rng: rng, state: state, db: db, app: app}

	// some committed heights first, then a random walk inside the last one
	ncommit := 0
	if k%2 == 1 {
		ncommit = 1 + rng.Intn(2)
	}
	for hh := 0; hh < ncommit; hh++ {
		if !n.commitHeight() {
			break
		}
		if in.HeadLimit > 0 && rng.Intn(2) == 0 {
			e.doCheckHead()
		}
	}
	finalH := cs.Height
	type snap struct {
		dir    string
		synced int64
		hsize  int64
		nrows  int
	}
	var snaps []snap
	takeSnap := func() {
		// what the kernel has may be anything up to the last write: hand the buffer over (no
		// fsync), so that the crash offsets below range over every record written since the last sync
		e.doFlushHalf()
		d := sh.newDir()
		es, _ := os.ReadDir(e.dir)
		for _, x := range es {
			if strings.HasPrefix(x.Name(), "wal") {
				c15CopyFile(filepath.Join(e.dir, x.Name()), filepath.Join(d, x.Name()), -1)
			}
		}
		snaps = append(snaps, snap{d, e.synced, e.headSize(), len(e.rows)})
	}
	takeSnap()
	for i := 0; i < in.Steps && cs.Height == finalH; i++ {
		before := len(e.rows)
		n.randomMove()
		if cs.Height != finalH {
			// the walk committed the height: crash points stay inside finalH, drop the tail
			_ = before
			break
		}
		takeSnap()
	}
	if cs.Height != finalH {
		// restart the bookkeeping at the new height: only its beginning is a crash point
		finalH = cs.Height
		snaps = nil
		takeSnap()
	}
	topH := e.topH
	rows := e.rows
	jr := e.jr
	e.abandon()
	_ = cs.eventBus.Stop()

	// every snapshot is a crash point; the unsynced tail is cut at a few offsets
	stateStore := sm.NewStore(db, sm.StoreOptions{DiscardABCIResponses: false})
	for si, s := range snaps {
		offs := []int64{s.hsize}
		if s.hsize > s.synced {
			offs = append(offs, s.synced, s.synced+rng.Int63n(s.hsize-s.synced+1), s.synced+1, s.hsize-1)
		}
		seen := map[int64]bool{}
		for oi, o := range offs {
			if o < s.synced || o > s.hsize || seen[o] || (in.Offsets > 0 && oi >= in.Offsets) {
				continue
			}
			seen[o] = true
			sh.runs++
			f := &c15Env{sh: sh, run: sh.runs, dir: sh.newDir(), jr: jr.clone(), headLimit: in.HeadLimit, synced: s.synced,
				curH: finalH, topH: topH}
			for i, r := range rows[:s.nrows] {
				c := map[string]interface{}{}
				for kk, v := range r {
					c[kk] = v
				}
				c["run"] = f.run
				if i == 0 {
					c["name"] = fmt.Sprintf("node-%d/s%d@%d", k, si, o)
				}
				f.rows = append(f.rows, c)
				sh.out.write(c)
			}
			src := &c15Env{sh: sh, dir: s.dir, jr: f.jr, synced: s.synced}
			src.crashInto(f, o)
			f.topH = topH
			f.doReopen(func(conf *cfg.Config) *State {
				st, err := stateStore.Load()
				if err != nil {
					sh.t.Fatal(err)
				}
				return newStateWithConfigAndBlockStore(conf, st, nil, app, db)
			})
			f.step(c15Step{Op: "Observe"})
			f.finish()
		}
	}
}

// ------------------------------------------------------------------ entry point

func TestVerifC15(t *testing.T) {
	inPath, outDir := os.Getenv("VERIF_IN"), os.Getenv("VERIF_OUT")
	if inPath == "" || outDir == "" {
		t.Skip("VERIF_IN / VERIF_OUT not set")
	}
	seed, _ := strconv.ParseInt(os.Getenv("VERIF_SEED"), 10, 64)
	raw, err := os.ReadFile(inPath)
	if err != nil {
		t.Fatal(err)
	}
	var in c15Input
	if err := json.Unmarshal(raw, &in); err != nil {
		t.Fatal(err)
	}
	base, err := os.MkdirTemp("", "c15")
	if err != nil {
		t.Fatal(err)
	}
	defer os.RemoveAll(base)
	fastBase := ""
	if fi, err := os.Stat("/dev/shm"); err == nil && fi.IsDir() {
		if d, err := os.MkdirTemp("/dev/shm", "c15"); err == nil {
			fastBase = d
			defer os.RemoveAll(d)
		}
	}
	conf := cfg.ResetTestRoot("c15_verif")
	defer os.RemoveAll(conf.RootDir)
	genState, _ := randGenesisState(1, false, 10)
	sh := &c15Shared{t: t, out: newC15Writer(filepath.Join(outDir, "wal.ndjson")), base: base, conf: conf,
		genState: genState, rng: rand.New(rand.NewSource(seed)), fastBase: fastBase}
	for _, s := range in.Scheds {
		sh.runSched(s)
	}
	for _, en := range in.Enums {
		sh.runEnum(en)
	}
	for k := 0; k < in.Random; k++ {
		sh.runRandom(k)
	}
	nWal := sh.out.n
	sh.out.close()
	sh.out = newC15Writer(filepath.Join(outDir, "node.ndjson"))
	for k := 0; k < in.Node.Runs; k++ {
		sh.runNode(k, in.Node)
	}
	sh.out.close()
	t.Logf("C15 harness: %d runs, %d wal-level lines, %d node-level lines, %d restarts through State.OnStart",
		sh.runs, nWal, sh.out.n, sh.reopens)
}
