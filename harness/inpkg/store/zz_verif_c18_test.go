//go:build verif

package store

// C18 harness, block store + state store (library: zz_verif_c18_lib.go).

import (
	"os"
	"strconv"
	"testing"
)

func TestVerifC18(t *testing.T) {
	inPath, outDir := os.Getenv("VERIF_IN"), os.Getenv("VERIF_OUT")
	if inPath == "" || outDir == "" {
		t.Skip("VERIF_IN / VERIF_OUT not set")
	}
	seed, _ := strconv.ParseInt(os.Getenv("VERIF_SEED"), 10, 64)
	if err := C18Main(inPath, outDir+"/store.ndjson", seed, nil, t.Logf); err != nil {
		t.Fatal(err)
	}
}
