//go:build verif

package store

// C18 harness library (see /verif/DESIGN.md section 5, C18; spec/TMStore.tla).  Not a _test
// file so that the driver in package consensus (which may import store, not vice versa) can
// use it; it is only ever compiled with -tags verif through `go test -overlay`.
//
// Runs histories of saves, block applications and prunes on the REAL store.BlockStore and
// the REAL state store (through the real BlockExecutor.ApplyBlock) over a journalling
// dbm.DB wrapper that records every single DB write (batches flattened in order).  For
// every prefix k of the journal of every operation the disk image "first k writes" is
// rebuilt in a fresh MemDB, both stores are reopened on it (NewBlockStore / NewStore) and
// every loader is called for every height; what they return is PROJECTED to the abstract
// record of TMStore!Proj and written as NDJSON.  TLC (spec/trace/TMStoreTrace.tla) decides
// conformance and the C18 property on these observations; this file makes no judgements.

import (
	"bytes"
	"crypto/sha256"
	"encoding/binary"
	"encoding/hex"
	"encoding/json"
	"fmt"
	"hash"
	"math/rand"
	"os"
	"sort"
	"strconv"
	"strings"
	"time"

	"github.com/gogo/protobuf/proto"
	dbm "github.com/tendermint/tm-db"

	abci "github.com/tendermint/tendermint/abci/types"
	"github.com/tendermint/tendermint/crypto/ed25519"
	"github.com/tendermint/tendermint/libs/log"
	mmock "github.com/tendermint/tendermint/mempool/mock"
	tmstate "github.com/tendermint/tendermint/proto/tendermint/state"
	tmstore "github.com/tendermint/tendermint/proto/tendermint/store"
	tmproto "github.com/tendermint/tendermint/proto/tendermint/types"
	"github.com/tendermint/tendermint/proxy"
	sm "github.com/tendermint/tendermint/state"
	"github.com/tendermint/tendermint/types"
)

// ---------------------------------------------------------------------------------------
// journalling DB

type c18Entry struct {
	db     string // "b" block store DB, "s" state store DB
	del    bool
	key    []byte
	val    []byte
	mb, mh int64 // BlockStore.Base()/Height() of the live store at the moment of the write
}

type c18Journal struct {
	on      bool
	entries []c18Entry
	hook    func() (int64, int64)
}

func (j *c18Journal) rec(db string, del bool, key, val []byte) {
	if !j.on {
		return
	}
	e := c18Entry{db: db, del: del, key: append([]byte{}, key...), val: append([]byte{}, val...)}
	if j.hook != nil {
		e.mb, e.mh = j.hook()
	}
	j.entries = append(j.entries, e)
}

type c18DB struct {
	dbm.DB
	name string
	j    *c18Journal
}

func (d *c18DB) Set(k, v []byte) error {
	if err := d.DB.Set(k, v); err != nil {
		return err
	}
	d.j.rec(d.name, false, k, v)
	return nil
}
func (d *c18DB) SetSync(k, v []byte) error {
	if err := d.DB.SetSync(k, v); err != nil {
		return err
	}
	d.j.rec(d.name, false, k, v)
	return nil
}
func (d *c18DB) Delete(k []byte) error {
	if err := d.DB.Delete(k); err != nil {
		return err
	}
	d.j.rec(d.name, true, k, nil)
	return nil
}
func (d *c18DB) DeleteSync(k []byte) error {
	if err := d.DB.DeleteSync(k); err != nil {
		return err
	}
	d.j.rec(d.name, true, k, nil)
	return nil
}
func (d *c18DB) NewBatch() dbm.Batch { return &c18Batch{d: d} }

type c18BatchOp struct {
	del  bool
	k, v []byte
}

// a batch is NOT atomic here: Write applies (and journals) its operations one by one, in
// the order they were added
type c18Batch struct {
	d      *c18DB
	ops    []c18BatchOp
	closed bool
}

func (b *c18Batch) Set(k, v []byte) error {
	if b.closed {
		return fmt.Errorf("batch has been written or closed")
	}
	b.ops = append(b.ops, c18BatchOp{false, append([]byte{}, k...), append([]byte{}, v...)})
	return nil
}
func (b *c18Batch) Delete(k []byte) error {
	if b.closed {
		return fmt.Errorf("batch has been written or closed")
	}
	b.ops = append(b.ops, c18BatchOp{true, append([]byte{}, k...), nil})
	return nil
}
func (b *c18Batch) Write() error {
	if b.closed {
		return fmt.Errorf("batch has been written or closed")
	}
	for _, o := range b.ops {
		var err error
		if o.del {
			err = b.d.Delete(o.k)
		} else {
			err = b.d.Set(o.k, o.v)
		}
		if err != nil {
			return err
		}
	}
	b.ops = nil
	b.closed = true
	return nil
}
func (b *c18Batch) WriteSync() error { return b.Write() }
func (b *c18Batch) Close() error     { b.closed = true; b.ops = nil; return nil }

func c18Clone(src dbm.DB) *dbm.MemDB {
	dst := dbm.NewMemDB()
	it, err := src.Iterator(nil, nil)
	if err != nil {
		panic(err)
	}
	defer it.Close()
	for ; it.Valid(); it.Next() {
		if err := dst.Set(append([]byte{}, it.Key()...), append([]byte{}, it.Value()...)); err != nil {
			panic(err)
		}
	}
	return dst
}

func c18Digest(h hash.Hash, src dbm.DB) {
	it, err := src.Iterator(nil, nil)
	if err != nil {
		panic(err)
	}
	defer it.Close()
	var n [8]byte
	for ; it.Valid(); it.Next() {
		binary.BigEndian.PutUint64(n[:], uint64(len(it.Key())))
		h.Write(n[:])
		h.Write(it.Key())
		binary.BigEndian.PutUint64(n[:], uint64(len(it.Value())))
		h.Write(n[:])
		h.Write(it.Value())
	}
}

// ---------------------------------------------------------------------------------------
// chain description (model heights; real height = model height + Offset)

type c18Cfg struct {
	Initial   int64   `json:"initial"`
	Boot      int64   `json:"boot"`
	MaxHeight int64   `json:"maxheight"`
	TwoPart   []int64 `json:"twopart"`
	ValChg    []int64 `json:"valchg"`
	ParChg    []int64 `json:"parchg"`
	Offset    int64   `json:"offset"`
	NVals     int     `json:"nvals"`
}

func (c c18Cfg) key() string { b, _ := json.Marshal(c); return string(b) }

func c18Has(s []int64, x int64) bool {
	for _, y := range s {
		if y == x {
			return true
		}
	}
	return false
}

// deterministic application: validator / param changes are a function of the height only,
// so a block can be applied again after a crash
type c18App struct {
	abci.BaseApplication
	cfg  c18Cfg
	pubs []ed25519.PubKey
}

func (a *c18App) EndBlock(req abci.RequestEndBlock) abci.ResponseEndBlock {
	h := req.Height - a.cfg.Offset
	res := abci.ResponseEndBlock{}
	vc := append([]int64{}, a.cfg.ValChg...)
	sort.Slice(vc, func(i, j int) bool { return vc[i] < vc[j] })
	for i, c := range vc {
		if c == h {
			who := i % len(a.pubs)
			res.ValidatorUpdates = []abci.ValidatorUpdate{types.TM2PB.NewValidatorUpdate(a.pubs[who], int64(11+i))}
		}
	}
	pc := append([]int64{}, a.cfg.ParChg...)
	sort.Slice(pc, func(i, j int) bool { return pc[i] < pc[j] })
	for i, c := range pc {
		if c == h {
			res.ConsensusParamUpdates = &abci.ConsensusParams{
				Block: &abci.BlockParams{MaxBytes: 22020096 - int64(i+1)*4096, MaxGas: -1}}
		}
	}
	return res
}

func (a *c18App) Commit() abci.ResponseCommit {
	return abci.ResponseCommit{Data: []byte("c18-app-hash")}
}

type c18Chain struct {
	cfg     c18Cfg
	chainID string
	genDoc  *types.GenesisDoc
	privs   map[string]types.PrivValidator
	pubs    []ed25519.PubKey
	blocks  map[int64]*types.Block   // by REAL height
	parts   map[int64]*types.PartSet // by REAL height
	seen    map[int64]*types.Commit  // commit for the block of that REAL height
	states  map[int64]sm.State       // state after the block of that REAL height; states[first-1] = genesis state
	first   int64                    // real initial height
	last    int64                    // real last height
	// naming tables
	blockID  map[string]int64 // hex(block hash) -> MODEL height
	valsetID map[string]int   // hex(valset hash) -> id
	paramsID map[string]int   // hex(sha256(params proto)) -> id
	lo, hi   int64            // model height domain
	vs, ps   []int            // truth per model height lo..hi
}

func c18ParamsKey(p tmproto.ConsensusParams) string {
	bz, err := p.Marshal()
	if err != nil {
		panic(err)
	}
	s := sha256.Sum256(bz)
	return hex.EncodeToString(s[:])
}

func (ch *c18Chain) newExecutor(ss sm.Store) (*sm.BlockExecutor, proxy.AppConns) {
	app := &c18App{cfg: ch.cfg, pubs: ch.pubs}
	pa := proxy.NewAppConns(proxy.NewLocalClientCreator(app))
	pa.SetLogger(log.NewNopLogger())
	if err := pa.Start(); err != nil {
		panic(err)
	}
	return sm.NewBlockExecutor(ss, log.NewNopLogger(), pa.Consensus(), mmock.Mempool{}, sm.EmptyEvidencePool{}), pa
}

// state store used ONLY while generating the chain: keeps the validator sets in memory, so
// that the chain (the ground truth) does not depend on the persistence code under test
type c18GenStore struct {
	vals map[int64]*types.ValidatorSet
}

func (g *c18GenStore) LoadFromDBOrGenesisFile(string) (sm.State, error) { return sm.State{}, nil }
func (g *c18GenStore) LoadFromDBOrGenesisDoc(*types.GenesisDoc) (sm.State, error) {
	return sm.State{}, nil
}
func (g *c18GenStore) Load() (sm.State, error) { return sm.State{}, nil }
func (g *c18GenStore) LoadValidators(h int64) (*types.ValidatorSet, error) {
	if v, ok := g.vals[h]; ok {
		return v.Copy(), nil
	}
	return nil, sm.ErrNoValSetForHeight{Height: h}
}
func (g *c18GenStore) LoadABCIResponses(int64) (*tmstate.ABCIResponses, error) { return nil, nil }
func (g *c18GenStore) LoadLastABCIResponse(int64) (*tmstate.ABCIResponses, error) {
	return nil, nil
}
func (g *c18GenStore) LoadConsensusParams(int64) (tmproto.ConsensusParams, error) {
	return tmproto.ConsensusParams{}, nil
}
func (g *c18GenStore) Save(st sm.State) error {
	h := st.LastBlockHeight + 1
	if h == 1 {
		h = st.InitialHeight
	}
	g.vals[h], g.vals[h+1] = st.Validators.Copy(), st.NextValidators.Copy()
	return nil
}
func (g *c18GenStore) SaveABCIResponses(int64, *tmstate.ABCIResponses) error { return nil }
func (g *c18GenStore) Bootstrap(sm.State) error                              { return nil }
func (g *c18GenStore) PruneStates(int64, int64) error                        { return nil }
func (g *c18GenStore) Close() error                                          { return nil }

func (ch *c18Chain) valsAt(real int64) *types.ValidatorSet {
	// validator set in force at height real
	if st, ok := ch.states[real-1]; ok {
		return st.Validators
	}
	if st, ok := ch.states[real-2]; ok {
		return st.NextValidators
	}
	return nil
}

func c18MakeChain(cfg c18Cfg) *c18Chain {
	if cfg.NVals == 0 {
		cfg.NVals = 3
	}
	ch := &c18Chain{cfg: cfg, chainID: "c18-chain", privs: map[string]types.PrivValidator{},
		blocks: map[int64]*types.Block{}, parts: map[int64]*types.PartSet{}, seen: map[int64]*types.Commit{},
		states: map[int64]sm.State{}, blockID: map[string]int64{}, valsetID: map[string]int{}, paramsID: map[string]int{}}
	genVals := make([]types.GenesisValidator, cfg.NVals)
	for i := 0; i < cfg.NVals; i++ {
		pk := ed25519.GenPrivKeyFromSecret([]byte(fmt.Sprintf("c18-validator-%d", i)))
		pv := types.NewMockPVWithParams(pk, false, false)
		pub := pk.PubKey()
		ch.privs[string(pub.Address())] = pv
		ch.pubs = append(ch.pubs, pub.(ed25519.PubKey))
		genVals[i] = types.GenesisValidator{Address: pub.Address(), PubKey: pub, Power: 10, Name: fmt.Sprintf("v%d", i)}
	}
	genTime := time.Date(2020, 1, 1, 0, 0, 0, 0, time.UTC)
	ch.first = cfg.Initial + cfg.Offset
	ch.last = cfg.MaxHeight + cfg.Offset
	ch.genDoc = &types.GenesisDoc{GenesisTime: genTime, ChainID: ch.chainID, InitialHeight: ch.first,
		ConsensusParams: types.DefaultConsensusParams(), Validators: genVals}
	state, err := sm.MakeGenesisState(ch.genDoc)
	if err != nil {
		panic(err)
	}
	ss := &c18GenStore{vals: map[int64]*types.ValidatorSet{}}
	if err := ss.Save(state); err != nil {
		panic(err)
	}
	exec, pa := ch.newExecutor(ss)
	defer pa.Stop() //nolint:errcheck
	ch.states[ch.first-1] = state.Copy()
	lastCommit := types.NewCommit(0, 0, types.BlockID{}, nil)
	for h := ch.first; h <= ch.last; h++ {
		mh := h - cfg.Offset
		var txs []types.Tx
		if c18Has(cfg.TwoPart, mh) {
			big := make([]byte, 70000)
			for i := range big {
				big[i] = byte(int(h) + i*7)
			}
			txs = append(txs, types.Tx(big))
		}
		txs = append(txs, types.Tx(fmt.Sprintf("c18-tx-%d", h)))
		block, parts := state.MakeBlock(h, txs, lastCommit, nil, state.Validators.GetProposer().Address)
		blockID := types.BlockID{Hash: block.Hash(), PartSetHeader: parts.Header()}
		vals := state.Validators // validator set in force at h
		newState, _, err := exec.ApplyBlock(state, blockID, block)
		if err != nil {
			panic(fmt.Sprintf("chain generation: ApplyBlock(%d): %v", h, err))
		}
		// commit for block h by the validators of height h
		vs := types.NewVoteSet(ch.chainID, h, 0, tmproto.PrecommitType, vals)
		for idx, v := range vals.Validators {
			vote := &types.Vote{ValidatorAddress: v.Address, ValidatorIndex: int32(idx), Height: h, Round: 0,
				Type: tmproto.PrecommitType, BlockID: blockID, Timestamp: genTime.Add(time.Duration(h-ch.first+1) * time.Second)}
			pv := vote.ToProto()
			if err := ch.privs[string(v.Address)].SignVote(ch.chainID, pv); err != nil {
				panic(err)
			}
			vote.Signature = pv.Signature
			if ok, err := vs.AddVote(vote); !ok || err != nil {
				panic(fmt.Sprintf("add vote: %v", err))
			}
		}
		commit := vs.MakeCommit()
		ch.blocks[h], ch.parts[h], ch.seen[h] = block, parts, commit
		ch.states[h] = newState.Copy()
		ch.blockID[hex.EncodeToString(block.Hash())] = mh
		state = newState
		lastCommit = commit
	}
	// truth tables over the model domain
	ch.lo = cfg.Initial - 1
	if cfg.Boot > 0 {
		ch.lo = cfg.Boot - 1
	}
	ch.hi = cfg.MaxHeight + 2
	for mh := ch.lo; mh <= ch.hi; mh++ {
		real := mh + cfg.Offset
		v := ch.valsAt(real)
		if v == nil {
			v = ch.valsAt(ch.first)
		}
		k := hex.EncodeToString(v.Hash())
		if _, ok := ch.valsetID[k]; !ok {
			ch.valsetID[k] = len(ch.valsetID)
		}
		ch.vs = append(ch.vs, ch.valsetID[k])
		var p tmproto.ConsensusParams
		if st, ok := ch.states[real-1]; ok {
			p = st.ConsensusParams
		} else if real-1 > ch.last {
			p = ch.states[ch.last].ConsensusParams
		} else {
			p = ch.states[ch.first-1].ConsensusParams
		}
		pk := c18ParamsKey(p)
		if _, ok := ch.paramsID[pk]; !ok {
			ch.paramsID[pk] = len(ch.paramsID)
		}
		ch.ps = append(ch.ps, ch.paramsID[pk])
	}
	return ch
}

func (ch *c18Chain) model(real int64) int64 {
	if real == 0 {
		return 0
	}
	return real - ch.cfg.Offset
}

func (ch *c18Chain) blockIDOfHash(hash []byte) int64 {
	if len(hash) == 0 {
		return -3
	}
	if h, ok := ch.blockID[hex.EncodeToString(hash)]; ok {
		return h
	}
	return -2
}

func (ch *c18Chain) resetEvent(run int, full bool, batch int64) map[string]interface{} {
	nparts := []int{}
	ckpt := []int64{}
	for mh := ch.lo; mh <= ch.hi; mh++ {
		n := 1
		if p, ok := ch.parts[mh+ch.cfg.Offset]; ok {
			n = int(p.Total())
		}
		nparts = append(nparts, n)
		if real := mh + ch.cfg.Offset; real > 0 && real%100000 == 0 {
			ckpt = append(ckpt, mh)
		}
	}
	nn := func(x []int64) []int64 {
		if x == nil {
			return []int64{}
		}
		return x
	}
	hcfg := map[string]interface{}{"initial": ch.cfg.Initial, "boot": ch.cfg.Boot, "maxheight": ch.cfg.MaxHeight,
		"twopart": nn(ch.cfg.TwoPart), "valchg": nn(ch.cfg.ValChg), "parchg": nn(ch.cfg.ParChg), "offset": ch.cfg.Offset,
		"nvals": ch.cfg.NVals}
	return map[string]interface{}{"ev": "Reset", "run": run, "hcfg": hcfg, "cfg": map[string]interface{}{
		"lo": ch.lo, "hi": ch.hi, "initial": ch.cfg.Initial, "boot": ch.cfg.Boot, "batch": batch, "ckpt": ckpt,
		"nparts": nparts, "vs": ch.vs, "ps": ch.ps, "chk": []string{"block", "state"}, "full": full,
		"offset": ch.cfg.Offset}}
}

// ---------------------------------------------------------------------------------------
// abstraction of journal entries

type c18Write struct {
	K   string `json:"k"`
	H   int64  `json:"h"`
	I   int64  `json:"i"`
	A   int64  `json:"a"`
	B   int64  `json:"b"`
	Del bool   `json:"del"`
	MB  int64  `json:"mb"`
	MH  int64  `json:"mh"`
}

func c18Atoi(s string) (int64, bool) {
	n, err := strconv.ParseInt(s, 10, 64)
	return n, err == nil
}

// heights touched by the entry (model), used for incremental audits
func (ch *c18Chain) abstractEntry(e c18Entry) c18Write {
	w := c18Write{K: "other", A: -1, B: -1, Del: e.del, MB: ch.model(e.mb), MH: ch.model(e.mh)}
	key := string(e.key)
	if e.db == "b" {
		switch {
		case key == "blockStore":
			w.K = "bss"
			if !e.del {
				var bss tmstore.BlockStoreState
				if err := proto.Unmarshal(e.val, &bss); err == nil {
					w.A, w.B = ch.model(bss.Base), ch.model(bss.Height)
				}
			}
		case strings.HasPrefix(key, "H:"):
			if h, ok := c18Atoi(key[2:]); ok {
				w.K, w.H = "meta", ch.model(h)
				if !e.del {
					pb := new(tmproto.BlockMeta)
					if err := proto.Unmarshal(e.val, pb); err == nil {
						if bm, err := types.BlockMetaFromProto(pb); err == nil {
							w.A, w.B = ch.blockIDOfHash(bm.BlockID.Hash), int64(bm.BlockID.PartSetHeader.Total)
						}
					}
				}
			}
		case strings.HasPrefix(key, "P:"):
			f := strings.Split(key[2:], ":")
			if len(f) == 2 {
				h, ok1 := c18Atoi(f[0])
				i, ok2 := c18Atoi(f[1])
				if ok1 && ok2 {
					w.K, w.H, w.I = "part", ch.model(h), i
					if !e.del {
						w.A, w.B = -2, 0
						pb := new(tmproto.Part)
						if err := proto.Unmarshal(e.val, pb); err == nil {
							if ps, ok := ch.parts[h]; ok && int(i) < int(ps.Total()) && bytes.Equal(ps.GetPart(int(i)).Bytes, pb.Bytes) {
								w.A = ch.model(h)
							}
						}
					}
				}
			}
		case strings.HasPrefix(key, "C:"), strings.HasPrefix(key, "SC:"):
			k, rest := "commit", key[2:]
			if strings.HasPrefix(key, "SC:") {
				k, rest = "seen", key[3:]
			}
			if h, ok := c18Atoi(rest); ok {
				w.K, w.H = k, ch.model(h)
				if h == 0 {
					w.H = ch.cfg.Initial - 1 // C:0 only arises as first-1 with offset 0
				}
				if !e.del {
					w.A, w.B = -2, 0
					pb := new(tmproto.Commit)
					if err := proto.Unmarshal(e.val, pb); err == nil {
						if c, err := types.CommitFromProto(pb); err == nil {
							w.A = ch.blockIDOfHash(c.BlockID.Hash)
						}
					}
				}
			}
		case strings.HasPrefix(key, "BH:"):
			if hash, err := hex.DecodeString(key[3:]); err == nil {
				w.K, w.H = "hidx", ch.blockIDOfHash(hash)
				if !e.del {
					w.B = 0
					if h, ok := c18Atoi(string(e.val)); ok {
						w.A = ch.model(h)
					}
				}
			}
		}
		return w
	}
	switch {
	case key == "stateKey":
		w.K = "state"
		if !e.del {
			w.B = 0
			sp := new(tmstate.State)
			if err := proto.Unmarshal(e.val, sp); err == nil {
				w.A = ch.model(sp.LastBlockHeight)
			}
		}
	case key == "lastABCIResponseKey":
		w.K = "lastabci"
		if !e.del {
			w.B = 0
			info := new(tmstate.ABCIResponsesInfo)
			if err := info.Unmarshal(e.val); err == nil {
				w.A = ch.model(info.Height)
			}
		}
	case strings.HasPrefix(key, "validatorsKey:"):
		if h, ok := c18Atoi(key[len("validatorsKey:"):]); ok {
			w.K, w.H = "vals", ch.model(h)
			if !e.del {
				lhc, id := ch.decodeValsInfo(e.val)
				w.A, w.B = lhc, id
			}
		}
	case strings.HasPrefix(key, "consensusParamsKey:"):
		if h, ok := c18Atoi(key[len("consensusParamsKey:"):]); ok {
			w.K, w.H = "params", ch.model(h)
			if !e.del {
				lhc, id := ch.decodeParamsInfo(e.val)
				w.A, w.B = lhc, id
			}
		}
	case strings.HasPrefix(key, "abciResponsesKey:"):
		if h, ok := c18Atoi(key[len("abciResponsesKey:"):]); ok {
			w.K, w.H = "abci", ch.model(h)
			if !e.del {
				w.A, w.B = 1, 0
			}
		}
	}
	return w
}

// (lhc, id): id -1 = no validator set stored, -2 = a set the chain does not know
func (ch *c18Chain) decodeValsInfo(bz []byte) (int64, int64) {
	v := new(tmstate.ValidatorsInfo)
	if err := v.Unmarshal(bz); err != nil {
		return -2, -2
	}
	id := int64(-1)
	if v.ValidatorSet != nil {
		id = -2
		if vs, err := types.ValidatorSetFromProto(v.ValidatorSet); err == nil {
			if x, ok := ch.valsetID[hex.EncodeToString(vs.Hash())]; ok {
				id = int64(x)
			}
		}
	}
	return ch.model(v.LastHeightChanged), id
}

func (ch *c18Chain) decodeParamsInfo(bz []byte) (int64, int64) {
	p := new(tmstate.ConsensusParamsInfo)
	if err := p.Unmarshal(bz); err != nil {
		return -2, -2
	}
	id := int64(-1)
	if !p.ConsensusParams.Equal(&tmproto.ConsensusParams{}) {
		id = -2
		if x, ok := ch.paramsID[c18ParamsKey(p.ConsensusParams)]; ok {
			id = int64(x)
		}
	}
	return ch.model(p.LastHeightChanged), id
}

// ---------------------------------------------------------------------------------------
// audit = projection of what the real loaders return (TMStore!Proj)

type c18Proj struct {
	Meta   int64  `json:"meta"`
	Total  int64  `json:"total"`
	Parts  int64  `json:"parts"`
	Block  string `json:"block"`
	Hidx   int64  `json:"hidx"`
	ByHash string `json:"byhash"`
	Cblk   int64  `json:"cblk"`
	Cver   bool   `json:"cver"`
	Sblk   int64  `json:"sblk"`
	Sver   bool   `json:"sver"`
	Vlhc   int64  `json:"vlhc"`
	Vfull  int64  `json:"vfull"`
	Vload  int64  `json:"vload"`
	Plhc   int64  `json:"plhc"`
	Pfull  int64  `json:"pfull"`
	Pload  int64  `json:"pload"`
	Abci   bool   `json:"abci"`
}

type c18Range struct {
	Lo int64   `json:"lo"`
	Hi int64   `json:"hi"`
	P  c18Proj `json:"p"`
}

func c18Rel(x, h int64) int64 {
	if x < 0 {
		return x - 1000000
	}
	return x - h
}

type c18Auditor struct {
	ch       *c18Chain
	verMemo  map[string]bool
	loadMemo map[string]int64
	cache    map[int64]*c18Proj // last projection by model height (incremental mode)
	vtgt     map[int64]int64    // model height whose validators record LoadValidators(h) resolves through
	ptgt     map[int64]int64    // same for LoadConsensusParams
	prio     int                // number of LoadValidators results whose proposer priorities differ from the chain's (statistic)
	panics   int
}

func c18NewAuditor(ch *c18Chain) *c18Auditor {
	return &c18Auditor{ch: ch, verMemo: map[string]bool{}, loadMemo: map[string]int64{}, cache: map[int64]*c18Proj{},
		vtgt: map[int64]int64{}, ptgt: map[int64]int64{}}
}

func (a *c18Auditor) safe(f func()) (panicked bool) {
	defer func() {
		if r := recover(); r != nil {
			panicked = true
			a.panics++
		}
	}()
	f()
	return false
}

func (a *c18Auditor) verify(real int64, bid types.BlockID, c *types.Commit, raw []byte) bool {
	vals := a.ch.valsAt(real)
	if vals == nil || c == nil {
		return false
	}
	s := sha256.Sum256(raw)
	key := fmt.Sprintf("%d|%x|%x|%d", real, s[:8], bid.Hash, bid.PartSetHeader.Total)
	if v, ok := a.verMemo[key]; ok {
		return v
	}
	ok := false
	a.safe(func() { ok = vals.VerifyCommit(a.ch.chainID, bid, real, c) == nil })
	a.verMemo[key] = ok
	return ok
}

// block-store half of the projection of model height mh
func (a *c18Auditor) blockHalf(bs *BlockStore, bdb dbm.DB, mh int64, p *c18Proj) {
	ch := a.ch
	real := mh + ch.cfg.Offset
	*p = c18Proj{Meta: -1000001, Block: "nil", Hidx: -1000001, ByHash: "nil", Cblk: -1000001, Sblk: -1000001,
		Vlhc: p.Vlhc, Vfull: p.Vfull, Vload: p.Vload, Plhc: p.Plhc, Pfull: p.Pfull, Pload: p.Pload, Abci: p.Abci}
	if real <= 0 {
		// only C:0 can exist here
		if real == 0 {
			var c *types.Commit
			a.safe(func() { c = bs.LoadBlockCommit(0) })
			if c != nil {
				p.Cblk = c18Rel(ch.blockIDOfHash(c.BlockID.Hash), mh)
			}
		}
		return
	}
	var meta *types.BlockMeta
	if a.safe(func() { meta = bs.LoadBlockMeta(real) }) {
		p.Block = "panic"
	}
	truth := ch.blocks[real]
	var bid types.BlockID
	haveBid := false
	if meta != nil {
		p.Meta = c18Rel(ch.blockIDOfHash(meta.BlockID.Hash), mh)
		p.Total = int64(meta.BlockID.PartSetHeader.Total)
		bid, haveBid = meta.BlockID, true
	} else if truth != nil {
		bid, haveBid = types.BlockID{Hash: truth.Hash(), PartSetHeader: ch.parts[real].Header()}, true
	}
	probe := int(p.Total)
	if truth != nil && int(ch.parts[real].Total()) > probe {
		probe = int(ch.parts[real].Total())
	}
	probe += 2
	for i := 0; i < probe; i++ {
		var part *types.Part
		a.safe(func() { part = bs.LoadBlockPart(real, i) })
		if part != nil {
			p.Parts++
		}
	}
	var blk *types.Block
	if a.safe(func() { blk = bs.LoadBlock(real) }) {
		p.Block = "panic"
	} else if blk != nil {
		if meta != nil && bytes.Equal(blk.Hash(), meta.BlockID.Hash) &&
			blk.MakePartSet(types.BlockPartSizeBytes).HasHeader(meta.BlockID.PartSetHeader) {
			p.Block = "ok"
		} else {
			p.Block = "bad"
		}
	}
	if truth != nil {
		raw, _ := bdb.Get(calcBlockHashKey(truth.Hash()))
		if len(raw) > 0 {
			if n, ok := c18Atoi(string(raw)); ok {
				p.Hidx = c18Rel(ch.model(n), mh)
			} else {
				p.Hidx = -1000002
			}
		}
		var bh *types.Block
		if a.safe(func() { bh = bs.LoadBlockByHash(truth.Hash()) }) {
			p.ByHash = "panic"
		} else if bh != nil {
			if bytes.Equal(bh.Hash(), truth.Hash()) {
				p.ByHash = "ok"
			} else {
				p.ByHash = "bad"
			}
		}
	}
	var c *types.Commit
	a.safe(func() { c = bs.LoadBlockCommit(real) })
	if c != nil {
		p.Cblk = c18Rel(ch.blockIDOfHash(c.BlockID.Hash), mh)
		if haveBid {
			raw, _ := bdb.Get(calcBlockCommitKey(real))
			p.Cver = a.verify(real, bid, c, raw)
		}
	}
	var sc *types.Commit
	a.safe(func() { sc = bs.LoadSeenCommit(real) })
	if sc != nil {
		p.Sblk = c18Rel(ch.blockIDOfHash(sc.BlockID.Hash), mh)
		if haveBid {
			raw, _ := bdb.Get(calcSeenCommitKey(real))
			p.Sver = a.verify(real, bid, sc, raw)
		}
	}
}

func c18ValsKey(h int64) []byte   { return []byte(fmt.Sprintf("validatorsKey:%v", h)) }
func c18ParamsDBKey(h int64) []byte { return []byte(fmt.Sprintf("consensusParamsKey:%v", h)) }

// state-store half of the projection
func (a *c18Auditor) stateHalf(ss sm.Store, sdb dbm.DB, mh int64, p *c18Proj) {
	ch := a.ch
	real := mh + ch.cfg.Offset
	p.Vlhc, p.Vfull, p.Vload, p.Plhc, p.Pfull, p.Pload, p.Abci = -1, -1, -1, -1, -1, -1, false
	a.vtgt[mh], a.ptgt[mh] = mh, mh
	if real <= 0 {
		return
	}
	rawV, _ := sdb.Get(c18ValsKey(real))
	memoKey := ""
	if len(rawV) > 0 {
		lhc, id := ch.decodeValsInfo(rawV)
		p.Vlhc, p.Vfull = lhc, id
		// LoadValidators(h) is a function of the record at h and of the record it points to
		tgt := lhc + ch.cfg.Offset
		if ck := real - real%100000; ck > tgt {
			tgt = ck
		}
		if id == -1 {
			a.vtgt[mh] = ch.model(tgt)
		}
		rawT, _ := sdb.Get(c18ValsKey(tgt))
		memoKey = fmt.Sprintf("v|%d|%s|%s", real, rawV, rawT)
	}
	if v, ok := a.loadMemo[memoKey]; ok && memoKey != "" {
		p.Vload = v
	} else {
		var vs *types.ValidatorSet
		var err error
		if a.safe(func() { vs, err = ss.LoadValidators(real) }) {
			p.Vload = -5
		} else if err == nil && vs != nil {
			p.Vload = -2
			if x, ok := ch.valsetID[hex.EncodeToString(vs.Hash())]; ok {
				p.Vload = int64(x)
			}
			if tv := ch.valsAt(real); tv != nil && bytes.Equal(tv.Hash(), vs.Hash()) {
				if tp, lp := tv.GetProposer(), vs.GetProposer(); tp != nil && lp != nil && !bytes.Equal(tp.Address, lp.Address) {
					a.prio++
				}
			}
		}
		if memoKey != "" {
			a.loadMemo[memoKey] = p.Vload
		}
	}
	rawP, _ := sdb.Get(c18ParamsDBKey(real))
	if len(rawP) > 0 {
		lhc, id := ch.decodeParamsInfo(rawP)
		p.Plhc, p.Pfull = lhc, id
		if id == -1 {
			a.ptgt[mh] = lhc
		}
	}
	var cp tmproto.ConsensusParams
	var err error
	if a.safe(func() { cp, err = ss.LoadConsensusParams(real) }) {
		p.Pload = -5
	} else if err == nil {
		if cp.Equal(&tmproto.ConsensusParams{}) {
			p.Pload = -2
		} else if x, ok := ch.paramsID[c18ParamsKey(cp)]; ok {
			p.Pload = int64(x)
		} else {
			p.Pload = -4
		}
	}
	a.safe(func() {
		if _, err := ss.LoadABCIResponses(real); err == nil {
			p.Abci = true
		}
	})
}

// audit of a disk image: reopen both stores, project every height.  dirtyB / dirtyS == nil:
// recompute everything; otherwise (incremental mode, long chains) only the block-store half
// of the heights in dirtyB and the state-store half of the heights in dirtyS and of the
// heights that resolve through a height in dirtyS are recomputed, the rest is the cached
// projection of the previous image (which differs by exactly the writes listed as dirty).
func (a *c18Auditor) audit(bdb, sdb dbm.DB, dirtyB, dirtyS map[int64]bool) (base, height int64, ranges []c18Range) {
	bs := NewBlockStore(bdb)
	ss := sm.NewStore(sdb, sm.StoreOptions{})
	base, height = a.ch.model(bs.Base()), a.ch.model(bs.Height())
	for mh := a.ch.lo; mh <= a.ch.hi; mh++ {
		p, ok := a.cache[mh]
		if !ok {
			p = &c18Proj{}
			a.cache[mh] = p
		}
		if !ok || dirtyB == nil || dirtyB[mh] {
			a.blockHalf(bs, bdb, mh, p)
		}
		if !ok || dirtyS == nil || dirtyS[mh] || dirtyS[a.vtgt[mh]] || dirtyS[a.ptgt[mh]] {
			a.stateHalf(ss, sdb, mh, p)
		}
		if n := len(ranges); n > 0 && ranges[n-1].P == *p {
			ranges[n-1].Hi = mh
		} else {
			ranges = append(ranges, c18Range{Lo: mh, Hi: mh, P: *p})
		}
	}
	return
}

// ---------------------------------------------------------------------------------------
// the node under test

type c18Op struct {
	Op    string `json:"op"`
	A     int64  `json:"a"`
	B     int64  `json:"b"`
	Crash int    `json:"crash"` // -1: no crash; k >= 0: continue from the image "first k writes"; -2: random prefix
	Audit string `json:"audit"` // "" / "all": every prefix; "none"; "sample": see SampleEvery
	// ConsPrune only: Crash counts from the first write to the STATE store ("s") instead of
	// from the first write of the operation
	CrashPart string `json:"crash_part"`
	// audit only the prefixes AuditFrom..AuditTo (0 = no bound): long journals are audited by
	// several runs so that the trace validation can proceed in parallel
	AuditFrom int `json:"audit_from"`
	AuditTo   int `json:"audit_to"`
}

// a tree of histories: the operation, then every continuation (branches share the prefix)
type c18Tree struct {
	Op       c18Op      `json:"op"`
	Children []*c18Tree `json:"children"`
}

type c18Run struct {
	Cfg         c18Cfg     `json:"cfg"`
	Ops         []c18Op    `json:"ops"`
	Tree        []*c18Tree `json:"tree"` // alternative to Ops: forest of continuations from the empty node
	Incremental bool    `json:"incremental"`
	SampleEvery int     `json:"sample_every"`
	Label       string  `json:"label"`
}

type c18Input struct {
	Runs   []c18Run `json:"runs"`
	Random int      `json:"random"`
}

type c18Node struct {
	ch       *c18Chain
	bdb, sdb *dbm.MemDB
	j        *c18Journal
	bs       *BlockStore
	ss       sm.Store
	exec     *sm.BlockExecutor
	pa       proxy.AppConns
	state    sm.State
}

func (n *c18Node) open(bdb, sdb *dbm.MemDB) {
	if n.pa != nil {
		n.pa.Stop() //nolint:errcheck
	}
	n.bdb, n.sdb = bdb, sdb
	n.j = &c18Journal{}
	n.bs = NewBlockStore(&c18DB{DB: bdb, name: "b", j: n.j})
	n.ss = sm.NewStore(&c18DB{DB: sdb, name: "s", j: n.j}, sm.StoreOptions{})
	bs := n.bs
	n.j.hook = func() (int64, int64) { return bs.Base(), bs.Height() }
	n.exec, n.pa = n.ch.newExecutor(n.ss)
	st, err := n.ss.Load()
	if err != nil || st.IsEmpty() {
		st, _ = sm.MakeGenesisState(n.ch.genDoc)
	}
	n.state = st
}

// execute one operation on the real stores; returns result class and the arguments the
// spec needs (b, c)
func (n *c18Node) exec1(op c18Op, hook C18PruneHook) (res string, b, c int64) {
	ch := n.ch
	off := ch.cfg.Offset
	res, b, c = "ok", op.B, 0
	defer func() {
		if r := recover(); r != nil {
			res = "panic"
		}
	}()
	switch op.Op {
	case "Genesis":
		st, _ := sm.MakeGenesisState(ch.genDoc)
		n.state = st
		b, c = ch.model(st.LastHeightValidatorsChanged), ch.model(st.LastHeightConsensusParamsChanged)
		if err := n.ss.Save(st); err != nil {
			res = "err"
		}
	case "Bootstrap":
		st := ch.states[op.A+off].Copy()
		// what statesync/stateprovider.go State() produces
		st.LastHeightValidatorsChanged = op.A + off + 2
		st.LastHeightConsensusParamsChanged = op.A + off + 1
		b = ch.model(st.LastHeightConsensusParamsChanged)
		if err := n.ss.Bootstrap(st); err != nil {
			res = "err"
			return
		}
		if err := n.bs.SaveSeenCommit(op.A+off, ch.seen[op.A+off]); err != nil {
			res = "err"
			return
		}
		n.state = st
	case "SaveBlock":
		h := op.A + off
		n.bs.SaveBlock(ch.blocks[h], ch.parts[h], ch.seen[h])
	case "ApplyBlock":
		h := op.A + off
		blk := ch.blocks[h]
		// arguments of the Save the spec predicts, should ApplyBlock fail before it
		b, c = ch.model(ch.states[h].LastHeightValidatorsChanged), ch.model(ch.states[h].LastHeightConsensusParamsChanged)
		st, _, err := n.exec.ApplyBlock(n.state, types.BlockID{Hash: blk.Hash(), PartSetHeader: ch.parts[h].Header()}, blk)
		if err != nil {
			res = "err"
			return
		}
		n.state = st
		b, c = ch.model(st.LastHeightValidatorsChanged), ch.model(st.LastHeightConsensusParamsChanged)
	case "Recover":
		// restart after a crash between the application's Commit of block h and stateStore.Save
		h := op.A + off
		b, c = ch.model(ch.states[h].LastHeightValidatorsChanged), ch.model(ch.states[h].LastHeightConsensusParamsChanged)
		if C18Recover == nil {
			blk := ch.blocks[h]
			st, _, err := n.exec.ApplyBlock(n.state, types.BlockID{Hash: blk.Hash(), PartSetHeader: ch.parts[h].Header()}, blk)
			if err != nil {
				res = "err"
				return
			}
			n.state = st
		} else {
			if err := C18Recover(n.bs, n.ss, n.state, ch.genDoc, n.pa, h, []byte("c18-app-hash")); err != nil {
				res = "err"
				return
			}
			st, err := n.ss.Load()
			if err != nil || st.IsEmpty() {
				res = "err"
				return
			}
			n.state = st
		}
		b, c = ch.model(n.state.LastHeightValidatorsChanged), ch.model(n.state.LastHeightConsensusParamsChanged)
	case "PruneBlocks":
		if _, err := n.bs.PruneBlocks(op.A + off); err != nil {
			res = "err"
		}
	case "PruneStates":
		if err := n.ss.PruneStates(op.A+off, op.B+off); err != nil {
			res = "err"
		}
	case "ConsPrune":
		// consensus/state.go pruneBlocks(retainHeight) through the hook of the consensus driver
		if hook == nil {
			res = "unknown-op"
		} else if err := hook(n.bs, n.exec, op.A+off); err != nil {
			res = "err"
		}
	default:
		res = "unknown-op"
	}
	return
}

type c18Out struct {
	f       *os.File
	enc     *json.Encoder
	lines   int
	audits  int
	deduped int
	ops     int
}

func (o *c18Out) emit(v interface{}) {
	if err := o.enc.Encode(v); err != nil {
		panic(err)
	}
	o.lines++
}

func c18ApplyEntry(bdb, sdb *dbm.MemDB, e c18Entry) {
	db := bdb
	if e.db == "s" {
		db = sdb
	}
	var err error
	if e.del {
		err = db.Delete(e.key)
	} else {
		err = db.Set(e.key, e.val)
	}
	if err != nil {
		panic(err)
	}
}

// C18PruneHook lets a driver in another package replace "PruneBlocks then PruneStates" by the
// production call that does both (consensus.State.pruneBlocks).
type C18PruneHook func(bs *BlockStore, exec *sm.BlockExecutor, retain int64) error

// C18RecoverHook is the restart path of a node whose application has committed block appHeight
// while the state store still is one block behind (crash between the app's Commit and
// stateStore.Save): consensus.Handshaker.ReplayBlocks, which re-applies the stored block
// through a mock application answering from the persisted ABCI responses.  Set by the driver
// in package consensus; without it "Recover" re-applies the block with the real application.
type C18RecoverHook func(bs *BlockStore, ss sm.Store, state sm.State, genDoc *types.GenesisDoc,
	pa proxy.AppConns, appHeight int64, appHash []byte) error

var C18Recover C18RecoverHook

type c18Runner struct {
	logf   func(format string, args ...interface{})
	hook   C18PruneHook
	out    *c18Out
	chains map[string]*c18Chain
	seen   map[string]bool // (disk, op) pairs whose prefixes were already audited in this process
	rng    *rand.Rand
}

// run one history.  next(n) yields the next operation given the real node (nil = end).
// If r.Tree is set, the forest is walked depth-first instead: at a branching point the disks
// are snapshotted (Push), each continuation is run, and the node is reopened on the snapshot
// (Pop + Reopen) before the next one.
func (rr *c18Runner) run(runNo int, r c18Run, next func(n *c18Node) *c18Op) {
	out := rr.out
	ch, ok := rr.chains[r.Cfg.key()]
	if !ok {
		ch = c18MakeChain(r.Cfg)
		rr.chains[r.Cfg.key()] = ch
	}
	out.emit(ch.resetEvent(runNo, !r.Incremental, 1000))
	n := &c18Node{ch: ch}
	n.open(dbm.NewMemDB(), dbm.NewMemDB())
	defer func() { n.pa.Stop() }() //nolint:errcheck
	aud := c18NewAuditor(ch)
	if r.Tree != nil {
		var walk func(kids []*c18Tree)
		walk = func(kids []*c18Tree) {
			for _, k := range kids {
				var sb, ss *dbm.MemDB
				if len(kids) > 1 {
					sb, ss = c18Clone(n.bdb), c18Clone(n.sdb)
					out.emit(map[string]interface{}{"ev": "Push"})
				}
				rr.step(n, aud, r, k.Op)
				walk(k.Children)
				if len(kids) > 1 {
					n.open(sb, ss)
					out.emit(map[string]interface{}{"ev": "Pop"})
					out.emit(map[string]interface{}{"ev": "Reopen", "k": -1, "mbase": ch.model(n.bs.Base()), "mheight": ch.model(n.bs.Height())})
				}
			}
		}
		walk(r.Tree)
	} else {
		for {
			opp := next(n)
			if opp == nil {
				break
			}
			rr.step(n, aud, r, *opp)
		}
	}
	if aud.prio > 0 || aud.panics > 0 {
		rr.logf("C18STAT prio_mismatch=%d loader_panics=%d", aud.prio, aud.panics)
	}
}

// one operation on the node: execute, journal, audit every (sampled) prefix, maybe crash
func (rr *c18Runner) step(n *c18Node, aud *c18Auditor, r c18Run, op c18Op) {
	out := rr.out
	ch := n.ch
	{
		out.ops++
		if op.Op == "Reopen" {
			// crash with no operation in progress
			n.open(c18Clone(n.bdb), c18Clone(n.sdb))
			out.emit(map[string]interface{}{"ev": "Reopen", "k": -1, "mbase": ch.model(n.bs.Base()), "mheight": ch.model(n.bs.Height())})
			return
		}
		if op.Op == "Load" {
			// install the abstraction of the whole current databases in the trace (after a
			// prefix of operations executed with Audit "silent", i.e. without trace lines)
			journal := []c18Write{}
			for _, d := range []struct {
				name string
				db   dbm.DB
			}{{"b", n.bdb}, {"s", n.sdb}} {
				it, err := d.db.Iterator(nil, nil)
				if err != nil {
					panic(err)
				}
				for ; it.Valid(); it.Next() {
					journal = append(journal, ch.abstractEntry(c18Entry{db: d.name, key: it.Key(), val: it.Value(),
						mb: n.bs.Base(), mh: n.bs.Height()}))
				}
				it.Close()
			}
			out.emit(map[string]interface{}{"ev": "Op", "op": "Load", "a": 0, "b": 0, "c": 0, "res": "ok",
				"n": len(journal), "journal": journal,
				"mem0": map[string]int64{"base": ch.model(n.bs.Base()), "height": ch.model(n.bs.Height())}, "audited": false})
			return
		}
		silent := op.Audit == "silent"
		auditing := op.Audit != "none" && !silent
		var preB, preS *dbm.MemDB
		if auditing || op.Crash != -1 {
			preB, preS = c18Clone(n.bdb), c18Clone(n.sdb)
		}
		key := ""
		if auditing && !r.Incremental {
			hsh := sha256.New()
			hsh.Write([]byte(r.Cfg.key()))
			c18Digest(hsh, n.bdb)
			hsh.Write([]byte("|"))
			c18Digest(hsh, n.sdb)
			fmt.Fprintf(hsh, "|%s|%d|%d|%d|%d", op.Op, op.A, op.B, n.bs.Base(), n.bs.Height())
			key = hex.EncodeToString(hsh.Sum(nil))
			if rr.seen[key] {
				auditing = false
				out.deduped++
			}
		}
		mem0b, mem0h := ch.model(n.bs.Base()), ch.model(n.bs.Height())
		n.j.entries = nil
		n.j.on = true
		res, b, c := n.exec1(op, rr.hook)
		n.j.on = false
		entries := n.j.entries
		journal := make([]c18Write, len(entries))
		for i, e := range entries {
			journal[i] = ch.abstractEntry(e)
		}
		crashAt := op.Crash
		if crashAt == -2 {
			crashAt = rr.rng.Intn(len(entries) + 1)
		}
		if crashAt >= 0 && op.CrashPart == "s" {
			for _, e := range entries {
				if e.db == "b" {
					crashAt++
				}
			}
		}
		if crashAt > len(entries) {
			crashAt = len(entries)
		}
		if !silent {
			out.emit(map[string]interface{}{"ev": "Op", "op": op.Op, "a": op.A, "b": b, "c": c, "res": res,
				"n": len(journal), "journal": journal, "mem0": map[string]int64{"base": mem0b, "height": mem0h},
				"audited": auditing})
		}
		var crashB, crashS *dbm.MemDB
		if crashAt == 0 {
			crashB, crashS = c18Clone(preB), c18Clone(preS)
		}
		if auditing {
			if key != "" {
				rr.seen[key] = true
			}
			imgB, imgS := preB, preS
			if r.Incremental {
				// the cache must describe the image before the first write
				aud.audit(imgB, imgS, nil, nil)
			}
			lastLogged := 0
			dirtyB, dirtyS := map[int64]bool{}, map[int64]bool{}
			for k := 1; k <= len(entries); k++ {
				c18ApplyEntry(imgB, imgS, entries[k-1])
				w := journal[k-1]
				if entries[k-1].db == "b" {
					dirtyB[w.H] = true
				} else {
					dirtyS[w.H] = true
				}
				if crashAt == k {
					crashB, crashS = c18Clone(imgB), c18Clone(imgS)
				}
				logIt := true
				if op.Audit == "sample" && r.SampleEvery > 1 {
					// always around range-descriptor writes and at the end, otherwise every n-th prefix
					near := false
					for d := -3; d <= 3; d++ {
						if x := k - 1 + d; x >= 0 && x < len(journal) && journal[x].K == "bss" {
							near = true
						}
					}
					logIt = near || k%r.SampleEvery == 0 || k == len(entries) || k == crashAt || k <= 3
				}
				if (op.AuditFrom > 0 && k < op.AuditFrom) || (op.AuditTo > 0 && k > op.AuditTo) {
					logIt = false
				}
				if !logIt {
					continue
				}
				var dbase, dheight int64
				var ranges []c18Range
				if r.Incremental {
					dbase, dheight, ranges = aud.audit(imgB, imgS, dirtyB, dirtyS)
				} else {
					dbase, dheight, ranges = aud.audit(imgB, imgS, nil, nil)
				}
				ev := map[string]interface{}{"ev": "A", "k": k, "dbase": dbase, "dheight": dheight,
					"mbase": w.MB, "mheight": w.MH, "ranges": ranges}
				if r.Incremental {
					win := map[int64]bool{}
					for x := lastLogged; x < k; x++ {
						for d := int64(-1); d <= 1; d++ {
							win[journal[x].H+d] = true
						}
					}
					for _, x := range []int64{dbase - 1, dbase, dbase + 1, dheight, dheight + 1, w.MB, w.MB - 1, ch.lo, ch.hi, (ch.lo + ch.hi) / 2} {
						win[x] = true
					}
					wl := []int64{}
					for x := range win {
						if x >= ch.lo && x <= ch.hi {
							wl = append(wl, x)
						}
					}
					sort.Slice(wl, func(i, j int) bool { return wl[i] < wl[j] })
					ev["win"] = wl
				}
				out.emit(ev)
				out.audits++
				lastLogged = k
				dirtyB, dirtyS = map[int64]bool{}, map[int64]bool{}
			}
		} else if crashAt > 0 {
			crashB, crashS = c18Clone(preB), c18Clone(preS)
			for k := 1; k <= crashAt; k++ {
				c18ApplyEntry(crashB, crashS, entries[k-1])
			}
		}
		if crashAt >= 0 {
			n.open(crashB, crashS)
			out.emit(map[string]interface{}{"ev": "Reopen", "k": crashAt, "mbase": ch.model(n.bs.Base()), "mheight": ch.model(n.bs.Height())})
		}
	}
}

// ---------------------------------------------------------------------------------------
// random histories, chosen from what the REAL stores contain

func c18RandomCfg(rng *rand.Rand) c18Cfg {
	cfg := c18Cfg{Initial: []int64{1, 1, 2, 5}[rng.Intn(4)], NVals: 2 + rng.Intn(3)}
	nh := int64(4 + rng.Intn(5))
	cfg.MaxHeight = cfg.Initial + nh - 1
	if rng.Intn(4) == 0 {
		// put a validator-set checkpoint (height % 100000 == 0) inside the window
		cfg.Offset = 100000 - cfg.Initial - int64(1+rng.Intn(int(nh)-1))
	}
	pick := func(p int) []int64 {
		out := []int64{}
		for h := cfg.Initial; h <= cfg.MaxHeight; h++ {
			if rng.Intn(p) == 0 {
				out = append(out, h)
			}
		}
		return out
	}
	cfg.ValChg, cfg.ParChg, cfg.TwoPart = pick(3), pick(3), pick(4)
	if rng.Intn(5) == 0 && nh > 4 {
		cfg.Boot = cfg.Initial + int64(rng.Intn(2))
	}
	return cfg
}

func c18RandomNext(rng *rand.Rand, cfg c18Cfg, cons bool) func(n *c18Node) *c18Op {
	steps := 0
	pendingStates := [2]int64{0, 0} // PruneStates(from, to) owed after a completed PruneBlocks
	crash := func() int {
		if rng.Intn(4) == 0 {
			return -2
		}
		return -1
	}
	return func(n *c18Node) *c18Op {
		steps++
		if steps > 80 {
			return nil
		}
		ch := n.ch
		base, height := ch.model(n.bs.Base()), ch.model(n.bs.Height())
		if pendingStates[1] != 0 {
			op := &c18Op{Op: "PruneStates", A: pendingStates[0], B: pendingStates[1], Crash: crash()}
			pendingStates = [2]int64{0, 0}
			if base == op.B { // the block store prune was not interrupted
				return op
			}
		}
		persisted, err := n.ss.Load()
		if err != nil || persisted.IsEmpty() {
			if cfg.Boot > 0 {
				return &c18Op{Op: "Bootstrap", A: cfg.Boot, Crash: crash()}
			}
			return &c18Op{Op: "Genesis", Crash: crash()}
		}
		lbh := ch.model(persisted.LastBlockHeight)
		next := lbh + 1
		if lbh == 0 {
			next = cfg.Initial
		}
		if height < next && next <= cfg.MaxHeight {
			return &c18Op{Op: "SaveBlock", A: next, Crash: crash()}
		}
		if height == next {
			if _, err := n.ss.LoadLastABCIResponse(next + ch.cfg.Offset); err == nil && cons {
				// the responses of this block are persisted: the application may have committed it
				return &c18Op{Op: "Recover", A: next, Crash: crash()}
			}
			return &c18Op{Op: "ApplyBlock", A: next, Crash: crash()}
		}
		// synced
		if height >= cfg.MaxHeight && rng.Intn(3) == 0 {
			return nil
		}
		if cons && base > 0 && rng.Intn(2) == 0 {
			// the application asks to retain from some height: anything from below base to the tip
			to := base - 1 + int64(rng.Intn(int(height-base)+2))
			if to < 1 {
				to = 1
			}
			return &c18Op{Op: "ConsPrune", A: to, Crash: crash()}
		}
		if height > base && base > 0 && rng.Intn(2) == 0 {
			to := base + 1 + int64(rng.Intn(int(height-base)))
			pendingStates = [2]int64{base, to}
			return &c18Op{Op: "PruneBlocks", A: to, Crash: crash()}
		}
		switch rng.Intn(5) {
		case 0: // API calls that must be refused
			return &c18Op{Op: "PruneBlocks", A: height + 1 + int64(rng.Intn(2)), Crash: -1}
		case 1:
			if base > 1 {
				return &c18Op{Op: "PruneBlocks", A: base - 1, Crash: -1}
			}
		case 2: // prune to the current base: deletes nothing, rewrites the range descriptor
			if base > 0 {
				return &c18Op{Op: "PruneBlocks", A: base, Crash: crash()}
			}
		case 3:
			if base > 0 {
				return &c18Op{Op: "PruneStates", A: base, B: base, Crash: -1}
			}
		}
		if height >= cfg.MaxHeight {
			return nil
		}
		return &c18Op{Op: "Reopen"}
	}
}

func c18BoolInt(b bool) int {
	if b {
		return 1
	}
	return 0
}

// ---------------------------------------------------------------------------------------

// C18Main reads the input (runs, number of random histories), executes everything and writes
// the NDJSON trace to outPath.
func C18Main(inPath, outPath string, seed int64, hook C18PruneHook, logf func(format string, args ...interface{})) error {
	raw, err := os.ReadFile(inPath)
	if err != nil {
		return err
	}
	var in c18Input
	if err := json.Unmarshal(raw, &in); err != nil {
		return err
	}
	f, err := os.Create(outPath)
	if err != nil {
		return err
	}
	defer f.Close()
	rr := &c18Runner{logf: logf, hook: hook, out: &c18Out{f: f, enc: json.NewEncoder(f)}, chains: map[string]*c18Chain{},
		seen: map[string]bool{}, rng: rand.New(rand.NewSource(seed*7919 + 18))}
	runNo := 0
	for _, r := range in.Runs {
		runNo++
		ops, i := r.Ops, 0
		rr.run(runNo, r, func(*c18Node) *c18Op {
			if i >= len(ops) {
				return nil
			}
			i++
			return &ops[i-1]
		})
	}
	for i := 0; i < in.Random; i++ {
		runNo++
		cfg := c18RandomCfg(rr.rng)
		rr.run(runNo, c18Run{Cfg: cfg, Label: "random"}, c18RandomNext(rr.rng, cfg, hook != nil))
	}
	logf("C18STAT runs=%d ops=%d lines=%d audits=%d deduped_ops=%d", runNo, rr.out.ops, rr.out.lines, rr.out.audits, rr.out.deduped)
	return nil
}
