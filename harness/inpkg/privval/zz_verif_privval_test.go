//go:build verif

package privval

// PRIVVAL harness (auxiliary check; spec/TMRemoteSigner.tla, spec/trace/TMRemoteSignerTrace.tla).
//
// A REAL RetrySignerClient -> SignerClient -> SignerListenerEndpoint on one side and a REAL
// SignerServer -> SignerDialerEndpoint -> FilePV on the other, joined by an in-process network
// that belongs to the harness: a net.Listener, a SocketDialer and net.Conn pairs that carry whole
// messages.  Every Read, Write, Accept and Dial of the real code parks in the network until the
// schedule (a behaviour of TMRemoteSigner found by TLC) decides its outcome: deliver, deadline
// passed, EOF, dial refused, connection cut.  Nothing here depends on timing except
// WaitConnection's time.After (the schedule's WaitTimeout step simply waits for it).  After each
// decision the harness waits until every goroutine of the package is parked (runtime.Stack) and
// writes the projection of the real objects.  The harness judges nothing: TLC does.

import (
	"encoding/hex"
	"encoding/json"
	"errors"
	"fmt"
	"io"
	"net"
	"os"
	"path/filepath"
	"regexp"
	"runtime"
	"strconv"
	"strings"
	"sync"
	"testing"
	"time"

	"github.com/tendermint/tendermint/crypto"
	cryptoenc "github.com/tendermint/tendermint/crypto/encoding"
	"github.com/tendermint/tendermint/crypto/ed25519"
	"github.com/tendermint/tendermint/crypto/tmhash"
	"github.com/tendermint/tendermint/libs/log"
	"github.com/tendermint/tendermint/libs/protoio"
	privvalproto "github.com/tendermint/tendermint/proto/tendermint/privval"
	tmproto "github.com/tendermint/tendermint/proto/tendermint/types"
	"github.com/tendermint/tendermint/types"
)

const privvalChain = "c"

type privvalM = map[string]interface{}

type privvalQ struct {
	K     string `json:"k"`
	Chain string `json:"chain"`
	T     string `json:"t"`
	H     int64  `json:"h"`
	R     int64  `json:"r"`
	V     string `json:"v"`
	Ts    int    `json:"ts"`
}

type privvalSB struct {
	T  string `json:"t"`
	H  int64  `json:"h"`
	R  int64  `json:"r"`
	V  string `json:"v"`
	Ts int    `json:"ts"`
}

type privvalOut struct {
	V   string    `json:"v"`
	Ts  int       `json:"ts"`
	Sig privvalSB `json:"sig"`
}

type privvalResp struct {
	K   string     `json:"k"`
	Err string     `json:"err"`
	Out privvalOut `json:"out"`
}

type privvalStep struct {
	Name    string    `json:"name"`
	T       string    `json:"t"`
	Q       *privvalQ `json:"q"`
	C       int       `json:"c"`
	Api     string    `json:"api"`
	Variant string    `json:"variant"`
}

type privvalRunDef struct {
	ID      string        `json:"id"`
	Retries int           `json:"retries"`
	Steps   []privvalStep `json:"steps"`
}

type privvalInput struct {
	Runs []privvalRunDef `json:"runs"`
}

var (
	privvalNoSB      = privvalSB{T: "none", H: 0, R: 0, V: "nil", Ts: 0}
	privvalUnknownSB = privvalSB{T: "unknown", H: -1, R: -1, V: "?", Ts: -1}
	privvalNoOut     = privvalOut{V: "nil", Ts: 0, Sig: privvalNoSB}
	privvalNoQ       = privvalQ{K: "none", Chain: "-", T: "none", V: "nil"}
	privvalTimeBase  = time.Date(2026, 1, 1, 0, 0, 0, 0, time.UTC)
)

// ---------------------------------------------------------------------------- errors of the harness network
type privvalTimeoutErr struct{}

func (privvalTimeoutErr) Error() string   { return "privval harness: i/o timeout" }
func (privvalTimeoutErr) Timeout() bool   { return true }
func (privvalTimeoutErr) Temporary() bool { return true }

var privvalErrBroken = errors.New("privval harness: broken pipe")
var privvalErrRefused = errors.New("privval harness: connection refused")

// ---------------------------------------------------------------------------- goroutine inspection
var privvalGoHdr = regexp.MustCompile(`^goroutine (\d+) \[([^\],]+)`)

type privvalGor struct {
	id    int64
	state string
	text  string
}

func privvalGid() int64 {
	var b [64]byte
	n := runtime.Stack(b[:], false)
	m := privvalGoHdr.FindSubmatch(b[:n])
	if m == nil {
		return -1
	}
	id, _ := strconv.ParseInt(string(m[1]), 10, 64)
	return id
}

func privvalGoroutines() []privvalGor {
	buf := make([]byte, 1<<18)
	for {
		n := runtime.Stack(buf, true)
		if n < len(buf) {
			buf = buf[:n]
			break
		}
		buf = make([]byte, 2*len(buf))
	}
	var out []privvalGor
	for _, blk := range strings.Split(string(buf), "\n\n") {
		m := privvalGoHdr.FindStringSubmatch(blk)
		if m == nil {
			continue
		}
		id, _ := strconv.ParseInt(m[1], 10, 64)
		out = append(out, privvalGor{id: id, state: m[2], text: blk})
	}
	return out
}

func privvalBlocked(s string) bool {
	switch s {
	case "running", "runnable", "syscall", "copystack", "preempted", "sleep":
		return false
	}
	return true
}

// ---------------------------------------------------------------------------- the world of one run
type privvalFrame struct {
	id int
	b  []byte
}

type privvalPipe struct {
	id      int
	q       [2][]privvalFrame // 0: node -> signer (c2s), 1: signer -> node (s2c)
	rbuf    [2][]byte         // bytes of a delivered message not yet consumed by the reader (index = reading side)
	closed  [2]bool           // 0: node end, 1: signer end
	cut     bool
	lastReq int  // id of the last request the signer read on this pipe
	eofs    [2]int
	errs    [2]int
}

type privvalWaiter struct {
	kind string // nread nwrite sread swrite accept dial
	c    int
	gid  int64
	dec  string
}

type privvalWorld struct {
	mu      sync.Mutex
	cond    *sync.Cond
	tr      *privvalTrace
	run     string
	pipes   []*privvalPipe
	backlog []int
	waiters []*privvalWaiter
	auto    bool
	lclosed bool
	nreq    int
	nev     int64
	gidC1   int64
	gidPg   int64
	mainGid int64
	variant string // hostile answer armed for the next request the signer handles
	offered int    // connection returned by Accept and not yet seen as the endpoint's connection
	// signer-side projection helpers
	priv      crypto.PrivKey
	pv        *FilePV
	blocks    map[string]types.BlockID
	blockName map[string]string
	signBytes [][]byte
	sbSeen    map[string]bool
	sigOver   map[string]privvalSB
	sl        *SignerListenerEndpoint
	sd        *SignerDialerEndpoint
}

type privvalTrace struct {
	mu sync.Mutex
	f  *os.File
	n  int64
}

func (t *privvalTrace) ev(ev string, kv privvalM) {
	m := privvalM{"ev": ev}
	for k, v := range kv {
		m[k] = v
	}
	t.mu.Lock()
	t.n++
	m["n"] = t.n
	b, err := json.Marshal(m)
	if err != nil {
		t.mu.Unlock()
		panic(err)
	}
	t.f.Write(append(b, '\n'))
	t.mu.Unlock()
}

// log an event; w.mu must be held
func (w *privvalWorld) ev(ev string, kv privvalM) {
	w.nev++
	w.tr.ev(ev, kv)
}

func (w *privvalWorld) who(gid int64) string {
	switch gid {
	case w.gidC1:
		return "c1"
	case w.gidPg:
		return "pg"
	}
	return "other"
}

// park the calling goroutine until the schedule decides; w.mu held
func (w *privvalWorld) await(kind string, c int, def func() string) string {
	if w.auto {
		return def()
	}
	wt := &privvalWaiter{kind: kind, c: c, gid: privvalGid()}
	w.waiters = append(w.waiters, wt)
	w.cond.Broadcast()
	for wt.dec == "" && !w.auto {
		w.cond.Wait()
	}
	for i, x := range w.waiters {
		if x == wt {
			w.waiters = append(w.waiters[:i], w.waiters[i+1:]...)
			break
		}
	}
	if wt.dec == "" {
		return def()
	}
	return wt.dec
}

// ---------------------------------------------------------------------------- net.Conn
type privvalEnd struct {
	w    *privvalWorld
	p    *privvalPipe
	side int // 0 node, 1 signer
}

type privvalAddr struct{}

func (privvalAddr) Network() string { return "privval-harness" }
func (privvalAddr) String() string  { return "privval-harness" }

func (e *privvalEnd) LocalAddr() net.Addr                { return privvalAddr{} }
func (e *privvalEnd) RemoteAddr() net.Addr               { return privvalAddr{} }
func (e *privvalEnd) SetDeadline(t time.Time) error      { return nil }
func (e *privvalEnd) SetReadDeadline(t time.Time) error  { return nil }
func (e *privvalEnd) SetWriteDeadline(t time.Time) error { return nil }

func (e *privvalEnd) evName(op string) string {
	if e.side == 0 {
		return "N" + op
	}
	return "S" + op
}

func (e *privvalEnd) Read(b []byte) (int, error) {
	w, p, s := e.w, e.p, e.side
	w.mu.Lock()
	defer w.mu.Unlock()
	if len(p.rbuf[s]) > 0 { // the rest of a message whose delivery was decided
		n := copy(b, p.rbuf[s])
		p.rbuf[s] = p.rbuf[s][n:]
		return n, nil
	}
	in := 1 - s // queue that flows towards this side
	t := "sg"
	if s == 0 {
		t = w.who(privvalGid())
	}
	if p.closed[s] {
		w.ev(e.evName("Read"), privvalM{"c": p.id, "t": t, "res": "closed", "id": 0, "q": privvalNoQ, "m": privvalNoResp()})
		return 0, io.ErrClosedPipe
	}
	def := func() string {
		if len(p.q[in]) > 0 {
			return "deliver"
		}
		if p.cut || p.closed[1-s] {
			return "eof"
		}
		return "timeout"
	}
	kind := "nread"
	if s == 1 {
		kind = "sread"
	}
	if p.errs[s] > 0 {
		// the code came back to a connection on which a read or write of its own already failed
		w.ev(e.evName("Reuse"), privvalM{"c": p.id, "t": t, "op": "read", "res": "begin"})
	}
	dec := w.await(kind, p.id, def)
	if p.closed[s] {
		w.ev(e.evName("Read"), privvalM{"c": p.id, "t": t, "res": "closed", "id": 0, "q": privvalNoQ, "m": privvalNoResp()})
		return 0, io.ErrClosedPipe
	}
	switch dec {
	case "deliver":
		if len(p.q[in]) == 0 {
			dec = "timeout"
			break
		}
		f := p.q[in][0]
		p.q[in] = p.q[in][1:]
		var msg privvalproto.Message
		_ = protoio.UnmarshalDelimited(f.b, &msg)
		if s == 1 {
			p.lastReq = f.id
			w.ev("SRead", privvalM{"c": p.id, "t": t, "res": "ok", "id": f.id, "q": w.projReq(&msg), "m": privvalNoResp()})
		} else {
			w.ev("NRead", privvalM{"c": p.id, "t": t, "res": "ok", "id": f.id, "q": privvalNoQ, "m": w.projResp(&msg)})
		}
		n := copy(b, f.b)
		p.rbuf[s] = append([]byte{}, f.b[n:]...)
		return n, nil
	case "eof":
		if len(p.q[in]) == 0 && (p.cut || p.closed[1-s]) {
			p.eofs[s]++
			p.errs[s]++
			w.ev(e.evName("Read"), privvalM{"c": p.id, "t": t, "res": "eof", "id": 0, "q": privvalNoQ, "m": privvalNoResp()})
			return 0, io.EOF
		}
		dec = "timeout"
	}
	p.errs[s]++
	w.ev(e.evName("Read"), privvalM{"c": p.id, "t": t, "res": "timeout", "id": 0, "q": privvalNoQ, "m": privvalNoResp()})
	return 0, privvalTimeoutErr{}
}

func (e *privvalEnd) Write(b []byte) (int, error) {
	w, p, s := e.w, e.p, e.side
	w.mu.Lock()
	defer w.mu.Unlock()
	t := "sg"
	if s == 0 {
		t = w.who(privvalGid())
	}
	var msg privvalproto.Message
	_ = protoio.UnmarshalDelimited(b, &msg)
	kind := "nwrite"
	if s == 1 {
		kind = "swrite"
	}
	if p.errs[s] > 0 {
		w.ev(e.evName("Reuse"), privvalM{"c": p.id, "t": t, "op": "write", "res": "begin"})
	}
	id := 0
	q, m := privvalNoQ, privvalNoResp()
	if s == 0 {
		q = w.projReq(&msg)
		// the request is handed to the connection now; whether and when it gets through is the schedule's decision
		w.ev("NWriteBegin", privvalM{"c": p.id, "t": t, "q": q})
	}
	dec := w.await(kind, p.id, func() string { return "go" })
	if s == 0 {
	} else {
		m = w.projResp(&msg)
		id = p.lastReq
	}
	res := "ok"
	var err error
	switch {
	case p.closed[s]:
		res, err = "closed", io.ErrClosedPipe
	case dec == "timeout":
		res, err = "timeout", privvalTimeoutErr{}
	case p.cut || p.closed[1-s]:
		res, err = "err", privvalErrBroken
	default:
		if s == 0 {
			w.nreq++
			id = w.nreq
		}
		p.q[s] = append(p.q[s], privvalFrame{id: id, b: append([]byte{}, b...)})
	}
	w.ev(e.evName("Write"), privvalM{"c": p.id, "t": t, "res": res, "id": id, "q": q, "m": m})
	if err != nil {
		p.errs[s]++
		return 0, err
	}
	return len(b), nil
}

func (e *privvalEnd) Close() error {
	w, p, s := e.w, e.p, e.side
	w.mu.Lock()
	defer w.mu.Unlock()
	if !p.closed[s] {
		p.closed[s] = true
		w.ev(e.evName("Close"), privvalM{"c": p.id})
		w.cond.Broadcast()
	}
	return nil
}

// ---------------------------------------------------------------------------- listener and dialer
type privvalListener struct{ w *privvalWorld }

func (l *privvalListener) Accept() (net.Conn, error) {
	w := l.w
	w.mu.Lock()
	defer w.mu.Unlock()
	if w.lclosed {
		return nil, errors.New("privval harness: listener closed")
	}
	dec := w.await("accept", 0, func() string { return "timeout" })
	if w.lclosed {
		return nil, errors.New("privval harness: listener closed")
	}
	if dec == "ok" && len(w.backlog) > 0 {
		c := w.backlog[0]
		w.backlog = w.backlog[1:]
		w.offered = c
		w.ev("Accept", privvalM{"c": c, "res": "ok"})
		return &privvalEnd{w: w, p: w.pipes[c-1], side: 0}, nil
	}
	w.ev("Accept", privvalM{"c": 0, "res": "timeout"})
	return nil, privvalTimeoutErr{}
}

func (l *privvalListener) Close() error {
	l.w.mu.Lock()
	l.w.lclosed = true
	l.w.cond.Broadcast()
	l.w.mu.Unlock()
	return nil
}

func (l *privvalListener) Addr() net.Addr { return privvalAddr{} }

func (w *privvalWorld) dial() (net.Conn, error) {
	w.mu.Lock()
	defer w.mu.Unlock()
	dec := w.await("dial", 0, func() string { return "fail" })
	if dec != "ok" {
		w.ev("SDial", privvalM{"c": 0, "res": "fail"})
		return nil, privvalErrRefused
	}
	p := &privvalPipe{id: len(w.pipes) + 1}
	w.pipes = append(w.pipes, p)
	w.backlog = append(w.backlog, p.id)
	w.ev("SDial", privvalM{"c": p.id, "res": "ok"})
	return &privvalEnd{w: w, p: p, side: 1}, nil
}

// ---------------------------------------------------------------------------- logger of the listener endpoint: attempt boundaries
type privvalLogger struct{ w *privvalWorld }

func (l privvalLogger) Debug(msg string, kv ...interface{}) {}
func (l privvalLogger) Error(msg string, kv ...interface{}) {}
func (l privvalLogger) With(kv ...interface{}) log.Logger  { return l }
func (l privvalLogger) Info(msg string, kv ...interface{}) {
	if strings.Contains(msg, "Blocking for connection") {
		l.w.mu.Lock()
		l.w.ev("NBlocking", privvalM{"t": l.w.who(privvalGid())})
		l.w.mu.Unlock()
	}
}

// ---------------------------------------------------------------------------- projections
func privvalNoResp() privvalResp { return privvalResp{K: "none", Err: "none", Out: privvalNoOut} }

func (w *privvalWorld) blockID(class string) types.BlockID {
	if class == "nil" {
		return types.BlockID{}
	}
	if b, ok := w.blocks[class]; ok {
		return b
	}
	b := types.BlockID{Hash: tmhash.Sum([]byte("privval-block-" + class)),
		PartSetHeader: types.PartSetHeader{Total: 1, Hash: tmhash.Sum([]byte("privval-parts-" + class))}}
	w.blocks[class] = b
	w.blockName[hex.EncodeToString(b.Hash)] = class
	return b
}

func (w *privvalWorld) className(hash []byte) string {
	if len(hash) == 0 {
		return "nil"
	}
	if n, ok := w.blockName[hex.EncodeToString(hash)]; ok {
		return n
	}
	return "?" + hex.EncodeToString(hash[:2])
}

func privvalTime(ts int) time.Time { return privvalTimeBase.Add(time.Duration(ts) * time.Second) }

func privvalTsOf(t time.Time) int {
	d := t.Sub(privvalTimeBase)
	if d%time.Second != 0 || d < 0 || d > 1000*time.Second {
		return -1
	}
	return int(d / time.Second)
}

func (w *privvalWorld) noteSB(sb []byte) {
	if len(sb) == 0 || w.sbSeen[string(sb)] {
		return
	}
	w.sbSeen[string(sb)] = true
	w.signBytes = append(w.signBytes, append([]byte{}, sb...))
}

func privvalVoteType(t tmproto.SignedMsgType) string {
	switch t {
	case tmproto.PrevoteType:
		return "prevote"
	case tmproto.PrecommitType:
		return "precommit"
	case tmproto.ProposalType:
		return "proposal"
	}
	return "unknown"
}

func (w *privvalWorld) projSB(sb []byte) privvalSB {
	if len(sb) == 0 {
		return privvalNoSB
	}
	w.noteSB(sb)
	var p tmproto.CanonicalProposal
	if err := protoio.UnmarshalDelimited(sb, &p); err == nil && p.Type == tmproto.ProposalType {
		var h []byte
		if p.BlockID != nil {
			h = p.BlockID.Hash
		}
		return privvalSB{T: "proposal", H: p.Height, R: p.Round, V: w.className(h), Ts: privvalTsOf(p.Timestamp)}
	}
	var v tmproto.CanonicalVote
	if err := protoio.UnmarshalDelimited(sb, &v); err != nil {
		return privvalUnknownSB
	}
	var h []byte
	if v.BlockID != nil {
		h = v.BlockID.Hash
	}
	return privvalSB{T: privvalVoteType(v.Type), H: v.Height, R: v.Round, V: w.className(h), Ts: privvalTsOf(v.Timestamp)}
}

// which sign-bytes string seen in this run does the signature verify over (under the signer's key)
func (w *privvalWorld) projSig(sig []byte) privvalSB {
	if len(sig) == 0 {
		return privvalNoSB
	}
	k := hex.EncodeToString(sig)
	if x, ok := w.sigOver[k]; ok {
		return x
	}
	pub := w.priv.PubKey()
	for _, sb := range w.signBytes {
		if pub.VerifySignature(sb, sig) {
			x := w.projSB(sb)
			w.sigOver[k] = x
			return x
		}
	}
	return privvalUnknownSB
}

func (w *privvalWorld) projVote(chain string, v *tmproto.Vote) (privvalQ, privvalOut) {
	if v == nil {
		return privvalQ{K: "sign", Chain: chain, T: "unknown", V: "nil"}, privvalNoOut
	}
	w.noteSB(types.VoteSignBytes(privvalChain, v))
	q := privvalQ{K: "sign", Chain: chain, T: privvalVoteType(v.Type), H: v.Height, R: int64(v.Round),
		V: w.className(v.BlockID.Hash), Ts: privvalTsOf(v.Timestamp)}
	return q, privvalOut{V: q.V, Ts: q.Ts, Sig: w.projSig(v.Signature)}
}

func (w *privvalWorld) projProposal(chain string, p *tmproto.Proposal) (privvalQ, privvalOut) {
	if p == nil {
		return privvalQ{K: "sign", Chain: chain, T: "unknown", V: "nil"}, privvalNoOut
	}
	w.noteSB(types.ProposalSignBytes(privvalChain, p))
	q := privvalQ{K: "sign", Chain: chain, T: "proposal", H: p.Height, R: int64(p.Round),
		V: w.className(p.BlockID.Hash), Ts: privvalTsOf(p.Timestamp)}
	return q, privvalOut{V: q.V, Ts: q.Ts, Sig: w.projSig(p.Signature)}
}

func (w *privvalWorld) projReq(msg *privvalproto.Message) privvalQ {
	switch r := msg.Sum.(type) {
	case *privvalproto.Message_PingRequest:
		return privvalQ{K: "ping", Chain: "-", T: "none", V: "nil"}
	case *privvalproto.Message_PubKeyRequest:
		return privvalQ{K: "pubkey", Chain: r.PubKeyRequest.ChainId, T: "none", V: "nil"}
	case *privvalproto.Message_SignVoteRequest:
		q, _ := w.projVote(r.SignVoteRequest.ChainId, r.SignVoteRequest.Vote)
		return q
	case *privvalproto.Message_SignProposalRequest:
		q, _ := w.projProposal(r.SignProposalRequest.ChainId, r.SignProposalRequest.Proposal)
		return q
	}
	return privvalQ{K: "other", Chain: "-", T: "none", V: "nil"}
}

func privvalRemoteErrClass(e *privvalproto.RemoteSignerError) string {
	if e == nil {
		return "none"
	}
	s := e.Description
	switch {
	case strings.HasPrefix(s, "unable to "):
		return "chain"
	case strings.Contains(s, "height regression"):
		return "err_height"
	case strings.Contains(s, "round regression"):
		return "err_round"
	case strings.Contains(s, "step regression"):
		return "err_step"
	case strings.Contains(s, "no SignBytes found"):
		return "err_nosignbytes"
	case strings.Contains(s, "conflicting data"):
		return "err_conflict"
	}
	return "err_other"
}

func (w *privvalWorld) projResp(msg *privvalproto.Message) privvalResp {
	switch r := msg.Sum.(type) {
	case *privvalproto.Message_PingResponse:
		return privvalResp{K: "ping", Err: "none", Out: privvalNoOut}
	case *privvalproto.Message_PubKeyResponse:
		out := privvalNoOut
		if pk, err := cryptoenc.PubKeyFromProto(r.PubKeyResponse.PubKey); err == nil {
			if pk.Equals(w.priv.PubKey()) {
				out.V = "PK"
			} else {
				out.V = "otherkey"
			}
		}
		return privvalResp{K: "pubkey", Err: privvalRemoteErrClass(r.PubKeyResponse.Error), Out: out}
	case *privvalproto.Message_SignedVoteResponse:
		out := privvalNoOut
		if len(r.SignedVoteResponse.Vote.Signature) > 0 || r.SignedVoteResponse.Error == nil {
			v := r.SignedVoteResponse.Vote
			_, out = w.projVote(privvalChain, &v)
		}
		return privvalResp{K: "vote", Err: privvalRemoteErrClass(r.SignedVoteResponse.Error), Out: out}
	case *privvalproto.Message_SignedProposalResponse:
		out := privvalNoOut
		if len(r.SignedProposalResponse.Proposal.Signature) > 0 || r.SignedProposalResponse.Error == nil {
			p := r.SignedProposalResponse.Proposal
			_, out = w.projProposal(privvalChain, &p)
		}
		return privvalResp{K: "prop", Err: privvalRemoteErrClass(r.SignedProposalResponse.Error), Out: out}
	case nil:
		return privvalResp{K: "empty", Err: "none", Out: privvalNoOut}
	}
	return privvalResp{K: "other", Err: "none", Out: privvalNoOut}
}

type privvalLSS struct {
	H   int64     `json:"h"`
	R   int64     `json:"r"`
	S   int64     `json:"s"`
	SB  privvalSB `json:"sb"`
	Sig privvalSB `json:"sig"`
}

func (w *privvalWorld) projLSS() privvalLSS {
	l := w.pv.LastSignState
	return privvalLSS{H: l.Height, R: int64(l.Round), S: int64(l.Step), SB: w.projSB(l.SignBytes), Sig: w.projSig(l.Signature)}
}

// the handler installed with SignerServer.SetRequestHandler: the default handler, observed; a
// hostile variant armed by the schedule replaces the answer (the request is still handled, so that
// the FilePV moves as in the spec)
func (w *privvalWorld) handler(pv types.PrivValidator, req privvalproto.Message, chainID string) (privvalproto.Message, error) {
	res, err := DefaultValidationRequestHandler(pv, req, chainID)
	w.mu.Lock()
	defer w.mu.Unlock()
	q := w.projReq(&req)
	honest := w.projResp(&res)
	variant := w.variant
	w.variant = ""
	switch variant {
	case "empty":
		res = privvalproto.Message{}
	case "wrongkind":
		if q.K == "ping" {
			res = mustWrapMsg(&privvalproto.PubKeyResponse{})
		} else {
			res = mustWrapMsg(&privvalproto.PingResponse{})
		}
	case "otherblock":
		if r, ok := req.Sum.(*privvalproto.Message_SignVoteRequest); ok && r.SignVoteRequest.Vote != nil {
			v := *r.SignVoteRequest.Vote
			zb := w.blockID("Z")
			v.BlockID = zb.ToProto()
			sb := types.VoteSignBytes(privvalChain, &v)
			w.noteSB(sb)
			v.Signature, _ = w.priv.Sign(sb)
			res = mustWrapMsg(&privvalproto.SignedVoteResponse{Vote: v})
		} else if r, ok := req.Sum.(*privvalproto.Message_SignProposalRequest); ok && r.SignProposalRequest.Proposal != nil {
			p := *r.SignProposalRequest.Proposal
			zb := w.blockID("Z")
			p.BlockID = zb.ToProto()
			sb := types.ProposalSignBytes(privvalChain, &p)
			w.noteSB(sb)
			p.Signature, _ = w.priv.Sign(sb)
			res = mustWrapMsg(&privvalproto.SignedProposalResponse{Proposal: p})
		}
	}
	w.ev("SHandle", privvalM{"q": q, "honest": honest, "m": w.projResp(&res), "variant": privvalOr(variant, "none"), "lss": w.projLSS()})
	return res, err
}

func privvalOr(s, d string) string {
	if s == "" {
		return d
	}
	return s
}

func privvalResClass(err error) (string, string) {
	if err == nil {
		return "ok", "none"
	}
	var rse *RemoteSignerError
	if errors.As(err, &rse) {
		return "remote_err", privvalRemoteErrClass(&privvalproto.RemoteSignerError{Description: rse.Description})
	}
	switch {
	case errors.Is(err, ErrUnexpectedResponse):
		return "unexpected", "none"
	case errors.Is(err, ErrReadTimeout):
		return "read_timeout", "none"
	case errors.Is(err, ErrWriteTimeout):
		return "write_timeout", "none"
	case errors.As(err, &EndpointTimeoutError{}):
		return "conn_timeout", "none"
	case errors.Is(err, ErrNoConnection):
		return "no_conn", "none"
	case errors.Is(err, io.EOF):
		return "eof", "none"
	case errors.Is(err, privvalErrBroken):
		return "write_err", "none"
	case errors.Is(err, io.ErrClosedPipe):
		return "closed", "none"
	}
	return "other", "none"
}

// ---------------------------------------------------------------------------- settle detection and projection
type privvalSnap struct {
	settled       bool
	c1, pg, sv, s string
	pgGid         int64
}

func (w *privvalWorld) snapshot() privvalSnap {
	sn := privvalSnap{settled: true, c1: "idle", pg: "gone", sv: "gone", s: "dead"}
	for _, g := range privvalGoroutines() {
		if g.id == w.mainGid || privvalOldGors[g.id] || !strings.Contains(g.text, "tendermint/privval.") {
			continue
		}
		tx := g.text
		if !privvalBlocked(g.state) {
			sn.settled = false
		}
		pc := "run"
		switch {
		case strings.Contains(tx, "privvalEnd).Read"):
			pc = "read"
		case strings.Contains(tx, "privvalEnd).Write"):
			pc = "write"
		case strings.Contains(tx, "WaitConnection"):
			pc = "wait"
		case strings.Contains(tx, "triggerReconnect"):
			pc = "reconn"
		case strings.Contains(tx, "privvalListener).Accept"):
			pc = "accepting"
		case strings.Contains(tx, "privvalWorld).dial"):
			pc = "ensure"
		case strings.Contains(tx, "time.Sleep"):
			pc = "sleep"
		case strings.Contains(tx, "(*SignerListenerEndpoint).SendRequest") || strings.Contains(tx, "(*SignerListenerEndpoint).WaitForConnection"):
			pc = "lock"
		case strings.Contains(tx, "privvalWorld).handler"):
			pc = "handle"
		}
		switch {
		case g.id == w.gidC1:
			sn.c1 = pc
		case strings.Contains(tx, "(*SignerListenerEndpoint).pingLoop"):
			if w.ownsGor(g.id, "pg") {
				if pc == "run" {
					pc = "idle"
				}
				sn.pg, sn.pgGid = pc, g.id
			}
		case strings.Contains(tx, "(*SignerListenerEndpoint).serviceLoop"):
			if w.ownsGor(g.id, "sv") {
				if pc == "run" {
					pc = "parked" // idle or offering: told apart below
				}
				sn.sv = pc
			}
		case strings.Contains(tx, "(*SignerServer).serviceLoop"):
			if w.ownsGor(g.id, "sg") {
				sn.s = pc
			}
		}
	}
	return sn
}

// goroutines started by this run: every goroutine id that existed before the run is foreign
var privvalOldGors = map[int64]bool{}

func (w *privvalWorld) ownsGor(id int64, role string) bool { return !privvalOldGors[id] }

func privvalMarkOld() {
	for _, g := range privvalGoroutines() {
		privvalOldGors[g.id] = true
	}
}

func (w *privvalWorld) connID(c net.Conn) int {
	if e, ok := c.(*privvalEnd); ok && e != nil {
		return e.p.id
	}
	return 0
}

// wait until every goroutine of the run is parked, then write the projection
func (w *privvalWorld) observe(final bool) privvalSnap {
	var sn privvalSnap
	deadline := time.Now().Add(20 * time.Second)
	for {
		w.mu.Lock()
		n0 := w.nev
		w.mu.Unlock()
		sn = w.snapshot()
		w.mu.Lock()
		same := n0 == w.nev
		w.mu.Unlock()
		if sn.settled && same {
			break
		}
		if time.Now().After(deadline) {
			sn.settled = false
			break
		}
		time.Sleep(200 * time.Microsecond)
	}
	w.mu.Lock()
	defer w.mu.Unlock()
	nconn := w.connID(w.sl.conn)
	sconn := w.connID(w.sd.conn)
	if w.offered != 0 && (nconn == w.offered || w.pipes[w.offered-1].closed[0]) {
		w.offered = 0
	}
	sv := sn.sv
	if sv == "parked" {
		if w.offered != 0 {
			sv = "offering"
		} else {
			sv = "idle"
		}
	}
	w.ev("Obs", privvalM{"settled": sn.settled, "final": final, "nconn": nconn, "sconn": sconn, "svc": sv, "c1": sn.c1, "pg": sn.pg,
		"sg": sn.s, "lss": w.projLSS(), "backlog": len(w.backlog)})
	sn.sv = sv
	return sn
}

// give a decision to a parked party; returns false if nobody of that kind is parked once the system has settled
func (w *privvalWorld) decide(kind, dec string, match func(*privvalWaiter) bool) bool {
	deadline := time.Now().Add(20 * time.Second)
	for {
		w.mu.Lock()
		for _, wt := range w.waiters {
			if wt.kind == kind && wt.dec == "" && (match == nil || match(wt)) {
				wt.dec = dec
				w.cond.Broadcast()
				w.mu.Unlock()
				return true
			}
		}
		n0 := w.nev
		w.mu.Unlock()
		sn := w.snapshot()
		w.mu.Lock()
		same := n0 == w.nev
		found := false
		for _, wt := range w.waiters {
			if wt.kind == kind && wt.dec == "" && (match == nil || match(wt)) {
				found = true
			}
		}
		w.mu.Unlock()
		if sn.settled && same && !found {
			// parked in WaitConnection (a real timer) or sleeping between retries: not final
			if sn.c1 != "wait" && sn.pg != "wait" && sn.c1 != "sleep" {
				return false
			}
		}
		if time.Now().After(deadline) {
			return false
		}
		time.Sleep(200 * time.Microsecond)
	}
}

// ---------------------------------------------------------------------------- one run
func privvalRunOne(tr *privvalTrace, dir string, idx int, rd privvalRunDef) {
	privvalMarkOld()
	w := &privvalWorld{tr: tr, run: rd.ID, blocks: map[string]types.BlockID{}, blockName: map[string]string{},
		sbSeen: map[string]bool{}, sigOver: map[string]privvalSB{}, mainGid: privvalGid(), gidC1: -2, gidPg: -3}
	w.cond = sync.NewCond(&w.mu)
	d := filepath.Join(dir, fmt.Sprintf("pv-%d", idx))
	if err := os.MkdirAll(d, 0o700); err != nil {
		panic(err)
	}
	w.priv = ed25519.GenPrivKeyFromSecret([]byte("privval-harness-key"))
	w.pv = NewFilePV(w.priv, filepath.Join(d, "key.json"), filepath.Join(d, "state.json"))
	w.pv.Save()
	retries := rd.Retries
	if retries < 1 {
		retries = 1
	}
	w.mu.Lock()
	w.ev("Reset", privvalM{"run": rd.ID, "chain": privvalChain, "retries": retries})
	w.mu.Unlock()

	// the node side, as node.createAndStartPrivValidatorSocketClient builds it (without the first GetPubKey)
	sl := NewSignerListenerEndpoint(privvalLogger{w}, &privvalListener{w}, SignerListenerEndpointTimeoutReadWrite(24*time.Hour))
	sl.timeoutAccept = 300 * time.Millisecond
	w.sl = sl
	sc, err := NewSignerClient(sl, privvalChain)
	if err != nil {
		panic(err)
	}
	rc := NewRetrySignerClient(sc, retries, time.Millisecond)
	// the signer side, as tools/tm-signer-harness and the package's tests build it
	sd := NewSignerDialerEndpoint(log.NewNopLogger(), w.dial, SignerDialerEndpointTimeoutReadWrite(24*time.Hour),
		SignerDialerEndpointConnRetries(2), SignerDialerEndpointRetryWaitInterval(time.Millisecond))
	w.sd = sd
	ss := NewSignerServer(sd, privvalChain, w.pv)
	ss.SetRequestHandler(w.handler)
	if err := ss.Start(); err != nil {
		panic(err)
	}
	sn := w.observe(false)
	w.gidPg = sn.pgGid

	var wg sync.WaitGroup
	skipped := false
	for si, st := range rd.Steps {
		ok := true
		switch st.Name {
		case "StartCall":
			if sn.c1 != "idle" {
				ok = false
				break
			}
			q := *st.Q
			api := privvalOr(st.Api, "retry")
			started := make(chan struct{})
			wg.Add(1)
			go func() {
				defer wg.Done()
				w.mu.Lock()
				w.gidC1 = privvalGid()
				w.ev("CallStart", privvalM{"t": "c1", "q": q, "api": api})
				w.mu.Unlock()
				close(started)
				res, out, rerr := privvalCall(w, sc, rc, api, q)
				w.mu.Lock()
				w.ev("Return", privvalM{"t": "c1", "q": q, "api": api, "res": res, "rerr": rerr, "out": out})
				w.gidC1 = -2
				w.mu.Unlock()
			}()
			<-started
		case "PingTick":
			if sn.pg != "idle" {
				ok = false
				break
			}
			w.mu.Lock()
			w.ev("PingTick", privvalM{})
			w.mu.Unlock()
			sl.pingTimer.Reset(50 * time.Microsecond)
			dl := time.Now().Add(20 * time.Second)
			for {
				s2 := w.snapshot()
				if s2.pg != "idle" || time.Now().After(dl) {
					break
				}
				time.Sleep(100 * time.Microsecond)
			}
			sl.pingTimer.Reset(24 * time.Hour)
			select {
			case <-sl.pingTimer.C:
			default:
			}
		case "Write":
			ok = w.decide("nwrite", "go", w.byThread(st.T))
		case "WriteTimeout":
			ok = w.decide("nwrite", "timeout", w.byThread(st.T))
		case "ReadOK":
			ok = w.decide("nread", "deliver", w.byThread(st.T))
		case "ReadTimeout":
			ok = w.decide("nread", "timeout", w.byThread(st.T))
		case "ReadEOF":
			ok = w.decide("nread", "eof", w.byThread(st.T))
		case "WaitTimeout":
			// the real timer of WaitConnection: wait for the attempt to end
			dl := time.Now().Add(5 * time.Second)
			for {
				s2 := w.snapshot()
				pc := s2.c1
				if st.T == "pg" {
					pc = s2.pg
				}
				if pc != "wait" || time.Now().After(dl) {
					break
				}
				time.Sleep(5 * time.Millisecond)
			}
		case "SvcAccept":
			ok = w.decide("accept", "ok", nil)
		case "SvcAcceptTimeout":
			ok = w.decide("accept", "timeout", nil)
		case "SgnDial":
			ok = w.decide("dial", "ok", nil)
		case "SgnDialFail":
			ok = w.decide("dial", "fail", nil)
		case "SgnReadOK":
			w.mu.Lock()
			w.variant = st.Variant
			w.mu.Unlock()
			ok = w.decide("sread", "deliver", nil)
		case "SgnReadTimeout":
			ok = w.decide("sread", "timeout", nil)
		case "SgnReadEOF":
			ok = w.decide("sread", "eof", nil)
		case "SgnWrite":
			ok = w.decide("swrite", "go", nil)
		case "Cut":
			w.mu.Lock()
			if st.C >= 1 && st.C <= len(w.pipes) && !w.pipes[st.C-1].cut {
				p := w.pipes[st.C-1]
				p.cut = true
				p.q[0], p.q[1] = nil, nil
				w.ev("Cut", privvalM{"c": p.id})
			} else {
				ok = false
			}
			w.mu.Unlock()
		default:
			continue // internal step of the spec: the real code takes it by itself
		}
		if !ok {
			w.mu.Lock()
			w.ev("Skip", privvalM{"step": si, "name": st.Name})
			w.mu.Unlock()
			skipped = true
			break
		}
		sn = w.observe(false)
		if !sn.settled {
			break
		}
	}
	_ = skipped
	// drain: every parked party gets the default outcome, the services are stopped
	w.mu.Lock()
	w.ev("Drain", privvalM{})
	w.auto = true
	sl.timeoutAccept = time.Millisecond
	w.cond.Broadcast()
	w.mu.Unlock()
	done := make(chan struct{})
	go func() {
		wg.Wait()
		_ = sl.Stop()
		_ = ss.Stop()
		// Stop does not wait for the loops: wait until the goroutines of this run are gone
		dl := time.Now().Add(10 * time.Second)
		for time.Now().Before(dl) {
			s2 := w.snapshot()
			if s2.s == "dead" && s2.pg == "gone" && s2.sv == "gone" {
				break
			}
			time.Sleep(time.Millisecond)
		}
		close(done)
	}()
	select {
	case <-done:
	case <-time.After(30 * time.Second):
		w.mu.Lock()
		w.ev("Stuck", privvalM{"what": "drain"})
		w.mu.Unlock()
	}
	w.mu.Lock()
	w.ev("End", privvalM{})
	w.mu.Unlock()
}

func (w *privvalWorld) byThread(t string) func(*privvalWaiter) bool {
	return func(wt *privvalWaiter) bool { return t == "" || w.who(wt.gid) == t }
}

// one call through the API consensus uses (types.PrivValidator) or SignerClient.Ping
func privvalCall(w *privvalWorld, sc *SignerClient, rc *RetrySignerClient, api string, q privvalQ) (string, privvalOut, string) {
	var pvI types.PrivValidator = rc
	if api == "plain" {
		pvI = sc
	}
	switch q.K {
	case "ping":
		var err error
		if api == "plain" {
			err = sc.Ping()
		} else {
			err = rc.Ping()
		}
		res, rerr := privvalResClass(err)
		return res, privvalNoOut, rerr
	case "pubkey":
		// the chain id of a PubKeyRequest is the client's own: a foreign one needs a client of its own
		c := sc
		if q.Chain != privvalChain {
			c = &SignerClient{endpoint: sc.endpoint, chainID: q.Chain}
		}
		var pk crypto.PubKey
		var err error
		if api == "plain" {
			pk, err = c.GetPubKey()
		} else {
			pk, err = NewRetrySignerClient(c, rc.retries, rc.timeout).GetPubKey()
		}
		res, rerr := privvalResClass(err)
		out := privvalNoOut
		if err == nil && pk != nil {
			if pk.Equals(w.priv.PubKey()) {
				out.V = "PK"
			} else {
				out.V = "otherkey"
			}
		}
		return res, out, rerr
	}
	w.mu.Lock()
	bid := w.blockID(q.V)
	w.mu.Unlock()
	if q.T == "proposal" {
		p := &tmproto.Proposal{Type: tmproto.ProposalType, Height: q.H, Round: int32(q.R), PolRound: -1,
			BlockID: bid.ToProto(), Timestamp: privvalTime(q.Ts)}
		err := pvI.SignProposal(q.Chain, p)
		res, rerr := privvalResClass(err)
		if err != nil {
			return res, privvalNoOut, rerr
		}
		w.mu.Lock()
		_, out := w.projProposal(q.Chain, p)
		w.mu.Unlock()
		return res, out, rerr
	}
	vt := tmproto.PrevoteType
	if q.T == "precommit" {
		vt = tmproto.PrecommitType
	}
	v := &tmproto.Vote{Type: vt, Height: q.H, Round: int32(q.R), BlockID: bid.ToProto(), Timestamp: privvalTime(q.Ts),
		ValidatorAddress: w.priv.PubKey().Address(), ValidatorIndex: 0}
	err := pvI.SignVote(q.Chain, v)
	res, rerr := privvalResClass(err)
	if err != nil {
		return res, privvalNoOut, rerr
	}
	w.mu.Lock()
	_, out := w.projVote(q.Chain, v)
	w.mu.Unlock()
	return res, out, rerr
}

func TestVerifPRIVVAL(t *testing.T) {
	in, outDir := os.Getenv("VERIF_IN"), os.Getenv("VERIF_OUT")
	if in == "" || outDir == "" {
		t.Skip("VERIF_IN / VERIF_OUT not set")
	}
	bz, err := os.ReadFile(in)
	if err != nil {
		t.Fatal(err)
	}
	var inp privvalInput
	if err := json.Unmarshal(bz, &inp); err != nil {
		t.Fatal(err)
	}
	f, err := os.Create(filepath.Join(outDir, "privval.ndjson"))
	if err != nil {
		t.Fatal(err)
	}
	tr := &privvalTrace{f: f}
	dir, err := os.MkdirTemp("", "privval")
	if err != nil {
		t.Fatal(err)
	}
	defer os.RemoveAll(dir)
	for i, rd := range inp.Runs {
		privvalRunOne(tr, dir, i, rd)
	}
	f.Close()
}
