//go:build verif

package privval

// C04 harness, signer half (see /verif/DESIGN.md section 5, C04; spec/TMSigner.tla,
// spec/TMSignerPV.tla).  Drives a REAL FilePV on real files through the exported entry points
// consensus uses (SignVote / SignProposal / LoadFilePV), following schedules exported from
// TLC's state graph / simulation of TMSignerPV plus a seeded random driver, and writes one
// NDJSON event per step with the projection of the real object (memory, state file, temp
// files).  The crash points INSIDE saveSigned (after the temp write, after the rename) cannot
// be hit from a test without product hooks; they are produced by letting the real call write
// its state file into a scratch location and then placing that file into the real directory
// as a stray temp file / as the state file, which is exactly the on-disk state after such a
// crash.  The harness gives no verdicts: TLC does (spec/trace/TMSignerTrace.tla).

import (
	"encoding/hex"
	"encoding/json"
	"fmt"
	"math/rand"
	"os"
	"path/filepath"
	"strconv"
	"strings"
	"sync"
	"testing"
	"time"

	"github.com/tendermint/tendermint/crypto"
	"github.com/tendermint/tendermint/crypto/ed25519"
	"github.com/tendermint/tendermint/crypto/tmhash"
	tmjson "github.com/tendermint/tendermint/libs/json"
	"github.com/tendermint/tendermint/libs/protoio"
	tmproto "github.com/tendermint/tendermint/proto/tendermint/types"
	"github.com/tendermint/tendermint/types"
)

const c04ChainID = "c04-chain"

type c04Req struct {
	T  string `json:"t"`
	H  int64  `json:"h"`
	R  int32  `json:"r"`
	V  string `json:"v"`
	Ts int    `json:"ts"`
}

type c04Op struct {
	Op    string `json:"op"` // sign | crash | load
	Req   c04Req `json:"req"`
	Stage string `json:"stage"` // crash: idle | computed | tmp | renamed
	Torn  bool   `json:"torn"`
}

type c04Sched struct {
	Ops []c04Op `json:"ops"`
}

type c04Input struct {
	Scheds []c04Sched `json:"scheds"`
	Random int        `json:"random"`
}

// abstract sign bytes [t,h,r,v,ts]; also used for "the signature over these sign bytes"
type c04SB struct {
	T  string `json:"t"`
	H  int64  `json:"h"`
	R  int64  `json:"r"`
	V  string `json:"v"`
	Ts int    `json:"ts"`
}

type c04LSS struct {
	H   int64 `json:"h"`
	R   int64 `json:"r"`
	S   int64 `json:"s"`
	SB  c04SB `json:"sb"`
	Sig c04SB `json:"sig"`
}

type c04Out struct {
	V   string `json:"v"`
	Ts  int    `json:"ts"`
	Sig c04SB  `json:"sig"`
}

var (
	c04NoSB      = c04SB{T: "none", H: 0, R: 0, V: "nil", Ts: 0}
	c04UnknownSB = c04SB{T: "unknown", H: -1, R: -1, V: "?", Ts: -1}
	c04TimeBase  = time.Date(2026, 1, 1, 0, 0, 0, 0, time.UTC)
)

// one run = one key, one directory, several incarnations of FilePV
type c04Run struct {
	dir, keyPath, statePath, scratch string
	priv                             crypto.PrivKey
	pv                               *FilePV // nil = process down
	blocks                           map[string]types.BlockID
	blockName                        map[string]string
	signBytes                        [][]byte         // every sign-bytes string seen in this run
	sbSeen                           map[string]bool  // dedup of signBytes
	sigOver                          map[string]c04SB // hex(sig) -> the sign bytes it verifies over
	nstray                           int
}

func c04NewRun(seed int64, run int) *c04Run {
	dir, err := os.MkdirTemp("", "c04pv")
	if err != nil {
		panic(err)
	}
	r := &c04Run{dir: dir, keyPath: filepath.Join(dir, "priv_validator_key.json"),
		statePath: filepath.Join(dir, "priv_validator_state.json"), scratch: filepath.Join(dir, "scratch"),
		blocks: map[string]types.BlockID{}, blockName: map[string]string{}, sbSeen: map[string]bool{},
		sigOver: map[string]c04SB{}}
	if err := os.MkdirAll(r.scratch, 0o700); err != nil {
		panic(err)
	}
	r.priv = ed25519.GenPrivKeyFromSecret([]byte(fmt.Sprintf("c04-%d-%d", seed, run)))
	r.pv = NewFilePV(r.priv, r.keyPath, r.statePath)
	r.pv.Save() // what LoadOrGenFilePV does for a fresh validator
	return r
}

func (r *c04Run) close() { os.RemoveAll(r.dir) }

func (r *c04Run) blockID(class string) types.BlockID {
	if class == "nil" {
		return types.BlockID{}
	}
	if b, ok := r.blocks[class]; ok {
		return b
	}
	b := types.BlockID{Hash: tmhash.Sum([]byte("c04-block-" + class + r.dir)),
		PartSetHeader: types.PartSetHeader{Total: 1, Hash: tmhash.Sum([]byte("c04-parts-" + class + r.dir))}}
	r.blocks[class] = b
	r.blockName[hex.EncodeToString(b.Hash)] = class
	return b
}

func (r *c04Run) className(hash []byte) string {
	if len(hash) == 0 {
		return "nil"
	}
	if n, ok := r.blockName[hex.EncodeToString(hash)]; ok {
		return n
	}
	return "?" + hex.EncodeToString(hash[:2])
}

func c04Time(ts int) time.Time { return c04TimeBase.Add(time.Duration(ts) * time.Second) }

func c04TsOf(t time.Time) int {
	d := t.Sub(c04TimeBase)
	if d%time.Second != 0 || d < 0 || d > 1000*time.Second {
		return -1
	}
	return int(d / time.Second)
}

func (r *c04Run) noteSignBytes(sb []byte) {
	if len(sb) == 0 || r.sbSeen[string(sb)] {
		return
	}
	r.sbSeen[string(sb)] = true
	r.signBytes = append(r.signBytes, append([]byte{}, sb...))
}

// decode canonical sign bytes into the abstract record (projection, no judgement)
func (r *c04Run) projSB(sb []byte) c04SB {
	if len(sb) == 0 {
		return c04NoSB
	}
	r.noteSignBytes(sb)
	var p tmproto.CanonicalProposal
	if err := protoio.UnmarshalDelimited(sb, &p); err == nil && p.Type == tmproto.ProposalType {
		var h []byte
		if p.BlockID != nil {
			h = p.BlockID.Hash
		}
		v := r.className(h)
		if p.POLRound != -1 {
			v += "@" + strconv.Itoa(int(p.POLRound))
		}
		return c04SB{T: "proposal", H: p.Height, R: p.Round, V: v, Ts: c04TsOf(p.Timestamp)}
	}
	var v tmproto.CanonicalVote
	if err := protoio.UnmarshalDelimited(sb, &v); err != nil {
		return c04UnknownSB
	}
	var h []byte
	if v.BlockID != nil {
		h = v.BlockID.Hash
	}
	t := "unknown"
	switch v.Type {
	case tmproto.PrevoteType:
		t = "prevote"
	case tmproto.PrecommitType:
		t = "precommit"
	}
	return c04SB{T: t, H: v.Height, R: v.Round, V: r.className(h), Ts: c04TsOf(v.Timestamp)}
}

// which of the sign-bytes strings seen so far does this signature verify over?
func (r *c04Run) projSig(sig []byte) c04SB {
	if len(sig) == 0 {
		return c04NoSB
	}
	k := hex.EncodeToString(sig)
	if x, ok := r.sigOver[k]; ok {
		return x
	}
	pub := r.priv.PubKey()
	for _, sb := range r.signBytes {
		if pub.VerifySignature(sb, sig) {
			x := r.projSB(sb)
			r.sigOver[k] = x
			return x
		}
	}
	return c04UnknownSB
}

func (r *c04Run) projLSS(l *FilePVLastSignState) c04LSS {
	sb := r.projSB(l.SignBytes)
	return c04LSS{H: l.Height, R: int64(l.Round), S: int64(l.Step), SB: sb, Sig: r.projSig(l.Signature)}
}

// the sign-state file as it is on disk right now (read without LoadFilePV: a projection must
// not depend on the function under test)
func (r *c04Run) projFile() c04LSS {
	bz, err := os.ReadFile(r.statePath)
	if err != nil {
		return c04LSS{H: -3, R: -3, S: -3, SB: c04NoSB, Sig: c04NoSB}
	}
	var l FilePVLastSignState
	if err := tmjson.Unmarshal(bz, &l); err != nil {
		return c04LSS{H: -4, R: -4, S: -4, SB: c04NoSB, Sig: c04NoSB}
	}
	return r.projLSS(&l)
}

func (r *c04Run) projTmp() string {
	ents, _ := os.ReadDir(r.dir)
	out := "none"
	for _, e := range ents {
		if strings.HasPrefix(e.Name(), "write-file-atomic-") {
			if strings.Contains(e.Name(), "torn") {
				if out == "none" {
					out = "torn"
				}
			} else {
				out = "stray"
			}
		}
	}
	return out
}

func c04ErrClass(err error) string {
	if err == nil {
		return "none"
	}
	s := err.Error()
	switch {
	case strings.Contains(s, "height regression"):
		return "err_height"
	case strings.Contains(s, "round regression"):
		return "err_round"
	case strings.Contains(s, "step regression"):
		return "err_step"
	case strings.Contains(s, "no SignBytes found"):
		return "err_nosignbytes"
	case strings.Contains(s, "conflicting data"):
		return "err_conflict"
	}
	return "err_other"
}

// one real signing call; returns the error and what came back in the message
func (r *c04Run) sign(q c04Req) (error, c04Out) {
	bid := r.blockID(q.V)
	switch q.T {
	case "proposal":
		p := &tmproto.Proposal{Type: tmproto.ProposalType, Height: q.H, Round: q.R, PolRound: -1,
			BlockID: bid.ToProto(), Timestamp: c04Time(q.Ts)}
		r.noteSignBytes(types.ProposalSignBytes(c04ChainID, p))
		err := r.pv.SignProposal(c04ChainID, p)
		if err != nil {
			return err, c04Out{V: "nil", Ts: 0, Sig: c04NoSB}
		}
		r.noteSignBytes(types.ProposalSignBytes(c04ChainID, p))
		return nil, c04Out{V: r.className(p.BlockID.Hash), Ts: c04TsOf(p.Timestamp), Sig: r.projSig(p.Signature)}
	default:
		vt := tmproto.PrevoteType
		if q.T == "precommit" {
			vt = tmproto.PrecommitType
		}
		v := &tmproto.Vote{Type: vt, Height: q.H, Round: q.R, BlockID: bid.ToProto(), Timestamp: c04Time(q.Ts),
			ValidatorAddress: r.priv.PubKey().Address(), ValidatorIndex: 0}
		r.noteSignBytes(types.VoteSignBytes(c04ChainID, v))
		err := r.pv.SignVote(c04ChainID, v)
		if err != nil {
			return err, c04Out{V: "nil", Ts: 0, Sig: c04NoSB}
		}
		r.noteSignBytes(types.VoteSignBytes(c04ChainID, v))
		return nil, c04Out{V: r.className(v.BlockID.Hash), Ts: c04TsOf(v.Timestamp), Sig: r.projSig(v.Signature)}
	}
}

type c04Writer struct {
	f   *os.File
	enc *json.Encoder
	n   int
}

func newC04Writer(path string) *c04Writer {
	f, err := os.Create(path)
	if err != nil {
		panic(err)
	}
	return &c04Writer{f: f, enc: json.NewEncoder(f)}
}

func (w *c04Writer) emit(v interface{}) {
	if err := w.enc.Encode(v); err != nil {
		panic(err)
	}
	w.n++
}

// events of one run, buffered so that runs can execute in parallel and still be written in order
type c04Buf struct{ evs []interface{} }

func (b *c04Buf) emit(v interface{}) { b.evs = append(b.evs, v) }

func c04RunSched(w *c04Buf, seed int64, run int, src string, ops []c04Op) {
	r := c04NewRun(seed, run)
	defer r.close()
	w.emit(map[string]interface{}{"ev": "Reset", "run": run, "src": src, "kind": "pv",
		"mem": r.projLSS(&r.pv.LastSignState), "file": r.projFile()})
	for _, op := range ops {
		switch op.Op {
		case "sign":
			if r.pv == nil {
				continue // schedule step not applicable (counted by the runner as skipped)
			}
			err, out := r.sign(op.Req)
			kind := "ok"
			if err != nil {
				kind = "err"
			}
			w.emit(map[string]interface{}{"ev": "Sign", "run": run, "req": op.Req, "kind": kind,
				"err": c04ErrClass(err), "out": out, "mem": r.projLSS(&r.pv.LastSignState),
				"file": r.projFile(), "tmp": r.projTmp()})
		case "crash":
			if r.pv == nil {
				continue
			}
			signed := false
			if op.Stage != "idle" {
				// the real call runs with its state file redirected to a scratch path ...
				sp := filepath.Join(r.scratch, "state.json")
				os.Remove(sp)
				r.pv.LastSignState.filePath = sp
				err, _ := r.sign(op.Req)
				if _, serr := os.Stat(sp); err == nil && serr == nil {
					signed = true
					bz, rerr := os.ReadFile(sp)
					if rerr != nil {
						panic(rerr)
					}
					// ... and the crash point decides what of it reached the real directory
					switch op.Stage {
					case "computed":
						if op.Torn {
							r.nstray++
							p := filepath.Join(r.dir, fmt.Sprintf("write-file-atomic-torn%d", r.nstray))
							if werr := os.WriteFile(p, bz[:len(bz)/2], 0o600); werr != nil {
								panic(werr)
							}
						}
					case "tmp":
						r.nstray++
						p := filepath.Join(r.dir, fmt.Sprintf("write-file-atomic-0%d", r.nstray))
						if werr := os.WriteFile(p, bz, 0o600); werr != nil {
							panic(werr)
						}
					case "renamed":
						if werr := os.Rename(sp, r.statePath); werr != nil {
							panic(werr)
						}
					}
				}
			}
			r.pv = nil // process death: every in-memory object is abandoned
			w.emit(map[string]interface{}{"ev": "Crash", "run": run, "stage": op.Stage, "torn": op.Torn,
				"req": op.Req, "signed": signed, "file": r.projFile(), "tmp": r.projTmp()})
		case "load":
			if r.pv != nil {
				continue
			}
			r.pv = LoadFilePV(r.keyPath, r.statePath)
			w.emit(map[string]interface{}{"ev": "Load", "run": run, "mem": r.projLSS(&r.pv.LastSignState),
				"file": r.projFile(), "tmp": r.projTmp()})
		}
	}
}

// seeded random schedules over a larger alphabet than the TLC configs use
func c04RandomOps(rng *rand.Rand) []c04Op {
	n := 4 + rng.Intn(14)
	types_ := []string{"proposal", "prevote", "precommit"}
	vals := []string{"A", "B", "C", "nil"}
	var ops []c04Op
	down := false
	h, rd := int64(1), int32(0)
	for i := 0; i < n; i++ {
		if down {
			ops = append(ops, c04Op{Op: "load"})
			down = false
			continue
		}
		// mostly move forward or stay, sometimes go back
		switch rng.Intn(10) {
		case 0:
			h++
			rd = 0
		case 1, 2:
			rd++
		case 3:
			if rd > 0 {
				rd--
			}
		case 4:
			if h > 1 {
				h--
			}
		}
		q := c04Req{T: types_[rng.Intn(3)], H: h, R: rd, V: vals[rng.Intn(4)], Ts: 1 + rng.Intn(3)}
		if q.T == "proposal" && q.V == "nil" {
			q.V = "A"
		}
		if rng.Intn(5) == 0 {
			st := []string{"idle", "computed", "tmp", "renamed"}[rng.Intn(4)]
			ops = append(ops, c04Op{Op: "crash", Stage: st, Torn: st == "computed" && rng.Intn(2) == 0, Req: q})
			down = true
		} else {
			ops = append(ops, c04Op{Op: "sign", Req: q})
			if rng.Intn(3) == 0 { // immediate re-request, same / other timestamp / other block
				q2 := q
				switch rng.Intn(3) {
				case 0:
					q2.Ts = 1 + rng.Intn(3)
				case 1:
					q2.V = vals[rng.Intn(3)]
				}
				ops = append(ops, c04Op{Op: "sign", Req: q2})
			}
		}
	}
	return ops
}

func TestVerifC04PV(t *testing.T) {
	inPath, outDir := os.Getenv("VERIF_IN"), os.Getenv("VERIF_OUT")
	if inPath == "" || outDir == "" {
		t.Skip("VERIF_IN / VERIF_OUT not set")
	}
	seed, _ := strconv.ParseInt(os.Getenv("VERIF_SEED"), 10, 64)
	raw, err := os.ReadFile(inPath)
	if err != nil {
		t.Fatal(err)
	}
	var in c04Input
	if err := json.Unmarshal(raw, &in); err != nil {
		t.Fatal(err)
	}
	w := newC04Writer(filepath.Join(outDir, "pv.ndjson"))
	type job struct {
		src string
		ops []c04Op
	}
	var jobs []job
	for _, s := range in.Scheds {
		jobs = append(jobs, job{"tlc", s.Ops})
	}
	rng := rand.New(rand.NewSource(seed*7919 + 4))
	for k := 0; k < in.Random; k++ {
		jobs = append(jobs, job{"random", c04RandomOps(rng)})
	}
	// runs are independent (own key, own directory): execute them on a few workers, the state
	// file writes are O_SYNC and dominate the wall time
	bufs := make([]c04Buf, len(jobs))
	next := make(chan int)
	var wg sync.WaitGroup
	for k := 0; k < 8; k++ {
		wg.Add(1)
		go func() {
			defer wg.Done()
			for i := range next {
				c04RunSched(&bufs[i], seed, i+1, jobs[i].src, jobs[i].ops)
			}
		}()
	}
	for i := range jobs {
		next <- i
	}
	close(next)
	wg.Wait()
	run := len(jobs)
	for i := range bufs {
		for _, ev := range bufs[i].evs {
			w.emit(ev)
		}
	}
	w.f.Close()
	t.Logf("C04 pv harness: %d runs, %d events", run, w.n)
}
