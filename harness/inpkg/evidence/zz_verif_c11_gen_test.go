//go:build verif

package evidence

// C11 harness, part 2: seeded random chains, evidence universes (genuine items and
// single-field perturbations, described ABSTRACTLY -- the spec judges each item from its
// abstract fields, whoever generated it) and adaptive random drivers following the
// node's protocol (PendingEvidence -> CheckEvidence -> Update, crash between Update and
// the state save, restart, concurrent AddEvidence).

import (
	"fmt"
	"math/rand"
	"sort"
	"testing"
)

func c11CopyVals(m map[string]int64) map[string]int64 {
	o := map[string]int64{}
	for k, v := range m {
		o[k] = v
	}
	return o
}

func c11SortedNames(m map[string]int64) []string {
	o := make([]string, 0, len(m))
	for k := range m {
		o = append(o, k)
	}
	sort.Strings(o)
	return o
}

func c11Total(m map[string]int64) int64 {
	var t int64
	for _, v := range m {
		t += v
	}
	return t
}

func c11GenChain(rng *rand.Rand) *c11Ctx {
	c := &c11Ctx{N: 9 + rng.Intn(3), Names: []string{"n1", "n2", "n3", "n4", "n5"},
		Dv: map[string]*c11Dv{}, Lca: map[string]*c11Lca{}, Pairs: map[string]*c11Pair{}}
	c.H0 = int64(2 + rng.Intn(3))
	cur := map[string]int64{"n1": int64(1 + rng.Intn(3)), "n2": int64(1 + rng.Intn(3))}
	if rng.Intn(2) == 0 {
		cur["n3"] = int64(1 + rng.Intn(3))
	}
	t := int64(10)
	gaps := []int64{1, 2, 5, 10, 30}
	for h := 1; h <= c.N; h++ {
		if h > 1 && rng.Intn(3) == 0 {
			cur = c11CopyVals(cur)
			switch rng.Intn(3) {
			case 0:
				ns := c11SortedNames(cur)
				cur[ns[rng.Intn(len(ns))]] = int64(1 + rng.Intn(4))
			case 1:
				cand := []string{"n3", "n4"}[rng.Intn(2)]
				cur[cand] = int64(1 + rng.Intn(3))
			default:
				if len(cur) > 2 {
					ns := c11SortedNames(cur)
					delete(cur, ns[rng.Intn(len(ns))])
				}
			}
		}
		c.Vals = append(c.Vals, c11CopyVals(cur))
		c.Time = append(c.Time, t)
		t += gaps[rng.Intn(len(gaps))]
		// the chain's own commit: everybody, or everybody but one when that keeps > 2/3
		ns := c11SortedNames(cur)
		signed := ns
		if len(ns) >= 3 && rng.Intn(3) == 0 {
			drop := ns[rng.Intn(len(ns))]
			if 3*(c11Total(cur)-cur[drop]) > 2*c11Total(cur) {
				signed = []string{}
				for _, n := range ns {
					if n != drop {
						signed = append(signed, n)
					}
				}
			}
		}
		c.Signed = append(c.Signed, signed)
	}
	// evidence age limits, lowered and raised by the application at some heights
	as, ds := []int64{0, 1, 2, 2, 3, 4}, []int64{0, 3, 8, 15, 25, 60}
	lim := c11Params{A: as[rng.Intn(len(as))], D: ds[rng.Intn(len(ds))]}
	for h := 1; h <= c.N; h++ {
		if h > 1 && rng.Intn(4) == 0 {
			switch rng.Intn(3) {
			case 0:
				lim.A = as[rng.Intn(len(as))]
			case 1:
				lim.D = ds[rng.Intn(len(ds))]
			default:
				lim = c11Params{A: as[rng.Intn(len(as))], D: ds[rng.Intn(len(ds))]}
			}
		}
		c.Params = append(c.Params, lim)
	}
	return c
}

func (c *c11Ctx) valsAt(h int64) map[string]int64 {
	if h < 1 {
		h = 1
	}
	if int(h) > len(c.Vals) {
		h = int64(len(c.Vals))
	}
	return c.Vals[h-1]
}

func (c *c11Ctx) timeAt(h int64) int64 {
	if h < 1 {
		return 0
	}
	if int(h) > len(c.Time) {
		return c.Time[len(c.Time)-1] + (h - int64(len(c.Time)))
	}
	return c.Time[h-1]
}

// genuine duplicate-vote item for (h, val) and its single-field perturbations
func c11DvFamily(c *c11Ctx, pfx string, h int64, val string, rng *rand.Rand) {
	vs := c.valsAt(h)
	g := c11Dv{H: h, HB: h, RA: 0, RB: 0, TA: 2, TB: 2, Val: val, ValB: val, BlkA: "b1", BlkB: "b2",
		SigA: true, SigB: true, Power: vs[val], Total: c11Total(vs), Time: c.timeAt(h), Mut: "genuine"}
	add := func(mut string, f func(d *c11Dv)) {
		d := g
		d.Mut = mut
		f(&d)
		c.Dv[pfx+mut] = &d
	}
	add("genuine", func(d *c11Dv) {})
	late := pfx + "genuine"
	if nv, in := c.valsAt(h + 1)[val]; !in {
		late = "nil"
	} else if nv != g.Power || c11Total(c.valsAt(h+1)) != g.Total {
		late = pfx + "valsnext"
	}
	c.Pairs["q"+pfx] = &c11Pair{H: h, T: 2, Val: val, BlkA: "b1", BlkB: "b2", Dv: pfx + "genuine", Late: late}
	// the same validator double-signing its PREVOTE in the same round over the same blocks
	vlate := pfx + "prevotes"
	if late == "nil" {
		vlate = "nil"
	} else if late != pfx+"genuine" {
		vlate = "?" + pfx + "prevotes-with-next-set"
	}
	c.Pairs["v"+pfx] = &c11Pair{H: h, T: 1, Val: val, BlkA: "b1", BlkB: "b2", Dv: pfx + "prevotes", Late: vlate}
	add("total", func(d *c11Dv) { d.Total++ })
	add("power", func(d *c11Dv) { d.Power++ })
	add("timeplus", func(d *c11Dv) { d.Time++ })
	if h > 1 {
		add("timeprev", func(d *c11Dv) { d.Time = c.timeAt(h - 1) })
		if pv, in := c.valsAt(h - 1)[val]; in && (pv != g.Power || c11Total(c.valsAt(h-1)) != g.Total) {
			add("valsprev", func(d *c11Dv) { d.Power, d.Total = c.valsAt(h - 1)[val], c11Total(c.valsAt(h-1)) })
		}
	}
	if nv, in := c.valsAt(h + 1)[val]; in && (nv != g.Power || c11Total(c.valsAt(h+1)) != g.Total) {
		add("valsnext", func(d *c11Dv) { d.Power, d.Total = c.valsAt(h + 1)[val], c11Total(c.valsAt(h+1)) })
	}
	add("sameblock", func(d *c11Dv) { d.BlkB = d.BlkA })
	add("swapped", func(d *c11Dv) { d.BlkA, d.BlkB = d.BlkB, d.BlkA })
	add("otherblocks", func(d *c11Dv) { d.BlkB = "b3" })
	add("heightB", func(d *c11Dv) { d.HB = h + 1 })
	add("roundB", func(d *c11Dv) { d.RB = 1 })
	add("typeB", func(d *c11Dv) { d.TB = 1 })
	add("prevotes", func(d *c11Dv) { d.TA, d.TB = 1, 1 })
	add("round1", func(d *c11Dv) { d.RA, d.RB = 1, 1 })
	add("sigA", func(d *c11Dv) { d.SigA = false })
	add("sigB", func(d *c11Dv) { d.SigB = false })
	for _, o := range c.Names {
		if o != val {
			if _, in := vs[o]; in {
				o := o
				add("valB", func(d *c11Dv) { d.ValB = o })
				break
			}
		}
	}
	for _, o := range c.Names {
		if _, in := vs[o]; !in {
			o := o
			add("notval", func(d *c11Dv) { d.Val, d.ValB = o, o })
			break
		}
	}
}

func c11ByzSorted(vals map[string]int64, names []string) []c11NP {
	out := []c11NP{}
	for _, n := range names {
		if p, ok := vals[n]; ok {
			out = append(out, c11NP{N: n, P: p})
		}
	}
	// ValidatorsByVotingPower: power descending, address (= name) ascending
	sort.SliceStable(out, func(i, j int) bool {
		if out[i].P != out[j].P {
			return out[i].P > out[j].P
		}
		return out[i].N < out[j].N
	})
	return out
}

func c11Intersect(a []string, m map[string]int64) []string {
	o := []string{}
	for _, n := range a {
		if _, ok := m[n]; ok {
			o = append(o, n)
		}
	}
	return o
}

// lunatic attack: common height h, conflicting block at ch > h signed by all of a
// conflicting validator set made of the common set's validators plus a phantom
func c11LunaticFamily(c *c11Ctx, pfx string, h, ch int64) {
	cv := c.valsAt(h)
	cvals := c11CopyVals(cv)
	cvals["n5"] = 1
	signers := c11SortedNames(cvals)
	g := c11Lca{H: h, CH: ch, CTime: c.timeAt(ch), CVals: cvals, Signers: signers, SigOK: true, Derive: "lunatic",
		Round: 0, Total: c11Total(cv), Time: c.timeAt(h), Byz: c11ByzSorted(cv, c11Intersect(signers, cv)), Mut: "genuine"}
	add := func(mut string, f func(l *c11Lca)) {
		l := g
		l.Mut = mut
		l.CVals = c11CopyVals(g.CVals)
		l.Signers = append([]string{}, g.Signers...)
		l.Byz = append([]c11NP{}, g.Byz...)
		f(&l)
		c.Lca[pfx+mut] = &l
	}
	add("genuine", func(l *c11Lca) {})
	add("total", func(l *c11Lca) { l.Total++ })
	add("timeplus", func(l *c11Lca) { l.Time++ })
	add("byzdrop", func(l *c11Lca) { l.Byz = l.Byz[:len(l.Byz)-1] })
	add("byzpower", func(l *c11Lca) { l.Byz[0].P++ })
	add("byzextra", func(l *c11Lca) { l.Byz = append(l.Byz, c11NP{N: "n5", P: 1}) })
	if len(g.Byz) >= 2 {
		add("byzorder", func(l *c11Lca) { l.Byz[0], l.Byz[1] = l.Byz[1], l.Byz[0] })
	}
	add("badsig", func(l *c11Lca) { l.SigOK = false })
	add("samehash", func(l *c11Lca) {
		l.Derive = "same"
		l.CVals = c11CopyVals(c.valsAt(ch))
		l.Signers = c11SortedNames(l.CVals)
	})
	// a valid variant with the same key: one common validator fewer in the commit
	ns := c11SortedNames(cv)
	if len(ns) >= 2 {
		drop := ns[len(ns)-1]
		add("fewer", func(l *c11Lca) {
			s := []string{}
			for _, n := range l.Signers {
				if n != drop {
					s = append(s, n)
				}
			}
			l.Signers = s
			l.Byz = c11ByzSorted(cv, c11Intersect(s, cv))
		})
	}
	// commit signed by the phantom only: no common validator behind it
	add("nocommon", func(l *c11Lca) {
		l.CVals = map[string]int64{"n5": 1}
		l.Signers = []string{"n5"}
		l.Byz = []c11NP{}
	})
	// backed by the weakest common validator only
	low := ""
	for _, n := range c11SortedNames(cv) {
		if low == "" || cv[n] < cv[low] {
			low = n
		}
	}
	add("weakcommon", func(l *c11Lca) {
		l.CVals = map[string]int64{low: cv[low], "n5": 2*c11Total(cv) + 5}
		l.Signers = c11SortedNames(l.CVals)
		l.Byz = []c11NP{{N: low, P: cv[low]}}
	})
	// conflicting set not 2/3 signed
	add("selfweak", func(l *c11Lca) {
		l.CVals["n5"] = 2*c11Total(cv) + 5
		l.Signers = c11Intersect(l.Signers, cv)
	})
	if h > 1 {
		add("commonprev", func(l *c11Lca) { l.H = h - 1 })
	}
}

// equivocation: conflicting block at the common height, correctly derived, same round
func c11EquivFamily(c *c11Ctx, pfx string, h int64) {
	cv := c.valsAt(h)
	signers := c11SortedNames(cv)
	chainSigned := c.Signed[h-1]
	in := map[string]bool{}
	for _, n := range chainSigned {
		in[n] = true
	}
	both := []string{}
	for _, n := range signers {
		if in[n] {
			both = append(both, n)
		}
	}
	g := c11Lca{H: h, CH: h, CTime: c.timeAt(h), CVals: c11CopyVals(cv), Signers: signers, SigOK: true, Derive: "chain",
		Round: 0, Total: c11Total(cv), Time: c.timeAt(h), Byz: c11ByzSorted(cv, both), Mut: "genuine"}
	add := func(mut string, f func(l *c11Lca)) {
		l := g
		l.Mut = mut
		l.CVals = c11CopyVals(g.CVals)
		l.Signers = append([]string{}, g.Signers...)
		l.Byz = append([]c11NP{}, g.Byz...)
		f(&l)
		c.Lca[pfx+mut] = &l
	}
	add("genuine", func(l *c11Lca) {})
	add("total", func(l *c11Lca) { l.Total++ })
	add("timeplus", func(l *c11Lca) { l.Time++ })
	add("byzdrop", func(l *c11Lca) { l.Byz = l.Byz[:len(l.Byz)-1] })
	add("byzpower", func(l *c11Lca) { l.Byz[0].P++ })
	add("badsig", func(l *c11Lca) { l.SigOK = false })
	add("samehash", func(l *c11Lca) { l.Derive = "same" })
	add("amnesia", func(l *c11Lca) { l.Round = 1; l.Byz = []c11NP{} })
	add("amnesiabyz", func(l *c11Lca) { l.Round = 1 })
	add("lunatichdr", func(l *c11Lca) { l.Derive = "lunatic" })
	add("ctime", func(l *c11Lca) { l.CTime++ })
}

func c11GenUniverse(c *c11Ctx, rng *rand.Rand) {
	N := int64(c.N)
	// duplicate votes: one old, one around the initial height, one later
	// duplicate votes: one at or below the initial height, two in the next few heights
	hs := []int64{1 + rng.Int63n(c.H0), c.H0 + rng.Int63n(2), c.H0 + 1 + rng.Int63n(3), c.H0 + 3 + rng.Int63n(N-c.H0-3)}
	seen := map[string]bool{}
	fam := 0
	for _, h := range hs {
		if h > N {
			h = N
		}
		ns := c11SortedNames(c.valsAt(h))
		val := ns[rng.Intn(len(ns))]
		k := fmt.Sprintf("%d/%s", h, val)
		if seen[k] {
			continue
		}
		seen[k] = true
		fam++
		c11DvFamily(c, fmt.Sprintf("d%d", fam), h, val, rng)
	}
	h1 := c.H0 - 1 + rng.Int63n(3)
	c11LunaticFamily(c, "l1", h1, h1+1+rng.Int63n(2))
	c11EquivFamily(c, "e1", c.H0-1+rng.Int63n(4))
}

func c11Ids(c *c11Ctx) (all, genuine []string) {
	for id, d := range c.Dv {
		all = append(all, id)
		if d.Mut == "genuine" {
			genuine = append(genuine, id)
		}
	}
	for id, l := range c.Lca {
		all = append(all, id)
		if l.Mut == "genuine" || l.Mut == "fewer" || l.Mut == "amnesia" {
			genuine = append(genuine, id)
		}
	}
	sort.Strings(all)
	sort.Strings(genuine)
	return
}

func c11TicketNames(w *c11World) []string { return c11TicketNamesOf(w, false) }

// adaptive random driver
func c11RunRandom(t *testing.T, out *c11Writer, run int, rng *rand.Rand, conc bool) {
	c := c11GenChain(rng)
	c11GenUniverse(c, rng)
	w := newC11World(t, c)
	src := "random"
	if conc {
		src = "conc"
	}
	out.emit(map[string]interface{}{"ev": "Reset", "run": run, "src": src, "c": w.ctx, "post": w.project()})
	all, genuine := c11Ids(c)
	pairs := []string{}
	for p := range c.Pairs {
		pairs = append(pairs, p)
	}
	sort.Strings(pairs)
	pick := func() string {
		if rng.Intn(100) < 55 {
			return genuine[rng.Intn(len(genuine))]
		}
		return all[rng.Intn(len(all))]
	}
	pickList := func(n int) []string {
		l := []string{}
		for i := 0; i < n; i++ {
			if i > 0 && rng.Intn(5) == 0 {
				l = append(l, l[rng.Intn(len(l))])
			} else {
				l = append(l, pick())
			}
		}
		return l
	}
	bounds := func() int64 {
		pend := w.project()["pending"].([]map[string]string)
		var sum int64
		k := 0
		if len(pend) > 0 {
			k = rng.Intn(len(pend) + 1)
		}
		for i := 0; i < k; i++ {
			id := pend[i]["id"]
			if d, ok := c.Dv[id]; ok {
				sum += d.Wsize
			} else if l, ok := c.Lca[id]; ok {
				sum += l.Wsize
			}
		}
		switch rng.Intn(5) {
		case 0:
			return -1
		case 1:
			return sum - 1
		case 2:
			return sum + 1
		}
		return sum
	}
	tk := 0
	steps := 14 + rng.Intn(14)
	for s := 0; s < steps; s++ {
		height := w.pool.State().LastBlockHeight
		r := rng.Intn(100)
		switch {
		case r < 34:
			w.exec(out, run, c11Op{Op: "Add", ID: pick()})
		case r < 44:
			w.exec(out, run, c11Op{Op: "Check", IDs: pickList(1 + rng.Intn(3))})
		case r < 52:
			w.exec(out, run, c11Op{Op: "Report", Pair: pairs[rng.Intn(len(pairs))], Swap: rng.Intn(2) == 0})
		case r < 60:
			b := bounds()
			if b < -1 {
				b = 0
			}
			w.exec(out, run, c11Op{Op: "Pending", Real: true, Bytes: b})
		case r < 66:
			if len(w.tickets) == 0 {
				w.exec(out, run, c11Op{Op: "Restart"})
			}
		case r < 76 && conc:
			if len(w.tickets) < 2 {
				tk++
				id := pick()
				if names := c11TicketNames(w); len(names) == 1 && rng.Intn(2) == 0 {
					id = w.tickets[names[0]].id
				}
				w.exec(out, run, c11Op{Op: "AddBegin", ID: id, Tk: fmt.Sprintf("t%d", tk)})
			}
		case r < 84 && conc:
			if names := c11TicketNames(w); len(names) > 0 {
				w.exec(out, run, c11Op{Op: "AddEnd", Tk: names[rng.Intn(len(names))]})
			}
		default:
			if height+1 > int64(c.N) {
				continue
			}
			// a block: what the proposer would take, or something a peer proposed, or nothing
			var ids []string
			switch rng.Intn(10) {
			case 0, 1, 2, 3, 4:
				b := bounds()
				if b < -1 {
					b = -1
				}
				_, e := w.exec2(out, run, c11Op{Op: "Pending", Real: true, Bytes: b})
				if e != nil {
					ids = e["got"].([]string)
				}
			case 5, 6, 7:
				ids = pickList(1 + rng.Intn(2))
			}
			if len(ids) > 0 {
				ok, e := w.exec2(out, run, c11Op{Op: "Check", IDs: ids})
				if !ok || e["res"] != "ok" {
					ids = nil
				}
			}
			if len(ids) > 0 && rng.Intn(3) == 0 {
				// the consensus goroutine stopped inside markEvidenceAsCommitted while peers gossip
				// (possibly the very evidence being committed) and the proposer asks for evidence
				w.exec(out, run, c11Op{Op: "UpdateBegin", IDs: ids, K: int64(1 + rng.Intn(len(ids)))})
				for n := 1 + rng.Intn(3); n > 0; n-- {
					switch rng.Intn(4) {
					case 0:
						w.exec(out, run, c11Op{Op: "Pending", Real: true, Bytes: -1})
					case 1:
						w.exec(out, run, c11Op{Op: "Add", ID: pick()})
					default:
						w.exec(out, run, c11Op{Op: "Add", ID: ids[rng.Intn(len(ids))]})
					}
				}
				w.exec(out, run, c11Op{Op: "UpdateEnd"})
				continue
			}
			crash := rng.Intn(7) == 0 && len(w.tickets) == 0
			w.exec(out, run, c11Op{Op: "Update", IDs: ids, Crash: crash})
			if crash {
				w.exec(out, run, c11Op{Op: "Restart"})
				w.exec(out, run, c11Op{Op: "Update", IDs: ids})
			}
		}
	}
	w.finish(out, run)
}
