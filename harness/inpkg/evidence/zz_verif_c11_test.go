//go:build verif

package evidence

// C11 harness (see /verif/DESIGN.md section 5, C11).  Builds a small real chain (real keys,
// real validator sets in a real sm.Store, real headers and commits behind a block-store stub
// that has the availability rules of store.BlockStore), a universe of real
// DuplicateVoteEvidence / LightClientAttackEvidence objects from ABSTRACT descriptions
// (spec/TMEvidence.tla: context record), drives a real evidence.Pool over a memdb through
// its production entry points, projects the pool to the abstract state of TMEvidencePool
// after every call and writes NDJSON traces.  TLC (spec/trace/TMEvidenceTrace.tla) judges
// the traces.  The harness gives no verdicts.

import (
	"bytes"
	"crypto/sha256"
	"encoding/hex"
	"encoding/json"
	"fmt"
	"math/rand"
	"os"
	"runtime"
	"sort"
	"strconv"
	"strings"
	"sync"
	"sync/atomic"
	"testing"
	"time"

	dbm "github.com/tendermint/tm-db"

	"github.com/tendermint/tendermint/crypto/ed25519"
	"github.com/tendermint/tendermint/crypto/tmhash"
	tmproto "github.com/tendermint/tendermint/proto/tendermint/types"
	tmversion "github.com/tendermint/tendermint/proto/tendermint/version"
	sm "github.com/tendermint/tendermint/state"
	"github.com/tendermint/tendermint/types"
	"github.com/tendermint/tendermint/version"
)

const c11ChainID = "c11-chain"

var c11Base = time.Date(2024, 1, 1, 0, 0, 0, 0, time.UTC)

func c11T(sec int64) time.Time { return c11Base.Add(time.Duration(sec) * time.Second) }

// ---------------------------------------------------------------- abstract context

type c11Dv struct {
	H     int64  `json:"h"`
	HB    int64  `json:"hB"`
	RA    int32  `json:"rA"`
	RB    int32  `json:"rB"`
	TA    int32  `json:"tA"`
	TB    int32  `json:"tB"`
	Val   string `json:"val"`
	ValB  string `json:"valB"`
	BlkA  string `json:"blkA"`
	BlkB  string `json:"blkB"`
	SigA  bool   `json:"sigA"`
	SigB  bool   `json:"sigB"`
	Power int64  `json:"power"`
	Total int64  `json:"total"`
	Time  int64  `json:"time"`
	Mut   string `json:"mut"`
	// filled in by the harness from the REAL objects
	Key   string `json:"key"`
	Rank  int    `json:"rank"`
	Wsize int64  `json:"wsize"`
	Basic bool   `json:"basic"`
}

type c11NP struct {
	N string `json:"n"`
	P int64  `json:"p"`
}

type c11Lca struct {
	H       int64            `json:"h"`  // common height
	CH      int64            `json:"ch"` // height of the conflicting block
	CTime   int64            `json:"ctime"`
	CVals   map[string]int64 `json:"cvals"`
	Signers []string         `json:"signers"`
	SigOK   bool             `json:"sigok"`
	Derive  string           `json:"derive"` // same | chain | lunatic
	Round   int32            `json:"round"`
	Total   int64            `json:"total"`
	Time    int64            `json:"time"`
	Byz     []c11NP          `json:"byz"`
	Mut     string           `json:"mut"`
	Key     string           `json:"key"`
	Rank    int              `json:"rank"`
	Wsize   int64            `json:"wsize"`
	Basic   bool             `json:"basic"`
}

type c11Params struct {
	A int64 `json:"A"` // MaxAgeNumBlocks
	D int64 `json:"D"` // MaxAgeDuration (seconds)
}

type c11Pair struct {
	H    int64  `json:"h"`
	T    int32  `json:"t"` // vote type: 1 prevote, 2 precommit
	R    int32  `json:"r"` // round
	Val  string `json:"val"`
	BlkA string `json:"blkA"`
	BlkB string `json:"blkB"`
	Dv   string `json:"dv"` // the item NewDuplicateVoteEvidence must produce from the chain facts
	// what a pool that took the validator set of h+1 would produce instead: an item id, the
	// same as dv when the sets agree on the signer, "nil" when the signer left the set
	Late string `json:"late"`
}

type c11Ctx struct {
	N      int                `json:"N"`
	H0     int64              `json:"H0"`
	Names  []string           `json:"names"` // all key names, in ADDRESS order
	Vals   []map[string]int64 `json:"vals"`  // vals[h-1] = validator set of height h
	Time   []int64            `json:"time"`  // time[h-1] = block time of height h (seconds)
	Signed [][]string         `json:"signed"`
	// params[h-1] = evidence age limits of the sm.State with LastBlockHeight h
	Params []c11Params         `json:"params"`
	Dv     map[string]*c11Dv   `json:"dv"`
	Lca    map[string]*c11Lca  `json:"lca"`
	Pairs  map[string]*c11Pair `json:"pairs"`
}

type c11Op struct {
	Op    string   `json:"op"`
	ID    string   `json:"id,omitempty"`
	IDs   []string `json:"ids,omitempty"`
	Pair  string   `json:"pair,omitempty"`
	To    int64    `json:"to,omitempty"`
	Crash bool     `json:"crash,omitempty"`
	MB    int64    `json:"mb,omitempty"`    // Pending: abstract bound (#items), -1 = no cap
	Bytes int64    `json:"bytes,omitempty"` // Pending: real byte bound (used when Real is set)
	Real  bool     `json:"real,omitempty"`
	Tk    string   `json:"tk,omitempty"`   // concurrent add ticket
	Swap  bool     `json:"swap,omitempty"` // Report: the two votes in the other order
	K     int64    `json:"k,omitempty"`    // UpdateBegin: stop before the k-th committed-marker write
}

type c11Run struct {
	Src string  `json:"src"`
	Ctx string  `json:"ctx"` // name of a context in c11Input.Ctxs
	Ops []c11Op `json:"ops"`
}

type c11Input struct {
	Ctxs   map[string]json.RawMessage `json:"ctxs"`
	Runs   []c11Run                   `json:"runs"`
	Random int                        `json:"random"`
	Apply  int                        `json:"apply"` // 1: run the ApplyBlock crash-point family
	Conc   int                        `json:"conc"`
}

// ---------------------------------------------------------------- block store stub

// availability rules of store.BlockStore: meta for 1..tip, LoadBlockCommit(h) only for
// h < tip (the canonical commit of h is stored with block h+1)
type c11BlockStore struct {
	mtx     sync.Mutex
	tip     int64
	metas   map[int64]*types.BlockMeta
	commits map[int64]*types.Commit
	parked  map[int64]*c11Gate
}

func (b *c11BlockStore) LoadBlockMeta(h int64) *types.BlockMeta {
	b.gate()
	b.mtx.Lock()
	defer b.mtx.Unlock()
	if h < 1 || h > b.tip {
		return nil
	}
	return b.metas[h]
}

func (b *c11BlockStore) LoadBlockCommit(h int64) *types.Commit {
	b.mtx.Lock()
	defer b.mtx.Unlock()
	if h < 1 || h >= b.tip {
		return nil
	}
	return b.commits[h]
}

func (b *c11BlockStore) Height() int64 {
	b.mtx.Lock()
	defer b.mtx.Unlock()
	return b.tip
}

func (b *c11BlockStore) setTip(h int64) {
	b.mtx.Lock()
	b.tip = h
	b.mtx.Unlock()
}

// ---------------------------------------------------------------- interleaving gate

// A goroutine registered with the block store is stopped at its first LoadBlockMeta call,
// i.e. inside AddEvidence after the isPending / isCommitted look-ups and before verify and
// the store step, holding no lock of the pool.  The driver decides when it continues.
type c11Gate struct {
	reached chan struct{}
	release chan struct{}
	armed   bool
}

func c11Gid() int64 {
	var buf [64]byte
	n := runtime.Stack(buf[:], false)
	f := strings.Fields(string(buf[:n]))
	if len(f) < 2 {
		return -1
	}
	id, _ := strconv.ParseInt(f[1], 10, 64)
	return id
}

func (b *c11BlockStore) gate() {
	b.mtx.Lock()
	if len(b.parked) == 0 {
		b.mtx.Unlock()
		return
	}
	g := b.parked[c11Gid()]
	b.mtx.Unlock()
	if g == nil || !g.armed {
		return
	}
	g.armed = false
	close(g.reached)
	<-g.release
}

// ---------------------------------------------------------------- evidence DB wrapper

// c11EvDB wraps the evidence DB (it is the dbm.DB handed to NewPool, not a product hook).  When
// armed it stops the registered goroutine -- the one running Pool.Update -- right before its
// k-th write that carries a committed-marker key: a direct Set/SetSync of such a key or the
// Write/WriteSync of a batch holding one.  The driver then runs calls of "other goroutines"
// and releases the writer.
type c11EvDB struct {
	dbm.DB
	mtx     sync.Mutex
	gid     int64
	k, n    int
	reached chan struct{}
	release chan struct{}
}

func c11IsMarker(key []byte) bool { return len(key) > 0 && key[0] == baseKeyCommitted }

func (d *c11EvDB) arm(k int, reached, release chan struct{}) {
	d.mtx.Lock()
	d.gid, d.k, d.n, d.reached, d.release = -1, k, 0, reached, release
	d.mtx.Unlock()
}

func (d *c11EvDB) setGid(g int64) {
	d.mtx.Lock()
	d.gid = g
	d.mtx.Unlock()
}

func (d *c11EvDB) disarm() {
	d.mtx.Lock()
	d.release, d.reached = nil, nil
	d.mtx.Unlock()
}

func (d *c11EvDB) markerWrite() {
	d.mtx.Lock()
	if d.release == nil || d.gid != c11Gid() {
		d.mtx.Unlock()
		return
	}
	d.n++
	if d.n != d.k {
		d.mtx.Unlock()
		return
	}
	reached, release := d.reached, d.release
	d.mtx.Unlock()
	close(reached)
	<-release
}

func (d *c11EvDB) Set(k, v []byte) error {
	if c11IsMarker(k) {
		d.markerWrite()
	}
	return d.DB.Set(k, v)
}

func (d *c11EvDB) SetSync(k, v []byte) error {
	if c11IsMarker(k) {
		d.markerWrite()
	}
	return d.DB.SetSync(k, v)
}

func (d *c11EvDB) NewBatch() dbm.Batch { return &c11Batch{Batch: d.DB.NewBatch(), d: d} }

type c11Batch struct {
	dbm.Batch
	d      *c11EvDB
	marker bool
}

func (b *c11Batch) Set(k, v []byte) error {
	if c11IsMarker(k) {
		b.marker = true
	}
	return b.Batch.Set(k, v)
}

func (b *c11Batch) Write() error {
	if b.marker {
		b.d.markerWrite()
	}
	return b.Batch.Write()
}

func (b *c11Batch) WriteSync() error {
	if b.marker {
		b.d.markerWrite()
	}
	return b.Batch.WriteSync()
}

// wait status of a goroutine as the runtime reports it ("running", "runnable",
// "sync.Mutex.Lock", "chan receive", ...); "" when it is gone
func c11GoStatus(gid int64) string {
	buf := make([]byte, 1<<20)
	n := runtime.Stack(buf, true)
	tag := "goroutine " + strconv.FormatInt(gid, 10) + " ["
	txt := string(buf[:n])
	i := strings.Index(txt, tag)
	if i < 0 {
		return ""
	}
	rest := txt[i+len(tag):]
	if j := strings.IndexAny(rest, ",]"); j >= 0 {
		return rest[:j]
	}
	return ""
}

// c11Await waits until the call running in goroutine gid has COMPLETED or is BLOCKED on a
// lock (which only the stopped committing goroutine can hold).  Which of the two happened
// is the observation; no time-out decides it (the bound below only guards against a hang).
func c11Await(gid int64, done chan error) (err error, completed bool) {
	deadline := time.Now().Add(60 * time.Second)
	for {
		select {
		case err = <-done:
			return err, true
		default:
		}
		st := c11GoStatus(gid)
		if strings.HasPrefix(st, "sync.") || strings.HasPrefix(st, "semacquire") {
			select {
			case err = <-done:
				return err, true
			default:
			}
			return nil, false
		}
		if time.Now().After(deadline) {
			panic("c11: call neither completed nor blocked on a lock (status " + st + ")")
		}
		time.Sleep(50 * time.Microsecond)
	}
}

// ---------------------------------------------------------------- world

type c11World struct {
	t       *testing.T
	ctx     *c11Ctx
	pvs     map[string]types.MockPV
	addr    map[string][]byte
	vals    []*types.ValidatorSet // index h, 1..N+2
	headers []*types.Header       // index h, 1..N
	commits []*types.Commit
	bs      *c11BlockStore
	sdb     dbm.DB
	sstore  sm.Store
	edb     *c11EvDB
	upd     *c11Upd // an Update stopped before one of its committed-marker writes
	mseq    int
	pool    *Pool
	items   map[string]types.Evidence
	byBytes map[string]string // sha(evidence proto bytes) -> id
	keyName map[string]string // real key suffix -> abstract key
	pairs   map[string][2]*types.Vote
	pairKey map[string]string // (type, height, round, validator, {blocks}) -> pair id
	saved   int64
	startH  int64 // height of the state the running pool was created from
	tickets map[string]*c11Ticket
	maxW    int64
}

type c11Upd struct {
	to      int64
	ids     []string
	release chan struct{}
	done    chan string
}

type c11Ticket struct {
	id    string
	mutex bool // waiting for the pool's mutex (not parked at the harness's gate)
	h     int64
	gate  *c11Gate
	done  chan error
}

func c11Hash(parts ...string) []byte {
	h := sha256.Sum256([]byte(strings.Join(parts, "|")))
	return h[:]
}

func c11BlockID(name string) types.BlockID {
	// name order == BlockID.Key() order (b1 < b2 < ...)
	h := c11Hash("blk", name)
	n, _ := strconv.Atoi(strings.TrimLeft(name, "b"))
	h[0] = byte(n)
	return types.BlockID{Hash: h, PartSetHeader: types.PartSetHeader{Total: 1, Hash: c11Hash("psh", name)}}
}

func (w *c11World) valsAt(h int64) map[string]int64 {
	if h < 1 {
		h = 1
	}
	if int(h) > len(w.ctx.Vals) {
		h = int64(len(w.ctx.Vals))
	}
	return w.ctx.Vals[h-1]
}

func (w *c11World) mkValSet(m map[string]int64) *types.ValidatorSet {
	vs := []*types.Validator{}
	names := make([]string, 0, len(m))
	for n := range m {
		names = append(names, n)
	}
	sort.Strings(names)
	for _, n := range names {
		pv, ok := w.pvs[n]
		if !ok {
			w.t.Fatalf("unknown validator name %q", n)
		}
		vs = append(vs, types.NewValidator(pv.PrivKey.PubKey(), m[n]))
	}
	return types.NewValidatorSet(vs)
}

func c11SameVals(a, b map[string]int64) bool {
	if len(a) != len(b) {
		return false
	}
	for k, v := range a {
		if b[k] != v {
			return false
		}
	}
	return true
}

func (w *c11World) timeAt(h int64) int64 {
	if h < 1 {
		return 0
	}
	if int(h) > len(w.ctx.Time) {
		return w.ctx.Time[len(w.ctx.Time)-1] + (h - int64(len(w.ctx.Time)))
	}
	return w.ctx.Time[h-1]
}

func (c *c11Ctx) paramsAt(h int64) c11Params {
	if h < 1 {
		h = 1
	}
	if int(h) > len(c.Params) {
		h = int64(len(c.Params))
	}
	return c.Params[h-1]
}

// consensus params of the state with LastBlockHeight h (the application changes the evidence
// age limits through EndBlock)
func (w *c11World) params(h int64) tmproto.ConsensusParams {
	p := *types.DefaultConsensusParams()
	p.Evidence.MaxAgeNumBlocks = w.ctx.paramsAt(h).A
	p.Evidence.MaxAgeDuration = time.Duration(w.ctx.paramsAt(h).D) * time.Second
	p.Evidence.MaxBytes = 1 << 20
	return p
}

func (w *c11World) stateAt(h int64) sm.State {
	st := sm.State{
		Version:         sm.InitStateVersion,
		ChainID:         c11ChainID,
		InitialHeight:   1,
		LastBlockHeight: h,
		LastBlockTime:   c11T(w.timeAt(h)),
		Validators:      w.vals[h+1].Copy(),
		NextValidators:  w.vals[h+2].Copy(),
		ConsensusParams: w.params(h),
		AppHash:         c11Hash("app", strconv.FormatInt(h, 10)),
		LastResultsHash: c11Hash("res", strconv.FormatInt(h, 10)),
	}
	if h >= 1 {
		st.LastValidators = w.vals[h].Copy()
		st.LastBlockID = types.BlockID{Hash: w.headers[h].Hash(), PartSetHeader: types.PartSetHeader{Total: 1, Hash: c11Hash("psh-chain", strconv.FormatInt(h, 10))}}
	} else {
		st.LastValidators = types.NewValidatorSet(nil)
		st.LastBlockTime = c11Base
	}
	c := h + 2
	for c > 1 && c11SameVals(w.valsAt(c-1), w.valsAt(c)) {
		c--
	}
	st.LastHeightValidatorsChanged = c
	// the params of state h validate block h+1; they changed at the first height of the run of
	// equal values that ends there
	k := h
	for k > 1 && w.ctx.paramsAt(k-1) == w.ctx.paramsAt(k) {
		k--
	}
	st.LastHeightConsensusParamsChanged = k + 1
	if k <= 1 {
		st.LastHeightConsensusParamsChanged = 1
	}
	return st
}

func (w *c11World) signCommit(h int64, round int32, bid types.BlockID, vs *types.ValidatorSet, signers map[string]bool, badFirst bool) *types.Commit {
	sigs := make([]types.CommitSig, len(vs.Validators))
	first := true
	for i, v := range vs.Validators {
		name := w.nameOf(v.Address)
		if !signers[name] {
			sigs[i] = types.NewCommitSigAbsent()
			continue
		}
		ts := c11T(w.timeAt(h) + 1)
		vote := &types.Vote{Type: tmproto.PrecommitType, Height: h, Round: round, BlockID: bid, Timestamp: ts,
			ValidatorAddress: v.Address, ValidatorIndex: int32(i)}
		vp := vote.ToProto()
		if err := w.pvs[name].SignVote(c11ChainID, vp); err != nil {
			w.t.Fatal(err)
		}
		sig := vp.Signature
		if badFirst && first {
			sig = append([]byte{}, sig...)
			sig[7] ^= 0x40
		}
		first = false
		sigs[i] = types.CommitSig{BlockIDFlag: types.BlockIDFlagCommit, ValidatorAddress: v.Address, Timestamp: ts, Signature: sig}
	}
	return types.NewCommit(h, round, bid, sigs)
}

func (w *c11World) nameOf(addr []byte) string {
	for n, a := range w.addr {
		if bytes.Equal(a, addr) {
			return n
		}
	}
	return "?"
}

func newC11World(t *testing.T, ctx *c11Ctx) *c11World {
	w := newC11Base(t, ctx)
	w.fill()
	return w
}

// keys (named in address order) and validator sets
func newC11Base(t *testing.T, ctx *c11Ctx) *c11World {
	w := &c11World{t: t, ctx: ctx, pvs: map[string]types.MockPV{}, addr: map[string][]byte{},
		items: map[string]types.Evidence{}, byBytes: map[string]string{}, keyName: map[string]string{},
		pairs: map[string][2]*types.Vote{}, pairKey: map[string]string{}, tickets: map[string]*c11Ticket{}}
	// keys named in address order
	type kv struct {
		pv   types.MockPV
		addr []byte
	}
	ks := []kv{}
	for i := range ctx.Names {
		pk := ed25519.GenPrivKeyFromSecret([]byte("c11-key-" + strconv.Itoa(i)))
		pv := types.NewMockPVWithParams(pk, false, false)
		ks = append(ks, kv{pv, pk.PubKey().Address()})
	}
	sort.Slice(ks, func(i, j int) bool { return bytes.Compare(ks[i].addr, ks[j].addr) < 0 })
	for i, n := range ctx.Names {
		w.pvs[n] = ks[i].pv
		w.addr[n] = ks[i].addr
	}
	N := int64(ctx.N)
	w.vals = make([]*types.ValidatorSet, N+4)
	for h := int64(1); h <= N+3; h++ {
		w.vals[h] = w.mkValSet(w.valsAt(h))
	}
	w.vals[0] = types.NewValidatorSet(nil)
	return w
}

// the synthetic chain behind the stub block store, the state store and the pool
func (w *c11World) fill() {
	t, ctx := w.t, w.ctx
	N := int64(ctx.N)
	w.headers = make([]*types.Header, N+1)
	w.commits = make([]*types.Commit, N+1)
	w.bs = &c11BlockStore{metas: map[int64]*types.BlockMeta{}, commits: map[int64]*types.Commit{}, parked: map[int64]*c11Gate{}}
	last := types.BlockID{}
	for h := int64(1); h <= N; h++ {
		hs := strconv.FormatInt(h, 10)
		hdr := &types.Header{
			Version:            tmversion.Consensus{Block: version.BlockProtocol, App: 1},
			ChainID:            c11ChainID,
			Height:             h,
			Time:               c11T(w.timeAt(h)),
			LastBlockID:        last,
			LastCommitHash:     c11Hash("lc", hs),
			DataHash:           c11Hash("data", hs),
			ValidatorsHash:     w.vals[h].Hash(),
			NextValidatorsHash: w.vals[h+1].Hash(),
			ConsensusHash:      c11Hash("cons"),
			AppHash:            c11Hash("app", hs),
			LastResultsHash:    c11Hash("res", hs),
			EvidenceHash:       c11Hash("evh", hs),
			ProposerAddress:    w.vals[h].Validators[0].Address,
		}
		w.headers[h] = hdr
		bid := types.BlockID{Hash: hdr.Hash(), PartSetHeader: types.PartSetHeader{Total: 1, Hash: c11Hash("psh-chain", hs)}}
		signers := map[string]bool{}
		if int(h) <= len(ctx.Signed) && len(ctx.Signed[h-1]) > 0 {
			for _, n := range ctx.Signed[h-1] {
				signers[n] = true
			}
		} else {
			for n := range w.valsAt(h) {
				signers[n] = true
			}
		}
		w.commits[h] = w.signCommit(h, 0, bid, w.vals[h], signers, false)
		w.bs.metas[h] = &types.BlockMeta{BlockID: bid, Header: *hdr}
		w.bs.commits[h] = w.commits[h]
		last = bid
	}
	w.sdb = dbm.NewMemDB()
	w.sstore = sm.NewStore(w.sdb, sm.StoreOptions{DiscardABCIResponses: false})
	for h := int64(0); h <= ctx.H0; h++ {
		if err := w.sstore.Save(w.stateAt(h)); err != nil {
			t.Fatal(err)
		}
	}
	w.saved = ctx.H0
	w.startH = ctx.H0
	w.bs.setTip(ctx.H0)
	w.edb = &c11EvDB{DB: dbm.NewMemDB()}
	w.buildItems()
	p, err := NewPool(w.edb, w.sstore, w.bs)
	if err != nil {
		t.Fatal(err)
	}
	w.pool = p
}

// ---------------------------------------------------------------- evidence universe

func (w *c11World) mkVote(h int64, r int32, typ int32, val string, blk string, sigOK bool) *types.Vote {
	addr := w.addr[val]
	idx, _ := w.vals[c11clampH(h, int64(w.ctx.N)+3)].GetByAddress(addr)
	if idx < 0 {
		idx = 0
	}
	v := &types.Vote{Type: tmproto.SignedMsgType(typ), Height: h, Round: r, BlockID: c11BlockID(blk),
		Timestamp: c11T(w.timeAt(h) + 2), ValidatorAddress: addr, ValidatorIndex: idx}
	vp := v.ToProto()
	if err := w.pvs[val].SignVote(c11ChainID, vp); err != nil {
		w.t.Fatal(err)
	}
	v.Signature = vp.Signature
	if !sigOK {
		s := append([]byte{}, v.Signature...)
		s[3] ^= 0x10
		v.Signature = s
	}
	return v
}

func c11clampH(h, max int64) int64 {
	if h < 1 {
		return 1
	}
	if h > max {
		return max
	}
	return h
}

func (w *c11World) mkDv(d *c11Dv) *types.DuplicateVoteEvidence {
	return &types.DuplicateVoteEvidence{
		VoteA:            w.mkVote(d.H, d.RA, d.TA, d.Val, d.BlkA, d.SigA),
		VoteB:            w.mkVote(d.HB, d.RB, d.TB, d.ValB, d.BlkB, d.SigB),
		TotalVotingPower: d.Total,
		ValidatorPower:   d.Power,
		Timestamp:        c11T(d.Time),
	}
}

func (w *c11World) mkLca(l *c11Lca) *types.LightClientAttackEvidence {
	cvals := w.mkValSet(l.CVals)
	var hdr types.Header
	N := int64(w.ctx.N)
	if l.CH >= 1 && l.CH <= N {
		hdr = *w.headers[l.CH]
	} else {
		hdr = *w.headers[N]
		hdr.Height = l.CH
		hdr.AppHash = c11Hash("app", strconv.FormatInt(l.CH, 10))
	}
	switch l.Derive {
	case "same":
	case "chain":
		hdr.DataHash = c11Hash("conflicting-data", strconv.FormatInt(l.CH, 10), strconv.Itoa(int(l.Round)))
	default: // lunatic
		hdr.AppHash = c11Hash("lunatic-app", strconv.FormatInt(l.CH, 10))
		hdr.DataHash = c11Hash("lunatic-data", strconv.FormatInt(l.CH, 10))
	}
	hdr.Time = c11T(l.CTime)
	hdr.ValidatorsHash = cvals.Hash()
	bid := types.BlockID{Hash: hdr.Hash(), PartSetHeader: types.PartSetHeader{Total: 1, Hash: c11Hash("psh-c", l.Derive)}}
	if l.Derive == "same" && l.CH >= 1 && l.CH <= N {
		bid = w.bs.metas[l.CH].BlockID
	}
	signers := map[string]bool{}
	for _, n := range l.Signers {
		signers[n] = true
	}
	commit := w.signCommit(l.CH, l.Round, bid, cvals, signers, !l.SigOK)
	byz := []*types.Validator{}
	for _, b := range l.Byz {
		byz = append(byz, types.NewValidator(w.pvs[b.N].PrivKey.PubKey(), b.P))
	}
	ev := &types.LightClientAttackEvidence{
		ConflictingBlock:    &types.LightBlock{SignedHeader: &types.SignedHeader{Header: &hdr, Commit: commit}, ValidatorSet: cvals},
		CommonHeight:        l.H,
		ByzantineValidators: byz,
		TotalVotingPower:    l.Total,
		Timestamp:           c11T(l.Time),
	}
	if len(byz) == 0 {
		ev.ByzantineValidators = nil
	}
	return ev
}

// the way evidence reaches the pool in production: decoded from protobuf, which runs
// ValidateBasic (reactor.go, rpc broadcast_evidence, block decoding)
func c11Roundtrip(ev types.Evidence) (types.Evidence, []byte, error) {
	pb, err := types.EvidenceToProto(ev)
	if err != nil {
		return nil, nil, err
	}
	bz, err := pb.Marshal()
	if err != nil {
		return nil, nil, err
	}
	var pb2 tmproto.Evidence
	if err := pb2.Unmarshal(bz); err != nil {
		return nil, bz, err
	}
	ev2, err := types.EvidenceFromProto(&pb2)
	return ev2, bz, err
}

func c11Wrapped(n int) int64 {
	l := 1
	for x := n; x >= 0x80; x >>= 7 {
		l++
	}
	return int64(1 + l + n)
}

func (w *c11World) buildItems() {
	type keyed struct {
		id  string
		key string
	}
	var all []keyed
	reg := func(id string, ev types.Evidence) (key string, wsize int64, basic bool) {
		ev2, bz, err := c11Roundtrip(ev)
		basic = err == nil
		if basic {
			ev = ev2
		}
		w.items[id] = ev
		sum := sha256.Sum256(bz)
		if _, dup := w.byBytes[hex.EncodeToString(sum[:])]; !dup {
			w.byBytes[hex.EncodeToString(sum[:])] = id
		}
		ks := string(keySuffix(ev))
		all = append(all, keyed{id, ks})
		return ks, c11Wrapped(len(bz)), basic
	}
	ids := make([]string, 0)
	for id := range w.ctx.Dv {
		ids = append(ids, id)
	}
	sort.Strings(ids)
	for _, id := range ids {
		d := w.ctx.Dv[id]
		ks, ws, basic := reg(id, w.mkDv(d))
		d.Key, d.Wsize, d.Basic = ks, ws, basic
	}
	ids = ids[:0]
	for id := range w.ctx.Lca {
		ids = append(ids, id)
	}
	sort.Strings(ids)
	for _, id := range ids {
		l := w.ctx.Lca[id]
		ks, ws, basic := reg(id, w.mkLca(l))
		l.Key, l.Wsize, l.Basic = ks, ws, basic
	}
	// abstract key = "k:" + the genuine item with that real key if there is one, else the
	// first id (sorted); rank = DB order of the real key
	sort.Slice(all, func(i, j int) bool { return all[i].id < all[j].id })
	for _, k := range all {
		if strings.HasSuffix(k.id, "genuine") {
			if _, ok := w.keyName[k.key]; !ok {
				w.keyName[k.key] = "k:" + k.id
			}
		}
	}
	for _, k := range all {
		if _, ok := w.keyName[k.key]; !ok {
			w.keyName[k.key] = "k:" + k.id
		}
	}
	real := make([]string, 0, len(w.keyName))
	for k := range w.keyName {
		real = append(real, k)
	}
	sort.Strings(real)
	rank := map[string]int{}
	for i, k := range real {
		rank[k] = i + 1
	}
	for _, d := range w.ctx.Dv {
		d.Rank = rank[d.Key]
		d.Key = w.keyName[d.Key]
		if d.Wsize > w.maxW {
			w.maxW = d.Wsize
		}
	}
	for _, l := range w.ctx.Lca {
		l.Rank = rank[l.Key]
		l.Key = w.keyName[l.Key]
		if l.Wsize > w.maxW {
			w.maxW = l.Wsize
		}
	}
	for id, p := range w.ctx.Pairs {
		// votes exactly as the genuine item's votes (deterministic signatures) so that the
		// evidence the pool forms from them is byte-identical to item p.Dv
		if p.T == 0 {
			p.T = 2
		}
		a := w.mkVote(p.H, p.R, p.T, p.Val, p.BlkA, true)
		b := w.mkVote(p.H, p.R, p.T, p.Val, p.BlkB, true)
		w.pairs[id] = [2]*types.Vote{b, a} // reported in the "wrong" order on purpose (Swap: the other one)
		w.pairKey[c11PairKey(a, b)] = id
	}
}

func c11PairKey(a, b *types.Vote) string {
	ka, kb := a.BlockID.Key(), b.BlockID.Key()
	if ka > kb {
		ka, kb = kb, ka
	}
	return fmt.Sprintf("%d/%d/%d/%X/%X/%X", a.Type, a.Height, a.Round, a.ValidatorAddress, ka, kb)
}

// ---------------------------------------------------------------- projection

func (w *c11World) idOfBytes(bz []byte) string {
	sum := sha256.Sum256(bz)
	if id, ok := w.byBytes[hex.EncodeToString(sum[:])]; ok {
		return id
	}
	// other encoding of a known item? decode and encode it the harness's way
	if ev, err := bytesToEv(bz); err == nil {
		if pb, err := types.EvidenceToProto(ev); err == nil {
			if bz2, err := pb.Marshal(); err == nil {
				sum2 := sha256.Sum256(bz2)
				if id, ok := w.byBytes[hex.EncodeToString(sum2[:])]; ok {
					return id
				}
			}
		}
	}
	return "?" + hex.EncodeToString(sum[:4])
}

func (w *c11World) idOfEv(ev types.Evidence) string {
	pb, err := types.EvidenceToProto(ev)
	if err != nil {
		return "?toproto"
	}
	bz, err := pb.Marshal()
	if err != nil {
		return "?marshal"
	}
	return w.idOfBytes(bz)
}

func (w *c11World) absKey(suffix []byte) string {
	if k, ok := w.keyName[string(suffix)]; ok {
		return k
	}
	return "k?" + hex.EncodeToString(tmhash.Sum(suffix)[:4])
}

func (w *c11World) project() map[string]interface{} {
	p := w.pool
	pend := []map[string]string{}
	it, err := dbm.IteratePrefix(w.edb, []byte{baseKeyPending})
	if err != nil {
		w.t.Fatal(err)
	}
	for ; it.Valid(); it.Next() {
		pend = append(pend, map[string]string{"k": w.absKey(it.Key()[1:]), "id": w.idOfBytes(it.Value())})
	}
	it.Close()
	comm := []string{}
	it, err = dbm.IteratePrefix(w.edb, []byte{baseKeyCommitted})
	if err != nil {
		w.t.Fatal(err)
	}
	for ; it.Valid(); it.Next() {
		comm = append(comm, w.absKey(it.Key()[1:]))
	}
	it.Close()
	sort.Strings(comm)
	list := []string{}
	for e := p.evidenceList.Front(); e != nil; e = e.Next() {
		list = append(list, w.idOfEv(e.Value.(types.Evidence)))
	}
	p.mtx.Lock()
	// the REAL buffer, entry by entry (type, height, round, validator, the two blocks)
	buf := []string{}
	for _, vs := range p.consensusBuffer {
		id := "?"
		if vs.VoteA != nil && vs.VoteB != nil {
			if pid, ok := w.pairKey[c11PairKey(vs.VoteA, vs.VoteB)]; ok {
				id = pid
			}
		}
		buf = append(buf, id)
	}
	h := p.state.LastBlockHeight
	lt := p.state.LastBlockTime
	pA := p.state.ConsensusParams.Evidence.MaxAgeNumBlocks
	pD := int64(p.state.ConsensusParams.Evidence.MaxAgeDuration / time.Second)
	p.mtx.Unlock()
	infl := []map[string]interface{}{}
	tks := make([]string, 0, len(w.tickets))
	for tk := range w.tickets {
		tks = append(tks, tk)
	}
	sort.Strings(tks)
	for _, tk := range tks {
		infl = append(infl, map[string]interface{}{"tk": tk, "id": w.tickets[tk].id, "h": w.tickets[tk].h})
	}
	return map[string]interface{}{
		"inflight": infl,
		"pending":  pend, "committed": comm, "list": list, "size": int64(p.Size()),
		"buffer": buf, "height": h, "ltime": int64(lt.Sub(c11Base) / time.Second),
		"pruneH": p.pruningHeight, "pruneT": int64(p.pruningTime.Sub(c11Base) / time.Second),
		"tip": w.bs.Height(), "saved": w.saved, "startH": w.startH,
		"A": pA, "D": pD,
	}
}

// ---------------------------------------------------------------- driver

type c11Writer struct {
	f   *os.File
	enc *json.Encoder
	n   int
}

func (w *c11Writer) emit(v interface{}) {
	if err := w.enc.Encode(v); err != nil {
		panic(err)
	}
	w.n++
}

func c11Why(err error) string {
	if err == nil {
		return "none"
	}
	s := err.Error()
	switch {
	case strings.Contains(s, "already committed"):
		return "committed"
	case strings.Contains(s, "duplicate evidence"):
		return "duplicate"
	}
	return "verify"
}

func c11Detail(err error) string {
	if err == nil {
		return ""
	}
	s := err.Error()
	if i := strings.Index(s, ". Evidence:"); i > 0 {
		s = s[:i]
	}
	if len(s) > 140 {
		s = s[:140]
	}
	return s
}

func (w *c11World) evs(ids []string) (types.EvidenceList, bool) {
	out := types.EvidenceList{}
	for _, id := range ids {
		ev, ok := w.items[id]
		if !ok {
			return nil, false
		}
		out = append(out, ev)
	}
	return out, true
}

func (w *c11World) basic(id string) bool {
	if d, ok := w.ctx.Dv[id]; ok {
		return d.Basic
	}
	if l, ok := w.ctx.Lca[id]; ok {
		return l.Basic
	}
	return false
}

// exec runs one operation on the real pool; returns false when the op cannot be applied
func (w *c11World) exec(out *c11Writer, run int, op c11Op) bool {
	ok, _ := w.exec2(out, run, op)
	return ok
}

func (w *c11World) exec2(out *c11Writer, run int, op c11Op) (bool, map[string]interface{}) {
	ev := map[string]interface{}{"run": run}
	// while an Update is stopped between two marker writes only calls of OTHER goroutines that
	// the spec interleaves there are run; anything else lets the Update finish first
	if w.upd != nil {
		switch op.Op {
		case "Add", "AddBegin", "Pending", "UpdateEnd":
		default:
			w.exec2(out, run, c11Op{Op: "UpdateEnd"})
		}
	}
	switch op.Op {
	case "Add":
		it, ok := w.items[op.ID]
		if !ok {
			return false, nil
		}
		if !w.basic(op.ID) {
			// never reaches the pool in production (ValidateBasic at every door); exercise the
			// pure verification function instead
			d, isDv := w.ctx.Dv[op.ID]
			if !isDv {
				return false, nil
			}
			vs, err := w.sstore.LoadValidators(d.H)
			res := "err"
			if err == nil && VerifyDuplicateVote(it.(*types.DuplicateVoteEvidence), c11ChainID, vs) == nil {
				res = "ok"
			}
			ev["ev"], ev["id"], ev["res"], ev["novals"] = "VerifyDV", op.ID, res, err != nil
			break
		}
		if w.upd != nil {
			// another goroutine's AddEvidence while the committing goroutine is stopped: it either
			// completes or waits for the pool's mutex
			done := make(chan error, 1)
			gidc := make(chan int64, 1)
			h := w.pool.State().LastBlockHeight
			go func() {
				gidc <- c11Gid()
				var err error
				if pk := c11Guard(func() { err = w.pool.AddEvidence(it) }); pk != "" {
					err = c11Panic(pk)
				}
				done <- err
			}()
			err, completed := c11Await(<-gidc, done)
			if !completed {
				w.mseq++
				tk := fmt.Sprintf("m%d", w.mseq)
				w.tickets[tk] = &c11Ticket{id: op.ID, mutex: true, h: h, done: done}
				ev["ev"], ev["id"], ev["tk"], ev["stage"], ev["how"] = "AddBegin", op.ID, tk, "parked", "mutex"
				ev["res"], ev["why"], ev["detail"] = "ok", "none", ""
				break
			}
			ev["ev"], ev["id"] = "Add", op.ID
			c11OutcomeErr(ev, err)
			break
		}
		var err error
		pk := c11Guard(func() { err = w.pool.AddEvidence(it) })
		ev["ev"], ev["id"] = "Add", op.ID
		c11Outcome(ev, err, pk)
	case "UpdateBegin":
		l, ok := w.evs(op.IDs)
		if !ok || len(l) == 0 || w.upd != nil {
			return false, nil
		}
		to := w.pool.State().LastBlockHeight + 1
		if to > int64(w.ctx.N) {
			return false, nil
		}
		k := int(op.K)
		if k < 1 {
			k = 1
		}
		if w.bs.Height() < to {
			w.bs.setTip(to)
		}
		u := &c11Upd{to: to, ids: op.IDs, release: make(chan struct{}), done: make(chan string, 1)}
		reached := make(chan struct{})
		w.edb.arm(k, reached, u.release)
		st := w.stateAt(to)
		go func() {
			w.edb.setGid(c11Gid())
			pk := c11Guard(func() { w.pool.Update(st, l) })
			w.edb.disarm()
			u.done <- pk
		}()
		stage := "paused"
		select {
		case <-reached:
			w.upd = u
			c11Outcome(ev, nil, "")
		case pk := <-u.done:
			// fewer than k marker writes: the Update ran to its end
			stage = "finished"
			c11Outcome(ev, nil, pk)
			if pk == "" {
				w.saveStates(to)
			}
		}
		ev["ev"], ev["to"], ev["ids"], ev["k"], ev["stage"] = "UpdateBegin", to, op.IDs, k, stage
		ev["A"], ev["D"] = w.ctx.paramsAt(to).A, w.ctx.paramsAt(to).D
	case "UpdateEnd":
		u := w.upd
		if u == nil {
			return false, nil
		}
		close(u.release)
		pk := <-u.done
		w.upd = nil
		// the calls that waited for the mutex go on now; their effects commute with the rest of
		// the Update, the state is observed when all of them have returned
		late := []map[string]interface{}{}
		for _, tk := range c11TicketNamesOf(w, true) {
			t := w.tickets[tk]
			l := map[string]interface{}{"tk": tk, "id": t.id}
			c11OutcomeErr(l, <-t.done)
			delete(l, "detail")
			late = append(late, l)
			delete(w.tickets, tk)
		}
		c11Outcome(ev, nil, pk)
		if pk == "" {
			w.saveStates(u.to)
		}
		ev["ev"], ev["to"], ev["ids"], ev["late"] = "UpdateEnd", u.to, u.ids, late
	case "Check":
		l, ok := w.evs(op.IDs)
		if !ok || len(l) == 0 {
			return false, nil
		}
		for _, id := range op.IDs {
			if !w.basic(id) {
				return false, nil
			}
		}
		var err error
		pk := c11Guard(func() { err = w.pool.CheckEvidence(l) })
		ev["ev"], ev["ids"] = "Check", op.IDs
		c11Outcome(ev, err, pk)
	case "Report":
		p, ok := w.pairs[op.Pair]
		if !ok {
			return false, nil
		}
		va, vb := p[0], p[1]
		if op.Swap {
			va, vb = vb, va
		}
		pk := c11Guard(func() { w.pool.ReportConflictingVotes(va, vb) })
		ev["ev"], ev["pair"], ev["swap"] = "Report", op.Pair, op.Swap
		c11Outcome(ev, nil, pk)
	case "Update":
		l, ok := w.evs(op.IDs)
		if !ok {
			return false, nil
		}
		h := w.pool.State().LastBlockHeight
		to := op.To
		if to <= h {
			to = h + 1
		}
		if to > int64(w.ctx.N) {
			return false, nil
		}
		if w.bs.Height() < to {
			w.bs.setTip(to)
		}
		pk := c11Guard(func() { w.pool.Update(w.stateAt(to), l) })
		c11Outcome(ev, nil, pk)
		// a node whose Update panicked never reaches the state save
		if !op.Crash && pk == "" {
			w.saveStates(to)
		}
		ids := op.IDs
		if ids == nil {
			ids = []string{}
		}
		ev["ev"], ev["to"], ev["ids"], ev["crash"] = "Update", to, ids, op.Crash
		ev["A"], ev["D"] = w.ctx.paramsAt(to).A, w.ctx.paramsAt(to).D
	case "Pending":
		mb := op.Bytes
		if !op.Real {
			mb = -1
			if op.MB >= 0 {
				mb = op.MB * w.maxW
			}
		}
		var got []types.Evidence
		var sz int64
		pk := c11Guard(func() { got, sz = w.pool.PendingEvidence(mb) })
		c11Outcome(ev, nil, pk)
		ids := []string{}
		for _, g := range got {
			ids = append(ids, w.idOfEv(g))
		}
		ev["ev"], ev["mb"], ev["got"], ev["bytes"] = "Pending", mb, ids, sz
	case "Restart":
		if len(w.tickets) > 0 {
			return false, nil
		}
		var p *Pool
		var err error
		pk := c11Guard(func() { p, err = NewPool(w.edb, w.sstore, w.bs) })
		if err != nil || pk != "" {
			ev["ev"] = "RestartFailed"
			c11Outcome(ev, err, pk)
			break
		}
		w.pool = p
		w.startH = w.saved
		ev["ev"] = "Restart"
		c11Outcome(ev, nil, "")
	case "AddBegin":
		it, ok := w.items[op.ID]
		if !ok || !w.basic(op.ID) || w.tickets[op.Tk] != nil {
			return false, nil
		}
		tk := &c11Ticket{id: op.ID, h: w.pool.State().LastBlockHeight, gate: &c11Gate{reached: make(chan struct{}), release: make(chan struct{}), armed: true}, done: make(chan error, 1)}
		started := make(chan struct{})
		go func() {
			w.bs.mtx.Lock()
			w.bs.parked[c11Gid()] = tk.gate
			w.bs.mtx.Unlock()
			close(started)
			var err error
			if pk := c11Guard(func() { err = w.pool.AddEvidence(it) }); pk != "" {
				err = c11Panic(pk)
			}
			w.bs.mtx.Lock()
			delete(w.bs.parked, c11Gid())
			w.bs.mtx.Unlock()
			tk.done <- err
		}()
		<-started
		stage := "parked"
		select {
		case <-tk.gate.reached:
			w.tickets[op.Tk] = tk
		case err := <-tk.done:
			// finished without reaching the store step (ignored or rejected)
			stage = "returned"
			c11OutcomeErr(ev, err)
		}
		ev["ev"], ev["id"], ev["tk"], ev["stage"], ev["how"] = "AddBegin", op.ID, op.Tk, stage, "gate"
		if stage == "parked" {
			ev["res"], ev["why"], ev["detail"] = "ok", "none", ""
		}
	case "AddEnd":
		tk := w.tickets[op.Tk]
		if tk == nil || tk.mutex {
			return false, nil
		}
		close(tk.gate.release)
		err := <-tk.done
		delete(w.tickets, op.Tk)
		ev["ev"], ev["id"], ev["tk"] = "AddEnd", tk.id, op.Tk
		c11OutcomeErr(ev, err)
	default:
		return false, nil
	}
	ev["post"] = w.project()
	out.emit(ev)
	return true, ev
}

func (w *c11World) saveStates(to int64) {
	for s := w.saved + 1; s <= to; s++ {
		if err := w.sstore.Save(w.stateAt(s)); err != nil {
			w.t.Fatal(err)
		}
	}
	if to > w.saved {
		w.saved = to
	}
}

// names of the in-flight AddEvidence calls, sorted: those waiting for the pool's mutex or
// those parked at the harness's gate
func c11TicketNamesOf(w *c11World, mutex bool) []string {
	names := []string{}
	for n, t := range w.tickets {
		if t.mutex == mutex {
			names = append(names, n)
		}
	}
	sort.Strings(names)
	return names
}

func c11Res(err error) string {
	if err == nil {
		return "ok"
	}
	return "err"
}

// c11Guard runs one call of product code.  A panic of the product code is an OUTCOME of the
// call ("panic"), logged like any other so that TLC judges it; it does not end the run.
func c11Guard(f func()) (panicked string) {
	defer func() {
		if r := recover(); r != nil {
			panicked = fmt.Sprint(r)
			if len(panicked) > 140 {
				panicked = panicked[:140]
			}
			if panicked == "" {
				panicked = "panic"
			}
		}
	}()
	f()
	return ""
}

type c11Panic string

func (p c11Panic) Error() string { return string(p) }

func c11OutcomeErr(ev map[string]interface{}, err error) {
	if pk, ok := err.(c11Panic); ok {
		c11Outcome(ev, nil, string(pk))
		return
	}
	c11Outcome(ev, err, "")
}

// outcome fields of a call: res = ok | err | panic
func c11Outcome(ev map[string]interface{}, err error, panicked string) {
	if panicked != "" {
		ev["res"], ev["why"], ev["detail"] = "panic", "none", panicked
		return
	}
	ev["res"], ev["why"], ev["detail"] = c11Res(err), c11Why(err), c11Detail(err)
}

func (w *c11World) finish(out *c11Writer, run int) {
	// never leave a stopped Update or a parked goroutine behind
	if w.upd != nil {
		w.exec(out, run, c11Op{Op: "UpdateEnd"})
	}
	for _, tk := range c11TicketNamesOf(w, false) {
		w.exec(out, run, c11Op{Op: "AddEnd", Tk: tk})
	}
}

func c11RunOne(t *testing.T, out *c11Writer, run int, r c11Run, raw json.RawMessage) {
	// a fresh copy of the context per run: the world fills in key / rank / size fields
	var c c11Ctx
	if err := json.Unmarshal(raw, &c); err != nil {
		t.Fatalf("context %q: %v", r.Ctx, err)
	}
	w := newC11World(t, &c)
	out.emit(map[string]interface{}{"ev": "Reset", "run": run, "src": r.Src, "c": w.ctx, "post": w.project()})
	for _, op := range r.Ops {
		w.exec(out, run, op)
	}
	w.finish(out, run)
}

var c11Skipped int64

func TestVerifC11(t *testing.T) {
	inPath, outDir := os.Getenv("VERIF_IN"), os.Getenv("VERIF_OUT")
	if inPath == "" || outDir == "" {
		t.Skip("VERIF_IN / VERIF_OUT not set")
	}
	seed, _ := strconv.ParseInt(os.Getenv("VERIF_SEED"), 10, 64)
	raw, err := os.ReadFile(inPath)
	if err != nil {
		t.Fatal(err)
	}
	var in c11Input
	if err := json.Unmarshal(raw, &in); err != nil {
		t.Fatal(err)
	}
	f, err := os.Create(outDir + "/pool.ndjson")
	if err != nil {
		t.Fatal(err)
	}
	out := &c11Writer{f: f, enc: json.NewEncoder(f)}
	run := 0
	for _, r := range in.Runs {
		run++
		raw, ok := in.Ctxs[r.Ctx]
		if !ok {
			t.Fatalf("run %d: unknown context %q", run, r.Ctx)
		}
		c11RunOne(t, out, run, r, raw)
	}
	rng := rand.New(rand.NewSource(seed*7919 + 11))
	for k := 0; k < in.Random; k++ {
		run++
		c11RunRandom(t, out, run, rng, false)
	}
	if in.Apply > 0 {
		run = c11RunApplyFamily(t, out, run)
	}
	for k := 0; k < in.Conc; k++ {
		run++
		c11RunRandom(t, out, run, rng, true)
	}
	f.Close()
	t.Logf("C11 harness: %d runs, %d events, %d skipped", run, out.n, atomic.LoadInt64(&c11Skipped))
}

var _ = fmt.Sprintf
