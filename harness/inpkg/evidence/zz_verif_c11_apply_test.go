//go:build verif

package evidence

// C11 harness, part 3: the crash-point family over the END of BlockExecutor.ApplyBlock.
//
// A real sm.BlockExecutor (state/execution.go) with a real evidence.Pool, a real sm.Store, a
// real store.BlockStore and a local ABCI application commits blocks that carry evidence.  The
// two persistence steps at the end of ApplyBlock are observed in the order the PRODUCT makes
// them -- the pool is handed to the executor behind a forwarding wrapper (evpool.Update ->
// event "Update", crash = true: the pool step alone), the state store behind another one
// (store.Save -> event "SaveState") -- and a simulated power loss (panic right after the real
// write returned) is injected after either step.  Restart = everything rebuilt on the same
// databases, followed by the handshake rule of consensus/replay.go (state one block behind
// the block store: ApplyBlock of that block again; equal: nothing).  After the restart the
// pool is asked what it offers and accepts.  TLC judges the observed states
// (spec/trace/TMEvidenceTrace.tla: p.durable, "restart-forgets-evidence-of-applied-block").

import (
	"fmt"
	"strconv"
	"testing"
	"time"

	dbm "github.com/tendermint/tm-db"

	abci "github.com/tendermint/tendermint/abci/types"
	"github.com/tendermint/tendermint/libs/log"
	mmock "github.com/tendermint/tendermint/mempool/mock"
	tmproto "github.com/tendermint/tendermint/proto/tendermint/types"
	"github.com/tendermint/tendermint/proxy"
	sm "github.com/tendermint/tendermint/state"
	"github.com/tendermint/tendermint/store"
	"github.com/tendermint/tendermint/types"
)

type c11Crash string

type c11Pipe struct {
	t        *testing.T
	w        *c11World
	out      *c11Writer
	run      int
	logging  bool
	crashAt  string // "", "update" (after evpool.Update returned), "save" (after store.Save returned)
	applying []string
	sdb      dbm.DB
	sstore   *c11CrashStore
	bstore   *store.BlockStore
	app      proxy.AppConns
	exec     *sm.BlockExecutor
	state    sm.State
	commits  map[int64]*types.Commit // seen commits
}

// ---- the state store with a fault: dies right after the state reached the disk
type c11CrashStore struct {
	sm.Store
	p *c11Pipe
}

func (s *c11CrashStore) Save(st sm.State) error {
	if err := s.Store.Save(st); err != nil {
		return err
	}
	p := s.p
	if st.LastBlockHeight > p.w.saved {
		p.w.saved = st.LastBlockHeight
	}
	if p.logging {
		ids := p.applying
		if ids == nil {
			ids = []string{}
		}
		p.out.emit(map[string]interface{}{"ev": "SaveState", "run": p.run, "to": st.LastBlockHeight, "ids": ids,
			"res": "ok", "why": "none", "detail": "", "post": p.w.project()})
		if p.crashAt == "save" {
			p.crashAt = ""
			panic(c11Crash("power loss after store.Save"))
		}
	}
	return nil
}

// ---- the pool as the executor sees it: every call forwarded to the real pool and logged
type c11PoolWrap struct{ p *c11Pipe }

func (pw *c11PoolWrap) ids(l []types.Evidence) []string {
	ids := []string{}
	for _, e := range l {
		ids = append(ids, pw.p.w.idOfEv(e))
	}
	return ids
}

func (pw *c11PoolWrap) emit(ev map[string]interface{}) {
	if !pw.p.logging {
		return
	}
	ev["run"] = pw.p.run
	ev["post"] = pw.p.w.project()
	pw.p.out.emit(ev)
}

func (pw *c11PoolWrap) PendingEvidence(maxBytes int64) ([]types.Evidence, int64) {
	got, sz := pw.p.w.pool.PendingEvidence(maxBytes)
	pw.emit(map[string]interface{}{"ev": "Pending", "mb": maxBytes, "got": pw.ids(got), "bytes": sz, "res": "ok", "why": "none", "detail": ""})
	return got, sz
}

func (pw *c11PoolWrap) AddEvidence(e types.Evidence) error {
	err := pw.p.w.pool.AddEvidence(e)
	ev := map[string]interface{}{"ev": "Add", "id": pw.p.w.idOfEv(e)}
	c11Outcome(ev, err, "")
	pw.emit(ev)
	return err
}

func (pw *c11PoolWrap) CheckEvidence(l types.EvidenceList) error {
	err := pw.p.w.pool.CheckEvidence(l)
	ev := map[string]interface{}{"ev": "Check", "ids": pw.ids(l)}
	c11Outcome(ev, err, "")
	pw.emit(ev)
	return err
}

func (pw *c11PoolWrap) Update(st sm.State, l types.EvidenceList) {
	p := pw.p
	pk := c11Guard(func() { p.w.pool.Update(st, l) })
	ev := map[string]interface{}{"ev": "Update", "to": st.LastBlockHeight, "ids": pw.ids(l), "crash": true,
		"A": st.ConsensusParams.Evidence.MaxAgeNumBlocks, "D": int64(st.ConsensusParams.Evidence.MaxAgeDuration / time.Second)}
	c11Outcome(ev, nil, pk)
	pw.emit(ev)
	if p.logging && p.crashAt == "update" {
		p.crashAt = ""
		panic(c11Crash("power loss after evpool.Update"))
	}
}

// ---- chain plumbing
func (p *c11Pipe) signCommit(h int64, bid types.BlockID, vs *types.ValidatorSet, ts time.Time) *types.Commit {
	sigs := make([]types.CommitSig, len(vs.Validators))
	for i, v := range vs.Validators {
		name := p.w.nameOf(v.Address)
		vote := &types.Vote{Type: tmproto.PrecommitType, Height: h, Round: 0, BlockID: bid, Timestamp: ts,
			ValidatorAddress: v.Address, ValidatorIndex: int32(i)}
		vp := vote.ToProto()
		if err := p.w.pvs[name].SignVote(c11ChainID, vp); err != nil {
			p.t.Fatal(err)
		}
		sigs[i] = types.CommitSig{BlockIDFlag: types.BlockIDFlagCommit, ValidatorAddress: v.Address, Timestamp: ts, Signature: vp.Signature}
	}
	return types.NewCommit(h, 0, bid, sigs)
}

func (p *c11Pipe) rebuild() {
	p.sstore = &c11CrashStore{Store: sm.NewStore(p.sdb, sm.StoreOptions{DiscardABCIResponses: false}), p: p}
	pool, err := NewPool(p.w.edb, p.sstore, p.bstore)
	if err != nil {
		p.t.Fatal(err)
	}
	p.w.pool = pool
	p.exec = sm.NewBlockExecutor(p.sstore, log.NewNopLogger(), p.app.Consensus(), mmock.Mempool{}, &c11PoolWrap{p: p})
}

// what consensus does for one height: propose, validate, save the block, apply it.
// Returns false when the simulated power loss hit.
func (p *c11Pipe) commitHeight(h int64) (crashed bool) {
	last := types.NewCommit(0, 0, types.BlockID{}, nil)
	if h > 1 {
		last = p.commits[h-1]
	}
	block, parts := p.exec.CreateProposalBlock(h, p.state, last, p.state.Validators.GetProposer().Address)
	if err := p.exec.ValidateBlock(p.state, block); err != nil {
		// the pool refuses its own proposal: commit the height without evidence
		block, parts = p.state.MakeBlock(h, nil, last, nil, p.state.Validators.GetProposer().Address)
	}
	bid := types.BlockID{Hash: block.Hash(), PartSetHeader: parts.Header()}
	p.commits[h] = p.signCommit(h, bid, p.state.Validators, c11T(p.w.timeAt(h+1)))
	p.bstore.SaveBlock(block, parts, p.commits[h])
	p.w.bs.setTip(h) // (mirror of the block store height for the projection)
	return p.apply(block, bid)
}

func (p *c11Pipe) apply(block *types.Block, bid types.BlockID) (crashed bool) {
	p.applying = (&c11PoolWrap{p: p}).ids(block.Evidence.Evidence)
	defer func() {
		p.applying = nil
		if r := recover(); r != nil {
			if _, ok := r.(c11Crash); !ok {
				panic(r)
			}
			crashed = true
		}
	}()
	st, _, err := p.exec.ApplyBlock(p.state, bid, block)
	if err != nil {
		p.t.Fatalf("ApplyBlock(%d): %v", block.Height, err)
	}
	p.state = st
	return false
}

// restart on the same databases + the handshake's decision (consensus/replay.go ReplayBlocks:
// store height == state height: nothing; store height == state height + 1: apply that block)
func (p *c11Pipe) restart() {
	p.rebuild()
	p.w.startH = p.w.saved
	ev := map[string]interface{}{"ev": "Restart", "run": p.run, "res": "ok", "why": "none", "detail": "", "post": p.w.project()}
	p.out.emit(ev)
	st, err := p.sstore.Load()
	if err != nil {
		p.t.Fatal(err)
	}
	p.state = st
	if H := p.bstore.Height(); H == st.LastBlockHeight+1 {
		block := p.bstore.LoadBlock(H)
		meta := p.bstore.LoadBlockMeta(H)
		if p.apply(block, meta.BlockID) {
			p.t.Fatal("crash during replay")
		}
	} else if H != st.LastBlockHeight {
		p.t.Fatalf("block store at %d, state at %d", H, st.LastBlockHeight)
	}
}

func (p *c11Pipe) probe(ids []string) {
	pw := &c11PoolWrap{p: p}
	pw.PendingEvidence(-1)
	for _, id := range ids {
		pw.CheckEvidence(types.EvidenceList{p.w.items[id]})
	}
}

// one run: evidence of height h-1 reaches the pool while height h is decided; the block of
// crashHeight dies at crashAt
func c11RunApply(t *testing.T, out *c11Writer, run int, crashAt string, crashHeight int64, early bool) {
	const N = 6
	ctx := &c11Ctx{N: N, H0: 1, Names: []string{"n1", "n2"}, Dv: map[string]*c11Dv{}, Lca: map[string]*c11Lca{}, Pairs: map[string]*c11Pair{}}
	vals := map[string]int64{"n1": 1, "n2": 1}
	for h := 1; h <= N; h++ {
		ctx.Vals = append(ctx.Vals, c11CopyVals(vals))
		ctx.Time = append(ctx.Time, int64(10*h))
		ctx.Signed = append(ctx.Signed, []string{"n1", "n2"})
		ctx.Params = append(ctx.Params, c11Params{A: 10, D: 1000})
	}
	ids := []string{}
	for h := int64(1); h <= 4; h++ {
		val := []string{"n1", "n2"}[h%2]
		id := "d" + strconv.FormatInt(h, 10) + "genuine"
		ctx.Dv[id] = &c11Dv{H: h, HB: h, TA: 2, TB: 2, Val: val, ValB: val, BlkA: "b1", BlkB: "b2", SigA: true, SigB: true,
			Power: 1, Total: 2, Time: ctx.Time[h-1], Mut: "genuine"}
		ids = append(ids, id)
	}
	ctx.Pairs["q1"] = &c11Pair{H: 1, T: 2, Val: "n2", BlkA: "b1", BlkB: "b2", Dv: "d1genuine", Late: "d1genuine"}
	w := newC11Base(t, ctx)
	w.bs = &c11BlockStore{metas: map[int64]*types.BlockMeta{}, commits: map[int64]*types.Commit{}, parked: map[int64]*c11Gate{}}
	w.edb = &c11EvDB{DB: dbm.NewMemDB()}
	w.buildItems()
	// (the context must not carry an empty record)
	ctx.Lca["none"] = &c11Lca{H: 1, CH: 1, CTime: ctx.Time[0], CVals: map[string]int64{"n1": 1}, Signers: []string{}, SigOK: true,
		Derive: "same", Total: 2, Time: ctx.Time[0], Byz: []c11NP{}, Mut: "none", Key: "k:none", Rank: 0, Wsize: 1, Basic: false}

	p := &c11Pipe{t: t, w: w, out: out, run: run, sdb: dbm.NewMemDB(), commits: map[int64]*types.Commit{}}
	p.bstore = store.NewBlockStore(dbm.NewMemDB())
	p.app = proxy.NewAppConns(proxy.NewLocalClientCreator(abci.NewBaseApplication()))
	if err := p.app.Start(); err != nil {
		t.Fatal(err)
	}
	defer p.app.Stop() //nolint:errcheck

	gvals := []types.GenesisValidator{}
	for _, n := range ctx.Names {
		gvals = append(gvals, types.GenesisValidator{Address: w.addr[n], PubKey: w.pvs[n].PrivKey.PubKey(), Power: vals[n], Name: n})
	}
	cp := w.params(1)
	gen := &types.GenesisDoc{GenesisTime: c11T(ctx.Time[0]), ChainID: c11ChainID, InitialHeight: 1, ConsensusParams: &cp, Validators: gvals}
	st, err := sm.MakeGenesisState(gen)
	if err != nil {
		t.Fatal(err)
	}
	p.state = st
	p.rebuild()
	if err := p.sstore.Save(st); err != nil {
		t.Fatal(err)
	}
	// height 1 is committed before the observation starts; then the pool is (re)created on it
	if p.commitHeight(1) {
		t.Fatal("unexpected crash")
	}
	p.rebuild()
	w.startH, w.saved = 1, 1
	p.logging = true
	out.emit(map[string]interface{}{"ev": "Reset", "run": run, "src": "apply", "c": w.ctx, "post": w.project()})

	pw := &c11PoolWrap{p: p}
	for h := int64(2); h <= 5; h++ {
		// evidence of the previous height (and, when "early", of the one before) reaches the pool
		_ = pw.AddEvidence(w.items[ids[h-2]])
		if early && h >= 3 {
			_ = pw.AddEvidence(w.items[ids[h-3]])
		}
		if h == crashHeight {
			p.crashAt = crashAt
		}
		if p.commitHeight(h) {
			p.restart()
			p.probe(ids[:h-1])
		}
	}
	p.probe(ids)
	p.restart()
	p.probe(ids)
}

func c11RunApplyFamily(t *testing.T, out *c11Writer, run int) int {
	for _, crashAt := range []string{"", "update", "save"} {
		for _, ch := range []int64{2, 3, 4} {
			if crashAt == "" && ch > 2 {
				continue
			}
			for _, early := range []bool{false, true} {
				run++
				c11RunApply(t, out, run, crashAt, ch, early)
			}
		}
	}
	return run
}

var _ = fmt.Sprintf
