//go:build verif

package evidence_test

// C17 harness, hostile half, evidence reactor (spec/TMReactorAlphabet.tla EvKinds/EvFC/EvPS).

import (
	"os"
	"testing"
	"time"

	"github.com/gogo/protobuf/proto"

	"github.com/tendermint/tendermint/evidence"
	"github.com/tendermint/tendermint/p2p"
	tmproto "github.com/tendermint/tendermint/proto/tendermint/types"
	"github.com/tendermint/tendermint/types"
)

type c17EvHooks struct {
	pool map[string]*evidence.Pool
	val  types.MockPV
}

func (h *c17EvHooks) envOf(ps string) string { return "node" }

func (h *c17EvHooks) newEnv(name string) *c17Env {
	pool, val := defaultTestPool(10)
	h.pool[name], h.val = pool, val
	r := evidence.NewReactor(pool)
	env := c17NewEnv(name, map[string]p2p.Reactor{"EVIDENCE": r}, []string{"EVIDENCE"})
	r.SetLogger(env.nlog)
	pool.SetLogger(env.nlog)
	return env
}

func (h *c17EvHooks) prepare(env *c17Env, ps string) {}

func c17EvList(evs ...tmproto.Evidence) []byte {
	b, err := proto.Marshal(&tmproto.EvidenceList{Evidence: evs})
	if err != nil {
		panic(err)
	}
	return b
}

func c17EvDup(mod func(*tmproto.DuplicateVoteEvidence)) tmproto.Evidence {
	ev := types.NewMockDuplicateVoteEvidence(5, defaultEvidenceTime.Add(time.Minute), evidenceChainID)
	p := ev.ToProto()
	if mod != nil {
		mod(p)
	}
	return tmproto.Evidence{Sum: &tmproto.Evidence_DuplicateVoteEvidence{DuplicateVoteEvidence: p}}
}

func c17EvLCA(mod func(*tmproto.LightClientAttackEvidence)) tmproto.Evidence {
	p := &tmproto.LightClientAttackEvidence{
		ConflictingBlock: &tmproto.LightBlock{
			SignedHeader: &tmproto.SignedHeader{Header: &tmproto.Header{ChainID: evidenceChainID, Height: 5,
				Time: defaultEvidenceTime}, Commit: &tmproto.Commit{Height: 5}},
			ValidatorSet: &tmproto.ValidatorSet{},
		},
		CommonHeight: 4, TotalVotingPower: 10, Timestamp: defaultEvidenceTime,
	}
	if mod != nil {
		mod(p)
	}
	return tmproto.Evidence{Sum: &tmproto.Evidence_LightClientAttackEvidence{LightClientAttackEvidence: p}}
}

func (h *c17EvHooks) build(env *c17Env, c c17Case) (byte, []byte, bool) {
	ch := evidence.EvidenceChannel
	switch c.FC {
	case "list_empty":
		// an EvidenceList without items is zero bytes long; one unknown field keeps the message non-empty
		return ch, []byte{0x78, 0x01}, true
	case "ev_no_sum":
		return ch, c17EvList(tmproto.Evidence{}), true
	case "dup_zero":
		return ch, c17EvList(tmproto.Evidence{Sum: &tmproto.Evidence_DuplicateVoteEvidence{DuplicateVoteEvidence: &tmproto.DuplicateVoteEvidence{}}}), true
	case "dup_nil_votes":
		return ch, c17EvList(c17EvDup(func(p *tmproto.DuplicateVoteEvidence) { p.VoteB = nil })), true
	case "dup_unverifiable":
		return ch, c17EvList(c17EvDup(nil)), true
	case "dup_far_height":
		return ch, c17EvList(c17EvDup(func(p *tmproto.DuplicateVoteEvidence) {
			p.VoteA.Height, p.VoteB.Height = 1<<40, 1<<40
		})), true
	case "dup_neg_power":
		return ch, c17EvList(c17EvDup(func(p *tmproto.DuplicateVoteEvidence) { p.TotalVotingPower, p.ValidatorPower = -1, -1 })), true
	case "dup_same_votes":
		return ch, c17EvList(c17EvDup(func(p *tmproto.DuplicateVoteEvidence) { p.VoteB = p.VoteA })), true
	case "lca_zero":
		return ch, c17EvList(tmproto.Evidence{Sum: &tmproto.Evidence_LightClientAttackEvidence{LightClientAttackEvidence: &tmproto.LightClientAttackEvidence{}}}), true
	case "lca_nil_block":
		return ch, c17EvList(c17EvLCA(func(p *tmproto.LightClientAttackEvidence) {
			p.ConflictingBlock = &tmproto.LightBlock{}
		})), true
	case "lca_nil_valset":
		return ch, c17EvList(c17EvLCA(func(p *tmproto.LightClientAttackEvidence) { p.ConflictingBlock.ValidatorSet = nil })), true
	case "lca_neg_height":
		return ch, c17EvList(c17EvLCA(func(p *tmproto.LightClientAttackEvidence) { p.CommonHeight = -1 })), true
	case "many_items":
		var evs []tmproto.Evidence
		for i := 0; i < 300; i++ {
			evs = append(evs, c17EvDup(nil))
		}
		return ch, c17EvList(evs...), true
	}
	return 0, nil, false
}

func (h *c17EvHooks) probe(env *c17Env) string {
	pool := h.pool[env.name]
	if !c17WithTimeout(10*time.Second, func() { _, _ = pool.PendingEvidence(1000); _ = pool.Size() }) {
		return "evidence pool locked"
	}
	return "ok"
}

func TestVerifC17Reactor(t *testing.T) {
	if os.Getenv("VERIF_IN") == "" || os.Getenv("VERIF_OUT") == "" {
		t.Skip("VERIF_IN / VERIF_OUT not set")
	}
	c17Run(&c17EvHooks{pool: map[string]*evidence.Pool{}}, "evidence")
}
