//go:build verif

package statesync

// C17 harness, hostile half, state sync reactor (spec/TMReactorAlphabet.tla SsKinds/SsFC/SsPS).
// Node-state classes: "idle" (no sync in progress; the node serves snapshots and chunks of
// its application) and "syncing" (a syncer with a snapshot pool and a chunk queue for a
// 3-chunk snapshot at height 1 format 1 exists).

import (
	"math"
	"os"
	"testing"
	"time"

	"github.com/gogo/protobuf/proto"
	"github.com/stretchr/testify/mock"

	abci "github.com/tendermint/tendermint/abci/types"
	"github.com/tendermint/tendermint/config"
	"github.com/tendermint/tendermint/p2p"
	ssproto "github.com/tendermint/tendermint/proto/tendermint/statesync"
	proxymocks "github.com/tendermint/tendermint/proxy/mocks"
	ssmocks "github.com/tendermint/tendermint/statesync/mocks"
)

type c17SsHooks struct {
	r map[string]*Reactor
}

func (h *c17SsHooks) envOf(ps string) string { return ps }

func (h *c17SsHooks) newEnv(name string) *c17Env {
	conn := &proxymocks.AppConnSnapshot{}
	conn.On("ListSnapshotsSync", mock.Anything).Return(&abci.ResponseListSnapshots{Snapshots: []*abci.Snapshot{
		{Height: 2, Format: 1, Chunks: 3, Hash: []byte{1, 2}, Metadata: []byte{3}},
		{Height: 1, Format: 1, Chunks: 2, Hash: []byte{4, 5}},
	}}, nil)
	conn.On("LoadSnapshotChunkSync", mock.Anything).Return(&abci.ResponseLoadSnapshotChunk{Chunk: []byte{1, 2, 3}}, nil)
	cfg := config.DefaultStateSyncConfig()
	tmp, err := os.MkdirTemp("", "c17-statesync")
	if err != nil {
		panic(err)
	}
	r := NewReactor(*cfg, conn, nil, tmp)
	h.r[name] = r
	env := c17NewEnv(name, map[string]p2p.Reactor{"STATESYNC": r}, []string{"STATESYNC"})
	r.SetLogger(env.nlog)
	if name == "syncing" {
		sp := &ssmocks.StateProvider{}
		sp.On("AppHash", mock.Anything, mock.Anything).Return([]byte("app_hash"), nil)
		s := newSyncer(*cfg, env.nlog, conn, nil, sp, tmp)
		q, err := newChunkQueue(&snapshot{Height: 1, Format: 1, Chunks: 3, Hash: []byte{9}}, tmp)
		if err != nil {
			panic(err)
		}
		s.chunks = q
		r.mtx.Lock()
		r.syncer = s
		r.mtx.Unlock()
	}
	return env
}

func (h *c17SsHooks) prepare(env *c17Env, ps string) {}

func c17SsWrap(m proto.Message) []byte {
	if w, ok := m.(p2p.Wrapper); ok {
		m = w.Wrap()
	}
	b, err := proto.Marshal(m)
	if err != nil {
		panic(err)
	}
	return b
}

func (h *c17SsHooks) build(env *c17Env, c c17Case) (byte, []byte, bool) {
	switch c.Kind {
	case "SnapshotsRequest":
		return SnapshotChannel, c17SsWrap(&ssproto.SnapshotsRequest{}), true
	case "SnapshotsResponse":
		m := &ssproto.SnapshotsResponse{Height: 3, Format: 1, Chunks: 2, Hash: []byte{7, 7}, Metadata: []byte{1}}
		switch c.FC {
		case "valid":
		case "h_zero":
			m.Height = 0
		case "h_max":
			m.Height = math.MaxUint64
		case "hash_empty":
			m.Hash = nil
		case "chunks_zero":
			m.Chunks = 0
		case "chunks_max":
			m.Chunks = math.MaxUint32
		case "format_max":
			m.Format = math.MaxUint32
		case "metadata_big":
			m.Metadata = make([]byte, 3900000)
		default:
			return 0, nil, false
		}
		return SnapshotChannel, c17SsWrap(m), true
	case "ChunkRequest":
		m := &ssproto.ChunkRequest{Height: 1, Format: 1, Index: 0}
		switch c.FC {
		case "valid":
		case "h_zero":
			m.Height = 0
		case "h_max":
			m.Height = math.MaxUint64
		case "index_max":
			m.Index = math.MaxUint32
		case "format_max":
			m.Format = math.MaxUint32
		default:
			return 0, nil, false
		}
		return ChunkChannel, c17SsWrap(m), true
	case "ChunkResponse":
		m := &ssproto.ChunkResponse{Height: 1, Format: 1, Index: 1, Chunk: []byte{1, 2, 3}}
		switch c.FC {
		case "valid":
		case "h_zero":
			m.Height = 0
		case "missing_with_chunk":
			m.Missing = true
		case "present_nil_chunk":
			m.Chunk = nil
		case "index_max":
			m.Index = math.MaxUint32
		case "chunk_big":
			m.Chunk = make([]byte, 15000000)
		case "missing":
			m.Missing, m.Chunk = true, nil
		default:
			return 0, nil, false
		}
		return ChunkChannel, c17SsWrap(m), true
	case "Empty":
		switch c.FC {
		case "no_sum":
			return SnapshotChannel, []byte{0x78, 0x01}, true
		case "wrong_channel_chunk":
			return SnapshotChannel, c17SsWrap(&ssproto.ChunkRequest{Height: 1, Format: 1, Index: 0}), true
		case "wrong_channel_snapshot":
			return ChunkChannel, c17SsWrap(&ssproto.SnapshotsRequest{}), true
		}
	}
	return 0, nil, false
}

func (h *c17SsHooks) probe(env *c17Env) string {
	r := h.r[env.name]
	if !c17WithTimeout(10*time.Second, func() { r.mtx.Lock(); r.mtx.Unlock() }) { //nolint:staticcheck
		return "statesync reactor mutex held"
	}
	return "ok"
}

func TestVerifC17Reactor(t *testing.T) {
	if os.Getenv("VERIF_IN") == "" || os.Getenv("VERIF_OUT") == "" {
		t.Skip("VERIF_IN / VERIF_OUT not set")
	}
	c17Run(&c17SsHooks{r: map[string]*Reactor{}}, "statesync")
}
