//go:build verif

package statesync

// C14 harness (see /verif/DESIGN.md section 5, C14).  Drives the REAL syncer, chunkQueue
// and snapshotPool with a scripted recording app (proxy.AppConnSnapshot / AppConnQuery), a
// state provider whose answers stand for light-verified values ("T:..." byte strings, a
// function of the height only, disjoint from everything snapshot peers claim: "P:...") and
// mock peers.  Two modes:
//
//	D  deterministic: no fetcher goroutines (cfg.ChunkFetchers = 0); the driver is the only
//	   scheduler: every app / provider call of the applier blocks in a gate until the driver
//	   answers it, chunk arrival is the driver calling syncer.AddChunk, and the driver
//	   performs the fetchers' own calls (chunkQueue.Allocate, syncer.requestChunk).  After
//	   every step the real objects are projected to the state of spec/TMStateSync.tla.
//	F  free running: real fetcher goroutines, responsive / silent / hostile peers, an app
//	   that draws its verdicts itself; events are logged in a total order, no projections.
//
// The harness gives no verdicts: TLC does (spec/trace/TMStateSyncTrace.tla).

import (
	"context"
	"encoding/json"
	"errors"
	"fmt"
	"math/rand"
	"os"
	"reflect"
	"runtime"
	"sort"
	"strconv"
	"strings"
	"sync"
	"testing"
	"time"

	abci "github.com/tendermint/tendermint/abci/types"
	"github.com/tendermint/tendermint/config"
	"github.com/tendermint/tendermint/libs/log"
	"github.com/tendermint/tendermint/light"
	"github.com/tendermint/tendermint/p2p"
	tmstate "github.com/tendermint/tendermint/proto/tendermint/state"
	ssproto "github.com/tendermint/tendermint/proto/tendermint/statesync"
	tmversion "github.com/tendermint/tendermint/proto/tendermint/version"
	sm "github.com/tendermint/tendermint/state"
	"github.com/tendermint/tendermint/types"
	"github.com/tendermint/tendermint/version"
)

// ---------------------------------------------------------------- abstract values

type c14Snap struct {
	H    int    `json:"h"`
	F    int    `json:"f"`
	N    int    `json:"n"`
	Hash string `json:"hash"`
	Meta string `json:"meta"`
}

var c14NoSnap = c14Snap{Hash: "nil", Meta: "nil"}

func (s c14Snap) real() *snapshot {
	return &snapshot{Height: uint64(s.H), Format: uint32(s.F), Chunks: uint32(s.N), Hash: []byte(s.Hash), Metadata: []byte(s.Meta)}
}

func c14Str(b []byte) string {
	if b == nil {
		return "nil"
	}
	return string(b)
}

func c14AbsSnap(s *snapshot) c14Snap {
	if s == nil {
		return c14NoSnap
	}
	return c14Snap{H: int(s.Height), F: int(s.Format), N: int(s.Chunks), Hash: c14Str(s.Hash), Meta: c14Str(s.Metadata)}
}

func (s c14Snap) key() string { return fmt.Sprintf("%06d/%06d/%06d/%s/%s", s.H, s.F, s.N, s.Hash, s.Meta) }

type c14Info struct {
	Hash   string `json:"hash"`
	Height int    `json:"height"`
	Ver    int    `json:"ver"`
}

type c14Step struct {
	Op    string   `json:"op"`
	P     string   `json:"p,omitempty"`
	S     *c14Snap `json:"s,omitempty"`
	I     int      `json:"i"`
	B     string   `json:"b,omitempty"`
	Kind  string   `json:"kind,omitempty"`
	Ans   string   `json:"ans,omitempty"`
	V     string   `json:"v,omitempty"`
	Rf    []int    `json:"rf,omitempty"`
	Rs    []string `json:"rs,omitempty"`
	Info  *c14Info `json:"info,omitempty"`
	Which string   `json:"which,omitempty"`
}

type c14Sched struct {
	ID    string    `json:"id"`
	Steps []c14Step `json:"steps"`
}

type c14Input struct {
	Scheds  []c14Sched `json:"scheds"`
	RandomD int        `json:"random_d"`
	FreeF   int        `json:"free_f"`
	Par     int        `json:"par"`
}

// trusted values: functions of the height only (TMStateSync.tla TAppHash / TState / TCommit)
func c14TAppHash(h uint64) []byte { return []byte("T:ah" + strconv.FormatUint(h, 10)) }
func c14AppVer(h uint64) uint64   { return 10 + h }

func c14TState(h uint64) sm.State {
	hs := strconv.FormatUint(h, 10)
	return sm.State{
		ChainID: "T:chain",
		Version: tmstate.Version{Consensus: tmversion.Consensus{Block: version.BlockProtocol, App: c14AppVer(h)},
			Software: version.TMCoreSemVer},
		InitialHeight:                    1,
		LastBlockHeight:                  int64(h),
		LastBlockID:                      types.BlockID{Hash: []byte("T:bid" + hs)},
		LastBlockTime:                    time.Unix(1600000000+int64(h), 0).UTC(),
		LastResultsHash:                  []byte("T:lrh" + hs),
		AppHash:                          c14TAppHash(h),
		LastValidators:                   &types.ValidatorSet{Proposer: &types.Validator{Address: []byte("T:lv" + hs)}},
		Validators:                       &types.ValidatorSet{Proposer: &types.Validator{Address: []byte("T:v" + hs)}},
		NextValidators:                   &types.ValidatorSet{Proposer: &types.Validator{Address: []byte("T:nv" + hs)}},
		ConsensusParams:                  *types.DefaultConsensusParams(),
		LastHeightConsensusParamsChanged: int64(h) + 1,
		LastHeightValidatorsChanged:      int64(h) + 2,
	}
}

func c14TCommit(h uint64) *types.Commit {
	return &types.Commit{Height: int64(h), BlockID: types.BlockID{Hash: []byte("T:bid" + strconv.FormatUint(h, 10))}}
}

func c14ValName(v *types.ValidatorSet) string {
	if v == nil || v.Proposer == nil {
		return "nil"
	}
	return c14Str(v.Proposer.Address)
}

func c14AbsState(s sm.State) map[string]interface{} {
	chain := s.ChainID
	if chain == "" {
		chain = "nil"
	}
	return map[string]interface{}{
		"height": int(s.LastBlockHeight), "apphash": c14Str(s.AppHash), "appver": int(s.Version.Consensus.App),
		"lbid": c14Str(s.LastBlockID.Hash), "lrh": c14Str(s.LastResultsHash),
		"lastvals": c14ValName(s.LastValidators), "vals": c14ValName(s.Validators), "nextvals": c14ValName(s.NextValidators),
		"chain": chain,
	}
}

func c14AbsCommit(c *types.Commit) map[string]interface{} {
	if c == nil {
		return map[string]interface{}{"height": 0, "bid": "nil"}
	}
	return map[string]interface{}{"height": int(c.Height), "bid": c14Str(c.BlockID.Hash)}
}

// ---------------------------------------------------------------- output

type c14Writer struct {
	mtx sync.Mutex
	f   *os.File
	enc *json.Encoder
	n   int
}

func newC14Writer(path string) *c14Writer {
	f, err := os.Create(path)
	if err != nil {
		panic(err)
	}
	return &c14Writer{f: f, enc: json.NewEncoder(f)}
}

// a run's events are buffered and written in one piece, so that parallel runs do not mix
func (w *c14Writer) flush(rows []map[string]interface{}) {
	w.mtx.Lock()
	defer w.mtx.Unlock()
	for _, r := range rows {
		if err := w.enc.Encode(r); err != nil {
			panic(err)
		}
		w.n++
	}
}

// ---------------------------------------------------------------- gates (app, provider)

type c14Call struct {
	kind  string // apphash | state | commit | offer | apply | verify
	h     uint64
	offer abci.RequestOfferSnapshot
	apply abci.RequestApplySnapshotChunk
	reply chan c14Reply
}

type c14Reply struct {
	fail   error
	ans    string // provider: ok
	offer  abci.ResponseOfferSnapshot_Result
	apply  abci.ResponseApplySnapshotChunk_Result
	rf     []uint32
	rs     []string
	info   abci.ResponseInfo
	state  sm.State
	commit *types.Commit
	hash   []byte
}

type c14Gate struct {
	calls chan *c14Call
	// mode F: answer decided inline
	auto func(c *c14Call) c14Reply
}

func (g *c14Gate) call(c *c14Call) c14Reply {
	if g.auto != nil {
		return g.auto(c)
	}
	c.reply = make(chan c14Reply, 1)
	g.calls <- c
	return <-c.reply
}

type c14App struct{ g *c14Gate }

func (a *c14App) Error() error { return nil }
func (a *c14App) ListSnapshotsSync(abci.RequestListSnapshots) (*abci.ResponseListSnapshots, error) {
	return &abci.ResponseListSnapshots{}, nil
}
func (a *c14App) LoadSnapshotChunkSync(abci.RequestLoadSnapshotChunk) (*abci.ResponseLoadSnapshotChunk, error) {
	return &abci.ResponseLoadSnapshotChunk{}, nil
}
func (a *c14App) OfferSnapshotSync(req abci.RequestOfferSnapshot) (*abci.ResponseOfferSnapshot, error) {
	r := a.g.call(&c14Call{kind: "offer", offer: req})
	if r.fail != nil {
		return nil, r.fail
	}
	return &abci.ResponseOfferSnapshot{Result: r.offer}, nil
}
func (a *c14App) ApplySnapshotChunkSync(req abci.RequestApplySnapshotChunk) (*abci.ResponseApplySnapshotChunk, error) {
	r := a.g.call(&c14Call{kind: "apply", apply: req})
	if r.fail != nil {
		return nil, r.fail
	}
	return &abci.ResponseApplySnapshotChunk{Result: r.apply, RefetchChunks: r.rf, RejectSenders: r.rs}, nil
}
func (a *c14App) EchoSync(string) (*abci.ResponseEcho, error) { return &abci.ResponseEcho{}, nil }
func (a *c14App) QuerySync(abci.RequestQuery) (*abci.ResponseQuery, error) {
	return &abci.ResponseQuery{}, nil
}
func (a *c14App) InfoSync(abci.RequestInfo) (*abci.ResponseInfo, error) {
	r := a.g.call(&c14Call{kind: "verify"})
	if r.fail != nil {
		return nil, r.fail
	}
	info := r.info
	return &info, nil
}

type c14SP struct{ g *c14Gate }

func (s *c14SP) AppHash(ctx context.Context, height uint64) ([]byte, error) {
	r := s.g.call(&c14Call{kind: "apphash", h: height})
	return r.hash, r.fail
}
func (s *c14SP) Commit(ctx context.Context, height uint64) (*types.Commit, error) {
	r := s.g.call(&c14Call{kind: "commit", h: height})
	return r.commit, r.fail
}
func (s *c14SP) State(ctx context.Context, height uint64) (sm.State, error) {
	r := s.g.call(&c14Call{kind: "state", h: height})
	return r.state, r.fail
}

var c14ErrProvider = errors.New("c14: provider could not verify")
var c14ErrConn = errors.New("c14: app connection error")

// ---------------------------------------------------------------- peers

type c14Peer struct {
	p2p.Peer // nil: every method the syncer does not use panics
	id       p2p.ID
	onSend   func(p *c14Peer, e p2p.Envelope)
}

func (p *c14Peer) ID() p2p.ID      { return p.id }
func (p *c14Peer) String() string  { return string(p.id) }
func (p *c14Peer) IsRunning() bool { return true }
func (p *c14Peer) SendEnvelope(e p2p.Envelope) bool {
	if p.onSend != nil {
		p.onSend(p, e)
	}
	return true
}
func (p *c14Peer) TrySendEnvelope(e p2p.Envelope) bool { return p.SendEnvelope(e) }

// ---------------------------------------------------------------- projection

func c14ProjectPool(p *snapshotPool) (pool []map[string]interface{}, bl map[string]interface{}) {
	p.Lock()
	defer p.Unlock()
	type ent struct {
		s     c14Snap
		peers []string
	}
	var es []ent
	for key, s := range p.snapshots {
		e := ent{s: c14AbsSnap(s)}
		for id := range p.snapshotPeers[key] {
			e.peers = append(e.peers, string(id))
		}
		sort.Strings(e.peers)
		es = append(es, e)
	}
	sort.Slice(es, func(i, j int) bool { return es[i].s.key() < es[j].s.key() })
	pool = []map[string]interface{}{}
	for _, e := range es {
		if e.peers == nil {
			e.peers = []string{}
		}
		pool = append(pool, map[string]interface{}{"s": e.s, "peers": e.peers})
	}
	fm := []int{}
	for f, ok := range p.formatBlacklist {
		if ok {
			fm = append(fm, int(f))
		}
	}
	sort.Ints(fm)
	pe := []string{}
	for id, ok := range p.peerBlacklist {
		if ok {
			pe = append(pe, string(id))
		}
	}
	sort.Strings(pe)
	// snapshot keys are hashes: report how many, and resolve them against the universe
	// the caller knows (done in c14Run.project)
	bl = map[string]interface{}{"fmt": fm, "peer": pe}
	return pool, bl
}

func c14ProjectQueue(q *chunkQueue) map[string]interface{} {
	if q == nil {
		return map[string]interface{}{"open": false, "n": 0, "e": []interface{}{}, "rej": []string{}}
	}
	q.Lock()
	defer q.Unlock()
	if q.snapshot == nil {
		return map[string]interface{}{"open": false, "n": 0, "e": []interface{}{}, "rej": []string{}}
	}
	// the repaired queue remembers discarded senders; read by reflection so that the harness
	// also compiles against a tree without that field
	rej := []string{}
	if f := reflect.ValueOf(q).Elem().FieldByName("rejected"); f.IsValid() && f.Kind() == reflect.Map {
		for _, k := range f.MapKeys() {
			if f.MapIndex(k).Kind() != reflect.Bool || f.MapIndex(k).Bool() {
				rej = append(rej, k.String())
			}
		}
	}
	sort.Strings(rej)
	n := int(q.snapshot.Chunks)
	es := make([]interface{}, 0, n)
	for i := 0; i < n; i++ {
		b, s := "nil", "nil"
		if path := q.chunkFiles[uint32(i)]; path != "" {
			body, err := os.ReadFile(path)
			if err != nil {
				b = "unreadable"
			} else {
				b = string(body)
			}
			s = string(q.chunkSenders[uint32(i)])
			if s == "" {
				s = "nil"
			}
		}
		es = append(es, map[string]interface{}{"b": b, "s": s, "alloc": q.chunkAllocated[uint32(i)], "ret": q.chunkReturned[uint32(i)]})
	}
	return map[string]interface{}{"open": true, "n": n, "e": es, "rej": rej}
}

func c14Waiters(q *chunkQueue) int {
	if q == nil {
		return 0
	}
	q.Lock()
	defer q.Unlock()
	n := 0
	for _, ws := range q.waiters {
		n += len(ws)
	}
	return n
}

// ---------------------------------------------------------------- mode D run

type c14End struct {
	state  sm.State
	commit *types.Commit
	err    error
}

type c14Run struct {
	t       *testing.T
	id      int
	rows    []map[string]interface{}
	sy      *syncer
	gate    *c14Gate
	peers   map[string]*c14Peer
	known   map[snapshotKey]c14Snap // every snapshot ever advertised (to name blacklist keys)
	endc    chan c14End
	started bool
	ended   bool
	end     c14End
	pending *c14Call
	waiting bool
	reqs    []map[string]interface{} // chunk requests seen by peers since the last event
	reqMtx  sync.Mutex
	alloc   map[int]bool // indices the driver (as fetcher) is responsible for
	skipped int
	tmp     string
}

func c14Cfg(fetchers int32, retry time.Duration) config.StateSyncConfig {
	cfg := *config.DefaultStateSyncConfig()
	cfg.ChunkFetchers = fetchers
	cfg.ChunkRequestTimeout = retry
	return cfg
}

func newC14Run(t *testing.T, id int, tmp string) *c14Run {
	r := &c14Run{t: t, id: id, peers: map[string]*c14Peer{}, known: map[snapshotKey]c14Snap{},
		endc: make(chan c14End, 1), alloc: map[int]bool{}, tmp: tmp}
	r.gate = &c14Gate{calls: make(chan *c14Call, 4)}
	r.sy = newSyncer(c14Cfg(0, time.Hour), log.NewNopLogger(), &c14App{r.gate}, &c14App{r.gate}, &c14SP{r.gate}, tmp)
	return r
}

func (r *c14Run) peer(id string) *c14Peer {
	if p, ok := r.peers[id]; ok {
		return p
	}
	p := &c14Peer{id: p2p.ID(id), onSend: func(p *c14Peer, e p2p.Envelope) {
		if m, ok := e.Message.(*ssproto.ChunkRequest); ok && e.ChannelID == ChunkChannel {
			r.reqMtx.Lock()
			r.reqs = append(r.reqs, map[string]interface{}{"p": string(p.id), "i": int(m.Index), "h": int(m.Height), "f": int(m.Format)})
			r.reqMtx.Unlock()
		}
	}}
	r.peers[id] = p
	return p
}

func (r *c14Run) queue() *chunkQueue {
	r.sy.mtx.RLock()
	defer r.sy.mtx.RUnlock()
	return r.sy.chunks
}

// settle waits until the applier is blocked again: in a gate, in Next() waiting for a
// chunk, or returned.  With no fetcher goroutines the applier is the only WaitFor caller.
func (r *c14Run) settle() {
	if !r.started || r.ended || r.pending != nil {
		return
	}
	r.waiting = false
	w0 := -1
	deadline := time.Now().Add(120 * time.Second)
	for spin := 0; ; spin++ {
		select {
		case c := <-r.gate.calls:
			r.pending = c
			return
		case e := <-r.endc:
			r.ended, r.end = true, e
			return
		default:
		}
		if r.pending == nil {
			if q := r.queue(); q != nil {
				if w := c14Waiters(q); w > 0 {
					// make sure it is stable (the applier registered and is parked)
					if w0 == w {
						r.waiting = true
						return
					}
					w0 = w
				}
			}
		}
		if time.Now().After(deadline) {
			buf := make([]byte, 1<<20)
			buf = buf[:runtime.Stack(buf, true)]
			_ = os.WriteFile(os.Getenv("VERIF_OUT")+"/stuck.txt", buf, 0o644)
			panic(fmt.Sprintf("c14: run %d: applier did not settle (pending=%v waiting=%v started=%v); goroutines in stuck.txt",
				r.id, r.pending != nil, r.waiting, r.started))
		}
		if spin < 50 {
			runtime.Gosched()
		} else {
			time.Sleep(50 * time.Microsecond)
		}
	}
}

func (r *c14Run) pc() string {
	switch {
	case !r.started:
		return "init"
	case r.ended:
		return "end"
	case r.pending != nil:
		return r.pending.kind
	case r.waiting:
		return "wait"
	}
	return "?"
}

func (r *c14Run) project() map[string]interface{} {
	pool, bl := c14ProjectPool(r.sy.snapshots)
	// name the blacklisted snapshot keys
	r.sy.snapshots.Lock()
	sn := []c14Snap{}
	for key, ok := range r.sy.snapshots.snapshotBlacklist {
		if ok {
			if s, known := r.known[key]; known {
				sn = append(sn, s)
			} else {
				sn = append(sn, c14Snap{H: -1, Hash: "unknown", Meta: "unknown"})
			}
		}
	}
	r.sy.snapshots.Unlock()
	sort.Slice(sn, func(i, j int) bool { return sn[i].key() < sn[j].key() })
	bl["snap"] = sn
	q := r.queue()
	cur := c14NoSnap
	if q != nil {
		q.Lock()
		cur = c14AbsSnap(q.snapshot)
		q.Unlock()
	}
	return map[string]interface{}{"pc": r.pc(), "active": q != nil, "cur": cur, "pool": pool, "bl": bl, "q": c14ProjectQueue(q)}
}

func (r *c14Run) emit(ev string, kv map[string]interface{}) {
	row := map[string]interface{}{"ev": ev, "run": r.id, "mode": "D"}
	for k, v := range kv {
		row[k] = v
	}
	r.reqMtx.Lock()
	reqs := r.reqs
	r.reqs = nil
	r.reqMtx.Unlock()
	if reqs == nil {
		reqs = []map[string]interface{}{}
	}
	row["reqs"] = reqs
	row["post"] = r.project()
	r.rows = append(r.rows, row)
}

func c14Ints(xs []int) []int {
	if xs == nil {
		return []int{}
	}
	return xs
}
func c14Strs(xs []string) []string {
	if xs == nil {
		return []string{}
	}
	return xs
}

var c14OfferResults = map[string]abci.ResponseOfferSnapshot_Result{
	"accept": abci.ResponseOfferSnapshot_ACCEPT, "abort": abci.ResponseOfferSnapshot_ABORT,
	"reject": abci.ResponseOfferSnapshot_REJECT, "reject_format": abci.ResponseOfferSnapshot_REJECT_FORMAT,
	"reject_sender": abci.ResponseOfferSnapshot_REJECT_SENDER,
}
var c14ApplyResults = map[string]abci.ResponseApplySnapshotChunk_Result{
	"accept": abci.ResponseApplySnapshotChunk_ACCEPT, "abort": abci.ResponseApplySnapshotChunk_ABORT,
	"retry": abci.ResponseApplySnapshotChunk_RETRY, "retry_snapshot": abci.ResponseApplySnapshotChunk_RETRY_SNAPSHOT,
	"reject_snapshot": abci.ResponseApplySnapshotChunk_REJECT_SNAPSHOT,
}

// the current snapshot as the applier sees it (the queue's snapshot)
func (r *c14Run) cur() c14Snap {
	if q := r.queue(); q != nil {
		q.Lock()
		defer q.Unlock()
		return c14AbsSnap(q.snapshot)
	}
	return c14NoSnap
}

// step executes one schedule step; false = the step does not apply to the real run's state
func (r *c14Run) step(st c14Step) bool {
	switch st.Op {
	case "AddSnapshot":
		if r.ended {
			return false
		}
		rs := st.S.real()
		r.known[rs.Key()] = *st.S
		added, err := r.sy.AddSnapshot(r.peer(st.P), rs)
		r.emit("AddSnapshot", map[string]interface{}{"p": st.P, "s": *st.S, "added": added, "err": err != nil})
	case "RemovePeer":
		if r.ended {
			return false
		}
		r.sy.RemovePeer(r.peer(st.P))
		r.emit("RemovePeer", map[string]interface{}{"p": st.P})
	case "Start":
		if r.started {
			return false
		}
		r.started = true
		go func() {
			s, c, err := r.sy.SyncAny(0, func() {})
			r.endc <- c14End{s, c, err}
		}()
		r.settle()
		r.emit("Start", nil)
		r.emitEnd()
	case "Arrive":
		if !r.started || r.ended {
			return false
		}
		cur := r.cur()
		c := &chunk{Height: uint64(cur.H), Format: uint32(cur.F), Index: uint32(st.I), Chunk: []byte(st.B), Sender: p2p.ID(st.P)}
		switch st.Kind {
		case "wrongsnap":
			c.Height += 7
		case "oob":
			c.Index = uint32(cur.N)
		}
		added, err := r.sy.AddChunk(c)
		res := "ignored"
		switch {
		case err != nil && strings.Contains(err.Error(), "no state sync in progress"):
			res = "nosync"
		case err != nil:
			res = "err"
		case added:
			res = "added"
			delete(r.alloc, int(c.Index))
		}
		r.settle()
		r.emit("Arrive", map[string]interface{}{"p": st.P, "i": int(c.Index), "b": st.B, "kind": st.Kind, "res": res, "s": cur})
		r.emitEnd()
	case "Provider":
		if r.pending == nil || (r.pending.kind != "apphash" && r.pending.kind != "state" && r.pending.kind != "commit") {
			return false
		}
		if st.Which != "" && st.Which != r.pending.kind {
			return false
		}
		c := r.pending
		cur := r.cur()
		var rep c14Reply
		switch st.Ans {
		case "ok":
			rep = c14Reply{hash: c14TAppHash(c.h), state: c14TState(c.h), commit: c14TCommit(c.h)}
		case "nowit":
			rep = c14Reply{fail: light.ErrNoWitnesses}
		default:
			rep = c14Reply{fail: c14ErrProvider}
		}
		r.pending = nil
		c.reply <- rep
		r.settle()
		r.emit("Provider", map[string]interface{}{"which": c.kind, "h": int(c.h), "ans": st.Ans, "s": cur})
		r.emitEnd()
	case "Offer":
		if r.pending == nil || r.pending.kind != "offer" {
			return false
		}
		c := r.pending
		rep := c14Reply{}
		if st.V == "error" {
			rep.fail = c14ErrConn
		} else {
			rep.offer = c14OfferResults[st.V]
		}
		off := c14NoSnap
		if c.offer.Snapshot != nil {
			x := c.offer.Snapshot
			off = c14Snap{H: int(x.Height), F: int(x.Format), N: int(x.Chunks), Hash: c14Str(x.Hash), Meta: c14Str(x.Metadata)}
		}
		r.pending = nil
		c.reply <- rep
		r.settle()
		r.emit("Offer", map[string]interface{}{"s": off, "apphash": c14Str(c.offer.AppHash), "v": st.V})
		r.emitEnd()
	case "Apply":
		if r.pending == nil || r.pending.kind != "apply" {
			return false
		}
		c := r.pending
		cur := r.cur()
		rep := c14Reply{}
		if st.V == "error" {
			rep.fail = c14ErrConn
		} else {
			rep.apply = c14ApplyResults[st.V]
			for _, j := range st.Rf {
				rep.rf = append(rep.rf, uint32(j))
			}
			rep.rs = st.Rs
		}
		r.pending = nil
		c.reply <- rep
		r.settle()
		snd := c.apply.Sender
		if snd == "" {
			snd = "nil"
		}
		r.emit("Apply", map[string]interface{}{"i": int(c.apply.Index), "b": c14Str(c.apply.Chunk), "sender": snd,
			"v": st.V, "rf": c14Ints(st.Rf), "rs": c14Strs(st.Rs), "s": cur})
		r.emitEnd()
	case "Info":
		if r.pending == nil || r.pending.kind != "verify" {
			return false
		}
		c := r.pending
		cur := r.cur()
		rep := c14Reply{info: abci.ResponseInfo{LastBlockAppHash: []byte(st.Info.Hash), LastBlockHeight: int64(st.Info.Height),
			AppVersion: uint64(st.Info.Ver)}}
		r.pending = nil
		c.reply <- rep
		r.settle()
		r.emit("Info", map[string]interface{}{"ans": *st.Info, "s": cur})
		r.emitEnd()
	case "Timeout":
		if !r.waiting || chunkTimeout > 5*time.Second {
			return false
		}
		cur := r.cur()
		// wait for time.After(chunkTimeout) in Next to fire: the applier leaves the wait
		q := r.queue()
		deadline := time.Now().Add(chunkTimeout*4 + 10*time.Second)
		for r.queue() == q && time.Now().Before(deadline) {
			time.Sleep(2 * time.Millisecond)
		}
		r.waiting = false
		r.settle()
		r.emit("Timeout", map[string]interface{}{"s": cur})
		r.emitEnd()
	case "FetcherAllocate":
		q := r.queue()
		if q == nil || r.ended {
			return false
		}
		i, err := q.Allocate()
		idx := -1
		if err == nil {
			idx = int(i)
			r.alloc[idx] = true
		}
		r.emit("FetcherAllocate", map[string]interface{}{"i": idx})
	case "Request":
		// a fetcher's requestChunk for index I; GetPeer is random: repeat until peer P was asked
		q := r.queue()
		if q == nil || r.ended {
			return false
		}
		q.Lock()
		snap := q.snapshot
		q.Unlock()
		if snap == nil {
			return false
		}
		for k := 0; k < 16; k++ {
			r.sy.requestChunk(snap, uint32(st.I))
			r.reqMtx.Lock()
			hit := false
			for _, x := range r.reqs {
				if x["p"] == st.P {
					hit = true
				}
			}
			r.reqMtx.Unlock()
			if hit {
				break
			}
		}
		r.emit("Requests", map[string]interface{}{"s": c14AbsSnap(snap)})
	default:
		r.t.Fatalf("c14: unknown step %q", st.Op)
	}
	return true
}

// the driver as the fetchers' request side: requestChunk for every index it is responsible for
func (r *c14Run) requests() {
	q := r.queue()
	if q == nil || r.ended || len(r.alloc) == 0 {
		return
	}
	q.Lock()
	snap := q.snapshot
	q.Unlock()
	if snap == nil {
		return
	}
	idx := []int{}
	for i := range r.alloc {
		idx = append(idx, i)
	}
	sort.Ints(idx)
	did := false
	for _, i := range idx {
		if !q.Has(uint32(i)) {
			for k := 0; k < 3; k++ { // GetPeer picks a random peer: ask a few times
				r.sy.requestChunk(snap, uint32(i))
			}
			did = true
		}
	}
	if did {
		r.emit("Requests", map[string]interface{}{"s": c14AbsSnap(snap)})
	}
}

func (r *c14Run) emitEnd() {
	if !r.ended || r.end.err == errC14Reported {
		return
	}
	kind := "fatal"
	switch {
	case r.end.err == nil:
		kind = "done"
	case errors.Is(r.end.err, errNoSnapshots):
		kind = "nosnapshots"
	case errors.Is(r.end.err, errAbort):
		kind = "abort"
	}
	r.emit("End", map[string]interface{}{"kind": kind, "st": c14AbsState(r.end.state), "cm": c14AbsCommit(r.end.commit)})
	r.end.err = errC14Reported
	r.alloc = map[int]bool{}
}

var errC14Reported = errors.New("reported")

// finish drives the run to its end with ordinary (logged) environment choices: pending calls
// are answered with errors, a waiting applier times out.  Only when the chunk timeout of the
// tree is long the queue is closed behind the applier's back, and logging stops there.
func (r *c14Run) finish() {
	if !r.started {
		return
	}
	deadline := time.Now().Add(90 * time.Second)
	logged := true
	fin := 0
	for !r.ended {
		if time.Now().After(deadline) {
			panic(fmt.Sprintf("c14: run %d: teardown failed", r.id))
		}
		switch {
		case r.pending != nil && logged:
			switch r.pending.kind {
			case "apphash", "state", "commit":
				r.step(c14Step{Op: "Provider", Ans: "nowit"})
			case "offer":
				r.step(c14Step{Op: "Offer", V: "error"})
			case "apply":
				r.step(c14Step{Op: "Apply", V: "error"})
			default:
				r.step(c14Step{Op: "Info", Info: &c14Info{Hash: "X:other", Height: 0, Ver: 0}})
			}
		case r.pending != nil:
			c := r.pending
			r.pending = nil
			if c.kind == "apphash" || c.kind == "state" || c.kind == "commit" {
				c.reply <- c14Reply{fail: light.ErrNoWitnesses}
			} else {
				c.reply <- c14Reply{fail: c14ErrConn}
			}
			r.settle()
		case r.waiting && logged:
			// hand the applier the chunk it waits for (from a peer nobody rejected)
			idx := -1
			if q := r.queue(); q != nil {
				q.Lock()
				for i := uint32(0); q.snapshot != nil && i < q.snapshot.Chunks; i++ {
					if q.chunkFiles[i] == "" && q.chunkReturned[i] {
						idx = int(i)
						break
					}
				}
				q.Unlock()
			}
			fin++
			if idx < 0 || fin > 8 || !r.step(c14Step{Op: "Arrive", P: "pZ", I: idx, B: fmt.Sprintf("z%d", fin), Kind: "ok"}) {
				logged = false
			}
		case r.waiting:
			logged = false
			if q := r.queue(); q != nil {
				_ = q.Close()
			}
			r.waiting = false
			r.settle()
		default:
			r.settle()
		}
	}
}

var c14SkipMtx sync.Mutex
var c14Skips = map[string]int{}
var c14SkipEx []string
var c14SkipIDs []string

func c14RunSched(t *testing.T, w *c14Writer, id int, tmp string, s c14Sched) (skipped int) {
	r := newC14Run(t, id, tmp)
	r.rows = append(r.rows, map[string]interface{}{"ev": "Reset", "run": id, "mode": "D", "sched": s.ID})
	for k, st := range s.Steps {
		if !r.step(st) {
			skipped = len(s.Steps) - k
			c14SkipMtx.Lock()
			c14Skips[st.Op+"@"+r.pc()]++
			c14SkipIDs = append(c14SkipIDs, s.ID)
			if len(c14SkipEx) < 12 && st.Op != "FetcherAllocate" {
				js, _ := json.Marshal(s)
				c14SkipEx = append(c14SkipEx, fmt.Sprintf("step %d of %s", k, js))
			}
			c14SkipMtx.Unlock()
			break
		}
		r.requests()
	}
	r.finish()
	w.flush(r.rows)
	return skipped
}

// ---------------------------------------------------------------- mode D: seeded adaptive random driver

func c14RandomSched(t *testing.T, w *c14Writer, id int, tmp string, rng *rand.Rand) {
	r := newC14Run(t, id, tmp)
	r.rows = append(r.rows, map[string]interface{}{"ev": "Reset", "run": id, "mode": "D", "sched": "random"})
	npeers := 2 + rng.Intn(3)
	peers := []string{}
	for i := 0; i < npeers; i++ {
		peers = append(peers, "p"+string(rune('A'+i)))
	}
	// snapshot universe: a few heights / formats / twins with other hashes
	var snaps []c14Snap
	nsn := 2 + rng.Intn(3)
	for i := 0; i < nsn; i++ {
		snaps = append(snaps, c14Snap{H: 1 + rng.Intn(3), F: 1 + rng.Intn(2), N: 1 + rng.Intn(4),
			Hash: "P:hash" + string(rune('A'+rng.Intn(3))), Meta: "P:meta" + string(rune('A'+rng.Intn(2)))})
	}
	inst := 0
	bad := 1 + rng.Intn(5) // budget of non-accept answers
	useBad := func() bool {
		if bad > 0 && rng.Intn(3) == 0 {
			bad--
			return true
		}
		return false
	}
	pick := func(xs []string) string { return xs[rng.Intn(len(xs))] }
	// initial advertisements
	for k := 0; k < 1+rng.Intn(4); k++ {
		s := snaps[rng.Intn(len(snaps))]
		r.step(c14Step{Op: "AddSnapshot", P: pick(peers), S: &s})
	}
	if rng.Intn(10) == 0 { // recentSnapshots cap
		for k := 0; k < 12; k++ {
			s := c14Snap{H: 1 + k, F: 1, N: 1, Hash: "P:cap", Meta: "P:cap"}
			r.step(c14Step{Op: "AddSnapshot", P: peers[0], S: &s})
		}
	}
	r.step(c14Step{Op: "Start"})
	var banned []string // peers the app rejected so far
	comeback := func() {
		// the switch reports the disconnect of a rejected peer; it reconnects and advertises again
		// (possibly a better snapshot than anything seen so far)
		if len(banned) == 0 || r.ended {
			return
		}
		p := banned[rng.Intn(len(banned))]
		r.step(c14Step{Op: "RemovePeer", P: p})
		s := snaps[rng.Intn(len(snaps))]
		if rng.Intn(2) == 0 {
			s = c14Snap{H: 4 + rng.Intn(2), F: 1 + rng.Intn(2), N: 1 + rng.Intn(3), Hash: "P:hashZ", Meta: "P:metaZ"}
		}
		r.step(c14Step{Op: "AddSnapshot", P: p, S: &s})
	}
	for steps := 0; steps < 80 && !r.ended; steps++ {
		if len(banned) > 0 && rng.Intn(4) == 0 {
			comeback()
		}
		// environment noise
		switch rng.Intn(12) {
		case 0:
			s := snaps[rng.Intn(len(snaps))]
			r.step(c14Step{Op: "AddSnapshot", P: pick(peers), S: &s})
		case 1:
			r.step(c14Step{Op: "RemovePeer", P: pick(peers)})
		case 2, 3:
			r.step(c14Step{Op: "FetcherAllocate"})
			r.requests()
		case 4, 5:
			cur := r.cur()
			if cur.N > 0 {
				inst++
				kind := "ok"
				if rng.Intn(8) == 0 {
					kind = pick([]string{"wrongsnap", "oob"})
				}
				r.step(c14Step{Op: "Arrive", P: pick(peers), I: rng.Intn(cur.N), B: fmt.Sprintf("c%d", inst), Kind: kind})
			}
		}
		if r.ended {
			break
		}
		switch r.pc() {
		case "apphash", "state", "commit":
			ans := "ok"
			if useBad() {
				ans = pick([]string{"fail", "fail", "nowit"})
			}
			r.step(c14Step{Op: "Provider", Ans: ans})
		case "offer":
			v := "accept"
			if useBad() {
				v = pick([]string{"abort", "reject", "reject_format", "reject_sender", "error", "reject", "reject_sender"})
			}
			if v == "reject_sender" {
				for _, pr := range r.sy.snapshots.GetPeers(r.cur().real()) {
					banned = append(banned, string(pr.ID()))
				}
			}
			r.step(c14Step{Op: "Offer", V: v})
		case "apply":
			st := c14Step{Op: "Apply", V: "accept"}
			if useBad() {
				st.V = pick([]string{"retry", "retry_snapshot", "reject_snapshot", "abort", "accept", "retry", "retry_snapshot", "error"})
				cur := r.cur()
				if rng.Intn(2) == 0 && cur.N > 0 {
					st.Rf = []int{rng.Intn(cur.N)}
					if rng.Intn(3) == 0 {
						st.Rf = append(st.Rf, rng.Intn(cur.N))
					}
				}
				if rng.Intn(2) == 0 {
					st.Rs = []string{pick(peers)}
					if rng.Intn(4) == 0 {
						st.Rs = append(st.Rs, r.pending.apply.Sender)
					}
				}
			}
			for _, x := range st.Rs {
				if x != "" {
					banned = append(banned, x)
				}
			}
			r.step(st)
		case "verify":
			cur := r.cur()
			in := c14Info{Hash: string(c14TAppHash(uint64(cur.H))), Height: cur.H, Ver: int(c14AppVer(uint64(cur.H)))}
			if useBad() {
				switch rng.Intn(4) {
				case 0:
					in.Hash = cur.Hash
				case 1:
					in.Hash = "X:other"
				case 2:
					in.Height++
				case 3:
					in.Ver++
				}
			}
			r.step(c14Step{Op: "Info", Info: &in})
		case "wait":
			cur := r.cur()
			if chunkTimeout <= 5*time.Second && rng.Intn(25) == 0 {
				r.step(c14Step{Op: "Timeout"})
			} else if cur.N > 0 {
				// deliver the awaited chunk, or something else
				q := r.queue()
				idx := 0
				if q != nil {
					q.Lock()
					if i, err := q.nextUp(); err == nil {
						idx = int(i)
					}
					q.Unlock()
				}
				if rng.Intn(4) == 0 {
					idx = rng.Intn(cur.N)
				}
				inst++
				r.step(c14Step{Op: "Arrive", P: pick(peers), I: idx, B: fmt.Sprintf("c%d", inst), Kind: "ok"})
			}
		}
		r.requests()
	}
	r.finish()
	w.flush(r.rows)
}

// ---------------------------------------------------------------- entry point

func TestVerifC14(t *testing.T) {
	inPath, outDir := os.Getenv("VERIF_IN"), os.Getenv("VERIF_OUT")
	if inPath == "" || outDir == "" {
		t.Skip("VERIF_IN / VERIF_OUT not set")
	}
	seed, _ := strconv.ParseInt(os.Getenv("VERIF_SEED"), 10, 64)
	raw, err := os.ReadFile(inPath)
	if err != nil {
		t.Fatal(err)
	}
	var in c14Input
	if err := json.Unmarshal(raw, &in); err != nil {
		t.Fatal(err)
	}
	tmp, err := os.MkdirTemp("", "c14")
	if err != nil {
		t.Fatal(err)
	}
	defer os.RemoveAll(tmp)
	par := in.Par
	if par <= 0 {
		par = 8
	}

	w := newC14Writer(outDir + "/d.ndjson")
	type job struct {
		id    int
		sched *c14Sched
		seed  int64
	}
	jobs := make(chan job)
	var wg sync.WaitGroup
	var smtx sync.Mutex
	skippedRuns, skippedSteps := 0, 0
	for k := 0; k < par; k++ {
		wg.Add(1)
		go func() {
			defer wg.Done()
			for j := range jobs {
				if j.sched != nil {
					if sk := c14RunSched(t, w, j.id, tmp, *j.sched); sk > 0 {
						smtx.Lock()
						skippedRuns++
						skippedSteps += sk
						smtx.Unlock()
					}
				} else {
					c14RandomSched(t, w, j.id, tmp, rand.New(rand.NewSource(j.seed)))
				}
			}
		}()
	}
	id := 0
	for i := range in.Scheds {
		id++
		jobs <- job{id: id, sched: &in.Scheds[i]}
	}
	for k := 0; k < in.RandomD; k++ {
		id++
		jobs <- job{id: id, seed: seed*1000003 + int64(k)}
	}
	close(jobs)
	wg.Wait()
	w.f.Close()

	wf := newC14Writer(outDir + "/f.ndjson")
	fjobs := make(chan job)
	for k := 0; k < par*2; k++ {
		wg.Add(1)
		go func() {
			defer wg.Done()
			for j := range fjobs {
				c14RunFree(t, wf, j.id, tmp, rand.New(rand.NewSource(j.seed)))
			}
		}()
	}
	for k := 0; k < in.FreeF; k++ {
		id++
		fjobs <- job{id: id, seed: seed*7919 + int64(k)}
	}
	close(fjobs)
	wg.Wait()
	wf.f.Close()

	sum := map[string]interface{}{"d_events": w.n, "f_events": wf.n, "skipped_runs": skippedRuns, "skipped_steps": skippedSteps, "skips": c14Skips, "skip_examples": c14SkipEx, "skipped_ids": c14SkipIDs,
		"chunk_timeout_ms": int(chunkTimeout / time.Millisecond)}
	b, _ := json.Marshal(sum)
	if err := os.WriteFile(outDir+"/summary.json", b, 0o644); err != nil {
		t.Fatal(err)
	}
	t.Logf("C14 harness: %s", b)
}

// ---------------------------------------------------------------- mode F: free running fetchers

func c14Gid() int {
	var buf [64]byte
	n := runtime.Stack(buf[:], false)
	// "goroutine 123 [running]:..."
	f := strings.Fields(string(buf[:n]))
	if len(f) < 2 {
		return -1
	}
	id, _ := strconv.Atoi(f[1])
	return id
}

type c14FreeRun struct {
	id    int
	mtx   sync.Mutex
	rows  []map[string]interface{}
	sy    *syncer
	rng   *rand.Rand // guarded by mtx
	bad   int
	refs  int
	inst  int
	abort bool
	banned []string // senders the app rejected (guarded by mtx)
	gids  map[int]int
	wg    sync.WaitGroup
}

func (r *c14FreeRun) emit(ev string, kv map[string]interface{}) {
	row := map[string]interface{}{"ev": ev, "run": r.id, "mode": "F"}
	for k, v := range kv {
		row[k] = v
	}
	r.rows = append(r.rows, row)
}

// small stable goroutine names (ids are assigned by first appearance)
func (r *c14FreeRun) gname() string {
	g := c14Gid()
	if _, ok := r.gids[g]; !ok {
		r.gids[g] = len(r.gids) + 1
	}
	return "g" + strconv.Itoa(r.gids[g])
}

// the syncer's logger as an observation point inside the fetcher goroutines
type c14Logger struct{ r *c14FreeRun }

func (l *c14Logger) Debug(msg string, kv ...interface{}) {}
func (l *c14Logger) Error(msg string, kv ...interface{}) {}
func (l *c14Logger) With(kv ...interface{}) log.Logger  { return l }
func (l *c14Logger) Info(msg string, kv ...interface{}) {
	if msg != "Fetching snapshot chunk" {
		return
	}
	idx := -1
	for k := 0; k+1 < len(kv); k += 2 {
		if kv[k] == "chunk" {
			if u, ok := kv[k+1].(uint32); ok {
				idx = int(u)
			}
		}
	}
	// the pool's own peer blacklist, read under the pool mutex BEFORE this fetcher chooses a peer
	// (requestChunk -> GetPeer follows this log call in program order)
	bl := []string{}
	pool := l.r.sy.snapshots
	pool.Lock()
	for id, ok := range pool.peerBlacklist {
		if ok {
			bl = append(bl, string(id))
		}
	}
	pool.Unlock()
	sort.Strings(bl)
	l.r.mtx.Lock()
	l.r.emit("Fetch", map[string]interface{}{"g": l.r.gname(), "i": idx, "bl": bl})
	l.r.mtx.Unlock()
}

func (r *c14FreeRun) curSnap() c14Snap {
	r.sy.mtx.RLock()
	q := r.sy.chunks
	r.sy.mtx.RUnlock()
	if q == nil {
		return c14NoSnap
	}
	q.Lock()
	defer q.Unlock()
	return c14AbsSnap(q.snapshot)
}

// deliver one chunk instance: intent logged before, result after
func (r *c14FreeRun) deliver(p string, h, f, i int) {
	r.mtx.Lock()
	r.inst++
	x := r.inst
	b := fmt.Sprintf("i%d#%d", i, x)
	r.emit("ChunkSend", map[string]interface{}{"x": x, "p": p, "i": i, "b": b, "h": h, "f": f})
	r.mtx.Unlock()
	added, err := r.sy.AddChunk(&chunk{Height: uint64(h), Format: uint32(f), Index: uint32(i), Chunk: []byte(b), Sender: p2p.ID(p)})
	res := "ignored"
	switch {
	case err != nil && strings.Contains(err.Error(), "no state sync in progress"):
		res = "nosync"
	case err != nil:
		res = "err"
	case added:
		res = "added"
	}
	r.mtx.Lock()
	r.emit("ChunkAdded", map[string]interface{}{"x": x, "res": res})
	r.mtx.Unlock()
}

func c14RunFree(t *testing.T, w *c14Writer, id int, tmp string, rng *rand.Rand) {
	r := &c14FreeRun{id: id, rng: rng, gids: map[int]int{}}
	r.rows = append(r.rows, map[string]interface{}{"ev": "Reset", "run": id, "mode": "F", "sched": "free"})
	r.bad = rng.Intn(5)
	r.refs = 1
	pick := func(xs []string) string { return xs[r.rng.Intn(len(xs))] }

	auto := func(c *c14Call) c14Reply {
		r.mtx.Lock()
		defer r.mtx.Unlock()
		cur := c14NoSnap
		if q := r.sy.chunks; q != nil { // the applier itself is the caller: s.chunks is stable here
			cur = c14AbsSnap(q.snapshot)
		}
		useBad := func() bool {
			if !r.abort && r.bad > 0 && r.rng.Intn(3) == 0 {
				r.bad--
				return true
			}
			return false
		}
		switch c.kind {
		case "apphash", "state", "commit":
			ans := "ok"
			if r.abort {
				ans = "nowit"
			} else if useBad() {
				ans = "fail"
			}
			r.emit("Provider", map[string]interface{}{"which": c.kind, "h": int(c.h), "ans": ans, "s": cur})
			switch ans {
			case "ok":
				return c14Reply{hash: c14TAppHash(c.h), state: c14TState(c.h), commit: c14TCommit(c.h)}
			case "nowit":
				return c14Reply{fail: light.ErrNoWitnesses}
			}
			return c14Reply{fail: c14ErrProvider}
		case "offer":
			v := "accept"
			if r.abort {
				v = "abort"
			} else if useBad() {
				v = pick([]string{"reject", "reject_format", "reject_sender", "reject"})
			}
			off := c14NoSnap
			if x := c.offer.Snapshot; x != nil {
				off = c14Snap{H: int(x.Height), F: int(x.Format), N: int(x.Chunks), Hash: c14Str(x.Hash), Meta: c14Str(x.Metadata)}
			}
			r.emit("Offer", map[string]interface{}{"s": off, "apphash": c14Str(c.offer.AppHash), "v": v})
			return c14Reply{offer: c14OfferResults[v]}
		case "apply":
			v := "accept"
			var rf []int
			var rs []string
			if r.abort {
				v = "abort"
			} else if useBad() {
				v = pick([]string{"retry", "retry_snapshot", "accept", "reject_snapshot", "retry", "accept"})
				if r.refs > 0 && r.rng.Intn(2) == 0 && cur.N > 0 {
					r.refs--
					rf = []int{r.rng.Intn(cur.N)}
				}
				if r.rng.Intn(2) == 0 {
					rs = []string{pick([]string{"pA", "pB", "pC", c.apply.Sender})}
					if rs[0] != "" {
						r.banned = append(r.banned, rs[0])
					}
				}
			}
			snd := c.apply.Sender
			if snd == "" {
				snd = "nil"
			}
			r.emit("Apply", map[string]interface{}{"i": int(c.apply.Index), "b": c14Str(c.apply.Chunk), "sender": snd,
				"v": v, "rf": c14Ints(rf), "rs": c14Strs(rs), "s": cur})
			rep := c14Reply{apply: c14ApplyResults[v], rs: rs}
			for _, j := range rf {
				rep.rf = append(rep.rf, uint32(j))
			}
			return rep
		default: // verify
			in := c14Info{Hash: string(c14TAppHash(uint64(cur.H))), Height: cur.H, Ver: int(c14AppVer(uint64(cur.H)))}
			if useBad() {
				in.Hash = cur.Hash
			}
			r.emit("Info", map[string]interface{}{"ans": in, "s": cur})
			return c14Reply{info: abci.ResponseInfo{LastBlockAppHash: []byte(in.Hash), LastBlockHeight: int64(in.Height), AppVersion: uint64(in.Ver)}}
		}
	}
	gate := &c14Gate{auto: auto}
	fetchers := int32(1 + rng.Intn(4))
	retry := time.Duration(15+rng.Intn(40)) * time.Millisecond
	r.sy = newSyncer(c14Cfg(fetchers, retry), &c14Logger{r}, &c14App{gate}, &c14App{gate}, &c14SP{gate}, tmp)

	// peers: honest | silent | dup | wrong | late
	kinds := map[string]string{"pA": "honest", "pB": pick([]string{"honest", "silent", "dup", "late"}),
		"pC": pick([]string{"honest", "wrong", "late", "silent"})}
	peers := map[string]*c14Peer{}
	for name := range kinds {
		name := name
		peers[name] = &c14Peer{id: p2p.ID(name), onSend: func(p *c14Peer, e p2p.Envelope) {
			m, ok := e.Message.(*ssproto.ChunkRequest)
			if !ok || e.ChannelID != ChunkChannel {
				return
			}
			r.mtx.Lock()
			r.emit("Request", map[string]interface{}{"g": r.gname(), "p": name, "i": int(m.Index), "h": int(m.Height), "f": int(m.Format)})
			kind := kinds[name]
			delay := time.Duration(r.rng.Intn(3000)) * time.Microsecond
			idx := int(m.Index)
			switch kind {
			case "silent":
				r.mtx.Unlock()
				return
			case "late":
				delay += time.Duration(20+r.rng.Intn(80)) * time.Millisecond
			case "wrong":
				if r.rng.Intn(2) == 0 {
					idx = r.rng.Intn(idx + 2)
				}
			}
			n := 1
			if kind == "dup" {
				n = 2
			}
			r.mtx.Unlock()
			for k := 0; k < n; k++ {
				r.wg.Add(1)
				go func() {
					defer r.wg.Done()
					time.Sleep(delay)
					r.deliver(name, int(m.Height), int(m.Format), idx)
				}()
			}
		}}
	}
	names := []string{"pA", "pB", "pC"}
	snaps := []c14Snap{
		{H: 3, F: 1, N: 1 + rng.Intn(4), Hash: "P:hashA", Meta: "P:metaA"},
		{H: 2 + rng.Intn(2), F: 1 + rng.Intn(2), N: 1 + rng.Intn(3), Hash: "P:hashB", Meta: "P:metaB"},
		{H: 1, F: 1, N: 2, Hash: "P:hashC", Meta: "P:metaC"},
	}
	drng := rand.New(rand.NewSource(rng.Int63())) // the driver's own source (r.rng is shared under r.mtx)
	advert := func() {
		p := names[drng.Intn(len(names))]
		s := snaps[drng.Intn(len(snaps))]
		if drng.Intn(3) == 0 {
			p = "pA"
		}
		added, _ := r.sy.AddSnapshot(peers[p], s.real())
		r.mtx.Lock()
		r.emit("AddSnapshot", map[string]interface{}{"p": p, "s": s, "added": added})
		r.mtx.Unlock()
	}
	for k := 0; k < 2+drng.Intn(5); k++ {
		advert()
	}
	endc := make(chan c14End, 1)
	go func() {
		s, c, err := r.sy.SyncAny(0, func() {})
		endc <- c14End{s, c, err}
	}()
	deadline := time.After(7 * time.Second)
	tick := time.NewTicker(3 * time.Millisecond)
	defer tick.Stop()
	var end c14End
	nadv, ncome, nresc := 0, 0, 0
loop:
	for {
		select {
		case end = <-endc:
			break loop
		case <-deadline:
			// rescue: make every further app / provider call end the sync, and feed whatever
			// the applier is waiting for
			r.mtx.Lock()
			r.abort = true
			r.mtx.Unlock()
			deadline = time.After(time.Hour)
		case <-tick.C:
			r.mtx.Lock()
			ab := r.abort
			r.mtx.Unlock()
			if ab {
				if cur := r.curSnap(); cur.N > 0 {
					nresc++
					for i := 0; i < cur.N; i++ {
						r.deliver("pR"+strconv.Itoa(nresc%50), cur.H, cur.F, i)
					}
				}
			} else if nadv < 6 && drng.Intn(40) == 0 {
				nadv++
				advert()
			} else if ncome < 3 && drng.Intn(25) == 0 {
				// a rejected peer disconnects, reconnects and advertises again
				r.mtx.Lock()
				var p string
				if len(r.banned) > 0 {
					p = r.banned[drng.Intn(len(r.banned))]
				}
				r.mtx.Unlock()
				if pr, ok := peers[p]; ok {
					ncome++
					r.sy.RemovePeer(pr)
					r.mtx.Lock()
					r.emit("RemovePeer", map[string]interface{}{"p": p})
					r.mtx.Unlock()
					s := snaps[drng.Intn(len(snaps))]
					if drng.Intn(2) == 0 {
						s = c14Snap{H: 4, F: 1, N: 1 + drng.Intn(2), Hash: "P:hashZ", Meta: "P:metaZ"}
					}
					added, _ := r.sy.AddSnapshot(pr, s.real())
					r.mtx.Lock()
					r.emit("AddSnapshot", map[string]interface{}{"p": p, "s": s, "added": added})
					r.mtx.Unlock()
				}
			}
		}
	}
	r.wg.Wait()
	time.Sleep(time.Duration(2*retry) + 5*time.Millisecond) // let cancelled fetchers log their last steps
	kind := "fatal"
	switch {
	case end.err == nil:
		kind = "done"
	case errors.Is(end.err, errNoSnapshots):
		kind = "nosnapshots"
	case errors.Is(end.err, errAbort):
		kind = "abort"
	}
	r.mtx.Lock()
	// the End line is ordered after the applier's last call; late fetcher lines may follow it
	r.emit("End", map[string]interface{}{"kind": kind, "st": c14AbsState(end.state), "cm": c14AbsCommit(end.commit)})
	rows := r.rows
	r.mtx.Unlock()
	w.flush(rows)
}
