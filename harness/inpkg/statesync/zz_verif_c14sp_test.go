//go:build verif

package statesync

// C14 harness, second part: the REAL lightClientStateProvider (stateprovider.go) on top of a
// real light.Client over scripted providers.  It observes which light-verified blocks the
// answers AppHash(h) / State(h) / Commit(h) are taken from (header h+1 for the app hash,
// blocks h, h+1, h+2 for the state, block h for the commit) and what happens when the
// primary or the RPC server lies.  Mode "P" lines of the trace; TLC judges them
// (spec/trace/TMStateSyncTrace.tla StepP against TMStateSyncOps SPAppHashOf / SPStateOf /
// SPCommitOf).  No verdicts here.

import (
	"context"
	"encoding/hex"
	"fmt"
	"net/http"
	"net/http/httptest"
	"os"
	"strconv"
	"strings"
	"testing"
	"time"

	dbm "github.com/tendermint/tm-db"

	"github.com/tendermint/tendermint/crypto/tmhash"
	"github.com/tendermint/tendermint/libs/log"
	"github.com/tendermint/tendermint/light"
	lightprovider "github.com/tendermint/tendermint/light/provider"
	lightmock "github.com/tendermint/tendermint/light/provider/mock"
	lightdb "github.com/tendermint/tendermint/light/store/db"
	tmstate "github.com/tendermint/tendermint/proto/tendermint/state"
	tmproto "github.com/tendermint/tendermint/proto/tendermint/types"
	tmversion "github.com/tendermint/tendermint/proto/tendermint/version"
	ctypes "github.com/tendermint/tendermint/rpc/core/types"
	rpcserver "github.com/tendermint/tendermint/rpc/jsonrpc/server"
	rpctypes "github.com/tendermint/tendermint/rpc/jsonrpc/types"
	sm "github.com/tendermint/tendermint/state"
	"github.com/tendermint/tendermint/types"
	"github.com/tendermint/tendermint/version"
)

const c14spChain = "T:chain"

type c14spNames struct{ m map[string]string }

func (n *c14spNames) set(b []byte, name string) []byte {
	n.m[hex.EncodeToString(b)] = name
	return b
}
func (n *c14spNames) of(b []byte) string {
	if len(b) == 0 {
		return "nil"
	}
	if s, ok := n.m[hex.EncodeToString(b)]; ok {
		return s
	}
	return "X:" + hex.EncodeToString(b[:c14spMin(len(b), 6)])
}
func c14spMin(a, b int) int {
	if a < b {
		return a
	}
	return b
}

type c14spWorld struct {
	names   *c14spNames
	vals    map[int64]*types.ValidatorSet
	pvs     map[int64][]types.PrivValidator
	headers map[int64]*types.SignedHeader
	params  tmproto.ConsensusParams
	maxH    int64
	t0      time.Time
}

func c14spHash32(s string) []byte { return tmhash.Sum([]byte(s)) }

// an honest chain 1..maxH; every height has its own validator set, app hash, results hash
// and app version, so that a value taken from the wrong block shows
func newC14spWorld(maxH int64, variant string, base *c14spWorld) *c14spWorld {
	w := &c14spWorld{names: &c14spNames{m: map[string]string{}}, vals: map[int64]*types.ValidatorSet{},
		pvs: map[int64][]types.PrivValidator{}, headers: map[int64]*types.SignedHeader{}, maxH: maxH,
		params: *types.DefaultConsensusParams(), t0: time.Now().Add(-2 * time.Hour).Truncate(time.Second)}
	if base != nil {
		w.names, w.vals, w.pvs, w.t0 = base.names, base.vals, base.pvs, base.t0
	} else {
		for h := int64(1); h <= maxH+1; h++ {
			vs, pv := types.RandValidatorSet(2, 10)
			w.vals[h], w.pvs[h] = vs, pv
			w.names.set(vs.Hash(), "T:v"+strconv.FormatInt(h, 10))
		}
	}
	var last types.BlockID
	for h := int64(1); h <= maxH; h++ {
		hs := strconv.FormatInt(h-1, 10)
		variant := variant
		if h < 3 {
			variant = "" // the histories share heights 1 and 2
		}
		apphash := []byte("T:ah" + hs)
		if variant == "fork" && h >= 3 {
			apphash = []byte("P:forkah" + hs)
		}
		hdr := &types.Header{
			Version: tmversion.Consensus{Block: version.BlockProtocol, App: uint64(10 + h - 1)},
			ChainID: c14spChain, Height: h, Time: w.t0.Add(time.Duration(h) * time.Minute),
			LastBlockID: last, LastCommitHash: c14spHash32("lc" + hs), DataHash: c14spHash32("d" + hs),
			ValidatorsHash: w.vals[h].Hash(), NextValidatorsHash: w.vals[h+1].Hash(),
			ConsensusHash: types.HashConsensusParams(w.params), AppHash: apphash,
			LastResultsHash: w.names.set(c14spHash32("lrh"+hs+variant), "T:lrh"+hs),
			EvidenceHash:    c14spHash32("e" + hs), ProposerAddress: w.vals[h].Proposer.Address,
		}
		if variant == "fork" && h >= 3 {
			w.names.set(hdr.LastResultsHash, "P:forklrh"+hs)
		}
		bid := types.BlockID{Hash: hdr.Hash(), PartSetHeader: types.PartSetHeader{Total: 1, Hash: c14spHash32("ps" + hs + variant)}}
		name := "T:bid" + strconv.FormatInt(h, 10)
		if variant == "fork" && h >= 3 {
			name = "P:forkbid" + strconv.FormatInt(h, 10)
		}
		w.names.set(bid.Hash, name)
		vset := types.NewVoteSet(c14spChain, h, 0, 2 /* precommit */, w.vals[h])
		commit, err := types.MakeCommit(bid, h, 0, vset, w.pvs[h], hdr.Time.Add(time.Second))
		if err != nil {
			panic(err)
		}
		w.headers[h] = &types.SignedHeader{Header: hdr, Commit: commit}
		last = bid
	}
	return w
}

func (w *c14spWorld) provider(lie string, at int64) *lightmock.Mock {
	hs := map[int64]*types.SignedHeader{}
	vs := map[int64]*types.ValidatorSet{}
	for h, sh := range w.headers {
		hs[h], vs[h] = sh, w.vals[h]
	}
	switch lie {
	case "apphash": // header at `at` with another app hash, commit of the genuine one
		g := w.headers[at]
		hc := *g.Header
		hc.AppHash = []byte("P:liedah")
		hs[at] = &types.SignedHeader{Header: &hc, Commit: g.Commit}
	case "missing":
		delete(hs, at)
		delete(vs, at)
	}
	return lightmock.New(c14spChain, hs, vs)
}

func (w *c14spWorld) absChain() []map[string]interface{} {
	out := []map[string]interface{}{}
	for h := int64(1); h <= w.maxH; h++ {
		sh := w.headers[h]
		out = append(out, map[string]interface{}{"h": int(h), "apphash": c14Str(sh.AppHash), "appver": int(sh.Version.App),
			"lrh": w.names.of(sh.LastResultsHash), "vals": w.names.of(sh.ValidatorsHash), "bid": w.names.of(sh.Commit.BlockID.Hash)})
	}
	return out
}

type c14spCase struct {
	Call     string `json:"call"`
	H        int    `json:"h"`
	Lie      string `json:"lie"`     // none | apphash | missing | fork_primary | fork_witness | params
	At       int    `json:"at"`      // height the lie is about
}

func TestVerifC14SP(t *testing.T) {
	outDir := os.Getenv("VERIF_OUT")
	if outDir == "" {
		t.Skip("VERIF_OUT not set")
	}
	w := newC14Writer(outDir + "/p.ndjson")
	const maxH = 7
	honest := newC14spWorld(maxH, "", nil)
	fork := newC14spWorld(maxH, "fork", honest) // same validators sign another history from height 3 on

	var cases []c14spCase
	for _, call := range []string{"apphash", "state", "commit"} {
		for h := 1; h <= 6; h++ {
			cases = append(cases, c14spCase{Call: call, H: h, Lie: "none"})
		}
		for _, lie := range []string{"apphash", "missing"} {
			for at := 3; at <= 6; at++ {
				cases = append(cases, c14spCase{Call: call, H: 3, Lie: lie, At: at})
				cases = append(cases, c14spCase{Call: call, H: 4, Lie: lie, At: at})
			}
		}
		for _, lie := range []string{"fork_primary", "fork_witness"} {
			cases = append(cases, c14spCase{Call: call, H: 3, Lie: lie, At: 3}, c14spCase{Call: call, H: 4, Lie: lie, At: 3})
		}
	}
	cases = append(cases, c14spCase{Call: "state", H: 3, Lie: "params", At: 4}, c14spCase{Call: "state", H: 2, Lie: "params", At: 3})

	rows := []map[string]interface{}{}
	for ci, c := range cases {
		var primary, witness lightprovider.Provider
		switch c.Lie {
		case "fork_primary":
			primary, witness = fork.provider("", 0), honest.provider("", 0)
		case "fork_witness":
			primary, witness = honest.provider("", 0), fork.provider("", 0)
		case "apphash", "missing":
			primary, witness = honest.provider(c.Lie, int64(c.At)), honest.provider("", 0)
		default:
			primary, witness = honest.provider("", 0), honest.provider("", 0)
		}
		params := honest.params
		if c.Lie == "params" {
			params.Block.MaxBytes++
		}
		mux := http.NewServeMux()
		rpcserver.RegisterRPCFuncs(mux, map[string]*rpcserver.RPCFunc{
			"consensus_params": rpcserver.NewRPCFunc(func(ctx *rpctypes.Context, height *int64) (*ctypes.ResultConsensusParams, error) {
				hh := int64(maxH)
				if height != nil {
					hh = *height
				}
				return &ctypes.ResultConsensusParams{BlockHeight: hh, ConsensusParams: params}, nil
			}, "height"),
		}, log.NewNopLogger())
		srv := httptest.NewServer(mux)

		ctx, cancel := context.WithTimeout(context.Background(), 20*time.Second)
		lc, err := light.NewClient(ctx, c14spChain,
			light.TrustOptions{Period: 1000 * time.Hour, Height: 1, Hash: honest.headers[1].Hash()},
			primary, []lightprovider.Provider{witness}, lightdb.New(dbm.NewMemDB(), ""),
			light.SequentialVerification(), light.MaxRetryAttempts(1), light.Logger(log.NewNopLogger()))
		row := map[string]interface{}{"ev": "SP", "mode": "P", "run": ci + 1, "call": c.Call, "h": c.H, "lie": c.Lie, "at": c.At,
			"chain": honest.absChain(), "ok": false, "hash": "nil", "st": c14AbsState(sm.State{}), "cm": c14AbsCommit(nil)}
		if err != nil {
			row["err"] = "newclient: " + err.Error()
		} else {
			sp := &lightClientStateProvider{lc: lc, version: tmstate.Version{Consensus: tmversion.Consensus{Block: version.BlockProtocol}},
				initialHeight: 1, providers: map[lightprovider.Provider]string{primary: srv.URL, witness: srv.URL}}
			switch c.Call {
			case "apphash":
				hash, err := sp.AppHash(ctx, uint64(c.H))
				if err == nil {
					row["ok"], row["hash"] = true, c14Str(hash)
				} else {
					row["err"] = err.Error()
				}
			case "commit":
				cm, err := sp.Commit(ctx, uint64(c.H))
				if err == nil {
					row["ok"] = true
					row["cm"] = map[string]interface{}{"height": int(cm.Height), "bid": honest.names.of(cm.BlockID.Hash)}
				} else {
					row["err"] = err.Error()
				}
			case "state":
				st, err := sp.State(ctx, uint64(c.H))
				if err == nil {
					row["ok"] = true
					row["st"] = map[string]interface{}{
						"height": int(st.LastBlockHeight), "apphash": c14Str(st.AppHash), "appver": int(st.Version.Consensus.App),
						"lbid": honest.names.of(st.LastBlockID.Hash), "lrh": honest.names.of(st.LastResultsHash),
						"lastvals": c14spValName(honest.names, st.LastValidators), "vals": c14spValName(honest.names, st.Validators),
						"nextvals": c14spValName(honest.names, st.NextValidators), "chain": st.ChainID,
					}
				} else {
					row["err"] = err.Error()
				}
			}
		}
		if _, ok := row["err"]; !ok {
			row["err"] = "none"
		} else {
			s := strings.Join(strings.Fields(row["err"].(string)), " ")
			if len(s) > 160 {
				s = s[:160]
			}
			row["err"] = s
		}
		cancel()
		srv.Close()
		rows = append(rows, map[string]interface{}{"ev": "Reset", "run": ci + 1, "mode": "P", "sched": fmt.Sprintf("sp/%s/%d/%s/%d", c.Call, c.H, c.Lie, c.At)})
		rows = append(rows, row)
	}
	w.flush(rows)
	w.f.Close()
	t.Logf("C14 state-provider harness: %d cases", len(cases))
}

func c14spValName(n *c14spNames, v *types.ValidatorSet) string {
	if v == nil {
		return "nil"
	}
	return n.of(v.Hash())
}

